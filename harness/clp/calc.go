package main

// family "calc": L0 correspondence on the exported pure calculators of x/clp/keeper.

import (
	"fmt"
	"math/big"

	clpkeeper "github.com/Sifchain/sifnode/x/clp/keeper"
	sdk "github.com/cosmos/cosmos-sdk/types"
)

func decRaw(i *big.Int) sdk.Dec { return sdk.NewDecFromBigIntWithPrec(i, 18) }
func uintOf(i *big.Int) sdk.Uint { return sdk.NewUintFromBigInt(i) }

func b2s(b bool) string {
	if b {
		return "1"
	}
	return "0"
}

func init() {
	families["calc"] = func(rng *Rng, n int, out *Out, replay string) {
		for k := 0; k < n; k++ {
			toRowan := rng.Bool()
			X := rng.Amount(110)
			Y := rng.Amount(110)
			var x *big.Int
			switch rng.Intn(4) {
			case 0:
				x = rng.Near(X)
			case 1:
				x = rng.Amount(128)
			default:
				x = rng.Amount(110)
			}
			r := rng.RateNonNeg()
			f := rng.Rate01()
			op := fmt.Sprintf("calcswap %s %s %s %s %s %s", b2s(toRowan), X, x, Y, r, f)
			ans := protect(func() string {
				y, fee := clpkeeper.CalcSwapResult(toRowan, uintOf(X), uintOf(x), uintOf(Y), decRaw(r), decRaw(f))
				return fmt.Sprintf("ok %s %s", y, fee)
			})
			cls := "calcswap.ok"
			if ans == "panic" {
				cls = "calcswap.panic"
			} else if ans == "ok 0 0" {
				cls = "calcswap.zero"
			}
			out.Emit(op, ans, cls, cls == "calcswap.ok")
			if ans != "panic" {
				// the implementation's own output, judged by the Lean predicate of Sif/Spec/C03
				var y, fee string
				fmt.Sscanf(ans, "ok %s %s", &y, &fee)
				out.Emit(fmt.Sprintf("chk c03.leg tag=calcswap.bound %s %s %s %s %s %s %s", b2s(toRowan), X, x, Y, r, f, y), "true", "chk.leg", false)
			}
		}
	}
}
