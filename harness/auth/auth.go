package main

// family "auth" (C08, tie 2): the real msg servers of x/admin, x/tokenregistry, x/clp, x/margin and
// x/ethbridge, called in-process on a cached context per message (written back only on success —
// baseapp's discipline), over the matrix
//     30 privileged message types × signer classes {no role, each of the six admin roles, several
//     roles, oracle admin, clp whitelist member} × a role table evolving under AddAccount/RemoveAccount.
//
//   cfg …                                      the three role stores as found after genesis / set-up → ok
//   msg <module> <handler> <signer> [role addr] → ok | err           the model of the role table must agree
//   chk c08.guard.<module>.<handler> tag=auth.<module>.<handler> <module> <handler> <signer> <ok|err> <changed>
//        <changed> = whether a hash over EVERY key/value of EVERY store of the multistore differs after
//        the handler returned (on the message's own cache, before any rollback); the Lean predicate
//        says: signer not holding what the guard asks ⇒ err and unchanged.
//
// The payloads are valid, so that an authorised signer's message succeeds; the two handlers that need a
// margin position (ForceClose, AdminClose) are judged exactly in the margin-world probes at the start and, once the
// positions are closed, only by `chk` lines (an authorised signer gets a
// "position not found" error there).

import (
	"bytes"
	"crypto/sha256"
	"encoding/hex"
	"fmt"
	"sort"
	"strings"

	sifapp "github.com/Sifchain/sifnode/app"
	admintypes "github.com/Sifchain/sifnode/x/admin/types"
	clpkeeper "github.com/Sifchain/sifnode/x/clp/keeper"
	clptypes "github.com/Sifchain/sifnode/x/clp/types"
	ethtypes "github.com/Sifchain/sifnode/x/ethbridge/types"
	marginkeeper "github.com/Sifchain/sifnode/x/margin/keeper"
	margintypes "github.com/Sifchain/sifnode/x/margin/types"
	oracletypes "github.com/Sifchain/sifnode/x/oracle/types"
	trtypes "github.com/Sifchain/sifnode/x/tokenregistry/types"
	"github.com/cosmos/cosmos-sdk/store/rootmulti"
	storetypes "github.com/cosmos/cosmos-sdk/store/types"
	sdk "github.com/cosmos/cosmos-sdk/types"
	minttypes "github.com/cosmos/cosmos-sdk/x/mint/types"
	tmproto "github.com/tendermint/tendermint/proto/tendermint/types"
)

type handlerCase struct {
	module, name string
	lenient      bool // success of an authorised signer not guaranteed: chk lines only
	build        func(ctx sdk.Context, signer string, k int) sdk.Msg
	payload      func(k int) (string, string) // role, address of AddAccount / RemoveAccount
}

// hashStores hashes every key/value pair of every store mounted in the multistore, as seen through ctx.
func hashStores(ctx sdk.Context, keys []storetypes.StoreKey) string {
	h := sha256.New()
	for _, k := range keys {
		st := ctx.MultiStore().GetKVStore(k)
		h.Write([]byte("\x00store:" + k.Name() + "\x00"))
		it := st.Iterator(nil, nil)
		for ; it.Valid(); it.Next() {
			kb, vb := it.Key(), it.Value()
			fmt.Fprintf(h, "%d:", len(kb))
			h.Write(kb)
			fmt.Fprintf(h, "%d:", len(vb))
			h.Write(vb)
		}
		it.Close()
	}
	return hex.EncodeToString(h.Sum(nil))
}

func init() {
	// two worlds per run: (0) every role store populated; (1) the single-value admin field left EMPTY (oracle admin, as in
	// the default oracle genesis — no message can set it later) and a clp whitelist that lists only a stranger.  `reset`
	// starts a new history for the model.
	// (2) a sparse world on the main-net chain id: ADMIN for two accounts, ETHBRIDGE for one of the addresses compiled
	// into x/admin/types — every other role has NO stored holder.
	families["auth"] = func(rng *Rng, n int, out *Out, replay string) {
		authWorld(rng, n*2/5, out, replay, 0)
		out.Emit("reset", "ok", "reset", false)
		authWorld(rng, n*7/10, out, replay, 1)
		out.Emit("reset", "ok", "reset", false)
		authWorld(rng, n, out, replay, 2)
	}
}

func authWorld(rng *Rng, n int, out *Out, replay string, variant int) {
	{
		sifapp.SetConfig(false)
		// accounts
		var addrs []sdk.AccAddress
		for i := 0; i < 14; i++ {
			addrs = append(addrs, sdk.AccAddress([]byte(fmt.Sprintf("c08_account_%02d______", i))[:20]))
		}
		// … plus the addresses compiled into the repository (x/admin/types ProdAdminAccounts / InitialAdminAccounts)
		addrs = append(addrs, builtinAdmins()...)
		NACC := len(addrs)
		chainID := worldChainID(rng, variant)
		out.Extra[fmt.Sprintf("world%d_chain_id", variant)] = chainID
		out.Extra["accounts"] = NACC
		// the role stores come from the genesis file, in a mix of spellings (see roleGenesis)
		app := sifapp.SetupFromGenesis(false, func(app *sifapp.SifchainApp, gs sifapp.GenesisState) sifapp.GenesisState {
			return roleGenesis(app, gs, addrs, rng, variant)
		})
		ctx := app.BaseApp.NewContext(false, tmproto.Header{Height: 5, ChainID: chainID})
		rs, ok := app.CommitMultiStore().(*rootmulti.Store)
		if !ok {
			panic("multistore is not a rootmulti.Store")
		}
		var keys []storetypes.StoreKey
		for k, s := range rs.GetStores() {
			if s.GetStoreType() == storetypes.StoreTypeIAVL || s.GetStoreType() == storetypes.StoreTypeDB {
				keys = append(keys, k)
			}
		}
		sort.Slice(keys, func(i, j int) bool { return keys[i].Name() < keys[j].Name() })
		out.Extra["stores_hashed"] = len(keys)

		for _, a := range addrs {
			app.AccountKeeper.SetAccount(ctx, app.AccountKeeper.NewAccountWithAddress(ctx, a))
		}
		roles := authRoles
		// ceth for RescueCeth
		ceth := sdk.NewCoins(sdk.NewCoin(ethtypes.CethSymbol, sdk.NewInt(1000000000)))
		if err := app.BankKeeper.MintCoins(ctx, ethtypes.ModuleName, ceth); err != nil {
			panic(err)
		}

		// the role stores as the implementation holds them after genesis → cfg lines
		emitRoleStores(app, ctx, out)

		cases := mkCases(app, addrs)
		out.Extra["handlers"] = len(cases)

		run := func(hc handlerCase, signer sdk.AccAddress, k int) {
			// DecommissionPool needs an empty small pool: make sure it exists (set-up, not part of the message)
			if hc.name == "DecommissionPool" {
				if _, err := app.ClpKeeper.GetPool(ctx, "cdecom"); err != nil {
					asset := clptypes.NewAsset("cdecom")
					pool := clptypes.NewPool(&asset, sdk.NewUint(0), sdk.NewUint(0), sdk.NewUint(0))
					if err := app.ClpKeeper.SetPool(ctx, &pool); err != nil {
						panic(err)
					}
				}
			}
			signerStr := signer.String()
			if k%5 == 3 {
				signerStr = upperOf(signer) // the Signer field in its upper-case spelling: the same account
			}
			cctx, write := ctx.CacheContext()
			stored := storedAuth(app, cctx, signer)
			before := hashStores(cctx, keys)
			res := protect(func() string {
				msg := hc.build(cctx, signerStr, k)
				h := app.MsgServiceRouter().Handler(msg) // the route baseapp itself uses
				if h == nil {
					panic("no route for " + sdk.MsgTypeURL(msg))
				}
				if _, err := h(cctx, msg); err != nil {
					return "err"
				}
				return "ok"
			})
			changed := hashStores(cctx, keys) != before
			if res == "ok" {
				write()
			}
			op := fmt.Sprintf("msg %s %s %s", hc.module, hc.name, signerStr)
			if hc.payload != nil {
				r, a := hc.payload(k)
				op += " " + r + " " + a + " " + canonOf(a)
			}
			cls := fmt.Sprintf("%s.%s.%s", hc.module, hc.name, res)
			// the chk line comes first: the predicate is judged against the role stores the message met,
			// the msg line then moves the model's role table
			out.Emit(fmt.Sprintf("chk c08.guard.%s.%s tag=auth.%s.%s %s %s %s %s %s", hc.module, hc.name, hc.module, hc.name, hc.module, hc.name, signerStr, res, b2s(changed)),
				"true", "chk.guard", false)
			// on the property's own terms, from the implementation alone: accepted ⇒ the signer holds the role AS STORED
			out.Emit(fmt.Sprintf("chk c08.stored.%s.%s tag=auth.stored.%s.%s %s %s %s %s", hc.module, hc.name, hc.module, hc.name, hc.module, hc.name, res, stored),
				"true", "chk.stored", false)
			if !hc.lenient {
				out.Emit(op, res, cls, true)
			} else {
				out.Hist[cls+".lenient"]++
			}
			// "removing a role takes effect for the very next message", judged on the implementation: after an accepted
			// RemoveAccount(role, spelling) ask the real keeper whether the account that spelling denotes still holds the role
			if hc.name == "RemoveAccount" && res == "ok" {
				role, raw := hc.payload(k)
				if acc, err := sdk.AccAddressFromBech32(raw); err == nil {
					still := app.AdminKeeper.IsAdminAccount(ctx, admintypes.AdminType(admintypes.AdminType_value[role]), acc)
					out.Emit(fmt.Sprintf("chk c08.removed tag=auth.admin.RemoveAccount.stillholds %s %s %s", role, raw, b2s(still)), "true", "chk.removed", false)
				}
			}
		}

		// a multi-message transaction (kind "tx": written back only if every message succeeded — baseapp's discipline)
		// or a simulation (kind "sim": the branch is never written back)
		runTx := func(kind string, signer sdk.AccAddress, items []txItem) {
			cctx, write := ctx.CacheContext()
			res := "ok"
			descr := ""
			for _, it := range items {
				descr += " " + it.descr(signer.String())
				if res != "ok" {
					continue // baseapp stops at the first failing message
				}
				it := it
				res = protect(func() string {
					msg := it.hc.build(cctx, signer.String(), it.k)
					if _, err := app.MsgServiceRouter().Handler(msg)(cctx, msg); err != nil {
						return "err"
					}
					return "ok"
				})
			}
			if kind == "tx" && res == "ok" {
				write()
			}
			out.Emit(fmt.Sprintf("%s %d%s", kind, len(items), descr), res, "branch."+kind+"."+res, true)
		}

		// the margin world: two unhealthy LONG positions, epoch length 10, height 13 (off the epoch boundary)
		marginWorld(app, func(h int64) sdk.Context {
			ctx = ctx.WithBlockHeight(h)
			app.MarginKeeper.BeginBlocker(ctx)
			return ctx
		}, 10, 10)
		// probes: every account sends MsgForceClose (position 1) and MsgAdminClose (position 2) on a branch that is never
		// written back, so every probe meets the same state, in which an authorised signer's message succeeds
		for _, hc := range cases {
			if !hc.lenient {
				continue
			}
			for i, a := range addrs {
				cctx, _ := ctx.CacheContext()
				stored := storedAuth(app, cctx, a)
				before := hashStores(cctx, keys)
				hc := hc
				res := protect(func() string {
					msg := hc.build(cctx, a.String(), i)
					if _, err := app.MsgServiceRouter().Handler(msg)(cctx, msg); err != nil {
						return "err"
					}
					return "ok"
				})
				changed := hashStores(cctx, keys) != before
				out.Emit(fmt.Sprintf("chk c08.guard.%s.%s tag=auth.%s.%s %s %s %s %s %s", hc.module, hc.name, hc.module, hc.name, hc.module, hc.name, a.String(), res, b2s(changed)), "true", "chk.guard", false)
				out.Emit(fmt.Sprintf("chk c08.stored.%s.%s tag=auth.stored.%s.%s %s %s %s %s", hc.module, hc.name, hc.module, hc.name, hc.module, hc.name, res, stored), "true", "chk.stored", false)
				out.Emit(fmt.Sprintf("sim 1 %s %s %s - - -", hc.module, hc.name, a.String()), res, fmt.Sprintf("probe.%s.%s", hc.name, res), true)
			}
		}

		// phase 1: the full matrix handler × signer on the initial table
		k := 0
		for _, hc := range cases {
			if hc.name == "AddAccount" || hc.name == "RemoveAccount" {
				continue // they change the table: phase 2
			}
			for _, a := range addrs {
				run(hc, a, k)
				k++
			}
		}
		if variant == 2 && NACC > 14 {
			// the last stored holder of a role is removed: its very next message is refused (ETHBRIDGE is role 3, account 14)
			var setPause handlerCase
			for _, hc := range cases {
				if hc.name == "SetPause" {
					setPause = hc
				}
			}
			run(setPause, addrs[14], 1)
			run(cases[1], addrs[10], 3+6*14)
			run(setPause, addrs[14], 2)
			for _, a := range addrs[14:] {
				run(setPause, a, 4)
			}
		}
		// phase 2: the table evolves; after every AddAccount / RemoveAccount attempt, a burst of messages
		// whose signers include the account just granted / revoked
		// directed: grant / use / remove / use, for an account named in upper case (12) and one named in lower case (11);
		// k = roleIndex + 6*accountIndex selects the payload; MARGIN is role 5, UpdatePools is a MARGIN handler
		var updatePools handlerCase
		for _, hc := range cases {
			if hc.name == "UpdatePools" {
				updatePools = hc
			}
		}
		// an entry imported by genesis in upper case (MARGIN for 11): use, accepted removal under the canonical spelling, use
		run(updatePools, addrs[11], 6*11)
		run(cases[1], addrs[10], 5+6*11)
		run(updatePools, addrs[11], 6*11+1)
		reimportAdmin(app, ctx)
		out.Emit("reimport", "ok", "reimport", false)
		run(updatePools, addrs[11], 6*11+2)
		span := 6 * NACC
		for _, sp := range []int{0, 5} { // named in lower case / in upper case throughout
			acct := 11 + sp/5
			kk := 5 + 6*acct + sp*span
			run(cases[0], addrs[10], kk)          // AddAccount(MARGIN, acct) by an ADMIN
			run(updatePools, addrs[acct], 6*acct) // use
			run(cases[1], addrs[10], kk)          // RemoveAccount(MARGIN, acct), same spelling
			run(updatePools, addrs[acct], 6*acct) // the very next message of acct
		}
		// mixed (F24): granted in lower case, removal attempted in upper case, then in lower case
		run(cases[0], addrs[10], 5+6*13)
		run(cases[1], addrs[10], 5+6*13+5*span)
		run(updatePools, addrs[13], 6*13)
		run(cases[1], addrs[10], 5+6*13)
		run(updatePools, addrs[13], 6*13)
		for out.N < n {
			k++
			if rng.Chance(1, 40) {
				reimportAdmin(app, ctx) // export → import round trip of the role table in the middle of the history
				out.Emit("reimport", "ok", "reimport", false)
			}
			if rng.Chance(1, 4) {
				// a state branch that is dropped — a transaction whose later message fails, a simulation — after a grant
				// (or removal) and a role lookup on it; then, in a later transaction, a privileged message of the account
				items, kind, acct, follow := branchScenario(rng, cases, NACC)
				adm := addrs[[]int{4, 10, 10, rng.Intn(NACC)}[rng.Intn(4)]]
				runTx(kind, adm, items)
				run(follow, addrs[acct], k)
				continue
			}
			var hc handlerCase
			if rng.Chance(1, 2) {
				hc = cases[0]
			} else {
				hc = cases[1]
			}
			// signer of the table change: mostly an ADMIN holder (4 or 10), sometimes anybody
			s := addrs[[]int{4, 10, 4, 10, 10, rng.Intn(NACC)}[rng.Intn(6)]]
			kk := rng.Intn(len(roles) * NACC * 8)
			run(hc, s, kk)
			target := addrs[(kk/len(roles))%NACC]
			for j := 0; j < 6; j++ {
				h2 := cases[2+rng.Intn(len(cases)-2)]
				who := target
				if j >= 3 {
					who = addrs[rng.Intn(NACC)]
				}
				run(h2, who, k+j)
			}
		}
		if variant == 2 {
			// endgame of the sparse world: the ADMIN holders go down to one and then to zero — each removal by the last
			// one standing, which finally retires itself — and the retired accounts try the admin module's messages
			adminEndgame(adminHolders(app, ctx, addrs), len(addrs), cases, func(hc handlerCase, signer int, k int) { run(hc, addrs[signer], k) })
		}
	}
}

// adminHolders: the indices of the accounts that hold ADMIN according to the raw store (canonical entries only) —
// steering for the generator, not a judge
func adminHolders(app *sifapp.SifchainApp, ctx sdk.Context, addrs []sdk.AccAddress) []int {
	var res []int
	st := ctx.KVStore(app.GetKey(admintypes.StoreKey))
	for i, a := range addrs {
		if st.Has(append(append([]byte{}, admintypes.AdminAccountStorePrefix...), []byte("ADMIN_"+a.String())...)) {
			res = append(res, i)
		}
	}
	return res
}

// adminEndgame: holders (at most 14 of them can sign) remove one another until nobody holds ADMIN; `send` delivers one
// message.  Payload index 4 + 6*i = (ADMIN, account i, canonical spelling).
func adminEndgame(holders []int, nacc int, cases []handlerCase, send func(hc handlerCase, signer int, k int)) {
	var signers, others []int
	for _, h := range holders {
		if h < 14 {
			signers = append(signers, h)
		} else {
			others = append(others, h)
		}
	}
	if len(signers) == 0 {
		return
	}
	var setParams handlerCase
	for _, hc := range cases {
		if hc.name == "SetParams" {
			setParams = hc
		}
	}
	last := signers[0]
	for _, h := range append(others, signers[1:]...) {
		send(cases[1], last, 4+6*h) // RemoveAccount(ADMIN, h) by the one that will stand last
		send(setParams, h, h)       // the removed account's very next message
	}
	send(setParams, last, 1)       // still the one ADMIN
	send(cases[1], last, 4+6*last) // … retires itself: accepted
	send(setParams, last, 2)       // and is refused from now on
	send(cases[0], last, 4+6*last) // cannot grant itself the role again
	send(cases[1], last, 4+6*last) // nor "remove" anything
	for _, h := range holders {
		send(setParams, h, 3)
	}
}

// Spellings.  bech32 is case-insensitive as long as the case is not mixed: "SIF1…" decodes to the same account as
// "sif1…", but AccAddress.String() always yields the lower-case form.  The role table of x/admin is keyed by the
// string it is given, so spellings are a dimension of the matrix: AddAccount / RemoveAccount name accounts in lower
// case, in upper case or by a string that is no address, independently per message (so a role may be granted under
// one spelling and removed under another); other address-typed payload fields and the Signer field itself use the
// upper-case form now and then.
// storedAuth reads, from the RAW key/value pairs of the three role stores as seen through ctx (never through
// IsAdminAccount / ValidateAddress), what the account holds: the admin roles whose key "<TYPE>_<address>" names it
// (its canonical string or any other valid spelling: whether the code honours other spellings is its business — what it
// must not do is accept a signer no stored entry denotes; irrevocable entries are caught by chk c08.removed), whether the oracle admin entry is its bytes, whether the clp whitelist entry lists its string.
func storedAuth(app *sifapp.SifchainApp, ctx sdk.Context, a sdk.AccAddress) string {
	var roles []string
	st := ctx.KVStore(app.GetKey(admintypes.StoreKey))
	it := sdk.KVStorePrefixIterator(st, admintypes.AdminAccountStorePrefix)
	for ; it.Valid(); it.Next() {
		key := string(it.Key()[len(admintypes.AdminAccountStorePrefix):])
		if i := strings.Index(key, "_"); i >= 0 {
			// the stored string denotes the account: its canonical string, or another valid spelling of it
			denotes := key[i+1:] == a.String()
			if acc, err := sdk.AccAddressFromBech32(key[i+1:]); err == nil && acc.Equals(a) {
				denotes = true
			}
			if denotes {
				roles = append(roles, key[:i])
			}
		}
	}
	it.Close()
	sort.Strings(roles)
	r := "-"
	if len(roles) > 0 {
		r = strings.Join(roles, ",")
	}
	// oracle admin: gogotypes.BytesValue{Value: addr} = 0x0a <len> <addr bytes>
	ov := ctx.KVStore(app.GetKey(oracletypes.StoreKey)).Get(oracletypes.AdminAccountPrefix)
	oracle := bytes.Equal(ov, append([]byte{0x0a, byte(len(a))}, a...))
	// clp whitelist: a list of bech32 strings
	cv := ctx.KVStore(app.GetKey(clptypes.StoreKey)).Get(clptypes.WhiteListValidatorPrefix)
	clp := bytes.Contains(cv, []byte(a.String()))
	return r + " " + b2s(oracle) + " " + b2s(clp)
}

// probeTrader owns the two margin positions (ids 1 and 2) the ForceClose / AdminClose messages of the matrix name.
var probeTrader string // set by marginWorld (after the bech32 prefixes are configured)

// marginWorld prepares (set-up through the keepers and the real Open / Swap handlers, not part of the judged history) a
// state in which MsgForceClose and MsgAdminClose SUCCEED for an authorised signer, so that for everybody else the guard
// is the only thing that refuses: margin enabled on pool "xxx" (1e26 / 1e26), the given epoch length, safety factor
// 1.05; the trader opens two 2x LONG positions with rowan collateral; a whale then swaps 6e25 xxx into the pool, the
// price of xxx more than halves and both positions are unhealthy.  `at(h)` moves to block h (and runs what a block
// start runs); the probes must happen at a height that is not a multiple of the epoch length.
func marginWorld(app *sifapp.SifchainApp, at func(h int64) sdk.Context, h0 int64, epochLength int64) {
	const ext = "xxx"
	trader := sdk.AccAddress([]byte("c08_margin_trader___"))
	probeTrader = trader.String()
	whale := sdk.AccAddress([]byte("c08_margin_whale____"))
	ctx := at(h0)
	app.ClpKeeper.SetSwapFeeParams(ctx, clptypes.GetDefaultSwapFeeParams())
	for _, d := range []string{ext, clptypes.NativeSymbol} {
		app.TokenRegistryKeeper.SetToken(ctx, &trtypes.RegistryEntry{Denom: d, Decimals: 18, Permissions: []trtypes.Permission{trtypes.Permission_CLP}})
	}
	fund := "sif1syavy2npfyt9tcncdtsdzf7kny9lh777yqc2nd"
	params := margintypes.Params{
		LeverageMax: sdk.NewDec(2), InterestRateMax: sdk.NewDec(1), InterestRateMin: sdk.NewDecWithPrec(1, 1),
		InterestRateIncrease: sdk.NewDecWithPrec(1, 1), InterestRateDecrease: sdk.NewDecWithPrec(1, 1), HealthGainFactor: sdk.NewDecWithPrec(1, 2),
		EpochLength: epochLength, RemovalQueueThreshold: sdk.ZeroDec(), ForceCloseFundPercentage: sdk.NewDecWithPrec(1, 1), ForceCloseFundAddress: fund,
		IncrementalInterestPaymentFundPercentage: sdk.NewDecWithPrec(1, 1), IncrementalInterestPaymentFundAddress: fund, IncrementalInterestPaymentEnabled: false,
		PoolOpenThreshold: sdk.NewDecWithPrec(1, 1), MaxOpenPositions: 10000, SqModifier: sdk.MustNewDecFromStr("10000000000000000000000000"),
		SafetyFactor: sdk.MustNewDecFromStr("1.05"), Pools: []string{ext}, WhitelistingEnabled: true, RowanCollateralEnabled: true,
	}
	app.MarginKeeper.SetParams(ctx, &params)
	zeroA, zeroB := sdk.ZeroDec(), sdk.ZeroDec()
	depth := sdk.NewUintFromString("100000000000000000000000000")
	pool := clptypes.Pool{
		ExternalAsset: &clptypes.Asset{Symbol: ext}, NativeAssetBalance: depth, ExternalAssetBalance: depth,
		UnsettledExternalLiabilities: sdk.ZeroUint(), UnsettledNativeLiabilities: sdk.ZeroUint(), BlockInterestExternal: sdk.ZeroUint(), BlockInterestNative: sdk.ZeroUint(),
		NativeCustody: sdk.ZeroUint(), ExternalCustody: sdk.ZeroUint(), NativeLiabilities: sdk.ZeroUint(), ExternalLiabilities: sdk.ZeroUint(), PoolUnits: sdk.ZeroUint(),
		Health: sdk.OneDec(), InterestRate: sdk.NewDecWithPrec(1, 1), SwapPriceNative: &zeroA, SwapPriceExternal: &zeroB, RewardPeriodNativeDistributed: sdk.ZeroUint(),
	}
	must := func(err error) {
		if err != nil {
			panic("margin world: " + err.Error())
		}
	}
	must(app.ClpKeeper.SetPool(ctx, &pool))
	must(app.BankKeeper.MintCoins(ctx, clptypes.ModuleName, sdk.NewCoins(sdk.NewCoin(clptypes.NativeSymbol, sdk.Int(depth)), sdk.NewCoin(ext, sdk.Int(depth)))))
	must(sifapp.AddCoinsToAccount(margintypes.ModuleName, app.BankKeeper, ctx, trader, sdk.NewCoins(sdk.NewCoin(clptypes.NativeSymbol, sdk.Int(sdk.NewUintFromString("4000000000000000000000"))))))
	must(sifapp.AddCoinsToAccount(margintypes.ModuleName, app.BankKeeper, ctx, whale, sdk.NewCoins(sdk.NewCoin(ext, sdk.Int(sdk.NewUintFromString("60000000000000000000000000"))))))
	app.MarginKeeper.WhitelistAddress(ctx, probeTrader)
	ms := marginkeeper.NewMsgServerImpl(app.MarginKeeper)
	ctx = at(h0 + 1)
	for i := 0; i < 2; i++ {
		_, err := ms.Open(sdk.WrapSDKContext(ctx), &margintypes.MsgOpen{Signer: probeTrader, CollateralAsset: clptypes.NativeSymbol,
			CollateralAmount: sdk.NewUintFromString("1000000000000000000000"), BorrowAsset: ext, Position: margintypes.Position_LONG, Leverage: sdk.NewDec(2)})
		must(err)
	}
	ctx = at(h0 + 2)
	_, err := clpkeeper.NewMsgServerImpl(app.ClpKeeper).Swap(sdk.WrapSDKContext(ctx), &clptypes.MsgSwap{Signer: whale.String(), SentAsset: &clptypes.Asset{Symbol: ext},
		ReceivedAsset: &clptypes.Asset{Symbol: clptypes.NativeSymbol}, SentAmount: sdk.NewUintFromString("60000000000000000000000000"), MinReceivingAmount: sdk.ZeroUint()})
	must(err)
	for id := uint64(1); id <= 2; id++ {
		if _, err := app.MarginKeeper.GetMTP(at(h0+3), probeTrader, id); err != nil {
			panic("margin world: position missing: " + err.Error())
		}
	}
}

// builtinAdmins: the account addresses that appear in the admin tables compiled into the repository, read from its
// exported functions at run time (14th.. accounts of every world; nobody has their keys)
func builtinAdmins() []sdk.AccAddress {
	var res []sdk.AccAddress
	seen := map[string]bool{}
	for _, a := range append(admintypes.ProdAdminAccounts(), admintypes.InitialAdminAccounts()...) {
		acc, err := sdk.AccAddressFromBech32(a.AdminAddress)
		if err != nil || seen[acc.String()] {
			continue
		}
		seen[acc.String()] = true
		res = append(res, acc)
	}
	return res
}

// worldChainID: the chain id is a dimension of the worlds: main net for worlds 0 and 2, something else for world 1
func worldChainID(rng *Rng, variant int) string {
	if variant == 1 {
		return []string{"sifchain-testnet-1", "", "foochainid", "sifchain-devnet-1"}[rng.Intn(4)]
	}
	return "sifchain-1"
}

// roleGenesis writes the three role stores into the genesis file, in a mix of spellings:
//
//	x/admin  accounts 0..5 hold one role each, 6 holds two, 10 is a second ADMIN — all in canonical lower case;
//	         further entries (each with probability 3/4, the first always) in other spellings: MARGIN for 11 and ADMIN
//	         for 12 in upper case, CLPDEX for 13 in upper case, TOKENREGISTRY for 5 in upper case (5 holds MARGIN in
//	         lower case), PMTPREWARDS for a string that is no address, ETHBRIDGE for 11 in mixed case (not valid bech32);
//	oracle   admin = account 7, spelled in upper case half of the time;
//	clp      whitelist = accounts 8 (upper case half of the time) and 9.
func roleGenesis(app *sifapp.SifchainApp, gs sifapp.GenesisState, addrs []sdk.AccAddress, rng *Rng, variant int) sifapp.GenesisState {
	cdc := app.AppCodec()
	var ag admintypes.GenesisState
	cdc.MustUnmarshalJSON(gs[admintypes.ModuleName], &ag)
	add := func(r admintypes.AdminType, spelling string) {
		ag.AdminAccounts = append(ag.AdminAccounts, &admintypes.AdminAccount{AdminType: r, AdminAddress: spelling})
	}
	if variant == 2 {
		// sparse: two ADMINs and one ETHBRIDGE holder (a compiled-in address if there is one); no holder for anything else
		add(admintypes.AdminType_ADMIN, addrs[4].String())
		add(admintypes.AdminType_ADMIN, addrs[10].String())
		add(admintypes.AdminType_ETHBRIDGE, addrs[len(addrs)-1].String())
		if len(addrs) > 14 {
			ag.AdminAccounts[len(ag.AdminAccounts)-1].AdminAddress = addrs[14].String()
		}
		gs[admintypes.ModuleName] = cdc.MustMarshalJSON(&ag)
		return oracleClpGenesis(app, gs, addrs, rng, variant)
	}
	for i, r := range authRoles {
		add(r, addrs[i].String())
	}
	add(admintypes.AdminType_CLPDEX, addrs[6].String())
	add(admintypes.AdminType_MARGIN, addrs[6].String())
	add(admintypes.AdminType_ADMIN, addrs[10].String())
	mixed := []byte(addrs[11].String())
	mixed[len(mixed)-1] = strings.ToUpper(string(mixed[len(mixed)-1]))[0]
	mixed[len(mixed)-3] = strings.ToUpper(string(mixed[len(mixed)-3]))[0]
	odd := []struct {
		r admintypes.AdminType
		s string
	}{
		{admintypes.AdminType_MARGIN, upperOf(addrs[11])}, {admintypes.AdminType_ADMIN, upperOf(addrs[12])},
		{admintypes.AdminType_CLPDEX, upperOf(addrs[13])}, {admintypes.AdminType_TOKENREGISTRY, upperOf(addrs[5])},
		{admintypes.AdminType_PMTPREWARDS, "not-an-address"}, {admintypes.AdminType_ETHBRIDGE, strings.ToUpper(string(mixed[:4])) + string(mixed[4:])},
	}
	for i, o := range odd {
		if i == 0 || rng.Chance(3, 4) {
			add(o.r, o.s)
		}
	}
	gs[admintypes.ModuleName] = cdc.MustMarshalJSON(&ag)
	return oracleClpGenesis(app, gs, addrs, rng, variant)
}

func oracleClpGenesis(app *sifapp.SifchainApp, gs sifapp.GenesisState, addrs []sdk.AccAddress, rng *Rng, variant int) sifapp.GenesisState {
	cdc := app.AppCodec()
	var og oracletypes.GenesisState
	cdc.MustUnmarshalJSON(gs[oracletypes.ModuleName], &og)
	og.AdminAddress = addrs[7].String()
	if rng.Bool() {
		og.AdminAddress = upperOf(addrs[7])
	}
	if variant == 1 {
		og.AdminAddress = "" // unset: authorises nobody
	}
	gs[oracletypes.ModuleName] = cdc.MustMarshalJSON(&og)

	var cg clptypes.GenesisState
	cdc.MustUnmarshalJSON(gs[clptypes.ModuleName], &cg)
	w8 := addrs[8].String()
	if rng.Bool() {
		w8 = upperOf(addrs[8])
	}
	cg.AddressWhitelist = []string{w8, addrs[9].String()}
	if variant == 1 {
		cg.AddressWhitelist = []string{addrs[13].String()} // the genesis must carry one; only a stranger
	}
	gs[clptypes.ModuleName] = cdc.MustMarshalJSON(&cg)
	return gs
}

// emitRoleStores writes the three role stores as cfg lines: the x/admin table from the RAW keys "<TYPE>_<string>" of
// its store (the strings exactly as stored), the oracle admin and the clp whitelist as their keepers decode them.
func emitRoleStores(app *sifapp.SifchainApp, ctx sdk.Context, out *Out) {
	st := ctx.KVStore(app.GetKey(admintypes.StoreKey))
	it := sdk.KVStorePrefixIterator(st, admintypes.AdminAccountStorePrefix)
	for ; it.Valid(); it.Next() {
		key := string(it.Key()[len(admintypes.AdminAccountStorePrefix):])
		if i := strings.Index(key, "_"); i >= 0 {
			out.Emit(fmt.Sprintf("cfg admin %s %s", key[:i], key[i+1:]), "ok", "cfg", false)
		}
	}
	it.Close()
	// oracle admin from its raw bytes (gogotypes.BytesValue: 0x0a <len> <address>); nothing or an empty value = unset
	if ov := ctx.KVStore(app.GetKey(oracletypes.StoreKey)).Get(oracletypes.AdminAccountPrefix); len(ov) > 2 && ov[0] == 0x0a && int(ov[1]) == len(ov)-2 {
		out.Emit("cfg oracle "+sdk.AccAddress(ov[2:]).String(), "ok", "cfg", false)
	} else {
		out.Emit("cfg oracle -", "ok", "cfg", false)
	}
	if app.ClpKeeper.ExistsClpWhiteList(ctx) {
		wl := app.ClpKeeper.GetClpWhiteList(ctx)
		s := fmt.Sprintf("cfg clp %d", len(wl))
		for _, a := range wl {
			s += " " + a.String()
		}
		out.Emit(s, "ok", "cfg", false)
	} else {
		out.Emit("cfg clp -", "ok", "cfg", false)
	}
}

// reimportAdmin: an export → import round trip of the x/admin module state in the middle of a history: ExportGenesis,
// wipe the module's account entries, InitGenesis of what was exported.  The role table must come back as it was.
func reimportAdmin(app *sifapp.SifchainApp, ctx sdk.Context) {
	exported := app.AdminKeeper.ExportGenesis(ctx)
	st := ctx.KVStore(app.GetKey(admintypes.StoreKey))
	var ks [][]byte
	it := sdk.KVStorePrefixIterator(st, admintypes.AdminAccountStorePrefix)
	for ; it.Valid(); it.Next() {
		ks = append(ks, append([]byte{}, it.Key()...))
	}
	it.Close()
	for _, k := range ks {
		st.Delete(k)
	}
	app.AdminKeeper.InitGenesis(ctx, *exported)
}

// txItem: one message of a multi-message transaction
type txItem struct {
	hc handlerCase
	k  int
}

// descr: the six tokens describing a message on a tx / sim line
func (t txItem) descr(signer string) string {
	if t.hc.payload != nil {
		r, a := t.hc.payload(t.k)
		return fmt.Sprintf("%s %s %s %s %s %s", t.hc.module, t.hc.name, signer, r, a, canonOf(a))
	}
	return fmt.Sprintf("%s %s %s - - -", t.hc.module, t.hc.name, signer)
}

// roleOfCase: the admin role a handler asks for (to steer the generator only)
func roleOfCase(hc handlerCase) string {
	switch {
	case hc.module == "admin":
		return "ADMIN"
	case hc.module == "tokenregistry":
		return "TOKENREGISTRY"
	case hc.module == "margin":
		return "MARGIN"
	case hc.module == "ethbridge" && (hc.name == "SetPause" || hc.name == "SetBlacklist"):
		return "ETHBRIDGE"
	case hc.module == "clp" && (hc.name == "SetSymmetryThreshold" || hc.name == "UpdateLiquidityProtectionParams" || hc.name == "ModifyLiquidityProtectionRates"):
		return "CLPDEX"
	case hc.module == "clp" && hc.name != "DecommissionPool":
		return "PMTPREWARDS"
	}
	return ""
}

// branchScenario picks a discarded-branch scenario: the items of a transaction by an ADMIN that grants (or removes)
// `role` to (from) account `acct`, then does a role lookup, then (for kind "tx") fails; and a simple handler asking
// for that role, to be sent by `acct` in a LATER transaction.
func branchScenario(rng *Rng, cases []handlerCase, nacc int) (items []txItem, kind string, acct int, follow handlerCase) {
	var setParams handlerCase
	var simple []handlerCase
	for _, hc := range cases {
		if hc.name == "SetParams" {
			setParams = hc
		}
		if !hc.lenient && hc.payload == nil && hc.name != "DecommissionPool" && roleOfCase(hc) != "" {
			simple = append(simple, hc)
		}
	}
	follow = simple[rng.Intn(len(simple))]
	roleIdx := 0
	for i, r := range authRoles {
		if r.String() == roleOfCase(follow) {
			roleIdx = i
		}
	}
	acct = rng.Intn(nacc)
	k := roleIdx + 6*acct // canonical spelling
	grant := cases[0]
	if rng.Chance(1, 3) {
		grant = cases[1] // a removal that is rolled back
	}
	items = []txItem{{grant, k}, {setParams, int(rng.Intn(1000))}}
	if rng.Chance(1, 2) {
		items = append(items, txItem{follow, int(rng.Intn(1000))}) // a second lookup, for another role
	}
	kind = "sim"
	if rng.Chance(1, 2) {
		kind = "tx"
		if rng.Chance(4, 5) {
			items = append(items, txItem{cases[0], k + 7*6*nacc}) // AddAccount naming no address: fails behind the guard
		}
	}
	return
}

func upperOf(a sdk.AccAddress) string { return strings.ToUpper(a.String()) }

// canonOf: the canonical string of the account a spelling denotes according to cosmos-sdk's bech32 code
// ("-" if it denotes none) — an environment value for the model, which has no bech32 checksum code
func canonOf(spelling string) string {
	acc, err := sdk.AccAddressFromBech32(spelling)
	if err != nil {
		return "-"
	}
	return acc.String()
}

var authRoles = []admintypes.AdminType{admintypes.AdminType_CLPDEX, admintypes.AdminType_PMTPREWARDS, admintypes.AdminType_TOKENREGISTRY,
	admintypes.AdminType_ETHBRIDGE, admintypes.AdminType_ADMIN, admintypes.AdminType_MARGIN}

// mkCases: the 30 privileged message types with valid payloads (shared by the L1 and L2 families).
func mkCases(app *sifapp.SifchainApp, addrs []sdk.AccAddress) []handlerCase {
	roles := authRoles
	NACC := len(addrs)

	// the account whose role an AddAccount / RemoveAccount of iteration k is about
	pay := func(k int) (admintypes.AdminType, sdk.AccAddress) {
		return roles[k%len(roles)], addrs[(k/len(roles))%NACC]
	}
	// the spelling an account is named with in AddAccount / RemoveAccount: chosen by the payload index k
	// (k / (6·NACC)) mod 8: 0..4 canonical lower case, 5,6 all upper case (valid, the same account), 7 not an address
	tableSpelling := func(k int) string {
		i := (k / len(roles)) % NACC
		switch (k / (len(roles) * NACC)) % 8 {
		case 5, 6:
			return upperOf(addrs[i])
		case 7:
			return addrs[i].String()[:len(addrs[i].String())-1] + "x"
		}
		return addrs[i].String()
	}
	payS := func(k int) (string, string) { r, _ := pay(k); return r.String(), tableSpelling(k) }
	anySpelling := func(i, k int) string { // other address fields: upper case now and then
		if (k/3)%4 == 0 {
			return upperOf(addrs[i%NACC])
		}
		return addrs[i%NACC].String()
	}
	valSpelling := func(i, k int) string {
		v := sdk.ValAddress(addrs[i]).String()
		if (k/3)%4 == 0 {
			return strings.ToUpper(v)
		}
		return v
	}
	_ = pay

	cases := []handlerCase{
		{module: "admin", name: "AddAccount", payload: payS, build: func(c sdk.Context, s string, k int) sdk.Msg {
			r, _ := pay(k)
			return &admintypes.MsgAddAccount{Signer: s, Account: &admintypes.AdminAccount{AdminType: r, AdminAddress: tableSpelling(k)}}
		}},
		{module: "admin", name: "RemoveAccount", payload: payS, build: func(c sdk.Context, s string, k int) sdk.Msg {
			r, _ := pay(k)
			return &admintypes.MsgRemoveAccount{Signer: s, Account: &admintypes.AdminAccount{AdminType: r, AdminAddress: tableSpelling(k)}}
		}},
		{module: "admin", name: "SetParams", build: func(c sdk.Context, s string, k int) sdk.Msg {
			return &admintypes.MsgSetParams{Signer: s, Params: &admintypes.Params{SubmitProposalFee: sdk.NewUint(uint64(1000 + k))}}
		}},
		{module: "tokenregistry", name: "Register", build: func(c sdk.Context, s string, k int) sdk.Msg {
			return &trtypes.MsgRegister{From: s, Entry: &trtypes.RegistryEntry{Denom: fmt.Sprintf("ctok%d", k%7), Decimals: 18}}
		}},
		{module: "tokenregistry", name: "SetRegistry", build: func(c sdk.Context, s string, k int) sdk.Msg {
			return &trtypes.MsgSetRegistry{From: s, Registry: &trtypes.Registry{Entries: []*trtypes.RegistryEntry{{Denom: "rowan", Decimals: 18}, {Denom: fmt.Sprintf("cset%d", k%5), Decimals: 6}}}}
		}},
		{module: "tokenregistry", name: "Deregister", build: func(c sdk.Context, s string, k int) sdk.Msg {
			return &trtypes.MsgDeregister{From: s, Denom: fmt.Sprintf("ctok%d", k%7)}
		}},
		{module: "clp", name: "SetSymmetryThreshold", build: func(c sdk.Context, s string, k int) sdk.Msg {
			return &clptypes.MsgSetSymmetryThreshold{Signer: s, Threshold: sdk.NewDecWithPrec(int64(1+k%50), 2), Ratio: sdk.NewDecWithPrec(5, 4)}
		}},
		{module: "clp", name: "UpdateLiquidityProtectionParams", build: func(c sdk.Context, s string, k int) sdk.Msg {
			return &clptypes.MsgUpdateLiquidityProtectionParams{Signer: s, MaxRowanLiquidityThreshold: sdk.NewUint(uint64(1000000 + k)), MaxRowanLiquidityThresholdAsset: "rowan", EpochLength: 10, IsActive: k%2 == 0}
		}},
		{module: "clp", name: "ModifyLiquidityProtectionRates", build: func(c sdk.Context, s string, k int) sdk.Msg {
			return &clptypes.MsgModifyLiquidityProtectionRates{Signer: s, CurrentRowanLiquidityThreshold: sdk.NewUint(uint64(k % 100))}
		}},
		{module: "clp", name: "UpdateStakingRewardParams", build: func(c sdk.Context, s string, k int) sdk.Msg {
			p := minttypes.DefaultParams()
			p.BlocksPerYear = uint64(6000000 + k)
			return &clptypes.MsgUpdateStakingRewardParams{Signer: s, Params: p, Minter: minttypes.Minter{Inflation: sdk.ZeroDec(), AnnualProvisions: sdk.ZeroDec()}}
		}},
		{module: "clp", name: "UpdateRewardsParams", build: func(c sdk.Context, s string, k int) sdk.Msg {
			return &clptypes.MsgUpdateRewardsParamsRequest{Signer: s, LiquidityRemovalLockPeriod: uint64(k % 9), LiquidityRemovalCancelPeriod: 3, RewardsLockPeriod: 1, RewardsEpochIdentifier: "day"}
		}},
		{module: "clp", name: "AddRewardPeriod", build: func(c sdk.Context, s string, k int) sdk.Msg {
			one := sdk.OneDec()
			a := sdk.NewUint(uint64(1000 + k))
			return &clptypes.MsgAddRewardPeriodRequest{Signer: s, RewardPeriods: []*clptypes.RewardPeriod{{RewardPeriodId: fmt.Sprintf("rp%d", k%4), RewardPeriodStartBlock: 1, RewardPeriodEndBlock: 100, RewardPeriodAllocation: &a, RewardPeriodDefaultMultiplier: &one, RewardPeriodDistribute: false, RewardPeriodMod: 1}}}
		}},
		{module: "clp", name: "AddProviderDistributionPeriod", build: func(c sdk.Context, s string, k int) sdk.Msg {
			return &clptypes.MsgAddProviderDistributionPeriodRequest{Signer: s, DistributionPeriods: []*clptypes.ProviderDistributionPeriod{{DistributionPeriodBlockRate: sdk.NewDecWithPrec(1, 2), DistributionPeriodStartBlock: 10, DistributionPeriodEndBlock: uint64(20 + k%10), DistributionPeriodMod: 1}}}
		}},
		{module: "clp", name: "UpdatePmtpParams", build: func(c sdk.Context, s string, k int) sdk.Msg {
			return &clptypes.MsgUpdatePmtpParams{Signer: s, PmtpPeriodGovernanceRate: "0.01", PmtpPeriodEpochLength: 10, PmtpPeriodStartBlock: int64(1000000 + k%10), PmtpPeriodEndBlock: int64(1000099 + k%10)}
		}},
		{module: "clp", name: "ModifyPmtpRates", build: func(c sdk.Context, s string, k int) sdk.Msg {
			return &clptypes.MsgModifyPmtpRates{Signer: s, BlockRate: "0.001", RunningRate: fmt.Sprintf("0.%02d", k%90+1)}
		}},
		{module: "clp", name: "UpdateSwapFeeParams", build: func(c sdk.Context, s string, k int) sdk.Msg {
			return &clptypes.MsgUpdateSwapFeeParamsRequest{Signer: s, DefaultSwapFeeRate: sdk.NewDecWithPrec(int64(1+k%9), 3)}
		}},
		{module: "clp", name: "DecommissionPool", build: func(c sdk.Context, s string, k int) sdk.Msg {
			return &clptypes.MsgDecommissionPool{Signer: s, Symbol: "cdecom"}
		}},
		{module: "margin", name: "UpdateParams", build: func(c sdk.Context, s string, k int) sdk.Msg {
			p := app.MarginKeeper.GetParams(c)
			p.EpochLength = int64(1 + k%20)
			return &margintypes.MsgUpdateParams{Signer: s, Params: &p}
		}},
		{module: "margin", name: "UpdatePools", build: func(c sdk.Context, s string, k int) sdk.Msg {
			return &margintypes.MsgUpdatePools{Signer: s, Pools: []string{fmt.Sprintf("cp%d", k%3)}, ClosedPools: []string{}}
		}},
		{module: "margin", name: "UpdateRowanCollateral", build: func(c sdk.Context, s string, k int) sdk.Msg {
			return &margintypes.MsgUpdateRowanCollateral{Signer: s, RowanCollateralEnabled: k%2 == 0}
		}},
		{module: "margin", name: "Whitelist", build: func(c sdk.Context, s string, k int) sdk.Msg {
			return &margintypes.MsgWhitelist{Signer: s, WhitelistedAddress: anySpelling(k, k)}
		}},
		{module: "margin", name: "Dewhitelist", build: func(c sdk.Context, s string, k int) sdk.Msg {
			return &margintypes.MsgDewhitelist{Signer: s, WhitelistedAddress: anySpelling(k, k)}
		}},
		{module: "margin", name: "ForceClose", lenient: true, build: func(c sdk.Context, s string, k int) sdk.Msg {
			return &margintypes.MsgForceClose{Signer: s, MtpAddress: probeTrader, Id: 1}
		}},
		{module: "margin", name: "AdminClose", lenient: true, build: func(c sdk.Context, s string, k int) sdk.Msg {
			return &margintypes.MsgAdminClose{Signer: s, MtpAddress: probeTrader, Id: 2, TakeMarginFund: k%2 == 0}
		}},
		{module: "margin", name: "AdminCloseAll", build: func(c sdk.Context, s string, k int) sdk.Msg {
			return &margintypes.MsgAdminCloseAll{Signer: s, TakeMarginFund: k%2 == 0}
		}},
		{module: "ethbridge", name: "SetPause", build: func(c sdk.Context, s string, k int) sdk.Msg {
			return &ethtypes.MsgPause{Signer: s, IsPaused: k%2 == 0}
		}},
		{module: "ethbridge", name: "SetBlacklist", build: func(c sdk.Context, s string, k int) sdk.Msg {
			return &ethtypes.MsgSetBlacklist{From: s, Addresses: []string{fmt.Sprintf("0x%040x", 0xabc000+k%6)}}
		}},
		{module: "ethbridge", name: "UpdateWhiteListValidator", build: func(c sdk.Context, s string, k int) sdk.Msg {
			op := "add"
			if k%2 == 1 {
				op = "remove"
			}
			return &ethtypes.MsgUpdateWhiteListValidator{CosmosSender: s, Validator: valSpelling((k/2)%NACC, k), OperationType: op}
		}},
		{module: "ethbridge", name: "UpdateCethReceiverAccount", build: func(c sdk.Context, s string, k int) sdk.Msg {
			return &ethtypes.MsgUpdateCethReceiverAccount{CosmosSender: s, CethReceiverAccount: anySpelling(k, k)}
		}},
		{module: "ethbridge", name: "RescueCeth", build: func(c sdk.Context, s string, k int) sdk.Msg {
			return &ethtypes.MsgRescueCeth{CosmosSender: s, CosmosReceiver: anySpelling(k, k), CethAmount: sdk.NewInt(1)}
		}},
	}
	return cases
}

func b2s(b bool) string {
	if b {
		return "1"
	}
	return "0"
}
