package main

// family "authtx" (C08, L2): the full SifchainApp driven through BeginBlock / DeliverTx / EndBlock / Commit
// with really signed transactions (zero fee), so that signature verification, baseapp's message routing,
// its per-message cache and the authz dispatch are all in the loop.  Per transaction, one of
//   direct        msg{Signer = S}                         signed by S
//   wrapped       MsgExec{grantee S}{ msg{Signer = S} }   signed by S   (authz accepts a self-wrap implicitly)
//   spoof         msg{Signer = A (authorised)}            signed by B (no role)      → must be refused
//   spoofwrapped  MsgExec{grantee B}{ msg{Signer = A} }   signed by B, no grant      → must be refused
// Observed: result code, and a hash over every key/value of every store EXCEPT the auth store (account
// sequence / pubkey — excluded by the property) before and after DeliverTx inside the open block.
//   msg …  (direct / wrapped only)  → ok | err     the role-table model must agree (the table evolves by
//                                                  AddAccount / RemoveAccount transactions)
//   chk c08.guard.<module>.<handler> tag=authtx.<shape>.<module>.<handler> <module> <handler> <tx signer> <ok|err> <changed>

import (
	"fmt"
	"math/rand"
	"sort"
	"time"

	sifapp "github.com/Sifchain/sifnode/app"
	admintypes "github.com/Sifchain/sifnode/x/admin/types"
	clptypes "github.com/Sifchain/sifnode/x/clp/types"
	ethtypes "github.com/Sifchain/sifnode/x/ethbridge/types"
	codectypes "github.com/cosmos/cosmos-sdk/codec/types"
	"github.com/cosmos/cosmos-sdk/crypto/keys/secp256k1"
	cryptotypes "github.com/cosmos/cosmos-sdk/crypto/types"
	"github.com/cosmos/cosmos-sdk/simapp/helpers"
	"github.com/cosmos/cosmos-sdk/store/rootmulti"
	storetypes "github.com/cosmos/cosmos-sdk/store/types"
	sdk "github.com/cosmos/cosmos-sdk/types"
	authtypes "github.com/cosmos/cosmos-sdk/x/auth/types"
	"github.com/cosmos/cosmos-sdk/x/authz"
	banktypes "github.com/cosmos/cosmos-sdk/x/bank/types"
	abci "github.com/tendermint/tendermint/abci/types"
	tmproto "github.com/tendermint/tendermint/proto/tendermint/types"
)

var encCfgAuth = sifapp.MakeTestEncodingConfig()

func init() {
	// two worlds per run, as in family auth: (0) every role store populated, (1) oracle admin EMPTY and a clp whitelist
	// listing only a stranger
	// (2) the sparse main-net world (see family auth)
	families["authtx"] = func(rng *Rng, n int, out *Out, replay string) {
		authtxWorld(rng, n*2/5, out, replay, 0)
		out.Emit("reset", "ok", "reset", false)
		authtxWorld(rng, n*7/10, out, replay, 1)
		out.Emit("reset", "ok", "reset", false)
		authtxWorld(rng, n, out, replay, 2)
	}
}

func authtxWorld(rng *Rng, n int, out *Out, replay string, variant int) {
	{
		sifapp.SetConfig(false)
		const NSIGN = 14 // accounts whose keys the harness holds
		r := rand.New(rand.NewSource(int64(rng.U64())))
		var privs []cryptotypes.PrivKey
		var addrs []sdk.AccAddress
		for i := 0; i < NSIGN; i++ {
			p := secp256k1.GenPrivKeyFromSecret([]byte(fmt.Sprintf("verif-c08-%d", i)))
			privs = append(privs, p)
			addrs = append(addrs, sdk.AccAddress(p.PubKey().Address()))
		}
		// … plus the addresses compiled into the repository: nobody has their keys, their messages are SIMULATED with a
		// forged signature (app.Simulate does not verify signatures)
		addrs = append(addrs, builtinAdmins()...)
		NACC := len(addrs)
		chainID := worldChainID(rng, variant)
		out.Extra[fmt.Sprintf("world%d_chain_id", variant)] = chainID
		app := sifapp.SetupFromGenesis(false, func(app *sifapp.SifchainApp, gs sifapp.GenesisState) sifapp.GenesisState {
			cdc := app.AppCodec()
			var auth authtypes.GenesisState
			cdc.MustUnmarshalJSON(gs[authtypes.ModuleName], &auth)
			var bank banktypes.GenesisState
			cdc.MustUnmarshalJSON(gs[banktypes.ModuleName], &bank)
			for i, a := range addrs {
				any, err := codectypes.NewAnyWithValue(authtypes.NewBaseAccount(a, nil, uint64(i), 0))
				if err != nil {
					panic(err)
				}
				auth.Accounts = append(auth.Accounts, any)
				coins := sdk.NewCoins(sdk.NewCoin("rowan", sdk.NewInt(1000000000)))
				bank.Balances = append(bank.Balances, banktypes.Balance{Address: a.String(), Coins: coins})
				bank.Supply = bank.Supply.Add(coins...)
			}
			gs[authtypes.ModuleName] = cdc.MustMarshalJSON(&auth)
			gs[banktypes.ModuleName] = cdc.MustMarshalJSON(&bank)
			return roleGenesis(app, gs, addrs, rng, variant) // the role stores come from the genesis file, in a mix of spellings
		})
		app.Commit()
		height := int64(1)
		now := time.Unix(1700000000, 0).UTC()
		header := func() tmproto.Header { return tmproto.Header{Height: height, Time: now, ChainID: chainID} }
		dctx := func() sdk.Context { return app.BaseApp.NewContext(false, header()) }
		begin := func() {
			height++
			now = now.Add(6 * time.Second)
			app.BeginBlock(abci.RequestBeginBlock{Header: header()})
		}
		end := func() {
			app.EndBlock(abci.RequestEndBlock{Height: height})
			app.Commit()
		}
		rs := app.CommitMultiStore().(*rootmulti.Store)
		var keys []storetypes.StoreKey
		for k, s := range rs.GetStores() {
			if (s.GetStoreType() == storetypes.StoreTypeIAVL || s.GetStoreType() == storetypes.StoreTypeDB) && k.Name() != authtypes.StoreKey {
				keys = append(keys, k)
			}
		}
		sort.Slice(keys, func(i, j int) bool { return keys[i].Name() < keys[j].Name() })
		out.Extra["stores_hashed"] = len(keys)

		// block 2: the role stores (set-up through the keepers inside an open block, committed with it)
		begin()
		{
			ctx := dctx()
			if err := app.BankKeeper.MintCoins(ctx, ethtypes.ModuleName, sdk.NewCoins(sdk.NewCoin(ethtypes.CethSymbol, sdk.NewInt(1000000000)))); err != nil {
				panic(err)
			}
			emitRoleStores(app, ctx, out)
		}
		end()
		// the margin world (see marginWorld): two unhealthy LONG positions of a trader; the epoch is so long that no block of
		// this run is an epoch boundary, where the begin blocker itself would liquidate them
		begin()
		marginWorld(app, func(int64) sdk.Context {
			end()
			begin()
			return dctx()
		}, height, 1000000)
		end()

		var cases []handlerCase
		for _, hc := range mkCases(app, addrs) {
			// MsgUpdateSwapFeeParamsRequest contains "swap": the ante fee floor of 0.1 rowan applies to it, and a paid fee
			// would change the bank store of a refused transaction (excluded by the property).  L1 covers it.
			if hc.name != "UpdateSwapFeeParams" {
				cases = append(cases, hc)
			}
		}
		deliver := func(signer int, msgs []sdk.Msg) abci.ResponseDeliverTx {
			acc := app.AccountKeeper.GetAccount(dctx(), addrs[signer])
			tx, err := helpers.GenSignedMockTx(r, encCfgAuth.TxConfig, msgs, sdk.Coins{}, 1500000, chainID, []uint64{acc.GetAccountNumber()}, []uint64{acc.GetSequence()}, privs[signer])
			if err != nil {
				panic(err)
			}
			bz, err := encCfgAuth.TxConfig.TxEncoder()(tx)
			if err != nil {
				panic(err)
			}
			return app.DeliverTx(abci.RequestDeliverTx{Tx: bz})
		}
		noRole := []int{11, 12, 13}
		holderOf := func(hc handlerCase) int { // an account that passes hc's guard in the initial set-up
			switch {
			case hc.module == "admin":
				return 10
			case hc.module == "tokenregistry":
				return 2
			case hc.name == "DecommissionPool":
				return 8
			case hc.module == "margin":
				return 5
			case hc.module == "ethbridge" && (hc.name == "SetPause" || hc.name == "SetBlacklist"):
				return 3
			case hc.module == "ethbridge":
				return 7
			case hc.name == "SetSymmetryThreshold" || hc.name == "UpdateLiquidityProtectionParams" || hc.name == "ModifyLiquidityProtectionRates":
				return 0
			}
			return 1
		}

		k := 0
		// a message of an account whose key nobody has (the compiled-in addresses): SIMULATED with a signature forged by a
		// stranger (app.Simulate does not verify signatures; it runs the ante chain and the handler on a branch of the last
		// committed state).  A simulation that succeeds for a signer who holds nothing is a failing input all the same.
		simOne := func(hc handlerCase, signer int, k int) {
			qctx := app.BaseApp.NewContext(true, header())
			msg := hc.build(qctx, addrs[signer].String(), k)
			acc := app.AccountKeeper.GetAccount(qctx, addrs[signer])
			tx, err := helpers.GenSignedMockTx(r, encCfgAuth.TxConfig, []sdk.Msg{msg}, sdk.Coins{}, 1500000, chainID, []uint64{acc.GetAccountNumber()}, []uint64{acc.GetSequence()}, privs[11+k%3])
			if err != nil {
				panic(err)
			}
			bz, err := encCfgAuth.TxConfig.TxEncoder()(tx)
			if err != nil {
				panic(err)
			}
			stored := storedAuth(app, qctx, addrs[signer])
			res := "ok"
			if _, _, err := app.Simulate(bz); err != nil {
				res = "err"
			}
			out.Emit(fmt.Sprintf("chk c08.guard.%s.%s tag=authtx.simulated.%s.%s %s %s %s %s 0", hc.module, hc.name, hc.module, hc.name, hc.module, hc.name, addrs[signer].String(), res), "true", "chk.simulated", false)
			out.Emit(fmt.Sprintf("chk c08.stored.%s.%s tag=authtx.stored.simulated.%s.%s %s %s %s %s", hc.module, hc.name, hc.module, hc.name, hc.module, hc.name, res, stored), "true", "chk.stored", false)
			if !hc.lenient && hc.name != "DecommissionPool" {
				out.Emit("sim 1 "+txItem{hc, k}.descr(addrs[signer].String()), res, fmt.Sprintf("simulated.%s.%s.%s", hc.module, hc.name, res), true)
			}
		}
		one := func(hc handlerCase, shape string, signer int, k int) {
			if signer >= NSIGN {
				simOne(hc, signer, k)
				return
			}
			begin()
			if hc.name == "DecommissionPool" {
				ctx := dctx()
				if _, err := app.ClpKeeper.GetPool(ctx, "cdecom"); err != nil {
					asset := clptypes.NewAsset("cdecom")
					pool := clptypes.NewPool(&asset, sdk.NewUint(0), sdk.NewUint(0), sdk.NewUint(0))
					if err := app.ClpKeeper.SetPool(ctx, &pool); err != nil {
						panic(err)
					}
				}
			}
			ctx := dctx()
			fieldSigner := signer
			if shape == "spoof" || shape == "spoofwrapped" {
				fieldSigner = holderOf(hc)
			}
			fieldStr := addrs[fieldSigner].String()
			if k%5 == 3 {
				fieldStr = upperOf(addrs[fieldSigner]) // the Signer field in its upper-case spelling: the same account
			}
			msg := hc.build(ctx, fieldStr, k)
			msgs := []sdk.Msg{msg}
			if shape == "wrapped" || shape == "spoofwrapped" {
				e := authz.NewMsgExec(addrs[signer], []sdk.Msg{msg})
				msgs = []sdk.Msg{&e}
			}
			stored := storedAuth(app, ctx, addrs[signer])
			before := hashStores(ctx, keys)
			res := "ok"
			func() {
				defer func() {
					if rec := recover(); rec != nil {
						res = "err" // e.g. GetSigners of a spoofed message panics while signing: never reaches the chain
					}
				}()
				if dr := deliver(signer, msgs); dr.Code != 0 {
					res = "err"
				}
			}()
			changed := hashStores(dctx(), keys) != before
			cls := fmt.Sprintf("%s.%s.%s.%s", shape, hc.module, hc.name, res)
			out.Emit(fmt.Sprintf("chk c08.guard.%s.%s tag=authtx.%s.%s.%s %s %s %s %s %s", hc.module, hc.name, shape, hc.module, hc.name, hc.module, hc.name, addrs[signer].String(), res, b2s(changed)),
				"true", "chk."+shape, false)
			// on the property's own terms, from the implementation alone: executed ⇒ the transaction's signer holds the role AS STORED
			out.Emit(fmt.Sprintf("chk c08.stored.%s.%s tag=authtx.stored.%s.%s.%s %s %s %s %s", hc.module, hc.name, shape, hc.module, hc.name, hc.module, hc.name, res, stored),
				"true", "chk.stored", false)
			if (shape == "direct" || shape == "wrapped") && !hc.lenient {
				op := fmt.Sprintf("msg %s %s %s", hc.module, hc.name, addrs[signer].String())
				if hc.payload != nil {
					ro, a := hc.payload(k)
					op += " " + ro + " " + a + " " + canonOf(a)
				}
				out.Emit(op, res, cls, true)
			} else {
				out.Hist[cls]++
			}
			if hc.name == "RemoveAccount" && res == "ok" {
				role, raw := hc.payload(k)
				if acc, err := sdk.AccAddressFromBech32(raw); err == nil {
					still := app.AdminKeeper.IsAdminAccount(dctx(), admintypes.AdminType(admintypes.AdminType_value[role]), acc)
					out.Emit(fmt.Sprintf("chk c08.removed tag=authtx.admin.RemoveAccount.stillholds %s %s %s", role, raw, b2s(still)), "true", "chk.removed", false)
				}
			}
			end()
		}
		// a multi-message transaction delivered in a block (kind "tx": baseapp keeps its writes only if every message
		// succeeded), or the same transaction merely SIMULATED (kind "sim": app.Simulate, as gas estimation does; forged:
		// signed with a stranger's key — simulation does not verify signatures; nothing is ever written)
		multi := func(kind string, signer int, items []txItem) {
			descr := ""
			for _, it := range items {
				descr += " " + it.descr(addrs[signer].String())
			}
			if kind == "tx" {
				begin()
				ctx := dctx()
				var msgs []sdk.Msg
				for _, it := range items {
					msgs = append(msgs, it.hc.build(ctx, addrs[signer].String(), it.k))
				}
				before := hashStores(ctx, keys)
				res := "ok"
				if dr := deliver(signer, msgs); dr.Code != 0 {
					res = "err"
				}
				changed := hashStores(dctx(), keys) != before
				out.Emit(fmt.Sprintf("chk c08.txatomic tag=authtx.txatomic %s %s", res, b2s(changed)), "true", "chk.txatomic", false)
				out.Emit(fmt.Sprintf("tx %d%s", len(items), descr), res, "branch.tx."+res, true)
				end()
				return
			}
			qctx := app.BaseApp.NewContext(true, header())
			var msgs []sdk.Msg
			for _, it := range items {
				msgs = append(msgs, it.hc.build(qctx, addrs[signer].String(), it.k))
			}
			acc := app.AccountKeeper.GetAccount(qctx, addrs[signer])
			forger := noRole[len(items)%3]
			tx, err := helpers.GenSignedMockTx(r, encCfgAuth.TxConfig, msgs, sdk.Coins{}, 1500000, chainID, []uint64{acc.GetAccountNumber()}, []uint64{acc.GetSequence()}, privs[forger])
			if err != nil {
				panic(err)
			}
			bz, err := encCfgAuth.TxConfig.TxEncoder()(tx)
			if err != nil {
				panic(err)
			}
			res := "ok"
			if _, _, err := app.Simulate(bz); err != nil {
				res = "err"
			}
			out.Emit(fmt.Sprintf("sim %d%s", len(items), descr), res, "branch.sim."+res, true)
		}

		// probes where the guard is the only thing that refuses: every account without the MARGIN role signs MsgForceClose
		// (position 1) and MsgAdminClose (position 2), then one MARGIN holder each closes them
		for _, hc := range cases {
			if !hc.lenient {
				continue
			}
			exact := hc
			exact.lenient = false
			for a := 0; a < NACC; a++ {
				if a != 5 && a != 6 {
					one(exact, []string{"direct", "wrapped"}[a%2], a, a)
				}
			}
			if hc.name == "ForceClose" {
				one(exact, "direct", 5, 0)
			} else {
				one(exact, "wrapped", 6, 0)
			}
		}
		// phase 1: every handler, direct and wrapped, by its role holder and by a stranger; spoofed both ways
		for _, hc := range cases {
			if hc.name == "AddAccount" || hc.name == "RemoveAccount" {
				continue
			}
			for _, shape := range []string{"direct", "wrapped"} {
				one(hc, shape, holderOf(hc), k)
				k++
				one(hc, shape, noRole[k%3], k)
				k++
			}
			one(hc, "spoof", noRole[k%3], k)
			k++
			one(hc, "spoofwrapped", noRole[k%3], k)
			k++
		}
		if variant == 2 {
			// sparse main-net world: the compiled-in addresses try every privileged message; then the last stored holder of
			// ETHBRIDGE (account 14, a compiled-in address, if any) is removed and tries again
			for _, hc := range cases {
				if hc.name == "AddAccount" || hc.name == "RemoveAccount" {
					continue
				}
				for a := NSIGN; a < NACC; a++ {
					one(hc, "direct", a, k)
					k++
				}
			}
			if NACC > NSIGN {
				var setPause handlerCase
				for _, hc := range cases {
					if hc.name == "SetPause" {
						setPause = hc
					}
				}
				one(setPause, "direct", NSIGN, 1)
				one(cases[1], "direct", 10, 3+6*NSIGN)
				one(setPause, "direct", NSIGN, 2)
			}
		}
		if variant == 1 {
			// with the single-value admin unset: every account tries every privileged message — in particular each role
			// holder the messages of every OTHER role
			for _, hc := range cases {
				if hc.name == "AddAccount" || hc.name == "RemoveAccount" {
					continue
				}
				for a := 0; a < NACC; a++ {
					one(hc, "direct", a, k)
					k++
				}
			}
		}
		// directed: grant / use / remove / use for an account named in upper case (12) and one named in lower case (11)
		var updatePools handlerCase
		for _, hc := range cases {
			if hc.name == "UpdatePools" {
				updatePools = hc
			}
		}
		// an entry imported by genesis in upper case (MARGIN for 11): use, accepted removal under the canonical spelling, use
		one(updatePools, "direct", 11, 6*11)
		one(cases[1], "direct", 10, 5+6*11)
		one(updatePools, "wrapped", 11, 6*11+1)
		begin()
		reimportAdmin(app, dctx())
		out.Emit("reimport", "ok", "reimport", false)
		end()
		one(updatePools, "direct", 11, 6*11+2)
		span := 6 * NACC
		for _, sp := range []int{0, 5} {
			acct := 11 + sp/5
			kk := 5 + 6*acct + sp*span
			one(cases[0], "direct", 10, kk)
			one(updatePools, "direct", acct, 6*acct)
			one(cases[1], "direct", 10, kk)
			one(updatePools, "wrapped", acct, 6*acct)
		}
		// mixed (F24): granted in lower case, removal attempted in upper case, then in lower case
		one(cases[0], "direct", 10, 5+6*13)
		one(cases[1], "wrapped", 10, 5+6*13+5*span)
		one(updatePools, "direct", 13, 6*13)
		one(cases[1], "direct", 10, 5+6*13)
		one(updatePools, "direct", 13, 6*13)
		// phase 2: the table evolves through transactions
		for out.N < n {
			k++
			if rng.Chance(1, 4) {
				// a dropped state branch holding a grant (or removal) and a role lookup, then the account's own message
				items, kind, acct, follow := branchScenario(rng, cases, NACC)
				multi(kind, []int{4, 10, 10, rng.Intn(NSIGN)}[rng.Intn(4)], items)
				one(follow, []string{"direct", "wrapped"}[rng.Intn(2)], acct, k)
				continue
			}
			hc := cases[rng.Intn(2)]
			s := []int{4, 10, 4, 10, 10, rng.Intn(NSIGN)}[rng.Intn(6)]
			kk := rng.Intn(len(authRoles) * NACC * 8)
			one(hc, []string{"direct", "wrapped"}[rng.Intn(2)], s, kk)
			target := (kk / len(authRoles)) % NACC
			for j := 0; j < 5; j++ {
				h2 := cases[2+rng.Intn(len(cases)-2)]
				who := target
				if j >= 3 {
					who = rng.Intn(NACC)
				}
				shape := []string{"direct", "wrapped", "direct", "wrapped", "spoof", "spoofwrapped"}[rng.Intn(6)]
				if shape == "spoof" || shape == "spoofwrapped" {
					who = noRole[rng.Intn(3)]
				}
				one(h2, shape, who, k+j)
			}
		}
		if variant == 2 {
			// endgame of the sparse world (see adminEndgame): ADMIN holders go down to one, then to zero, by signed transactions
			adminEndgame(adminHolders(app, app.BaseApp.NewContext(true, header()), addrs), NACC, cases, func(hc handlerCase, signer int, k int) {
				one(hc, []string{"direct", "wrapped"}[k%2], signer, k)
			})
		}
		out.Extra["blocks"] = height
	}
}
