package main

// family "antetx" (C19, L2): the full SifchainApp driven through BeginBlock / DeliverTx / EndBlock /
// Commit with really signed transactions, so that the whole ante chain AND the authz dispatch run,
// and the *executed effects* are observed:
//   chk c19.fee.<shape>    executed (code 0) ⇒ rowan fee ≥ highest floor of the (unwrapped) messages
//   chk c19.paid.<shape>   … and that much was really deducted (fee-collector balance delta)
//   chk c19.effcom.<shape> after an executed create/edit validator (direct or wrapped): commission ≥ 5 %
//   chk c19.effpow.<shape> after an executed (re)delegation: target's tokens / (bonded + not bonded) < 6.6 %
// No oracle here: the harness only observes; the Lean predicates of Sif/Spec/C19.lean judge.

import (
	"fmt"
	"math/big"
	"math/rand"
	"time"

	sifapp "github.com/Sifchain/sifnode/app"
	codectypes "github.com/cosmos/cosmos-sdk/codec/types"
	"github.com/cosmos/cosmos-sdk/crypto/keys/secp256k1"
	cryptotypes "github.com/cosmos/cosmos-sdk/crypto/types"
	"github.com/cosmos/cosmos-sdk/simapp/helpers"
	sdk "github.com/cosmos/cosmos-sdk/types"
	authtypes "github.com/cosmos/cosmos-sdk/x/auth/types"
	banktypes "github.com/cosmos/cosmos-sdk/x/bank/types"
	govtypes "github.com/cosmos/cosmos-sdk/x/gov/types"
	slashingtypes "github.com/cosmos/cosmos-sdk/x/slashing/types"
	stakingtypes "github.com/cosmos/cosmos-sdk/x/staking/types"
	abci "github.com/tendermint/tendermint/abci/types"
	tmproto "github.com/tendermint/tendermint/proto/tendermint/types"
)

type l2 struct {
	app    *sifapp.SifchainApp
	privs  []cryptotypes.PrivKey
	addrs  []sdk.AccAddress
	height int64
	now    time.Time
	r      *rand.Rand
	out    *Out
}

func newL2(nAcc int, seed uint64) *l2 {
	sifapp.SetConfig(false)
	c := &l2{r: rand.New(rand.NewSource(int64(seed))), now: time.Unix(1700000000, 0).UTC()}
	for i := 0; i < nAcc; i++ {
		p := secp256k1.GenPrivKeyFromSecret([]byte(fmt.Sprintf("verif-c19-%d", i)))
		c.privs = append(c.privs, p)
		c.addrs = append(c.addrs, sdk.AccAddress(p.PubKey().Address()))
	}
	fund, _ := new(big.Int).SetString("1000000000000000000000000000", 10) // 10^27
	c.app = sifapp.SetupFromGenesis(false, func(app *sifapp.SifchainApp, gs sifapp.GenesisState) sifapp.GenesisState {
		cdc := app.AppCodec()
		var auth authtypes.GenesisState
		cdc.MustUnmarshalJSON(gs[authtypes.ModuleName], &auth)
		var bank banktypes.GenesisState
		cdc.MustUnmarshalJSON(gs[banktypes.ModuleName], &bank)
		for i, a := range c.addrs {
			acc := authtypes.NewBaseAccount(a, nil, uint64(i), 0)
			any, err := codectypes.NewAnyWithValue(acc)
			if err != nil {
				panic(err)
			}
			auth.Accounts = append(auth.Accounts, any)
			coins := sdk.NewCoins(sdk.NewCoin("rowan", sdk.NewIntFromBigInt(fund)))
			bank.Balances = append(bank.Balances, banktypes.Balance{Address: a.String(), Coins: coins})
			bank.Supply = bank.Supply.Add(coins...)
		}
		gs[authtypes.ModuleName] = cdc.MustMarshalJSON(&auth)
		gs[banktypes.ModuleName] = cdc.MustMarshalJSON(&bank)
		var st stakingtypes.GenesisState
		cdc.MustUnmarshalJSON(gs[stakingtypes.ModuleName], &st)
		st.Params.BondDenom = "rowan"
		gs[stakingtypes.ModuleName] = cdc.MustMarshalJSON(&st)
		return gs
	})
	c.app.Commit()
	c.height = 1
	return c
}

func (c *l2) header() tmproto.Header { return tmproto.Header{Height: c.height, Time: c.now} }

// query context on the last committed state
func (c *l2) qctx() sdk.Context { return c.app.BaseApp.NewContext(true, c.header()) }

// deliver context (valid between BeginBlock and Commit)
func (c *l2) dctx() sdk.Context { return c.app.BaseApp.NewContext(false, c.header()) }

func (c *l2) begin() {
	c.height++
	c.now = c.now.Add(25 * time.Hour)
	c.app.BeginBlock(abci.RequestBeginBlock{Header: c.header()})
}

func (c *l2) end() {
	c.app.EndBlock(abci.RequestEndBlock{Height: c.height})
	c.app.Commit()
}

// deliver signs msgs with account `signer` and runs DeliverTx inside the open block.
func (c *l2) deliver(signer int, msgs []sdk.Msg, fee sdk.Coins) abci.ResponseDeliverTx {
	acc := c.app.AccountKeeper.GetAccount(c.dctx(), c.addrs[signer])
	tx, err := helpers.GenSignedMockTx(c.r, encCfg.TxConfig, msgs, fee, 1500000, "", []uint64{acc.GetAccountNumber()}, []uint64{acc.GetSequence()}, c.privs[signer])
	if err != nil {
		panic(err)
	}
	bz, err := encCfg.TxConfig.TxEncoder()(tx)
	if err != nil {
		panic(err)
	}
	return c.app.DeliverTx(abci.RequestDeliverTx{Tx: bz})
}

func (c *l2) feeCollected() *big.Int {
	ctx := c.dctx()
	fc := c.app.AccountKeeper.GetModuleAddress(authtypes.FeeCollectorName)
	return c.app.BankKeeper.GetBalance(ctx, fc, "rowan").Amount.BigInt()
}

func (c *l2) stakeTotal(ctx sdk.Context) *big.Int {
	sk := c.app.StakingKeeper
	return new(big.Int).Add(
		c.app.BankKeeper.GetBalance(ctx, sk.GetBondedPool(ctx).GetAddress(), "rowan").Amount.BigInt(),
		c.app.BankKeeper.GetBalance(ctx, sk.GetNotBondedPool(ctx).GetAddress(), "rowan").Amount.BigInt())
}

func rowanCoins(a *big.Int) sdk.Coins {
	if a.Sign() == 0 {
		return sdk.Coins{}
	}
	return sdk.NewCoins(sdk.NewCoin("rowan", sdk.NewIntFromBigInt(a)))
}

func init() {
	families["antetx"] = func(rng *Rng, n int, out *Out, replay string) {
		const NV, NA = 20, 60
		c := newL2(NA, rng.U64())
		c.out = out
		pks := sifapp.CreateTestPubKeys(NA)
		defProp, _ := new(big.Int).SetString("5000000000000000000000", 10)
		self, _ := new(big.Int).SetString("1000000000000000000000000", 10) // 10^24 per validator
		valOf := func(i int) sdk.ValAddress { return sdk.ValAddress(c.addrs[i]) }
		mkCreate := func(i int, rate sdk.Dec, amount *big.Int) sdk.Msg {
			m, err := stakingtypes.NewMsgCreateValidator(valOf(i), pks[i], sdk.NewCoin("rowan", sdk.NewIntFromBigInt(amount)),
				stakingtypes.Description{Moniker: fmt.Sprintf("v%d", i)}, stakingtypes.NewCommissionRates(rate, sdk.OneDec(), sdk.OneDec()), sdk.OneInt())
			if err != nil {
				panic(err)
			}
			return m
		}
		// blocks 2..21: twenty validators of equal stake (5 % each), created by signed transactions
		for i := 0; i < NV; i++ {
			c.begin() // one per block: the block gas limit of the test genesis is 2,000,000
			res := c.deliver(i, []sdk.Msg{mkCreate(i, sdk.NewDecWithPrec(10, 2), self)}, sdk.Coins{})
			if res.Code != 0 {
				panic("setup: create validator failed: " + res.Log)
			}
			c.end()
		}
		nextFresh := NV
		jailed := map[int]bool{}
		executed, refused := 0, 0
		valID := func(a string) string {
			for i := 0; i < NA; i++ {
				if valOf(i).String() == a {
					return fmt.Sprintf("v%d", i)
				}
			}
			return "u"
		}

		{
			// directed (F23): two delegations to one validator in ONE transaction, each below the cap against the
			// state the transaction starts from, together above it.
			c.begin()
			ctx := c.dctx()
			tv, _ := c.app.StakingKeeper.GetValidator(ctx, valOf(3))
			total := c.stakeTotal(ctx)
			num := new(big.Int).Mul(big.NewInt(66), total)
			num.Sub(num, new(big.Int).Mul(big.NewInt(1000), tv.Tokens.BigInt()))
			a := new(big.Int).Quo(num, big.NewInt(934))
			a.Mul(a, big.NewInt(9)).Quo(a, big.NewInt(10))
			m1 := stakingtypes.NewMsgDelegate(c.addrs[5], valOf(3), sdk.NewCoin("rowan", sdk.NewIntFromBigInt(a)))
			m2 := stakingtypes.NewMsgDelegate(c.addrs[5], valOf(3), sdk.NewCoin("rowan", sdk.NewIntFromBigInt(a)))
			ns := []*node{leaf(m1, bodyOfStaking(m1, valID)), leaf(m2, bodyOfStaking(m2, valID))}
			res := c.deliver(5, msgsOf(ns), sdk.Coins{})
			if res.Code == 0 {
				ctx2 := c.dctx()
				tv2, _ := c.app.StakingKeeper.GetValidator(ctx2, valOf(3))
				out.Emit(fmt.Sprintf("chk c19.effpow.cumulative tag=ante.deliver.power.cumulative %s %s", tv2.Tokens.BigInt(), c.stakeTotal(ctx2)), "true", "tx.pow.cumulative", true)
			} else {
				out.Hist["tx.pow.cumulative.refused"]++
			}
			c.end()
		}
		for k := 0; out.N < n; k++ {
			c.begin()
			signer := rng.Intn(NV)
			depth := 0
			if rng.Chance(3, 5) {
				depth = 1 + rng.Intn(3)
			}
			if k < 12 {
				depth = []int{1, 0, 2, 3}[k%4]
			}
			kind := rng.Intn(5)
			if k < 12 {
				kind = k / 4
			}
			switch kind {
			case 0: // fee floors on executed transactions
				other := c.addrs[(signer+1)%NA]
				send := func() *node {
					m := banktypes.NewMsgSend(c.addrs[signer], other, sdk.NewCoins(sdk.NewCoin("rowan", sdk.NewInt(1+int64(rng.Intn(1000))))))
					return leaf(m, "o")
				}
				multi := func() *node {
					cs := sdk.NewCoins(sdk.NewCoin("rowan", sdk.NewInt(7)))
					m := banktypes.NewMsgMultiSend([]banktypes.Input{banktypes.NewInput(c.addrs[signer], cs)}, []banktypes.Output{banktypes.NewOutput(other, cs)})
					return leaf(m, "o")
				}
				prop := func() *node {
					m, err := govtypes.NewMsgSubmitProposal(govtypes.NewTextProposal("t", "d"), sdk.Coins{}, c.addrs[signer])
					if err != nil {
						panic(err)
					}
					return leaf(m, "o")
				}
				mk := []func() *node{send, send, multi, prop}
				cnt := 1 + rng.Intn(3)
				var ns []*node
				for i := 0; i < cnt; i++ {
					x := mk[rng.Intn(len(mk))]()
					d := depth
					if d > 0 && rng.Chance(1, 3) {
						d = rng.Intn(d + 1)
					}
					ns = append(ns, wrapDepth(c.addrs[signer], x, d))
				}
				if k < 4 {
					ns = []*node{wrapDepth(c.addrs[signer], prop(), depth), wrapDepth(c.addrs[signer], send(), depth)}
				}
				var fee *big.Int
				base := []*big.Int{f01, f001, defProp, big.NewInt(1)}[rng.Intn(4)]
				switch rng.Intn(4) {
				case 0:
					fee = new(big.Int).Set(base)
				case 1:
					fee = new(big.Int).Sub(base, big.NewInt(1))
				case 2:
					fee = new(big.Int).Add(base, big.NewInt(1))
				default:
					fee = rng.Near(base)
				}
				if k < 4 {
					fee = f01
				}
				before := c.feeCollected()
				res := c.deliver(signer, msgsOf(ns), rowanCoins(fee))
				paid := new(big.Int).Sub(c.feeCollected(), before)
				shape := shapeOf(ns)
				fees := "0"
				if fee.Sign() > 0 {
					fees = "1 rowan " + fee.String()
				}
				out.Emit(fmt.Sprintf("chk c19.fee.%s tag=ante.deliver.fee.%s %s %s %s %s", shape, shape, b2s(res.Code == 0), defProp, fees, encMsgs(ns)), "true",
					fmt.Sprintf("tx.fee.code%d.depth%d", min1(res.Code), depthOf(ns)), true)
				if res.Code == 0 {
					executed++
					out.Emit(fmt.Sprintf("chk c19.paid.%s tag=ante.deliver.paid.%s %s %s %s", shape, shape, defProp, paid, encMsgs(ns)), "true", "tx.paid", true)
				} else {
					refused++
				}
			case 1: // minimum commission on executed create / edit validator
				rate := []sdk.Dec{sdk.ZeroDec(), sdk.NewDecWithPrec(49, 3), sdk.NewDecWithPrec(5, 2), sdk.NewDecWithPrec(7, 2), decRaw(new(big.Int).Sub(minComRaw, big.NewInt(1)))}[rng.Intn(5)]
				if k < 12 {
					rate = sdk.ZeroDec()
				}
				var m sdk.Msg
				who := signer
				if rng.Chance(1, 4) && nextFresh < NA {
					who = nextFresh
					nextFresh++
					m = mkCreate(who, rate, big.NewInt(1000000))
				} else {
					m = stakingtypes.NewMsgEditValidator(valOf(who), stakingtypes.Description{Moniker: stakingtypes.DoNotModifyDesc, Identity: stakingtypes.DoNotModifyDesc, Website: stakingtypes.DoNotModifyDesc, SecurityContact: stakingtypes.DoNotModifyDesc, Details: stakingtypes.DoNotModifyDesc}, &rate, nil)
				}
				ns := []*node{wrapDepth(c.addrs[who], leaf(m, bodyOfStaking(m, valID)), depth)}
				res := c.deliver(who, msgsOf(ns), sdk.Coins{})
				shape := shapeOf(ns)
				if res.Code == 0 {
					executed++
					v, found := c.app.StakingKeeper.GetValidator(c.dctx(), valOf(who))
					if !found {
						panic("validator vanished")
					}
					out.Emit(fmt.Sprintf("chk c19.effcom.%s tag=ante.deliver.commission.%s %s", shape, shape, v.Commission.Rate.BigInt()), "true",
						fmt.Sprintf("tx.com.ok.depth%d", depth), true)
				} else {
					refused++
					out.Hist[fmt.Sprintf("tx.com.refused.depth%d", depth)]++
				}
			case 4: // a JAILED validator (its tokens remain bonded-plus-unbonding stake): delegations by its own operator and by others
				j := 15 + rng.Intn(3)
				if !jailed[j] {
					// set-up, as a downtime slash would do it: the staking keeper jails the validator
					c.app.StakingKeeper.Jail(c.dctx(), sdk.ConsAddress(pks[j].Address()))
					jailed[j] = true
				}
				who := j // the operator tops up its own bond
				if rng.Chance(1, 3) {
					who = rng.Intn(NV)
				}
				ctx := c.dctx()
				tv, _ := c.app.StakingKeeper.GetValidator(ctx, valOf(j))
				total := c.stakeTotal(ctx)
				num := new(big.Int).Mul(big.NewInt(66), total)
				num.Sub(num, new(big.Int).Mul(big.NewInt(1000), tv.Tokens.BigInt()))
				a := new(big.Int).Quo(num, big.NewInt(934))
				a.Add(a, big.NewInt(int64(rng.Intn(3)-1)*10000000000000)) // ±1e13: beyond the 18-decimal rounding of the projection
				if a.Sign() <= 0 {
					a = big.NewInt(1 + int64(rng.Intn(5)))
				}
				m := stakingtypes.NewMsgDelegate(c.addrs[who], valOf(j), sdk.NewCoin("rowan", sdk.NewIntFromBigInt(a)))
				ns := []*node{wrapDepth(c.addrs[who], leaf(m, bodyOfStaking(m, valID)), depth)}
				res := c.deliver(who, msgsOf(ns), sdk.Coins{})
				self := "other"
				if who == j {
					self = "self"
				}
				if res.Code == 0 {
					executed++
					ctx2 := c.dctx()
					tv2, _ := c.app.StakingKeeper.GetValidator(ctx2, valOf(j))
					out.Emit(fmt.Sprintf("chk c19.effpow.jailed.%s tag=ante.deliver.power.jailed.%s %s %s", self, self, tv2.Tokens.BigInt(), c.stakeTotal(ctx2)), "true",
						fmt.Sprintf("tx.pow.jailed.%s.ok.depth%d", self, depth), true)
					if who == j && rng.Chance(1, 2) {
						// …and comes back into the active set at that size
						c.end()
						c.begin()
						if ur := c.deliver(j, []sdk.Msg{slashingtypes.NewMsgUnjail(valOf(j))}, sdk.Coins{}); ur.Code == 0 {
							jailed[j] = false
							out.Hist["tx.unjail.ok"]++
						} else {
							out.Hist["tx.unjail.refused"]++
						}
					}
				} else {
					refused++
					out.Hist[fmt.Sprintf("tx.pow.jailed.%s.refused.depth%d", self, depth)]++
				}
			case 3: // a fresh account creates its validator and delegates to it in the same transaction
				if nextFresh >= NA {
					break
				}
				who := nextFresh
				A := new(big.Int).Quo(new(big.Int).Mul(big.NewInt(66), c.stakeTotal(c.dctx())), big.NewInt(934)) // (a+b)/(total+a+b) = 6.6 %
				a := new(big.Int).Quo(new(big.Int).Mul(A, big.NewInt(int64(1+rng.Intn(3)))), big.NewInt(4))
				b := new(big.Int).Sub(A, a)
				b.Add(b, big.NewInt(int64(rng.Intn(7)-3)))
				if rng.Chance(1, 4) {
					b = rng.Near(b)
				}
				mc := mkCreate(who, sdk.NewDecWithPrec(10, 2), a)
				md := stakingtypes.NewMsgDelegate(c.addrs[who], valOf(who), sdk.NewCoin("rowan", sdk.NewIntFromBigInt(b)))
				ns := []*node{wrapDepth(c.addrs[who], leaf(mc, bodyOfStaking(mc, valID)), rng.Intn(2)), wrapDepth(c.addrs[who], leaf(md, bodyOfStaking(md, valID)), depth)}
				res := c.deliver(who, msgsOf(ns), sdk.Coins{})
				if res.Code == 0 {
					executed++
					nextFresh++
					ctx2 := c.dctx()
					tv2, _ := c.app.StakingKeeper.GetValidator(ctx2, valOf(who))
					out.Emit(fmt.Sprintf("chk c19.effpow.created tag=ante.deliver.power.created %s %s", tv2.Tokens.BigInt(), c.stakeTotal(ctx2)), "true",
						fmt.Sprintf("tx.pow.created.ok.depth%d", depth), true)
				} else {
					refused++
					out.Hist[fmt.Sprintf("tx.pow.created.refused.depth%d", depth)]++
				}
			default: // voting-power cap on executed delegations / redelegations
				ctx := c.dctx()
				target := rng.Intn(NV)
				tv, _ := c.app.StakingKeeper.GetValidator(ctx, valOf(target))
				total := c.stakeTotal(ctx)
				redel := rng.Chance(1, 3) && signer != target
				num := new(big.Int).Mul(big.NewInt(66), total)
				num.Sub(num, new(big.Int).Mul(big.NewInt(1000), tv.Tokens.BigInt()))
				den := big.NewInt(934)
				if redel {
					den = big.NewInt(1000)
				}
				a := new(big.Int).Quo(num, den)
				a.Add(a, big.NewInt(int64(rng.Intn(7)-3)))
				if a.Sign() > 0 && rng.Chance(1, 4) {
					a = rng.Near(a)
				}
				if a.Sign() <= 0 {
					a = big.NewInt(1 + int64(rng.Intn(5)))
				}
				var m sdk.Msg
				if redel {
					m = stakingtypes.NewMsgBeginRedelegate(c.addrs[signer], valOf(signer), valOf(target), sdk.NewCoin("rowan", sdk.NewIntFromBigInt(a)))
				} else {
					m = stakingtypes.NewMsgDelegate(c.addrs[signer], valOf(target), sdk.NewCoin("rowan", sdk.NewIntFromBigInt(a)))
				}
				ns := []*node{wrapDepth(c.addrs[signer], leaf(m, bodyOfStaking(m, valID)), depth)}
				shape := shapeOf(ns)
				if !redel && rng.Chance(1, 3) {
					// the same amount split over two or three delegations of one transaction, one of them wrapped
					parts := 2 + rng.Intn(2)
					ns = nil
					rest := new(big.Int).Set(a)
					for i := 0; i < parts; i++ {
						x := new(big.Int).Quo(a, big.NewInt(int64(parts)))
						if i == parts-1 {
							x = rest
						}
						rest = new(big.Int).Sub(rest, x)
						if x.Sign() <= 0 {
							x = big.NewInt(1)
						}
						mi := stakingtypes.NewMsgDelegate(c.addrs[signer], valOf(target), sdk.NewCoin("rowan", sdk.NewIntFromBigInt(x)))
						d := 0
						if i == 0 {
							d = depth
						}
						ns = append(ns, wrapDepth(c.addrs[signer], leaf(mi, bodyOfStaking(mi, valID)), d))
					}
					shape = "cumulative"
				}
				res := c.deliver(signer, msgsOf(ns), sdk.Coins{})
				if res.Code == 0 {
					executed++
					ctx2 := c.dctx()
					tv2, _ := c.app.StakingKeeper.GetValidator(ctx2, valOf(target))
					out.Emit(fmt.Sprintf("chk c19.effpow.%s tag=ante.deliver.power.%s %s %s", shape, shape, tv2.Tokens.BigInt(), c.stakeTotal(ctx2)), "true",
						fmt.Sprintf("tx.pow.ok.depth%d", depth), true)
				} else {
					refused++
					out.Hist[fmt.Sprintf("tx.pow.refused.depth%d", depth)]++
				}
			}
			c.end()
			if k > 20*n {
				break
			}
		}
		out.Extra["executed"] = executed
		out.Extra["refused"] = refused
		out.Extra["blocks"] = c.height
	}
}

func min1(c uint32) int {
	if c == 0 {
		return 0
	}
	return 1
}
