package main

// family "antecom" (C19, clauses 2 and 3): the real ValidateMinCommissionDecorator.AnteHandle on
// transactions of staking messages (create/edit validator, delegate, redelegate) mixed with other
// messages, nested in authz.MsgExec to any depth, against real staking state (validators created
// through the staking keeper) with commission rates around 5 % and amounts around the 6.6 % boundary.
//   com <total> <vals> <msgs>                 → ok | err | panic          (model must agree)
//   chk c19.com tag=… <acc> <total> <vals> <msgs> → true                  (Lean predicate judges)

import (
	"fmt"
	"math/big"
	"strings"
	"time"

	sifapp "github.com/Sifchain/sifnode/app"
	"github.com/Sifchain/sifnode/app/ante"
	codectypes "github.com/cosmos/cosmos-sdk/codec/types"
	cryptotypes "github.com/cosmos/cosmos-sdk/crypto/types"
	sdk "github.com/cosmos/cosmos-sdk/types"
	"github.com/cosmos/cosmos-sdk/x/auth/legacy/legacytx"
	banktypes "github.com/cosmos/cosmos-sdk/x/bank/types"
	stakingtypes "github.com/cosmos/cosmos-sdk/x/staking/types"
	tmproto "github.com/tendermint/tendermint/proto/tendermint/types"
)

// mkValidator mirrors createValidator of app/ante/commission_test.go.
func mkValidator(app *sifapp.SifchainApp, ctx sdk.Context, amount sdk.Int, status stakingtypes.BondStatus, delegator sdk.AccAddress, pk cryptotypes.PubKey, jailed bool) sdk.ValAddress {
	pkAny, err := codectypes.NewAnyWithValue(pk)
	if err != nil {
		panic(err)
	}
	op := sdk.ValAddress(pk.Address())
	v := stakingtypes.Validator{
		OperatorAddress: op.String(), ConsensusPubkey: pkAny, Status: status, Jailed: jailed, Tokens: sdk.ZeroInt(), DelegatorShares: sdk.ZeroDec(),
		Description:   stakingtypes.Description{Moniker: "m"},
		UnbondingTime: time.Time{},
		Commission: stakingtypes.Commission{CommissionRates: stakingtypes.CommissionRates{
			Rate: sdk.NewDecWithPrec(5, 2), MaxRate: sdk.NewDecWithPrec(10, 2), MaxChangeRate: sdk.NewDecWithPrec(1, 2)}},
		MinSelfDelegation: sdk.NewInt(1),
	}
	app.StakingKeeper.SetValidator(ctx, v)
	if err := app.StakingKeeper.SetValidatorByConsAddr(ctx, v); err != nil {
		panic(err)
	}
	app.StakingKeeper.SetNewValidatorByPowerIndex(ctx, v)
	app.StakingKeeper.AfterValidatorCreated(ctx, v.GetOperator())
	if amount.IsPositive() {
		if _, err := app.StakingKeeper.Delegate(ctx, delegator, amount, stakingtypes.Unbonded, v, true); err != nil {
			panic(err)
		}
	}
	return op
}

func decRaw(i *big.Int) sdk.Dec { return sdk.NewDecFromBigIntWithPrec(i, 18) }

var minComRaw = big.NewInt(50000000000000000)

type comGen struct {
	rng     *Rng
	grantee sdk.AccAddress
	ops     []string   // bech32 operator addresses of the scenario's validators
	toks    []*big.Int // their tokens
	total   *big.Int
	denom   string
	ids     map[string]string
	unknown string
	// exact-boundary scenarios: delegating / redelegating exactly this much to validator 0 gives exactly 6.6 %
	exactDel, exactRedel *big.Int
	last                 int // the validator targeted last
	// validators that a MsgCreateValidator of the current transaction names (not in the store), with the
	// self-delegation it carries
	fresh      []string
	created    string
	createdVal *big.Int
}

func (g *comGen) valID(a string) string {
	if id, ok := g.ids[a]; ok {
		return id
	}
	// another valid spelling (upper case) of a known validator: the same validator
	if va, err := sdk.ValAddressFromBech32(a); err == nil {
		if id, ok := g.ids[va.String()]; ok {
			return id
		}
	}
	// a valid address of no stored validator (e.g. one that a MsgCreateValidator of the transaction names)
	if va, err := sdk.ValAddressFromBech32(a); err == nil {
		return fmt.Sprintf("n%x", []byte(va)[:6])
	}
	return "bad"
}

// boundary: the amount A with (tok + A) / (total + A) = 6.6 % for a validator holding tok
func (g *comGen) boundary(tok *big.Int) *big.Int {
	num := new(big.Int).Mul(big.NewInt(66), g.total)
	num.Sub(num, new(big.Int).Mul(big.NewInt(1000), tok))
	if num.Sign() <= 0 {
		return big.NewInt(0)
	}
	return num.Quo(num, big.NewInt(934))
}

func (g *comGen) rate() *big.Int {
	switch g.rng.Intn(8) {
	case 0:
		return big.NewInt(0)
	case 1:
		return new(big.Int).Set(minComRaw)
	case 2:
		return new(big.Int).Sub(minComRaw, big.NewInt(1))
	case 3:
		return new(big.Int).Add(minComRaw, big.NewInt(1))
	case 4:
		return new(big.Int).Set(pow18)
	case 5:
		return g.rng.Near(minComRaw)
	default:
		return g.rng.Rate01()
	}
}

func (g *comGen) valAddr() (string, int) {
	if g.created != "" && g.rng.Chance(1, 2) {
		a := g.created // the validator an earlier message of this transaction creates
		if g.rng.Chance(1, 5) {
			a = strings.ToUpper(a)
		}
		return a, -2
	}
	switch g.rng.Intn(14) {
	case 0:
		return g.unknown, -1
	case 1:
		return "sifvaloper1notbech32", -1
	}
	if len(g.ops) == 0 {
		return g.unknown, -1
	}
	i := g.rng.Intn(len(g.ops))
	if g.last >= 0 && g.last < len(g.ops) && g.rng.Chance(2, 5) {
		i = g.last // several (re)delegations to one validator in one transaction
	}
	g.last = i
	if g.rng.Chance(1, 6) {
		return strings.ToUpper(g.ops[i]), i // bech32 in upper case: the same validator
	}
	return g.ops[i], i
}

// amount around the boundary (tok+a)/(total+[a]) = 6.6 %
func (g *comGen) amount(i int, redelegate bool) *big.Int {
	if i == -2 {
		// to the validator being created: alone under the cap, with the self-delegation around it
		b := new(big.Int).Sub(g.boundary(big.NewInt(0)), g.createdVal)
		b.Add(b, big.NewInt(int64(g.rng.Intn(7)-3)))
		if b.Sign() < 0 {
			b.SetInt64(0)
		}
		if g.rng.Chance(1, 5) {
			return g.rng.Near(b)
		}
		return b
	}
	if i == 0 && ((!redelegate && g.exactDel != nil) || (redelegate && g.exactRedel != nil)) && g.rng.Chance(3, 4) {
		a := g.exactDel
		if redelegate {
			a = g.exactRedel
		}
		a = new(big.Int).Add(a, big.NewInt(int64([]int{0, 0, 0, -1, 1}[g.rng.Intn(5)])))
		if a.Sign() < 0 {
			a.SetInt64(0)
		}
		return a
	}
	if i < 0 || g.rng.Chance(1, 4) {
		return g.rng.Amount(100)
	}
	num := new(big.Int).Mul(big.NewInt(66), g.total)
	num.Sub(num, new(big.Int).Mul(big.NewInt(1000), g.toks[i]))
	den := big.NewInt(934)
	if redelegate {
		den = big.NewInt(1000)
	}
	if num.Sign() <= 0 {
		return big.NewInt(int64(g.rng.Intn(3)))
	}
	a := new(big.Int).Quo(num, den)
	if g.rng.Chance(1, 3) {
		a.Quo(a, big.NewInt(int64(2+g.rng.Intn(2)))) // a share of the boundary amount: several of them add up to it
	}
	a.Add(a, big.NewInt(int64(g.rng.Intn(5)-2)))
	if a.Sign() < 0 {
		a.SetInt64(0)
	}
	if g.rng.Chance(1, 5) {
		return g.rng.Near(a)
	}
	return a
}

func (g *comGen) leafMsg() *node {
	del := g.grantee.String()
	var m sdk.Msg
	switch g.rng.Intn(9) {
	case 0:
		addr := g.fresh[g.rng.Intn(len(g.fresh))]
		if len(g.ops) > 0 && g.rng.Chance(1, 8) {
			addr = g.ops[g.rng.Intn(len(g.ops))] // "creating" a validator that exists
		}
		value := new(big.Int).Quo(new(big.Int).Mul(g.boundary(big.NewInt(0)), big.NewInt(int64(1+g.rng.Intn(3)))), big.NewInt(4))
		if g.rng.Chance(1, 6) {
			value = g.rng.Amount(90)
		}
		rate := g.rate()
		if g.rng.Chance(1, 2) {
			rate = new(big.Int).Set(minComRaw) // so that the transaction gets past this message
		}
		m = &stakingtypes.MsgCreateValidator{DelegatorAddress: del, ValidatorAddress: addr, Value: sdk.Coin{Denom: g.denom, Amount: sdk.NewIntFromBigInt(value)},
			Commission: stakingtypes.CommissionRates{Rate: decRaw(rate), MaxRate: sdk.OneDec(), MaxChangeRate: sdk.OneDec()}}
		g.created, g.createdVal = addr, value
	case 1:
		if g.rng.Chance(1, 4) {
			m = &stakingtypes.MsgEditValidator{ValidatorAddress: g.unknown}
		} else {
			r := decRaw(g.rate())
			m = &stakingtypes.MsgEditValidator{ValidatorAddress: g.unknown, CommissionRate: &r}
		}
	case 2, 3, 4:
		a, i := g.valAddr()
		if g.rng.Chance(1, 3) {
			// the delegator is the target validator's own operator account (a self-bond top-up)
			if va, err := sdk.ValAddressFromBech32(a); err == nil {
				del = sdk.AccAddress(va).String()
			}
		}
		m = &stakingtypes.MsgDelegate{DelegatorAddress: del, ValidatorAddress: a, Amount: sdk.Coin{Denom: g.denom, Amount: sdk.NewIntFromBigInt(g.amount(i, false))}}
	case 5, 6:
		src, _ := g.valAddr()
		dst, i := g.valAddr()
		if g.rng.Chance(1, 6) {
			src = dst
		}
		m = &stakingtypes.MsgBeginRedelegate{DelegatorAddress: del, ValidatorSrcAddress: src, ValidatorDstAddress: dst, Amount: sdk.Coin{Denom: g.denom, Amount: sdk.NewIntFromBigInt(g.amount(i, true))}}
	case 7:
		m = &stakingtypes.MsgUndelegate{DelegatorAddress: del, ValidatorAddress: g.unknown, Amount: sdk.NewCoin(g.denom, sdk.NewInt(1))}
	default:
		m = &banktypes.MsgSend{FromAddress: del, ToAddress: del}
	}
	return leaf(m, bodyOfStaking(m, g.valID))
}

func (g *comGen) tree(depth int) *node {
	if depth > 0 && g.rng.Chance(2, 5) {
		k := g.rng.Intn(4)
		inner := make([]*node, 0, k)
		for i := 0; i < k; i++ {
			inner = append(inner, g.tree(depth-1))
		}
		return wrap(g.grantee, inner)
	}
	return g.leafMsg()
}

func comTag(ns []*node) string {
	if hasExec(ns) {
		return "ante.staking.wrapped"
	}
	return "ante.staking.direct"
}

func init() {
	families["antecom"] = func(rng *Rng, n int, out *Out, replay string) {
		sifapp.SetConfig(false)
		app := sifapp.Setup(false)
		ctx0 := app.BaseApp.NewContext(false, tmproto.Header{})
		dec := ante.NewValidateMinCommissionDecorator(app.StakingKeeper, app.BankKeeper)
		grantee := sdk.AccAddress([]byte("grantee_____________"))
		pks := sifapp.CreateTestPubKeys(40)
		unknown := sdk.ValAddress([]byte("no_such_validator___")).String()
		freshVals := []string{sdk.ValAddress([]byte("new_validator_one___")).String(), sdk.ValAddress([]byte("new_validator_two___")).String(), unknown}
		next := func(c sdk.Context, _ sdk.Tx, _ bool) (sdk.Context, error) { return c, nil }
		maxDepth := 0
		scen := 0
		jailedCount := 0
		for out.N < 2*n {
			scen++
			ctx, _ := ctx0.CacheContext()
			g := &comGen{fresh: freshVals, last: -1, rng: rng, grantee: grantee, ids: map[string]string{}, unknown: unknown, denom: app.StakingKeeper.BondDenom(ctx)}
			// validators: K of them, sizes of one magnitude so that the 6.6 % boundary is within reach
			K := rng.Intn(26)
			if rng.Chance(1, 12) {
				K = 1 + rng.Intn(3)
			}
			base := rng.Amount(100)
			var amts []sdk.Int
			sum := sdk.ZeroInt()
			for i := 0; i < K; i++ {
				var a *big.Int
				switch rng.Intn(5) {
				case 0:
					a = rng.Amount(100)
				case 1:
					a = big.NewInt(0)
				default:
					a = rng.Near(base)
				}
				amts = append(amts, sdk.NewIntFromBigInt(a))
				sum = sum.Add(amts[i])
			}
			if rng.Chance(1, 6) {
				// exact boundary: (tok0 + a) = 33m and total (+ a) = 500m, i.e. exactly 6.6 %
				K = 2
				a := rng.Amount(60)
				m := new(big.Int).Add(new(big.Int).Quo(a, big.NewInt(33)), big.NewInt(1+int64(rng.Intn(1000))))
				if rng.Chance(1, 3) {
					m.Add(m, rng.Amount(70))
				}
				t0 := new(big.Int).Sub(new(big.Int).Mul(big.NewInt(33), m), a)
				t1 := new(big.Int).Mul(big.NewInt(467), m)
				if rng.Bool() {
					g.exactDel = a
				} else {
					g.exactRedel = a
					t1.Add(t1, a)
				}
				amts = []sdk.Int{sdk.NewIntFromBigInt(t0), sdk.NewIntFromBigInt(t1)}
				sum = amts[0].Add(amts[1])
			}
			if K > 0 {
				funder := sifapp.AddTestAddrs(app, ctx, 1, sum.AddRaw(1))[0]
				for i := 0; i < K; i++ {
					st := []stakingtypes.BondStatus{stakingtypes.Bonded, stakingtypes.Bonded, stakingtypes.Unbonded, stakingtypes.Unbonding}[rng.Intn(4)]
					// a quarter of the validators are JAILED (their tokens stay bonded-plus-unbonding stake; jailed validators are not bonded)
					jailed := rng.Chance(1, 4)
					if jailed && st == stakingtypes.Bonded {
						st = stakingtypes.Unbonding
					}
					op := mkValidator(app, ctx, amts[i], st, funder, pks[i], jailed)
					if jailed {
						jailedCount++
					}
					g.ops = append(g.ops, op.String())
					g.ids[op.String()] = fmt.Sprintf("v%d", i)
				}
			}
			// observe what the decorator reads
			g.total = new(big.Int).Add(
				app.BankKeeper.GetBalance(ctx, app.StakingKeeper.GetBondedPool(ctx).GetAddress(), g.denom).Amount.BigInt(),
				app.BankKeeper.GetBalance(ctx, app.StakingKeeper.GetNotBondedPool(ctx).GetAddress(), g.denom).Amount.BigInt())
			var ids []string
			for i, a := range g.ops {
				va, _ := sdk.ValAddressFromBech32(a)
				v, _ := app.StakingKeeper.GetValidator(ctx, va)
				g.toks = append(g.toks, v.Tokens.BigInt())
				ids = append(ids, fmt.Sprintf("v%d", i))
			}
			envs := fmt.Sprintf("%s %s", g.total, encPairs(ids, g.toks))
			for t := 0; t < 12 && out.N < 2*n; t++ {
				k := 1 + rng.Intn(3)
				ns := make([]*node, 0, k)
				depth := 3
				if rng.Chance(1, 10) {
					depth = 6
				}
				g.created = ""
				createThenDelegate := rng.Chance(1, 6)
				if scen <= 2 && t < 4 {
					// directed: DESIGN 4/C19 (c) and neighbours
					zero := sdk.ZeroDec()
					ev := &stakingtypes.MsgEditValidator{ValidatorAddress: unknown, CommissionRate: &zero}
					cv := &stakingtypes.MsgCreateValidator{DelegatorAddress: grantee.String(), ValidatorAddress: unknown, Value: sdk.NewCoin(g.denom, sdk.ZeroInt()), Commission: stakingtypes.CommissionRates{Rate: zero, MaxRate: sdk.OneDec(), MaxChangeRate: sdk.OneDec()}}
					var m sdk.Msg = ev
					if t%2 == 1 {
						m = cv
					}
					ns = []*node{wrapDepth(grantee, leaf(m, bodyOfStaking(m, g.valID)), t/2+scen-1)}
				} else if createThenDelegate {
					// create a validator, then delegate / redelegate to it in the same transaction (direct, nested, other spelling)
					addr := g.fresh[rng.Intn(len(g.fresh))]
					value := new(big.Int).Quo(new(big.Int).Mul(g.boundary(big.NewInt(0)), big.NewInt(int64(1+rng.Intn(3)))), big.NewInt(4))
					cv := &stakingtypes.MsgCreateValidator{DelegatorAddress: grantee.String(), ValidatorAddress: addr, Value: sdk.Coin{Denom: g.denom, Amount: sdk.NewIntFromBigInt(value)},
						Commission: stakingtypes.CommissionRates{Rate: decRaw(minComRaw), MaxRate: sdk.OneDec(), MaxChangeRate: sdk.OneDec()}}
					g.created, g.createdVal = addr, value
					target := addr
					if rng.Chance(1, 4) {
						target = strings.ToUpper(addr)
					}
					var m sdk.Msg
					if rng.Chance(2, 3) || len(g.ops) == 0 {
						m = &stakingtypes.MsgDelegate{DelegatorAddress: grantee.String(), ValidatorAddress: target, Amount: sdk.Coin{Denom: g.denom, Amount: sdk.NewIntFromBigInt(g.amount(-2, false))}}
					} else {
						m = &stakingtypes.MsgBeginRedelegate{DelegatorAddress: grantee.String(), ValidatorSrcAddress: g.ops[rng.Intn(len(g.ops))], ValidatorDstAddress: target,
							Amount: sdk.Coin{Denom: g.denom, Amount: sdk.NewIntFromBigInt(g.amount(-2, true))}}
					}
					ns = []*node{wrapDepth(grantee, leaf(cv, bodyOfStaking(cv, g.valID)), rng.Intn(2)), wrapDepth(grantee, leaf(m, bodyOfStaking(m, g.valID)), rng.Intn(3))}
				} else {
					for i := 0; i < k; i++ {
						ns = append(ns, g.tree(depth))
					}
				}
				tx := legacytx.StdTx{Msgs: msgsOf(ns)}
				ans := protect(func() string {
					if _, err := dec.AnteHandle(ctx, tx, false, next); err != nil {
						return "err"
					}
					return "ok"
				})
				tail := envs + " " + encMsgs(ns)
				d := depthOf(ns)
				if d > maxDepth {
					maxDepth = d
				}
				out.Emit("com "+tail, ans, fmt.Sprintf("com.%s.depth%d", ans, d), true)
				out.Emit(fmt.Sprintf("chk c19.com.%s tag=%s %s %s", shapeOf(ns), comTag(ns), b2s(ans == "ok"), tail), "true", "chk.com", false)
			}
		}
		out.Extra["max_depth"] = maxDepth
		out.Extra["scenarios"] = scen
		out.Extra["jailed_validators"] = jailedCount
	}
}
