package main

// Message trees shared by the C19 families: a transaction's messages with authz.MsgExec as the inner
// node, built from the repository's real message types, and their line encoding for the Lean driver.

import (
	"fmt"
	"math/big"
	"sort"
	"strings"

	sifapp "github.com/Sifchain/sifnode/app"
	sdk "github.com/cosmos/cosmos-sdk/types"
	"github.com/cosmos/cosmos-sdk/x/authz"
	stakingtypes "github.com/cosmos/cosmos-sdk/x/staking/types"
)

type node struct {
	msg   sdk.Msg // the real message (for an exec node: the *authz.MsgExec wrapping the children)
	inner []*node // exec node iff inner != nil
	body  string  // encoding of what the commission decorator looks at ("o", "cv r", …)
}

func (n *node) isExec() bool { return n.inner != nil }

func (n *node) enc(sb *strings.Builder) {
	if n.isExec() {
		fmt.Fprintf(sb, " X %d", len(n.inner))
		for _, c := range n.inner {
			c.enc(sb)
		}
		return
	}
	fmt.Fprintf(sb, " L %s %s", sdk.MsgTypeURL(n.msg), n.body)
}

func encMsgs(ns []*node) string {
	var sb strings.Builder
	fmt.Fprintf(&sb, "%d", len(ns))
	for _, n := range ns {
		n.enc(&sb)
	}
	return sb.String()
}

func msgsOf(ns []*node) []sdk.Msg {
	out := make([]sdk.Msg, len(ns))
	for i, n := range ns {
		out[i] = n.msg
	}
	return out
}

func hasExec(ns []*node) bool {
	for _, n := range ns {
		if n.isExec() {
			return true
		}
	}
	return false
}

func depthOf(ns []*node) int {
	d := 0
	for _, n := range ns {
		if n.isExec() {
			if k := 1 + depthOf(n.inner); k > d {
				d = k
			}
		}
	}
	return d
}

func leaf(m sdk.Msg, body string) *node { return &node{msg: m, body: body} }

// wrap builds the real authz.MsgExec around the children (grantee = the given address).
func wrap(grantee sdk.AccAddress, inner []*node) *node {
	if inner == nil {
		inner = []*node{}
	}
	e := authz.NewMsgExec(grantee, msgsOf(inner))
	return &node{msg: &e, inner: inner}
}

// wrapDepth wraps n in d nested MsgExec.
func wrapDepth(grantee sdk.AccAddress, n *node, d int) *node {
	for ; d > 0; d-- {
		n = wrap(grantee, []*node{n})
	}
	return n
}

// allMsgURLs lists the type URLs of every sdk.Msg implementation registered by the app.
var encCfg = sifapp.MakeTestEncodingConfig()

func allMsgURLs() []string {
	enc := encCfg
	urls := enc.InterfaceRegistry.ListImplementations(sdk.MsgInterfaceProtoName)
	sort.Strings(urls)
	return urls
}

// zeroMsg instantiates the registered message type behind a type URL.
func zeroMsg(url string) sdk.Msg {
	enc := encCfg
	pm, err := enc.InterfaceRegistry.Resolve(url)
	if err != nil {
		return nil
	}
	m, ok := pm.(sdk.Msg)
	if !ok {
		return nil
	}
	return m
}

func bodyOfStaking(m sdk.Msg, valID func(string) string) string {
	switch v := m.(type) {
	case *stakingtypes.MsgCreateValidator:
		value := "0"
		if !v.Value.Amount.IsNil() {
			value = v.Value.Amount.BigInt().String()
		}
		return "cv " + v.Commission.Rate.BigInt().String() + " " + valID(v.ValidatorAddress) + " " + value
	case *stakingtypes.MsgEditValidator:
		if v.CommissionRate == nil {
			return "ev -"
		}
		return "ev " + v.CommissionRate.BigInt().String()
	case *stakingtypes.MsgDelegate:
		return "dg " + valID(v.ValidatorAddress) + " " + v.Amount.Amount.BigInt().String()
	case *stakingtypes.MsgBeginRedelegate:
		src := valID(v.ValidatorSrcAddress)
		if src == valID(v.ValidatorDstAddress) && v.ValidatorSrcAddress != v.ValidatorDstAddress {
			src += "~" // the decorator compares the two strings: another spelling of the same validator is "another" source
		}
		return "rd " + src + " " + valID(v.ValidatorDstAddress) + " " + v.Amount.Amount.BigInt().String()
	}
	return "o"
}

func encPairs(keys []string, vals []*big.Int) string {
	var sb strings.Builder
	fmt.Fprintf(&sb, "%d", len(keys))
	for i := range keys {
		fmt.Fprintf(&sb, " %s %s", keys[i], vals[i])
	}
	return sb.String()
}

func b2s(b bool) string {
	if b {
		return "1"
	}
	return "0"
}

// shapeOf names the shape of a transaction's message list (suffix of the chk predicate name).
func shapeOf(ns []*node) string {
	if hasExec(ns) {
		return "wrapped"
	}
	if len(ns) > 1 {
		return "mixed"
	}
	return "single"
}
