package main

// family "antefee" (C19, clause 1): the real AdjustGasPriceDecorator.AnteHandle on transactions built
// from EVERY message type registered by the app, in any mix and order, nested in authz.MsgExec to
// any depth, with fee coins around each floor and varying SubmitProposalFee admin parameter.
//   fee <propFee> <fees> <msgs>                → ok | ok.lowgas | err      (model must agree)
//   chk c19.fee tag=… <acc> <propFee> <fees> <msgs> → true                 (Lean predicate judges)

import (
	"fmt"
	"math/big"
	"strings"

	sifapp "github.com/Sifchain/sifnode/app"
	"github.com/Sifchain/sifnode/app/ante"
	admintypes "github.com/Sifchain/sifnode/x/admin/types"
	sdk "github.com/cosmos/cosmos-sdk/types"
	"github.com/cosmos/cosmos-sdk/x/auth/legacy/legacytx"
	tmproto "github.com/tendermint/tendermint/proto/tendermint/types"
)

var (
	f01  = big.NewInt(100000000000000000)
	f001 = big.NewInt(10000000000000000)
)

// floored: the type URLs the property names (used only to steer the generator, never to judge)
var flooredURLs = []string{
	"/cosmos.bank.v1beta1.MsgSend", "/cosmos.bank.v1beta1.MsgMultiSend",
	"/sifnode.clp.v1.MsgAddLiquidity", "/sifnode.clp.v1.MsgRemoveLiquidity", "/sifnode.clp.v1.MsgRemoveLiquidityUnits",
	"/sifnode.clp.v1.MsgSwap", "/sifnode.dispensation.v1.MsgCreateUserClaim",
	"/ibc.applications.transfer.v1.MsgTransfer", "/cosmos.gov.v1beta1.MsgSubmitProposal",
}

type feeGen struct {
	rng     *Rng
	urls    []string
	grantee sdk.AccAddress
}

func (g *feeGen) leafURL() string {
	switch g.rng.Intn(10) {
	case 0, 1, 2, 3, 4:
		return flooredURLs[g.rng.Intn(len(flooredURLs))]
	case 5:
		return []string{"/sifnode.dispensation.v1.MsgCreateDistribution", "/sifnode.dispensation.v1.MsgRunDistribution"}[g.rng.Intn(2)]
	default:
		return g.urls[g.rng.Intn(len(g.urls))]
	}
}

func (g *feeGen) tree(depth int) *node {
	if depth > 0 && g.rng.Chance(2, 5) {
		k := g.rng.Intn(4)
		if g.rng.Chance(1, 12) {
			k = 0
		}
		inner := make([]*node, 0, k)
		for i := 0; i < k; i++ {
			inner = append(inner, g.tree(depth-1))
		}
		return wrap(g.grantee, inner)
	}
	for {
		u := g.leafURL()
		if u == "/cosmos.authz.v1beta1.MsgExec" {
			continue
		}
		if m := zeroMsg(u); m != nil {
			return leaf(m, "o")
		}
	}
}

func (g *feeGen) amountNear(prop *big.Int) *big.Int {
	base := []*big.Int{f01, f001, prop, big.NewInt(0), big.NewInt(1)}[g.rng.Intn(5)]
	switch g.rng.Intn(6) {
	case 0:
		return new(big.Int).Set(base)
	case 1:
		v := new(big.Int).Sub(base, big.NewInt(1))
		if v.Sign() < 0 {
			v.SetInt64(0)
		}
		return v
	case 2:
		return new(big.Int).Add(base, big.NewInt(1))
	case 3:
		return g.rng.Amount(100)
	default:
		return g.rng.Near(base)
	}
}

func (g *feeGen) fees(prop *big.Int) ([]string, []*big.Int, sdk.Coins) {
	var ds []string
	var as []*big.Int
	var coins sdk.Coins
	add := func(d string, a *big.Int) {
		ds = append(ds, d)
		as = append(as, a)
		coins = append(coins, sdk.Coin{Denom: d, Amount: sdk.NewIntFromBigInt(a)})
	}
	switch g.rng.Intn(12) {
	case 0: // no fee at all
	case 1: // another denom only
		add("ceth", g.amountNear(prop))
	case 2: // several coins, rowan among them (sorted as sdk.Coins requires)
		add("ceth", g.amountNear(prop))
		add("rowan", g.amountNear(prop))
		add("stake", g.amountNear(prop))
	case 3: // look-alike denoms
		add("Rowan", g.amountNear(prop))
		add("rowan2", g.amountNear(prop))
	case 4: // rowan twice (not a valid sdk.Coins, but the loop is defined on it: the last one wins)
		add("rowan", g.amountNear(prop))
		add("rowan", g.amountNear(prop))
	default:
		add("rowan", g.amountNear(prop))
	}
	return ds, as, coins
}

func feeTag(ns []*node) string {
	if hasExec(ns) {
		return "ante.minfee.wrapped"
	}
	if len(ns) > 1 {
		return "ante.minfee.mixed"
	}
	return "ante.minfee.single"
}

func init() {
	families["antefee"] = func(rng *Rng, n int, out *Out, replay string) {
		sifapp.SetConfig(false)
		app := sifapp.Setup(false)
		ctx0 := app.BaseApp.NewContext(false, tmproto.Header{})
		dec := ante.NewAdjustGasPriceDecorator(app.AdminKeeper)
		grantee := sdk.AccAddress([]byte("grantee_____________"))
		g := &feeGen{rng: rng, urls: allMsgURLs(), grantee: grantee}
		out.Extra["registered_msg_urls"] = len(g.urls)
		maxDepth, kinds := 0, map[string]int{}
		defProp, _ := new(big.Int).SetString("5000000000000000000000", 10)

		run := func(prop *big.Int, setProp bool, ds []string, as []*big.Int, coins sdk.Coins, ns []*node) {
			ctx, _ := ctx0.CacheContext()
			if setProp {
				app.AdminKeeper.SetParams(ctx, &admintypes.Params{SubmitProposalFee: sdk.NewUintFromBigInt(prop)})
			}
			tx := legacytx.StdTx{Msgs: msgsOf(ns), Fee: legacytx.StdFee{Amount: coins}}
			lowGas := false
			next := func(c sdk.Context, _ sdk.Tx, _ bool) (sdk.Context, error) {
				lowGas = c.MinGasPrices().String() != ctx.MinGasPrices().String()
				return c, nil
			}
			ans := protect(func() string {
				_, err := dec.AnteHandle(ctx, tx, false, next)
				if err != nil {
					return "err"
				}
				if lowGas {
					return "ok.lowgas"
				}
				return "ok"
			})
			tail := fmt.Sprintf("%s %s %s", prop, encPairs(ds, as), encMsgs(ns))
			d := depthOf(ns)
			if d > maxDepth {
				maxDepth = d
			}
			cls := fmt.Sprintf("fee.%s.depth%d", ans, d)
			out.Emit("fee "+tail, ans, cls, true)
			acc := strings.HasPrefix(ans, "ok")
			out.Emit(fmt.Sprintf("chk c19.fee.%s tag=%s %s %s", shapeOf(ns), feeTag(ns), b2s(acc), tail), "true", "chk.fee", false)
			var count func(ns []*node)
			count = func(ns []*node) {
				for _, x := range ns {
					if x.isExec() {
						count(x.inner)
					} else {
						kinds[sdk.MsgTypeURL(x.msg)]++
					}
				}
			}
			count(ns)
		}

		rowan := func(a *big.Int) ([]string, []*big.Int, sdk.Coins) {
			return []string{"rowan"}, []*big.Int{a}, sdk.Coins{sdk.Coin{Denom: "rowan", Amount: sdk.NewIntFromBigInt(a)}}
		}
		L := func(u string) *node { return leaf(zeroMsg(u), "o") }
		send, prop, transfer := "/cosmos.bank.v1beta1.MsgSend", "/cosmos.gov.v1beta1.MsgSubmitProposal", "/ibc.applications.transfer.v1.MsgTransfer"
		// directed: the shapes of DESIGN 4/C19 (a)–(b) and their neighbours
		for _, fee := range []*big.Int{big.NewInt(1), f001, f01, new(big.Int).Sub(defProp, big.NewInt(1)), defProp} {
			ds, as, coins := rowan(fee)
			for _, ns := range [][]*node{
				{L(prop), L(send)}, {L(send), L(prop)}, {L(prop), L(transfer)}, {L(transfer), L(send)}, {L(send), L(transfer)},
				{L(prop)}, {L(send)}, {L(transfer)},
				{wrap(grantee, []*node{L(send)})}, {wrap(grantee, []*node{L(prop)})},
				{wrapDepth(grantee, L(send), 2)}, {wrapDepth(grantee, L(prop), 3)}, {wrapDepth(grantee, L(transfer), 5)},
				{L(transfer), wrap(grantee, []*node{L(transfer), wrap(grantee, []*node{L(prop)})})},
				{wrap(grantee, nil)},
			} {
				run(defProp, false, ds, as, coins, ns)
			}
		}
		// every registered message type on its own, directly and wrapped, at a fee just under 0.01
		for _, u := range g.urls {
			m := zeroMsg(u)
			if m == nil || u == "/cosmos.authz.v1beta1.MsgExec" {
				continue
			}
			ds, as, coins := rowan(new(big.Int).Sub(f001, big.NewInt(1)))
			run(defProp, false, ds, as, coins, []*node{leaf(m, "o")})
			run(defProp, false, ds, as, coins, []*node{wrap(grantee, []*node{leaf(m, "o")})})
		}
		for out.N < 2*n {
			p := defProp
			setProp := false
			if rng.Chance(1, 3) {
				setProp = true
				switch rng.Intn(4) {
				case 0:
					p = big.NewInt(0)
				case 1:
					p = rng.Amount(90)
				case 2:
					p = rng.Near(f01)
				default:
					p = rng.Near(f001)
				}
			}
			k := 1 + rng.Intn(4)
			if rng.Chance(1, 20) {
				k = 0
			}
			ns := make([]*node, 0, k)
			depth := 3
			if rng.Chance(1, 10) {
				depth = 6
			}
			for i := 0; i < k; i++ {
				ns = append(ns, g.tree(depth))
			}
			ds, as, coins := g.fees(p)
			run(p, setProp, ds, as, coins, ns)
		}
		out.Extra["max_depth"] = maxDepth
		out.Extra["distinct_leaf_urls"] = len(kinds)
	}
}
