package main

// family "antegen" (C19, L2 at height 0): chains started through the real InitChain from a genesis file that carries
// GENESIS TRANSACTIONS (x/genutil).  genutil delivers every gentx through BaseApp.DeliverTx — the full ante chain runs
// at block height 0 — and panics (InitChain aborts) if one is refused; it does not restrict what a gentx contains.  A
// gentx is a transaction the chain executes, so the property's rules are judged on it like on any other:
//   commission  gentx MsgCreateValidator with a rate below / at / above 5 %, direct and wrapped in MsgExec
//               → if InitChain went through: chk c19.effcom (the created validator's commission ≥ 5 %)
//   fee floor   gentx MsgSend with a fee of 0 / 0.1 rowan − 1 / 0.1 rowan, direct and wrapped
//               → chk c19.fee (executed ⇒ fee ≥ floor)
//   power cap   20 gentx validators of equal stake and one gentx MsgDelegate that takes one of them just below / past 6.6 %
//               → if InitChain went through: chk c19.effpow on the target's tokens / total
// The harness only observes (InitChain panicking = refused); the Lean predicates judge.

import (
	"encoding/json"
	"fmt"
	"math/big"
	"math/rand"

	sifapp "github.com/Sifchain/sifnode/app"
	codectypes "github.com/cosmos/cosmos-sdk/codec/types"
	"github.com/cosmos/cosmos-sdk/crypto/keys/secp256k1"
	cryptotypes "github.com/cosmos/cosmos-sdk/crypto/types"
	"github.com/cosmos/cosmos-sdk/simapp/helpers"
	sdk "github.com/cosmos/cosmos-sdk/types"
	authtypes "github.com/cosmos/cosmos-sdk/x/auth/types"
	banktypes "github.com/cosmos/cosmos-sdk/x/bank/types"
	genutiltypes "github.com/cosmos/cosmos-sdk/x/genutil/types"
	stakingtypes "github.com/cosmos/cosmos-sdk/x/staking/types"
	tmproto "github.com/tendermint/tendermint/proto/tendermint/types"
)

type genTx struct {
	signer int
	ns     []*node
	fee    *big.Int
}

func init() {
	families["antegen"] = func(rng *Rng, n int, out *Out, replay string) {
		sifapp.SetConfig(false)
		const NA = 24
		r := rand.New(rand.NewSource(int64(rng.U64())))
		var privs []cryptotypes.PrivKey
		var addrs []sdk.AccAddress
		for i := 0; i < NA; i++ {
			p := secp256k1.GenPrivKeyFromSecret([]byte(fmt.Sprintf("verif-c19-gen-%d", i)))
			privs = append(privs, p)
			addrs = append(addrs, sdk.AccAddress(p.PubKey().Address()))
		}
		pks := sifapp.CreateTestPubKeys(NA)
		valOf := func(i int) sdk.ValAddress { return sdk.ValAddress(addrs[i]) }
		valID := func(a string) string {
			for i := 0; i < NA; i++ {
				if valOf(i).String() == a {
					return fmt.Sprintf("v%d", i)
				}
			}
			return "u"
		}
		fund, _ := new(big.Int).SetString("1000000000000000000000000000", 10)
		defProp, _ := new(big.Int).SetString("5000000000000000000000", 10)
		self, _ := new(big.Int).SetString("1000000000000000000000000", 10)

		// initChain builds the genesis (funded accounts, bond denom rowan, the gentxs) and runs the real InitChain.
		// Returns the app, or nil if InitChain panicked (a gentx was refused).
		initChain := func(txs []genTx) (app *sifapp.SifchainApp) {
			defer func() {
				if rec := recover(); rec != nil {
					app = nil
				}
			}()
			seq := map[int]uint64{}
			return sifapp.SetupFromGenesis(false, func(a *sifapp.SifchainApp, gs sifapp.GenesisState) sifapp.GenesisState {
				cdc := a.AppCodec()
				var auth authtypes.GenesisState
				cdc.MustUnmarshalJSON(gs[authtypes.ModuleName], &auth)
				var bank banktypes.GenesisState
				cdc.MustUnmarshalJSON(gs[banktypes.ModuleName], &bank)
				for i, ad := range addrs {
					any, err := codectypes.NewAnyWithValue(authtypes.NewBaseAccount(ad, nil, uint64(i), 0))
					if err != nil {
						panic(err)
					}
					auth.Accounts = append(auth.Accounts, any)
					coins := sdk.NewCoins(sdk.NewCoin("rowan", sdk.NewIntFromBigInt(fund)))
					bank.Balances = append(bank.Balances, banktypes.Balance{Address: ad.String(), Coins: coins})
					bank.Supply = bank.Supply.Add(coins...)
				}
				gs[authtypes.ModuleName] = cdc.MustMarshalJSON(&auth)
				gs[banktypes.ModuleName] = cdc.MustMarshalJSON(&bank)
				var st stakingtypes.GenesisState
				cdc.MustUnmarshalJSON(gs[stakingtypes.ModuleName], &st)
				st.Params.BondDenom = "rowan"
				gs[stakingtypes.ModuleName] = cdc.MustMarshalJSON(&st)
				var gu genutiltypes.GenesisState
				cdc.MustUnmarshalJSON(gs[genutiltypes.ModuleName], &gu)
				for _, t := range txs {
					// at height 0 the signature covers account number 0 (SigVerificationDecorator) and the account's sequence
					tx, err := helpers.GenSignedMockTx(r, encCfg.TxConfig, msgsOf(t.ns), rowanCoins(t.fee), 1500000, "", []uint64{0}, []uint64{seq[t.signer]}, privs[t.signer])
					if err != nil {
						panic(err)
					}
					seq[t.signer]++
					bz, err := encCfg.TxConfig.TxJSONEncoder()(tx)
					if err != nil {
						panic(err)
					}
					gu.GenTxs = append(gu.GenTxs, json.RawMessage(bz))
				}
				gs[genutiltypes.ModuleName] = cdc.MustMarshalJSON(&gu)
				return gs
			})
		}
		mkCreate := func(i int, rate sdk.Dec, amount *big.Int) sdk.Msg {
			m, err := stakingtypes.NewMsgCreateValidator(valOf(i), pks[i], sdk.NewCoin("rowan", sdk.NewIntFromBigInt(amount)),
				stakingtypes.Description{Moniker: fmt.Sprintf("g%d", i)}, stakingtypes.NewCommissionRates(rate, sdk.OneDec(), sdk.OneDec()), sdk.OneInt())
			if err != nil {
				panic(err)
			}
			return m
		}
		zero := big.NewInt(0)
		hist := func(k string) { out.Hist[k]++ }

		// ---- commission
		for _, rate := range []sdk.Dec{sdk.NewDecWithPrec(1, 2), decRaw(new(big.Int).Sub(minComRaw, big.NewInt(1))), sdk.NewDecWithPrec(5, 2), sdk.NewDecWithPrec(10, 2)} {
			for depth := 0; depth <= 2; depth++ {
				m := mkCreate(0, rate, self)
				ns := []*node{wrapDepth(addrs[0], leaf(m, bodyOfStaking(m, valID)), depth)}
				app := initChain([]genTx{{0, ns, zero}})
				shape := shapeOf(ns)
				if app == nil {
					hist("gen.commission.refused")
					continue
				}
				v, found := app.StakingKeeper.GetValidator(app.BaseApp.NewContext(false, tmproto.Header{}), valOf(0))
				if !found {
					panic("genesis validator missing")
				}
				out.Emit(fmt.Sprintf("chk c19.effcom.genesis.%s tag=ante.genesis.commission.%s %s", shape, shape, v.Commission.Rate.BigInt()), "true", "gen.commission.executed", true)
			}
		}
		// ---- fee floor
		for _, fee := range []*big.Int{zero, new(big.Int).Sub(f01, big.NewInt(1)), f01} {
			for depth := 0; depth <= 1; depth++ {
				m := banktypes.NewMsgSend(addrs[1], addrs[2], sdk.NewCoins(sdk.NewCoin("rowan", sdk.NewInt(5))))
				mc := mkCreate(0, sdk.NewDecWithPrec(5, 2), self)
				ns := []*node{wrapDepth(addrs[1], leaf(m, "o"), depth)}
				app := initChain([]genTx{{0, []*node{leaf(mc, bodyOfStaking(mc, valID))}, zero}, {1, ns, fee}})
				shape := shapeOf(ns)
				fees := "0"
				if fee.Sign() > 0 {
					fees = "1 rowan " + fee.String()
				}
				out.Emit(fmt.Sprintf("chk c19.fee.genesis.%s tag=ante.genesis.fee.%s %s %s %s %s", shape, shape, b2s(app != nil), defProp, fees, encMsgs(ns)), "true",
					fmt.Sprintf("gen.fee.%v", app != nil), true)
			}
		}
		// ---- power cap: 20 validators of 5 % each, then a delegation to validator 3 around the boundary
		total := new(big.Int).Mul(self, big.NewInt(20))
		bnd := new(big.Int).Mul(big.NewInt(66), total)
		bnd.Sub(bnd, new(big.Int).Mul(big.NewInt(1000), self))
		bnd.Quo(bnd, big.NewInt(934))
		for _, d := range []int64{-10000000000000, 10000000000000} { // ±1e13 of ~1.4e24: beyond the 18-decimal rounding of the projection
			for _, depth := range []int{0, 2} {
				var txs []genTx
				for i := 0; i < 20; i++ {
					mc := mkCreate(i, sdk.NewDecWithPrec(5, 2), self)
					txs = append(txs, genTx{i, []*node{leaf(mc, bodyOfStaking(mc, valID))}, zero})
				}
				amt := new(big.Int).Add(bnd, big.NewInt(d))
				md := stakingtypes.NewMsgDelegate(addrs[21], valOf(3), sdk.NewCoin("rowan", sdk.NewIntFromBigInt(amt)))
				ns := []*node{wrapDepth(addrs[21], leaf(md, bodyOfStaking(md, valID)), depth)}
				txs = append(txs, genTx{21, ns, zero})
				app := initChain(txs)
				shape := shapeOf(ns)
				if app == nil {
					hist("gen.power.refused")
					continue
				}
				ctx := app.BaseApp.NewContext(false, tmproto.Header{})
				v, _ := app.StakingKeeper.GetValidator(ctx, valOf(3))
				tot := new(big.Int).Add(
					app.BankKeeper.GetBalance(ctx, app.StakingKeeper.GetBondedPool(ctx).GetAddress(), "rowan").Amount.BigInt(),
					app.BankKeeper.GetBalance(ctx, app.StakingKeeper.GetNotBondedPool(ctx).GetAddress(), "rowan").Amount.BigInt())
				out.Emit(fmt.Sprintf("chk c19.effpow.genesis.%s tag=ante.genesis.power.%s %s %s", shape, shape, v.Tokens.BigInt(), tot), "true", "gen.power.executed", true)
			}
		}
	}
}
