package main

// The pilot: generates one all-module history while executing it on the real application (it looks
// at the live state to pick pool amounts, LP units, position ids, distribution names and account
// sequences), recording the raw signed transactions.  The pilot's own observations are execution
// #1; `Execute` replays the recorded bytes in fresh instances.

import (
	"encoding/hex"
	"fmt"
	"math/big"
	"strings"

	admintypes "github.com/Sifchain/sifnode/x/admin/types"
	clptypes "github.com/Sifchain/sifnode/x/clp/types"
	disptypes "github.com/Sifchain/sifnode/x/dispensation/types"
	ethbridgetypes "github.com/Sifchain/sifnode/x/ethbridge/types"
	margintypes "github.com/Sifchain/sifnode/x/margin/types"
	trtypes "github.com/Sifchain/sifnode/x/tokenregistry/types"
	sdk "github.com/cosmos/cosmos-sdk/types"
	banktypes "github.com/cosmos/cosmos-sdk/x/bank/types"
	abci "github.com/tendermint/tendermint/abci/types"
)

type Pilot struct {
	C      *Chain
	W      *World
	R      *Rng
	Spec   *Spec
	Obs    Exec
	cur    *BlockSpec
	curObs *BlockObs
	Hist   map[string]int // label:code histogram
	Events map[string]int // event types seen in BeginBlock / EndBlock of the pilot (hook activity)
	step   int64          // seconds per block
	nonce  int64          // ethereum event nonce counter
	dists  []distRef
	mtps   []mtpRef
	// set by operations after which a restarted node must be compared with running ones: the next block becomes a restart point
	restartNext bool
	// every epoch end the pilot's BeginBlock performed: "h=<height> id=<identifier> | oldStartNs durationNs newStartNs oldCurrent newCurrent"
	EpochEnds []string
}

type distRef struct {
	name   string
	typ    disptypes.DistributionType
	runner *Acct
}
type mtpRef struct {
	owner *Acct
	id    uint64
}

func NewPilot(name string, seed uint64, rng *Rng, o GenesisOpts, stepSeconds int64) *Pilot {
	w, app, bl := BuildGenesis(seed, o)
	spec := &Spec{Name: name, InitialHeight: 1, GenesisTime: 1700000000, AppState: app, Blacklist: bl}
	return &Pilot{C: NewChain(spec), W: w, R: rng, Spec: spec, Hist: map[string]int{}, Events: map[string]int{}, step: stepSeconds}
}

func (p *Pilot) Begin() {
	h := p.C.App.LastBlockHeight() + 1
	if h < p.Spec.InitialHeight {
		h = p.Spec.InitialHeight
	}
	var prop []byte
	if len(p.W.ConsAddr) > 0 {
		prop = p.W.ConsAddr[int(h)%len(p.W.ConsAddr)]
	}
	t := p.Spec.GenesisTime + (h-p.Spec.InitialHeight+1)*p.step
	p.Spec.Blocks = append(p.Spec.Blocks, BlockSpec{Height: h, Time: t, Proposer: hex.EncodeToString(prop)})
	p.cur = &p.Spec.Blocks[len(p.Spec.Blocks)-1]
	p.Obs.Blocks = append(p.Obs.Blocks, BlockObs{})
	p.curObs = &p.Obs.Blocks[len(p.Obs.Blocks)-1]
	before := p.C.App.EpochsKeeper.AllEpochInfos(p.C.Ctx())
	r := p.C.Begin(h, t, prop)
	// what an epoch end wrote, taken from the state (the block times of the histories lie years before the wall clock)
	for _, a := range p.C.App.EpochsKeeper.AllEpochInfos(p.C.Ctx()) {
		for _, b := range before {
			if b.Identifier == a.Identifier && b.EpochCountingStarted && a.CurrentEpoch != b.CurrentEpoch {
				p.EpochEnds = append(p.EpochEnds, fmt.Sprintf("h=%d id=%s | %d %d %d %d %d", h, sanitize(a.Identifier), b.CurrentEpochStartTime.UnixNano(), int64(b.Duration),
					a.CurrentEpochStartTime.UnixNano(), b.CurrentEpoch, a.CurrentEpoch))
			}
		}
	}
	for _, e := range r.Events {
		p.Events["begin/"+e.Type]++
	}
}

func (p *Pilot) End() {
	var evs []abci.Event
	p.curObs.EndBlock, p.curObs.AppHash, evs = p.C.EndEv()
	for _, e := range evs {
		p.Events["end/"+e.Type]++
	}
	p.genSims()
	if p.restartNext {
		p.Spec.RestartBefore = append(p.Spec.RestartBefore, len(p.Spec.Blocks))
		p.restartNext = false
	}
}

// sharedEdit: an administrator message whose handler EDITS an object other messages read in decoded form
// (registry entries, admin table, oracle whitelist, clp policies).  Used (1) as the first message of
// transactions whose later message fails, so that the edit is rolled back, and (2) for simulations.
func (p *Pilot) sharedEdit() (sdk.Msg, string) {
	m, _, label := p.sharedEditWithReader()
	return m, label
}

// sharedEditWithReader also returns a message of the same signer (the administrator) that READS the edited
// object afterwards — it may succeed or be refused after reading.
func (p *Pilot) sharedEditWithReader() (edit sdk.Msg, reader sdk.Msg, label string) {
	adm := p.W.Admin
	a := adm.Addr.String()
	tok := tokens[p.R.Intn(len(tokens))]
	// a clp message on `tok` by the administrator: reads the registry entry (permissions, decimals)
	clpReader := func() sdk.Msg {
		amt := uintOf(new(big.Int).Mul(big.NewInt(int64(1+p.R.Intn(20))), pow10(tok.Decimals)))
		switch p.R.Intn(3) {
		case 0:
			m := clptypes.NewMsgSwap(adm.Addr, clptypes.NewAsset(tok.Denom), clptypes.GetSettlementAsset(), amt, sdk.ZeroUint())
			return &m
		case 1:
			m := clptypes.NewMsgSwap(adm.Addr, clptypes.GetSettlementAsset(), clptypes.NewAsset(tok.Denom), uintOf(new(big.Int).Mul(big.NewInt(int64(1+p.R.Intn(20))), pow10(18))), sdk.ZeroUint())
			return &m
		default:
			m := clptypes.NewMsgAddLiquidity(adm.Addr, clptypes.NewAsset(tok.Denom), uintOf(new(big.Int).Mul(big.NewInt(10), pow10(18))), amt)
			return &m
		}
	}
	switch p.R.Intn(9) {
	case 0, 1: // replace an EXISTING registry entry: no CLP permission
		perms := []trtypes.Permission{trtypes.Permission_IBCEXPORT}
		if p.R.Bool() {
			perms = nil
		}
		return &trtypes.MsgRegister{From: a, Entry: &trtypes.RegistryEntry{Denom: tok.Denom, BaseDenom: tok.Denom, Decimals: tok.Decimals + int64(p.R.Intn(2)), Permissions: perms}}, clpReader(), "registry.replace"
	case 2, 3: // replace an EXISTING entry keeping its permissions but with other decimals (pool pricing reads them)
		return &trtypes.MsgRegister{From: a, Entry: &trtypes.RegistryEntry{Denom: tok.Denom, BaseDenom: tok.Denom, Decimals: []int64{6, 8, 12, 18}[p.R.Intn(4)] + int64(p.R.Intn(2)),
			Permissions: []trtypes.Permission{trtypes.Permission_CLP, trtypes.Permission_IBCEXPORT, trtypes.Permission_IBCIMPORT}}}, clpReader(), "registry.redecimal"
	case 4:
		return &trtypes.MsgDeregister{From: a, Denom: tok.Denom}, clpReader(), "registry.deregister"
	case 5:
		reg := &trtypes.Registry{Entries: []*trtypes.RegistryEntry{{Denom: "rowan", BaseDenom: "rowan", Decimals: 18, Permissions: []trtypes.Permission{trtypes.Permission_CLP}},
			{Denom: tok.Denom, BaseDenom: tok.Denom, Decimals: tok.Decimals}}}
		return &trtypes.MsgSetRegistry{From: a, Registry: reg}, clpReader(), "registry.set"
	case 6: // drop one of the administrator's roles; the reader is a message that needs exactly that role
		if p.R.Bool() {
			acc := &admintypes.AdminAccount{AdminType: admintypes.AdminType_PMTPREWARDS, AdminAddress: a}
			rd := &clptypes.MsgUpdateRewardsParamsRequest{Signer: a, LiquidityRemovalLockPeriod: 1, LiquidityRemovalCancelPeriod: 9, RewardsLockPeriod: 1, RewardsEpochIdentifier: "hour", RewardsDistribute: true}
			return &admintypes.MsgRemoveAccount{Signer: a, Account: acc}, rd, "admin.remove"
		}
		acc := &admintypes.AdminAccount{AdminType: admintypes.AdminType_TOKENREGISTRY, AdminAddress: a}
		rd := &trtypes.MsgRegister{From: a, Entry: &trtypes.RegistryEntry{Denom: "cafteredit", BaseDenom: "cafteredit", Decimals: 6, Permissions: []trtypes.Permission{trtypes.Permission_CLP}}}
		return &admintypes.MsgRemoveAccount{Signer: a, Account: acc}, rd, "admin.remove"
	case 7:
		val := sdk.ValAddress(p.W.Vals[p.R.Intn(len(p.W.Vals))].Addr)
		m := ethbridgetypes.NewMsgUpdateWhiteListValidator(adm.Addr, val, "remove")
		rd := ethbridgetypes.NewMsgUpdateWhiteListValidator(adm.Addr, val, "add") // reads the list it was just removed from
		return &m, &rd, "bridge.whitelist.remove"
	default:
		rd := &clptypes.MsgUpdateRewardsParamsRequest{Signer: a, LiquidityRemovalLockPeriod: 2, LiquidityRemovalCancelPeriod: 8, RewardsLockPeriod: 1, RewardsEpochIdentifier: "hour", RewardsDistribute: false}
		return &clptypes.MsgUpdateRewardsParamsRequest{Signer: a, LiquidityRemovalLockPeriod: uint64(p.R.Intn(5)), LiquidityRemovalCancelPeriod: 9,
			RewardsLockPeriod: uint64(p.R.Intn(3)), RewardsEpochIdentifier: "hour", RewardsDistribute: p.R.Bool()}, rd, "clp.rewardsparams"
	}
}

// AcceptedRedecimal: the token-registry administrator SUCCESSFULLY re-registers the denom of an existing pool
// with other decimals (permissions kept).  Block hooks price every pool from the registered decimals, so every
// node must pick the new value up from the next block on; the next block is a restart point.
func (p *Pilot) AcceptedRedecimal(denom string) {
	ps := p.pools()
	if denom == "" {
		if len(ps) == 0 {
			return
		}
		denom = ps[p.R.Intn(len(ps))].ExternalAsset.Symbol
	}
	ctx := p.C.Ctx()
	reg := p.C.App.TokenRegistryKeeper.GetRegistry(ctx)
	cur := int64(-1)
	if e, err := p.C.App.TokenRegistryKeeper.GetEntry(reg, denom); err == nil {
		cur = e.Decimals
	}
	choices := []int64{6, 8, 10, 12, 18}
	d := choices[p.R.Intn(len(choices))]
	for d == cur {
		d = choices[p.R.Intn(len(choices))]
	}
	m := &trtypes.MsgRegister{From: p.W.Admin.Addr.String(), Entry: &trtypes.RegistryEntry{Denom: denom, BaseDenom: denom, Decimals: d,
		Permissions: []trtypes.Permission{trtypes.Permission_CLP, trtypes.Permission_IBCEXPORT, trtypes.Permission_IBCIMPORT}}}
	p.Tx("registry.redecimal.accepted", p.W.Admin, m)
	p.restartNext = true
}

// AcceptedEdit: other accepted administrator edits of objects that block hooks and later messages read, each
// followed by a restart point: swap fee table, rewards policy, liquidity-protection policy, an oracle whitelist
// member removed and re-added in one transaction.
func (p *Pilot) AcceptedEdit() {
	adm := p.W.Admin
	a := adm.Addr.String()
	switch p.R.Intn(4) {
	case 0:
		tok := tokens[p.R.Intn(len(tokens))]
		m := clptypes.MsgUpdateSwapFeeParamsRequest{Signer: a, DefaultSwapFeeRate: sdk.NewDecWithPrec(int64(1+p.R.Intn(9)), 3),
			TokenParams: []*clptypes.SwapFeeTokenParams{{Asset: tok.Denom, SwapFeeRate: sdk.NewDecWithPrec(int64(1+p.R.Intn(20)), 3)}}}
		p.Tx("clp.admin.swapfee.accepted", adm, &m)
	case 1:
		m := clptypes.MsgUpdateRewardsParamsRequest{Signer: a, LiquidityRemovalLockPeriod: uint64(p.R.Intn(3)), LiquidityRemovalCancelPeriod: uint64(5 + p.R.Intn(10)),
			RewardsLockPeriod: uint64(p.R.Intn(2)), RewardsEpochIdentifier: "hour", RewardsDistribute: p.R.Bool()}
		p.Tx("clp.admin.rewardsparams.accepted", adm, &m)
	case 2:
		m := clptypes.MsgUpdateLiquidityProtectionParams{Signer: a, MaxRowanLiquidityThreshold: sdk.NewUintFromBigInt(new(big.Int).Mul(big.NewInt(int64(50000+p.R.Intn(100000))), pow10(18))),
			MaxRowanLiquidityThresholdAsset: "rowan", EpochLength: uint64(5 + p.R.Intn(10)), IsActive: true}
		p.Tx("clp.admin.liqprot.accepted", adm, &m)
	default:
		val := sdk.ValAddress(p.W.Vals[p.R.Intn(len(p.W.Vals))].Addr)
		rm := ethbridgetypes.NewMsgUpdateWhiteListValidator(adm.Addr, val, "remove")
		ad := ethbridgetypes.NewMsgUpdateWhiteListValidator(adm.Addr, val, "add")
		p.Tx("bridge.whitelist.remove+add.accepted", adm, &rm, &ad)
	}
	p.restartNext = true
}

// MarginParamsZeros: the margin administrator sets parameters to a MEANINGFUL zero through the live message path:
// a fund percentage waived (UpdateParams), open/removal thresholds at zero, or AdminCloseAll without the margin
// fund cut (which zeroes ForceCloseFundPercentage).  An export must carry the zero, not a default.
func (p *Pilot) MarginParamsZeros(variant int) {
	adm := p.W.Admin
	params := p.C.App.MarginKeeper.GetParams(p.C.Ctx())
	np := params
	zero := sdk.ZeroDec()
	switch variant % 4 {
	case 0:
		np.ForceCloseFundPercentage = zero
	case 1:
		np.IncrementalInterestPaymentFundPercentage = zero
	case 2:
		np.ForceCloseFundPercentage = zero
		np.IncrementalInterestPaymentFundPercentage = zero
		np.PoolOpenThreshold = zero
		np.RemovalQueueThreshold = zero
		np.IncrementalInterestPaymentEnabled = false
	default:
		m := margintypes.MsgAdminCloseAll{Signer: adm.Addr.String(), TakeMarginFund: false}
		p.Tx("margin.admincloseall.nofund", adm, &m)
		return
	}
	m := margintypes.MsgUpdateParams{Signer: adm.Addr.String(), Params: &np}
	p.Tx("margin.updateparams.zeros", adm, &m)
}

// ZeroParams: single-value parameters of the other modules set to zero / empty / off through their messages.
func (p *Pilot) ZeroParams() {
	adm := p.W.Admin
	a := adm.Addr.String()
	switch p.R.Intn(6) {
	case 0:
		m := clptypes.MsgUpdateSwapFeeParamsRequest{Signer: a, DefaultSwapFeeRate: sdk.ZeroDec(), TokenParams: []*clptypes.SwapFeeTokenParams{{Asset: "ceth", SwapFeeRate: sdk.ZeroDec()}}}
		p.Tx("clp.admin.swapfee.zero", adm, &m)
	case 1:
		m := clptypes.MsgUpdateLiquidityProtectionParams{Signer: a, MaxRowanLiquidityThreshold: sdk.ZeroUint(), MaxRowanLiquidityThresholdAsset: "rowan", EpochLength: 1, IsActive: false}
		p.Tx("clp.admin.liqprot.off", adm, &m)
	case 2:
		m := clptypes.MsgUpdateRewardsParamsRequest{Signer: a, LiquidityRemovalLockPeriod: 0, LiquidityRemovalCancelPeriod: 0, RewardsLockPeriod: 0, RewardsEpochIdentifier: "hour", RewardsDistribute: false}
		p.Tx("clp.admin.rewardsparams.zero", adm, &m)
	case 3:
		m := ethbridgetypes.MsgPause{Signer: a, IsPaused: p.R.Bool()}
		p.Tx("bridge.pause", adm, &m)
	case 4:
		m := clptypes.MsgAddProviderDistributionPeriodRequest{Signer: a, DistributionPeriods: []*clptypes.ProviderDistributionPeriod{
			{DistributionPeriodBlockRate: sdk.ZeroDec(), DistributionPeriodStartBlock: uint64(p.Height()) + 1, DistributionPeriodEndBlock: uint64(p.Height()) + 500, DistributionPeriodMod: 1}}}
		p.Tx("clp.admin.lppd.zero", adm, &m)
	default:
		p.MarginParamsZeros(p.R.Intn(4))
	}
}

// SetRegistryWithDuplicates: the administrator replaces the registry by the current list plus a SECOND entry for
// a denom that is already listed (MsgSetRegistry stores the list as given), the copies differing in permissions
// and decimals; a MsgRegister on that denom then updates the first copy only.  All readers use the first entry
// of a denom; an export must carry the list as it is.
func (p *Pilot) SetRegistryWithDuplicates() {
	adm := p.W.Admin
	reg := p.C.App.TokenRegistryKeeper.GetRegistry(p.C.Ctx())
	if len(reg.Entries) == 0 {
		return
	}
	tok := tokens[p.R.Intn(len(tokens))]
	entries := make([]*trtypes.RegistryEntry, 0, len(reg.Entries)+2)
	entries = append(entries, reg.Entries...)
	dup := &trtypes.RegistryEntry{Denom: tok.Denom, BaseDenom: tok.Denom, Decimals: int64(p.R.Intn(19)), DisplayName: "second copy"}
	if p.R.Bool() {
		dup.Permissions = []trtypes.Permission{trtypes.Permission_IBCIMPORT}
	}
	entries = append(entries, dup)
	if p.R.Bool() { // and an exact copy of another entry
		c := *reg.Entries[p.R.Intn(len(reg.Entries))]
		entries = append(entries, &c)
	}
	m := &trtypes.MsgSetRegistry{From: adm.Addr.String(), Registry: &trtypes.Registry{Entries: entries}}
	if r := p.Tx("registry.set.duplicates", adm, m); r.Code != 0 {
		return
	}
	up := &trtypes.MsgRegister{From: adm.Addr.String(), Entry: &trtypes.RegistryEntry{Denom: tok.Denom, BaseDenom: tok.Denom, Decimals: tok.Decimals, DisplayName: "first copy, updated",
		Permissions: []trtypes.Permission{trtypes.Permission_CLP, trtypes.Permission_IBCEXPORT, trtypes.Permission_IBCIMPORT}}}
	p.Tx("registry.register.duplicated-denom", adm, up)
	p.restartNext = true
}

// SetBlacklist: the ethbridge administrator sets (and later replaces) the blacklist with real Ethereum addresses in
// several capitalisations AND elements that are not addresses — the message accepts any strings: an empty
// element, an ENS name, a bech32 address, hex strings of the wrong length.  The export must carry what is stored.
func (p *Pilot) SetBlacklist() {
	adm := p.W.Admin
	hexAddr := func() string {
		h := fmt.Sprintf("%040x", p.R.BigBits(150))
		switch p.R.Intn(4) {
		case 0:
			return "0x" + strings.ToUpper(h)
		case 1:
			return h // no 0x prefix
		case 2:
			return "0X" + h
		default:
			return "0x" + h
		}
	}
	odd := []string{"", "vitalik.eth", p.user().Addr.String(), "0x" + fmt.Sprintf("%039x", p.R.BigBits(140)), "0x" + fmt.Sprintf("%041x", p.R.BigBits(150)), " 0xabc ", "0xZZ"}
	var list []string
	for i := 1 + p.R.Intn(4); i > 0; i-- {
		list = append(list, hexAddr())
	}
	for i := 1 + p.R.Intn(3); i > 0; i-- {
		list = append(list, odd[p.R.Intn(len(odd))])
	}
	if p.R.Chance(1, 2) {
		list = append(list, "")
	}
	m := ethbridgetypes.MsgSetBlacklist{From: adm.Addr.String(), Addresses: list}
	p.Tx("bridge.setblacklist", adm, &m)
}

// EditReadFail: [edit X, a message that reads X (succeeds, or is refused after reading), a send of more than the
// sender owns] — rejected as a whole.  Whatever the reader computed or cached from the edited X must be gone
// with the transaction; the block after it becomes a restart point of the `restarted` executions, so that a node
// that only knows the committed state is compared with nodes that executed the rejected transaction.
func (p *Pilot) EditReadFail() {
	edit, reader, label := p.sharedEditWithReader()
	tooMuch := banktypes.NewMsgSend(p.W.Admin.Addr, p.user().Addr, sdk.NewCoins(coin("rowan", pow10(40))))
	if p.R.Chance(1, 3) {
		p.Tx("multi."+label+"+reader", p.W.Admin, edit, reader) // fails only if the reader is refused
	} else {
		p.Tx("multi."+label+"+reader+send.toomuch", p.W.Admin, edit, reader, tooMuch)
	}
	p.restartNext = true
}

// RolledBackEdit: [shared edit, a bank send of more than the sender owns] — the transaction is rejected as
// a whole, so the edit must leave no trace anywhere (the second message does not read what the first wrote).
func (p *Pilot) RolledBackEdit() {
	m, label := p.sharedEdit()
	tooMuch := banktypes.NewMsgSend(p.W.Admin.Addr, p.user().Addr, sdk.NewCoins(coin("rowan", pow10(40))))
	p.Tx("multi."+label+"+send.toomuch", p.W.Admin, m, tooMuch)
}

// genSims records, after a block is committed, the gas-estimation requests a twin node will serve before
// the next block: administrator edits of shared objects and an ordinary user message.
func (p *Pilot) genSims() {
	for i := 1 + p.R.Intn(2); i > 0; i-- {
		m, _ := p.sharedEdit()
		if raw, err := p.C.SignTx(p.W.Admin, 5000000, m); err == nil {
			p.cur.Sims = append(p.cur.Sims, hex.EncodeToString(raw))
		}
	}
	if ps := p.pools(); len(ps) > 0 {
		u := p.user()
		a := ps[p.R.Intn(len(ps))]
		m := clptypes.NewMsgSwap(u.Addr, clptypes.GetSettlementAsset(), *a.ExternalAsset, frac(a.NativeAssetBalance, 1, 500), sdk.ZeroUint())
		if raw, err := p.C.SignTx(u, 5000000, &m); err == nil {
			p.cur.Sims = append(p.cur.Sims, hex.EncodeToString(raw))
		}
	}
}

func (p *Pilot) Height() int64 { return p.C.Height }

// Tx signs, delivers and records one transaction.
func (p *Pilot) Tx(label string, signer *Acct, msgs ...sdk.Msg) abci.ResponseDeliverTx {
	// Does the transaction fail the STATELESS ValidateBasic (decided from the messages alone)?  Such a
	// transaction never passes CheckTx of an honest node, but a proposer can put it in a block; baseapp then
	// rejects it before the ante handler runs (see finding F25 for what DeliverTx reports as GasUsed).
	stateless := false
	for _, m := range msgs {
		if err := m.ValidateBasic(); err != nil {
			stateless = true
		}
	}
	raw, err := p.C.SignTx(signer, 5000000, msgs...)
	if err != nil {
		p.Hist[label+":unsigned"]++
		return abci.ResponseDeliverTx{Code: 99999}
	}
	r := p.C.Deliver(raw)
	p.cur.Txs = append(p.cur.Txs, hex.EncodeToString(raw))
	p.cur.Labels = append(p.cur.Labels, label)
	p.cur.Stateless = append(p.cur.Stateless, stateless)
	p.curObs.Txs = append(p.curObs.Txs, txObs(r))
	cls := "ok"
	if stateless {
		label += "[stateless-invalid]"
	}
	if r.Code != 0 {
		cls = fmt.Sprintf("err%d.%s", r.Code, r.Codespace)
	}
	p.Hist[label+":"+cls]++
	return r
}

// ---- helpers over the live state ----------------------------------------------------------

func (p *Pilot) user() *Acct { return p.W.Users[p.R.Intn(len(p.W.Users))] }

func (p *Pilot) pools() []*clptypes.Pool { return p.C.App.ClpKeeper.GetPools(p.C.Ctx()) }

func uintOf(b *big.Int) sdk.Uint { return sdk.NewUintFromBigInt(b) }

func frac(x sdk.Uint, num, den int64) sdk.Uint {
	return x.Mul(sdk.NewUint(uint64(num))).Quo(sdk.NewUint(uint64(den)))
}

func decimalsOf(denom string) int64 {
	for _, t := range tokens {
		if t.Denom == denom {
			return t.Decimals
		}
	}
	return 18
}

// ---- operations ---------------------------------------------------------------------------

func (p *Pilot) CreatePool(u *Acct, denom string) {
	nat := new(big.Int).Mul(big.NewInt(int64(1000+p.R.Intn(9000))), pow10(18))
	ext := new(big.Int).Mul(big.NewInt(int64(1000+p.R.Intn(9000))), pow10(decimalsOf(denom)))
	m := clptypes.NewMsgCreatePool(u.Addr, clptypes.NewAsset(denom), uintOf(nat), uintOf(ext))
	p.Tx("clp.create", u, &m)
}

func (p *Pilot) AddLiquidity(u *Acct, pool *clptypes.Pool) {
	// mostly symmetric (proportional) adds, sometimes one-sided
	k := int64(1 + p.R.Intn(200))
	nat := frac(pool.NativeAssetBalance, k, 1000)
	ext := frac(pool.ExternalAssetBalance, k, 1000)
	switch p.R.Intn(8) {
	case 0:
		nat = sdk.ZeroUint()
	case 1:
		ext = sdk.ZeroUint()
	}
	m := clptypes.NewMsgAddLiquidity(u.Addr, *pool.ExternalAsset, nat, ext)
	p.Tx("clp.add", u, &m)
}

func (p *Pilot) RemoveLiquidity(u *Acct, pool *clptypes.Pool) {
	if p.R.Bool() {
		m := clptypes.NewMsgRemoveLiquidity(u.Addr, *pool.ExternalAsset, sdk.NewInt(int64(1+p.R.Intn(5000))), sdk.NewInt(int64(p.R.Intn(3)-1)*int64(p.R.Intn(10000))))
		p.Tx("clp.remove", u, &m)
		return
	}
	lp, err := p.C.App.ClpKeeper.GetLiquidityProvider(p.C.Ctx(), pool.ExternalAsset.Symbol, u.Addr.String())
	units := sdk.NewUint(1000)
	if err == nil {
		units = frac(lp.LiquidityProviderUnits, int64(1+p.R.Intn(50)), 100)
	}
	m := clptypes.NewMsgRemoveLiquidityUnits(u.Addr, *pool.ExternalAsset, units)
	p.Tx("clp.removeunits", u, &m)
}

func (p *Pilot) Unlock(u *Acct, pool *clptypes.Pool) {
	lp, err := p.C.App.ClpKeeper.GetLiquidityProvider(p.C.Ctx(), pool.ExternalAsset.Symbol, u.Addr.String())
	units := sdk.NewUint(1000)
	if err == nil {
		units = frac(lp.LiquidityProviderUnits, int64(1+p.R.Intn(30)), 100)
	}
	if p.R.Chance(1, 5) {
		m := clptypes.MsgCancelUnlock{Signer: u.Addr.String(), ExternalAsset: pool.ExternalAsset, Units: units}
		p.Tx("clp.cancelunlock", u, &m)
		return
	}
	m := clptypes.MsgUnlockLiquidityRequest{Signer: u.Addr.String(), ExternalAsset: pool.ExternalAsset, Units: units}
	p.Tx("clp.unlock", u, &m)
}

func (p *Pilot) Swap(u *Acct, ps []*clptypes.Pool, big bool) {
	a := ps[p.R.Intn(len(ps))]
	var from, to clptypes.Asset
	var depth sdk.Uint
	switch p.R.Intn(3) {
	case 0:
		from, to, depth = clptypes.GetSettlementAsset(), *a.ExternalAsset, a.NativeAssetBalance
	case 1:
		from, to, depth = *a.ExternalAsset, clptypes.GetSettlementAsset(), a.ExternalAssetBalance
	default:
		b := ps[p.R.Intn(len(ps))]
		from, to, depth = *a.ExternalAsset, *b.ExternalAsset, a.ExternalAssetBalance
	}
	k := int64(1 + p.R.Intn(50))
	if big {
		k = int64(300 + p.R.Intn(400))
	}
	m := clptypes.NewMsgSwap(u.Addr, from, to, frac(depth, k, 1000), sdk.ZeroUint())
	p.Tx("clp.swap", u, &m)
}

func (p *Pilot) AddToBucket(u *Acct) {
	cs := sdk.NewCoins()
	for _, t := range tokens {
		if p.R.Chance(2, 3) {
			cs = cs.Add(coin(t.Denom, new(big.Int).Mul(big.NewInt(int64(1+p.R.Intn(500))), pow10(t.Decimals))))
		}
	}
	if cs.IsZero() {
		cs = sdk.NewCoins(coin("ceth", pow10(18)))
	}
	m := clptypes.NewMsgAddLiquidityToRewardsBucketRequest(u.Addr.String(), cs)
	p.Tx("clp.bucket", u, m)
}

func decp(s string) *sdk.Dec { d := sdk.MustNewDecFromStr(s); return &d }

func (p *Pilot) AdminPolicies(phase int) {
	a := p.W.Admin
	h := uint64(p.Height())
	switch phase {
	case 0: // LPPD + wallet-paying depth rewards + epoch payouts to wallets, no removal lock
		pd := clptypes.MsgAddProviderDistributionPeriodRequest{Signer: a.Addr.String(), DistributionPeriods: []*clptypes.ProviderDistributionPeriod{
			{DistributionPeriodBlockRate: sdk.MustNewDecFromStr("0.003"), DistributionPeriodStartBlock: h + 1, DistributionPeriodEndBlock: h + 1000, DistributionPeriodMod: 3}}}
		p.Tx("clp.admin.lppd", a, &pd)
		alloc := sdk.NewUintFromBigInt(new(big.Int).Mul(big.NewInt(500000), pow10(18)))
		rp := clptypes.MsgAddRewardPeriodRequest{Signer: a.Addr.String(), RewardPeriods: []*clptypes.RewardPeriod{
			{RewardPeriodId: "rp1", RewardPeriodStartBlock: h + 2, RewardPeriodEndBlock: h + 14, RewardPeriodAllocation: &alloc,
				RewardPeriodPoolMultipliers:   []*clptypes.PoolMultiplier{{PoolMultiplierAsset: "ceth", Multiplier: decp("2.5")}, {PoolMultiplierAsset: "cdai", Multiplier: decp("0.5")}},
				RewardPeriodDefaultMultiplier: decp("1.0"), RewardPeriodDistribute: true, RewardPeriodMod: 2},
			{RewardPeriodId: "rp2", RewardPeriodStartBlock: h + 15, RewardPeriodEndBlock: h + 1000, RewardPeriodAllocation: &alloc,
				RewardPeriodPoolMultipliers:   []*clptypes.PoolMultiplier{{PoolMultiplierAsset: "cusdc", Multiplier: decp("3")}},
				RewardPeriodDefaultMultiplier: decp("1.0"), RewardPeriodDistribute: false, RewardPeriodMod: 3}}}
		p.Tx("clp.admin.rewardperiod", a, &rp)
		up := clptypes.MsgUpdateRewardsParamsRequest{Signer: a.Addr.String(), LiquidityRemovalLockPeriod: 0, LiquidityRemovalCancelPeriod: 5,
			RewardsLockPeriod: 1, RewardsEpochIdentifier: "hour", RewardsDistribute: true}
		p.Tx("clp.admin.rewardsparams", a, &up)
	case 1: // epoch rewards now go into the pools; removal needs an unlock request; ratio shifting starts (float code)
		up := clptypes.MsgUpdateRewardsParamsRequest{Signer: a.Addr.String(), LiquidityRemovalLockPeriod: 2, LiquidityRemovalCancelPeriod: 6,
			RewardsLockPeriod: 1, RewardsEpochIdentifier: "hour", RewardsDistribute: false}
		p.Tx("clp.admin.rewardsparams", a, &up)
		pm := clptypes.MsgUpdatePmtpParams{Signer: a.Addr.String(), PmtpPeriodGovernanceRate: "0.10", PmtpPeriodEpochLength: 4,
			PmtpPeriodStartBlock: int64(h) + 2, PmtpPeriodEndBlock: int64(h) + 2 + 4*6 - 1}
		p.Tx("clp.admin.pmtp", a, &pm)
		sf := clptypes.MsgUpdateSwapFeeParamsRequest{Signer: a.Addr.String(), DefaultSwapFeeRate: sdk.MustNewDecFromStr("0.003"),
			TokenParams: []*clptypes.SwapFeeTokenParams{{Asset: "ceth", SwapFeeRate: sdk.MustNewDecFromStr("0.01")}, {Asset: "rowan", SwapFeeRate: sdk.MustNewDecFromStr("0.002")}}}
		p.Tx("clp.admin.swapfee", a, &sf)
		lp := clptypes.MsgUpdateLiquidityProtectionParams{Signer: a.Addr.String(), MaxRowanLiquidityThreshold: sdk.NewUintFromBigInt(new(big.Int).Mul(big.NewInt(100000), pow10(18))),
			MaxRowanLiquidityThresholdAsset: "rowan", EpochLength: 10, IsActive: true}
		p.Tx("clp.admin.liqprot", a, &lp)
	case 2: // back to wallet payouts
		up := clptypes.MsgUpdateRewardsParamsRequest{Signer: a.Addr.String(), LiquidityRemovalLockPeriod: 1, LiquidityRemovalCancelPeriod: 20,
			RewardsLockPeriod: 0, RewardsEpochIdentifier: "hour", RewardsDistribute: true}
		p.Tx("clp.admin.rewardsparams", a, &up)
		st := clptypes.MsgSetSymmetryThreshold{Signer: a.Addr.String(), Threshold: sdk.MustNewDecFromStr("0.05"), Ratio: sdk.MustNewDecFromStr("0.0005")}
		p.Tx("clp.admin.symmetry", a, &st)
	}
}

// ---- bridge --------------------------------------------------------------------------------

var bridgeContract = ethbridgetypes.NewEthereumAddress("0x30753E4A8aad7F8597332E813735Def5dD395028")
var tokenContract = ethbridgetypes.NewEthereumAddress("0x0000000000000000000000000000000000000000")
var ethSender = ethbridgetypes.NewEthereumAddress("0x627306090abaB3A6e1400e9345bC60c78a8BEf57")

func (p *Pilot) claim(v int, nonce int64, receiver sdk.AccAddress, amount int64, label string) abci.ResponseDeliverTx {
	val := p.W.Vals[v]
	c := ethbridgetypes.NewEthBridgeClaim(1, bridgeContract, nonce, "eth", tokenContract, ethSender, receiver, sdk.ValAddress(val.Addr),
		sdk.NewIntFromBigInt(new(big.Int).Mul(big.NewInt(amount), pow10(15))), ethbridgetypes.ClaimType_CLAIM_TYPE_LOCK)
	m := ethbridgetypes.NewMsgCreateEthBridgeClaim(c)
	return p.Tx(label, val, &m)
}

// BridgeRound: one Ethereum event witnessed by the validators, possibly with conflicting contents.
// kind 0: all agree; 1: tie 1-1 then the rest agree with the first; 2: even split (prophecy fails);
// 3: three different contents then a majority.
func (p *Pilot) BridgeRound(kind int) {
	p.nonce++
	n := p.nonce
	rcv := p.user().Addr
	nv := len(p.W.Vals)
	order := make([]int, nv)
	for i := range order {
		order[i] = i
	}
	for i := nv - 1; i > 0; i-- { // seeded shuffle
		j := p.R.Intn(i + 1)
		order[i], order[j] = order[j], order[i]
	}
	amt := int64(1 + p.R.Intn(5000))
	for i, v := range order {
		a := amt
		switch kind {
		case 1:
			if i == 1 {
				a = amt + 1
			}
		case 2:
			if i%2 == 1 {
				a = amt + 1
			}
		case 3:
			if i == 1 {
				a = amt + 1
			} else if i == 2 {
				a = amt + 2
			}
		}
		p.claim(v, n, rcv, a, fmt.Sprintf("bridge.claim.k%d", kind))
	}
}

func (p *Pilot) BridgeBurnLock(u *Acct) {
	if p.R.Bool() {
		m := ethbridgetypes.NewMsgLock(1, u.Addr, ethSender, sdk.NewIntFromBigInt(new(big.Int).Mul(big.NewInt(int64(1+p.R.Intn(50))), pow10(18))), "rowan",
			sdk.NewIntFromBigInt(new(big.Int).Mul(big.NewInt(70), pow10(15))))
		p.Tx("bridge.lock", u, &m)
	} else {
		m := ethbridgetypes.NewMsgBurn(1, u.Addr, ethSender, sdk.NewIntFromBigInt(new(big.Int).Mul(big.NewInt(int64(1+p.R.Intn(5))), pow10(17))), "ceth",
			sdk.NewIntFromBigInt(new(big.Int).Mul(big.NewInt(70), pow10(15))))
		p.Tx("bridge.burn", u, &m)
	}
}

// ---- dispensation --------------------------------------------------------------------------

func (p *Pilot) CreateDistribution() {
	d := p.user()
	runner := p.user()
	typ := disptypes.DistributionType_DISTRIBUTION_TYPE_AIRDROP
	var outs []banktypes.Output
	n := 12 + p.R.Intn(14)
	for i := 0; i < n; i++ {
		var to sdk.AccAddress
		switch {
		case i == 3:
			to = p.W.Blocked.Addr // this payment fails when the distribution runs
		case p.R.Chance(1, 3):
			to = NewAcct(p.W.Seed, fmt.Sprintf("fresh-%d-%d", p.Height(), i)).Addr // no account yet
		default:
			to = p.user().Addr
		}
		cs := sdk.NewCoins(coin("rowan", new(big.Int).Mul(big.NewInt(int64(1+p.R.Intn(100))), pow10(18))))
		if p.R.Chance(1, 4) {
			cs = cs.Add(coin("ceth", new(big.Int).Mul(big.NewInt(int64(1+p.R.Intn(100))), pow10(15))))
		}
		outs = append(outs, banktypes.NewOutput(to, cs))
	}
	m := disptypes.NewMsgCreateDistribution(d.Addr, typ, outs, runner.Addr.String())
	r := p.Tx("disp.create", d, &m)
	if r.Code == 0 {
		p.dists = append(p.dists, distRef{name: fmt.Sprintf("%d_%s", p.Height(), d.Addr.String()), typ: typ, runner: runner})
	}
}

// SameBlockCreateRunCreate: one distributor, two authorised runners, an overlapping recipient, all in one block
// (the distribution name is <height>_<distributor>; uniqueness is on name+type+runner): create(R1, [X,…]);
// run(R1) → X's record COMPLETED; create(R2, [X,…]) → a second, PENDING record with the same name, type and
// recipient.  Both records are legitimate state that an export must carry.
func (p *Pilot) SameBlockCreateRunCreate() {
	d := p.W.Users[p.R.Intn(len(p.W.Users)-1)]
	r1 := p.W.Users[p.R.Intn(len(p.W.Users)-1)]
	r2 := p.W.Users[p.R.Intn(len(p.W.Users)-1)]
	for r2 == r1 {
		r2 = p.W.Users[p.R.Intn(len(p.W.Users)-1)]
	}
	x := p.W.Users[p.R.Intn(len(p.W.Users)-1)] // never the blocked user: the first payment must complete
	typ := disptypes.DistributionType_DISTRIBUTION_TYPE_AIRDROP
	outs := func() []banktypes.Output {
		o := []banktypes.Output{banktypes.NewOutput(x.Addr, sdk.NewCoins(coin("rowan", new(big.Int).Mul(big.NewInt(int64(1+p.R.Intn(50))), pow10(18)))))}
		for i := p.R.Intn(3); i > 0; i-- {
			o = append(o, banktypes.NewOutput(p.W.Users[p.R.Intn(len(p.W.Users)-1)].Addr, sdk.NewCoins(coin("rowan", new(big.Int).Mul(big.NewInt(int64(1+p.R.Intn(50))), pow10(18))))))
		}
		return o
	}
	name := fmt.Sprintf("%d_%s", p.Height(), d.Addr.String())
	m1 := disptypes.NewMsgCreateDistribution(d.Addr, typ, outs(), r1.Addr.String())
	if r := p.Tx("disp.create.twice.first", d, &m1); r.Code != 0 {
		return
	}
	p.dists = append(p.dists, distRef{name: name, typ: typ, runner: r1})
	m2 := disptypes.NewMsgRunDistribution(r1.Addr.String(), name, typ, 20)
	p.Tx("disp.run.between", r1, &m2)
	m3 := disptypes.NewMsgCreateDistribution(d.Addr, typ, outs(), r2.Addr.String())
	if r := p.Tx("disp.create.twice.second", d, &m3); r.Code == 0 {
		p.dists = append(p.dists, distRef{name: name, typ: typ, runner: r2})
	}
}

func (p *Pilot) RunDistribution() {
	if len(p.dists) == 0 {
		return
	}
	d := p.dists[p.R.Intn(len(p.dists))]
	m := disptypes.NewMsgRunDistribution(d.runner.Addr.String(), d.name, d.typ, int64(3+p.R.Intn(8)))
	p.Tx("disp.run", d.runner, &m)
}

func (p *Pilot) UserClaim() {
	u := p.user()
	t := disptypes.DistributionType_DISTRIBUTION_TYPE_LIQUIDITY_MINING
	if p.R.Bool() {
		t = disptypes.DistributionType_DISTRIBUTION_TYPE_VALIDATOR_SUBSIDY
	}
	m := disptypes.NewMsgCreateUserClaim(u.Addr, t)
	p.Tx("disp.claim", u, &m)
}

// ---- margin --------------------------------------------------------------------------------

func (p *Pilot) MarginOpen(pool string) {
	u := p.user()
	var m margintypes.MsgOpen
	if p.R.Bool() {
		m = margintypes.MsgOpen{Signer: u.Addr.String(), CollateralAsset: "rowan", CollateralAmount: uintOf(new(big.Int).Mul(big.NewInt(int64(5+p.R.Intn(60))), pow10(18))),
			BorrowAsset: pool, Position: margintypes.Position_LONG, Leverage: sdk.MustNewDecFromStr("2.0")}
	} else {
		m = margintypes.MsgOpen{Signer: u.Addr.String(), CollateralAsset: pool, CollateralAmount: uintOf(new(big.Int).Mul(big.NewInt(int64(5+p.R.Intn(60))), pow10(decimalsOf(pool)))),
			BorrowAsset: "rowan", Position: margintypes.Position_LONG, Leverage: sdk.MustNewDecFromStr("1.7")}
	}
	before := p.C.App.MarginKeeper.GetMTPCount(p.C.Ctx())
	r := p.Tx("margin.open", u, &m)
	if r.Code == 0 {
		p.mtps = append(p.mtps, mtpRef{owner: u, id: before + 1})
	}
}

func (p *Pilot) MarginClose() {
	if len(p.mtps) == 0 {
		return
	}
	i := p.R.Intn(len(p.mtps))
	x := p.mtps[i]
	if p.R.Chance(1, 3) {
		m := margintypes.MsgForceClose{Signer: p.W.Admin.Addr.String(), MtpAddress: x.owner.Addr.String(), Id: x.id}
		p.Tx("margin.forceclose", p.W.Admin, &m)
		return
	}
	m := margintypes.MsgClose{Signer: x.owner.Addr.String(), Id: x.id}
	r := p.Tx("margin.close", x.owner, &m)
	if r.Code == 0 {
		p.mtps = append(p.mtps[:i], p.mtps[i+1:]...)
	}
}

// ---- registry / admin / bank ---------------------------------------------------------------

func (p *Pilot) Misc() {
	a := p.W.Admin
	switch p.R.Intn(6) {
	case 4:
		m := admintypes.MsgSetParams{Signer: a.Addr.String(), Params: &admintypes.Params{SubmitProposalFee: sdk.NewUint(uint64(1000 + p.R.Intn(100000)))}}
		p.Tx("admin.setparams", a, &m)
	case 5:
		m := margintypes.MsgWhitelist{Signer: a.Addr.String(), WhitelistedAddress: p.user().Addr.String()}
		p.Tx("margin.whitelist", a, &m)
	case 0:
		d := fmt.Sprintf("cnew%d", p.Height())
		m := trtypes.MsgRegister{From: a.Addr.String(), Entry: &trtypes.RegistryEntry{Denom: d, BaseDenom: d, Decimals: int64(p.R.Intn(19)),
			Permissions: []trtypes.Permission{trtypes.Permission_CLP}}}
		p.Tx("registry.register", a, &m)
	case 1:
		u := p.user()
		m := admintypes.MsgAddAccount{Signer: a.Addr.String(), Account: &admintypes.AdminAccount{AdminType: admintypes.AdminType_CLPDEX, AdminAddress: u.Addr.String()}}
		p.Tx("admin.add", a, &m)
	case 2:
		u, v := p.user(), p.user()
		m := banktypes.NewMsgSend(u.Addr, v.Addr, sdk.NewCoins(coin("rowan", new(big.Int).Mul(big.NewInt(int64(1+p.R.Intn(10))), pow10(18)))))
		p.Tx("bank.send", u, m)
	default:
		u := p.user()
		m := clptypes.NewMsgDecommissionPool(u.Addr, "clink") // not allowed for a user / pool too deep: refused
		p.Tx("clp.decommission", u, &m)
	}
}

// ---- transactions that FAIL INSIDE a handler, after a variable amount of gas-charged work ------
// (GasUsed of a failed transaction is consensus-relevant: it is compared per transaction.)

// FailingDistribution: passes ValidateBasic (an empty coin list is a valid sdk.Coins) but one record fails
// DistributionRecord.Validate inside CreateDrops, after the records that precede it were read and written.
func (p *Pilot) FailingDistribution() {
	d := p.user()
	n := 6 + p.R.Intn(10)
	bad := p.R.Intn(n)
	var outs []banktypes.Output
	for i := 0; i < n; i++ {
		to := NewAcct(p.W.Seed, fmt.Sprintf("faildrop-%d-%d", p.Height(), i)).Addr
		if p.R.Chance(1, 3) {
			to = p.user().Addr
		}
		cs := sdk.NewCoins(coin("rowan", new(big.Int).Mul(big.NewInt(int64(1+p.R.Intn(50))), pow10(18))))
		if i == bad {
			to = NewAcct(p.W.Seed, fmt.Sprintf("faildrop-empty-%d", p.Height())).Addr
			cs = sdk.Coins{}
		}
		outs = append(outs, banktypes.NewOutput(to, cs))
	}
	m := disptypes.NewMsgCreateDistribution(d.Addr, disptypes.DistributionType_DISTRIBUTION_TYPE_AIRDROP, outs, p.user().Addr.String())
	p.Tx("disp.create.emptycoins", d, &m)
}

// FailingShape: one failing transaction of a random kind; every module the history exercises has several.
func (p *Pilot) FailingShape() {
	ps := p.pools()
	u := p.user()
	huge := sdk.NewUintFromString("100000000000000000000000000000000000000")
	switch p.R.Intn(16) {
	case 0, 1, 2:
		p.FailingDistribution()
	case 3: // dispensation: run by somebody who is not the authorised runner (iterates the records first)
		if len(p.dists) > 0 {
			d := p.dists[p.R.Intn(len(p.dists))]
			m := disptypes.NewMsgRunDistribution(u.Addr.String(), d.name, d.typ, 10)
			p.Tx("disp.run.wrongrunner", u, &m)
		}
	case 4: // dispensation: distribution whose total exceeds the distributor's balance (fails after the distribution is stored)
		outs := []banktypes.Output{banktypes.NewOutput(p.user().Addr, sdk.NewCoins(coin("rowan", new(big.Int).Mul(big.NewInt(1), pow10(30))))),
			banktypes.NewOutput(p.user().Addr, sdk.NewCoins(coin("ceth", pow10(18))))}
		m := disptypes.NewMsgCreateDistribution(u.Addr, disptypes.DistributionType_DISTRIBUTION_TYPE_AIRDROP, outs, u.Addr.String())
		p.Tx("disp.create.nofunds", u, &m)
	case 5: // clp: swap whose output is below the requested minimum (fails after pool reads and the calculation)
		if len(ps) > 0 {
			a := ps[p.R.Intn(len(ps))]
			m := clptypes.NewMsgSwap(u.Addr, clptypes.GetSettlementAsset(), *a.ExternalAsset, frac(a.NativeAssetBalance, 1, 1000), huge)
			p.Tx("clp.swap.belowmin", u, &m)
		}
	case 6: // clp: remove more units than held
		if len(ps) > 0 {
			a := ps[p.R.Intn(len(ps))]
			m := clptypes.NewMsgRemoveLiquidityUnits(u.Addr, *a.ExternalAsset, huge)
			p.Tx("clp.removeunits.toomany", u, &m)
		}
	case 7: // clp: add liquidity the sender cannot pay (fails at the bank after the unit calculation)
		if len(ps) > 0 {
			a := ps[p.R.Intn(len(ps))]
			m := clptypes.NewMsgAddLiquidity(u.Addr, *a.ExternalAsset, huge, huge)
			p.Tx("clp.add.nofunds", u, &m)
		}
	case 8: // clp: pool for a token without a registry entry / a pool that exists
		m := clptypes.NewMsgCreatePool(u.Addr, clptypes.NewAsset([]string{"cnotregistered", "ceth"}[p.R.Intn(2)]), uintOf(new(big.Int).Mul(big.NewInt(2000), pow10(18))), uintOf(pow10(18)))
		p.Tx("clp.create.refused", u, &m)
	case 9: // clp: unlock more units than held; bucket contribution the sender cannot pay
		if len(ps) > 0 && p.R.Bool() {
			a := ps[p.R.Intn(len(ps))]
			m := clptypes.MsgUnlockLiquidityRequest{Signer: u.Addr.String(), ExternalAsset: a.ExternalAsset, Units: huge}
			p.Tx("clp.unlock.toomany", u, &m)
		} else {
			m := clptypes.NewMsgAddLiquidityToRewardsBucketRequest(u.Addr.String(), sdk.NewCoins(coin("ceth", pow10(17)), coin("rowan", new(big.Int).Mul(big.NewInt(1), pow10(30)))))
			p.Tx("clp.bucket.nofunds", u, m)
		}
	case 10: // bridge: a second claim by a validator that already claimed / a claim on a finalised prophecy
		if p.nonce > 0 {
			v := p.R.Intn(len(p.W.Vals))
			p.claim(v, 1+int64(p.R.Intn(int(p.nonce))), p.user().Addr, int64(1+p.R.Intn(5000)), "bridge.claim.again")
		}
	case 11: // bridge: burn / lock more than held
		if p.R.Bool() {
			m := ethbridgetypes.NewMsgBurn(1, u.Addr, ethSender, sdk.NewIntFromBigInt(pow10(30)), "ceth", sdk.NewIntFromBigInt(new(big.Int).Mul(big.NewInt(70), pow10(15))))
			p.Tx("bridge.burn.nofunds", u, &m)
		} else {
			m := ethbridgetypes.NewMsgLock(1, u.Addr, ethSender, sdk.NewIntFromBigInt(pow10(30)), "rowan", sdk.NewIntFromBigInt(new(big.Int).Mul(big.NewInt(70), pow10(15))))
			p.Tx("bridge.lock.nofunds", u, &m)
			low := ethbridgetypes.NewMsgLock(1, u.Addr, ethSender, sdk.NewIntFromBigInt(pow10(18)), "rowan", sdk.NewInt(1)) // fails ValidateBasic (ceth fee too low)
			p.Tx("bridge.lock.lowfee", u, &low)
		}
	case 12: // margin: borrow more than the pool holds / position too small for interest payments
		pool := []string{"ceth", "cusdc"}[p.R.Intn(2)]
		amt := huge
		if p.R.Bool() {
			amt = sdk.NewUint(uint64(1 + p.R.Intn(5)))
		}
		m := margintypes.MsgOpen{Signer: u.Addr.String(), CollateralAsset: "rowan", CollateralAmount: amt, BorrowAsset: pool,
			Position: margintypes.Position_LONG, Leverage: sdk.MustNewDecFromStr("2.0")}
		p.Tx("margin.open.refused", u, &m)
	case 13: // margin: close / force-close a position that does not exist; open on a pool without margin
		switch p.R.Intn(3) {
		case 0:
			m := margintypes.MsgClose{Signer: u.Addr.String(), Id: uint64(1000 + p.R.Intn(1000))}
			p.Tx("margin.close.missing", u, &m)
		case 1:
			m := margintypes.MsgForceClose{Signer: p.W.Admin.Addr.String(), MtpAddress: u.Addr.String(), Id: uint64(1000 + p.R.Intn(1000))}
			p.Tx("margin.forceclose.missing", p.W.Admin, &m)
		default:
			m := margintypes.MsgOpen{Signer: u.Addr.String(), CollateralAsset: "rowan", CollateralAmount: uintOf(new(big.Int).Mul(big.NewInt(10), pow10(18))), BorrowAsset: "cdai",
				Position: margintypes.Position_LONG, Leverage: sdk.MustNewDecFromStr("2.0")}
			p.Tx("margin.open.disabledpool", u, &m)
		}
	case 14: // privileged messages from a user (fail at the role check, after the role table was read)
		switch p.R.Intn(3) {
		case 0:
			m := trtypes.MsgRegister{From: u.Addr.String(), Entry: &trtypes.RegistryEntry{Denom: "cuser", BaseDenom: "cuser", Decimals: 6}}
			p.Tx("registry.register.notadmin", u, &m)
		case 1:
			m := admintypes.MsgAddAccount{Signer: u.Addr.String(), Account: &admintypes.AdminAccount{AdminType: admintypes.AdminType_ADMIN, AdminAddress: u.Addr.String()}}
			p.Tx("admin.add.notadmin", u, &m)
		default:
			m := ethbridgetypes.NewMsgUpdateWhiteListValidator(u.Addr, sdk.ValAddress(p.W.Vals[0].Addr), "remove")
			p.Tx("bridge.whitelist.notadmin", u, &m)
		}
	default: // a transaction of two messages whose second fails: the first one's work is charged and rolled back
		v := p.user()
		ok := banktypes.NewMsgSend(u.Addr, v.Addr, sdk.NewCoins(coin("rowan", pow10(18))))
		if len(ps) > 0 {
			a := ps[p.R.Intn(len(ps))]
			bad := clptypes.NewMsgRemoveLiquidityUnits(u.Addr, *a.ExternalAsset, huge)
			add := clptypes.NewMsgAddLiquidity(u.Addr, *a.ExternalAsset, frac(a.NativeAssetBalance, 1, 1000), frac(a.ExternalAssetBalance, 1, 1000))
			if p.R.Bool() {
				p.Tx("multi.send+removeunits.toomany", u, ok, &bad)
			} else {
				p.Tx("multi.add+removeunits.toomany", u, &add, &bad)
			}
		}
	}
}
