package main

// Genesis construction for the `replay` group: validators (bonded, equal or chosen powers), funded
// user accounts, one administrator holding every admin role, token registry, oracle whitelist,
// short epochs, margin enabled on chosen pools.

import (
	"encoding/json"
	"math/big"
	"time"

	sifapp "github.com/Sifchain/sifnode/app"
	admintypes "github.com/Sifchain/sifnode/x/admin/types"
	clptypes "github.com/Sifchain/sifnode/x/clp/types"
	epochstypes "github.com/Sifchain/sifnode/x/epochs/types"
	ethbridgetypes "github.com/Sifchain/sifnode/x/ethbridge/types"
	margintypes "github.com/Sifchain/sifnode/x/margin/types"
	oracletypes "github.com/Sifchain/sifnode/x/oracle/types"
	trtypes "github.com/Sifchain/sifnode/x/tokenregistry/types"
	codectypes "github.com/cosmos/cosmos-sdk/codec/types"
	sdk "github.com/cosmos/cosmos-sdk/types"
	authtypes "github.com/cosmos/cosmos-sdk/x/auth/types"
	banktypes "github.com/cosmos/cosmos-sdk/x/bank/types"
	stakingtypes "github.com/cosmos/cosmos-sdk/x/staking/types"
)

type Token struct {
	Denom    string
	Decimals int64
}

var tokens = []Token{{"ceth", 18}, {"cusdc", 6}, {"cdai", 18}, {"cwbtc", 8}, {"clink", 18}}

type World struct {
	Seed     uint64
	Admin    *Acct
	Users    []*Acct
	Vals     []*Acct // validator operator accounts
	ValPower []int64
	ConsAddr [][]byte
	Blocked  *Acct   // a user the node refuses to pay (blocked recipient)
	Ghosts   []*Acct // addresses that appear in genesis records but have NO auth account
}

func pow10(k int64) *big.Int { return new(big.Int).Exp(big.NewInt(10), big.NewInt(k), nil) }

func coin(denom string, amt *big.Int) sdk.Coin { return sdk.NewCoin(denom, sdk.NewIntFromBigInt(amt)) }

type GenesisOpts struct {
	NUsers       int
	ValPowers    []int64
	MarginPools  []string
	EpochSeconds int64 // duration of the "hour" epoch (identifier kept, duration shortened)
	Mutate       func(w *World, gs sifapp.GenesisState)
	// extra 18-decimal denoms: registered with all permissions; only the first two users hold them
	ExtraDenoms []string
}

// BuildGenesis returns the world and the app-state JSON.
func BuildGenesis(seed uint64, o GenesisOpts) (*World, json.RawMessage, []string) {
	configure()
	enc := sifapp.MakeTestEncodingConfig()
	cdc := enc.Marshaler
	gs := sifapp.NewDefaultGenesisState(cdc)
	w := &World{Seed: seed, Admin: NewAcct(seed, "admin")}
	for i := 0; i < o.NUsers; i++ {
		w.Users = append(w.Users, NewAcct(seed, "user"+itoa(i)))
	}
	w.Blocked = w.Users[len(w.Users)-1]
	w.ValPower = o.ValPowers

	var accs []authtypes.GenesisAccount
	var bals []banktypes.Balance
	supply := sdk.NewCoins()
	addAcc := func(a *Acct, coins sdk.Coins) {
		accs = append(accs, authtypes.NewBaseAccount(a.Addr, nil, 0, 0)) // numbers are assigned by auth InitGenesis in list order
		if !coins.IsZero() {
			bals = append(bals, banktypes.Balance{Address: a.Addr.String(), Coins: coins})
			supply = supply.Add(coins...)
		}
	}
	rich := func() sdk.Coins {
		cs := sdk.NewCoins(coin("rowan", new(big.Int).Mul(big.NewInt(1000000), pow10(18))), coin("stake", new(big.Int).Mul(big.NewInt(1000), pow10(18))))
		for _, t := range tokens {
			cs = cs.Add(coin(t.Denom, new(big.Int).Mul(big.NewInt(1000000), pow10(t.Decimals))))
		}
		return cs
	}
	addAcc(w.Admin, rich())
	for i, u := range w.Users {
		if i < 2 && len(o.ExtraDenoms) > 0 {
			cs := rich()
			for _, d := range o.ExtraDenoms {
				cs = cs.Add(coin(d, new(big.Int).Mul(big.NewInt(1000000), pow10(18))))
			}
			addAcc(u, cs)
			continue
		}
		addAcc(u, rich())
	}

	// validators
	var vals []stakingtypes.Validator
	var dels []stakingtypes.Delegation
	bonded := sdk.ZeroInt()
	for i, p := range o.ValPowers {
		op := NewAcct(seed, "val"+itoa(i))
		w.Vals = append(w.Vals, op)
		addAcc(op, sdk.NewCoins(coin("rowan", new(big.Int).Mul(big.NewInt(1000), pow10(18)))))
		ck := consKey(seed, i)
		w.ConsAddr = append(w.ConsAddr, ck.PubKey().Address())
		pkAny, err := codectypes.NewAnyWithValue(ck.PubKey())
		if err != nil {
			panic(err)
		}
		tok := sdk.NewIntFromBigInt(new(big.Int).Mul(big.NewInt(p), pow10(18)))
		vals = append(vals, stakingtypes.Validator{
			OperatorAddress: sdk.ValAddress(op.Addr).String(), ConsensusPubkey: pkAny, Jailed: false, Status: stakingtypes.Bonded,
			Tokens: tok, DelegatorShares: tok.ToDec(), Description: stakingtypes.Description{Moniker: op.Name},
			UnbondingHeight: 0, UnbondingTime: time.Unix(0, 0).UTC(),
			Commission:        stakingtypes.NewCommission(sdk.NewDecWithPrec(5, 2), sdk.NewDecWithPrec(20, 2), sdk.NewDecWithPrec(1, 2)),
			MinSelfDelegation: sdk.OneInt(),
		})
		dels = append(dels, stakingtypes.NewDelegation(op.Addr, sdk.ValAddress(op.Addr), tok.ToDec()))
		bonded = bonded.Add(tok)
	}
	if bonded.IsPositive() {
		bc := sdk.NewCoins(sdk.NewCoin("stake", bonded))
		bals = append(bals, banktypes.Balance{Address: authtypes.NewModuleAddress(stakingtypes.BondedPoolName).String(), Coins: bc})
		supply = supply.Add(bc...)
	}
	gs[authtypes.ModuleName] = cdc.MustMarshalJSON(authtypes.NewGenesisState(authtypes.DefaultParams(), accs))
	gs[banktypes.ModuleName] = cdc.MustMarshalJSON(banktypes.NewGenesisState(banktypes.DefaultGenesisState().Params, bals, supply, []banktypes.Metadata{}))
	gs[stakingtypes.ModuleName] = cdc.MustMarshalJSON(stakingtypes.NewGenesisState(stakingtypes.DefaultParams(), vals, dels))

	// admin: one administrator with every role
	var admins []*admintypes.AdminAccount
	for _, t := range []admintypes.AdminType{admintypes.AdminType_CLPDEX, admintypes.AdminType_PMTPREWARDS, admintypes.AdminType_TOKENREGISTRY,
		admintypes.AdminType_ETHBRIDGE, admintypes.AdminType_ADMIN, admintypes.AdminType_MARGIN} {
		admins = append(admins, &admintypes.AdminAccount{AdminType: t, AdminAddress: w.Admin.Addr.String()})
	}
	gs[admintypes.ModuleName] = cdc.MustMarshalJSON(&admintypes.GenesisState{AdminAccounts: admins})

	// token registry
	perms := []trtypes.Permission{trtypes.Permission_CLP, trtypes.Permission_IBCEXPORT, trtypes.Permission_IBCIMPORT}
	reg := &trtypes.Registry{Entries: []*trtypes.RegistryEntry{{Denom: "rowan", BaseDenom: "rowan", Decimals: 18, Permissions: perms}}}
	for _, t := range tokens {
		reg.Entries = append(reg.Entries, &trtypes.RegistryEntry{Denom: t.Denom, BaseDenom: t.Denom, Decimals: t.Decimals, Permissions: perms})
	}
	for _, d := range o.ExtraDenoms {
		reg.Entries = append(reg.Entries, &trtypes.RegistryEntry{Denom: d, BaseDenom: d, Decimals: 18, Permissions: perms})
	}
	gs[trtypes.ModuleName] = cdc.MustMarshalJSON(&trtypes.GenesisState{Registry: reg})

	// oracle: all validators whitelisted, administrator = admin
	og := oracletypes.DefaultGenesisState()
	for _, v := range w.Vals {
		og.AddressWhitelist = append(og.AddressWhitelist, sdk.ValAddress(v.Addr).String())
	}
	og.AdminAddress = w.Admin.Addr.String()
	gs[oracletypes.ModuleName] = cdc.MustMarshalJSON(og)

	// ethbridge
	eg := &ethbridgetypes.GenesisState{CethReceiveAccount: w.Admin.Addr.String(), PeggyTokens: []string{"ceth"}, Blacklist: []string{}, Pause: &ethbridgetypes.Pause{IsPaused: false}}
	gs[ethbridgetypes.ModuleName] = cdc.MustMarshalJSON(eg)

	// clp: default params, admin whitelisted
	cg := clptypes.DefaultGenesisState()
	cg.AddressWhitelist = []string{w.Admin.Addr.String()}
	gs[clptypes.ModuleName] = cdc.MustMarshalJSON(cg)

	// margin
	mg := margintypes.DefaultGenesis()
	mg.Params.Pools = o.MarginPools
	mg.Params.EpochLength = 2
	gs[margintypes.ModuleName] = cdc.MustMarshalJSON(mg)

	// epochs: keep the identifiers, shorten "hour"
	eps := epochstypes.DefaultGenesisState()
	for i := range eps.Epochs {
		if eps.Epochs[i].Identifier == epochstypes.HourEpochID && o.EpochSeconds > 0 {
			eps.Epochs[i].Duration = time.Duration(o.EpochSeconds) * time.Second
		}
	}
	gs[epochstypes.ModuleName] = cdc.MustMarshalJSON(eps)

	if o.Mutate != nil {
		o.Mutate(w, gs)
	}
	raw, err := json.MarshalIndent(gs, "", " ")
	if err != nil {
		panic(err)
	}
	return w, raw, []string{w.Blocked.Addr.String()}
}

func itoa(i int) string {
	return big.NewInt(int64(i)).String()
}
