package main

// Randomly generated well-formed genesis documents for the eight Sifchain modules (family `genesis`,
// part b).  A reflection-driven generator populates EVERY field of every GenesisState (so that a field
// added to a message later is populated too); a per-module pass then makes the document well-formed:
// unique store keys, valid addresses / symbols / enum values, what ValidateGenesis and InitGenesis
// require.  "Well-formed" is exactly: ValidateGenesis accepts it and no two items of a collection
// share a store key.

import (
	"encoding/json"
	"fmt"
	"reflect"
	"strings"
	"time"

	sifapp "github.com/Sifchain/sifnode/app"
	admintypes "github.com/Sifchain/sifnode/x/admin/types"
	"github.com/Sifchain/sifnode/x/clp"
	clptypes "github.com/Sifchain/sifnode/x/clp/types"
	"github.com/Sifchain/sifnode/x/dispensation"
	disptypes "github.com/Sifchain/sifnode/x/dispensation/types"
	epochstypes "github.com/Sifchain/sifnode/x/epochs/types"
	ethbridgetypes "github.com/Sifchain/sifnode/x/ethbridge/types"
	margintypes "github.com/Sifchain/sifnode/x/margin/types"
	oracletypes "github.com/Sifchain/sifnode/x/oracle/types"
	trtypes "github.com/Sifchain/sifnode/x/tokenregistry/types"
	sdk "github.com/cosmos/cosmos-sdk/types"
	gethCommon "github.com/ethereum/go-ethereum/common"
	gogotypes "github.com/gogo/protobuf/types"
)

type docGen struct {
	r     *Rng
	addrs []string
	vals  []string
	syms  []string
}

var (
	tUint      = reflect.TypeOf(sdk.Uint{})
	tInt       = reflect.TypeOf(sdk.Int{})
	tDec       = reflect.TypeOf(sdk.Dec{})
	tCoin      = reflect.TypeOf(sdk.Coin{})
	tCoins     = reflect.TypeOf(sdk.Coins{})
	tTime      = reflect.TypeOf(time.Time{})
	tDuration  = reflect.TypeOf(time.Duration(0))
	tTimestamp = reflect.TypeOf(gogotypes.Timestamp{})
)

func newDocGen(r *Rng, seed uint64) *docGen {
	g := &docGen{r: r}
	for i := 0; i < 7; i++ {
		a := NewAcct(seed, fmt.Sprintf("doc%d", i))
		g.addrs = append(g.addrs, a.Addr.String())
		g.vals = append(g.vals, sdk.ValAddress(a.Addr).String())
	}
	g.syms = []string{"ceth", "cusdc", "cdai", "cwbtc", "clink", "ibc/27394FB092D2ECCD56123C74F36E4C1F926001CEADA9CA97EA622B25F41E5EB2", "xfoo", "c-dash-ed"}
	return g
}

func (g *docGen) pick(xs []string) string { return xs[g.r.Intn(len(xs))] }

func (g *docGen) str(name string) string {
	n := strings.ToLower(name)
	switch {
	case strings.Contains(n, "address") || strings.Contains(n, "signer") || strings.Contains(n, "runner") || strings.Contains(n, "account") || strings.Contains(n, "recipient"):
		return g.pick(g.addrs)
	case strings.Contains(n, "asset") || strings.Contains(n, "symbol") || strings.Contains(n, "denom"):
		return g.pick(g.syms)
	case strings.Contains(n, "identifier"):
		return g.pick([]string{"hour", "day", "week", "minute"})
	case strings.Contains(n, "name"):
		return fmt.Sprintf("%d_%s", 1+g.r.Intn(50), g.pick(g.addrs)) // the chain's own naming scheme: <height>_<distributor>
	case strings.Contains(n, "rate") || strings.Contains(n, "threshold"):
		return sdk.NewDecWithPrec(int64(g.r.Intn(1000)), 3).String()
	default:
		return fmt.Sprintf("s%d", g.r.Intn(1000))
	}
}

var enumMax = map[string]int{
	"types.AdminType": 5, "types.Permission": 5, "types.DistributionType": 3, "types.DistributionStatus": 3,
	"types.Position": 2, "types.StatusText": 3,
}

func (g *docGen) fill(v reflect.Value, name string, depth int) {
	t := v.Type()
	switch t {
	// numbers are often a MEANINGFUL zero (a waived fee, an empty balance): an import must not read it as "unset"
	case tUint:
		if g.r.Chance(1, 6) {
			v.Set(reflect.ValueOf(sdk.ZeroUint()))
			return
		}
		v.Set(reflect.ValueOf(sdk.NewUintFromBigInt(g.r.Amount(110))))
		return
	case tInt:
		if g.r.Chance(1, 6) {
			v.Set(reflect.ValueOf(sdk.ZeroInt()))
			return
		}
		v.Set(reflect.ValueOf(sdk.NewIntFromBigInt(g.r.Amount(100))))
		return
	case tDec:
		if g.r.Chance(1, 4) {
			v.Set(reflect.ValueOf(sdk.ZeroDec()))
			return
		}
		v.Set(reflect.ValueOf(sdk.NewDecFromBigIntWithPrec(g.r.Amount(90), 18)))
		return
	case tCoin:
		v.Set(reflect.ValueOf(sdk.NewCoin(g.pick(g.syms[:5]), sdk.NewIntFromBigInt(g.r.Amount(90)).AddRaw(1))))
		return
	case tCoins:
		cs := sdk.NewCoins()
		for i := g.r.Intn(3); i > 0; i-- {
			cs = cs.Add(sdk.NewCoin(g.pick(g.syms[:5]), sdk.NewIntFromBigInt(g.r.Amount(90)).AddRaw(1)))
		}
		v.Set(reflect.ValueOf(cs))
		return
	case tTime:
		v.Set(reflect.ValueOf(time.Unix(1600000000+int64(g.r.Intn(100000000)), 0).UTC()))
		return
	case tDuration:
		v.Set(reflect.ValueOf(time.Duration(1+g.r.Intn(100000)) * time.Second))
		return
	case tTimestamp:
		v.Set(reflect.ValueOf(gogotypes.Timestamp{Seconds: 1600000000 + int64(g.r.Intn(100000000)), Nanos: int32(g.r.Intn(1000000000))}))
		return
	}
	switch t.Kind() {
	case reflect.Ptr:
		v.Set(reflect.New(t.Elem()))
		g.fill(v.Elem(), name, depth)
	case reflect.Struct:
		for i := 0; i < t.NumField(); i++ {
			f := t.Field(i)
			if f.PkgPath != "" || strings.HasPrefix(f.Name, "XXX_") {
				continue
			}
			g.fill(v.Field(i), f.Name, depth+1)
		}
	case reflect.Slice:
		if t.Elem().Kind() == reflect.Uint8 {
			v.SetBytes([]byte("{}"))
			return
		}
		n := g.r.Intn(4)
		if depth <= 1 {
			n = 1 + g.r.Intn(5)
		}
		s := reflect.MakeSlice(t, n, n)
		for i := 0; i < n; i++ {
			g.fill(s.Index(i), name, depth+1)
		}
		v.Set(s)
	case reflect.String:
		v.SetString(g.str(name))
	case reflect.Bool:
		v.SetBool(g.r.Bool())
	case reflect.Int64, reflect.Int:
		v.SetInt(int64(g.r.Intn(100000)))
	case reflect.Uint64:
		v.SetUint(uint64(1 + g.r.Intn(100000)))
	case reflect.Int32:
		if m, ok := enumMax[t.String()]; ok {
			v.SetInt(int64(1 + g.r.Intn(m)))
		} else {
			v.SetInt(int64(g.r.Intn(5)))
		}
	case reflect.Uint32:
		v.SetUint(uint64(g.r.Intn(100)))
	}
}

func uniqBy[T any](xs []T, key func(T) string) []T {
	seen := map[string]bool{}
	var out []T
	for _, x := range xs {
		k := key(x)
		if !seen[k] {
			seen[k] = true
			out = append(out, x)
		}
	}
	return out
}

// genSections builds the eight module sections.
func (g *docGen) genSections() map[string]json.RawMessage {
	cdc := sifapp.MakeTestEncodingConfig().Marshaler
	out := map[string]json.RawMessage{}

	var ag admintypes.GenesisState
	g.fill(reflect.ValueOf(&ag).Elem(), "", 0)
	for _, a := range ag.AdminAccounts {
		a.AdminType = admintypes.AdminType(g.r.Intn(6))
	}
	ag.AdminAccounts = uniqBy(ag.AdminAccounts, func(a *admintypes.AdminAccount) string { return a.AdminType.String() + "_" + a.AdminAddress })
	out["admin"] = cdc.MustMarshalJSON(&ag)

	var cg clptypes.GenesisState
	g.fill(reflect.ValueOf(&cg).Elem(), "", 0)
	cg.PoolList = uniqBy(cg.PoolList, func(p *clptypes.Pool) string { return p.ExternalAsset.Symbol })
	cg.LiquidityProviders = uniqBy(cg.LiquidityProviders, func(l *clptypes.LiquidityProvider) string { return l.Asset.Symbol + "_" + l.LiquidityProviderAddress })
	cg.RewardsBucketList = uniqBy(cg.RewardsBucketList, func(b clptypes.RewardsBucket) string { return b.Denom })
	cg.AddressWhitelist = uniqBy(cg.AddressWhitelist, func(s string) string { return s })
	cg.Params.MinCreatePoolThreshold = uint64(1 + g.r.Intn(1000))
	cg.RewardParams.RewardsEpochIdentifier = "hour"
	cg.PmtpParams.PmtpPeriodGovernanceRate = sdk.NewDecWithPrec(int64(g.r.Intn(100)), 2)
	out["clp"] = cdc.MustMarshalJSON(&cg)

	var dg disptypes.GenesisState
	g.fill(reflect.ValueOf(&dg).Elem(), "", 0)
	if dg.DistributionRecords != nil {
		for _, r := range dg.DistributionRecords.DistributionRecords {
			if r.Coins.IsZero() {
				r.Coins = sdk.NewCoins(sdk.NewCoin("rowan", sdk.NewInt(int64(1+g.r.Intn(1000)))))
			}
		}
		// a recipient may hold records of the same name and type under different statuses (a completed payment
		// and a new pending one): make sure the documents contain that
		if rs := dg.DistributionRecords.DistributionRecords; len(rs) > 0 {
			c := *rs[g.r.Intn(len(rs))]
			c.DistributionStatus = disptypes.DistributionStatus(1 + (int(c.DistributionStatus) % 3))
			c.Coins = sdk.NewCoins(sdk.NewCoin("rowan", sdk.NewInt(int64(1+g.r.Intn(1000)))))
			dg.DistributionRecords.DistributionRecords = append(rs, &c)
		}
		dg.DistributionRecords.DistributionRecords = uniqBy(dg.DistributionRecords.DistributionRecords, func(r *disptypes.DistributionRecord) string {
			return fmt.Sprintf("%d|%s|%d|%s", r.DistributionStatus, r.DistributionName, r.DistributionType, r.RecipientAddress)
		})
	}
	if dg.Distributions != nil {
		dg.Distributions.Distributions = uniqBy(dg.Distributions.Distributions, func(d *disptypes.Distribution) string {
			return fmt.Sprintf("%s|%d|%s", d.DistributionName, d.DistributionType, d.Runner)
		})
	}
	if dg.Claims != nil {
		dg.Claims.UserClaims = uniqBy(dg.Claims.UserClaims, func(c *disptypes.UserClaim) string { return fmt.Sprintf("%s|%d", c.UserAddress, c.UserClaimType) })
	}
	out["dispensation"] = cdc.MustMarshalJSON(&dg)

	var eg epochstypes.GenesisState
	g.fill(reflect.ValueOf(&eg).Elem(), "", 0)
	eg.Epochs = uniqBy(eg.Epochs, func(e epochstypes.EpochInfo) string { return e.Identifier })
	out["epochs"] = cdc.MustMarshalJSON(&eg)

	var bg ethbridgetypes.GenesisState
	g.fill(reflect.ValueOf(&bg).Elem(), "", 0)
	bg.PeggyTokens = uniqBy(bg.PeggyTokens, func(s string) string { return s })
	for i := range bg.Blacklist {
		bg.Blacklist[i] = gethCommon.BigToAddress(g.r.BigBits(150)).Hex() // canonical (EIP-55) spelling
	}
	// the list may hold strings that are not addresses (MsgSetBlacklist accepts any string), stored as they are
	for _, odd := range []string{"", "vitalik.eth", g.pick(g.addrs), "0x" + strings.Repeat("a", 39), "0x" + strings.Repeat("b", 41)} {
		if g.r.Chance(1, 2) {
			bg.Blacklist = append(bg.Blacklist, odd)
		}
	}
	bg.Blacklist = uniqBy(bg.Blacklist, func(s string) string { return s })
	out["ethbridge"] = cdc.MustMarshalJSON(&bg)

	var mg margintypes.GenesisState
	g.fill(reflect.ValueOf(&mg).Elem(), "", 0)
	for _, m := range mg.MtpList {
		m.Position = margintypes.Position_LONG
	}
	if mg.Params.SqModifier.IsNil() || !mg.Params.SqModifier.IsPositive() { // margin SetParams refuses it: not a well-formed document
		mg.Params.SqModifier = sdk.NewDec(int64(1 + g.r.Intn(1000000)))
	}
	mg.MtpList = uniqBy(mg.MtpList, func(m *margintypes.MTP) string { return fmt.Sprintf("%s|%d", m.Address, m.Id) })
	out["margin"] = cdc.MustMarshalJSON(&mg)

	var og oracletypes.GenesisState
	g.fill(reflect.ValueOf(&og).Elem(), "", 0)
	for i := range og.AddressWhitelist {
		og.AddressWhitelist[i] = g.pick(g.vals)
	}
	og.AddressWhitelist = uniqBy(og.AddressWhitelist, func(s string) string { return s })
	for i, p := range og.Prophecies {
		p.Id = fmt.Sprintf("1%s%d", "0x30753E4A8aad7F8597332E813735Def5dD395028", i*7+g.r.Intn(7))
		cv := map[string][]sdk.ValAddress{}
		vc := map[string]string{}
		for k := g.r.Intn(4); k > 0; k-- {
			val := g.pick(g.vals)
			va, _ := sdk.ValAddressFromBech32(val)
			content := fmt.Sprintf("{\"amount\":\"%d\"}", g.r.Intn(3))
			if _, dup := vc[val]; !dup {
				cv[content] = append(cv[content], va)
				vc[val] = content
			}
		}
		p.ClaimValidators, _ = json.Marshal(cv)
		p.ValidatorClaims, _ = json.Marshal(vc)
	}
	out["oracle"] = cdc.MustMarshalJSON(&og)

	var tg trtypes.GenesisState
	g.fill(reflect.ValueOf(&tg).Elem(), "", 0)
	// the registry is one list, stored as given: a denom may be listed more than once (MsgSetRegistry allows it),
	// with copies that differ; readers use the first
	if es := tg.Registry.Entries; len(es) > 0 {
		c := *es[g.r.Intn(len(es))]
		c.Decimals = int64(g.r.Intn(19))
		c.Permissions = nil
		c.DisplayName = "later copy"
		tg.Registry.Entries = append(es, &c)
	}
	out["tokenregistry"] = cdc.MustMarshalJSON(&tg)
	return out
}

func validateSections(sec map[string]json.RawMessage) error {
	cdc := sifapp.MakeTestEncodingConfig().Marshaler
	var cg clptypes.GenesisState
	if err := cdc.UnmarshalJSON(sec["clp"], &cg); err != nil {
		return err
	}
	if err := clp.ValidateGenesis(cg); err != nil {
		return err
	}
	var dg disptypes.GenesisState
	if err := cdc.UnmarshalJSON(sec["dispensation"], &dg); err != nil {
		return err
	}
	if err := dispensation.ValidateGenesis(dg); err != nil {
		return err
	}
	var eg epochstypes.GenesisState
	if err := cdc.UnmarshalJSON(sec["epochs"], &eg); err != nil {
		return err
	}
	return eg.Validate()
}

func roundTripDocument(out *Out, rng *Rng, idx int, obs map[string]int) {
	cdc := sifapp.MakeTestEncodingConfig().Marshaler
	seed := rng.U64() % 1000000
	g := newDocGen(rng, seed)
	var sec map[string]json.RawMessage
	ok := false
	for try := 0; try < 20 && !ok; try++ {
		sec = g.genSections()
		if err := validateSections(sec); err != nil {
			obs["doc-regenerated(not well-formed):"+sanitize(err.Error())]++
			continue
		}
		ok = true
	}
	if !ok {
		out.Emit("note no well-formed document generated", "ok", "doc-skip", false)
		return
	}
	// base state for the SDK modules: a small valid chain
	_, base, bl := BuildGenesis(seed, GenesisOpts{NUsers: 2, ValPowers: []int64{10}, EpochSeconds: 3600})
	var state map[string]json.RawMessage
	if err := json.Unmarshal(base, &state); err != nil {
		panic(err)
	}
	for m, s := range sec {
		state[m] = s
	}
	doc0, _ := json.Marshal(state)
	h0 := int64(1 + rng.Intn(1000))
	if rng.Chance(1, 8) {
		h0 = 1 // a chain that starts at height 1: InitChain runs with a header of height 0
	}
	c, perr := importApp(fmt.Sprintf("doc-%d", idx), doc0, h0, 1700000000, bl)
	if perr != "" {
		// a document that ValidateGenesis accepts but InitGenesis cannot load: recorded, not judged here (C10's concern)
		obs["doc-init-panicked:"+sanitize(perr)]++
		for m, s := range sec { // which module's section cannot be loaded?
			var st map[string]json.RawMessage
			json.Unmarshal(base, &st)
			st[m] = s
			one, _ := json.Marshal(st)
			if _, e := importApp("probe", one, h0, 1700000000, bl); e != "" {
				obs["doc-init-panicked-in:"+m]++
			}
		}
		out.Emit("note document rejected by InitGenesis", "ok", "doc-initpanic", false)
		return
	}
	sec1, h1, state1, err := exportSections(c.App)
	if err != nil {
		out.Emit(fmt.Sprintf("chk docEq/import.export-failed tag=import.export-failed | ok %s", sanitize(err.Error())), "true", "export-error", false)
		return
	}
	emitSections(out, cdc, "import", sec, sec1, initChainHeight(h0), true)
	d, perr := importApp(fmt.Sprintf("doc-%d-b", idx), state1, h1, 1700000000, bl)
	if perr != "" {
		out.Emit(fmt.Sprintf("chk docEq/reexport.import-panicked tag=reexport.import-panicked | ok %s", sanitize(perr)), "true", "import-panic", false)
		return
	}
	sec2, _, _, err := exportSections(d.App)
	if err != nil {
		out.Emit(fmt.Sprintf("chk docEq/reexport.export-failed tag=reexport.export-failed | ok %s", sanitize(err.Error())), "true", "export-error", false)
		return
	}
	emitSections(out, cdc, "reexport", sec1, sec2, initChainHeight(h1), false)
	obs["documents"]++
}
