package main

// L2 machinery of the `replay` group (C09, C14): the REAL SifchainApp (NewSifAppWithBlacklist on a
// fresh MemDB) driven through InitChain / BeginBlock / DeliverTx / EndBlock / Commit with really
// signed transactions (simapp/helpers.GenSignedMockTx with a seeded source, SIGN_MODE_DIRECT).
//
// A history is a `Spec` (genesis app state + blocks of raw transaction bytes).  It is produced once
// by a pilot execution that looks at the live state to choose sensible messages and account
// sequences, and can then be re-executed any number of times by `Execute` in fresh application
// instances, in this process or in a worker process (family `replay_worker`).

import (
	"crypto/sha256"
	"encoding/binary"
	"encoding/hex"
	"encoding/json"
	"fmt"
	"math"
	"math/rand"
	"os"
	"path/filepath"
	"sort"
	"strings"
	"time"

	sifapp "github.com/Sifchain/sifnode/app"
	"github.com/cosmos/cosmos-sdk/crypto/keys/ed25519"
	"github.com/cosmos/cosmos-sdk/crypto/keys/secp256k1"
	cryptotypes "github.com/cosmos/cosmos-sdk/crypto/types"
	"github.com/cosmos/cosmos-sdk/simapp/helpers"
	sdk "github.com/cosmos/cosmos-sdk/types"
	abci "github.com/tendermint/tendermint/abci/types"
	"github.com/tendermint/tendermint/libs/log"
	tmproto "github.com/tendermint/tendermint/proto/tendermint/types"
	dbm "github.com/tendermint/tm-db"
	syscpu "golang.org/x/sys/cpu"
)

const chainID = "sifverif-1"

// ---- history description -----------------------------------------------------------------

type BlockSpec struct {
	Height   int64    `json:"height"`
	Time     int64    `json:"time"` // unix seconds
	Proposer string   `json:"proposer"`
	Txs      []string `json:"txs"`    // hex of the raw tx bytes
	Labels   []string `json:"labels"` // one per tx: message kinds, for the histogram only
	// one per tx: the transaction fails the STATELESS ValidateBasic of one of its messages (decided by the pilot
	// from the message alone, before execution) — baseapp rejects it before the ante handler runs
	Stateless []bool `json:"stateless,omitempty"`
	// node-local requests a "twin" execution serves after this block is committed: transactions to SIMULATE
	// (gas estimation; never part of a block).  Consensus must not depend on them.
	Sims []string `json:"sims,omitempty"`
}

type Spec struct {
	Name          string          `json:"name"`
	InitialHeight int64           `json:"initial_height"`
	GenesisTime   int64           `json:"genesis_time"`
	AppState      json.RawMessage `json:"app_state"`
	Blacklist     []string        `json:"blacklist"` // bech32 account addresses the node refuses to pay (blocked recipients)
	Blocks        []BlockSpec     `json:"blocks"`
	// block indices (0-based) before which a `restarted` execution restarts, in addition to one third and two
	// thirds of the history: chosen by the pilot right after blocks whose rejected transactions edited and then
	// read a shared object, and right before first readers
	RestartBefore []int `json:"restart_before,omitempty"`
}

// what one execution of a block showed — exactly the consensus-relevant outputs
type BlockObs struct {
	AppHash  string   `json:"app_hash"`  // Commit().Data
	EndBlock string   `json:"end_block"` // validator updates + consensus param updates, canonical
	Txs      []string `json:"txs"`       // code:codespace:data:gasWanted:gasUsed
}

type Exec struct {
	// what this process's CPU-dependent math looks like: digest of math.Exp / math.FMA-sensitive results over fixed
	// arguments, and the FMA / AVX2 flags the Go runtime reports (GODEBUG=cpu.* of the worker already applied)
	CPUProbe string     `json:"cpu_probe,omitempty"`
	InitHash string     `json:"init_hash"` // app hash after InitChain+Commit of genesis (height InitialHeight-1 … none); "" if not committed
	Blocks   []BlockObs `json:"blocks"`
	Panic    string     `json:"panic,omitempty"`
}

// ---- a running chain ---------------------------------------------------------------------

type Chain struct {
	db     dbm.DB
	bl     []sdk.AccAddress
	App    *sifapp.SifchainApp
	Height int64 // height of the block in progress (after Begin) or last committed
	Header tmproto.Header
	open   bool
}

var configured bool

func configure() {
	if !configured {
		sifapp.SetConfig(false)
		configured = true
	}
}

func consensusParams() *abci.ConsensusParams {
	p := *sifapp.DefaultConsensusParams
	b := *p.Block
	b.MaxGas = -1
	p.Block = &b
	return &p
}

// NewChain builds a fresh application and runs InitChain on the given app state.
func NewChain(spec *Spec) *Chain {
	configure()
	var bl []sdk.AccAddress
	for _, s := range spec.Blacklist {
		a, err := sdk.AccAddressFromBech32(s)
		if err != nil {
			panic(err)
		}
		bl = append(bl, a)
	}
	db := dbm.NewMemDB()
	enc := sifapp.MakeTestEncodingConfig()
	app := sifapp.NewSifAppWithBlacklist(log.NewNopLogger(), db, nil, true, map[int64]bool{}, sifapp.DefaultNodeHome, 0, enc, sifapp.EmptyAppOptions{}, bl)
	app.InitChain(abci.RequestInitChain{
		Time:            time.Unix(spec.GenesisTime, 0).UTC(),
		ChainId:         chainID,
		InitialHeight:   spec.InitialHeight,
		Validators:      []abci.ValidatorUpdate{},
		ConsensusParams: consensusParams(),
		AppStateBytes:   spec.AppState,
	})
	h := spec.InitialHeight
	if h == 0 {
		h = 1
	}
	return &Chain{db: db, bl: bl, App: app, Height: h - 1}
}

// Restart replaces the application by a new instance on the same database (what a node restart does):
// everything the old instance kept in memory is gone, the committed state is loaded from the store.
func (c *Chain) Restart() {
	enc := sifapp.MakeTestEncodingConfig()
	c.App = sifapp.NewSifAppWithBlacklist(log.NewNopLogger(), c.db, nil, true, map[int64]bool{}, sifapp.DefaultNodeHome, 0, enc, sifapp.EmptyAppOptions{}, c.bl)
}

// localQueries: read-only gRPC requests a node serves between blocks
var localQueries = []string{"/sifnode.clp.v1.Query/GetPools", "/sifnode.tokenregistry.v1.Query/Entries", "/sifnode.admin.v1.Query/ListAccounts",
	"/sifnode.clp.v1.Query/GetLiquidityProviders", "/sifnode.margin.v1.Query/GetParams", "/sifnode.epochs.v1.Query/EpochInfos"}

// ServeLocal does what a node does between two blocks besides consensus: it answers simulation (gas
// estimation) requests and queries, and runs CheckTx on the transactions waiting in its mempool.
func (c *Chain) ServeLocal(sims []string, mempool []string) {
	for _, t := range sims {
		raw, _ := hex.DecodeString(t)
		c.App.Simulate(raw) // result ignored: only its (absent) influence on later blocks matters
	}
	for _, q := range localQueries {
		c.App.Query(abci.RequestQuery{Path: q})
	}
	for _, t := range mempool {
		raw, _ := hex.DecodeString(t)
		c.App.CheckTx(abci.RequestCheckTx{Tx: raw, Type: abci.CheckTxType_New})
	}
}

func (c *Chain) Begin(height, unix int64, proposer []byte) abci.ResponseBeginBlock {
	c.Height = height
	c.Header = tmproto.Header{ChainID: chainID, Height: height, Time: time.Unix(unix, 0).UTC(), ProposerAddress: proposer,
		AppHash: c.App.LastCommitID().Hash}
	r := c.App.BeginBlock(abci.RequestBeginBlock{Header: c.Header})
	c.open = true
	return r
}

// Ctx is the deliver-state context of the block in progress (what the next DeliverTx will see).
func (c *Chain) Ctx() sdk.Context {
	if c.open {
		return c.App.BaseApp.NewContext(false, c.Header)
	}
	return c.App.BaseApp.NewContext(true, tmproto.Header{ChainID: chainID, Height: c.App.LastBlockHeight(), Time: c.Header.Time})
}

func txObs(r abci.ResponseDeliverTx) string {
	return fmt.Sprintf("%d:%s:%s:%d:%d", r.Code, r.Codespace, hex.EncodeToString(r.Data), r.GasWanted, r.GasUsed)
}

func (c *Chain) Deliver(tx []byte) abci.ResponseDeliverTx {
	return c.App.DeliverTx(abci.RequestDeliverTx{Tx: tx})
}

func (c *Chain) End() (endObs string, appHash string) {
	endObs, appHash, _ = c.EndEv()
	return
}

func (c *Chain) EndEv() (endObs string, appHash string, events []abci.Event) {
	r := c.App.EndBlock(abci.RequestEndBlock{Height: c.Height})
	events = r.Events
	var vs []string
	for _, v := range r.ValidatorUpdates {
		pk, _ := v.PubKey.Marshal()
		vs = append(vs, fmt.Sprintf("%x=%d", pk, v.Power))
	}
	sort.Strings(vs) // staking returns them in a deterministic order already; sorted to be canonical
	cp := ""
	if r.ConsensusParamUpdates != nil {
		b, _ := r.ConsensusParamUpdates.Marshal()
		cp = hex.EncodeToString(b)
	}
	endObs = fmt.Sprintf("v=%s;cp=%s", strings.Join(vs, ","), cp)
	cm := c.App.Commit()
	c.open = false
	return endObs, hex.EncodeToString(cm.Data), events
}

// Execution modes: all of them must give the same app hashes and transaction results.
const (
	ModePlain   = 0 // fresh instance, blocks only
	ModeTwin    = 1 // fresh instance that also serves simulations, queries and CheckTx between blocks
	ModeRestart = 2 // fresh instance that is restarted (new application object on the same database) twice on the way
)

var modeNames = map[int]string{ModePlain: "plain", ModeTwin: "twin(sim+query+checktx)", ModeRestart: "restarted"}

// IsRestartPoint: a `restarted` execution of a history of n blocks replaces the application object by a new
// one on the same database just before block index i (0-based) — at one third and two thirds of the history.
func IsRestartPoint(n, i int) bool { return i > 0 && (i == n/3 || i == 2*n/3) }

// IsRestart: is block index i preceded by a restart in the `restarted` mode of this history?
func (s *Spec) IsRestart(i int) bool {
	if IsRestartPoint(len(s.Blocks), i) {
		return true
	}
	for _, r := range s.RestartBefore {
		if r == i && i > 0 {
			return true
		}
	}
	return false
}

// Execute re-executes a recorded history in a fresh application instance.
func Execute(spec *Spec) Exec { return ExecuteMode(spec, ModePlain) }

func ExecuteMode(spec *Spec, mode int) (ex Exec) {
	defer func() {
		if r := recover(); r != nil {
			ex.Panic = fmt.Sprint(r)
		}
	}()
	c := NewChain(spec)
	for i, b := range spec.Blocks {
		if mode == ModeRestart && spec.IsRestart(i) {
			c.Restart()
		}
		prop, _ := hex.DecodeString(b.Proposer)
		c.Begin(b.Height, b.Time, prop)
		var o BlockObs
		for _, t := range b.Txs {
			raw, _ := hex.DecodeString(t)
			o.Txs = append(o.Txs, txObs(c.Deliver(raw)))
		}
		o.EndBlock, o.AppHash = c.End()
		ex.Blocks = append(ex.Blocks, o)
		if mode == ModeTwin {
			var next []string
			if i+1 < len(spec.Blocks) {
				next = spec.Blocks[i+1].Txs
			}
			c.ServeLocal(b.Sims, next)
		}
	}
	return ex
}

// cpuProbe: "fma=<bool>,avx2=<bool>,exp=<digest of math.Exp over 4000 fixed arguments>"
func cpuProbe() string {
	h := sha256.New()
	x := -0.000123
	for i := 0; i < 4000; i++ {
		x = x*1.0173 - 0.00031*float64(i%7)
		if x < -700 {
			x = -0.000377
		}
		var b [8]byte
		binary.BigEndian.PutUint64(b[:], math.Float64bits(math.Exp(x)))
		h.Write(b[:])
	}
	return fmt.Sprintf("fma=%t,avx2=%t,exp=%x", syscpu.X86.HasFMA, syscpu.X86.HasAVX2, h.Sum(nil)[:6])
}

// ---- accounts and signing ----------------------------------------------------------------

type Acct struct {
	Name string
	Priv cryptotypes.PrivKey
	Addr sdk.AccAddress
}

func NewAcct(seed uint64, name string) *Acct {
	priv := secp256k1.GenPrivKeyFromSecret([]byte(fmt.Sprintf("verif-replay-%d-%s", seed, name)))
	return &Acct{Name: name, Priv: priv, Addr: sdk.AccAddress(priv.PubKey().Address())}
}

func consKey(seed uint64, i int) *ed25519.PrivKey {
	return ed25519.GenPrivKeyFromSecret([]byte(fmt.Sprintf("verif-replay-cons-%d-%d", seed, i)))
}

var memoSrc = rand.New(rand.NewSource(20260930))

var defaultFee = sdk.NewCoins(sdk.NewCoin("rowan", sdk.NewIntFromUint64(200000000000000000))) // 0.2 rowan ≥ every floor

// SignTx signs msgs with the signer's current account number and sequence in the block in progress.
func (c *Chain) SignTx(signer *Acct, gas uint64, msgs ...sdk.Msg) ([]byte, error) {
	ctx := c.Ctx()
	acc := c.App.AccountKeeper.GetAccount(ctx, signer.Addr)
	if acc == nil {
		return nil, fmt.Errorf("no account for %s", signer.Name)
	}
	cfg := sifapp.MakeTestEncodingConfig().TxConfig
	tx, err := helpers.GenSignedMockTx(memoSrc, cfg, msgs, defaultFee, gas, chainID, []uint64{acc.GetAccountNumber()}, []uint64{acc.GetSequence()}, signer.Priv)
	if err != nil {
		return nil, err
	}
	return cfg.TxEncoder()(tx)
}

// ---- worker process ----------------------------------------------------------------------

// family `replay_worker`: executes the history of the file given by -replay and writes exec.json
// into -out.  Used by the parent to run half of the re-executions in separate OS processes.
func init() {
	families["replay_worker"] = func(rng *Rng, n int, out *Out, replay string) {
		b, err := os.ReadFile(replay)
		if err != nil {
			panic(err)
		}
		var spec Spec
		if err := json.Unmarshal(b, &spec); err != nil {
			panic(err)
		}
		// The parent asked for a far-away local time zone through TZ.  If the machine has no zone data for it Go
		// silently falls back to UTC; then install the requested offset directly, before the application is built.
		if v := os.Getenv("VERIF_FIXED_ZONE_SECONDS"); v != "" {
			var off int
			fmt.Sscan(v, &off)
			if _, cur := time.Now().Zone(); cur == 0 && off != 0 {
				time.Local = time.FixedZone("VRF", off)
			}
		}
		ex := ExecuteMode(&spec, n) // -n carries the mode
		ex.CPUProbe = cpuProbe()
		eb, _ := json.Marshal(ex)
		if err := os.WriteFile(filepath.Join(argAfter("-out"), "exec.json"), eb, 0o644); err != nil {
			panic(err)
		}
		out.Emit("note worker "+spec.Name, "ok", "worker", false)
	}
}
