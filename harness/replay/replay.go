package main

// family `replay` (C09): every history is generated once by a pilot execution on the real
// application and then re-executed in fresh application instances until there are N executions
// (`-n N`), half of the re-executions in separate OS processes.  For every block the N app hashes
// (and EndBlock validator/consensus-param updates), and for every transaction the N tuples
// {Code, Codespace, Data, GasWanted, GasUsed}, are put on a `chk allEqual` line; the Lean predicate
// `Sif.Spec.C09.allEqualN` judges them.  The harness keeps no verdict of its own.
//
// Histories:
//   main            all modules: pools with many providers, LPPD + depth rewards (wallet and pool
//                   mode) + epoch bucket payouts (wallet and pool mode), a blocked recipient among the
//                   providers and among the dispensation recipients, ratio shifting (float code),
//                   liquidity protection, conflicting bridge claims with tied power, locks/burns,
//                   dispensation create/run/claim, margin open/close/force-close with price moves,
//                   registry and admin messages; in every block one or two transactions that FAIL inside a handler after
//                   gas-charged work (every module; two-message transactions whose second message fails)
//   dewhitelist-tie three conflicting claims of equal power whose claimants are partly removed from
//                   the whitelist before the deciding claim (order of the Go map decides the final
//                   claim on a tree without the F2 repair)

import (
	"encoding/hex"
	"encoding/json"
	"fmt"
	"math/big"
	"os"
	"os/exec"
	"path/filepath"
	"sort"
	"strings"
	"sync"
	"time"

	sifapp "github.com/Sifchain/sifnode/app"
	clptypes "github.com/Sifchain/sifnode/x/clp/types"
	disptypes "github.com/Sifchain/sifnode/x/dispensation/types"
	ethbridgetypes "github.com/Sifchain/sifnode/x/ethbridge/types"
	margintypes "github.com/Sifchain/sifnode/x/margin/types"
	trtypes "github.com/Sifchain/sifnode/x/tokenregistry/types"
	sdk "github.com/cosmos/cosmos-sdk/types"
	banktypes "github.com/cosmos/cosmos-sdk/x/bank/types"
	"github.com/cosmos/cosmos-sdk/x/capability"
	stakingtypes "github.com/cosmos/cosmos-sdk/x/staking/types"
	"github.com/cosmos/cosmos-sdk/x/upgrade"
	abci "github.com/tendermint/tendermint/abci/types"
	tmproto "github.com/tendermint/tendermint/proto/tendermint/types"
)

func argAfter(flag string) string {
	for i, a := range os.Args {
		if a == flag && i+1 < len(os.Args) {
			return os.Args[i+1]
		}
	}
	return ""
}

func sanitize(s string) string {
	s = strings.Map(func(r rune) rune {
		if r == ' ' || r == '\n' || r == '\t' || r == '|' {
			return '_'
		}
		return r
	}, s)
	if len(s) > 200 {
		s = s[:200]
	}
	if s == "" {
		return "-"
	}
	return s
}

// Process environments of the worker re-executions.  Consensus results must not depend on any of it:
// time zone, locale, CPU count, working directory, home / host / user names, temp directory, and the CPU
// features the Go runtime uses (GODEBUG=cpu.fma=off emulates a CPU without FMA3: math.Exp, math.FMA and other
// assembly routines then take their portable path; cpu.all=off disables every optional feature).  Whether the
// toggles had an effect on this host is recorded in stats.json (cpu_probe per execution).
type envProfile struct {
	name string
	vars map[string]string
	cwd  string // "" inherit, "." the worker's own output directory
}

var envProfiles = []envProfile{
	{name: "inherited"},
	{name: "far", cwd: ".", vars: map[string]string{"GODEBUG": "cpu.fma=off", "TZ": "Pacific/Kiritimati", "VERIF_FIXED_ZONE_SECONDS": "50400", "GOMAXPROCS": "1", "LANG": "tr_TR.UTF-8", "LC_ALL": "tr_TR.UTF-8",
		"LANGUAGE": "tr", "HOME": "/nonexistent/verif-home", "HOSTNAME": "verif-far-host", "USER": "nobody", "LOGNAME": "nobody", "TMPDIR": "."}},
	{name: "utc", cwd: "/", vars: map[string]string{"TZ": "UTC", "GOMAXPROCS": "4", "LANG": "C", "LC_ALL": "C", "HOME": "/", "HOSTNAME": "verif-utc-host"}},
	{name: "west", vars: map[string]string{"GODEBUG": "cpu.all=off", "TZ": "America/Anchorage", "VERIF_FIXED_ZONE_SECONDS": "-32400", "GOMAXPROCS": "2", "LANG": "de_DE.ISO-8859-1", "LC_NUMERIC": "de_DE"}},
}

func (e envProfile) apply(base []string, dir string) []string {
	out := make([]string, 0, len(base)+len(e.vars))
	for _, kv := range base {
		k := kv
		if i := strings.Index(kv, "="); i >= 0 {
			k = kv[:i]
		}
		if _, over := e.vars[k]; !over {
			out = append(out, kv)
		}
	}
	keys := make([]string, 0, len(e.vars))
	for k := range e.vars {
		keys = append(keys, k)
	}
	sort.Strings(keys)
	for _, k := range keys {
		v := e.vars[k]
		if v == "." {
			v = dir
		}
		out = append(out, k+"="+v)
	}
	return out
}

// cpuProbes: CPU probe of the parent and of every worker environment seen (evidence of which variation was real)
var cpuProbes = map[string]string{}

// runAll returns N executions of the history: the pilot's, then fresh in-process and worker-process ones.
func runAll(spec *Spec, pilot Exec, N int, outDir string) ([]Exec, []string) {
	execs := []Exec{pilot}
	how := []string{"pilot"}
	cpuProbes["parent"] = cpuProbe()
	rest := N - 1
	nProc := rest / 2
	nIn := rest - nProc
	// worker processes (concurrently)
	if abs, err := filepath.Abs(outDir); err == nil {
		outDir = abs // workers may run in another working directory
	}
	self := os.Args[0]
	if abs, err := exec.LookPath(self); err == nil {
		if abs2, err := filepath.Abs(abs); err == nil {
			self = abs2
		}
	}
	specPath := filepath.Join(outDir, spec.Name+".spec.json")
	sb, _ := json.Marshal(spec)
	if err := os.WriteFile(specPath, sb, 0o644); err != nil {
		panic(err)
	}
	procRes := make([]Exec, nProc)
	procMode := make([]int, nProc)
	procEnv := make([]string, nProc)
	procProbe := make([]string, nProc)
	var wg sync.WaitGroup
	sem := make(chan struct{}, 6)
	for i := 0; i < nProc; i++ {
		wg.Add(1)
		go func(i int) {
			defer wg.Done()
			sem <- struct{}{}
			defer func() { <-sem }()
			dir := filepath.Join(outDir, fmt.Sprintf("%s.w%d", spec.Name, i))
			os.MkdirAll(dir, 0o755)
			mode := []int{ModePlain, ModeTwin, ModeRestart}[i%3]
			procMode[i] = mode
			env := envProfiles[(i+1+i/3)%len(envProfiles)]
			procEnv[i] = env.name
			cmd := exec.Command(self, "replay_worker", "-seed", "0", "-n", fmt.Sprint(mode), "-out", dir, "-replay", specPath)
			cmd.Env = env.apply(os.Environ(), dir)
			if env.cwd == "." {
				cmd.Dir = dir
			} else if env.cwd != "" {
				cmd.Dir = env.cwd
			}
			cmd.Stdout, cmd.Stderr = nil, nil
			if err := cmd.Run(); err != nil {
				procRes[i] = Exec{Panic: "worker-process-failed:" + err.Error()}
				return
			}
			b, err := os.ReadFile(filepath.Join(dir, "exec.json"))
			if err != nil {
				procRes[i] = Exec{Panic: "worker-output-missing"}
				return
			}
			var ex Exec
			if err := json.Unmarshal(b, &ex); err != nil {
				procRes[i] = Exec{Panic: "worker-output-bad"}
				return
			}
			procRes[i] = ex
			procProbe[i] = ex.CPUProbe
			os.RemoveAll(dir)
		}(i)
	}
	// in this process, one after the other: whatever an earlier instance (the pilot included) left in process
	// memory is still there for the next one
	for i := 0; i < nIn; i++ {
		mode := []int{ModePlain, ModeTwin, ModeRestart}[i%3]
		zone := ""
		if i%2 == 1 {
			// the process's local time zone, changed in place (does not need zone data on the machine)
			saved := time.Local
			time.Local = time.FixedZone("VRF", 14*3600)
			zone = ".zone=+14"
			execs = append(execs, ExecuteMode(spec, mode))
			time.Local = saved
		} else {
			execs = append(execs, ExecuteMode(spec, mode))
		}
		how = append(how, "inproc."+modeNames[mode]+zone)
	}
	wg.Wait()
	for i := range procRes {
		execs = append(execs, procRes[i])
		how = append(how, "process."+modeNames[procMode[i]]+".env="+procEnv[i])
		cpuProbes["env="+procEnv[i]] = procProbe[i]
	}
	return execs, how
}

func obsAt(ex *Exec, b int, f func(o *BlockObs) string) string {
	if b < len(ex.Blocks) {
		return sanitize(f(&ex.Blocks[b]))
	}
	if ex.Panic != "" {
		return sanitize("panic:" + ex.Panic)
	}
	return "missing"
}

// splitGas splits an observation code:codespace:data:gasWanted:gasUsed into (everything but gasUsed, gasUsed)
func splitGas(o string) (string, string) {
	i := strings.LastIndex(o, ":")
	if i < 0 {
		return o, o
	}
	return o[:i], o[i+1:]
}

// expKey: the part of a CPU probe that says how this process's math routines round ("" = same process as the parent)
func expKey(probe string) string {
	if i := strings.Index(probe, "exp="); i >= 0 {
		return probe[i:]
	}
	return ""
}

// emitHistory: executions are grouped by the CPU behaviour of their process (probe of math.Exp: the parent's group
// holds the pilot, the in-process executions and the workers whose CPU features were left alone; workers started
// with GODEBUG=cpu.fma=off / cpu.all=off form other groups when the toggle has an effect on this host).  Within a
// group everything is compared line by line under the ordinary tags.  ACROSS groups one line per history compares
// the complete results (tag cpu-features.<history>): that comparison is what a CPU-dependent float routine breaks.
func emitHistory(out *Out, spec *Spec, execs []Exec, how []string, tag string) {
	parentKey := expKey(cpuProbes["parent"])
	keyOf := func(k int) string {
		if execs[k].CPUProbe == "" {
			return parentKey
		}
		return expKey(execs[k].CPUProbe)
	}
	var keys []string
	groups := map[string][]int{}
	for k := range execs {
		g := keyOf(k)
		if _, ok := groups[g]; !ok {
			keys = append(keys, g)
		}
		groups[g] = append(groups[g], k)
	}
	for _, g := range keys {
		idx := groups[g]
		if len(idx) < 2 {
			continue // a single execution shows nothing by itself; it still takes part in the cross-group line
		}
		ge := make([]Exec, len(idx))
		gh := make([]string, len(idx))
		for i, k := range idx {
			ge[i], gh[i] = execs[k], how[k]
		}
		emitGroup(out, spec, ge, gh, tag)
	}
	if len(keys) < 2 {
		return
	}
	// across CPU behaviours: digest of everything the representative of each group produced, and where they first differ
	digests := make([]string, len(keys))
	first := "-"
	ref := execs[groups[keys[0]][0]]
	for i, g := range keys {
		ex := execs[groups[g][0]]
		b, _ := json.Marshal(ex.Blocks)
		digests[i] = digest(b) + ":" + sanitize(g)
		if i > 0 && first == "-" {
			for bi := range spec.Blocks {
				if bi >= len(ex.Blocks) || bi >= len(ref.Blocks) || ex.Blocks[bi].AppHash != ref.Blocks[bi].AppHash {
					first = fmt.Sprintf("h%d:%s/%s", spec.Blocks[bi].Height, obsAt(&ref, bi, func(o *BlockObs) string { return o.AppHash })[:12], obsAt(&ex, bi, func(o *BlockObs) string { return o.AppHash })[:12])
					break
				}
			}
		}
	}
	// the digests carry the group's probe key after ':' for the reader; the judge compares the part before it
	plain := make([]string, len(digests))
	for i, d := range digests {
		plain[i] = d[:strings.Index(d, ":")]
	}
	out.Emit(fmt.Sprintf("chk allEqual/cpu-features.%s tag=cpu-features.%s n=%d groups=%s first_apphash_difference=%s | %s", tag, tag, len(keys), sanitize(strings.Join(digests, ",")), first, strings.Join(plain, " ")), "true", "cpu", true)
}

func emitGroup(out *Out, spec *Spec, execs []Exec, how []string, tag string) {
	N := len(execs)
	var restarted, steady []int
	for k := range execs {
		if strings.Contains(how[k], "restarted") {
			restarted = append(restarted, k)
		} else {
			steady = append(steady, k)
		}
	}
	pick := func(xs []string, idx []int) []string {
		o := make([]string, len(idx))
		for i, k := range idx {
			o[i] = xs[k]
		}
		return o
	}
	for bi, b := range spec.Blocks {
		hashes := make([]string, N)
		ends := make([]string, N)
		for k := range execs {
			hashes[k] = obsAt(&execs[k], bi, func(o *BlockObs) string { return o.AppHash })
			ends[k] = obsAt(&execs[k], bi, func(o *BlockObs) string { return o.EndBlock })
		}
		for ti := range b.Txs {
			rs := make([]string, N)
			for k := range execs {
				rs[k] = obsAt(&execs[k], bi, func(o *BlockObs) string {
					if ti < len(o.Txs) {
						return o.Txs[ti]
					}
					return "missing"
				})
			}
			stateless := ti < len(b.Stateless) && b.Stateless[ti]
			if stateless && spec.IsRestart(bi) && len(restarted) > 0 && len(steady) > 0 {
				// The position — a stateless-invalid transaction in the first block after a restart — is decided by the
				// structure of the history, never by the outcome.  Everything except GasUsed must agree across ALL
				// executions; GasUsed must agree among the executions that were not restarted and among those that
				// were; only "GasUsed is the same with and without the restart" carries the tag of finding F25.
				rest := make([]string, N)
				gas := make([]string, N)
				for k := range rs {
					rest[k], gas[k] = splitGas(rs[k])
				}
				out.Emit(fmt.Sprintf("chk allEqual/txresult.%s tag=txresult.%s n=%d h=%d i=%d kind=%s part=code:codespace:data:gaswanted | %s", tag, tag, N, b.Height, ti, b.Labels[ti], strings.Join(rest, " ")), "true", "tx", true)
				if len(steady) > 1 {
					out.Emit(fmt.Sprintf("chk allEqual/txresult.%s tag=txresult.%s n=%d h=%d i=%d kind=%s part=gasused.not-restarted | %s", tag, tag, len(steady), b.Height, ti, b.Labels[ti], strings.Join(pick(gas, steady), " ")), "true", "tx", true)
				}
				if len(restarted) > 1 {
					out.Emit(fmt.Sprintf("chk allEqual/txresult.%s tag=txresult.%s n=%d h=%d i=%d kind=%s part=gasused.restarted | %s", tag, tag, len(restarted), b.Height, ti, b.Labels[ti], strings.Join(pick(gas, restarted), " ")), "true", "tx", true)
				}
				out.Emit(fmt.Sprintf("chk allEqual/txresult.restarted.validatebasic.gasused tag=txresult.restarted.validatebasic.gasused n=%d hist=%s h=%d i=%d kind=%s modes=%s | %s", N, tag, b.Height, ti, b.Labels[ti], sanitize(strings.Join(how, ",")), strings.Join(gas, " ")), "true", "tx.f25", true)
				continue
			}
			out.Emit(fmt.Sprintf("chk allEqual/txresult.%s tag=txresult.%s n=%d h=%d i=%d kind=%s | %s", tag, tag, N, b.Height, ti, b.Labels[ti], strings.Join(rs, " ")), "true", "tx", true)
		}
		out.Emit(fmt.Sprintf("chk allEqual/endblock.%s tag=endblock.%s n=%d h=%d | %s", tag, tag, N, b.Height, strings.Join(ends, " ")), "true", "endblock", false)
		out.Emit(fmt.Sprintf("chk allEqual/apphash.%s tag=apphash.%s n=%d h=%d ntx=%d | %s", tag, tag, N, b.Height, len(b.Txs), strings.Join(hashes, " ")), "true", "block", true)
	}
}

// ---- history: main ---------------------------------------------------------------------------

func mainHistory(seed uint64, rng *Rng, blocks int) *Pilot {
	p := NewPilot("main", seed, rng, GenesisOpts{NUsers: 14, ValPowers: []int64{10, 10, 10, 10}, MarginPools: []string{"ceth", "cusdc"}, EpochSeconds: 3600}, 600)
	// block 1: pools
	p.Begin()
	for i, t := range tokens {
		p.CreatePool(p.W.Users[i], t.Denom)
	}
	p.End()
	// blocks 2-4: every user (the blocked one included) becomes a provider of several pools
	for b := 0; b < 3; b++ {
		p.Begin()
		ps := p.pools()
		for i, u := range p.W.Users {
			if len(ps) > 0 {
				p.AddLiquidity(u, ps[(i+b)%len(ps)])
			}
		}
		p.End()
	}
	// block 5: policies, bucket
	p.Begin()
	p.AdminPolicies(0)
	p.AddToBucket(p.W.Users[0])
	p.AddToBucket(p.W.Users[1])
	p.BridgeRound(0) // gives somebody ceth through the bridge
	p.End()
	for b := 5; b < blocks; b++ {
		p.Begin()
		ps := p.pools()
		switch {
		case b == blocks/3:
			p.AdminPolicies(1)
		case b == 2*blocks/3:
			p.AdminPolicies(2)
		}
		// transactions that fail inside a handler after gas-charged work: one or two per block, all modules
		for i := 1 + p.R.Intn(2); i > 0; i-- {
			p.FailingShape()
		}
		if b%5 == 0 {
			p.FailingDistribution()
		}
		// a rejected transaction whose first message edited a shared decoded object (registry entry, admin table,
		// whitelist, policy); later blocks read those objects
		if b == 6 || p.R.Chance(1, 3) {
			p.RolledBackEdit()
		}
		// the same with a READ of the edited object inside the rejected transaction; the next block is a restart point
		if b == 8 || p.R.Chance(1, 4) {
			p.EditReadFail()
		}
		if b == 9 || p.R.Chance(1, 8) {
			p.SameBlockCreateRunCreate()
		}
		// ACCEPTED edits of objects that block hooks read (decimals of a pooled denom, fee / reward / protection
		// policies, whitelist), each followed by a restart point
		if b == 10 || b == 14 || p.R.Chance(1, 6) {
			p.AcceptedRedecimal("")
		}
		if p.R.Chance(1, 6) {
			p.AcceptedEdit()
		}
		// parameters at a meaningful zero / off (genesis export must carry them as they are)
		if b == 7 || p.R.Chance(1, 12) {
			p.SetRegistryWithDuplicates()
		}
		// the ethbridge blacklist, set and later replaced, with elements that are not addresses
		if b == 6 || b == 10 || p.R.Chance(1, 10) {
			p.SetBlacklist()
		}
		if b == 11 {
			p.MarginParamsZeros(int(seed))
		} else if p.R.Chance(1, 7) {
			p.ZeroParams()
		}
		k := 3 + p.R.Intn(6)
		for i := 0; i < k && len(ps) > 0; i++ {
			u := p.user()
			pool := ps[p.R.Intn(len(ps))]
			switch p.R.Intn(22) {
			case 0, 1, 2, 3:
				p.Swap(u, ps, false)
			case 4:
				p.Swap(u, ps, true) // a price move (margin health, liquidity protection)
			case 5, 6:
				p.AddLiquidity(u, pool)
			case 7, 8:
				p.RemoveLiquidity(u, pool)
			case 9:
				p.Unlock(u, pool)
			case 10:
				p.AddToBucket(u)
			case 11, 12:
				p.BridgeRound(p.R.Intn(4))
			case 13:
				p.BridgeBurnLock(u)
			case 14:
				p.CreateDistribution()
			case 15, 16:
				p.RunDistribution()
			case 17:
				p.UserClaim()
			case 18, 19:
				p.MarginOpen([]string{"ceth", "cusdc"}[p.R.Intn(2)])
			case 20:
				p.MarginClose()
			default:
				p.Misc()
			}
		}
		p.End()
	}
	return p
}

// ---- history: dewhitelist-tie -----------------------------------------------------------------

func dewhitelistHistory(seed uint64, rng *Rng) *Pilot {
	p := NewPilot("dewhitelist-tie", seed, rng, GenesisOpts{NUsers: 3, ValPowers: []int64{10, 10, 10, 60}, EpochSeconds: 3600}, 600)
	rcv := p.W.Users[0].Addr
	for round := 0; round < 6; round++ {
		p.Begin()
		p.nonce++
		n := p.nonce
		p.claim(0, n, rcv, 100, "bridge.claim.dewl")
		p.claim(1, n, rcv, 200, "bridge.claim.dewl")
		p.End()
		p.Begin()
		for _, v := range []int{0, 1, 3} {
			m := ethbridgetypes.NewMsgUpdateWhiteListValidator(p.W.Admin.Addr, sdk.ValAddress(p.W.Vals[v].Addr), "remove")
			p.Tx("bridge.whitelist.remove", p.W.Admin, &m)
		}
		p.End()
		p.Begin()
		p.claim(2, n, rcv, 300, "bridge.claim.dewl.deciding")
		p.End()
		p.Begin()
		for _, v := range []int{0, 1, 3} {
			m := ethbridgetypes.NewMsgUpdateWhiteListValidator(p.W.Admin.Addr, sdk.ValAddress(p.W.Vals[v].Addr), "add")
			p.Tx("bridge.whitelist.add", p.W.Admin, &m)
		}
		p.End()
	}
	return p
}

// ---- history: restart-validatebasic (finding F25) -------------------------------------------------
// Six blocks; a `restarted` execution restarts just before block index 2 and 4.  Both of those blocks START
// with a transaction that fails the stateless ValidateBasic (a proposer can include one; honest mempools do
// not), followed by ordinary transactions.

func restartVBHistory(seed uint64, rng *Rng) *Pilot {
	p := NewPilot("restart-validatebasic", seed, rng, GenesisOpts{NUsers: 4, ValPowers: []int64{10}, EpochSeconds: 3600}, 600)
	u, v := p.W.Users[0], p.W.Users[1]
	ceth := clptypes.NewAsset("ceth")
	lowFeeLock := func(a *Acct) {
		m := ethbridgetypes.NewMsgLock(1, a.Addr, ethSender, sdk.NewIntFromBigInt(pow10(18)), "rowan", sdk.NewInt(1))
		p.Tx("bridge.lock.lowfee", a, &m)
	}
	sameAssetSwap := func(a *Acct) {
		m := clptypes.NewMsgSwap(a.Addr, ceth, ceth, sdk.NewUint(1000), sdk.ZeroUint())
		p.Tx("clp.swap.sameasset", a, &m)
	}
	send := func(a, b *Acct) {
		p.Tx("bank.send", a, banktypes.NewMsgSend(a.Addr, b.Addr, sdk.NewCoins(coin("rowan", pow10(18)))))
	}
	for b := 0; b < 6; b++ {
		p.Begin()
		switch b {
		case 0:
			p.CreatePool(u, "ceth")
			send(u, v)
		case 2, 4: // first block after a restart
			if b == 2 {
				lowFeeLock(v)
			} else {
				sameAssetSwap(v)
			}
			send(u, v)
			if ps := p.pools(); len(ps) > 0 {
				p.Swap(u, ps, false)
			}
			sameAssetSwap(u)
		default:
			send(v, u)
			lowFeeLock(u) // a stateless-invalid transaction in a block that does not follow a restart
			if ps := p.pools(); len(ps) > 0 {
				p.AddLiquidity(v, ps[0])
			}
		}
		p.End()
	}
	return p
}

// ---- history: poolless-prefix -------------------------------------------------------------------
// The first blocks have NO pool (no block hook reads the registry or the policies on behalf of every node), the
// shared objects are first read by transactions, a rejected [edit, read, fail] transaction follows, and only
// then the first pools are created.  Restart points: before every block from the second on.

func poollessHistory(seed uint64, rng *Rng) *Pilot {
	p := NewPilot("poolless-prefix", seed, rng, GenesisOpts{NUsers: 4, ValPowers: []int64{10, 10}, EpochSeconds: 3600}, 600)
	u, v, adm := p.W.Users[0], p.W.Users[1], p.W.Admin
	swapTo := func(a *Acct, denom string, label string) {
		m := clptypes.NewMsgSwap(a.Addr, clptypes.GetSettlementAsset(), clptypes.NewAsset(denom), uintOf(pow10(18)), sdk.ZeroUint())
		p.Tx(label, a, &m)
	}
	tooMuch := func() sdk.Msg {
		return banktypes.NewMsgSend(adm.Addr, u.Addr, sdk.NewCoins(coin("rowan", pow10(40))))
	}
	all := []trtypes.Permission{trtypes.Permission_CLP, trtypes.Permission_IBCEXPORT, trtypes.Permission_IBCIMPORT}
	for b := 0; b < 10; b++ {
		p.Begin()
		switch b {
		case 0: // first readers are transactions: refused for "pool does not exist" after the registry was read
			swapTo(u, "ceth", "clp.swap.nopool")
			p.Tx("bank.send", u, banktypes.NewMsgSend(u.Addr, v.Addr, sdk.NewCoins(coin("rowan", pow10(18)))))
		case 1: // rejected: ceth gets 6 decimals, a swap reads the registry and is refused, nothing may remain
			edit := &trtypes.MsgRegister{From: adm.Addr.String(), Entry: &trtypes.RegistryEntry{Denom: "ceth", BaseDenom: "ceth", Decimals: 6, Permissions: all}}
			rd := clptypes.NewMsgSwap(adm.Addr, clptypes.GetSettlementAsset(), clptypes.NewAsset("cnotlisted"), uintOf(pow10(18)), sdk.ZeroUint())
			p.Tx("multi.registry.redecimal+swap.unlisted", adm, edit, &rd)
			swapTo(v, "cusdc", "clp.swap.nopool")
		case 2: // the first pools
			p.CreatePool(u, "ceth")
			p.CreatePool(v, "cusdc")
		case 3:
			edit := &trtypes.MsgRegister{From: adm.Addr.String(), Entry: &trtypes.RegistryEntry{Denom: "cusdc", BaseDenom: "cusdc", Decimals: 18, Permissions: all}}
			rd := clptypes.NewMsgSwap(adm.Addr, clptypes.GetSettlementAsset(), clptypes.NewAsset("cusdc"), uintOf(pow10(18)), sdk.ZeroUint())
			p.Tx("multi.registry.redecimal+swap+send.toomuch", adm, edit, &rd, tooMuch())
			swapTo(u, "ceth", "clp.swap")
		case 4:
			p.CreatePool(u, "cdai")
			swapTo(v, "cusdc", "clp.swap")
		case 5: // accepted: ceth 18 -> 6 decimals while its pool exists (the block hook prices the pool from it)
			p.AcceptedRedecimal("ceth")
			swapTo(u, "ceth", "clp.swap")
		default:
			if ps := p.pools(); len(ps) > 0 {
				p.Swap(u, ps, false)
				p.AddLiquidity(v, ps[p.R.Intn(len(ps))])
			}
			p.EditReadFail()
			if b == 7 {
				p.AcceptedRedecimal("cusdc")
			}
		}
		p.End()
		if b >= 0 {
			p.Spec.RestartBefore = append(p.Spec.RestartBefore, len(p.Spec.Blocks))
		}
	}
	return p
}

// ---- history: margin-stress-queue ---------------------------------------------------------------
// Margin-enabled pools kept at or below the removal-queue threshold (the administrator raises the threshold to 1
// through MsgUpdateParams), so that the stress-queue term of the pool interest rate — the float code of
// GetSQFromBlocks — is active in every margin epoch for about 45 blocks, with positions opened and swaps in between
// so that many different (rate, blocks) arguments occur.

func marginSQHistory(seed uint64, rng *Rng) *Pilot {
	p := NewPilot("margin-stress-queue", seed, rng, GenesisOpts{NUsers: 6, ValPowers: []int64{10}, MarginPools: []string{"ceth", "cusdc", "cdai", "cwbtc", "clink"}, EpochSeconds: 3600}, 600)
	adm := p.W.Admin
	sqPools := []string{"ceth", "cusdc", "cdai", "cwbtc", "clink"}
	for b := 0; b < 56; b++ {
		p.Begin()
		switch {
		case b == 0:
			for i, d := range sqPools {
				p.CreatePool(p.W.Users[i], d)
			}
		case b == 1:
			params := p.C.App.MarginKeeper.GetParams(p.C.Ctx())
			np := params
			np.RemovalQueueThreshold = sdk.OneDec()
			np.EpochLength = 1
			// small rates that follow the pools' liabilities from epoch to epoch, so that e^(-rate*blocks) stays well inside
			// (0,1) and takes a different argument in every epoch of every pool
			np.HealthGainFactor = sdk.NewDecWithPrec(int64(3000+p.R.Intn(6000)), 6)
			np.InterestRateMin = sdk.NewDecWithPrec(int64(500+p.R.Intn(1500)), 6)
			np.InterestRateMax = sdk.NewDecWithPrec(int64(30+p.R.Intn(40)), 3)
			np.InterestRateIncrease = sdk.NewDecWithPrec(int64(1000+p.R.Intn(2000)), 6)
			np.InterestRateDecrease = sdk.NewDecWithPrec(int64(1000+p.R.Intn(2000)), 6)
			m := margintypes.MsgUpdateParams{Signer: adm.Addr.String(), Params: &np}
			p.Tx("margin.updateparams.sq", adm, &m)
			for _, d := range sqPools {
				p.MarginOpen(d)
			}
		default:
			ps := p.pools()
			switch p.R.Intn(5) {
			case 0, 1:
				p.MarginOpen(sqPools[p.R.Intn(len(sqPools))])
			case 2:
				if len(ps) > 0 {
					p.Swap(p.user(), ps, p.R.Chance(1, 4))
				}
			case 3:
				p.MarginClose()
			default:
				if len(ps) > 0 {
					p.AddLiquidity(p.user(), ps[p.R.Intn(len(ps))])
				}
			}
		}
		p.End()
		if os.Getenv("VERIF_DEBUG_SQ") != "" {
			for _, pl := range p.pools() {
				fmt.Fprintf(os.Stderr, "SQDBG h=%d %s rate=%s health=%s sqbegin=%d\n", p.Height(), pl.ExternalAsset.Symbol, pl.InterestRate, pl.Health, p.C.App.MarginKeeper.GetSQBeginBlock(p.C.Ctx(), pl))
			}
		}
	}
	return p
}

// ---- history: size-thresholds -----------------------------------------------------------------------
// Crosses the size thresholds of the code: one margin-enabled pool with about 130 open positions (MaxPageLimit is
// 100) visited by the margin BeginBlocker in every block (epoch length 1), and a dispensation with 45 recipients run
// in slices (MaxRecordsPerBlock is 20).  A restart point before every block from the third on.

func sizeThresholdHistory(seed uint64, rng *Rng) *Pilot {
	p := NewPilot("size-thresholds", seed, rng, GenesisOpts{NUsers: 8, ValPowers: []int64{10}, MarginPools: []string{"ceth"}, EpochSeconds: 3600}, 600)
	adm := p.W.Admin
	open := func(n int) {
		for i := 0; i < n; i++ {
			u := p.W.Users[p.R.Intn(len(p.W.Users)-1)]
			m := margintypes.MsgOpen{Signer: u.Addr.String(), CollateralAsset: "rowan", CollateralAmount: uintOf(new(big.Int).Mul(big.NewInt(int64(2+p.R.Intn(8))), pow10(18))),
				BorrowAsset: "ceth", Position: margintypes.Position_LONG, Leverage: sdk.MustNewDecFromStr("2.0")}
			before := p.C.App.MarginKeeper.GetMTPCount(p.C.Ctx())
			if r := p.Tx("margin.open.many", u, &m); r.Code == 0 {
				p.mtps = append(p.mtps, mtpRef{owner: u, id: before + 1})
			}
		}
	}
	var distName string
	var runner *Acct
	for b := 0; b < 9; b++ {
		p.Begin()
		switch b {
		case 0:
			p.CreatePool(p.W.Users[0], "ceth")
			params := p.C.App.MarginKeeper.GetParams(p.C.Ctx())
			np := params
			np.EpochLength = 1
			np.MaxOpenPositions = 100000
			m := margintypes.MsgUpdateParams{Signer: adm.Addr.String(), Params: &np}
			p.Tx("margin.updateparams.epoch1", adm, &m)
			// a dispensation with more recipients than one run may pay
			d := p.W.Users[1]
			runner = p.W.Users[2]
			var outs []banktypes.Output
			for i := 0; i < 45; i++ {
				outs = append(outs, banktypes.NewOutput(NewAcct(p.W.Seed, fmt.Sprintf("many-%d", i)).Addr, sdk.NewCoins(coin("rowan", new(big.Int).Mul(big.NewInt(int64(1+p.R.Intn(9))), pow10(18))))))
			}
			cm := disptypes.NewMsgCreateDistribution(d.Addr, disptypes.DistributionType_DISTRIBUTION_TYPE_AIRDROP, outs, runner.Addr.String())
			if r := p.Tx("disp.create.45", d, &cm); r.Code == 0 {
				distName = fmt.Sprintf("%d_%s", p.Height(), d.Addr.String())
				p.dists = append(p.dists, distRef{name: distName, typ: disptypes.DistributionType_DISTRIBUTION_TYPE_AIRDROP, runner: runner})
			}
		case 1, 2:
			open(65)
		default:
			if distName != "" {
				rm := disptypes.NewMsgRunDistribution(runner.Addr.String(), distName, disptypes.DistributionType_DISTRIBUTION_TYPE_AIRDROP, 20)
				p.Tx("disp.run.20of45", runner, &rm)
			}
			if ps := p.pools(); len(ps) > 0 {
				p.Swap(p.user(), ps, b == 5) // one price move
			}
			if b == 6 {
				open(10)
				p.MarginClose()
			}
		}
		p.End()
		if b >= 1 {
			p.Spec.RestartBefore = append(p.Spec.RestartBefore, len(p.Spec.Blocks))
		}
	}
	return p
}

// ---- history: staking-cap -------------------------------------------------------------------------
// Twenty validators of 5 % each; signed transactions of 5-8 MsgDelegate / MsgBeginRedelegate to DISTINCT validators in
// which one message, at a random position, crosses the 6.6 % voting-power cap: rejected by the ante handler after a
// number of gas-metered projections that must depend on the message order only.  Accepted multi-delegations too.

func stakingCapHistory(seed uint64, rng *Rng) *Pilot {
	powers := make([]int64, 20)
	for i := range powers {
		powers[i] = 10
	}
	p := NewPilot("staking-cap", seed, rng, GenesisOpts{NUsers: 6, ValPowers: powers, EpochSeconds: 3600}, 600)
	stake := func(n int64, exp int64) sdk.Coin { return coin("stake", new(big.Int).Mul(big.NewInt(n), pow10(exp))) }
	distinct := func(k int) []int {
		perm := make([]int, len(p.W.Vals))
		for i := range perm {
			perm[i] = i
		}
		for i := len(perm) - 1; i > 0; i-- {
			j := p.R.Intn(i + 1)
			perm[i], perm[j] = perm[j], perm[i]
		}
		return perm[:k]
	}
	for b := 0; b < 8; b++ {
		p.Begin()
		for t := 0; t < 3; t++ {
			u := p.W.Users[p.R.Intn(len(p.W.Users)-1)]
			k := 5 + p.R.Intn(4)
			vs := distinct(k)
			over := p.R.Intn(k)
			if t == 2 {
				over = -1 // every message within the cap: accepted
			}
			var msgs []sdk.Msg
			for i, v := range vs {
				amt := stake(int64(1+p.R.Intn(9)), 15)
				if i == over {
					amt = stake(int64(5+p.R.Intn(5)), 18) // (10+5)/(200+5) > 6.6 %
				}
				msgs = append(msgs, stakingtypes.NewMsgDelegate(u.Addr, sdk.ValAddress(p.W.Vals[v].Addr), amt))
			}
			label := "staking.multidelegate.overcap"
			if over < 0 {
				label = "staking.multidelegate.ok"
			}
			p.Tx(label, u, msgs...)
		}
		if b >= 2 { // redelegations of a validator's self-delegation to several destinations, one over the cap
			src := p.R.Intn(len(p.W.Vals))
			op := p.W.Vals[src]
			var msgs []sdk.Msg
			vs := distinct(5)
			over := p.R.Intn(len(vs))
			for i, v := range vs {
				if v == src {
					continue
				}
				amt := stake(int64(1+p.R.Intn(9)), 14)
				if i == over {
					amt = stake(4, 18)
				}
				msgs = append(msgs, stakingtypes.NewMsgBeginRedelegate(op.Addr, sdk.ValAddress(op.Addr), sdk.ValAddress(p.W.Vals[v].Addr), amt))
			}
			p.Tx("staking.multiredelegate", op, msgs...)
		}
		p.End()
	}
	return p
}

// ---- history: many-claims ---------------------------------------------------------------------------
// Ten whitelisted validators of unequal power (1×7, 10, 10, 13: total 40, 28 needed) all report DIFFERENT contents for
// one Ethereum event: more distinct conflicting claims on a pending prophecy than any small bound, one validator
// each.  With all claims weighed the prophecy fails at the ninth claim; the order of the claims varies per event.

func manyClaimsHistory(seed uint64, rng *Rng) *Pilot {
	p := NewPilot("many-claims", seed, rng, GenesisOpts{NUsers: 3, ValPowers: []int64{1, 1, 1, 1, 1, 1, 1, 10, 10, 13}, EpochSeconds: 3600}, 600)
	rcv := p.W.Users[0].Addr
	for ev := 0; ev < 6; ev++ {
		p.nonce++
		n := p.nonce
		order := make([]int, len(p.W.Vals))
		for i := range order {
			order[i] = i
		}
		switch ev {
		case 0: // the weak validators first, then the two of power 10, the strongest last
		case 1: // strongest first
			order = []int{9, 8, 7, 0, 1, 2, 3, 4, 5, 6}
		default:
			for i := len(order) - 1; i > 0; i-- {
				j := p.R.Intn(i + 1)
				order[i], order[j] = order[j], order[i]
			}
		}
		// spread over two blocks; every validator its own amount (ev 4, 5: the three strong ones agree, which succeeds at 33/40)
		p.Begin()
		for i, v := range order {
			amt := int64(100 + v)
			if ev >= 4 && v >= 7 {
				amt = 777
			}
			p.claim(v, n, rcv, amt, fmt.Sprintf("bridge.claim.many.e%d", ev))
			if i == 5 {
				p.End()
				p.Begin()
			}
		}
		p.End()
	}
	return p
}

// restartGasProbe attributes the extra BeginBlock gas of a restarted node: it replays the history up to the
// first restart point on two chains, restarts one of them, and runs the two BeginBlockers that keep
// process-local "already done" state on a context with a fresh infinite gas meter.
func restartGasProbe(spec *Spec) map[string]int64 {
	res := map[string]int64{}
	measure := func(restart bool) (capGas, upgGas int64) {
		c := NewChain(spec)
		k := len(spec.Blocks) / 3
		for i := 0; i < k; i++ {
			b := spec.Blocks[i]
			prop, _ := hex.DecodeString(b.Proposer)
			c.Begin(b.Height, b.Time, prop)
			for _, t := range b.Txs {
				raw, _ := hex.DecodeString(t)
				c.Deliver(raw)
			}
			c.End()
		}
		if restart {
			c.Restart()
		}
		b := spec.Blocks[k]
		hdr := tmproto.Header{ChainID: chainID, Height: b.Height, Time: time.Unix(b.Time, 0).UTC()}
		ctx := c.App.BaseApp.NewContext(true, hdr).WithGasMeter(sdk.NewInfiniteGasMeter())
		g0 := ctx.GasMeter().GasConsumed()
		capability.BeginBlocker(ctx, *c.App.CapabilityKeeper)
		g1 := ctx.GasMeter().GasConsumed()
		upgrade.BeginBlocker(c.App.UpgradeKeeper, ctx, abci.RequestBeginBlock{Header: hdr})
		g2 := ctx.GasMeter().GasConsumed()
		return int64(g1 - g0), int64(g2 - g1)
	}
	defer func() {
		if r := recover(); r != nil {
			res["probe_panicked"] = 1
		}
	}()
	c0, u0 := measure(false)
	c1, u1 := measure(true)
	res["capability.BeginBlocker.running"] = c0
	res["capability.BeginBlocker.after_restart"] = c1
	res["upgrade.BeginBlocker.running"] = u0
	res["upgrade.BeginBlocker.after_restart"] = u1
	res["extra_after_restart"] = (c1 - c0) + (u1 - u0)
	return res
}

func init() {
	families["replay"] = func(rng *Rng, n int, out *Out, replay string) {
		N := n
		if N < 2 {
			N = 2
		}
		outDir := argAfter("-out")
		blocks := 40 + 2*N
		seed := rng.U64() % 1000000
		hist := map[string]int{}
		info := map[string]interface{}{}
		for _, mk := range []func() (*Pilot, string){
			func() (*Pilot, string) { return mainHistory(seed, rng, blocks), "main" },
			func() (*Pilot, string) { return dewhitelistHistory(seed, rng), "oracle-dewhitelist-tie" },
			func() (*Pilot, string) { return restartVBHistory(seed, rng), "restart-validatebasic" },
			func() (*Pilot, string) { return poollessHistory(seed, rng), "poolless-prefix" },
			func() (*Pilot, string) { return marginSQHistory(seed, rng), "margin-stress-queue" },
			func() (*Pilot, string) { return sizeThresholdHistory(seed, rng), "size-thresholds" },
			func() (*Pilot, string) { return stakingCapHistory(seed, rng), "staking-cap" },
			func() (*Pilot, string) { return manyClaimsHistory(seed, rng), "many-claims" },
			func() (*Pilot, string) { return ghostHistory(seed, rng, false), "genesis-lps-without-accounts.lppd" },
			func() (*Pilot, string) { return ghostHistory(seed, rng, true), "genesis-lps-without-accounts.epoch" },
		} {
			p, tag := mk()
			execs, how := runAll(p.Spec, p.Obs, N, outDir)
			emitHistory(out, p.Spec, execs, how, tag)
			for _, e := range p.EpochEnds {
				out.Emit(fmt.Sprintf("chk epochEnd/epochs.end-from-stored-epoch.%s tag=epochs.end-from-stored-epoch.%s %s", tag, tag, e), "true", "epoch", true)
			}
			ntx := 0
			for _, b := range p.Spec.Blocks {
				ntx += len(b.Txs)
			}
			for k, v := range p.Hist {
				hist[tag+"/"+k] += v
			}
			how = append([]string(nil), how...)
			sort.Strings(how)
			info[tag] = map[string]interface{}{"blocks": len(p.Spec.Blocks), "txs": ntx, "executions": how, "events": p.Events}
			if tag == "restart-validatebasic" {
				out.Extra["F25_begin_block_gas_probe"] = restartGasProbe(p.Spec)
			}
		}
		out.Extra["tx_result_hist"] = hist
		out.Extra["histories"] = info
		out.Extra["executions_per_history"] = N
		out.Extra["cpu_probe"] = cpuProbes
	}
}

// ---- histories: genesis-lps-without-accounts ---------------------------------------------------
// A hand-made (valid) genesis whose liquidity providers have NO auth account: the first payout to
// them creates their accounts inside a loop whose order was the order of a Go map, and x/auth numbers
// accounts in creation order.  `lppd`: the LPPD payout loop (map keyed by provider address);
// `epoch`: the epoch bucket payout loop (map keyed by asset).

func ghostHistory(seed uint64, rng *Rng, epoch bool) *Pilot {
	name := "ghost-lppd"
	if epoch {
		name = "ghost-epoch"
	}
	mut := func(w *World, gs sifapp.GenesisState) {
		cdc := sifapp.MakeTestEncodingConfig().Marshaler
		var cg clptypes.GenesisState
		cdc.MustUnmarshalJSON(gs[clptypes.ModuleName], &cg)
		unit := new(big.Int).Mul(big.NewInt(1000), pow10(18))
		cs := sdk.NewCoins()
		denoms := []string{"ceth"}
		perPool := 6
		if epoch {
			denoms = []string{"ceth", "cusdc", "cdai", "cwbtc"}
			perPool = 1
		}
		for _, d := range denoms {
			total := sdk.ZeroUint()
			a := clptypes.NewAsset(d)
			for i := 0; i < perPool; i++ {
				g := NewAcct(seed, "ghost-"+d+itoa(i))
				w.Ghosts = append(w.Ghosts, g)
				cg.LiquidityProviders = append(cg.LiquidityProviders, &clptypes.LiquidityProvider{Asset: &a, LiquidityProviderUnits: uintOf(unit), LiquidityProviderAddress: g.Addr.String()})
				total = total.Add(uintOf(unit))
			}
			pool := clptypes.NewPool(&a, total, total, total)
			cg.PoolList = append(cg.PoolList, &pool)
			amt := sdk.NewIntFromBigInt(total.BigInt())
			cs = cs.Add(sdk.NewCoins(sdk.NewCoin("rowan", amt), sdk.NewCoin(d, amt))...)
			if epoch {
				cg.RewardsBucketList = append(cg.RewardsBucketList, clptypes.RewardsBucket{Denom: d, Amount: sdk.NewInt(1000000)})
				cs = cs.Add(sdk.NewCoin(d, sdk.NewInt(1000000)))
			}
		}
		if epoch {
			cg.RewardParams.RewardsDistribute = true
			cg.RewardParams.RewardsLockPeriod = 0
			cg.RewardParams.RewardsEpochIdentifier = "hour"
		} else {
			cg.ProviderDistributionParams = clptypes.ProviderDistributionParams{DistributionPeriods: []*clptypes.ProviderDistributionPeriod{
				{DistributionPeriodBlockRate: sdk.MustNewDecFromStr("0.01"), DistributionPeriodStartBlock: 1, DistributionPeriodEndBlock: 1000, DistributionPeriodMod: 1}}}
		}
		gs[clptypes.ModuleName] = cdc.MustMarshalJSON(&cg)
		var bg banktypes.GenesisState
		cdc.MustUnmarshalJSON(gs[banktypes.ModuleName], &bg)
		bg.Balances = append(bg.Balances, banktypes.Balance{Address: clptypes.GetCLPModuleAddress().String(), Coins: cs})
		bg.Supply = bg.Supply.Add(cs...)
		gs[banktypes.ModuleName] = cdc.MustMarshalJSON(&bg)
	}
	p := NewPilot(name, seed, rng, GenesisOpts{NUsers: 3, ValPowers: []int64{10}, EpochSeconds: 1000, Mutate: mut}, 600)
	for b := 0; b < 6; b++ {
		p.Begin()
		p.End()
	}
	return p
}
