package main

// family `genesis` (C14): translation validation of genesis export/import on the REAL application.
//
//  (a) histories: a random all-module history is executed (pilot of the `replay` family); the state is
//      exported with app.ExportAppStateAndValidators; a fresh application is initialised from that
//      export (InitChain at the exported height, Commit) and exported again.  For each of the eight
//      Sifchain modules the two JSON sections are compared (`chk docEq`), the epochs module through
//      `chk epochsRebased` (identical except CurrentEpochStartHeight := the new chain's initial height).
//      A fixed set of gRPC queries is sent through baseapp.Query to both applications and the answers
//      (height fields removed) compared (`chk docEq tag=query.…`).
//  (b) documents: randomly generated well-formed genesis documents for the eight modules (every field
//      populated by a reflection-driven generator, keys unique) are imported, exported, imported and
//      exported again: first export equals the document as a set of items (`tag=import.…`), second
//      export equals the first exactly (`tag=reexport.…`).
//
// State that the genesis format does not carry (clp reward accumulator / symmetry threshold, margin
// counters and whitelist, dispensation mint controller, admin params) is reported in stats.json as
// observations; the property is about what the format carries.

import (
	"bytes"
	"crypto/sha256"
	"encoding/hex"
	"encoding/json"
	"fmt"
	"math/big"
	"os"
	"path/filepath"
	"sort"
	"strings"

	sifapp "github.com/Sifchain/sifnode/app"
	admintypes "github.com/Sifchain/sifnode/x/admin/types"
	clptypes "github.com/Sifchain/sifnode/x/clp/types"
	disptypes "github.com/Sifchain/sifnode/x/dispensation/types"
	epochstypes "github.com/Sifchain/sifnode/x/epochs/types"
	ethbridgetypes "github.com/Sifchain/sifnode/x/ethbridge/types"
	margintypes "github.com/Sifchain/sifnode/x/margin/types"
	oracletypes "github.com/Sifchain/sifnode/x/oracle/types"
	trtypes "github.com/Sifchain/sifnode/x/tokenregistry/types"
	"github.com/cosmos/cosmos-sdk/codec"
	sdk "github.com/cosmos/cosmos-sdk/types"
	banktypes "github.com/cosmos/cosmos-sdk/x/bank/types"
	"github.com/gogo/protobuf/proto"
	abci "github.com/tendermint/tendermint/abci/types"
)

var sifModules = []string{"admin", "clp", "dispensation", "epochs", "ethbridge", "margin", "oracle", "tokenregistry"}

func digest(b []byte) string {
	h := sha256.Sum256(b)
	return hex.EncodeToString(h[:16])
}

func compactJSON(b []byte) []byte {
	var buf bytes.Buffer
	if err := json.Compact(&buf, b); err != nil {
		return b
	}
	return buf.Bytes()
}

// firstDiff names the first path at which two JSON values differ (for the replay file; not judged).
func firstDiff(a, b interface{}, path string) string {
	switch x := a.(type) {
	case map[string]interface{}:
		y, ok := b.(map[string]interface{})
		if !ok {
			return path
		}
		keys := map[string]bool{}
		for k := range x {
			keys[k] = true
		}
		for k := range y {
			keys[k] = true
		}
		ks := make([]string, 0, len(keys))
		for k := range keys {
			ks = append(ks, k)
		}
		sort.Strings(ks)
		for _, k := range ks {
			if d := firstDiff(x[k], y[k], path+"."+k); d != "" {
				return d
			}
		}
		return ""
	case []interface{}:
		y, ok := b.([]interface{})
		if !ok {
			return path
		}
		if len(x) != len(y) {
			return fmt.Sprintf("%s#len%d/%d", path, len(x), len(y))
		}
		for i := range x {
			if d := firstDiff(x[i], y[i], fmt.Sprintf("%s[%d]", path, i)); d != "" {
				return d
			}
		}
		return ""
	default:
		if fmt.Sprint(a) != fmt.Sprint(b) {
			return path
		}
		return ""
	}
}

func diffPath(a, b []byte) string {
	var x, y interface{}
	if json.Unmarshal(a, &x) != nil || json.Unmarshal(b, &y) != nil {
		return "unparsable"
	}
	d := firstDiff(x, y, "")
	if d == "" {
		return "-"
	}
	return sanitize(d)
}

// sortedJSON canonicalises a JSON value as a SET: arrays are sorted by their serialised elements and
// duplicates removed, null/empty arrays and empty strings are dropped from objects.
func sortedJSON(v interface{}) interface{} {
	switch x := v.(type) {
	case map[string]interface{}:
		out := map[string]interface{}{}
		for k, e := range x {
			c := sortedJSON(e)
			switch cc := c.(type) {
			case nil:
				continue
			case []interface{}:
				if len(cc) == 0 {
					continue
				}
			case string:
				if cc == "" {
					continue
				}
			}
			out[k] = c
		}
		return out
	case []interface{}:
		type kv struct {
			k string
			v interface{}
		}
		var items []kv
		seen := map[string]bool{}
		for _, e := range x {
			c := sortedJSON(e)
			b, _ := json.Marshal(c)
			if !seen[string(b)] {
				seen[string(b)] = true
				items = append(items, kv{string(b), c})
			}
		}
		sort.Slice(items, func(i, j int) bool { return items[i].k < items[j].k })
		out := make([]interface{}, len(items))
		for i := range items {
			out[i] = items[i].v
		}
		return out
	default:
		return v
	}
}

func asSet(b []byte) []byte {
	var v interface{}
	if err := json.Unmarshal(b, &v); err != nil {
		return b
	}
	o, _ := json.Marshal(sortedJSON(v))
	return o
}

// export runs the application's real export and returns the module sections.
func exportSections(app *sifapp.SifchainApp) (map[string]json.RawMessage, int64, json.RawMessage, error) {
	ex, err := app.ExportAppStateAndValidators(false, nil)
	if err != nil {
		return nil, 0, nil, err
	}
	var m map[string]json.RawMessage
	if err := json.Unmarshal(ex.AppState, &m); err != nil {
		return nil, 0, nil, err
	}
	return m, ex.Height, ex.AppState, nil
}

// initChainHeight: the block height of the context InitChain runs InitGenesis with, for the InitialHeight the harness
// passes: baseapp (cosmos-sdk v0.45) puts InitialHeight into the header only when it is greater than 1; a chain that
// starts at height 1 (or 0) initialises its genesis with a header of height 0.  This is the `h` of `epochsRebased`.
func initChainHeight(initialHeight int64) int64 {
	if initialHeight > 1 {
		return initialHeight
	}
	return 0
}

// importApp initialises a fresh application from an exported app state at the given initial height
// and commits the genesis state.
func importApp(name string, appState json.RawMessage, initialHeight, genesisTime int64, blacklist []string) (c *Chain, perr string) {
	defer func() {
		if r := recover(); r != nil {
			perr = fmt.Sprint(r)
		}
	}()
	c = NewChain(&Spec{Name: name, InitialHeight: initialHeight, GenesisTime: genesisTime, AppState: appState, Blacklist: blacklist})
	c.App.Commit()
	return c, ""
}

func epochRows(cdc codec.Codec, sec json.RawMessage) (rows []string, ok bool) {
	var gs epochstypes.GenesisState
	if err := cdc.UnmarshalJSON(sec, &gs); err != nil {
		return nil, false
	}
	for _, e := range gs.Epochs {
		rows = append(rows, fmt.Sprintf("%s,%d,%d,%d,%d,%t,%d", sanitize(e.Identifier), e.StartTime.UnixNano(), int64(e.Duration), e.CurrentEpoch,
			e.CurrentEpochStartTime.UnixNano(), e.EpochCountingStarted, e.CurrentEpochStartHeight))
	}
	sort.Strings(rows) // by identifier (the store's key order); the input document of part (b) is in random order
	return rows, true
}

func emitSections(out *Out, cdc codec.Codec, what string, a, b map[string]json.RawMessage, newInitialHeight int64, set bool) {
	for _, m := range sifModules {
		sa, sb := compactJSON(a[m]), compactJSON(b[m])
		if m == "epochs" {
			ra, ok1 := epochRows(cdc, a[m])
			rb, ok2 := epochRows(cdc, b[m])
			if ok1 && ok2 {
				out.Emit(fmt.Sprintf("chk epochsRebased/%s.epochs tag=%s.epochs h=%d | %s // %s", what, what, newInitialHeight, strings.Join(ra, " "), strings.Join(rb, " ")), "true", "epochs", true)
				continue
			}
		}
		if set {
			sa, sb = asSet(sa), asSet(sb)
		}
		if !bytes.Equal(sa, sb) { // keep both documents next to ops.txt for whoever reads the replay
			if dir := argAfter("-out"); dir != "" {
				base := filepath.Join(dir, fmt.Sprintf("differs-%s-%s-%d", what, m, out.N))
				os.WriteFile(base+"-before.json", sa, 0o644)
				os.WriteFile(base+"-after.json", sb, 0o644)
			}
		}
		out.Emit(fmt.Sprintf("chk docEq/%s.%s tag=%s.%s bytes=%d diff=%s | %s %s", what, m, what, m, len(sa), diffPath(sa, sb), digest(sa), digest(sb)), "true", what, len(sa) > 40)
	}
}

// ---- queries -----------------------------------------------------------------------------------

type queryCase struct {
	name string
	path string
	req  proto.Message
	resp func() proto.Message
}

func stripHeights(v interface{}) interface{} {
	switch x := v.(type) {
	case map[string]interface{}:
		out := map[string]interface{}{}
		for k, e := range x {
			// height: the two chains are one block apart; current_epoch_start_height: the stated re-base (judged
			// exactly by `epochsRebased` on the export); symmetry_*: clp's symmetry threshold is not part of the
			// genesis format (reported as an observation by observationQueries)
			if k == "height" || k == "current_epoch_start_height" || k == "symmetry_threshold" || k == "symmetry_ratio_threshold" {
				continue
			}
			out[k] = stripHeights(e)
		}
		return out
	case []interface{}:
		for i := range x {
			x[i] = stripHeights(x[i])
		}
		return x
	default:
		return v
	}
}

func runQuery(app *sifapp.SifchainApp, cdc codec.Codec, q queryCase) []byte {
	return runQueryOpt(app, cdc, q, true)
}

func runQueryOpt(app *sifapp.SifchainApp, cdc codec.Codec, q queryCase, strip bool) []byte {
	bz, err := proto.Marshal(q.req)
	if err != nil {
		return []byte("req-error")
	}
	r := app.Query(abci.RequestQuery{Path: q.path, Data: bz})
	if r.Code != 0 {
		return []byte(fmt.Sprintf("{\"query_error\":\"%d.%s\"}", r.Code, r.Codespace))
	}
	resp := q.resp()
	if err := proto.Unmarshal(r.Value, resp); err != nil {
		return []byte("resp-error")
	}
	js, err := cdc.MarshalJSON(resp)
	if err != nil {
		return []byte("json-error")
	}
	var v interface{}
	if json.Unmarshal(js, &v) != nil {
		return js
	}
	if !strip {
		if m, ok := v.(map[string]interface{}); ok {
			delete(m, "height")
		}
		o, _ := json.Marshal(v)
		return o
	}
	o, _ := json.Marshal(stripHeights(v))
	return o
}

func queryCases(pools []string, addrs []string, dists []string) []queryCase {
	qs := []queryCase{
		{"clp.pools", "/sifnode.clp.v1.Query/GetPools", &clptypes.PoolsReq{}, func() proto.Message { return &clptypes.PoolsRes{} }},
		{"clp.providers", "/sifnode.clp.v1.Query/GetLiquidityProviders", &clptypes.LiquidityProvidersReq{}, func() proto.Message { return &clptypes.LiquidityProvidersRes{} }},
		{"clp.buckets", "/sifnode.clp.v1.Query/GetRewardsBucketAll", &clptypes.AllRewardsBucketReq{}, func() proto.Message { return &clptypes.AllRewardsBucketRes{} }},
		{"clp.params", "/sifnode.clp.v1.Query/GetParams", &clptypes.ParamsReq{}, func() proto.Message { return &clptypes.ParamsRes{} }},
		{"clp.rewardparams", "/sifnode.clp.v1.Query/GetRewardParams", &clptypes.RewardParamsReq{}, func() proto.Message { return &clptypes.RewardParamsRes{} }},
		{"clp.pmtpparams", "/sifnode.clp.v1.Query/GetPmtpParams", &clptypes.PmtpParamsReq{}, func() proto.Message { return &clptypes.PmtpParamsRes{} }},
		{"clp.liqprotparams", "/sifnode.clp.v1.Query/GetLiquidityProtectionParams", &clptypes.LiquidityProtectionParamsReq{}, func() proto.Message { return &clptypes.LiquidityProtectionParamsRes{} }},
		{"clp.lppdparams", "/sifnode.clp.v1.Query/GetProviderDistributionParams", &clptypes.ProviderDistributionParamsReq{}, func() proto.Message { return &clptypes.ProviderDistributionParamsRes{} }},
		{"clp.swapfeeparams", "/sifnode.clp.v1.Query/GetSwapFeeParams", &clptypes.SwapFeeParamsReq{}, func() proto.Message { return &clptypes.SwapFeeParamsRes{} }},
		{"margin.params", "/sifnode.margin.v1.Query/GetParams", &margintypes.ParamsRequest{}, func() proto.Message { return &margintypes.ParamsResponse{} }},
		{"margin.positions", "/sifnode.margin.v1.Query/GetPositions", &margintypes.PositionsRequest{}, func() proto.Message { return &margintypes.PositionsResponse{} }},
		{"ethbridge.pause", "/sifnode.ethbridge.v1.Query/GetPauseStatus", &ethbridgetypes.QueryPauseRequest{}, func() proto.Message { return &ethbridgetypes.QueryPauseResponse{} }},
		{"ethbridge.blacklist", "/sifnode.ethbridge.v1.Query/GetBlacklist", &ethbridgetypes.QueryBlacklistRequest{}, func() proto.Message { return &ethbridgetypes.QueryBlacklistResponse{} }},
		{"dispensation.distributions", "/sifnode.dispensation.v1.Query/AllDistributions", &disptypes.QueryAllDistributionsRequest{}, func() proto.Message { return &disptypes.QueryAllDistributionsResponse{} }},
		{"dispensation.claims.lm", "/sifnode.dispensation.v1.Query/ClaimsByType", &disptypes.QueryClaimsByTypeRequest{UserClaimType: disptypes.DistributionType_DISTRIBUTION_TYPE_LIQUIDITY_MINING}, func() proto.Message { return &disptypes.QueryClaimsResponse{} }},
		{"dispensation.claims.vs", "/sifnode.dispensation.v1.Query/ClaimsByType", &disptypes.QueryClaimsByTypeRequest{UserClaimType: disptypes.DistributionType_DISTRIBUTION_TYPE_VALIDATOR_SUBSIDY}, func() proto.Message { return &disptypes.QueryClaimsResponse{} }},
		{"tokenregistry.entries", "/sifnode.tokenregistry.v1.Query/Entries", &trtypes.QueryEntriesRequest{}, func() proto.Message { return &trtypes.QueryEntriesResponse{} }},
		{"admin.accounts", "/sifnode.admin.v1.Query/ListAccounts", &admintypes.ListAccountsRequest{}, func() proto.Message { return &admintypes.ListAccountsResponse{} }},
		{"epochs.infos", "/sifnode.epochs.v1.Query/EpochInfos", &epochstypes.QueryEpochsInfoRequest{}, func() proto.Message { return &epochstypes.QueryEpochsInfoResponse{} }},
	}
	for _, p := range pools {
		p := p
		qs = append(qs, queryCase{"clp.pool." + p, "/sifnode.clp.v1.Query/GetPool", &clptypes.PoolReq{Symbol: p}, func() proto.Message { return &clptypes.PoolRes{} }})
		qs = append(qs, queryCase{"clp.lplist." + p, "/sifnode.clp.v1.Query/GetLiquidityProviderList", &clptypes.LiquidityProviderListReq{Symbol: p}, func() proto.Message { return &clptypes.LiquidityProviderListRes{} }})
		qs = append(qs, queryCase{"margin.bypool." + p, "/sifnode.margin.v1.Query/GetPositionsByPool", &margintypes.PositionsByPoolRequest{Asset: p}, func() proto.Message { return &margintypes.PositionsByPoolResponse{} }})
	}
	for i, a := range addrs {
		a := a
		qs = append(qs, queryCase{fmt.Sprintf("clp.lpdata.%d", i), "/sifnode.clp.v1.Query/GetLiquidityProviderData", &clptypes.LiquidityProviderDataReq{LpAddress: a}, func() proto.Message { return &clptypes.LiquidityProviderDataRes{} }})
		qs = append(qs, queryCase{fmt.Sprintf("margin.foraddr.%d", i), "/sifnode.margin.v1.Query/GetPositionsForAddress", &margintypes.PositionsForAddressRequest{Address: a}, func() proto.Message { return &margintypes.PositionsForAddressResponse{} }})
		qs = append(qs, queryCase{fmt.Sprintf("dispensation.byrecipient.%d", i), "/sifnode.dispensation.v1.Query/RecordsByRecipient", &disptypes.QueryRecordsByRecipientAddrRequest{Address: a}, func() proto.Message { return &disptypes.QueryRecordsByRecipientAddrResponse{} }})
	}
	for i, d := range dists {
		d := d
		for _, st := range []disptypes.DistributionStatus{disptypes.DistributionStatus_DISTRIBUTION_STATUS_PENDING, disptypes.DistributionStatus_DISTRIBUTION_STATUS_COMPLETED, disptypes.DistributionStatus_DISTRIBUTION_STATUS_FAILED} {
			st := st
			qs = append(qs, queryCase{fmt.Sprintf("dispensation.records.%d.%d", i, int(st)), "/sifnode.dispensation.v1.Query/RecordsByDistributionName",
				&disptypes.QueryRecordsByDistributionNameRequest{DistributionName: d, Status: st}, func() proto.Message { return &disptypes.QueryRecordsByDistributionNameResponse{} }})
		}
	}
	return qs
}

// queries about state the genesis format does NOT carry: reported as observations, never judged
func observationQueries() []queryCase {
	return []queryCase{
		{"margin.status(MTPCount/OpenMTPCount)", "/sifnode.margin.v1.Query/GetStatus", &margintypes.StatusRequest{}, func() proto.Message { return &margintypes.StatusResponse{} }},
		{"margin.whitelist", "/sifnode.margin.v1.Query/GetWhitelist", &margintypes.WhitelistRequest{}, func() proto.Message { return &margintypes.WhitelistResponse{} }},
		{"admin.params", "/sifnode.admin.v1.Query/GetParams", &admintypes.GetParamsRequest{}, func() proto.Message { return &admintypes.GetParamsResponse{} }},
		{"clp.params(symmetry threshold)", "/sifnode.clp.v1.Query/GetParams", &clptypes.ParamsReq{}, func() proto.Message { return &clptypes.ParamsRes{} }},
	}
}

func emitQueries(out *Out, cdc codec.Codec, what string, a, b *sifapp.SifchainApp, qs []queryCase, obs map[string]int) {
	for _, q := range qs {
		ra, rb := runQuery(a, cdc, q), runQuery(b, cdc, q)
		out.Emit(fmt.Sprintf("chk docEq/%s.query.%s tag=%s.query.%s bytes=%d diff=%s | %s %s", what, sanitize(q.name), what, sanitize(q.name), len(ra), diffPath(ra, rb), digest(ra), digest(rb)), "true", "query", len(ra) > 30)
	}
	for _, q := range observationQueries() {
		ra, rb := runQueryOpt(a, cdc, q, false), runQueryOpt(b, cdc, q, false)
		if !bytes.Equal(ra, rb) {
			obs["not-carried:"+q.name]++
		}
	}
}

// ---- raw store comparison ------------------------------------------------------------------------
// The imported chain against the ORIGINAL chain, key by key, for the record collections the genesis format
// carries (not export vs re-export: a record dropped by the export is missing from both exports).

type storeColl struct {
	module, store, name string
	prefix              []byte
}

var carriedCollections = []storeColl{
	{"admin", admintypes.StoreKey, "accounts", []byte{0x01}},
	{"clp", clptypes.StoreKey, "pools", []byte{0x00}},
	{"clp", clptypes.StoreKey, "providers", []byte{0x01}},
	{"clp", clptypes.StoreKey, "buckets", []byte(clptypes.RewardsBucketKeyPrefix)},
	{"dispensation", disptypes.StoreKey, "records.pending", []byte{0x00}},
	{"dispensation", disptypes.StoreKey, "records.completed", []byte{0x11}},
	{"dispensation", disptypes.StoreKey, "records.failed", []byte{0x12}},
	{"dispensation", disptypes.StoreKey, "distributions", []byte{0x01}},
	{"dispensation", disptypes.StoreKey, "claims", []byte{0x02}},
	{"ethbridge", ethbridgetypes.StoreKey, "blacklist", []byte{0x02}},
	{"margin", margintypes.StoreKey, "positions", []byte{0x01}},
	{"oracle", oracletypes.StoreKey, "prophecies", []byte{0x02}},
	{"tokenregistry", trtypes.StoreKey, "registry", []byte{0x01}},
}

// dumpPrefix lists key=value (hex) of the committed state under a prefix, in store order.
func dumpPrefix(app *sifapp.SifchainApp, c storeColl) []string {
	key := app.GetKey(c.store)
	if key == nil {
		return []string{"no-such-store"}
	}
	st := app.CommitMultiStore().GetKVStore(key)
	it := sdk.KVStorePrefixIterator(st, c.prefix)
	defer it.Close()
	var out []string
	for ; it.Valid(); it.Next() {
		out = append(out, hex.EncodeToString(it.Key())+"="+hex.EncodeToString(it.Value()))
	}
	return out
}

func emitStores(out *Out, what string, a, b *sifapp.SifchainApp) {
	for _, c := range carriedCollections {
		da, db := dumpPrefix(a, c), dumpPrefix(b, c)
		diff := "-"
		if len(da) != len(db) {
			diff = fmt.Sprintf("entries%d/%d", len(da), len(db))
		} else {
			for i := range da {
				if da[i] != db[i] {
					k := da[i]
					if len(k) > 60 {
						k = k[:60]
					}
					diff = "entry" + fmt.Sprint(i) + ":" + k
					break
				}
			}
		}
		ja, jb := []byte(strings.Join(da, "\n")), []byte(strings.Join(db, "\n"))
		if diff != "-" {
			if dir := argAfter("-out"); dir != "" {
				base := filepath.Join(dir, fmt.Sprintf("differs-%s-store-%s-%s-%d", what, c.module, c.name, out.N))
				os.WriteFile(base+"-original.txt", ja, 0o644)
				os.WriteFile(base+"-imported.txt", jb, 0o644)
			}
		}
		out.Emit(fmt.Sprintf("chk docEq/%s.store.%s.%s tag=%s.store.%s.%s entries=%d diff=%s | %s %s", what, c.module, c.name, what, c.module, c.name, len(da), sanitize(diff), digest(ja), digest(jb)), "true", "store", len(da) > 0)
	}
}

// ---- (a) histories ------------------------------------------------------------------------------

// bigCollectionsHistory crosses the list-size thresholds of every exported collection (page limits 100 / 200,
// dispensation's 20 records per run): 210 pools, 235+ liquidity providers, 120 margin positions, 210 prophecies,
// 250 distribution records, 211 registry entries — small amounts, seven blocks.
func bigCollectionsHistory(seed uint64, rng *Rng) *Pilot {
	var extra []string
	for i := 0; i < 205; i++ {
		extra = append(extra, fmt.Sprintf("ctk%03d", i))
	}
	p := NewPilot("big-collections", seed, rng, GenesisOpts{NUsers: 231, ValPowers: []int64{10}, MarginPools: []string{"ceth"}, EpochSeconds: 3600, ExtraDenoms: extra}, 600)
	adm := p.W.Admin
	small := func(u *Acct, denom string, dec int64) {
		m := clptypes.NewMsgCreatePool(u.Addr, clptypes.NewAsset(denom), uintOf(new(big.Int).Mul(big.NewInt(int64(10+rng.Intn(20))), pow10(18))), uintOf(new(big.Int).Mul(big.NewInt(int64(10+rng.Intn(20))), pow10(dec))))
		p.Tx("clp.create.small", u, &m)
	}
	usable := p.W.Users[:len(p.W.Users)-1]
	// 1: pools
	p.Begin()
	for i, t := range tokens {
		small(p.W.Users[2+i], t.Denom, t.Decimals)
	}
	for i, d := range extra {
		small(p.W.Users[i%2], d, 18)
	}
	p.End()
	// 2: every account becomes a provider of the ceth pool (and some of a second pool)
	p.Begin()
	for i, u := range usable {
		m := clptypes.NewMsgAddLiquidity(u.Addr, clptypes.NewAsset("ceth"), uintOf(new(big.Int).Mul(big.NewInt(int64(1+rng.Intn(5))), pow10(17))), uintOf(new(big.Int).Mul(big.NewInt(int64(1+rng.Intn(5))), pow10(17))))
		p.Tx("clp.add.small", u, &m)
		if i%9 == 0 {
			m2 := clptypes.NewMsgAddLiquidity(u.Addr, clptypes.NewAsset("cusdc"), uintOf(pow10(17)), uintOf(big.NewInt(100000)))
			p.Tx("clp.add.small", u, &m2)
		}
	}
	p.End()
	// 3: margin positions
	p.Begin()
	params := p.C.App.MarginKeeper.GetParams(p.C.Ctx())
	np := params
	np.EpochLength = 1
	np.MaxOpenPositions = 100000
	mp := margintypes.MsgUpdateParams{Signer: adm.Addr.String(), Params: &np}
	p.Tx("margin.updateparams.epoch1", adm, &mp)
	for i := 0; i < 120; i++ {
		u := usable[rng.Intn(len(usable))]
		m := margintypes.MsgOpen{Signer: u.Addr.String(), CollateralAsset: "rowan", CollateralAmount: uintOf(new(big.Int).Mul(big.NewInt(int64(1+rng.Intn(3))), pow10(16))),
			BorrowAsset: "ceth", Position: margintypes.Position_LONG, Leverage: sdk.MustNewDecFromStr("2.0")}
		p.Tx("margin.open.small", u, &m)
	}
	p.End()
	// 4: prophecies (one validator holds all the power: each claim completes its prophecy)
	p.Begin()
	for i := 0; i < 210; i++ {
		p.nonce++
		p.claim(0, p.nonce, usable[rng.Intn(len(usable))].Addr, int64(1+rng.Intn(50)), "bridge.claim.single")
	}
	p.End()
	// 5: distribution records
	p.Begin()
	for k := 0; k < 5; k++ {
		d := usable[10+k]
		runner := usable[20+k]
		var outs []banktypes.Output
		for i := 0; i < 50; i++ {
			outs = append(outs, banktypes.NewOutput(usable[(k*50+i)%len(usable)].Addr, sdk.NewCoins(coin("rowan", new(big.Int).Mul(big.NewInt(int64(1+rng.Intn(9))), pow10(16))))))
		}
		cm := disptypes.NewMsgCreateDistribution(d.Addr, disptypes.DistributionType_DISTRIBUTION_TYPE_AIRDROP, outs, runner.Addr.String())
		if r := p.Tx("disp.create.50", d, &cm); r.Code == 0 {
			p.dists = append(p.dists, distRef{name: fmt.Sprintf("%d_%s", p.Height(), d.Addr.String()), typ: disptypes.DistributionType_DISTRIBUTION_TYPE_AIRDROP, runner: runner})
		}
	}
	p.End()
	// 6, 7: some of it paid, hooks running
	for b := 0; b < 2; b++ {
		p.Begin()
		for _, d := range p.dists[:2] {
			rm := disptypes.NewMsgRunDistribution(d.runner.Addr.String(), d.name, d.typ, 20)
			p.Tx("disp.run.20", d.runner, &rm)
		}
		p.End()
	}
	return p
}

func roundTripHistory(out *Out, rng *Rng, idx int, obs map[string]int) {
	seed := rng.U64() % 1000000
	blocks := 12 + rng.Intn(40)
	roundTripPilot(out, mainHistory(seed, rng, blocks), idx, obs)
}

// roundTripPilot: export the pilot's chain, import it, export again; compare sections, queries and stores.
func roundTripPilot(out *Out, p *Pilot, idx int, obs map[string]int) {
	cdc := sifapp.MakeTestEncodingConfig().Marshaler
	what := "export"
	secA, heightA, stateA, err := exportSections(p.C.App)
	if err != nil {
		out.Emit(fmt.Sprintf("chk docEq/export.failed.A tag=export.failed.A n=2 | ok %s", sanitize(err.Error())), "true", "export-error", false)
		return
	}
	lastTime := p.Spec.Blocks[len(p.Spec.Blocks)-1].Time
	b, perr := importApp(fmt.Sprintf("import-%d", idx), stateA, heightA, lastTime, p.Spec.Blacklist)
	if perr != "" {
		out.Emit(fmt.Sprintf("chk docEq/import.panicked tag=import.panicked | ok %s", sanitize(perr)), "true", "import-panic", false)
		return
	}
	secB, _, _, err := exportSections(b.App)
	if err != nil {
		out.Emit(fmt.Sprintf("chk docEq/export.failed.B tag=export.failed.B | ok %s", sanitize(err.Error())), "true", "export-error", false)
		return
	}
	emitSections(out, cdc, what, secA, secB, initChainHeight(heightA), false)
	var pools, addrs []string
	for _, pl := range p.pools() {
		pools = append(pools, pl.ExternalAsset.Symbol)
	}
	for i, u := range p.W.Users {
		if i < 14 || i == len(p.W.Users)-1 {
			addrs = append(addrs, u.Addr.String())
		}
	}
	var dists []string
	for _, d := range p.dists {
		dists = append(dists, d.name)
	}
	emitQueries(out, cdc, what, p.C.App, b.App, queryCases(pools, addrs, dists), obs)
	emitStores(out, what, p.C.App, b.App)
	// non-Sifchain sections: informational only
	for m := range secA {
		isSif := false
		for _, s := range sifModules {
			if s == m {
				isSif = true
			}
		}
		if !isSif && !bytes.Equal(compactJSON(secA[m]), compactJSON(secB[m])) {
			obs["sdk-module-section-differs:"+m]++
		}
	}
	for k, v := range p.Hist {
		obs["hist/"+k] += v
	}
}

func init() {
	families["genesis"] = func(rng *Rng, n int, out *Out, replay string) {
		obs := map[string]int{}
		for i := 0; i < n; i++ {
			roundTripHistory(out, rng, i, obs)
		}
		// one history that crosses the size thresholds of every exported collection
		roundTripPilot(out, bigCollectionsHistory(rng.U64()%1000000, rng), n, obs)
		for i := 0; i < 3*n; i++ {
			roundTripDocument(out, rng, i, obs)
		}
		out.Extra["observations"] = obs
	}
}
