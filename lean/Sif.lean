-- root of the library: every property-theorem module (their imports pull in model, spec, proofs)
import Sif.Props.C03
