import Sif.Spec.C10
import Sif.Proofs.C10Power
import Sif.Proofs.C10Gov
set_option exponentiation.threshold 400
/-
  C10 helper lemmas: the PMTP half of the clp BeginBlocker (`PolicyStart`, `PolicyCalculations`,
  the counters, `PolicyRun`) returns normally under `PmtpInvP` and re-establishes it.
-/
namespace Sif.Proofs.C10
open Sif Sif.Hooks Sif.Spec.C10

local notation "P" => Dec.P

/-! ### fixed-width wrappers are the identity in range -/

theorem two63_val : two63 = 9223372036854775808 := by unfold two63; norm_num
theorem two64_val : two64 = 18446744073709551616 := by unfold two64; norm_num

theorem wrapI64_id {i : Int} (h1 : -two63 ≤ i) (h2 : i < two63) : wrapI64 i = i := by
  unfold wrapI64
  rw [two63_val] at *
  rw [two64_val]
  omega

theorem wrapU64_id {i : Int} (h1 : 0 ≤ i) (h2 : i < two64) : wrapU64 i = i.toNat := by
  unfold wrapU64
  rw [Int.emod_eq_of_lt h1 h2]

/-! ### Dec add / sub inside the range -/

theorem fits_of_lt {x : Int} (h : x.natAbs < 2 ^ 315) : bitLen x.natAbs ≤ Dec.maxBits :=
  bitLen_le_of_lt h

theorem Dec_add_ok {a b : Dec} (h : (a.i + b.i).natAbs < 2 ^ 315) : Dec.add a b = .ok ⟨a.i + b.i⟩ := by
  unfold Dec.add Dec.chk; simp [fits_of_lt h]

theorem Dec_sub_ok {a b : Dec} (h : (a.i - b.i).natAbs < 2 ^ 315) : Dec.sub a b = .ok ⟨a.i - b.i⟩ := by
  unfold Dec.sub Dec.chk; simp [fits_of_lt h]

theorem natAbs_lt_of_bounds {x : Int} {B : Nat} (h1 : -(B : Int) < x) (h2 : x < B) : x.natAbs < B := by omega

theorem P_lt_2_60 : P < 2 ^ 60 := by rw [P_val]; norm_num
theorem B1_val : B1 = 2 ^ 250 := rfl
theorem B2_val : B2 = 2 ^ 270 := rfl

/-! ### power bound for a smaller exponent -/

theorem pow_bound_mono {X n N K : Nat} (hX : P ≤ X) (hn : n ≤ N) (h : X ^ N ≤ 2 ^ K * P ^ N) :
    X ^ n ≤ 2 ^ K * P ^ n := by
  have hpos : 0 < P ^ (N - n) := pow_pos P_pos _
  have h1 : X ^ n * P ^ (N - n) ≤ X ^ n * X ^ (N - n) := Nat.mul_le_mul_left _ (Nat.pow_le_pow_left hX _)
  have h2 : X ^ n * X ^ (N - n) = X ^ N := by rw [← pow_add]; congr 1; omega
  have h3 : 2 ^ K * P ^ N = (2 ^ K * P ^ n) * P ^ (N - n) := by
    rw [mul_assoc, ← pow_add]; congr 2; omega
  rw [h2] at h1
  have h4 : X ^ n * P ^ (N - n) ≤ (2 ^ K * P ^ n) * P ^ (N - n) := by rw [← h3]; exact le_trans h1 h
  exact Nat.le_of_mul_le_mul_right h4 hpos

theorem KPOW_le : KPOW ≤ 255 := by unfold KPOW; norm_num

/-- `PolicyCalculations`: no panic, the new running rate is ≥ the inter-policy rate and ≤ B2 -/
theorem policyCalc_ok (pm : Pmtp) (h : Int) (hs1 : 1 ≤ pm.start) (hsh : pm.start ≤ h) (hhe : h ≤ pm.end_)
    (he : pm.end_ < two63) (hpb : PowBoundP pm.blockRate (numBlocks pm).toNat)
    (hi1 : -(P : Int) < pm.inter.i) (hi2 : pm.inter.i ≤ B1) :
    ∃ r, policyCalc pm h = .ok r ∧ pm.inter.i ≤ r.i ∧ r.i ≤ B2 := by
  obtain ⟨hb0, hpow⟩ := hpb
  rw [two63_val] at he
  -- b as a natural number
  obtain ⟨bn, hbn⟩ : ∃ bn : Nat, pm.blockRate.i = bn := ⟨pm.blockRate.i.toNat, (Int.toNat_of_nonneg hb0).symm⟩
  have hbt : pm.blockRate.i.toNat = bn := by rw [hbn]; exact Int.toNat_natCast bn
  rw [hbt] at hpow
  set N := (numBlocks pm).toNat with hN
  have hNval : (N : Int) = pm.end_ - pm.start + 1 := by
    rw [hN]; unfold numBlocks; exact Int.toNat_of_nonneg (by omega)
  set X := P + bn + 1 with hXdef
  have hXP : P ≤ X := by omega
  -- exponent
  set n := (h - pm.start + 1).toNat with hn
  have hnval : (n : Int) = h - pm.start + 1 := by rw [hn]; exact Int.toNat_of_nonneg (by omega)
  have hn1 : 1 ≤ n := by omega
  have hnN : n ≤ N := by omega
  have hn64 : n < 2 ^ 64 := by
    have : (n : Int) < 2 ^ 64 := by rw [hnval]; omega
    exact_mod_cast this
  have hpown : X ^ n ≤ 2 ^ KPOW * P ^ n := pow_bound_mono hXP hnN hpow
  -- d = 1 + b
  have hB1 : Bnd X (P + bn) 1 := ⟨by omega, by simp [hXdef]⟩
  have hdfit : P + bn + 1 ≤ 2 ^ KPOW * P := Bnd_fits hB1 (le_refl _) hn1 hXP hpown
  have hKP := two_pow_mul_P_lt KPOW_le
  have hd : Dec.add Dec.one pm.blockRate = .ok ⟨((P + bn : Nat) : Int)⟩ := by
    have : (Dec.one.i + pm.blockRate.i) = ((P + bn : Nat) : Int) := by
      rw [hbn]; show ((P : Nat) : Int) + bn = _; push_cast; ring
    rw [Dec_add_ok (by rw [this, Int.natAbs_natCast]; omega), this]
  -- the wrapped exponent
  have hw1 : wrapI64 (h - pm.start) = h - pm.start := wrapI64_id (by rw [two63_val]; omega) (by rw [two63_val]; omega)
  have hw2 : wrapI64 (h - pm.start + 1) = h - pm.start + 1 := wrapI64_id (by rw [two63_val]; omega) (by rw [two63_val]; omega)
  have hw3 : wrapU64 (h - pm.start + 1) = n := by
    rw [wrapU64_id (by omega) (by rw [two64_val]; omega)]
  obtain ⟨r, rv, hr, hri, hrP, hrK⟩ := power_ok (X := X) (n := n) (K := KPOW) hXP hpown KPOW_le
    ⟨((P + bn : Nat) : Int)⟩ (P + bn) rfl rfl (by omega) hn1 hn64
  -- r - 1
  have hsub : Dec.sub r Dec.one = .ok ⟨(rv : Int) - P⟩ := by
    have : r.i - Dec.one.i = (rv : Int) - P := by rw [hri]; rfl
    rw [Dec_sub_ok (by rw [this]; omega), this]
  have hB1v : B1 = 2 ^ 250 := rfl
  have hB2v : B2 = 2 ^ 270 := rfl
  have hP60 := P_lt_2_60
  have hK : (2 : Nat) ^ KPOW * P < 2 ^ 262 := by
    calc 2 ^ KPOW * P < 2 ^ KPOW * 2 ^ 60 := Nat.mul_lt_mul_of_pos_left hP60 (by positivity)
      _ = 2 ^ 262 := by unfold KPOW; rw [← pow_add]
  have hrv : (rv : Int) < 2 ^ 262 := by
    have : rv < 2 ^ 262 := by omega
    exact_mod_cast this
  have hPi : (P : Int) < 2 ^ 60 := by exact_mod_cast hP60
  have hadd : Dec.add ⟨(rv : Int) - P⟩ pm.inter = .ok ⟨(rv : Int) - P + pm.inter.i⟩ := by
    apply Dec_add_ok
    show ((rv : Int) - P + pm.inter.i).natAbs < 2 ^ 315
    rw [hB1v] at hi2
    omega
  refine ⟨⟨(rv : Int) - P + pm.inter.i⟩, ?_, ?_, ?_⟩
  · unfold policyCalc
    simp only [hd, bind, Except.bind, hw1, hw2, hw3, hr, hsub, hadd]
  · show pm.inter.i ≤ (rv : Int) - P + pm.inter.i
    have : (P : Int) ≤ rv := by exact_mod_cast hrP
    omega
  · show (rv : Int) - P + pm.inter.i ≤ B2
    rw [hB2v]; rw [hB1v] at hi2
    omega

/-- `PolicyStart`: no panic under validated parameters and an accurate `math.Pow`; the stored block
    rate satisfies the power bound -/
theorem policyStart_ok (pm : Pmtp) (b : Dec) (hp : ParamsOKP pm) (ha : PowAccurateP pm b) :
    ∃ E, policyStart pm (some b) = .ok { pm with blockRate := b, epochCtr := E, blockCtr := pm.epochLen } ∧
      PowBoundP b (numBlocks pm).toNat := by
  obtain ⟨hL, hs1, hse, he, _hmod, hg0, hg1, hgE⟩ := hp
  obtain ⟨hb0, hacc⟩ := ha
  rw [two63_val] at he
  have hNnn : 0 ≤ numBlocks pm := by unfold numBlocks; omega
  have hNlt : numBlocks pm < two63 := by unfold numBlocks; rw [two63_val]; omega
  have hw1 : wrapI64 (pm.end_ - pm.start) = pm.end_ - pm.start := wrapI64_id (by rw [two63_val]; omega) (by rw [two63_val]; omega)
  have hw2 : wrapI64 (pm.end_ - pm.start + 1) = numBlocks pm := wrapI64_id (by rw [two63_val]; omega) (by rw [two63_val]; omega)
  have hEnn : 0 ≤ numEpochs pm := by
    unfold numEpochs; exact Int.tdiv_nonneg hNnn (by omega)
  have hEle : numEpochs pm ≤ numBlocks pm := by
    unfold numEpochs
    rw [Int.tdiv_eq_ediv_of_nonneg hNnn]
    exact Int.ediv_le_self _ hNnn
  have hw3 : wrapI64 (numEpochs pm) = numEpochs pm := wrapI64_id (by rw [two63_val]; omega) (by rw [two63_val] at hNlt ⊢; omega)
  have hdiv : divI64 (numBlocks pm) pm.epochLen = .ok (numEpochs pm) := by
    unfold divI64
    have : pm.epochLen ≠ 0 := by omega
    simp only [this, if_false]
    show Except.ok (wrapI64 (numEpochs pm)) = _
    rw [hw3]
  have hPi : (P : Int) < 2 ^ 60 := by exact_mod_cast P_lt_2_60
  have hadd : Dec.add Dec.one pm.gov = .ok ⟨Dec.one.i + pm.gov.i⟩ := by
    apply Dec_add_ok
    have : Dec.one.i = (P : Int) := rfl
    rw [this]; omega
  refine ⟨numEpochs pm, ?_, hb0, ?_⟩
  · unfold policyStart
    simp only [hw1, hw2, hdiv, hadd, bind, Except.bind]
  · -- X^N P^E ≤ 2 (P+g)^E P^N ≤ 2^202 P^E P^N
    set N := (numBlocks pm).toNat
    set E := (numEpochs pm).toNat with hE
    set g := pm.gov.i.toNat with hgdef
    have hgi : (g : Int) = pm.gov.i := Int.toNat_of_nonneg hg0
    have hEi : (E : Int) = numEpochs pm := Int.toNat_of_nonneg hEnn
    have hgP : g ≤ P := by
      have : (g : Int) ≤ P := by rw [hgi]; exact hg1
      exact_mod_cast this
    have hgE' : g * E ≤ 50 * P := by
      have : (g : Int) * E ≤ 50 * P := by rw [hgi, hEi]; exact hgE
      exact_mod_cast this
    have hgov := gov_pow_bound P g E P_pos hgP hgE'
    have hPE : 0 < P ^ E := pow_pos P_pos _
    have h1 : (P + b.i.toNat + 1) ^ N * P ^ E ≤ 2 * (2 ^ 201 * P ^ E) * P ^ N :=
      le_trans hacc (Nat.mul_le_mul_right _ (Nat.mul_le_mul_left _ hgov))
    have h2 : 2 * (2 ^ 201 * P ^ E) * P ^ N = (2 ^ KPOW * P ^ N) * P ^ E := by
      unfold KPOW; ring
    rw [h2] at h1
    exact Nat.le_of_mul_le_mul_right h1 hPE

/-! ### PolicyRun -/

theorem ratDiv_ok {a b : Rat} (hb : b ≠ 0) : ratDiv a b = .ok (a / b) := by
  unfold ratDiv; simp [hb]

theorem spotPriceX_ok (X Y dx dy : Nat) (r : Dec) (nat : Bool) (hfac : (1 + decToRat r : Rat) ≠ 0) :
    ∃ o, spotPriceX X Y dx dy r nat = .ok o := by
  unfold spotPriceX
  split_ifs with hz hn
  · exact ⟨none, rfl⟩
  · exact ⟨_, rfl⟩
  · simp only [ratDiv_ok hfac, Except.map]; exact ⟨_, rfl⟩

/-- the price update never panics when 1 + running rate ≠ 0 and the depths fit an sdk.Uint -/
theorem poolPrices_ok (p : PoolDepth) (r : Dec) (hr : -(P : Int) < r.i)
    (h1 : p.nb + p.nl < two256) (h2 : p.eb + p.el < two256) : ∃ o, poolPrices p r = .ok o := by
  unfold poolPrices
  by_cases hd : p.decOK = true
  · simp only [hd, if_true, Uint.add, Uint.chk, h1, h2, bind, Except.bind]
    have hfac : (1 + decToRat r : Rat) ≠ 0 := by
      unfold decToRat
      have hPq : (0 : Rat) < (P : Rat) := by exact_mod_cast P_pos
      have : (1 : Rat) + mkRat r.i P = ((P : Int) + r.i : Int) / (P : Rat) := by
        rw [Rat.mkRat_eq_div]; push_cast; field_simp
      rw [this]
      have hne : (((P : Int) + r.i : Int) : Rat) ≠ 0 := by
        have : (P : Int) + r.i ≠ 0 := by omega
        exact_mod_cast this
      exact div_ne_zero hne (ne_of_gt hPq)
    have hx1 := spotPriceX_ok (p.nb + p.nl) (p.eb + p.el) 18 p.dec r true hfac
    have hx2 := spotPriceX_ok (p.eb + p.el) (p.nb + p.nl) p.dec 18 r false hfac
    obtain ⟨o1, e1⟩ := hx1
    obtain ⟨o2, e2⟩ := hx2
    exact ⟨_, by simp only [e1, e2]; rfl⟩
  · exact ⟨none, by simp [hd]⟩

theorem policyRun_ok (pools : List PoolDepth) (r : Dec) (hr : -(P : Int) < r.i) (hp : PoolsOKP pools) :
    ∃ o, policyRun pools r = .ok o := by
  induction pools with
  | nil => exact ⟨[], rfl⟩
  | cons p ps ih =>
    obtain ⟨h1, h2⟩ := hp p (List.mem_cons_self)
    obtain ⟨o, ho⟩ := poolPrices_ok p r hr h1 h2
    obtain ⟨os, hos⟩ := ih (fun q hq => hp q (List.mem_cons_of_mem _ hq))
    exact ⟨o :: os, by unfold policyRun; simp only [ho, hos, bind, Except.bind]; rfl⟩

/-! ### the counters and the end of a policy -/

theorem epochRoll_fields (pm : Pmtp) (h : Int) :
    (epochRoll pm h).start = pm.start ∧ (epochRoll pm h).end_ = pm.end_ ∧ (epochRoll pm h).epochLen = pm.epochLen ∧
    (epochRoll pm h).gov = pm.gov ∧ (epochRoll pm h).blockRate = pm.blockRate ∧ (epochRoll pm h).running = pm.running ∧
    (epochRoll pm h).inter = pm.inter := by
  unfold epochRoll; split_ifs <;> simp

theorem B1_le_B2 : B1 ≤ B2 := by unfold B1 B2; norm_num

/-- one block inside the window [start, end]: recompute the rate, move the counters, close the
    policy on its last block — no panic, invariant for the next height -/
theorem inside_step (pm : Pmtp) (h : Int) (hs1 : 1 ≤ pm.start) (hsh : pm.start ≤ h) (hhe : h ≤ pm.end_)
    (he : pm.end_ < two63) (hpb : PowBoundP pm.blockRate (numBlocks pm).toNat)
    (hi1 : -(P : Int) < pm.inter.i) (hi2 : pm.inter.i ≤ B1) (hr1 : -(P : Int) < pm.running.i) (hr2 : pm.running.i ≤ B2) :
    ∃ pm2, calcIfInside pm h = .ok pm2 ∧
      PmtpInvP (endIfDue (epochRoll pm2 h) h pm2.running) (h + 1) ∧ -(P : Int) < pm2.running.i := by
  -- first: pm2 and what it keeps
  have hpm2 : ∃ pm2, calcIfInside pm h = .ok pm2 ∧ pm2.start = pm.start ∧ pm2.end_ = pm.end_ ∧ pm2.blockRate = pm.blockRate ∧
      pm2.inter = pm.inter ∧ -(P : Int) < pm2.running.i ∧ pm2.running.i ≤ B2 := by
    unfold calcIfInside
    by_cases hc : h ≥ pm.start ∧ h ≤ pm.end_ ∧ pm.epochCtr > 0
    · obtain ⟨r, hr, hlo, hhi⟩ := policyCalc_ok pm h hs1 hsh hhe he hpb hi1 hi2
      refine ⟨{ pm with running := r, blockCtr := wrapI64 (pm.blockCtr - 1) }, ?_, rfl, rfl, rfl, rfl, ?_, hhi⟩
      · simp only [hc, and_self, if_true, hr, Except.map]
      · show -(P : Int) < r.i; omega
    · exact ⟨pm, by simp only [hc, if_false], rfl, rfl, rfl, rfl, hr1, hr2⟩
  obtain ⟨pm2, hcalc, e1, e2, e3, e4, hlo, hhi⟩ := hpm2
  refine ⟨pm2, hcalc, ?_, hlo⟩
  obtain ⟨f1, f2, _, _, f5, f6, f7⟩ := epochRoll_fields pm2 h
  have hB := B1_le_B2
  by_cases hend : h = pm.end_
  · -- last block of the policy
    have : endIfDue (epochRoll pm2 h) h pm2.running =
        { epochRoll pm2 h with epochCtr := 0, blockCtr := 0, inter := pm2.running } := by
      unfold endIfDue; rw [if_pos (by rw [f2, e2]; exact hend)]
    rw [this]
    refine ⟨?_, ?_, ?_, ?_, ?_, ?_, ?_, ?_⟩
    · show (epochRoll pm2 h).start ≤ (epochRoll pm2 h).end_; rw [f1, f2, e1, e2]; omega
    · exact hlo
    · show -(P : Int) < (epochRoll pm2 h).running.i; rw [f6]; exact hlo
    · exact hhi
    · show (epochRoll pm2 h).running.i ≤ B2; rw [f6]; exact hhi
    · intro hh; exfalso
      have : h + 1 ≤ (epochRoll pm2 h).start := hh
      rw [f1, e1] at this; omega
    · intro hh; exfalso
      have : h + 1 ≤ (epochRoll pm2 h).end_ := hh.2
      rw [f2, e2] at this; omega
    · intro _; exact ⟨rfl, rfl⟩
  · have : endIfDue (epochRoll pm2 h) h pm2.running = epochRoll pm2 h := by
      unfold endIfDue; rw [if_neg (by rw [f2, e2]; exact hend)]
    rw [this]
    refine ⟨?_, ?_, ?_, ?_, ?_, ?_, ?_, ?_⟩
    · rw [f1, f2, e1, e2]; omega
    · rw [f7, e4]; exact hi1
    · rw [f6]; exact hlo
    · rw [f7, e4]; omega
    · rw [f6]; exact hhi
    · intro hh; exfalso; rw [f1, e1] at hh; omega
    · intro _
      have hnb : numBlocks (epochRoll pm2 h) = numBlocks pm := by unfold numBlocks; rw [f1, f2, e1, e2]
      rw [f1, f2, f5, f7, e1, e2, e3, e4, hnb]
      exact ⟨hs1, he, hpb, hi2⟩
    · intro hh; exfalso; rw [f2, e2] at hh; omega

/-- the PMTP half of the BeginBlocker: no panic, invariant for the next height, 1 + rate > 0 -/
theorem pmtpStep_ok (pm : Pmtp) (env : BEnv) (hinv : PmtpInvP pm env.h) (henv : EnvOKP pm env) :
    ∃ pm' r, pmtpStep pm env = .ok (pm', r) ∧ PmtpInvP pm' (env.h + 1) ∧ -(P : Int) < r.i := by
  obtain ⟨hse, hi1, hr1, hi2, hr2, hA, hB, hC⟩ := hinv
  obtain ⟨_, _, hpow⟩ := henv
  unfold pmtpStep
  by_cases hlt : env.h < pm.start
  · -- before the window: nothing happens
    have hs : startIfDue pm env = .ok pm := by
      unfold startIfDue; have : ¬ env.h = pm.start := by omega
      simp [this]
    have hc : calcIfInside pm env.h = .ok pm := by
      unfold calcIfInside; have : ¬ env.h ≥ pm.start := by omega
      simp [this]
    have hr : epochRoll pm env.h = pm := by
      unfold epochRoll; have : ¬ env.h ≥ pm.start := by omega
      simp [this]
    have he : endIfDue pm env.h pm.running = pm := by
      unfold endIfDue; have : ¬ env.h = pm.end_ := by omega
      simp [this]
    refine ⟨pm, pm.running, by simp only [hs, hc, hr, he, bind, Except.bind]; rfl, ?_, hr1⟩
    exact ⟨hse, hi1, hr1, hi2, hr2, fun _ => hA (by omega), fun hh => by omega, fun hh => by omega⟩
  · by_cases heq : env.h = pm.start
    · -- the block that starts the policy
      obtain ⟨hz, hpar, hiB1⟩ := hA (by omega)
      have hpr := hpow heq
      obtain ⟨b, hb⟩ : ∃ b, env.powRate = some b := by
        cases hp : env.powRate with
        | none => rw [hp] at hpr; exact absurd hpr (by unfold powRateOK; simp)
        | some b => exact ⟨b, rfl⟩
      rw [hb] at hpr
      obtain ⟨E, hps, hpb⟩ := policyStart_ok pm b hpar hpr
      have hs : startIfDue pm env = .ok { pm with blockRate := b, epochCtr := E, blockCtr := pm.epochLen } := by
        unfold startIfDue; simp only [heq, hz.1, hz.2, and_self, if_true]; rw [hb, hps]
      obtain ⟨_, hs1, _, he63, _⟩ := hpar
      obtain ⟨pm2, hcalc, hinv', hlo⟩ := inside_step { pm with blockRate := b, epochCtr := E, blockCtr := pm.epochLen } env.h
        hs1 (by show pm.start ≤ env.h; omega) (by show env.h ≤ pm.end_; omega) he63 hpb hi1 hiB1 hr1 hr2
      exact ⟨_, _, by simp only [hs, hcalc, bind, Except.bind]; rfl, hinv', hlo⟩
    · have hs : startIfDue pm env = .ok pm := by
        unfold startIfDue; simp [heq]
      by_cases hin : env.h ≤ pm.end_
      · obtain ⟨hs1, he63, hpb, hiB1⟩ := hB ⟨by omega, hin⟩
        obtain ⟨pm2, hcalc, hinv', hlo⟩ := inside_step pm env.h hs1 (by omega) hin he63 hpb hi1 hiB1 hr1 hr2
        exact ⟨_, _, by simp only [hs, hcalc, bind, Except.bind]; rfl, hinv', hlo⟩
      · -- after the window
        have hz := hC (by omega)
        have hc : calcIfInside pm env.h = .ok pm := by
          unfold calcIfInside; simp [hin]
        have hr : epochRoll pm env.h = pm := by
          unfold epochRoll; have : ¬ env.h < pm.end_ := by omega
          simp [this]
        have he : endIfDue pm env.h pm.running = pm := by
          unfold endIfDue; have : ¬ env.h = pm.end_ := by omega
          simp [this]
        refine ⟨pm, pm.running, by simp only [hs, hc, hr, he, bind, Except.bind]; rfl, ?_, hr1⟩
        exact ⟨hse, hi1, hr1, hi2, hr2, fun hh => by omega, fun hh => by omega, fun _ => hz⟩

end Sif.Proofs.C10
