import Sif.Num.Basic
import Mathlib.Tactic.Linarith
import Mathlib.Tactic.Ring
import Mathlib.Tactic.Positivity
import Mathlib.Tactic.FieldSimp
/-
  C10 helper lemma: the repaired validation of `UpdatePmtpParams` (0 ≤ gov ≤ 1 and
  gov × numEpochs ≤ 50) bounds the compounded policy rate: (1 + gov)^numEpochs ≤ 2^201,
  for every governance rate and every number of epochs.  Elementary (Bernoulli in chunks).
-/
namespace Sif.Proofs.C10

/-- (1+t)^m ≤ 1 + 2tm while 2tm ≤ 1 -/
theorem one_add_pow_le (t : ℚ) (ht : 0 ≤ t) : ∀ m : ℕ, 2 * t * m ≤ 1 → (1 + t) ^ m ≤ 1 + 2 * t * m := by
  intro m
  induction m with
  | zero => intro _; simp
  | succ k ih =>
    intro h
    push_cast at h
    have hk : 2 * t * (k : ℚ) ≤ 1 := by nlinarith
    have h1 := ih hk
    have hpos : 0 ≤ (1 + t) := by linarith
    calc (1 + t) ^ (k + 1) = (1 + t) ^ k * (1 + t) := pow_succ _ _
      _ ≤ (1 + 2 * t * k) * (1 + t) := mul_le_mul_of_nonneg_right h1 hpos
      _ ≤ 1 + 2 * t * ((k + 1 : ℕ) : ℚ) := by push_cast; nlinarith [mul_nonneg ht (mul_nonneg ht (Nat.cast_nonneg k))]

theorem chunk_le_two (t : ℚ) (ht : 0 ≤ t) (m : ℕ) (h : 2 * t * m ≤ 1) : (1 + t) ^ m ≤ 2 := by
  have := one_add_pow_le t ht m h
  linarith

/-- natural-number statement used by the policy theorem -/
theorem gov_pow_bound (p g E : ℕ) (hp : 0 < p) (hg : g ≤ p) (hprod : g * E ≤ 50 * p) :
    (p + g) ^ E ≤ 2 ^ 201 * p ^ E := by
  have hpq : (0 : ℚ) < p := by exact_mod_cast hp
  set t : ℚ := (g : ℚ) / p with ht_def
  have ht0 : 0 ≤ t := by positivity
  have ht1 : t ≤ 1 := by
    rw [ht_def, div_le_one hpq]; exact_mod_cast hg
  have htE : t * E ≤ 50 := by
    rw [ht_def, div_mul_eq_mul_div, div_le_iff₀ hpq]; exact_mod_cast hprod
  have h1t : (1 : ℚ) ≤ 1 + t := by linarith
  -- the rational core
  have core : (1 + t) ^ E ≤ 2 ^ 201 := by
    by_cases hbig : p < 2 * g
    · -- t > 1/2 : (1+t) ≤ 2 and E ≤ 2tE ≤ 100
      have h2 : (1 + t) ≤ 2 := by linarith
      have hE : E ≤ 100 := by
        have : (p : ℚ) < 2 * g := by exact_mod_cast hbig
        have hthalf : (1 : ℚ) / 2 < t := by
          rw [ht_def, lt_div_iff₀ hpq]; linarith
        have : (E : ℚ) ≤ 100 := by
          by_contra hc
          push Not at hc
          nlinarith
        exact_mod_cast this
      calc (1 + t) ^ E ≤ 2 ^ E := pow_le_pow_left₀ (by linarith) h2 E
        _ ≤ 2 ^ 100 := pow_le_pow_right₀ (by norm_num) hE
        _ ≤ 2 ^ 201 := pow_le_pow_right₀ (by norm_num) (by norm_num)
    · push Not at hbig
      by_cases hg0 : g = 0
      · have : t = 0 := by rw [ht_def, hg0]; simp
        rw [this]; simp
        exact one_le_pow₀ (by norm_num)
      · have hgpos : 0 < g := Nat.pos_of_ne_zero hg0
        -- chunk size m = p / (2g) ≥ 1
        set m : ℕ := p / (2 * g) with hm_def
        have hm1 : 1 ≤ m := by
          rw [hm_def, Nat.le_div_iff_mul_le (by omega)]; omega
        have hm_le : 2 * g * m ≤ p := by
          rw [hm_def, Nat.mul_comm]; exact Nat.div_mul_le_self p (2 * g)
        have hm_gt : p < 2 * g * (m + 1) := by
          rw [hm_def]; exact Nat.lt_mul_div_succ p (by omega)
        have h2tm : 2 * t * m ≤ 1 := by
          rw [ht_def]
          have : (2 * (g : ℚ) * m) ≤ p := by exact_mod_cast hm_le
          rw [show 2 * ((g : ℚ) / p) * m = (2 * g * m) / p by ring, div_le_one hpq]
          exact this
        have hchunk := chunk_le_two t ht0 m h2tm
        -- E = m q + r
        set q := E / m with hq_def
        set r := E % m with hr_def
        have hE : E = m * q + r := (Nat.div_add_mod E m).symm
        have hr : r ≤ m := le_of_lt (Nat.mod_lt E (by omega))
        have hq : q ≤ 200 := by
          -- q p < q 4 g m ≤ 4 g E ≤ 200 p
          by_contra hc
          push Not at hc
          have h4 : p < 4 * g * m := by nlinarith
          have hqm : q * m ≤ E := by rw [hq_def]; exact Nat.div_mul_le_self E m
          have : 201 * p ≤ q * p := Nat.mul_le_mul_right p hc
          have : q * p ≤ q * (4 * g * m) := Nat.mul_le_mul_left q (le_of_lt h4)
          nlinarith
        calc (1 + t) ^ E = ((1 + t) ^ m) ^ q * (1 + t) ^ r := by rw [hE, pow_add, pow_mul]
          _ ≤ 2 ^ q * (1 + t) ^ m := by
              apply mul_le_mul (pow_le_pow_left₀ (by positivity) hchunk q) (pow_le_pow_right₀ h1t hr) (by positivity) (by positivity)
          _ ≤ 2 ^ q * 2 := by apply mul_le_mul_of_nonneg_left hchunk (by positivity)
          _ = 2 ^ (q + 1) := by rw [pow_succ]
          _ ≤ 2 ^ 201 := pow_le_pow_right₀ (by norm_num) (by omega)
  -- back to naturals
  have hcast : ((p + g : ℕ) : ℚ) = p * (1 + t) := by
    rw [ht_def]; push_cast; field_simp
  have : (((p + g) ^ E : ℕ) : ℚ) ≤ ((2 ^ 201 * p ^ E : ℕ) : ℚ) := by
    push_cast
    rw [show ((p : ℚ) + g) = p * (1 + t) by rw [← hcast]; push_cast; ring, mul_pow]
    have hpE : (0 : ℚ) ≤ (p : ℚ) ^ E := by positivity
    nlinarith
  exact_mod_cast this

end Sif.Proofs.C10
