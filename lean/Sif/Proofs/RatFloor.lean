import Sif.Num.Basic
import Mathlib.Algebra.Order.Floor.Ring
import Mathlib.Data.Rat.Floor
import Mathlib.Tactic.Linarith
/- `RatIntQuo` on non-negative rationals is the floor. -/
namespace Sif

theorem ratIntQuo_eq_floor {q : Rat} (h : 0 ≤ q) : ratIntQuo q = ⌊q⌋ := by
  unfold ratIntQuo
  rw [Rat.floor_def']
  exact Int.tdiv_eq_ediv_of_nonneg (Rat.num_nonneg.mpr h)

theorem ratIntQuo_le {q : Rat} (h : 0 ≤ q) : (ratIntQuo q : Rat) ≤ q := by
  rw [ratIntQuo_eq_floor h]; exact Int.floor_le q

theorem lt_ratIntQuo_add_one {q : Rat} (h : 0 ≤ q) : q < (ratIntQuo q : Rat) + 1 := by
  rw [ratIntQuo_eq_floor h]; exact Int.lt_floor_add_one q

theorem ratIntQuo_nonneg {q : Rat} (h : 0 ≤ q) : 0 ≤ ratIntQuo q := by
  rw [ratIntQuo_eq_floor h]; exact Int.floor_nonneg.mpr h

theorem Uint.ofInt_ok {i : Int} {n : Nat} (h : Uint.ofInt i = .ok n) : (n : Int) = i ∧ n < two256 := by
  unfold Uint.ofInt at h
  split at h
  · cases h
  · unfold Uint.chk at h
    split at h
    · cases h; constructor
      · omega
      · assumption
    · cases h

theorem Uint.sub_ok {a b n : Nat} (h : Uint.sub a b = .ok n) : n = a - b ∧ b ≤ a := by
  unfold Uint.sub at h
  split at h
  · cases h; exact ⟨rfl, by assumption⟩
  · cases h

theorem Uint.add_ok {a b n : Nat} (h : Uint.add a b = .ok n) : n = a + b ∧ a + b < two256 := by
  unfold Uint.add Uint.chk at h
  split at h
  · cases h; exact ⟨rfl, by assumption⟩
  · cases h

theorem decToRat_nonneg {d : Dec} (h : 0 ≤ d.i) : 0 ≤ decToRat d := by
  unfold decToRat
  rw [Rat.mkRat_eq_div]
  apply div_nonneg
  · exact_mod_cast h
  · positivity

theorem decToRat_le_one {d : Dec} (h : d.i ≤ Dec.P) : decToRat d ≤ 1 := by
  unfold decToRat
  rw [Rat.mkRat_eq_div]
  have hp : (0 : Rat) < ((Dec.P : Nat) : Rat) := by
    have : 0 < Dec.P := by unfold Dec.P; positivity
    exact_mod_cast this
  rw [div_le_one hp]
  exact_mod_cast h

end Sif
