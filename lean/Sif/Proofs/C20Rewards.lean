import Sif.Spec.C20
/- helper lemmas for C20 (b): the reward part of the clp EndBlocker -/
namespace Sif.Rewards
open Sif Sif.Spec.C20

theorem collect_le (rem : Nat) (raws : List Nat) : collect rem raws ≤ rem := by
  induction raws generalizing rem with
  | nil => simp [collect]
  | cons r rest ih =>
    simp only [collect]
    split
    · omega
    · split
      · exact ih rem
      · have := ih (rem - min r rem); omega

theorem distribute_le (bd : Nat) (e : Env) : distribute bd e ≤ bd := by
  unfold distribute
  split
  · omega
  · have := collect_le bd e.raws; omega

theorem normMod_fields (q : Period) :
    (normMod q).start = q.start ∧ (normMod q).stop = q.stop ∧ (normMod q).alloc = q.alloc ∧
    1 ≤ (normMod q).mod ∧ ((normMod q).mod = q.mod ∨ (normMod q).mod = 1) := by
  unfold normMod
  split
  · simp
  · refine ⟨rfl, rfl, rfl, ?_, Or.inl rfl⟩; omega

theorem currentPeriod_some {periods : List Period} {h : Nat} {p : Period}
    (hc : currentPeriod periods h = some p) : ∃ q ∈ periods, inRange q h = true ∧ p = normMod q := by
  unfold currentPeriod at hc
  cases hf : periods.find? (fun p => inRange p h) with
  | none => simp [hf] at hc
  | some q =>
    simp [hf] at hc
    exact ⟨q, List.mem_of_find?_eq_some hf, List.find?_some (p := fun p => inRange p h) hf, hc.symm⟩

/-- a normalised period of the envelope that contains the height -/
structure CurOK (p : Period) (h : Nat) : Prop where
  lo : p.start ≤ h
  hi : h ≤ p.stop
  s62 : p.stop < 2 ^ 62
  m1 : 1 ≤ p.mod
  m62 : p.mod < 2 ^ 62
  a200 : p.alloc < 2 ^ 200

theorem curOK_of_current {periods : List Period} {h : Nat} {p : Period} (henv : inEnvelope periods = true)
    (hc : currentPeriod periods h = some p) : CurOK p h := by
  obtain ⟨q, hq, hr, rfl⟩ := currentPeriod_some hc
  obtain ⟨e1, e2, e3, e4, e5⟩ := normMod_fields q
  have hok : periodOK q = true := by
    unfold inEnvelope at henv
    exact List.all_eq_true.mp henv q hq
  simp only [periodOK, Bool.and_eq_true, decide_eq_true_eq] at hok
  simp only [inRange, Bool.and_eq_true, decide_eq_true_eq] at hr
  refine ⟨by omega, by omega, by omega, e4, ?_, by omega⟩
  rcases e5 with e | e <;> omega

theorem toI64_small {n : Nat} (h : n < 2 ^ 62) : toI64 n = (n : Int) := by
  unfold toI64 u64
  have : n % 2 ^ 64 = n := Nat.mod_eq_of_lt (by omega)
  rw [this]
  split
  · rfl
  · omega

theorem isDistBlock_compute {h start mod : Nat} (hs : start ≤ h) (hs62 : start < 2 ^ 62) (hm1 : 1 ≤ mod) (hm : mod < 2 ^ 62) :
    isDistBlock h start mod = .ok (decide ((h - start) % mod = 0)) := by
  unfold isDistBlock
  rw [toI64_small hm, toI64_small hs62]
  have h0 : ¬ ((mod : Int) = 0) := by omega
  rw [if_neg h0]
  have e : (h : Int) - (start : Int) = ((h - start : Nat) : Int) := by omega
  rw [e, ← Int.ofNat_tmod]
  congr 1
  by_cases hz : (h - start) % mod = 0
  · simp [hz]
  · simp [hz]; omega

theorem len_compute {p : Period} (h1 : p.start ≤ p.stop) (h2 : p.stop < 2 ^ 62) : p.len = p.stop - p.start + 1 := by
  unfold Period.len u64
  have e1 : p.stop % 2 ^ 64 = p.stop := Nat.mod_eq_of_lt (by omega)
  have e2 : p.start % 2 ^ 64 = p.start := Nat.mod_eq_of_lt (by omega)
  rw [e1, e2]
  omega

theorem share_le_alloc (p : Period) : share p ≤ p.alloc := Nat.div_le_self _ _

theorem calc_compute {p : Period} {h : Nat} (hok : CurOK p h) : calcBlockDistribution p = .ok (share p) := by
  have hlen := len_compute (p := p) (by have := hok.lo; have := hok.hi; omega) hok.s62
  unfold calcBlockDistribution Uint.quo share
  rw [hlen]
  have : ¬ (p.stop - p.start + 1 = 0) := by omega
  rw [if_neg this]

theorem add_compute {p : Period} {h accu : Nat} (fix : Bool) (hok : CurOK p h) (hacc : accu < 2 ^ 255) :
    Uint.add (accuIn fix p h accu) (share p) = .ok (accuIn fix p h accu + share p) := by
  have hai : accuIn fix p h accu ≤ accu := by unfold accuIn; split <;> omega
  unfold Uint.add Uint.chk two256
  have := share_le_alloc p
  have := hok.a200
  have : accuIn fix p h accu + share p < 2 ^ 256 := by omega
  rw [if_pos this]

theorem dist_compute {p : Period} {h : Nat} (hok : CurOK p h) :
    isDistBlock h p.start p.mod = .ok (decide ((h - p.start) % p.mod = 0)) :=
  isDistBlock_compute hok.lo (by have := hok.lo; have := hok.hi; have := hok.s62; omega) hok.m1 hok.m62

theorem endBlockActive_compute (fix : Bool) {h accu : Nat} (e : Env) {p : Period}
    (hok : CurOK p h) (hacc : accu < 2 ^ 255) :
    endBlockActive fix p h accu e =
      .ok (finish (decide ((h - p.start) % p.mod = 0)) (accuIn fix p h accu + share p) e) := by
  unfold endBlockActive
  rw [dist_compute hok, calc_compute hok]
  simp only
  rw [add_compute fix hok hacc]


/-- the reward part of the EndBlocker, computed, inside the envelope (no panic) -/
theorem endBlock_compute (fix : Bool) {periods : List Period} {h accu : Nat} (e : Env) {p : Period}
    (hc : currentPeriod periods h = some p) (hok : CurOK p h) (ha : p.alloc ≠ 0) (hacc : accu < 2 ^ 255) :
    endBlock fix periods h accu e =
      .ok (finish (decide ((h - p.start) % p.mod = 0)) (accuIn fix p h accu + share p) e) := by
  unfold endBlock
  rw [hc]
  simp only
  rw [if_neg ha]
  exact endBlockActive_compute fix e hok hacc

theorem endBlock_idle_none (fix : Bool) {periods : List Period} {h accu : Nat} (e : Env)
    (hc : currentPeriod periods h = none) : endBlock fix periods h accu e = .ok (accu, 0) := by
  unfold endBlock; rw [hc]

theorem endBlock_idle_zero (fix : Bool) {periods : List Period} {h accu : Nat} (e : Env) {p : Period}
    (hc : currentPeriod periods h = some p) (ha : p.alloc = 0) : endBlock fix periods h accu e = .ok (accu, 0) := by
  unfold endBlock; rw [hc]; simp [ha]

end Sif.Rewards
