import Sif.Spec.C20
/- helper lemmas for C20 (b): the reward part of the clp EndBlocker -/
namespace Sif.Rewards
open Sif Sif.Spec.C20

theorem collect_le (rem : Nat) (raws : List Nat) : collect rem raws ≤ rem := by
  induction raws generalizing rem with
  | nil => simp [collect]
  | cons r rest ih =>
    simp only [collect]
    split
    · omega
    · split
      · exact ih rem
      · have := ih (rem - min r rem); omega

theorem distribute_le (bd : Nat) (e : Env) : distribute bd e ≤ bd := by
  unfold distribute
  split
  · omega
  · have := collect_le bd e.raws; omega

theorem normMod_fields (q : Period) :
    (normMod q).start = q.start ∧ (normMod q).stop = q.stop ∧ (normMod q).alloc = q.alloc ∧
    1 ≤ (normMod q).mod ∧ ((normMod q).mod = q.mod ∨ (normMod q).mod = 1) := by
  unfold normMod
  split
  · simp
  · refine ⟨rfl, rfl, rfl, ?_, Or.inl rfl⟩; omega

theorem currentPeriod_some {periods : List Period} {h : Nat} {p : Period}
    (hc : currentPeriod periods h = some p) : ∃ q ∈ periods, inRange q h = true ∧ p = normMod q := by
  unfold currentPeriod at hc
  cases hf : periods.find? (fun p => inRange p h) with
  | none => simp [hf] at hc
  | some q =>
    simp [hf] at hc
    exact ⟨q, List.mem_of_find?_eq_some hf, List.find?_some (p := fun p => inRange p h) hf, hc.symm⟩

/-- a normalised period of the envelope that contains the height -/
structure CurOK (p : Period) (h : Nat) : Prop where
  lo : p.start ≤ h
  hi : h ≤ p.stop
  s62 : p.stop < 2 ^ 62
  m1 : 1 ≤ p.mod
  m62 : p.mod < 2 ^ 62
  a200 : p.alloc < 2 ^ 128

theorem curOK_of_current {periods : List Period} {h : Nat} {p : Period} (henv : inEnvelope periods = true)
    (hc : currentPeriod periods h = some p) : CurOK p h := by
  obtain ⟨q, hq, hr, rfl⟩ := currentPeriod_some hc
  obtain ⟨e1, e2, e3, e4, e5⟩ := normMod_fields q
  have hok : periodOK q = true := by
    unfold inEnvelope at henv
    exact List.all_eq_true.mp henv q hq
  simp only [periodOK, Bool.and_eq_true, decide_eq_true_eq] at hok
  simp only [inRange, Bool.and_eq_true, decide_eq_true_eq] at hr
  refine ⟨by omega, by omega, by omega, e4, ?_, by omega⟩
  rcases e5 with e | e <;> omega

theorem toI64_small {n : Nat} (h : n < 2 ^ 62) : toI64 n = (n : Int) := by
  unfold toI64 u64
  have : n % 2 ^ 64 = n := Nat.mod_eq_of_lt (by omega)
  rw [this]
  split
  · rfl
  · omega

theorem isDistBlock_compute {h start mod : Nat} (hs : start ≤ h) (hs62 : start < 2 ^ 62) (hm1 : 1 ≤ mod) (hm : mod < 2 ^ 62) :
    isDistBlock h start mod = .ok (decide ((h - start) % mod = 0)) := by
  unfold isDistBlock
  rw [toI64_small hm, toI64_small hs62]
  have h0 : ¬ ((mod : Int) = 0) := by omega
  rw [if_neg h0]
  have e : (h : Int) - (start : Int) = ((h - start : Nat) : Int) := by omega
  rw [e, ← Int.ofNat_tmod]
  congr 1
  by_cases hz : (h - start) % mod = 0
  · simp [hz]
  · simp [hz]; omega

theorem len_compute {p : Period} (h1 : p.start ≤ p.stop) (h2 : p.stop < 2 ^ 62) : p.len = p.stop - p.start + 1 := by
  unfold Period.len u64
  have e1 : p.stop % 2 ^ 64 = p.stop := Nat.mod_eq_of_lt (by omega)
  have e2 : p.start % 2 ^ 64 = p.start := Nat.mod_eq_of_lt (by omega)
  rw [e1, e2]
  omega

/-- the uint64 length without wrap: any accepted period (start ≤ end ≤ 2^64−1, not [0, 2^64−1]) -/
theorem len_nowrap {p : Period} (h1 : p.start ≤ p.stop) (h2 : p.stop < 2 ^ 64) (h3 : p.stop - p.start + 1 < 2 ^ 64) :
    p.len = p.stop - p.start + 1 := by
  unfold Period.len u64
  have e1 : p.stop % 2 ^ 64 = p.stop := Nat.mod_eq_of_lt h2
  have e2 : p.start % 2 ^ 64 = p.start := Nat.mod_eq_of_lt (by omega)
  rw [e1, e2]
  omega

theorem share_le_alloc (p : Period) : share p ≤ p.alloc := Nat.div_le_self _ _

theorem calc_compute {p : Period} {h : Nat} (hok : CurOK p h) : calcBlockDistribution p = .ok (share p) := by
  have hlen := len_compute (p := p) (by have := hok.lo; have := hok.hi; omega) hok.s62
  unfold calcBlockDistribution Uint.quo share
  rw [hlen]
  have : ¬ (p.stop - p.start + 1 = 0) := by omega
  rw [if_neg this]

theorem add_compute {p : Period} {h accu : Nat} (fix : Bool) (hok : CurOK p h) (hacc : accu < 2 ^ 255) :
    Uint.add (accuIn fix p h accu) (share p) = .ok (accuIn fix p h accu + share p) := by
  have hai : accuIn fix p h accu ≤ accu := by unfold accuIn; split <;> omega
  unfold Uint.add Uint.chk two256
  have := share_le_alloc p
  have := hok.a200
  have : accuIn fix p h accu + share p < 2 ^ 256 := by omega
  rw [if_pos this]

theorem dist_compute {p : Period} {h : Nat} (hok : CurOK p h) :
    isDistBlock h p.start p.mod = .ok (decide ((h - p.start) % p.mod = 0)) :=
  isDistBlock_compute hok.lo (by have := hok.lo; have := hok.hi; have := hok.s62; omega) hok.m1 hok.m62

theorem endBlockActive_compute (fix : Bool) {h accu : Nat} (e : Env) {p : Period}
    (hok : CurOK p h) (hacc : accu < 2 ^ 255) :
    endBlockActive fix p h accu e =
      .ok (finish (decide ((h - p.start) % p.mod = 0)) (accuIn fix p h accu + share p) e) := by
  unfold endBlockActive
  rw [dist_compute hok, calc_compute hok]
  simp only
  rw [add_compute fix hok hacc]


/-- the reward part of the EndBlocker, computed, inside the envelope (no panic) -/
theorem endBlock_compute (fix : Bool) {periods : List Period} {h accu : Nat} (e : Env) {p : Period}
    (hc : currentPeriod periods h = some p) (hok : CurOK p h) (ha : p.alloc ≠ 0) (hacc : accu < 2 ^ 255) :
    endBlock fix periods h accu e =
      .ok (finish (decide ((h - p.start) % p.mod = 0)) (accuIn fix p h accu + share p) e) := by
  unfold endBlock
  rw [hc]
  simp only
  rw [if_neg ha]
  exact endBlockActive_compute fix e hok hacc

theorem endBlock_idle_none (fix : Bool) {periods : List Period} {h accu : Nat} (e : Env)
    (hc : currentPeriod periods h = none) : endBlock fix periods h accu e = .ok (accu, 0) := by
  unfold endBlock; rw [hc]

theorem endBlock_idle_zero (fix : Bool) {periods : List Period} {h accu : Nat} (e : Env) {p : Period}
    (hc : currentPeriod periods h = some p) (ha : p.alloc = 0) : endBlock fix periods h accu e = .ok (accu, 0) := by
  unfold endBlock; rw [hc]; simp [ha]

/-- whenever the EndBlocker does not panic inside a period, its result has the computed form -/
theorem endBlock_ok_form (fix : Bool) {periods : List Period} {h accu : Nat} (e : Env) {p : Period}
    (hc : currentPeriod periods h = some p) (hok : CurOK p h) (ha : p.alloc ≠ 0) {r : Nat × Nat}
    (hr : endBlock fix periods h accu e = .ok r) :
    r = finish (decide ((h - p.start) % p.mod = 0)) (accuIn fix p h accu + share p) e := by
  unfold endBlock at hr
  rw [hc] at hr
  simp only at hr
  rw [if_neg ha] at hr
  unfold endBlockActive at hr
  rw [dist_compute hok, calc_compute hok] at hr
  simp only at hr
  unfold Uint.add Uint.chk at hr
  by_cases hlt : accuIn fix p h accu + share p < two256
  · rw [if_pos hlt] at hr; cases hr; rfl
  · rw [if_neg hlt] at hr; cases hr

/-! ### arithmetic of `mod` -/

theorem mod_pred {x m : Nat} (hm : 0 < m) (hx : 1 ≤ x) (hr : x % m ≠ 0) : (x - 1) % m + 1 = x % m := by
  have hd := Nat.div_add_mod x m
  have hlt := Nat.mod_lt x hm
  have e : x - 1 = m * (x / m) + (x % m - 1) := by omega
  rw [e, Nat.mul_add_mod, Nat.mod_eq_of_lt (by omega)]
  omega

/-! ### the current period under disjointness -/

theorem inRange_iff (p : Period) (h : Nat) : inRange p h = true ↔ p.start ≤ h ∧ h ≤ p.stop := by
  simp [inRange]

theorem find_unique {periods : List Period} (hd : periodsDisjoint periods) {q : Period} (hq : q ∈ periods)
    {h : Nat} (hr : inRange q h = true) : periods.find? (fun p => inRange p h) = some q := by
  induction periods with
  | nil => cases hq
  | cons a rest ih =>
    obtain ⟨h1, h2⟩ := List.pairwise_cons.mp hd
    simp only [List.find?]
    cases ha : inRange a h with
    | true =>
      simp only
      simp at hq
      rcases hq with rfl | hq
      · rfl
      · exfalso
        have := h1 q hq
        rw [inRange_iff] at ha hr
        unfold disjoint at this
        omega
    | false =>
      simp only
      simp at hq
      rcases hq with rfl | hq
      · rw [hr] at ha; cases ha
      · exact ih h2 hq

theorem current_of_mem {periods : List Period} (hd : periodsDisjoint periods) {q : Period} (hq : q ∈ periods)
    {h : Nat} (hr : inRange q h = true) : currentPeriod periods h = some (normMod q) := by
  unfold currentPeriod; rw [find_unique hd hq hr]; rfl

/-- inside a period past its first block, the previous block had the same current period -/
theorem current_pred {periods : List Period} (hd : periodsDisjoint periods) {h : Nat} {q : Period}
    (hc : currentPeriod periods (h + 1) = some q) (hne : h + 1 ≠ q.start) : currentPeriod periods h = some q := by
  obtain ⟨q0, hq0, hr, rfl⟩ := currentPeriod_some hc
  obtain ⟨e1, _⟩ := normMod_fields q0
  rw [e1] at hne
  apply current_of_mem hd hq0
  rw [inRange_iff] at hr ⊢
  omega

/-! ### one block -/

/-- per-block clause and preservation of the accumulator invariant (repaired tree, `fix = true`) -/
theorem endBlock_block {periods : List Period} (henv : inEnvelope periods = true) (hd : periodsDisjoint periods)
    {h accu accu' m : Nat} (e : Env) (hinv : accuInv periods h accu)
    (hr : endBlock true periods h accu e = .ok (accu', m)) :
    rewardsBlockOK (currentPeriod periods h) h m = true ∧ accuInv periods (h + 1) accu' := by
  cases hc : currentPeriod periods h with
  | none =>
    rw [endBlock_idle_none true e hc] at hr
    cases hr
    refine ⟨by simp [rewardsBlockOK], ?_⟩
    intro q hq _ hne
    rw [current_pred hd hq hne] at hc; cases hc
  | some p =>
    by_cases ha : p.alloc = 0
    · rw [endBlock_idle_zero true e hc ha] at hr
      cases hr
      refine ⟨by simp [rewardsBlockOK, ha], ?_⟩
      intro q hq hqa hne
      rw [current_pred hd hq hne] at hc; cases hc
      exact absurd ha hqa
    · have hok := curOK_of_current henv hc
      have hf := endBlock_ok_form true e hc hok ha hr
      have hm1 := hok.m1
      have hlo := hok.lo
      simp only [rewardsBlockOK, ha, if_false, decide_eq_true_eq]
      by_cases hstart : h = p.start
      · -- first block of the period: the carried accumulator is dropped
        have hai : accuIn true p h accu = 0 := by simp [accuIn, hstart]
        have hz : (h - p.start) % p.mod = 0 := by rw [hstart]; simp
        rw [hai, hz] at hf
        simp only [decide_true, finish, Nat.zero_add] at hf
        cases hf
        refine ⟨?_, ?_⟩
        · have key : blockBound p h = share p := by
            unfold blockBound; rw [if_neg (by simp [hz]), if_pos hstart]
          rw [key]
          exact distribute_le _ _
        · intro q hq hqa hne
          exact Nat.zero_le _
      · have hai : accuIn true p h accu = accu := by
          simp only [accuIn, Bool.true_and, beq_iff_eq, hstart, if_false]
        have hacc := hinv p hc ha hstart
        have hgt : 1 ≤ h - p.start := by omega
        rw [hai] at hf
        by_cases hz : (h - p.start) % p.mod = 0
        · rw [hz] at hf
          simp only [decide_true, finish] at hf
          cases hf
          refine ⟨?_, fun q hq hqa hne => Nat.zero_le _⟩
          unfold blockBound
          simp only [hz, ne_eq, not_true_eq_false, if_false, hstart]
          have h1 := distribute_le (accu + share p) e
          have h2 : (h - p.start - 1) % p.mod + 1 ≤ p.mod := Nat.mod_lt _ (by omega)
          have h3 : share p * ((h - p.start - 1) % p.mod) + share p ≤ share p * p.mod := by
            have := Nat.mul_le_mul_left (share p) h2
            rw [Nat.mul_add, Nat.mul_one] at this
            exact this
          omega
        · simp only [hz, decide_false, finish] at hf
          cases hf
          refine ⟨by unfold blockBound; simp [hz], ?_⟩
          intro q hq hqa hne
          have hcq := current_pred hd hq hne
          rw [hc] at hcq; cases hcq
          have e1 : h + 1 - p.start - 1 = h - p.start := by omega
          rw [e1]
          have := mod_pred (by omega : 0 < p.mod) hgt hz
          have h3 : share p * ((h - p.start - 1) % p.mod) + share p = share p * ((h - p.start) % p.mod) := by
            rw [← this, Nat.mul_add, Nat.mul_one]
          omega

/-! ### histories -/

theorem run_cons {fix : Bool} {periods : List Period} {h accu : Nat} {e : Env} {es : List Env} {a : Nat} {ms : List Nat}
    (hr : run fix periods h accu (e :: es) = .ok (a, ms)) :
    ∃ accu' m ms', endBlock fix periods h accu e = .ok (accu', m) ∧
      run fix periods (h + 1) accu' es = .ok (a, ms') ∧ ms = m :: ms' := by
  simp only [run] at hr
  cases h1 : endBlock fix periods h accu e with
  | error x => rw [h1] at hr; cases hr
  | ok r =>
    obtain ⟨accu', m⟩ := r
    rw [h1] at hr
    simp only at hr
    cases h2 : run fix periods (h + 1) accu' es with
    | error x => rw [h2] at hr; cases hr
    | ok r2 =>
      obtain ⟨a2, ms'⟩ := r2
      rw [h2] at hr
      simp only at hr
      cases hr
      exact ⟨accu', m, ms', rfl, h2, rfl⟩

/-- what period `p` may still create from height `h` on, given the accumulator at the beginning of
    block `h` (the accumulator only counts inside the period after its first block) -/
def budget (p : Period) (h accu : Nat) : Nat :=
  if h ≤ p.start then share p * (p.stop - p.start + 1)
  else if h ≤ p.stop then share p * (p.stop + 1 - h) + accu
  else 0

theorem run_budget {periods : List Period} (henv : inEnvelope periods = true) (hd : periodsDisjoint periods)
    {p : Period} (hp : p ∈ periods) (ha : p.alloc ≠ 0) :
    ∀ (es : List Env) (h accu a : Nat) (ms : List Nat), run true periods h accu es = .ok (a, ms) →
      sumIn p h ms ≤ budget p h accu := by
  have hpok : periodOK p = true := List.all_eq_true.mp henv p hp
  simp only [periodOK, Bool.and_eq_true, decide_eq_true_eq] at hpok
  obtain ⟨e1, e2, e3, e4, e5⟩ := normMod_fields p
  have hsh : share (normMod p) = share p := by unfold share; rw [e1, e2, e3]
  intro es
  induction es with
  | nil =>
    intro h accu a ms hr
    simp only [run] at hr; cases hr
    simp [sumIn]
  | cons e es ih =>
    intro h accu a ms hr
    obtain ⟨accu', m, ms', h1, h2, rfl⟩ := run_cons hr
    have hih := ih (h + 1) accu' a ms' h2
    simp only [sumIn]
    by_cases hin : inRange p h = true
    · -- inside the period: its (normalised) self is the current period
      have hc := current_of_mem hd hp hin
      have hok := curOK_of_current henv hc
      have ha' : (normMod p).alloc ≠ 0 := by rw [e3]; exact ha
      have hf := endBlock_ok_form true e hc hok ha' h1
      simp only [hin, if_true]
      rw [inRange_iff] at hin
      rw [hsh, e1] at hf
      by_cases hstart : h = p.start
      · have hai : accuIn true (normMod p) h accu = 0 := by simp [accuIn, hstart, e1]
        have hz : (h - p.start) % (normMod p).mod = 0 := by rw [hstart]; simp
        rw [hai, hz] at hf
        simp only [decide_true, finish, Nat.zero_add] at hf
        cases hf
        have hm := distribute_le (share p) e
        unfold budget at hih ⊢
        rw [if_pos (by omega)]
        rw [if_neg (by omega)] at hih
        have hmul : share p * (p.stop - p.start + 1) = share p * (p.stop - p.start) + share p := Nat.mul_succ _ _
        split at hih
        · have e' : p.stop + 1 - (h + 1) = p.stop - p.start := by omega
          rw [e'] at hih
          omega
        · omega
      · have hai : accuIn true (normMod p) h accu = accu := by
          simp only [accuIn, Bool.true_and, beq_iff_eq, e1, hstart, if_false]
        rw [hai] at hf
        unfold budget at hih ⊢
        rw [if_neg (by omega), if_pos (by omega)]
        rw [if_neg (by omega)] at hih
        have hmul : share p * (p.stop + 1 - h) = share p * (p.stop - h) + share p := by
          have : p.stop + 1 - h = (p.stop - h) + 1 := by omega
          rw [this]; exact Nat.mul_succ _ _
        by_cases hz : (h - p.start) % (normMod p).mod = 0
        · rw [hz] at hf
          simp only [decide_true, finish] at hf
          cases hf
          have hm := distribute_le (accu + share p) e
          split at hih
          · have e' : p.stop + 1 - (h + 1) = p.stop - h := by omega
            rw [e'] at hih
            omega
          · omega
        · simp only [hz, decide_false, finish] at hf
          cases hf
          split at hih
          · have e' : p.stop + 1 - (h + 1) = p.stop - h := by omega
            rw [e'] at hih
            omega
          · omega
    · have hin' : inRange p h = false := by simpa using hin
      simp only [hin', Bool.false_eq_true, if_false, Nat.zero_add]
      rw [Bool.eq_false_iff, ne_eq, inRange_iff] at hin'
      unfold budget at hih ⊢
      by_cases hlt : h < p.start
      · rw [if_pos (by omega)]
        rw [if_pos (by omega)] at hih
        exact hih
      · have hgt : p.stop < h := by omega
        rw [if_neg (by omega), if_neg (by omega)]
        rw [if_neg (by omega), if_neg (by omega)] at hih
        exact hih

/-- cumulative bound (pinned and repaired tree alike) -/
theorem run_cumulative (fix : Bool) {periods : List Period} (henv : inEnvelope periods = true) :
    ∀ (es : List Env) (h accu a : Nat) (ms : List Nat), run fix periods h accu es = .ok (a, ms) →
      ms.sum + a ≤ accu + entitled periods h es.length := by
  intro es
  induction es with
  | nil =>
    intro h accu a ms hr
    simp only [run] at hr; cases hr
    simp [entitled]
  | cons e es ih =>
    intro h accu a ms hr
    obtain ⟨accu', m, ms', h1, h2, rfl⟩ := run_cons hr
    have hih := ih (h + 1) accu' a ms' h2
    simp only [List.sum_cons, List.length_cons, entitled]
    have key : m + accu' ≤ accu + entitledAt periods h := by
      unfold entitledAt
      cases hc : currentPeriod periods h with
      | none => rw [endBlock_idle_none fix e hc] at h1; cases h1; simp
      | some p =>
        simp only
        by_cases ha : p.alloc = 0
        · rw [endBlock_idle_zero fix e hc ha] at h1; cases h1; simp [ha]
        · have hok := curOK_of_current henv hc
          have hf := endBlock_ok_form fix e hc hok ha h1
          rw [if_neg ha]
          have hai : accuIn fix p h accu ≤ accu := by unfold accuIn; split <;> omega
          unfold finish at hf
          split at hf
          · cases hf
            have := distribute_le (accuIn fix p h accu + share p) e
            omega
          · cases hf; omega
    omega

theorem run_length {fix : Bool} {periods : List Period} :
    ∀ (es : List Env) (h accu a : Nat) (ms : List Nat), run fix periods h accu es = .ok (a, ms) → ms.length = es.length := by
  intro es
  induction es with
  | nil => intro h accu a ms hr; simp only [run] at hr; cases hr; rfl
  | cons e es ih =>
    intro h accu a ms hr
    obtain ⟨accu', m, ms', _, h2, rfl⟩ := run_cons hr
    simp [ih _ _ _ _ h2]

end Sif.Rewards
