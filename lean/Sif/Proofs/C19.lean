import Sif.Spec.C19
import Sif.Proofs.Except
import Mathlib.Tactic.Linarith
import Mathlib.Tactic.Ring
/- helper lemmas for the C19 theorems -/
namespace Sif.Ante
open Sif Sif.AnteTypes Sif.Spec.C19

/-! ### the min-fee fold -/

/-- a branch of the chain never lowers the running minimum and reaches its own amount -/
def branchSound (b : Branch) : Bool :=
  match b.update, b.guardLE, b.amount with
  | .max, none, .const _ => true
  | .max, none, .proposalFee => true
  | .max, some g, .const n => decide (n ≤ g)
  | .overwrite, some g, .const n => decide (n = g)
  | _, _, _ => false

/-- the first branch whose substrings match (the `else if` priority), whatever the running fee -/
def firstMatch (brs : List Branch) (u : List Char) : Option Branch :=
  brs.find? (fun b => containsAny b.subs u)

/-- the floor the code's table prescribes for one (lower-cased) type URL -/
def codeFloor (brs : List Branch) (p : Int) (u : List Char) : Int :=
  match firstMatch brs u with
  | some b => amountVal p b.amount
  | none => 0

theorem apply_ge_min {p mf : Int} {u : List Char} {b : Branch} (hs : branchSound b = true)
    (hm : branchMatches mf u b = true) : mf ≤ applyBranch p mf b := by
  obtain ⟨subs, g, a, up⟩ := b
  simp only [branchMatches, Bool.and_eq_true] at hm
  obtain ⟨_, hg⟩ := hm
  cases up <;> cases g <;> cases a <;> simp [branchSound] at hs <;>
    simp [applyBranch, amountVal, guardOK] at hg ⊢ <;> omega

theorem apply_ge_amount {p mf : Int} {b : Branch} (hs : branchSound b = true) :
    amountVal p b.amount ≤ applyBranch p mf b := by
  obtain ⟨subs, g, a, up⟩ := b
  cases up <;> cases g <;> cases a <;> simp [branchSound] at hs <;>
    simp [applyBranch, amountVal] <;> omega

/-- if the guard of a sound branch fails, the running minimum is already above its amount -/
theorem guard_fail_amount_lt {p mf : Int} {b : Branch} (hs : branchSound b = true)
    (hg : guardOK mf b.guardLE = false) : amountVal p b.amount ≤ mf := by
  obtain ⟨subs, g, a, up⟩ := b
  cases up <;> cases g <;> cases a <;> simp [branchSound] at hs <;>
    simp [amountVal, guardOK] at hg ⊢ <;> omega

theorem step_mono (p : Int) (u : List Char) : ∀ (brs : List Branch) (mf : Int),
    (∀ b ∈ brs, branchSound b = true) → mf ≤ stepFee p brs mf u
  | [], mf, _ => by simp [stepFee]
  | b :: rest, mf, hs => by
    unfold stepFee
    by_cases hm : branchMatches mf u b = true
    · rw [if_pos hm]; exact apply_ge_min (hs b (by simp)) hm
    · rw [if_neg hm]; exact step_mono p u rest mf (fun b' hb' => hs b' (by simp [hb']))

theorem step_ge_floor (p : Int) (u : List Char) : ∀ (brs : List Branch) (mf : Int),
    (∀ b ∈ brs, branchSound b = true) → 0 ≤ mf → codeFloor brs p u ≤ stepFee p brs mf u
  | [], mf, _, h0 => by simpa [stepFee, codeFloor, firstMatch] using h0
  | b :: rest, mf, hs, h0 => by
    have hsb := hs b (by simp)
    have hsr : ∀ b' ∈ rest, branchSound b' = true := fun b' hb' => hs b' (by simp [hb'])
    unfold stepFee
    by_cases hc : containsAny b.subs u = true
    · have hf : codeFloor (b :: rest) p u = amountVal p b.amount := by
        simp [codeFloor, firstMatch, List.find?, hc]
      rw [hf]
      by_cases hg : guardOK mf b.guardLE = true
      · rw [if_pos (by simp [branchMatches, hc, hg])]; exact apply_ge_amount hsb
      · rw [if_neg (by simp [branchMatches, hc, hg])]
        have := guard_fail_amount_lt (p := p) hsb (by simpa using hg)
        exact le_trans this (step_mono p u rest mf hsr)
    · have hf : codeFloor (b :: rest) p u = codeFloor rest p u := by
        simp [codeFloor, firstMatch, List.find?, hc]
      rw [hf, if_neg (by simp [branchMatches, hc])]
      exact step_ge_floor p u rest mf hsr h0

theorem fold_ge_init (p : Int) (brs : List Branch) (hs : ∀ b ∈ brs, branchSound b = true) :
    ∀ (urls : List (List Char)) (init : Int), init ≤ urls.foldl (stepFee p brs) init
  | [], init => by simp
  | u :: us, init => by
    simp only [List.foldl_cons]
    exact le_trans (step_mono p u brs init hs) (fold_ge_init p brs hs us _)

theorem fold_ge_floor (p : Int) (brs : List Branch) (hs : ∀ b ∈ brs, branchSound b = true) :
    ∀ (urls : List (List Char)) (init : Int), 0 ≤ init → ∀ u ∈ urls,
      codeFloor brs p u ≤ urls.foldl (stepFee p brs) init
  | [], _, _, u, hu => by simp at hu
  | u' :: us, init, h0, u, hu => by
    simp only [List.foldl_cons]
    have h0' : 0 ≤ stepFee p brs init u' := le_trans h0 (step_mono p u' brs init hs)
    rcases List.mem_cons.mp hu with rfl | hu'
    · exact le_trans (step_ge_floor p u brs init hs h0) (fold_ge_init p brs hs us _)
    · exact fold_ge_floor p brs hs us _ h0' u hu'

theorem minFee_ge_floor {p : Int} {brs : List Branch} (hs : ∀ b ∈ brs, branchSound b = true)
    {urls : List (List Char)} {u : List Char} (hu : u ∈ urls) : codeFloor brs p u ≤ minFeeOf brs p urls :=
  fold_ge_floor p brs hs urls 0 (le_refl 0) u hu

theorem minFee_nonneg {p : Int} {brs : List Branch} (hs : ∀ b ∈ brs, branchSound b = true)
    (urls : List (List Char)) : 0 ≤ minFeeOf brs p urls :=
  fold_ge_init p brs hs urls 0

/-! ### fee coins -/

theorem rowanFee_nonneg_aux : ∀ (fees : List (String × Int)) (init : Int), 0 ≤ init →
    (∀ c ∈ fees, 0 ≤ c.2) → 0 ≤ fees.foldl (fun acc c => if c.1 = "rowan" then c.2 else acc) init
  | [], init, h, _ => by simpa using h
  | c :: cs, init, h, hc => by
    simp only [List.foldl_cons]
    apply rowanFee_nonneg_aux cs
    · split
      · exact hc c (by simp)
      · exact h
    · intro c' hc'; exact hc c' (by simp [hc'])

theorem rowanFee_nonneg {tx : Tx} (h : feesValid tx = true) : 0 ≤ rowanFee tx.fees := by
  unfold rowanFee
  apply rowanFee_nonneg_aux _ _ (le_refl 0)
  intro c hc
  have := (List.all_eq_true.mp h) c hc
  simpa using this

/-- what `feeCheck` accepts -/
theorem feeCheck_accepts {mf rf : Int} (h0 : 0 ≤ rf) (h : (feeCheck mf rf).accepted = true) : mf ≤ rf := by
  unfold feeCheck at h
  split at h
  · omega
  · split at h
    · simp [FeeRes.accepted] at h
    · split at h
      · simp [FeeRes.accepted] at h
      · omega

/-! ### the message tree -/

mutual
theorem Msg.leaves_sub_walk : ∀ (m : Msg) (l : Leaf), l ∈ m.leaves → l ∈ m.walk
  | .leaf l', l, h => by simpa [Msg.leaves, Msg.walk] using h
  | .exec inner, l, h => by
    simp only [Msg.leaves] at h
    simp only [Msg.walk, List.mem_cons]
    exact Or.inr (leavesList_sub_walkList inner l h)
theorem leavesList_sub_walkList : ∀ (ms : List Msg) (l : Leaf), l ∈ leavesList ms → l ∈ walkList ms
  | [], l, h => by simp [leavesList] at h
  | m :: ms, l, h => by
    simp only [leavesList, List.mem_append] at h
    simp only [walkList, List.mem_append]
    rcases h with h | h
    · exact Or.inl (Msg.leaves_sub_walk m l h)
    · exact Or.inr (leavesList_sub_walkList ms l h)
end

/-- folding `max` stays below any bound that dominates the start and every element -/
theorem foldl_max_le {α} (f : α → Int) (b : Int) : ∀ (xs : List α) (init : Int), init ≤ b →
    (∀ x ∈ xs, f x ≤ b) → xs.foldl (fun a x => max a (f x)) init ≤ b
  | [], init, h, _ => by simpa using h
  | x :: xs, init, h, hx => by
    simp only [List.foldl_cons]
    apply foldl_max_le f b xs
    · exact max_le h (hx x (by simp))
    · intro y hy; exact hx y (by simp [hy])

theorem le_foldl_max {α} (f : α → Int) : ∀ (xs : List α) (init : Int),
    init ≤ xs.foldl (fun a x => max a (f x)) init ∧ ∀ x ∈ xs, f x ≤ xs.foldl (fun a x => max a (f x)) init
  | [], init => by simp
  | x :: xs, init => by
    simp only [List.foldl_cons]
    obtain ⟨h1, h2⟩ := le_foldl_max f xs (max init (f x))
    refine ⟨le_trans (le_max_left _ _) h1, ?_⟩
    intro y hy
    rcases List.mem_cons.mp hy with rfl | hy'
    · exact le_trans (le_max_right _ _) h1
    · exact h2 y hy'

/-! ### the property's table against the code's table -/

def amountOfKind : Kind → Amount
  | .std => .const 100000000000000000
  | .transfer => .const 10000000000000000
  | .proposal => .proposalFee

/-- every message kind the property names falls into the branch with the documented amount, and is
    not caught by the dispensation special case -/
def tableCovers (cfg : FeeCfg) : Bool :=
  kindTable.all (fun e =>
    decide ((firstMatch cfg.branches (lowerUrl e.1)).map (·.amount) = some (amountOfKind e.2)) &&
    !containsAny cfg.special (lowerUrl e.1))

theorem amountVal_kind (p : Int) (k : Kind) : amountVal p (amountOfKind k) = floorOfKind p k := by
  cases k <;> rfl

theorem amountVal_nonneg {p : Int} (hp : 0 ≤ p) (a : Amount) : 0 ≤ amountVal p a := by
  cases a <;> simp [amountVal] <;> omega

theorem codeFloor_nonneg {p : Int} (hp : 0 ≤ p) (brs : List Branch) (u : List Char) : 0 ≤ codeFloor brs p u := by
  unfold codeFloor
  split
  · exact amountVal_nonneg hp _
  · exact le_refl 0

theorem kindOf_mem {url : String} {k : Kind} (h : kindOf url = some k) : (url, k) ∈ kindTable := by
  unfold kindOf at h
  cases hf : kindTable.find? (fun e => e.1 = url) with
  | none => simp [hf] at h
  | some e =>
    simp [hf] at h
    have h1 := List.find?_some hf
    have h2 := List.mem_of_find?_eq_some hf
    simp at h1
    obtain ⟨a, b⟩ := e
    simp at h1 h
    subst h1; subst h
    exact h2

theorem floorOfUrl_le_codeFloor {cfg : FeeCfg} (hc : tableCovers cfg = true) {p : Int} (hp : 0 ≤ p)
    (url : String) : floorOfUrl p url ≤ codeFloor cfg.branches p (lowerUrl url) := by
  unfold floorOfUrl
  cases hk : kindOf url with
  | none => exact codeFloor_nonneg hp _ _
  | some k =>
    have hm := kindOf_mem hk
    have := (List.all_eq_true.mp hc) (url, k) hm
    simp only [Bool.and_eq_true, decide_eq_true_eq] at this
    obtain ⟨h1, _⟩ := this
    unfold codeFloor
    cases hfm : firstMatch cfg.branches (lowerUrl url) with
    | none => simp [hfm] at h1
    | some b =>
      simp [hfm] at h1
      simp only [h1, amountVal_kind]
      exact le_refl _

theorem special_not_kind {cfg : FeeCfg} (hc : tableCovers cfg = true) {url : String}
    (hs : containsAny cfg.special (lowerUrl url) = true) : kindOf url = none := by
  cases hk : kindOf url with
  | none => rfl
  | some k =>
    have hm := kindOf_mem hk
    have := (List.all_eq_true.mp hc) (url, k) hm
    simp only [Bool.and_eq_true, Bool.not_eq_true'] at this
    rw [hs] at this
    exact absurd this.2 (by simp)

/-- clause 1, for any table that is sound, unwraps MsgExec and covers the property's kinds -/
theorem fee_floor_generic {cfg : FeeCfg} (hs : cfg.branches.all branchSound = true)
    (hu : cfg.unwrap = true) (hc : tableCovers cfg = true)
    (hx : containsAny cfg.special (lowerUrl execUrl) = false)
    (p : Int) (tx : Tx) (hp : 0 ≤ p) (hf : feesValid tx = true)
    (h : (feeDecide cfg p tx).accepted = true) : required p tx.msgs ≤ rowanFee tx.fees := by
  have hs' : ∀ b ∈ cfg.branches, branchSound b = true := List.all_eq_true.mp hs
  have hr := rowanFee_nonneg hf
  unfold feeDecide at h
  unfold required
  by_cases hsp : isSpecial cfg tx.msgs = true
  · -- the single-message special case: that message is none of the property's kinds
    apply foldl_max_le _ _ _ _ hr
    intro l hl
    obtain ⟨msgs, fees⟩ := tx
    match msgs, hsp, hl with
    | [Msg.leaf l'], hsp, hl =>
      simp [leavesList, Msg.leaves] at hl
      subst hl
      simp [isSpecial, Msg.top] at hsp
      simp [floorOfUrl, special_not_kind hc hsp, hr]
    | [Msg.exec inner], hsp, _ =>
      simp [isSpecial, Msg.top, execLeaf, hx] at hsp
    | [], hsp, _ => simp [isSpecial] at hsp
    | _ :: _ :: _, hsp, _ => simp [isSpecial] at hsp
  · rw [if_neg hsp] at h
    have hacc := feeCheck_accepts hr h
    apply foldl_max_le _ _ _ _ hr
    intro l hl
    have hw : l ∈ feeMsgs cfg tx.msgs := by
      unfold feeMsgs; rw [if_pos hu]; exact leavesList_sub_walkList _ _ hl
    have hmem : lowerUrl l.url ∈ (feeMsgs cfg tx.msgs).map (fun l => lowerUrl l.url) :=
      List.mem_map.mpr ⟨l, hw, rfl⟩
    exact le_trans (floorOfUrl_le_codeFloor hc hp l.url) (le_trans (minFee_ge_floor hs' hmem) hacc)

/-! ### projected voting power: sdk.Dec arithmetic -/

theorem chk_ok {i : Int} {d : Dec} (h : Dec.chk i = .ok d) : d = ⟨i⟩ := by
  unfold Dec.chk at h
  split at h
  · cases h; rfl
  · cases h

theorem chopRoundNat_ge (n : Nat) : n / Dec.P ≤ Dec.chopRoundNat n := by
  unfold Dec.chopRoundNat
  simp only
  split
  · exact le_refl _
  · split
    · omega
    · split <;> omega

theorem chopRoundNat_mul (m : Nat) : Dec.chopRoundNat (m * Dec.P) = m := by
  have hP : 0 < Dec.P := by unfold Dec.P; positivity
  unfold Dec.chopRoundNat
  simp only [Nat.mul_mod_left, Nat.mul_div_cancel _ hP]
  have : 0 < Dec.half := by unfold Dec.half; positivity
  rw [if_pos this]

theorem chopRound_nonneg {i : Int} (h : 0 ≤ i) : Dec.chopRound i = (Dec.chopRoundNat i.natAbs : Int) := by
  unfold Dec.chopRound
  rw [if_neg (by omega)]

/-- the heart of clause 3: if `Quo` then `Mul(100)` stays below a cap that is a whole number of
    hundredths (6.6 = 660/100 …), the exact share is below the cap -/
theorem projected_lt_cap {v t cap : Int} {d : Dec} (hv : 0 ≤ v) (ht : 0 ≤ t) (hcap : (100 : Int) ∣ cap)
    (h : projected ⟨v * Dec.P⟩ ⟨t * Dec.P⟩ = .ok d) (hd : d.i < cap) :
    100 * (Dec.P : Int) * v < cap * t := by
  have hP : (0 : Int) < (Dec.P : Int) := by unfold Dec.P; positivity
  unfold projected at h
  obtain ⟨q, hq, hm⟩ := bind_ok h
  unfold Dec.quo at hq
  simp only at hq
  by_cases ht0 : t * (Dec.P : Int) = 0
  · rw [if_pos ht0] at hq; cases hq
  rw [if_neg ht0] at hq
  have htpos : 0 < t := by
    rcases lt_or_eq_of_le ht with h' | h'
    · exact h'
    · exfalso; apply ht0; rw [← h']; simp
  have hq' := chk_ok hq
  have hnum : 0 ≤ v * (Dec.P : Int) * Dec.P * Dec.P := by positivity
  rw [Int.tdiv_eq_ediv_of_nonneg hnum] at hq'
  have hcancel : v * (Dec.P : Int) * Dec.P * Dec.P / (t * Dec.P) = v * Dec.P * Dec.P / t := by
    rw [show v * (Dec.P : Int) * Dec.P * Dec.P = (v * Dec.P * Dec.P) * Dec.P by ring]
    exact Int.mul_ediv_mul_of_pos_left _ _ hP
  rw [hcancel] at hq'
  set N : Int := v * Dec.P * Dec.P / t with hN
  have hN0 : 0 ≤ N := Int.ediv_nonneg (by positivity) ht
  rw [chopRound_nonneg hN0] at hq'
  -- the multiplication by 100 is exact
  unfold Dec.mul at hm
  have hd' := chk_ok hm
  have hqi : q.i = (Dec.chopRoundNat N.natAbs : Int) := by rw [hq']
  have hmul : q.i * (Dec.ofInt 100).i = ((Dec.chopRoundNat N.natAbs * 100 * Dec.P : Nat) : Int) := by
    rw [hqi]; unfold Dec.ofInt; push_cast; ring
  rw [hmul] at hd'
  have hcr : Dec.chopRound ((Dec.chopRoundNat N.natAbs * 100 * Dec.P : Nat) : Int) = ((Dec.chopRoundNat N.natAbs * 100 : Nat) : Int) := by
    rw [chopRound_nonneg (by positivity)]
    simp only [Int.natAbs_natCast]
    rw [chopRoundNat_mul]
  rw [hcr] at hd'
  rw [hd'] at hd
  simp only at hd
  -- contrapositive
  by_contra hge
  have hge := not_lt.mp hge
  obtain ⟨c, rfl⟩ := hcap
  have h1 : c * t ≤ Dec.P * v := by
    have : 100 * (c * t) ≤ 100 * ((Dec.P : Int) * v) := by linarith
    linarith
  have h2 : c * (Dec.P : Int) ≤ N := by
    rw [hN]
    apply Int.le_ediv_of_mul_le htpos
    have : c * (Dec.P : Int) * t = (c * t) * Dec.P := by ring
    rw [this]
    have : v * (Dec.P : Int) * Dec.P = (Dec.P * v) * Dec.P := by ring
    rw [this]
    exact mul_le_mul_of_nonneg_right h1 (le_of_lt hP)
  have h3 : c ≤ N / Dec.P := Int.le_ediv_of_mul_le hP h2
  have h4 : N / (Dec.P : Int) ≤ (Dec.chopRoundNat N.natAbs : Int) := by
    have := chopRoundNat_ge N.natAbs
    have h5 : ((N.natAbs / Dec.P : Nat) : Int) = N / (Dec.P : Int) := by
      rw [Int.natCast_ediv, Int.natAbs_of_nonneg hN0]
    rw [← h5]
    exact_mod_cast this
  push_cast at hd
  linarith

theorem ofInt_add_ok {a b : Int} {d : Dec} (h : Dec.add (Dec.ofInt a) (Dec.ofInt b) = .ok d) :
    d = ⟨(a + b) * Dec.P⟩ := by
  unfold Dec.add at h
  have := chk_ok h
  rw [this]; unfold Dec.ofInt; congr 1; ring

theorem belowCap_ok {cfg : ComCfg} {p : M Dec} (h : belowCap cfg p = .ok true) :
    ∃ d, p = .ok d ∧ d.i < cfg.maxVotingPower := by
  unfold belowCap at h
  cases p with
  | error e => cases h
  | ok d =>
    refine ⟨d, rfl, ?_⟩
    simp [Except.map] at h
    exact h

theorem find_tokens_nonneg {env : StakeEnv} (he : envValid env = true) {v : String} {tok : Int}
    (h : env.tokens v = some tok) : 0 ≤ tok := by
  unfold StakeEnv.tokens at h
  cases hf : env.vals.find? (fun p => p.1 = v) with
  | none => simp [hf] at h
  | some e =>
    simp [hf] at h
    have hm := List.mem_of_find?_eq_some hf
    unfold envValid at he
    simp only [Bool.and_eq_true, decide_eq_true_eq] at he
    have := (List.all_eq_true.mp he.2) e hm
    simp at this
    omega

/-- clauses 2 and 3 on one message -/
theorem validateBody_sound {cfg : ComCfg} {env : StakeEnv} (hcap : (100 : Int) ∣ cfg.maxVotingPower)
    (he : envValid env = true) {b : Body} (hb : bodyAmountsValid b = true)
    (h : validateBody cfg env b = .ok true) : bodyOK cfg.minCommission cfg.maxVotingPower env b = true := by
  have htot : 0 ≤ env.total := by
    unfold envValid at he; simp only [Bool.and_eq_true, decide_eq_true_eq] at he; exact he.1
  cases b with
  | other => rfl
  | createVal r =>
    simp [validateBody] at h
    simp [bodyOK]; omega
  | editVal r =>
    cases r with
    | none => rfl
    | some r =>
      simp [validateBody] at h
      simp [bodyOK]; omega
  | delegate v amt =>
    simp only [bodyAmountsValid, decide_eq_true_eq] at hb
    simp only [validateBody] at h
    simp only [bodyOK]
    cases ht : env.tokens v with
    | none => rfl
    | some tok =>
      simp only [ht] at h ⊢
      have htok := find_tokens_nonneg he ht
      obtain ⟨d, hp, hd⟩ := belowCap_ok h
      unfold projDelegate at hp
      obtain ⟨t', ht', hp⟩ := bind_ok hp
      obtain ⟨v', hv', hp⟩ := bind_ok hp
      rw [ofInt_add_ok ht', ofInt_add_ok hv'] at hp
      have := projected_lt_cap (by omega) (by omega) hcap hp hd
      simp [shareBelow, this]
  | redelegate src dst amt =>
    simp only [bodyAmountsValid, decide_eq_true_eq] at hb
    simp only [validateBody] at h
    simp only [bodyOK]
    cases ht : env.tokens dst with
    | none => rfl
    | some tok =>
      simp only [ht] at h ⊢
      have htok := find_tokens_nonneg he ht
      obtain ⟨d, hp, hd⟩ := belowCap_ok h
      unfold projRedelegate at hp
      obtain ⟨v', hv', hp⟩ := bind_ok hp
      rw [ofInt_add_ok hv'] at hp
      have hamt : 0 ≤ (if src = dst then (0 : Int) else amt) := by split <;> omega
      have := projected_lt_cap (t := env.total) (by omega) htot hcap hp hd
      simp [shareBelow, this]

theorem validateAll_sound {cfg : ComCfg} {env : StakeEnv} : ∀ (ls : List Leaf),
    validateAll cfg env ls = .ok true → ∀ l ∈ ls, validateBody cfg env l.body = .ok true
  | [], _, l, hl => by simp at hl
  | l' :: ls, h, l, hl => by
    unfold validateAll at h
    cases hv : validateBody cfg env l'.body with
    | error e => simp [hv] at h
    | ok b =>
      cases b with
      | false => simp [hv] at h
      | true =>
        simp [hv] at h
        rcases List.mem_cons.mp hl with rfl | hl'
        · exact hv
        · exact validateAll_sound ls h l hl'

/-- clauses 2 and 3, for any configuration that unwraps MsgExec -/
theorem staking_generic {cfg : ComCfg} (hu : cfg.unwrap = true) (hcap : (100 : Int) ∣ cfg.maxVotingPower)
    (env : StakeEnv) (ms : List Msg) (he : envValid env = true) (ha : amountsValid ms = true)
    (h : comDecide cfg env ms = .ok true) :
    ∀ l ∈ leavesList ms, bodyOK cfg.minCommission cfg.maxVotingPower env l.body = true := by
  intro l hl
  unfold comDecide comMsgs at h
  rw [if_pos hu] at h
  have hb : bodyAmountsValid l.body = true := (List.all_eq_true.mp ha) l hl
  exact validateBody_sound hcap he hb (validateAll_sound _ h l hl)

end Sif.Ante
