import Sif.Spec.C19
import Sif.Proofs.Except
import Mathlib.Tactic.Linarith
import Mathlib.Tactic.Ring
/- helper lemmas for the C19 theorems -/
namespace Sif.Ante
open Sif Sif.AnteTypes Sif.Spec.C19

/-! ### the min-fee fold -/

/-- a branch of the chain never lowers the running minimum and reaches its own amount -/
def branchSound (b : Branch) : Bool :=
  match b.update, b.guardLE, b.amount with
  | .max, none, .const _ => true
  | .max, none, .proposalFee => true
  | .max, some g, .const n => decide (n ≤ g)
  | .overwrite, some g, .const n => decide (n = g)
  | _, _, _ => false

/-- the first branch whose substrings match (the `else if` priority), whatever the running fee -/
def firstMatch (brs : List Branch) (u : List Char) : Option Branch :=
  brs.find? (fun b => containsAny b.subs u)

/-- the floor the code's table prescribes for one (lower-cased) type URL -/
def codeFloor (brs : List Branch) (p : Int) (u : List Char) : Int :=
  match firstMatch brs u with
  | some b => amountVal p b.amount
  | none => 0

theorem apply_ge_min {p mf : Int} {u : List Char} {b : Branch} (hs : branchSound b = true)
    (hm : branchMatches mf u b = true) : mf ≤ applyBranch p mf b := by
  obtain ⟨subs, g, a, up⟩ := b
  simp only [branchMatches, Bool.and_eq_true] at hm
  obtain ⟨_, hg⟩ := hm
  cases up <;> cases g <;> cases a <;> simp [branchSound] at hs <;>
    simp [applyBranch, amountVal, guardOK] at hg ⊢ <;> omega

theorem apply_ge_amount {p mf : Int} {b : Branch} (hs : branchSound b = true) :
    amountVal p b.amount ≤ applyBranch p mf b := by
  obtain ⟨subs, g, a, up⟩ := b
  cases up <;> cases g <;> cases a <;> simp [branchSound] at hs <;>
    simp [applyBranch, amountVal] <;> omega

/-- if the guard of a sound branch fails, the running minimum is already above its amount -/
theorem guard_fail_amount_lt {p mf : Int} {b : Branch} (hs : branchSound b = true)
    (hg : guardOK mf b.guardLE = false) : amountVal p b.amount ≤ mf := by
  obtain ⟨subs, g, a, up⟩ := b
  cases up <;> cases g <;> cases a <;> simp [branchSound] at hs <;>
    simp [amountVal, guardOK] at hg ⊢ <;> omega

theorem step_mono (p : Int) (u : List Char) : ∀ (brs : List Branch) (mf : Int),
    (∀ b ∈ brs, branchSound b = true) → mf ≤ stepFee p brs mf u
  | [], mf, _ => by simp [stepFee]
  | b :: rest, mf, hs => by
    unfold stepFee
    by_cases hm : branchMatches mf u b = true
    · rw [if_pos hm]; exact apply_ge_min (hs b (by simp)) hm
    · rw [if_neg hm]; exact step_mono p u rest mf (fun b' hb' => hs b' (by simp [hb']))

theorem step_ge_floor (p : Int) (u : List Char) : ∀ (brs : List Branch) (mf : Int),
    (∀ b ∈ brs, branchSound b = true) → 0 ≤ mf → codeFloor brs p u ≤ stepFee p brs mf u
  | [], mf, _, h0 => by simpa [stepFee, codeFloor, firstMatch] using h0
  | b :: rest, mf, hs, h0 => by
    have hsb := hs b (by simp)
    have hsr : ∀ b' ∈ rest, branchSound b' = true := fun b' hb' => hs b' (by simp [hb'])
    unfold stepFee
    by_cases hc : containsAny b.subs u = true
    · have hf : codeFloor (b :: rest) p u = amountVal p b.amount := by
        simp [codeFloor, firstMatch, List.find?, hc]
      rw [hf]
      by_cases hg : guardOK mf b.guardLE = true
      · rw [if_pos (by simp [branchMatches, hc, hg])]; exact apply_ge_amount hsb
      · rw [if_neg (by simp [branchMatches, hc, hg])]
        have := guard_fail_amount_lt (p := p) hsb (by simpa using hg)
        exact le_trans this (step_mono p u rest mf hsr)
    · have hf : codeFloor (b :: rest) p u = codeFloor rest p u := by
        simp [codeFloor, firstMatch, List.find?, hc]
      rw [hf, if_neg (by simp [branchMatches, hc])]
      exact step_ge_floor p u rest mf hsr h0

theorem fold_ge_init (p : Int) (brs : List Branch) (hs : ∀ b ∈ brs, branchSound b = true) :
    ∀ (urls : List (List Char)) (init : Int), init ≤ urls.foldl (stepFee p brs) init
  | [], init => by simp
  | u :: us, init => by
    simp only [List.foldl_cons]
    exact le_trans (step_mono p u brs init hs) (fold_ge_init p brs hs us _)

theorem fold_ge_floor (p : Int) (brs : List Branch) (hs : ∀ b ∈ brs, branchSound b = true) :
    ∀ (urls : List (List Char)) (init : Int), 0 ≤ init → ∀ u ∈ urls,
      codeFloor brs p u ≤ urls.foldl (stepFee p brs) init
  | [], _, _, u, hu => by simp at hu
  | u' :: us, init, h0, u, hu => by
    simp only [List.foldl_cons]
    have h0' : 0 ≤ stepFee p brs init u' := le_trans h0 (step_mono p u' brs init hs)
    rcases List.mem_cons.mp hu with rfl | hu'
    · exact le_trans (step_ge_floor p u brs init hs h0) (fold_ge_init p brs hs us _)
    · exact fold_ge_floor p brs hs us _ h0' u hu'

theorem minFee_ge_floor {p : Int} {brs : List Branch} (hs : ∀ b ∈ brs, branchSound b = true)
    {urls : List (List Char)} {u : List Char} (hu : u ∈ urls) : codeFloor brs p u ≤ minFeeOf brs p urls :=
  fold_ge_floor p brs hs urls 0 (le_refl 0) u hu

theorem minFee_nonneg {p : Int} {brs : List Branch} (hs : ∀ b ∈ brs, branchSound b = true)
    (urls : List (List Char)) : 0 ≤ minFeeOf brs p urls :=
  fold_ge_init p brs hs urls 0

/-! ### fee coins -/

theorem rowanFee_nonneg_aux : ∀ (fees : List (String × Int)) (init : Int), 0 ≤ init →
    (∀ c ∈ fees, 0 ≤ c.2) → 0 ≤ fees.foldl (fun acc c => if c.1 = "rowan" then c.2 else acc) init
  | [], init, h, _ => by simpa using h
  | c :: cs, init, h, hc => by
    simp only [List.foldl_cons]
    apply rowanFee_nonneg_aux cs
    · split
      · exact hc c (by simp)
      · exact h
    · intro c' hc'; exact hc c' (by simp [hc'])

theorem rowanFee_nonneg {tx : Tx} (h : feesValid tx = true) : 0 ≤ rowanFee tx.fees := by
  unfold rowanFee
  apply rowanFee_nonneg_aux _ _ (le_refl 0)
  intro c hc
  have := (List.all_eq_true.mp h) c hc
  simpa using this

/-- what `feeCheck` accepts -/
theorem feeCheck_accepts {mf rf : Int} (h0 : 0 ≤ rf) (h : (feeCheck mf rf).accepted = true) : mf ≤ rf := by
  unfold feeCheck at h
  split at h
  · omega
  · split at h
    · simp [FeeRes.accepted] at h
    · split at h
      · simp [FeeRes.accepted] at h
      · omega

/-! ### the message tree -/

mutual
theorem Msg.leaves_sub_walk : ∀ (m : Msg) (l : Leaf), l ∈ m.leaves → l ∈ m.walk
  | .leaf l', l, h => by simpa [Msg.leaves, Msg.walk] using h
  | .exec inner, l, h => by
    simp only [Msg.leaves] at h
    simp only [Msg.walk, List.mem_cons]
    exact Or.inr (leavesList_sub_walkList inner l h)
theorem leavesList_sub_walkList : ∀ (ms : List Msg) (l : Leaf), l ∈ leavesList ms → l ∈ walkList ms
  | [], l, h => by simp [leavesList] at h
  | m :: ms, l, h => by
    simp only [leavesList, List.mem_append] at h
    simp only [walkList, List.mem_append]
    rcases h with h | h
    · exact Or.inl (Msg.leaves_sub_walk m l h)
    · exact Or.inr (leavesList_sub_walkList ms l h)
end

/-- folding `max` stays below any bound that dominates the start and every element -/
theorem foldl_max_le {α} (f : α → Int) (b : Int) : ∀ (xs : List α) (init : Int), init ≤ b →
    (∀ x ∈ xs, f x ≤ b) → xs.foldl (fun a x => max a (f x)) init ≤ b
  | [], init, h, _ => by simpa using h
  | x :: xs, init, h, hx => by
    simp only [List.foldl_cons]
    apply foldl_max_le f b xs
    · exact max_le h (hx x (by simp))
    · intro y hy; exact hx y (by simp [hy])

theorem le_foldl_max {α} (f : α → Int) : ∀ (xs : List α) (init : Int),
    init ≤ xs.foldl (fun a x => max a (f x)) init ∧ ∀ x ∈ xs, f x ≤ xs.foldl (fun a x => max a (f x)) init
  | [], init => by simp
  | x :: xs, init => by
    simp only [List.foldl_cons]
    obtain ⟨h1, h2⟩ := le_foldl_max f xs (max init (f x))
    refine ⟨le_trans (le_max_left _ _) h1, ?_⟩
    intro y hy
    rcases List.mem_cons.mp hy with rfl | hy'
    · exact le_trans (le_max_right _ _) h1
    · exact h2 y hy'

/-! ### the property's table against the code's table -/

def amountOfKind : Kind → Amount
  | .std => .const 100000000000000000
  | .transfer => .const 10000000000000000
  | .proposal => .proposalFee

/-- every message kind the property names falls into the branch with the documented amount, and is
    not caught by the dispensation special case -/
def tableCovers (cfg : FeeCfg) : Bool :=
  kindTable.all (fun e =>
    decide ((firstMatch cfg.branches (lowerUrl e.1)).map (·.amount) = some (amountOfKind e.2)) &&
    !containsAny cfg.special (lowerUrl e.1))

theorem amountVal_kind (p : Int) (k : Kind) : amountVal p (amountOfKind k) = floorOfKind p k := by
  cases k <;> rfl

theorem amountVal_nonneg {p : Int} (hp : 0 ≤ p) (a : Amount) : 0 ≤ amountVal p a := by
  cases a <;> simp [amountVal] <;> omega

theorem codeFloor_nonneg {p : Int} (hp : 0 ≤ p) (brs : List Branch) (u : List Char) : 0 ≤ codeFloor brs p u := by
  unfold codeFloor
  split
  · exact amountVal_nonneg hp _
  · exact le_refl 0

theorem kindOf_mem {url : String} {k : Kind} (h : kindOf url = some k) : (url, k) ∈ kindTable := by
  unfold kindOf at h
  cases hf : kindTable.find? (fun e => e.1 = url) with
  | none => simp [hf] at h
  | some e =>
    simp [hf] at h
    have h1 := List.find?_some hf
    have h2 := List.mem_of_find?_eq_some hf
    simp at h1
    obtain ⟨a, b⟩ := e
    simp at h1 h
    subst h1; subst h
    exact h2

theorem floorOfUrl_le_codeFloor {cfg : FeeCfg} (hc : tableCovers cfg = true) {p : Int} (hp : 0 ≤ p)
    (url : String) : floorOfUrl p url ≤ codeFloor cfg.branches p (lowerUrl url) := by
  unfold floorOfUrl
  cases hk : kindOf url with
  | none => exact codeFloor_nonneg hp _ _
  | some k =>
    have hm := kindOf_mem hk
    have := (List.all_eq_true.mp hc) (url, k) hm
    simp only [Bool.and_eq_true, decide_eq_true_eq] at this
    obtain ⟨h1, _⟩ := this
    unfold codeFloor
    cases hfm : firstMatch cfg.branches (lowerUrl url) with
    | none => simp [hfm] at h1
    | some b =>
      simp [hfm] at h1
      simp only [h1, amountVal_kind]
      exact le_refl _

theorem special_not_kind {cfg : FeeCfg} (hc : tableCovers cfg = true) {url : String}
    (hs : containsAny cfg.special (lowerUrl url) = true) : kindOf url = none := by
  cases hk : kindOf url with
  | none => rfl
  | some k =>
    have hm := kindOf_mem hk
    have := (List.all_eq_true.mp hc) (url, k) hm
    simp only [Bool.and_eq_true, Bool.not_eq_true'] at this
    rw [hs] at this
    exact absurd this.2 (by simp)

/-- clause 1, for any table that is sound, unwraps MsgExec and covers the property's kinds -/
theorem fee_floor_generic {cfg : FeeCfg} (hs : cfg.branches.all branchSound = true)
    (hu : cfg.unwrap = true) (hc : tableCovers cfg = true)
    (hx : containsAny cfg.special (lowerUrl execUrl) = false)
    (p : Int) (tx : Tx) (hp : 0 ≤ p) (hf : feesValid tx = true)
    (h : (feeDecide cfg p tx).accepted = true) : required p tx.msgs ≤ rowanFee tx.fees := by
  have hs' : ∀ b ∈ cfg.branches, branchSound b = true := List.all_eq_true.mp hs
  have hr := rowanFee_nonneg hf
  unfold feeDecide at h
  unfold required
  by_cases hsp : isSpecial cfg tx.msgs = true
  · -- the single-message special case: that message is none of the property's kinds
    apply foldl_max_le _ _ _ _ hr
    intro l hl
    obtain ⟨msgs, fees⟩ := tx
    match msgs, hsp, hl with
    | [Msg.leaf l'], hsp, hl =>
      simp [leavesList, Msg.leaves] at hl
      subst hl
      simp [isSpecial, Msg.top] at hsp
      simp [floorOfUrl, special_not_kind hc hsp, hr]
    | [Msg.exec inner], hsp, _ =>
      simp [isSpecial, Msg.top, execLeaf, hx] at hsp
    | [], hsp, _ => simp [isSpecial] at hsp
    | _ :: _ :: _, hsp, _ => simp [isSpecial] at hsp
  · rw [if_neg hsp] at h
    have hacc := feeCheck_accepts hr h
    apply foldl_max_le _ _ _ _ hr
    intro l hl
    have hw : l ∈ feeMsgs cfg tx.msgs := by
      unfold feeMsgs; rw [if_pos hu]; exact leavesList_sub_walkList _ _ hl
    have hmem : lowerUrl l.url ∈ (feeMsgs cfg tx.msgs).map (fun l => lowerUrl l.url) :=
      List.mem_map.mpr ⟨l, hw, rfl⟩
    exact le_trans (floorOfUrl_le_codeFloor hc hp l.url) (le_trans (minFee_ge_floor hs' hmem) hacc)

/-! ### projected voting power: sdk.Dec arithmetic -/

theorem chk_ok {i : Int} {d : Dec} (h : Dec.chk i = .ok d) : d = ⟨i⟩ := by
  unfold Dec.chk at h
  split at h
  · cases h; rfl
  · cases h

theorem chopRoundNat_ge (n : Nat) : n / Dec.P ≤ Dec.chopRoundNat n := by
  unfold Dec.chopRoundNat
  simp only
  split
  · exact le_refl _
  · split
    · omega
    · split <;> omega

theorem chopRoundNat_mul (m : Nat) : Dec.chopRoundNat (m * Dec.P) = m := by
  have hP : 0 < Dec.P := by unfold Dec.P; positivity
  unfold Dec.chopRoundNat
  simp only [Nat.mul_mod_left, Nat.mul_div_cancel _ hP]
  have : 0 < Dec.half := by unfold Dec.half; positivity
  rw [if_pos this]

theorem chopRound_nonneg {i : Int} (h : 0 ≤ i) : Dec.chopRound i = (Dec.chopRoundNat i.natAbs : Int) := by
  unfold Dec.chopRound
  rw [if_neg (by omega)]

/-- the heart of clause 3: if `Quo` then `Mul(100)` stays below a cap that is a whole number of
    hundredths (6.6 = 660/100 …), the exact share is below the cap -/
theorem projected_lt_cap {v t cap : Int} {d : Dec} (hv : 0 ≤ v) (ht : 0 ≤ t) (hcap : (100 : Int) ∣ cap)
    (h : projected ⟨v * Dec.P⟩ ⟨t * Dec.P⟩ = .ok d) (hd : d.i < cap) :
    100 * (Dec.P : Int) * v < cap * t := by
  have hP : (0 : Int) < (Dec.P : Int) := by unfold Dec.P; positivity
  unfold projected at h
  obtain ⟨q, hq, hm⟩ := bind_ok h
  unfold Dec.quo at hq
  simp only at hq
  by_cases ht0 : t * (Dec.P : Int) = 0
  · rw [if_pos ht0] at hq; cases hq
  rw [if_neg ht0] at hq
  have htpos : 0 < t := by
    rcases lt_or_eq_of_le ht with h' | h'
    · exact h'
    · exfalso; apply ht0; rw [← h']; simp
  have hq' := chk_ok hq
  have hnum : 0 ≤ v * (Dec.P : Int) * Dec.P * Dec.P := by positivity
  rw [Int.tdiv_eq_ediv_of_nonneg hnum] at hq'
  have hcancel : v * (Dec.P : Int) * Dec.P * Dec.P / (t * Dec.P) = v * Dec.P * Dec.P / t := by
    rw [show v * (Dec.P : Int) * Dec.P * Dec.P = (v * Dec.P * Dec.P) * Dec.P by ring]
    exact Int.mul_ediv_mul_of_pos_left _ _ hP
  rw [hcancel] at hq'
  set N : Int := v * Dec.P * Dec.P / t with hN
  have hN0 : 0 ≤ N := Int.ediv_nonneg (by positivity) ht
  rw [chopRound_nonneg hN0] at hq'
  -- the multiplication by 100 is exact
  unfold Dec.mul at hm
  have hd' := chk_ok hm
  have hqi : q.i = (Dec.chopRoundNat N.natAbs : Int) := by rw [hq']
  have hmul : q.i * (Dec.ofInt 100).i = ((Dec.chopRoundNat N.natAbs * 100 * Dec.P : Nat) : Int) := by
    rw [hqi]; unfold Dec.ofInt; push_cast; ring
  rw [hmul] at hd'
  have hcr : Dec.chopRound ((Dec.chopRoundNat N.natAbs * 100 * Dec.P : Nat) : Int) = ((Dec.chopRoundNat N.natAbs * 100 : Nat) : Int) := by
    rw [chopRound_nonneg (by positivity)]
    simp only [Int.natAbs_natCast]
    rw [chopRoundNat_mul]
  rw [hcr] at hd'
  rw [hd'] at hd
  simp only at hd
  -- contrapositive
  by_contra hge
  have hge := not_lt.mp hge
  obtain ⟨c, rfl⟩ := hcap
  have h1 : c * t ≤ Dec.P * v := by
    have : 100 * (c * t) ≤ 100 * ((Dec.P : Int) * v) := by linarith
    linarith
  have h2 : c * (Dec.P : Int) ≤ N := by
    rw [hN]
    apply Int.le_ediv_of_mul_le htpos
    have : c * (Dec.P : Int) * t = (c * t) * Dec.P := by ring
    rw [this]
    have : v * (Dec.P : Int) * Dec.P = (Dec.P * v) * Dec.P := by ring
    rw [this]
    exact mul_le_mul_of_nonneg_right h1 (le_of_lt hP)
  have h3 : c ≤ N / Dec.P := Int.le_ediv_of_mul_le hP h2
  have h4 : N / (Dec.P : Int) ≤ (Dec.chopRoundNat N.natAbs : Int) := by
    have := chopRoundNat_ge N.natAbs
    have h5 : ((N.natAbs / Dec.P : Nat) : Int) = N / (Dec.P : Int) := by
      rw [Int.natCast_ediv, Int.natAbs_of_nonneg hN0]
    rw [← h5]
    exact_mod_cast this
  push_cast at hd
  linarith

theorem ofInt_add_ok {a b : Int} {d : Dec} (h : Dec.add (Dec.ofInt a) (Dec.ofInt b) = .ok d) :
    d = ⟨(a + b) * Dec.P⟩ := by
  unfold Dec.add at h
  have := chk_ok h
  rw [this]; unfold Dec.ofInt; congr 1; ring

theorem belowCap_ok {cfg : ComCfg} {p : M Dec} (h : belowCap cfg p = .ok true) :
    ∃ d, p = .ok d ∧ d.i < cfg.maxVotingPower := by
  unfold belowCap at h
  cases p with
  | error e => cases h
  | ok d =>
    refine ⟨d, rfl, ?_⟩
    simp [Except.map] at h
    exact h

theorem admitIf_some {ok : M Bool} {p' q : Pending} (h : admitIf ok p' = .ok (some q)) : ok = .ok true ∧ q = p' := by
  unfold admitIf at h
  cases ok with
  | error e => cases h
  | ok b =>
    cases b with
    | false => simp [Except.map] at h
    | true => simp [Except.map] at h; exact ⟨rfl, h.symm⟩

theorem find_tokens_nonneg {env : StakeEnv} (he : envValid env = true) {v : String} {tok : Int}
    (h : env.tokens v = some tok) : 0 ≤ tok := by
  unfold StakeEnv.tokens at h
  cases hf : env.vals.find? (fun p => p.1 = v) with
  | none => simp [hf] at h
  | some e =>
    simp [hf] at h
    have hm := List.mem_of_find?_eq_some hf
    unfold envValid at he
    simp only [Bool.and_eq_true, decide_eq_true_eq] at he
    have := (List.all_eq_true.mp he.2) e hm
    simp at this
    omega

/-! ### pending stake -/

theorem get_add (p : Pending) (v w : String) (a t : Int) :
    (p.add v a t).get w = (if v = w then a else 0) + p.get w := by
  unfold Pending.add Pending.get
  simp only [List.filter_cons]
  by_cases h : v = w
  · simp [h]
  · simp [h]

theorem total_add (p : Pending) (v : String) (a t : Int) : (p.add v a t).total = p.total + t := rfl

theorem get_nonneg_aux : ∀ (l : List (String × Int)) (v : String), (∀ e ∈ l, 0 ≤ e.2) →
    0 ≤ ((l.filter (fun e => e.1 = v)).map (·.2)).sum
  | [], _, _ => by simp
  | e :: l, v, h => by
    have ih := get_nonneg_aux l v (fun e' he' => h e' (by simp [he']))
    have he := h e (by simp)
    simp only [List.filter_cons]
    split
    · simp only [List.map_cons, List.sum_cons]; omega
    · exact ih

/-- the pending stake holds only non-negative additions -/
def Pending.valid (p : Pending) : Prop := (∀ e ∈ p.byVal, 0 ≤ e.2) ∧ 0 ≤ p.total

theorem Pending.valid.get_nonneg {p : Pending} (h : p.valid) (v : String) : 0 ≤ p.get v :=
  get_nonneg_aux p.byVal v h.1

theorem valid_add {p : Pending} (h : p.valid) (v : String) {a t : Int} (ha : 0 ≤ a) (ht : 0 ≤ t) : (p.add v a t).valid := by
  refine ⟨?_, ?_⟩
  · intro e he
    simp only [Pending.add, List.mem_cons] at he
    rcases he with rfl | he
    · exact ha
    · exact h.1 e he
  · simp only [Pending.add]; have := h.2; omega

theorem valid_empty : Pending.empty.valid := ⟨by simp [Pending.empty], by simp [Pending.empty]⟩

/-- what `projectedPower` accepting means, exactly -/
theorem projectedPower_sound {cfg : ComCfg} (hcap : (100 : Int) ∣ cfg.maxVotingPower) {tok total vAmt tAmt : Int}
    (h0 : 0 ≤ tok + vAmt) (h1 : 0 ≤ total + tAmt)
    (h : belowCap cfg (projectedPower tok total vAmt tAmt) = .ok true) :
    shareBelow cfg.maxVotingPower (tok + vAmt) (total + tAmt) = true := by
  obtain ⟨d, hp, hd⟩ := belowCap_ok h
  unfold projectedPower at hp
  obtain ⟨t', ht', hp⟩ := bind_ok hp
  obtain ⟨v', hv', hp⟩ := bind_ok hp
  rw [ofInt_add_ok ht', ofInt_add_ok hv'] at hp
  have := projected_lt_cap h0 h1 hcap hp hd
  simp [shareBelow, this]

/-- one message: the model's acceptance gives the exact statements of the specification and the
    same pending stake -/
theorem validateBody_sound {cfg : ComCfg} {env : StakeEnv} (hcum : cfg.cumulative = true) (hcap : (100 : Int) ∣ cfg.maxVotingPower)
    (he : envValid env = true) {p q : Pending} (hp : p.valid) {b : Body} (hb : bodyAmountsValid b = true)
    (h : validateBody cfg env p b = .ok (some q)) :
    commissionOK cfg.minCommission b = true ∧ capOK cfg.maxVotingPower env p b = true ∧
      q = stepPending env p b ∧ q.valid := by
  have htot : 0 ≤ env.total := by
    unfold envValid at he; simp only [Bool.and_eq_true, decide_eq_true_eq] at he; exact he.1
  have hview : cfg.view p = p := by simp [ComCfg.view, hcum]
  cases b with
  | other => simp [validateBody] at h; subst h; exact ⟨rfl, rfl, rfl, hp⟩
  | createVal r cv ca =>
    simp only [validateBody] at h
    split at h
    · cases h
    · simp at h; subst h
      refine ⟨?_, rfl, rfl, hp⟩
      simp [commissionOK]; omega
  | editVal r =>
    cases r with
    | none => simp [validateBody] at h; subst h; exact ⟨rfl, rfl, rfl, hp⟩
    | some r =>
      simp only [validateBody] at h
      split at h
      · cases h
      · simp at h; subst h
        refine ⟨?_, rfl, rfl, hp⟩
        simp [commissionOK]; omega
  | delegate v amt =>
    simp only [bodyAmountsValid, decide_eq_true_eq] at hb
    simp only [validateBody, hview] at h
    simp only [capOK, stepPending, commissionOK]
    cases ht : env.tokens v with
    | none => simp [ht] at h
    | some tok =>
      simp only [ht] at h ⊢
      have htok := find_tokens_nonneg he ht
      obtain ⟨hok, rfl⟩ := admitIf_some h
      have hg := hp.get_nonneg v
      have ht2 := hp.2
      refine ⟨trivial, projectedPower_sound hcap (by omega) (by omega) hok, rfl, valid_add hp v hb hb⟩
  | redelegate src dst amt =>
    simp only [bodyAmountsValid, decide_eq_true_eq] at hb
    simp only [validateBody, hview] at h
    simp only [capOK, stepPending, commissionOK]
    cases ht : env.tokens dst with
    | none => simp [ht] at h
    | some tok =>
      simp only [ht] at h ⊢
      have htok := find_tokens_nonneg he ht
      obtain ⟨hok, rfl⟩ := admitIf_some h
      have hg := hp.get_nonneg dst
      have ht2 := hp.2
      have hamt : 0 ≤ (if src = dst then (0 : Int) else amt) := by split <;> omega
      refine ⟨trivial, projectedPower_sound hcap (by omega) (by omega) hok, rfl, valid_add hp dst hamt (le_refl 0)⟩

/-- the validator a (re)delegation goes to exists in the stake the transaction starts from -/
def targetsKnown (env : StakeEnv) : Body → Bool
  | .delegate v _ => (env.tokens v).isSome
  | .redelegate _ dst _ => (env.tokens dst).isSome
  | _ => true

/-- the decorator refuses a (re)delegation to a validator that is not in the store — also one that an
    earlier message of the same transaction is about to create -/
theorem validateBody_known {cfg : ComCfg} {env : StakeEnv} {p q : Pending} {b : Body}
    (h : validateBody cfg env p b = .ok (some q)) : targetsKnown env b = true := by
  cases b with
  | delegate v amt =>
    simp only [validateBody] at h
    simp only [targetsKnown]
    cases ht : env.tokens v with
    | none => simp [ht] at h
    | some tok => rfl
  | redelegate src dst amt =>
    simp only [validateBody] at h
    simp only [targetsKnown]
    cases ht : env.tokens dst with
    | none => simp [ht] at h
    | some tok => rfl
  | _ => rfl

theorem validateAll_sound {cfg : ComCfg} {env : StakeEnv} (hcum : cfg.cumulative = true) (hcap : (100 : Int) ∣ cfg.maxVotingPower)
    (he : envValid env = true) : ∀ (ls : List Leaf) (p q : Pending), p.valid →
    (∀ l ∈ ls, bodyAmountsValid l.body = true) → validateAll cfg env p ls = .ok (some q) →
    (∀ l ∈ ls, commissionOK cfg.minCommission l.body = true) ∧ seqCapOK cfg.maxVotingPower env p ls = true ∧
      q = finalPending env p ls ∧ (∀ l ∈ ls, targetsKnown env l.body = true)
  | [], p, q, _, _, h => by
    simp [validateAll] at h; subst h
    exact ⟨by simp, rfl, rfl, by simp⟩
  | l :: ls, p, q, hp, hb, h => by
    unfold validateAll at h
    cases hv : validateBody cfg env p l.body with
    | error e => simp [hv] at h
    | ok o =>
      cases o with
      | none => simp [hv] at h
      | some p' =>
        simp only [hv] at h
        obtain ⟨hc, hk, hq, hval⟩ := validateBody_sound hcum hcap he hp (hb l (by simp)) hv
        have hkn := validateBody_known hv
        obtain ⟨ih1, ih2, ih3, ih4⟩ := validateAll_sound hcum hcap he ls p' q hval (fun l' hl' => hb l' (by simp [hl'])) h
        refine ⟨?_, ?_, ?_, ?_⟩
        · intro l' hl'
          rcases List.mem_cons.mp hl' with rfl | hl''
          · exact hc
          · exact ih1 l' hl''
        · simp only [seqCapOK, hk, Bool.true_and, ← hq]; exact ih2
        · simp only [finalPending, ← hq]; exact ih3
        · intro l' hl'
          rcases List.mem_cons.mp hl' with rfl | hl''
          · exact hkn
          · exact ih4 l' hl''

/-! ### the end of the transaction: nobody who received stake holds the cap or more -/

theorem shareBelow_mono {cap v t t' : Int} (hc : 0 ≤ cap) (ht : t ≤ t') (h : shareBelow cap v t = true) :
    shareBelow cap v t' = true := by
  simp only [shareBelow, decide_eq_true_eq] at h ⊢
  have : cap * t ≤ cap * t' := Int.mul_le_mul_of_nonneg_left ht hc
  omega

theorem stepPending_valid {env : StakeEnv} {p : Pending} (hp : p.valid) {b : Body} (hb : bodyAmountsValid b = true) :
    (stepPending env p b).valid := by
  cases b with
  | delegate v amt =>
    simp only [bodyAmountsValid, decide_eq_true_eq] at hb
    simp only [stepPending]; split
    · exact hp
    · exact valid_add hp v hb hb
  | redelegate src dst amt =>
    simp only [bodyAmountsValid, decide_eq_true_eq] at hb
    have hamt : 0 ≤ (if src = dst then (0 : Int) else amt) := by split <;> omega
    simp only [stepPending]; split
    · exact hp
    · exact valid_add hp dst hamt (le_refl 0)
  | _ => exact hp

/-- one step keeps `endOK`: the message's own check covers its target, and a growing total only
    lowers everybody else's share -/
theorem endOK_step {cap : Int} (hc : 0 ≤ cap) {env : StakeEnv} {p : Pending} (hp : p.valid)
    {b : Body} (hb : bodyAmountsValid b = true) (hend : endOK cap env p = true)
    (hk : capOK cap env p b = true) : endOK cap env (stepPending env p b) = true := by
  have key : ∀ (v : String) (a t : Int) (tok : Int), env.tokens v = some tok → 0 ≤ t →
      shareBelow cap (tok + (p.get v + a)) (env.total + (p.total + t)) = true →
      endOK cap env (p.add v a t) = true := by
    intro v a t tok hv ht hs
    unfold endOK
    rw [List.all_eq_true]
    intro e hem
    have hcase : e.1 = v ∨ e ∈ p.byVal := by
      simp only [Pending.add, List.mem_cons] at hem
      rcases hem with rfl | h'
      · exact Or.inl rfl
      · exact Or.inr h'
    by_cases hev : e.1 = v
    · rw [hev, hv]
      simp only [get_add, total_add, if_true]
      have : tok + (a + p.get v) = tok + (p.get v + a) := by omega
      rw [this]; exact hs
    · rcases hcase with h1 | h2
      · exact absurd h1 hev
      · have := (List.all_eq_true.mp hend) e h2
        cases hte : env.tokens e.1 with
        | none => rfl
        | some tok' =>
          simp only [hte] at this ⊢
          simp only [get_add, total_add, if_neg (Ne.symm hev), Int.zero_add]
          exact shareBelow_mono hc (by omega) this
  cases b with
  | delegate v amt =>
    simp only [bodyAmountsValid, decide_eq_true_eq] at hb
    simp only [capOK, stepPending] at hk ⊢
    cases ht : env.tokens v with
    | none => simpa [ht] using hend
    | some tok => simp only [ht] at hk ⊢; exact key v amt amt tok ht hb hk
  | redelegate src dst amt =>
    simp only [capOK, stepPending] at hk ⊢
    cases ht : env.tokens dst with
    | none => simpa [ht] using hend
    | some tok =>
      simp only [ht] at hk ⊢
      exact key dst _ 0 tok ht (le_refl 0) (by simpa using hk)
  | other => exact hend
  | createVal r cv ca => exact hend
  | editVal r => exact hend

theorem endOK_final {cap : Int} (hc : 0 ≤ cap) {env : StakeEnv} : ∀ (ls : List Leaf) (p : Pending), p.valid →
    (∀ l ∈ ls, bodyAmountsValid l.body = true) → endOK cap env p = true → seqCapOK cap env p ls = true →
    endOK cap env (finalPending env p ls) = true
  | [], _, _, _, hend, _ => hend
  | l :: ls, p, hp, hb, hend, hs => by
    simp only [seqCapOK, Bool.and_eq_true] at hs
    simp only [finalPending]
    have hbl := hb l (by simp)
    exact endOK_final hc ls _ (stepPending_valid hp hbl) (fun l' hl' => hb l' (by simp [hl']))
      (endOK_step hc hp hbl hend hs.1) hs.2

/-! ### validators created by the transaction itself: the stake only grows -/

/-- `e` extends `e0`: at least the total, and every validator of `e0` with the same tokens -/
def Ext (e0 e : StakeEnv) : Prop := e0.total ≤ e.total ∧ ∀ v tok, e0.tokens v = some tok → e.tokens v = some tok

theorem ext_refl (e : StakeEnv) : Ext e e := ⟨le_refl _, fun _ _ h => h⟩

theorem tokens_cons (t : Int) (v : String) (a : Int) (vals : List (String × Int)) (w : String) :
    StakeEnv.tokens ⟨t, (v, a) :: vals⟩ w = if v = w then some a else StakeEnv.tokens ⟨t, vals⟩ w := by
  unfold StakeEnv.tokens
  simp only [List.find?]
  by_cases h : v = w
  · simp [h]
  · simp [h]

theorem ext_create {e0 e : StakeEnv} (hx : Ext e0 e) {b : Body} (hb : bodyAmountsValid b = true) :
    Ext e0 (createEnv e b) := by
  cases b with
  | createVal r v value =>
    simp only [bodyAmountsValid, decide_eq_true_eq] at hb
    simp only [createEnv]
    cases ht : e.tokens v with
    | some tok => exact hx
    | none =>
      refine ⟨by have := hx.1; simp only; omega, ?_⟩
      intro w tok hw
      have hew := hx.2 w tok hw
      obtain ⟨t, vals⟩ := e
      rw [tokens_cons]
      by_cases hvw : v = w
      · subst hvw; rw [ht] at hew; cases hew
      · rw [if_neg hvw]; exact hew
  | _ => exact hx

theorem capOK_ext {cap : Int} (hc : 0 ≤ cap) {e0 e : StakeEnv} (hx : Ext e0 e) {p : Pending} {b : Body}
    (hk : targetsKnown e0 b = true) (h : capOK cap e0 p b = true) : capOK cap e p b = true := by
  cases b with
  | delegate v amt =>
    simp only [targetsKnown] at hk
    simp only [capOK] at h ⊢
    cases ht : e0.tokens v with
    | none => simp [ht] at hk
    | some tok =>
      rw [ht] at h; rw [hx.2 v tok ht]
      exact shareBelow_mono hc (by have := hx.1; omega) h
  | redelegate src dst amt =>
    simp only [targetsKnown] at hk
    simp only [capOK] at h ⊢
    cases ht : e0.tokens dst with
    | none => simp [ht] at hk
    | some tok =>
      rw [ht] at h; rw [hx.2 dst tok ht]
      exact shareBelow_mono hc (by have := hx.1; omega) h
  | _ => rfl

theorem stepPending_ext {e0 e : StakeEnv} (hx : Ext e0 e) (p : Pending) {b : Body}
    (hk : targetsKnown e0 b = true) : stepPending e p b = stepPending e0 p b := by
  cases b with
  | delegate v amt =>
    simp only [targetsKnown] at hk
    simp only [stepPending]
    cases ht : e0.tokens v with
    | none => simp [ht] at hk
    | some tok => rw [hx.2 v tok ht]
  | redelegate src dst amt =>
    simp only [targetsKnown] at hk
    simp only [stepPending]
    cases ht : e0.tokens dst with
    | none => simp [ht] at hk
    | some tok => rw [hx.2 dst tok ht]
  | _ => rfl

/-- every validator the pending stake mentions exists in `env` -/
def keysKnown (env : StakeEnv) (p : Pending) : Prop := ∀ x ∈ p.byVal, (env.tokens x.1).isSome = true

theorem keysKnown_step {env : StakeEnv} {p : Pending} (hk : keysKnown env p) (b : Body) :
    keysKnown env (stepPending env p b) := by
  cases b with
  | delegate v amt =>
    simp only [stepPending]
    cases ht : env.tokens v with
    | none => exact hk
    | some tok =>
      intro x hx
      simp only [Pending.add, List.mem_cons] at hx
      rcases hx with rfl | hx
      · simp [ht]
      · exact hk x hx
  | redelegate src dst amt =>
    simp only [stepPending]
    cases ht : env.tokens dst with
    | none => exact hk
    | some tok =>
      intro x hx
      simp only [Pending.add, List.mem_cons] at hx
      rcases hx with rfl | hx
      · simp [ht]
      · exact hk x hx
  | _ => exact hk

theorem keysKnown_final {env : StakeEnv} : ∀ (ls : List Leaf) (p : Pending), keysKnown env p →
    keysKnown env (finalPending env p ls)
  | [], _, h => h
  | l :: ls, p, h => by simp only [finalPending]; exact keysKnown_final ls _ (keysKnown_step h l.body)

theorem endOK_ext {cap : Int} (hc : 0 ≤ cap) {e0 e : StakeEnv} (hx : Ext e0 e) {p : Pending}
    (hk : keysKnown e0 p) (h : endOK cap e0 p = true) : endOK cap e p = true := by
  unfold endOK at h ⊢
  rw [List.all_eq_true] at h ⊢
  intro x hxm
  have h1 := h x hxm
  have h2 := hk x hxm
  cases ht : e0.tokens x.1 with
  | none => simp [ht] at h2
  | some tok =>
    rw [ht] at h1; rw [hx.2 x.1 tok ht]
    exact shareBelow_mono hc (by have := hx.1; omega) h1

/-- what holds over the fixed base stake holds over the stake that also gains the created validators -/
theorem lift_seq {cap : Int} (hc : 0 ≤ cap) {e0 : StakeEnv} : ∀ (ls : List Leaf) (e : StakeEnv) (p : Pending), Ext e0 e →
    (∀ l ∈ ls, targetsKnown e0 l.body = true) → (∀ l ∈ ls, bodyAmountsValid l.body = true) →
    seqCapOK cap e0 p ls = true →
    seqCapOKx cap e p ls = true ∧ (finalX e p ls).2 = finalPending e0 p ls ∧ Ext e0 (finalX e p ls).1
  | [], e, p, hx, _, _, _ => ⟨rfl, rfl, hx⟩
  | l :: ls, e, p, hx, hk, hb, hs => by
    simp only [seqCapOK, Bool.and_eq_true] at hs
    have hkl := hk l (by simp)
    have hbl := hb l (by simp)
    have hstep := stepPending_ext hx p hkl
    obtain ⟨i1, i2, i3⟩ := lift_seq hc ls (createEnv e l.body) (stepPending e0 p l.body) (ext_create hx hbl)
      (fun l' hl' => hk l' (by simp [hl'])) (fun l' hl' => hb l' (by simp [hl'])) hs.2
    simp only [seqCapOKx, finalX, finalPending, hstep, Bool.and_eq_true]
    exact ⟨⟨capOK_ext hc hx hkl hs.1, i1⟩, i2, i3⟩

/-- clauses 2 and 3, for any configuration that unwraps MsgExec -/
theorem staking_generic {cfg : ComCfg} (hu : cfg.unwrap = true) (hcum : cfg.cumulative = true) (hcap : (100 : Int) ∣ cfg.maxVotingPower)
    (hc0 : 0 ≤ cfg.maxVotingPower)
    (env : StakeEnv) (ms : List Msg) (he : envValid env = true) (ha : amountsValid ms = true)
    (h : comDecide cfg env ms = .ok true) :
    stakingOK true cfg.minCommission cfg.maxVotingPower env ms = true := by
  unfold comDecide comRun comMsgs at h
  rw [if_pos hu] at h
  have hb : ∀ l ∈ leavesList ms, bodyAmountsValid l.body = true := List.all_eq_true.mp ha
  cases hr : validateAll cfg env Pending.empty (leavesList ms) with
  | error e => simp [hr, Except.map] at h
  | ok o =>
    cases o with
    | none => simp [hr, Except.map] at h
    | some q =>
      obtain ⟨h1, h2, h3, hkn⟩ := validateAll_sound hcum hcap he _ _ q valid_empty hb hr
      have hend0 : endOK cfg.maxVotingPower env Pending.empty = true := by simp [endOK, Pending.empty]
      have h4 := endOK_final hc0 _ _ valid_empty hb hend0 h2
      have hk0 : keysKnown env Pending.empty := by intro x hx; simp [Pending.empty] at hx
      have hkf := keysKnown_final (leavesList ms) _ hk0
      obtain ⟨l1, l2, l3⟩ := lift_seq hc0 (leavesList ms) env Pending.empty (ext_refl env) hkn hb h2
      simp only [stakingOK, Bool.not_true, Bool.false_or, Bool.and_eq_true]
      refine ⟨⟨List.all_eq_true.mpr h1, l1⟩, ?_⟩
      rw [l2]
      exact endOK_ext hc0 l3 hkf h4

end Sif.Ante
