import Sif.Proofs.ClpState
import Sif.Proofs.RatFloor
/-
  Liquidity protection in the AMM slice: the current threshold never exceeds the maximum, selling native
  never raises it, a native sale worth more than the threshold is refused.
-/
namespace Sif.Clp
open Sif

theorem lpUpdate_le_max {cur mx amount c : Nat} {sell : Bool} {price : Dec}
    (hle : cur ≤ mx) (h : lpUpdate cur mx sell amount price = .ok c) : c ≤ mx := by
  unfold lpUpdate at h
  obtain ⟨v, _, h⟩ := bind_ok h
  cases sell with
  | true =>
    simp only [if_true] at h
    split at h
    · cases h
    · have := (Uint.sub_ok h).1; omega
  | false =>
    simp only [Bool.false_eq_true, if_false] at h
    obtain ⟨room, hr, h⟩ := bind_ok h
    have hr := Uint.sub_ok hr
    split at h
    · cases h; exact Nat.le_refl _
    · have := (Uint.add_ok h).1; omega

theorem lpUpdate_sell_le {cur mx amount c : Nat} {price : Dec}
    (h : lpUpdate cur mx true amount price = .ok c) : c ≤ cur := by
  unfold lpUpdate at h
  obtain ⟨v, _, h⟩ := bind_ok h
  simp only [if_true] at h
  split at h
  · cases h
  · have := (Uint.sub_ok h).1; omega

theorem lpSwapAfter_le_max {cur mx amt y c : Nat} {price : Option Dec} {sent recv : String} {f : Dec}
    (hle : cur ≤ mx) (h : lpSwapAfter cur mx price sent recv amt y f = .ok c) : c ≤ mx := by
  unfold lpSwapAfter at h
  cases price with
  | none => cases h; exact hle
  | some p =>
    simp only at h
    obtain ⟨c1, h1, h⟩ := bind_ok h
    have hc1 : c1 ≤ mx := by
      unfold lpSwapSold at h1
      split at h1
      · obtain ⟨d, _, h1⟩ := bind_ok h1
        exact lpUpdate_le_max hle (liftM_ok h1)
      · cases h1; exact hle
    unfold lpSwapBought at h
    split at h
    · exact lpUpdate_le_max hc1 (liftM_ok h)
    · cases h; exact hc1

/-- a successful swap keeps the current threshold at or below the maximum -/
theorem swap_lpCur_le {s s' : St} {signer sent recv : String} {amt mn y : Nat}
    (hle : s.lpCur ≤ s.params.lpMax) (h : swap s signer sent recv amt mn = .ok (s', y)) :
    s'.lpCur ≤ s.params.lpMax := by
  unfold swap at h
  obtain ⟨price, _, h⟩ := bind_ok h
  obtain ⟨⟨s4, y'⟩, _, h⟩ := bind_ok h
  obtain ⟨c, hc, h⟩ := bind_ok h
  cases h
  exact lpSwapAfter_le_max hle hc

/-- protection on, selling native: a sale worth more than the current threshold is refused -/
theorem swap_blocked {s : St} {signer recv : String} {amt mn : Nat} {price : Dec} {v : Nat}
    (hact : s.params.lpActive = true) (hp : nativePrice s = .ok price) (hv : rowanValue amt price = .ok v)
    (hlt : s.lpCur < v) (r : St × Nat) : swap s signer rowan recv amt mn ≠ .ok r := by
  intro h
  unfold swap at h
  obtain ⟨pr, hb, _⟩ := bind_ok h
  unfold lpSwapBefore at hb
  rw [if_pos hact] at hb
  obtain ⟨p, hp', hb⟩ := bind_ok hb
  rw [hp] at hp'; cases hp'
  rw [if_pos rfl] at hb
  obtain ⟨v', hv', hb⟩ := bind_ok hb
  have := liftM_ok hv'; rw [hv] at this; cases this
  obtain ⟨_, hg, _⟩ := bind_ok hb
  have := guardR_ok hg
  simp at this
  omega

/-- a successful add keeps the current threshold at or below the maximum -/
theorem addLiquidity_lpCur_le {s s' : St} {signer sym : String} {n e : Nat}
    (hle : s.lpCur ≤ s.params.lpMax) (h : addLiquidity s signer sym n e = .ok s') :
    s'.lpCur ≤ s.params.lpMax := by
  unfold addLiquidity at h
  obtain ⟨c, hc, h⟩ := bind_ok h
  obtain ⟨s0, _, h⟩ := bind_ok h
  cases h
  show c ≤ _
  unfold addLiquidityLp at hc
  obtain ⟨pool, _, hc⟩ := bind_ok hc
  obtain ⟨⟨nD, eD⟩, _, hc⟩ := bind_ok hc
  obtain ⟨uo, _, hc⟩ := bind_ok hc
  obtain ⟨u, _, hc⟩ := bind_ok hc
  unfold lpAdd at hc
  split at hc
  · split at hc
    · cases hc; exact hle
    · obtain ⟨price, _, hc⟩ := bind_ok hc
      obtain ⟨v, _, hc⟩ := bind_ok hc
      obtain ⟨_, _, hc⟩ := bind_ok hc
      obtain ⟨d, _, hc⟩ := bind_ok hc
      exact lpUpdate_le_max hle (liftM_ok hc)
    · obtain ⟨res, _, hc⟩ := bind_ok hc
      obtain ⟨price, _, hc⟩ := bind_ok hc
      exact lpUpdate_le_max hle (liftM_ok hc)
  · cases hc; exact hle

/-- the per-block replenishment never lifts the threshold above the maximum -/
theorem lpBeginBlock_le {s s' : St} {n : Nat} (h : lpBeginBlock s n = .ok s') :
    s'.lpCur ≤ s'.params.lpMax ∨ (s.params.lpActive = false ∧ s' = s) := by
  unfold lpBeginBlock at h
  split at h
  · obtain ⟨rep, _, h⟩ := bind_ok h
    obtain ⟨room, hr, h⟩ := bind_ok h
    have hr := Uint.sub_ok hr
    split at h
    · cases h; exact Or.inl (Nat.le_refl _)
    · obtain ⟨c, hc, h⟩ := bind_ok h
      cases h
      have := (Uint.add_ok hc).1
      left; show c ≤ s.params.lpMax; omega
  · cases h; right; exact ⟨Bool.eq_false_iff.mpr ‹_›, rfl⟩

end Sif.Clp
