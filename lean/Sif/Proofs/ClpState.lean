import Sif.Model.Clp.Msgs
import Sif.Proofs.AList
import Sif.Proofs.Except
/- Frame lemmas for the primitive state updates of the AMM model (core tactics only). -/

theorem Sif.em_eq (p : Prop) [Decidable p] : (p = True) ∨ (p = False) := by
  by_cases h : p
  · exact Or.inl (eq_true h)
  · exact Or.inr (eq_false h)

/-- case split on a proposition, keeping it as a rewrite rule `p = True` / `p = False` (so that
    `simp only [h]` decides every `if p then … else …` without rewriting inside `p`) -/
macro "split_prop " h:ident " : " t:term : tactic =>
  `(tactic| (cases (Sif.em_eq $t) with | inl $h => ?_ | inr $h => ?_))

namespace Sif.Clp
open Sif Sif.AList

theorem poolKey_inj {a b : String} (h : poolKey a = poolKey b) : a = b := by
  unfold poolKey at h
  have := congrArg String.toList h
  simp [String.toList_append] at this
  exact String.ext this

theorem poolKey_ne {a b : String} (h : a ≠ b) : poolKey a ≠ poolKey b := fun e => h (poolKey_inj e)

/-! ### bank -/

theorem bal_setBal (s : St) (a d : String) (v : Nat) (a' d' : String) :
    (s.setBal a d v).bal a' d' = if a = a' ∧ d = d' then v else s.bal a' d' := by
  unfold St.setBal St.bal
  simp only [get_set]
  by_cases ha : a = a'
  · subst ha
    by_cases hd : d = d'
    · subst hd; simp [get_set]
    · simp [get_set, hd]
  · simp [ha]

@[simp] theorem setBal_pools (s : St) (a d : String) (v : Nat) : (s.setBal a d v).pools = s.pools := rfl
@[simp] theorem setBal_lps (s : St) (a d : String) (v : Nat) : (s.setBal a d v).lps = s.lps := rfl
@[simp] theorem setBal_buckets (s : St) (a d : String) (v : Nat) : (s.setBal a d v).buckets = s.buckets := rfl
@[simp] theorem setBal_params (s : St) (a d : String) (v : Nat) : (s.setBal a d v).params = s.params := rfl
@[simp] theorem setBal_height (s : St) (a d : String) (v : Nat) : (s.setBal a d v).height = s.height := rfl
@[simp] theorem setBal_accu (s : St) (a d : String) (v : Nat) : (s.setBal a d v).accu = s.accu := rfl
@[simp] theorem setBal_lpsOf (s : St) (a d : String) (v : Nat) (sym : String) : (s.setBal a d v).lpsOf sym = s.lpsOf sym := rfl
@[simp] theorem setBal_getPool (s : St) (a d : String) (v : Nat) (sym : String) : (s.setBal a d v).getPool sym = s.getPool sym := rfl

/-- what a successful `send` did -/
theorem send_spec {s s' : St} {src dst denom : String} {amt : Nat} (h : send s src dst denom amt = some s')
    (hne : src ≠ dst) :
    amt ≤ s.bal src denom ∧
    (∀ a d, s'.bal a d = if a = src ∧ d = denom then s.bal a d - amt
                          else if a = dst ∧ d = denom then s.bal a d + amt else s.bal a d) ∧
    s'.pools = s.pools ∧ s'.lps = s.lps ∧ s'.buckets = s.buckets ∧ s'.params = s.params ∧ s'.height = s.height
    ∧ s'.accu = s.accu := by
  unfold send at h
  by_cases h0 : amt = 0
  · rw [if_pos h0] at h
    injection h with h; subst h; subst h0
    refine ⟨by omega, ?_, rfl, rfl, rfl, rfl, rfl, rfl⟩
    intro a d
    by_cases h1 : a = src ∧ d = denom
    · simp [h1]
    · by_cases h2 : a = dst ∧ d = denom <;> simp [h1, h2]
  · rw [if_neg h0] at h
    by_cases hlt : s.bal src denom < amt
    · rw [if_pos hlt] at h; cases h
    · rw [if_neg hlt] at h
      injection h with h; subst h
      refine ⟨by omega, ?_, rfl, rfl, rfl, rfl, rfl, rfl⟩
      intro a d
      simp only [bal_setBal]
      grind

/-! ### pools -/

theorem getPool_setPool (s : St) (p : Pool) (sym : String) :
    (s.setPool p).getPool sym = if p.sym = sym then some p else s.getPool sym := by
  unfold St.setPool St.getPool
  simp only [get_set]
  by_cases h : p.sym = sym
  · simp [h]
  · simp [h, poolKey_ne h]

@[simp] theorem setPool_bank (s : St) (p : Pool) : (s.setPool p).bank = s.bank := rfl
@[simp] theorem setPool_bal (s : St) (p : Pool) (a d : String) : (s.setPool p).bal a d = s.bal a d := rfl
@[simp] theorem setPool_lps (s : St) (p : Pool) : (s.setPool p).lps = s.lps := rfl
@[simp] theorem setPool_lpsOf (s : St) (p : Pool) (sym : String) : (s.setPool p).lpsOf sym = s.lpsOf sym := rfl
@[simp] theorem setPool_buckets (s : St) (p : Pool) : (s.setPool p).buckets = s.buckets := rfl
@[simp] theorem setPool_params (s : St) (p : Pool) : (s.setPool p).params = s.params := rfl
@[simp] theorem setPool_height (s : St) (p : Pool) : (s.setPool p).height = s.height := rfl

/-! ### providers -/

theorem lpsOf_setLP (s : St) (lp : LP) (sym : String) :
    (s.setLP lp).lpsOf sym = if lp.sym = sym then (s.lpsOf lp.sym).set lp.addr lp else s.lpsOf sym := by
  unfold St.setLP St.lpsOf
  simp only [get_set]
  by_cases h : lp.sym = sym <;> simp [h]

theorem lpsOf_eraseLP (s : St) (sy addr sym : String) :
    (s.eraseLP sy addr).lpsOf sym = if sy = sym then (s.lpsOf sy).erase addr else s.lpsOf sym := by
  unfold St.eraseLP St.lpsOf
  simp only [get_set]
  by_cases h : sy = sym <;> simp [h]

@[simp] theorem setLP_pools (s : St) (lp : LP) : (s.setLP lp).pools = s.pools := rfl
@[simp] theorem setLP_getPool (s : St) (lp : LP) (sym : String) : (s.setLP lp).getPool sym = s.getPool sym := rfl
@[simp] theorem setLP_bal (s : St) (lp : LP) (a d : String) : (s.setLP lp).bal a d = s.bal a d := rfl
@[simp] theorem setLP_buckets (s : St) (lp : LP) : (s.setLP lp).buckets = s.buckets := rfl
@[simp] theorem setLP_params (s : St) (lp : LP) : (s.setLP lp).params = s.params := rfl
@[simp] theorem eraseLP_pools (s : St) (sy a : String) : (s.eraseLP sy a).pools = s.pools := rfl
@[simp] theorem eraseLP_getPool (s : St) (sy a sym : String) : (s.eraseLP sy a).getPool sym = s.getPool sym := rfl
@[simp] theorem eraseLP_bal (s : St) (sy a : String) (x d : String) : (s.eraseLP sy a).bal x d = s.bal x d := rfl
@[simp] theorem eraseLP_buckets (s : St) (sy a : String) : (s.eraseLP sy a).buckets = s.buckets := rfl
@[simp] theorem eraseLP_params (s : St) (sy a : String) : (s.eraseLP sy a).params = s.params := rfl

/-! ### `R` plumbing -/

theorem optR_ok {α} {o : Option α} {a : α} (h : optR o = .ok a) : o = some a := by
  cases o <;> simp [optR] at h; exact congrArg some h

theorem guardR_ok {b : Bool} {u : Unit} (h : guardR b = .ok u) : b = true := by
  cases b <;> simp [guardR] at h; rfl

theorem liftM_ok {α} {m : M α} {a : α} (h : liftM m = .ok a) : m = .ok a := by
  cases m <;> simp [liftM] at h; exact congrArg Except.ok h

end Sif.Clp

namespace Sif.Clp
open Sif Sif.AList

/-- a `send` never touches anything but the bank -/
theorem send_frame {s s' : St} {src dst denom : String} {amt : Nat} (h : send s src dst denom amt = some s') :
    s'.pools = s.pools ∧ s'.lps = s.lps ∧ s'.buckets = s.buckets ∧ s'.params = s.params ∧ s'.height = s.height
    ∧ s'.accu = s.accu := by
  unfold send at h
  split at h
  · cases h; exact ⟨rfl, rfl, rfl, rfl, rfl, rfl⟩
  · split at h
    · cases h
    · cases h; exact ⟨rfl, rfl, rfl, rfl, rfl, rfl⟩

theorem sendFromModule_frame {s s' : St} {dst denom : String} {amt : Nat} (h : sendFromModule s dst denom amt = some s') :
    s'.pools = s.pools ∧ s'.lps = s.lps ∧ s'.buckets = s.buckets ∧ s'.params = s.params ∧ s'.height = s.height
    ∧ s'.accu = s.accu := by
  unfold sendFromModule at h
  split at h
  · cases h
  · exact send_frame h

end Sif.Clp

namespace Sif.Clp
open Sif Sif.AList

/-- coins entering the module account -/
theorem send_in_bal {s s' : St} {src d0 : String} {amt : Nat} (h : send s src clpAcct d0 amt = some s')
    (hne : src ≠ clpAcct) (d : String) : s'.bal clpAcct d = s.bal clpAcct d + (if d = d0 then amt else 0) := by
  obtain ⟨_, b, _⟩ := send_spec h hne
  rw [b]
  have : clpAcct ≠ src := Ne.symm hne
  grind

/-- coins leaving the module account: it loses at most `amt` of `d0` and nothing else -/
theorem send_out_bal {s s' : St} {dst d0 : String} {amt : Nat} (h : send s clpAcct dst d0 amt = some s')
    (d : String) : s.bal clpAcct d ≤ s'.bal clpAcct d + (if d = d0 then amt else 0) := by
  by_cases hd : dst = clpAcct
  · subst hd
    unfold send at h
    split at h
    · cases h; omega
    · split at h
      · cases h
      · cases h
        simp only [bal_setBal]
        grind
  · obtain ⟨hle, b, _⟩ := send_spec h (Ne.symm hd)
    rw [b]
    grind

/-- a successful swap is a successful core swap whose result differs only in the liquidity-protection
    threshold -/
theorem swap_ok {s s' : St} {signer sent recv : String} {amt mn y : Nat}
    (h : swap s signer sent recv amt mn = .ok (s', y)) :
    ∃ s4 c, swapCore s signer sent recv amt mn = .ok (s4, y) ∧ s' = { s4 with lpCur := c } := by
  unfold swap at h
  obtain ⟨price, _, h⟩ := bind_ok h
  obtain ⟨⟨s4, y'⟩, hc, h⟩ := bind_ok h
  obtain ⟨c, _, h⟩ := bind_ok h
  cases h
  exact ⟨s4, c, hc, rfl⟩

/-- a successful add is a successful core add whose result differs only in the threshold -/
theorem addLiquidity_ok {s s' : St} {signer sym : String} {n e : Nat}
    (h : addLiquidity s signer sym n e = .ok s') :
    ∃ s0 c, addLiquidityCore s signer sym n e = .ok s0 ∧ s' = { s0 with lpCur := c } := by
  unfold addLiquidity at h
  obtain ⟨c, _, h⟩ := bind_ok h
  obtain ⟨s0, hc, h⟩ := bind_ok h
  cases h
  exact ⟨s0, c, hc, rfl⟩

end Sif.Clp
