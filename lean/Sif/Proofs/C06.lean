import Sif.Spec.C06
import Sif.Proofs.C05
import Sif.Proofs.BridgeBank
/- helper lemmas for the C06 theorems: what `CreateEthBridgeClaim` does to bank, peggy list and oracle -/
set_option linter.unusedSimpArgs false
set_option linter.unusedVariables false
namespace Sif.EthBridge
open Sif.Oracle Sif.Bank Sif.Spec.C06

theorem mintAndSend_ok {b b' : Bank} {recv : Nat} {denom : String} {n : Nat} (h : mintAndSend b recv denom n = .ok b') :
    blocked recv = false ∧ (∀ a d, b'.bal a d = b.bal a d + at_ recv denom n a d) ∧
    (∀ d, b'.supply d = b.supply d + atD denom n d) := by
  unfold mintAndSend at h
  split at h
  · cases h
  · rename_i b1 h1
    split at h
    · cases h
    · rename_i b2 h2
      cases h
      obtain ⟨m1, m2⟩ := mintCoin_ok h1
      obtain ⟨hb, s1, s2⟩ := sendFromModule_ok h2
      refine ⟨hb, ?_, ?_⟩
      · intro a d
        have := m1 a d
        have := s1 a d
        omega
      · intro d; rw [s2]; exact m2 d

/-- what a successful `ProcessSuccessfulClaim` did: exactly the credit of the final claim -/
theorem processSuccessfulClaim_ok {s s' : BState} {fin : Content} (h : processSuccessfulClaim s fin = .ok s') :
    ∃ c, creditOf fin = some c ∧ blocked c.1 = false ∧
      (∀ a d, s'.bank.bal a d = s.bank.bal a d + at_ c.1 c.2.1 c.2.2 a d) ∧
      (∀ d, s'.bank.supply d = s.bank.supply d + atD c.2.1 c.2.2 d) ∧
      s'.oracle = s.oracle ∧ s'.paused = s.paused ∧ s'.cethReceiver = s.cethReceiver ∧ s'.blacklist = s.blacklist ∧
      s'.bridgeAdmins = s.bridgeAdmins ∧
      (s'.peggy = s.peggy ∨ (∃ sym, s'.peggy = addPeggy s.peggy (peggedPrefix ++ sym) ∧ c.2.1 = peggedPrefix ++ sym)) ∧
      (∀ r a sym t, fin = .eth r a sym t 2 → s'.peggy = addPeggy s.peggy (peggedPrefix ++ sym)) := by
  unfold processSuccessfulClaim at h
  split at h
  · cases h
  · rename_i recv amount symbol tok ctype
    split at h
    · rename_i h2
      simp only at h
      split at h
      · cases h
      · rename_i hval
        split at h
        · cases h
        · rename_i b hb
          cases h
          obtain ⟨k1, k2, k3⟩ := mintAndSend_ok hb
          have hamt : ¬ amount < 0 := by
            intro hneg; apply hval; simp [hneg]
          refine ⟨(recv, peggedPrefix ++ symbol, amount.toNat), ?_, k1, k2, k3, rfl, rfl, rfl, rfl, rfl, Or.inr ⟨symbol, rfl, rfl⟩, ?_⟩
          · simp [creditOf, hamt, h2]
          · intro r a sym t e; cases e; rfl
    · rename_i h2
      split at h
      · rename_i h1
        split at h
        · cases h
        · rename_i hval
          split at h
          · cases h
          · rename_i b hb
            cases h
            obtain ⟨k1, k2, k3⟩ := mintAndSend_ok hb
            have hamt : ¬ amount < 0 := by
              intro hneg; apply hval; simp [hneg]
            refine ⟨(recv, symbol, amount.toNat), ?_, k1, k2, k3, rfl, rfl, rfl, rfl, rfl, Or.inl rfl, ?_⟩
            · simp [creditOf, hamt, h2, h1]
            · intro r a sym t e; cases e; omega
      · cases h

/-- what a successful `CreateEthBridgeClaim` did -/
theorem createClaim_ok {ord : List Group → List Group} {vals : List Validator} {s s' : BState} {m : ClaimMsg}
    {status : StatusText} (h : createClaim ord vals s m = .ok (s', status)) :
    ∃ o fin, processClaim ord vals s.oracle (claimOf m) = .ok (o, status, fin) ∧ s'.oracle = o ∧
      s'.paused = s.paused ∧ s'.cethReceiver = s.cethReceiver ∧ s'.blacklist = s.blacklist ∧ s'.bridgeAdmins = s.bridgeAdmins ∧
      ((status = .success ∧ processSuccessfulClaim { s with oracle := o } fin = .ok s') ∨
       (status ≠ .success ∧ s' = { s with oracle := o })) := by
  unfold createClaim at h
  split at h
  · cases h
  · rename_i o status' fin hp
    split at h
    · rename_i hs
      split at h
      · cases h
      · rename_i s2 h2
        cases h
        obtain ⟨c, _, _, _, _, e1, e2, e3, e4, e5, _⟩ := processSuccessfulClaim_ok h2
        exact ⟨o, fin, hp, e1, e2, e3, e4, e5, Or.inl ⟨hs, h2⟩⟩
    · rename_i hs
      cases h
      exact ⟨o, fin, hp, rfl, rfl, rfl, rfl, rfl, Or.inr ⟨hs, rfl⟩⟩

theorem map_ok {ε α β} {g : α → β} {x : Except ε α} {r : β} (h : x.map g = .ok r) : ∃ y, x = .ok y ∧ r = g y := by
  cases x with
  | error e => cases h
  | ok y => cases h; exact ⟨y, rfl, rfl⟩

theorem handle_ok_not_failed {ord : List Group → List Group} {vals : List Validator} {s : BState} {m : Msg}
    {r : BState × Out} (h : handle ord vals s m = .ok r) (f : Fail) : r.2 ≠ .failed f := by
  cases m <;> simp only [handle] at h <;> obtain ⟨y, _, e⟩ := map_ok h <;> subst e <;> simp

/-- a refused or panicking message changes nothing (the transaction wrapper) -/
theorem deliver_failed {ord : List Group → List Group} {vals : List Validator} {s : BState} {m : Msg} {f : Fail}
    (h : (deliver ord vals s m).2 = .failed f) : (deliver ord vals s m).1 = s := by
  unfold deliver at h ⊢
  split
  · rfl
  · rename_i hv
    simp only [hv, if_false] at h
    cases hh : handle ord vals s m with
    | error e => rfl
    | ok r =>
      rw [hh] at h
      exact (handle_ok_not_failed hh f h).elim

theorem deliver_claim_cases (ord : List Group → List Group) (vals : List Validator) (s : BState) (m : ClaimMsg) :
    (∃ f, deliver ord vals s (.claim m) = (s, .failed f)) ∨
    (∃ s' status, createClaim ord vals s m = .ok (s', status) ∧ deliver ord vals s (.claim m) = (s', .claimed status)) := by
  unfold deliver
  by_cases hv : validateBasic (.claim m) = true
  · simp only [hv, Bool.not_true, Bool.false_eq_true, if_false]
    cases hc : createClaim ord vals s m with
    | error f => left; exact ⟨f, by simp [handle, hc, Except.map]⟩
    | ok r => right; exact ⟨r.1, r.2, rfl, by simp [handle, hc, Except.map]⟩
  · left
    have : validateBasic (.claim m) = false := by simpa using hv
    exact ⟨.err .validate, by simp [this]⟩

theorem claimed_id (ord : List Group → List Group) (vals : List Validator) (st : OState) (c : Claim) :
    (claimed ord vals st c).id = c.id := by
  unfold claimed processCompletion
  rw [(processCompletionOn_groups _ _ _ _).2.2]
  exact getD_id _ _

theorem target_status (st : OState) (c : Claim) : (target st c).status = statusOf st c.id := by
  unfold target statusOf
  cases getProphecy st.prophecies c.id <;> rfl

/-- after an accepted claim the stored status / final claim are the ones `ProcessClaim` returned, and the
    prophecy was pending (or absent) before -/
theorem processClaim_status {ord : List Group → List Group} {vals : List Validator} {st st' : OState} {c : Claim}
    {s : StatusText} {f : Content} (h : processClaim ord vals st c = .ok (st', s, f)) :
    statusOf st c.id = .pending ∧ statusOf st' c.id = s ∧ finalOf st' c.id = f := by
  obtain ⟨_, _, _, h4, _, e1, e2, e3⟩ := processClaim_ok h
  have hget : getProphecy st'.prophecies c.id = some (claimed ord vals st c) := by
    rw [e1, ← claimed_id ord vals st c]
    exact getProphecy_setProphecy_same _ _
  refine ⟨by rw [← target_status]; exact h4, ?_, ?_⟩
  · unfold statusOf; rw [hget]; exact e2.symm
  · unfold finalOf; rw [hget]; exact e3.symm

end Sif.EthBridge

namespace Sif.EthBridge
open Sif.Oracle Sif.Bank Sif.Spec.C06

theorem lock_ok_frame {s s' : BState} {m : PegMsg} {e : Event} (h : lock s m = .ok (s', e)) :
    s'.oracle = s.oracle ∧ s'.peggy = s.peggy ∧ s'.paused = s.paused ∧ s'.cethReceiver = s.cethReceiver ∧
    s'.blacklist = s.blacklist ∧ s'.bridgeAdmins = s.bridgeAdmins ∧ e = pegEvent "lock" m ∧ pegMove s m false = .ok s'.bank := by
  unfold lock at h
  repeat (split at h <;> try cases h)
  rename_i b hb
  exact ⟨rfl, rfl, rfl, rfl, rfl, rfl, rfl, hb⟩

theorem burn_ok_frame {s s' : BState} {m : PegMsg} {e : Event} (h : burn s m = .ok (s', e)) :
    s'.oracle = s.oracle ∧ s'.peggy = s.peggy ∧ s'.paused = s.paused ∧ s'.cethReceiver = s.cethReceiver ∧
    s'.blacklist = s.blacklist ∧ s'.bridgeAdmins = s.bridgeAdmins ∧ e = pegEvent "burn" m ∧ pegMove s m true = .ok s'.bank := by
  unfold burn at h
  repeat (split at h <;> try cases h)
  rename_i b hb
  exact ⟨rfl, rfl, rfl, rfl, rfl, rfl, rfl, hb⟩

theorem oracle_updateWhiteList_ok {st o : OState} {a v : Nat} {op : String} (h : Oracle.updateWhiteList st a v op = .ok o) :
    o.prophecies = st.prophecies ∧ o.admin = st.admin := by
  unfold Oracle.updateWhiteList at h
  split at h
  · cases h
  · split at h
    · cases h; exact ⟨rfl, rfl⟩
    · split at h
      · cases h; exact ⟨rfl, rfl⟩
      · cases h

/-- messages other than claims never touch the stored prophecies -/
theorem deliver_nonclaim_prophecies (ord : List Group → List Group) (vals : List Validator) (s : BState) (m : Msg)
    (hm : m.isClaim = false) : (deliver ord vals s m).1.oracle.prophecies = s.oracle.prophecies := by
  unfold deliver
  split
  · rfl
  · cases hh : handle ord vals s m with
    | error e => rfl
    | ok r =>
      simp only
      cases m with
      | claim _ => simp [Msg.isClaim] at hm
      | lock pm =>
        simp only [handle] at hh
        obtain ⟨y, hy, e⟩ := map_ok hh
        subst e
        rw [(lock_ok_frame (s' := y.1) (e := y.2) hy).1]
      | burn pm =>
        simp only [handle] at hh
        obtain ⟨y, hy, e⟩ := map_ok hh
        subst e
        rw [(burn_ok_frame (s' := y.1) (e := y.2) hy).1]
      | pause a p =>
        simp only [handle] at hh
        obtain ⟨y, hy, e⟩ := map_ok hh
        subst e
        unfold setPause at hy
        split at hy <;> cases hy
        rfl
      | blacklist a l =>
        simp only [handle] at hh
        obtain ⟨y, hy, e⟩ := map_ok hh
        subst e
        unfold setBlacklist at hy
        split at hy <;> cases hy
        rfl
      | cethReceiver a r' =>
        simp only [handle] at hh
        obtain ⟨y, hy, e⟩ := map_ok hh
        subst e
        unfold setCethReceiver at hy
        repeat (split at hy <;> try cases hy)
        rfl
      | rescue a r' n =>
        simp only [handle] at hh
        obtain ⟨y, hy, e⟩ := map_ok hh
        subst e
        unfold rescueCeth at hy
        repeat (split at hy <;> try cases hy)
        rfl
      | whitelist a op v =>
        simp only [handle] at hh
        obtain ⟨y, hy, e⟩ := map_ok hh
        subst e
        unfold updateWhiteList at hy
        split at hy
        · cases hy
        · split at hy
          · cases hy
          · rename_i o ho
            cases hy
            exact (oracle_updateWhiteList_ok ho).1

end Sif.EthBridge

namespace Sif.EthBridge
open Sif.Oracle Sif.Bank Sif.Spec.C06

/-- a prophecy that is not pending is not touched by any delivered message -/
theorem deliver_nonpending_stable (ord : List Group → List Group) (vals : List Validator) (s : BState) (m : Msg) (id : String)
    (h : statusOf s.oracle id ≠ .pending) :
    getProphecy (deliver ord vals s m).1.oracle.prophecies id = getProphecy s.oracle.prophecies id := by
  cases m with
  | claim cm =>
    rcases deliver_claim_cases ord vals s cm with ⟨f, hd⟩ | ⟨s', status, hc, hd⟩
    · rw [hd]
    · rw [hd]
      obtain ⟨o, fin, hp, eo, _⟩ := createClaim_ok hc
      simp only
      rw [eo]
      by_cases hid : (claimOf cm).id = id
      · exact (h (hid ▸ (processClaim_status hp).1)).elim
      · -- a claim about another prophecy
        obtain ⟨_, _, _, _, _, e1, _, _⟩ := processClaim_ok hp
        rw [e1]
        apply getProphecy_setProphecy_other
        rw [claimed_id]; exact hid
  | lock pm => rw [deliver_nonclaim_prophecies ord vals s _ rfl]
  | burn pm => rw [deliver_nonclaim_prophecies ord vals s _ rfl]
  | pause a p => rw [deliver_nonclaim_prophecies ord vals s _ rfl]
  | blacklist a l => rw [deliver_nonclaim_prophecies ord vals s _ rfl]
  | cethReceiver a r => rw [deliver_nonclaim_prophecies ord vals s _ rfl]
  | rescue a r n => rw [deliver_nonclaim_prophecies ord vals s _ rfl]
  | whitelist a op v => rw [deliver_nonclaim_prophecies ord vals s _ rfl]

theorem statusOf_congr {o o' : OState} {id : String} (h : getProphecy o'.prophecies id = getProphecy o.prophecies id) :
    statusOf o' id = statusOf o id ∧ finalOf o' id = finalOf o id := by
  unfold statusOf finalOf; rw [h]; exact ⟨rfl, rfl⟩

theorem creditFor_cases (ord : List Group → List Group) (w : World) (st : Step) (id : String) :
    creditFor ord w st id = [] ∨
    ∃ m c, st = .msg (.claim m) ∧ (claimOf m).id = id ∧ (deliver ord w.vals w.s (.claim m)).2 = .claimed .success ∧
      creditOf (finalOf (deliver ord w.vals w.s (.claim m)).1.oracle id) = some c ∧ creditFor ord w st id = [c] := by
  cases st with
  | setVals v => left; rfl
  | restart => left; rfl
  | blocks n => left; rfl
  | msg m =>
    cases m with
    | claim cm =>
      by_cases hs : (deliver ord w.vals w.s (.claim cm)).2 = .claimed .success
      · cases hcr : creditOf (finalOf (deliver ord w.vals w.s (.claim cm)).1.oracle (claimOf cm).id) with
        | none => left; simp [creditFor, stepCredit, hs, hcr]
        | some c =>
          by_cases hid : (claimOf cm).id = id
          · right
            subst hid
            refine ⟨cm, c, rfl, rfl, hs, hcr, ?_⟩
            simp only [creditFor, stepCredit, hs, if_true, hcr, Option.map_some]
          · left; simp [creditFor, stepCredit, hs, hcr, hid]
      · left; simp [creditFor, stepCredit, hs]
    | lock pm => left; rfl
    | burn pm => left; rfl
    | pause a p => left; rfl
    | blacklist a l => left; rfl
    | cethReceiver a r => left; rfl
    | rescue a r n => left; rfl
    | whitelist a op v => left; rfl

theorem step_prophecy_stable (ord : List Group → List Group) (w : World) (st : Step) (id : String)
    (h : statusOf w.s.oracle id ≠ .pending) :
    getProphecy (stepWorld ord w st).s.oracle.prophecies id = getProphecy w.s.oracle.prophecies id := by
  cases st with
  | setVals v => rfl
  | restart => rfl
  | blocks n => rfl
  | msg m => exact deliver_nonpending_stable ord w.vals w.s m id h

/-- a step that credits for `id` finds the prophecy pending and leaves it SUCCESS -/
theorem credit_needs_pending {ord : List Group → List Group} {w : World} {m : ClaimMsg}
    (hs : (deliver ord w.vals w.s (.claim m)).2 = .claimed .success) :
    statusOf w.s.oracle (claimOf m).id = .pending ∧ statusOf (deliver ord w.vals w.s (.claim m)).1.oracle (claimOf m).id = .success := by
  rcases deliver_claim_cases ord w.vals w.s m with ⟨f, hd⟩ | ⟨s', status, hc, hd⟩
  · rw [hd] at hs; cases hs
  · rw [hd] at hs ⊢
    cases hs
    obtain ⟨o, fin, hp, eo, _⟩ := createClaim_ok hc
    obtain ⟨sb, sa, _⟩ := processClaim_status hp
    simp only
    rw [eo]
    exact ⟨sb, sa⟩

/-- once a prophecy is not pending, no history changes it or credits anything for it -/
theorem run_nonpending_stable (ord : List Group → List Group) (steps : List Step) (w : World) (id : String)
    (h : statusOf w.s.oracle id ≠ .pending) :
    getProphecy (run ord w steps).s.oracle.prophecies id = getProphecy w.s.oracle.prophecies id ∧
    creditsOf ord w steps id = [] := by
  induction steps generalizing w with
  | nil => exact ⟨rfl, rfl⟩
  | cons st rest ih =>
    have e1 := step_prophecy_stable ord w st id h
    have e2 : creditFor ord w st id = [] := by
      rcases creditFor_cases ord w st id with e | ⟨m, c, _, hid, hs, _, _⟩
      · exact e
      · exact (h (hid ▸ (credit_needs_pending hs).1)).elim
    have h' : statusOf (stepWorld ord w st).s.oracle id ≠ .pending := by
      rw [(statusOf_congr e1).1]; exact h
    obtain ⟨i1, i2⟩ := ih (stepWorld ord w st) h'
    refine ⟨?_, ?_⟩
    · show getProphecy (run ord (stepWorld ord w st) rest).s.oracle.prophecies id = _
      rw [i1, e1]
    · simp only [creditsOf]
      rw [e2, i2]; rfl

end Sif.EthBridge

namespace Sif.EthBridge
open Sif.Oracle Sif.Bank Sif.Spec.C05 Sif.Spec.C06

/-- a content with positive support is the recorded claim of some validator -/
theorem support_pos_mem (vals : List Validator) (wl : List Nat) (vc : List (Nat × Content)) (c : Content)
    (h : 0 < support vals wl vc c) : c ∈ vc.map (·.2) := by
  unfold support at h
  have hne : vals.filter (fun v => v.bonded && inWhiteList wl v.id && (vc.lookup v.id == some c)) ≠ [] := by
    intro e; rw [e] at h; simp at h
  obtain ⟨v, hv⟩ := List.exists_mem_of_ne_nil _ hne
  have hv' := (List.mem_filter.mp hv).2
  simp only [Bool.and_eq_true, beq_iff_eq] at hv'
  exact List.mem_map_of_mem (f := (·.2)) (lookup_some_mem _ _ _ hv'.2)

end Sif.EthBridge
