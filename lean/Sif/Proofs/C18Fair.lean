import Sif.Proofs.C18
import Sif.Proofs.C18Bucket
/-
  C18 — the n-provider bound of the epoch bucket payout (with the running clamp of fix F26): the amounts
  add up to at most the bucket, and every provider is within 1 + (n+1)·B·10⁻¹⁸ base units of its share.
-/
namespace Sif.Clp
open Sif Sif.Dec

theorem mapM_ok_spec {α β : Type} (f : α → M β) : ∀ (l : List α) (r : List β), l.mapM f = .ok r →
    r.length = l.length ∧ ∀ i (h : i < l.length) (h' : i < r.length), f (l[i]'h) = .ok (r[i]'h') := by
  intro l
  induction l with
  | nil => intro r h; simp [List.mapM_nil, pure, Except.pure] at h; subst h; simp
  | cons a t ih =>
    intro r h
    rw [List.mapM_cons] at h
    obtain ⟨b, hb, h⟩ := bind_ok h
    obtain ⟨bs, hbs, h⟩ := bind_ok h
    cases h
    obtain ⟨hl, hi⟩ := ih bs hbs
    refine ⟨by simp [hl], ?_⟩
    intro i h1 h2
    cases i with
    | zero => simpa using hb
    | succ j => simpa using hi j (by simpa using h1) (by simpa using h2)
end Sif.Clp

namespace Sif.Clp
open Sif Sif.Dec

def unitsSum (lps : List (String × LP)) : Nat := lps.foldl (fun a e => a + e.2.units) 0

theorem unitsSum_cons (e : String × LP) (l : List (String × LP)) : unitsSum (e :: l) = e.2.units + unitsSum l := by
  unfold unitsSum
  simp only [List.foldl_cons, Nat.zero_add]
  have : ∀ (l : List (String × LP)) (k : Nat), l.foldl (fun a e => a + e.2.units) k = k + l.foldl (fun a e => a + e.2.units) 0 := by
    intro l
    induction l with
    | nil => intro k; simp
    | cons h t ih => intro k; simp only [List.foldl_cons, Nat.zero_add]; rw [ih (k + h.2.units), ih h.2.units]; omega
  exact this l e.2.units

theorem rewardAmountOf_bound {u U B a : Nat} (hU : 0 < U) (h : rewardAmountOf u U B = .ok a) :
    (a : ℚ) ≤ (u : ℚ) / U * B + (B : ℚ) / P ∧ (u : ℚ) / U * B - 1 - (B : ℚ) / P ≤ (a : ℚ) := by
  unfold rewardAmountOf at h
  obtain ⟨sh, h1, h⟩ := bind_ok h
  obtain ⟨a', h2, h⟩ := bind_ok h
  cases h
  exact bucketAmount_bound hU h1 h2

inductive RawOK (U B : Nat) : List (String × LP) → List (String × Nat) → Prop
  | nil : RawOK U B [] []
  | cons {e : String × LP} {a : Nat} {l : List (String × LP)} {r : List (String × Nat)} :
      rewardAmountOf e.2.units U B = .ok a → RawOK U B l r → RawOK U B (e :: l) ((e.1, a) :: r)

theorem rawOK_of_mapM {U B : Nat} : ∀ (lps : List (String × LP)) (raw : List (String × Nat)),
    lps.mapM (fun e => do let a ← rewardAmountOf e.2.units U B; pure (e.1, a)) = .ok raw → RawOK U B lps raw := by
  intro lps
  induction lps with
  | nil => intro raw h; simp [List.mapM_nil, pure, Except.pure] at h; subst h; exact .nil
  | cons e t ih =>
    intro raw h
    rw [List.mapM_cons] at h
    obtain ⟨b, hb, h⟩ := bind_ok h
    obtain ⟨bs, hbs, h⟩ := bind_ok h
    cases h
    obtain ⟨a, ha, hb⟩ := bind_ok hb
    cases hb
    exact .cons ha (ih bs hbs)

/-- the raw amounts overshoot the bucket by at most n·B/10¹⁸ when the shares are taken over all the units -/
theorem rawOK_total {U B : Nat} (hU : 0 < U) {lps : List (String × LP)} {raw : List (String × Nat)}
    (h : RawOK U B lps raw) :
    raw.length = lps.length ∧
    (amtTotal raw : ℚ) ≤ (unitsSum lps : ℚ) / U * B + (lps.length : ℚ) * ((B : ℚ) / P) := by
  induction h with
  | nil => simp [amtTotal, unitsSum]
  | @cons e a l r ha _ ih =>
    obtain ⟨hl, hs⟩ := ih
    refine ⟨by simp [hl], ?_⟩
    rw [amtTotal_cons, unitsSum_cons]
    obtain ⟨b1, _⟩ := rewardAmountOf_bound hU ha
    push_cast
    have e1 : ((e.2.units : ℚ) + (unitsSum l : ℚ)) / U * B = (e.2.units : ℚ) / U * B + (unitsSum l : ℚ) / U * B := by ring
    rw [e1]
    have e2 : ((l.length : ℚ) + 1) * ((B : ℚ) / P) = (l.length : ℚ) * ((B : ℚ) / P) + (B : ℚ) / P := by ring
    simp only [List.length_cons, Nat.cast_add, Nat.cast_one]
    rw [e2]
    linarith

theorem rawOK_get {U B : Nat} {lps : List (String × LP)} {raw : List (String × Nat)} (h : RawOK U B lps raw) :
    ∀ i (h1 : i < lps.length) (h2 : i < raw.length),
      (raw[i]'h2).1 = (lps[i]'h1).1 ∧ rewardAmountOf (lps[i]'h1).2.units U B = .ok (raw[i]'h2).2 := by
  induction h with
  | nil => intro i h1; simp at h1
  | @cons e a l r ha _ ih =>
    intro i h1 h2
    cases i with
    | zero => exact ⟨rfl, ha⟩
    | succ j => simpa using ih j (by simpa using h1) (by simpa using h2)

/-- **n-provider bound of the epoch bucket payout (with fix F26).**  The amounts computed for the eligible
    providers of an asset add up to at most the bucket B, and the i-th provider's amount is within
    1 + (n+1)·B·10⁻¹⁸ base units of its share u_i/U of the bucket — any number n of providers, all magnitudes. -/
theorem rewardAmounts_fair {lps : List (String × LP)} {B : Nat} {amts : List (String × Nat)}
    (hU : 0 < unitsSum lps) (h : rewardAmounts lps B = .ok amts) :
    amts.length = lps.length ∧ amtTotal amts ≤ B ∧
    ∀ i (h1 : i < lps.length) (h2 : i < amts.length),
      (amts[i]'h2).1 = (lps[i]'h1).1 ∧
      ((amts[i]'h2).2 : ℚ) ≤ ((lps[i]'h1).2.units : ℚ) / (unitsSum lps : ℚ) * B + (B : ℚ) / P ∧
      ((lps[i]'h1).2.units : ℚ) / (unitsSum lps : ℚ) * B - 1 - ((lps.length : ℚ) + 1) * ((B : ℚ) / P) ≤ ((amts[i]'h2).2 : ℚ) := by
  unfold rewardAmounts at h
  have hne : ¬ (List.foldl (fun a e => a + e.2.units) 0 lps = 0) := by
    have : unitsSum lps ≠ 0 := by omega
    exact this
  simp only [hne, if_false] at h
  obtain ⟨raw, hraw, h⟩ := bind_ok h
  cases h
  have hR : RawOK (unitsSum lps) B lps raw := rawOK_of_mapM lps raw hraw
  obtain ⟨hlen, htot⟩ := rawOK_total hU hR
  have hUq : (0 : ℚ) < (unitsSum lps : ℚ) := by exact_mod_cast hU
  have hself : (unitsSum lps : ℚ) / (unitsSum lps : ℚ) * B = B := by field_simp
  rw [hself] at htot
  obtain ⟨hmap, hle⟩ := clampAmounts_le B raw
  have hclen : (clampAmounts B raw).length = raw.length := by
    have := congrArg List.length hmap; simpa using this
  refine ⟨by rw [hclen, hlen], clampAmounts_total_le B raw, ?_⟩
  intro i h1 h2
  have h3 : i < raw.length := by rw [hlen]; exact h1
  obtain ⟨hname, hamt⟩ := rawOK_get hR i h1 h3
  obtain ⟨bu, bl⟩ := rewardAmountOf_bound hU hamt
  have hc1 := hle i h3 h2
  have hc2 := clampAmounts_ge B raw i h3 h2
  have hname' : ((clampAmounts B raw)[i]'h2).1 = (raw[i]'h3).1 := by
    have := congrArg (fun l => l[i]?) hmap
    simp only [List.getElem?_map] at this
    rw [List.getElem?_eq_getElem h2, List.getElem?_eq_getElem h3] at this
    simpa using this
  refine ⟨by rw [hname', hname], ?_, ?_⟩
  · have : (((clampAmounts B raw)[i]'h2).2 : ℚ) ≤ ((raw[i]'h3).2 : ℚ) := by exact_mod_cast hc1
    linarith
  · -- overshoot ≤ n·B/P
    have hover : ((amtTotal raw - B : Nat) : ℚ) ≤ (lps.length : ℚ) * ((B : ℚ) / P) := by
      by_cases hb : amtTotal raw ≤ B
      · rw [Nat.sub_eq_zero_of_le hb]; simp; positivity
      · rw [Nat.cast_sub (by omega)]; linarith
    have : ((raw[i]'h3).2 : ℚ) ≤ (((clampAmounts B raw)[i]'h2).2 : ℚ) + ((amtTotal raw - B : Nat) : ℚ) := by exact_mod_cast hc2
    have e : ((lps.length : ℚ) + 1) * ((B : ℚ) / P) = (lps.length : ℚ) * ((B : ℚ) / P) + (B : ℚ) / P := by ring
    rw [e]
    linarith
end Sif.Clp
