import Sif.Spec.C10
import Sif.Proofs.Except
import Mathlib.Tactic.Linarith
/- C10 helper lemmas: liquidity-protection hook arithmetic and clause evaluation. -/
namespace Sif.Proofs.C10
open Sif Sif.Hooks Sif.Validate Sif.Spec.C10

theorem LpInv_iff (lp : LiqProt) :
    LpInv lp = true ↔ (lp.active = true → lp.epochLen ≠ 0) ∧ lp.cur ≤ lp.max ∧ lp.max < two256 := by
  unfold LpInv
  cases h : lp.active <;> simp [Bool.and_eq_true, and_assoc]

/-- abci.go:69–93 cannot panic under the invariant, and re-establishes it -/
theorem lpUpdate_ok (lp : LiqProt) (h : LpInv lp = true) :
    ∃ lp', lpUpdate lp = .ok lp' ∧ LpInv lp' = true ∧ lp'.max = lp.max ∧ lp'.epochLen = lp.epochLen ∧ lp'.active = lp.active := by
  obtain ⟨h1, h2, h3⟩ := (LpInv_iff lp).1 h
  obtain ⟨act, mx, cur, el⟩ := lp
  simp only at h1 h2 h3
  cases act
  · exact ⟨_, rfl, h, rfl, rfl, rfl⟩
  · have he := h1 rfl
    unfold lpUpdate
    simp only [if_true, Uint.quo, he, if_false, Uint.sub, h2, bind, Except.bind, lpPick]
    by_cases hr : mx - cur < mx / el
    · refine ⟨⟨true, mx, mx, el⟩, by simp [hr], ?_, rfl, rfl, rfl⟩
      rw [LpInv_iff]; exact ⟨fun _ => he, le_refl _, h3⟩
    · have hle : cur + mx / el ≤ mx := by omega
      have hlt : cur + mx / el < two256 := lt_of_le_of_lt hle h3
      refine ⟨⟨true, mx, cur + mx / el, el⟩, by simp [hr, Uint.add, Uint.chk, hlt, Except.map], ?_, rfl, rfl, rfl⟩
      rw [LpInv_iff]; exact ⟨fun _ => he, hle, h3⟩

/-- a swap (the only permissionless write to this state) that does not panic keeps the invariant;
    buying never panics under the invariant -/
theorem lpUserUpdate_inv (lp lp' : LiqProt) (sell : Bool) (v : Nat) (h : LpInv lp = true)
    (hr : lpUserUpdate lp sell v = .ok lp') : LpInv lp' = true := by
  obtain ⟨h1, h2, h3⟩ := (LpInv_iff lp).1 h
  obtain ⟨act, mx, cur, el⟩ := lp
  simp only at h1 h2 h3
  unfold lpUserUpdate at hr
  cases act
  · cases hr; exact h
  · simp only [if_true] at hr
    cases sell
    · -- buy
      simp only [Bool.false_eq_true, if_false, Uint.sub, h2, if_true, Except.bind, lpBuy] at hr
      by_cases hrm : mx - cur < v
      · rw [if_pos hrm] at hr; cases hr
        rw [LpInv_iff]; exact ⟨h1, le_refl _, h3⟩
      · rw [if_neg hrm] at hr
        have hle : cur + v ≤ mx := by omega
        have hlt : cur + v < two256 := lt_of_le_of_lt hle h3
        simp only [Uint.add, Uint.chk, hlt, if_true, Except.map] at hr
        cases hr
        rw [LpInv_iff]; exact ⟨h1, hle, h3⟩
    · -- sell
      simp only [if_true] at hr
      by_cases hc : cur < v
      · rw [if_pos hc] at hr; cases hr
      · rw [if_neg hc] at hr
        have : v ≤ cur := by omega
        simp only [Uint.sub, this, if_true, Except.map] at hr
        cases hr
        rw [LpInv_iff]; exact ⟨h1, by show cur - v ≤ mx; omega, h3⟩

theorem lpUserUpdate_buy_ok (lp : LiqProt) (v : Nat) (h : LpInv lp = true) : ∃ lp', lpUserUpdate lp false v = .ok lp' := by
  obtain ⟨h1, h2, h3⟩ := (LpInv_iff lp).1 h
  obtain ⟨act, mx, cur, el⟩ := lp
  simp only at h1 h2 h3
  unfold lpUserUpdate
  cases act
  · exact ⟨_, rfl⟩
  · simp only [if_true, Bool.false_eq_true, if_false, Uint.sub, h2, Except.bind, lpBuy]
    by_cases hrm : mx - cur < v
    · rw [if_pos hrm]; exact ⟨_, rfl⟩
    · rw [if_neg hrm]
      have hlt : cur + v < two256 := lt_of_le_of_lt (by omega) h3
      simp only [Uint.add, Uint.chk, hlt, if_true, Except.map]
      exact ⟨_, rfl⟩

/-! ### peeling clause lists -/

theorem acceptsAll_cons (e : Env) (c : Clause) (cs : List Clause) :
    acceptsAll e (c :: cs) = true ↔ c.rejects e = false ∧ acceptsAll e cs = true := by
  simp [acceptsAll]

theorem cl_rejects (e : Env) (c : Cond) : (cl c).rejects e = false ↔ evalCond e [] c = some false := by
  simp [cl, Clause.rejects, rejBinders, rejAt, guardsHold]

/-! ### inverting clause evaluation -/

theorem evalCond_lt_false {e : Env} {ix : List Nat} {a b : Term} (h : evalCond e ix (.lt a b) = some false) :
    ∃ x y, evalTerm e ix a = some x ∧ evalTerm e ix b = some y ∧ ¬ x < y := by
  simp only [evalCond, bind, Option.bind] at h
  cases ha : evalTerm e ix a with
  | none => simp [ha] at h
  | some x =>
    cases hb : evalTerm e ix b with
    | none => simp [ha, hb] at h
    | some y => simp [ha, hb] at h; exact ⟨x, y, rfl, rfl, by omega⟩

theorem evalCond_le_false {e : Env} {ix : List Nat} {a b : Term} (h : evalCond e ix (.le a b) = some false) :
    ∃ x y, evalTerm e ix a = some x ∧ evalTerm e ix b = some y ∧ ¬ x ≤ y := by
  simp only [evalCond, bind, Option.bind] at h
  cases ha : evalTerm e ix a with
  | none => simp [ha] at h
  | some x =>
    cases hb : evalTerm e ix b with
    | none => simp [ha, hb] at h
    | some y => simp [ha, hb] at h; exact ⟨x, y, rfl, rfl, by omega⟩

theorem evalCond_eq_false {e : Env} {ix : List Nat} {a b : Term} (h : evalCond e ix (.eq a b) = some false) :
    ∃ x y, evalTerm e ix a = some x ∧ evalTerm e ix b = some y ∧ x ≠ y := by
  simp only [evalCond, bind, Option.bind] at h
  cases ha : evalTerm e ix a with
  | none => simp [ha] at h
  | some x =>
    cases hb : evalTerm e ix b with
    | none => simp [ha, hb] at h
    | some y => simp [ha, hb] at h; exact ⟨x, y, rfl, rfl, h⟩

theorem evalCond_or_false {e : Env} {ix : List Nat} {a b : Cond} (h : evalCond e ix (.or a b) = some false) :
    evalCond e ix a = some false ∧ evalCond e ix b = some false := by
  simp only [evalCond] at h
  cases ha : evalCond e ix a with
  | none => simp [ha] at h
  | some v =>
    cases v with
    | true => simp [ha] at h
    | false => simp [ha] at h; exact ⟨rfl, h⟩

theorem evalCond_not_false {e : Env} {ix : List Nat} {a : Cond} (h : evalCond e ix (.not a) = some false) :
    evalCond e ix a = some true := by
  simp only [evalCond] at h
  cases ha : evalCond e ix a with
  | none => simp [ha] at h
  | some v => cases v <;> simp [ha] at h ⊢

theorem evalTerm_mulInt {e : Env} {ix : List Nat} {a b : Term} {x y : Int}
    (ha : evalTerm e ix a = some x) (hb : evalTerm e ix b = some y) :
    evalTerm e ix (.mulInt a b) = if decFits (x * y) then some (x * y) else none := by
  simp [evalTerm, ha, hb]

end Sif.Proofs.C10
