import Sif.Model.BridgeBank
import Mathlib.Tactic.Linarith
/- effects of the bank primitives, stated additively (no truncated subtraction) -/
set_option linter.unusedSimpArgs false
set_option linter.unusedVariables false
namespace Sif.Bank

/-- indicator amount: `n` at key `(a, d)`, 0 elsewhere -/
def at_ (a : Nat) (d : String) (n : Nat) (a' : Nat) (d' : String) : Nat := if a' = a ∧ d' = d then n else 0
def atD (d : String) (n : Nat) (d' : String) : Nat := if d' = d then n else 0

theorem at_zero (a : Nat) (d : String) (a' : Nat) (d' : String) : at_ a d 0 a' d' = 0 := by simp [at_]
theorem atD_zero (d d' : String) : atD d 0 d' = 0 := by simp [atD]

theorem setBal_bal (b : Bank) (a : Nat) (d : String) (n : Nat) (a' : Nat) (d' : String) :
    (setBal b a d n).bal a' d' = if a' = a ∧ d' = d then n else b.bal a' d' := rfl

theorem addCoin_ok {b b' : Bank} {a : Nat} {d : String} {n : Nat} (h : addCoin b a d n = .ok b') :
    (∀ a' d', b'.bal a' d' = b.bal a' d' + at_ a d n a' d') ∧ b'.supply = b.supply ∧ b'.acc = b.acc := by
  unfold addCoin at h
  split at h
  · rename_i h0; cases h; subst h0; simp [at_zero]
  · split at h
    · cases h
    · cases h
      refine ⟨?_, rfl, rfl⟩
      intro a' d'
      rw [setBal_bal]; unfold at_
      split
      · rename_i hk; rw [hk.1, hk.2]
      · omega

theorem subCoin_ok {b b' : Bank} {a : Nat} {d : String} {n : Nat} (h : subCoin b a d n = .ok b') :
    (∀ a' d', b'.bal a' d' + at_ a d n a' d' = b.bal a' d') ∧ b'.supply = b.supply ∧ b'.acc = b.acc := by
  unfold subCoin at h
  split at h
  · rename_i h0; cases h; subst h0; simp [at_zero]
  · split at h
    · cases h
    · rename_i hlt
      cases h
      refine ⟨?_, rfl, rfl⟩
      intro a' d'
      rw [setBal_bal]; unfold at_
      split
      · rename_i hk; rw [hk.1, hk.2]; omega
      · omega

theorem subCoin_funds {b : Bank} {a : Nat} {d : String} {n : Nat} (h : b.bal a d < n) : subCoin b a d n = .error (.err .funds) := by
  unfold subCoin
  have : n ≠ 0 := by omega
  simp [this, h]

theorem sendCoin_ok {b b' : Bank} {src dst : Nat} {d : String} {n : Nat} (h : sendCoin b src dst d n = .ok b') :
    (∀ a' d', b'.bal a' d' + at_ src d n a' d' = b.bal a' d' + at_ dst d n a' d') ∧ b'.supply = b.supply := by
  unfold sendCoin at h
  split at h
  · cases h
  · rename_i b1 h1
    split at h
    · cases h
    · rename_i b2 h2
      cases h
      obtain ⟨s1, s2, _⟩ := subCoin_ok h1
      obtain ⟨a1, a2, _⟩ := addCoin_ok h2
      refine ⟨?_, by simp [setAcc, a2, s2]⟩
      intro a' d'
      have := s1 a' d'
      have := a1 a' d'
      simp only [setAcc]
      omega

theorem mintCoin_ok {b b' : Bank} {d : String} {n : Nat} (h : mintCoin b d n = .ok b') :
    (∀ a' d', b'.bal a' d' = b.bal a' d' + at_ moduleAcct d n a' d') ∧ (∀ d', b'.supply d' = b.supply d' + atD d n d') := by
  unfold mintCoin at h
  split at h
  · cases h
  · rename_i b1 h1
    obtain ⟨a1, a2, _⟩ := addCoin_ok h1
    split at h
    · rename_i h0; cases h; subst h0
      exact ⟨a1, by intro d'; simp [atD_zero, a2]⟩
    · split at h
      · cases h
      · cases h
        refine ⟨a1, ?_⟩
        intro d'
        simp only [setSupply, atD, a2]
        split
        · rename_i hk; rw [hk]
        · omega

theorem burnCoin_ok {b b' : Bank} {d : String} {n : Nat} (h : burnCoin b d n = .ok b') :
    (∀ a' d', b'.bal a' d' + at_ moduleAcct d n a' d' = b.bal a' d') ∧ (∀ d', b'.supply d' + atD d n d' = b.supply d') := by
  unfold burnCoin at h
  split at h
  · cases h
  · rename_i b1 h1
    obtain ⟨s1, s2, _⟩ := subCoin_ok h1
    split at h
    · rename_i h0; cases h; subst h0
      exact ⟨s1, by intro d'; simp [atD_zero, s2]⟩
    · split at h
      · cases h
      · rename_i hlt
        cases h
        refine ⟨s1, ?_⟩
        intro d'
        simp only [setSupply, atD, s2] at hlt ⊢
        split
        · rename_i hk; rw [hk]; omega
        · omega

theorem sendFromModule_ok {b b' : Bank} {dst : Nat} {d : String} {n : Nat} (h : sendFromModule b dst d n = .ok b') :
    blocked dst = false ∧ (∀ a' d', b'.bal a' d' + at_ moduleAcct d n a' d' = b.bal a' d' + at_ dst d n a' d') ∧ b'.supply = b.supply := by
  unfold sendFromModule at h
  split at h
  · cases h
  · rename_i hb
    exact ⟨by simpa using hb, sendCoin_ok h⟩

end Sif.Bank
