import Sif.Spec.C05
import Mathlib.Algebra.BigOperators.Group.List.Basic
import Mathlib.Data.List.Perm.Basic
import Mathlib.Data.List.Nodup
import Mathlib.Tactic.Linarith
/- helper lemmas for the C05 theorems: the tally of `FindHighestClaim` as sums over the validator set -/
set_option linter.unusedSimpArgs false
set_option linter.unusedVariables false
namespace Sif.Oracle
open Sif.Spec.C05

/-- the power a validator contributes when counted: bonded and whitelisted -/
def wgt (wl : List Nat) (v : Validator) : Nat := if v.bonded && inWhiteList wl v.id then v.power else 0

/-- counted power of a set of validator ids, as a sum over the validator set -/
def cpOf (vals : List Validator) (wl : List Nat) (ids : List Nat) : Nat :=
  (vals.map (fun v => if v.id ∈ ids then wgt wl v else 0)).sum

theorem sum_map_le_sum_map {α} (l : List α) (f g : α → Nat) (h : ∀ a ∈ l, f a ≤ g a) :
    (l.map f).sum ≤ (l.map g).sum := by
  induction l with
  | nil => simp
  | cons a l ih =>
    simp only [List.map_cons, List.sum_cons]
    have h1 := h a (by simp)
    have h2 := ih (fun b hb => h b (by simp [hb]))
    omega

theorem sum_map_zero {α} (l : List α) (f : α → Nat) (h : ∀ a ∈ l, f a = 0) : (l.map f).sum = 0 := by
  induction l with
  | nil => simp
  | cons a l ih =>
    simp only [List.map_cons, List.sum_cons]
    rw [h a (by simp), ih (fun b hb => h b (by simp [hb]))]

theorem sum_filter_map {α} (l : List α) (p : α → Bool) (f : α → Nat) :
    ((l.filter p).map f).sum = (l.map (fun a => if p a then f a else 0)).sum := by
  induction l with
  | nil => simp
  | cons a l ih =>
    by_cases hp : p a
    · simp [List.filter_cons, hp, ih]
    · simp [List.filter_cons, hp, ih]

theorem total_eq (vals : List Validator) (wl : List Nat) : total vals wl = (vals.map (wgt wl)).sum := by
  unfold total
  rw [sum_filter_map]
  rfl

theorem totalPower_eq_total (vals : List Validator) (wl : List Nat) : totalPower vals wl = total vals wl := by
  unfold totalPower total bondedVals
  rw [List.filter_filter]
  congr 2
  apply List.filter_congr
  intro v _
  exact Bool.and_comm _ _

theorem cpOf_le_total (vals : List Validator) (wl ids : List Nat) : cpOf vals wl ids ≤ total vals wl := by
  rw [total_eq]
  unfold cpOf
  apply sum_map_le_sum_map
  intro v _
  split <;> omega

/-- with distinct operator addresses, the map lookup + `GetConsensusPower` + whitelist guard is a sum -/
theorem valPower_eq (vals : List Validator) (wl : List Nat) (id : Nat) (hv : ValsWF vals) :
    valPower vals wl id = (vals.map (fun v => if v.id = id then wgt wl v else 0)).sum := by
  unfold ValsWF at hv
  induction vals with
  | nil => simp [valPower, bondedVals]
  | cons a rest ih =>
    simp only [List.map_cons, List.nodup_cons] at hv
    obtain ⟨hnot, hrest⟩ := hv
    have ih' := ih hrest
    simp only [List.map_cons, List.sum_cons]
    by_cases hid : a.id = id
    · -- no other validator has this id
      have hzero : (rest.map (fun v => if v.id = id then wgt wl v else 0)).sum = 0 := by
        apply sum_map_zero
        intro b hb
        have : b.id ≠ id := by
          intro hb'
          apply hnot
          rw [hid, ← hb']
          exact List.mem_map_of_mem hb
        simp [this]
      rw [hzero, if_pos hid, Nat.add_zero]
      by_cases hb : a.bonded
      · simp [valPower, bondedVals, List.filter_cons, hb, List.find?_cons, hid, wgt]
      · have hb' : a.bonded = false := by simpa using hb
        have : valPower (a :: rest) wl id = valPower rest wl id := by
          simp [valPower, bondedVals, List.filter_cons, hb']
        rw [this, ih', hzero]
        simp [wgt, hb']
    · rw [if_neg hid, Nat.zero_add, ← ih']
      by_cases hb : a.bonded
      · have hne : (a.id == id) = false := by simpa using hid
        simp [valPower, bondedVals, List.filter_cons, hb, List.find?_cons, hne]
      · have hb' : a.bonded = false := by simpa using hb
        simp [valPower, bondedVals, List.filter_cons, hb']

/-- a claim group without repeated validators counts exactly the bonded whitelisted validators in it -/
theorem claimPower_eq (vals : List Validator) (wl : List Nat) (vs : List Nat) (hv : ValsWF vals) (hn : vs.Nodup) :
    claimPower vals wl vs = cpOf vals wl vs := by
  induction vs with
  | nil => simp [claimPower, cpOf]
  | cons a vs ih =>
    simp only [List.nodup_cons] at hn
    obtain ⟨ha, hn'⟩ := hn
    have ih' := ih hn'
    unfold claimPower at ih' ⊢
    simp only [List.map_cons, List.sum_cons]
    rw [ih', valPower_eq vals wl a hv]
    unfold cpOf
    rw [← List.sum_map_add]
    congr 1
    apply List.map_congr_left
    intro v _
    by_cases h1 : v.id = a
    · have : v.id ∉ vs := by rw [h1]; exact ha
      simp [h1, ha]
    · simp [h1]

theorem cpOf_append (vals : List Validator) (wl : List Nat) (l₁ l₂ : List Nat) (hd : ∀ a ∈ l₁, a ∉ l₂) :
    cpOf vals wl (l₁ ++ l₂) = cpOf vals wl l₁ + cpOf vals wl l₂ := by
  unfold cpOf
  rw [← List.sum_map_add]
  congr 1
  apply List.map_congr_left
  intro v _
  by_cases h1 : v.id ∈ l₁
  · have := hd _ h1
    simp [h1, this]
  · simp [h1]

/-- sum of the claim powers of all groups = counted power of all claimants, when no validator occurs twice -/
theorem sum_claimPower_eq (vals : List Validator) (wl : List Nat) (gs : List Group) (hv : ValsWF vals)
    (hn : (gs.flatMap (·.2)).Nodup) :
    (gs.map (fun g => claimPower vals wl g.2)).sum = cpOf vals wl (gs.flatMap (·.2)) := by
  induction gs with
  | nil => simp [cpOf]
  | cons g gs ih =>
    simp only [List.flatMap_cons, List.nodup_append] at hn
    obtain ⟨hg, hrest, hdis⟩ := hn
    simp only [List.map_cons, List.sum_cons, List.flatMap_cons]
    rw [ih hrest, claimPower_eq vals wl g.2 hv hg, cpOf_append]
    intro a ha hb
    exact hdis a ha a hb rfl

theorem sum_claimPower_le_total (vals : List Validator) (wl : List Nat) (gs : List Group) (hv : ValsWF vals)
    (hn : (gs.flatMap (·.2)).Nodup) :
    (gs.map (fun g => claimPower vals wl g.2)).sum ≤ total vals wl := by
  rw [sum_claimPower_eq vals wl gs hv hn]
  exact cpOf_le_total _ _ _


/-! ### the fold of `FindHighestClaim` -/

/-- claim power of a group, as the integer the tally works with -/
def cpI (vals : List Validator) (wl : List Nat) (g : Group) : Int := (claimPower vals wl g.2 : Nat)

theorem foldl_tally_total (vals : List Validator) (wl : List Nat) (gs : List Group) (t : Tally) :
    (gs.foldl (tallyStep vals wl) t).totalClaims = t.totalClaims + ((gs.map (fun g => claimPower vals wl g.2)).sum : Nat) := by
  induction gs generalizing t with
  | nil => simp
  | cons g gs ih =>
    simp only [List.foldl_cons, List.map_cons, List.sum_cons]
    rw [ih]
    simp only [tallyStep]
    push_cast
    omega

/-- the running maximum: never below the start, an upper bound of every group's power, and either the start
    value (with the start's content) or attained by a group whose content is `best` -/
theorem foldl_tally_best (vals : List Validator) (wl : List Nat) (gs : List Group) (t : Tally) :
    let r := gs.foldl (tallyStep vals wl) t
    t.bestPower ≤ r.bestPower ∧ (∀ g ∈ gs, cpI vals wl g ≤ r.bestPower) ∧
      ((r.bestPower = t.bestPower ∧ r.best = t.best) ∨ (∃ g ∈ gs, r.best = g.1 ∧ r.bestPower = cpI vals wl g)) := by
  induction gs generalizing t with
  | nil => simp
  | cons g gs ih =>
    simp only [List.foldl_cons]
    obtain ⟨h1, h2, h3⟩ := ih (tallyStep vals wl t g)
    have hstep : t.bestPower ≤ (tallyStep vals wl t g).bestPower ∧ cpI vals wl g ≤ (tallyStep vals wl t g).bestPower := by
      simp only [tallyStep, cpI]
      split <;> omega
    refine ⟨by omega, ?_, ?_⟩
    · intro g' hg'
      rcases List.mem_cons.mp hg' with rfl | hin
      · omega
      · exact h2 g' hin
    · rcases h3 with ⟨hb, hc⟩ | ⟨g', hg', hc, hp⟩
      · by_cases hgt : cpI vals wl g > t.bestPower
        · right
          refine ⟨g, by simp, ?_, ?_⟩
          · rw [hc]; simp only [tallyStep]; unfold cpI at hgt; simp [hgt]
          · rw [hb]; simp only [tallyStep]; unfold cpI at hgt ⊢; simp [hgt]
        · left
          constructor
          · rw [hb]; simp only [tallyStep]; unfold cpI at hgt; simp [hgt]
          · rw [hc]; simp only [tallyStep]; unfold cpI at hgt; simp [hgt]
      · right
        exact ⟨g', by simp [hg'], hc, hp⟩


theorem findHighest_total (vals : List Validator) (wl : List Nat) (gs : List Group) :
    (findHighest vals wl gs).totalClaims = ((gs.map (fun g => claimPower vals wl g.2)).sum : Nat) := by
  unfold findHighest
  rw [foldl_tally_total]
  simp [Tally.init]

theorem findHighest_perm (vals : List Validator) (wl : List Nat) (l₁ l₂ : List Group) (h : l₁.Perm l₂) :
    (findHighest vals wl l₁).bestPower = (findHighest vals wl l₂).bestPower ∧
    (findHighest vals wl l₁).totalClaims = (findHighest vals wl l₂).totalClaims := by
  constructor
  · obtain ⟨a1, a2, a3⟩ := foldl_tally_best vals wl l₁ Tally.init
    obtain ⟨b1, b2, b3⟩ := foldl_tally_best vals wl l₂ Tally.init
    unfold findHighest
    apply Int.le_antisymm
    · rcases a3 with ⟨e, _⟩ | ⟨g, hg, _, e⟩
      · rw [e]; exact b1
      · rw [e]; exact b2 g (h.mem_iff.mp hg)
    · rcases b3 with ⟨e, _⟩ | ⟨g, hg, _, e⟩
      · rw [e]; exact a1
      · rw [e]; exact a2 g (h.mem_iff.mpr hg)
  · rw [findHighest_total, findHighest_total]
    congr 1
    exact (h.map _).sum_eq

theorem two_le_sum {α} [DecidableEq α] (l : List α) (f : α → Nat) (a b : α) (ha : a ∈ l) (hb : b ∈ l) (hne : a ≠ b) :
    f a + f b ≤ (l.map f).sum := by
  have p1 : l.Perm (a :: l.erase a) := List.perm_cons_erase ha
  have hb' : b ∈ l.erase a := (List.mem_erase_of_ne (Ne.symm hne)).mpr hb
  have p2 : (l.erase a).Perm (b :: (l.erase a).erase b) := List.perm_cons_erase hb'
  have e1 : (l.map f).sum = f a + ((l.erase a).map f).sum := by
    rw [(p1.map f).sum_eq]; simp
  have e2 : ((l.erase a).map f).sum = f b + (((l.erase a).erase b).map f).sum := by
    rw [(p2.map f).sum_eq]; simp
  omega

/-- the threshold test passes only for a non-negative power, and with a positive denominator when `p ≤ t` -/
theorem ratioGE_spec {p t : Int} (h : ratioGE p t = true) (ht : 0 ≤ t) (hpt : p ≤ t) :
    (Generated.BridgeConsts.consensusNum : Int) * t ≤ (Generated.BridgeConsts.consensusDen : Int) * p ∧ 0 < t := by
  unfold ratioGE at h
  split at h
  · have := of_decide_eq_true h; omega
  · exact ⟨of_decide_eq_true h, by omega⟩

theorem ratioGE_neg {t : Int} (ht : 0 ≤ t) (h : ratioGE (-1) t = true) : False := by
  unfold ratioGE at h
  simp only [Generated.BridgeConsts.consensusNum, Generated.BridgeConsts.consensusDen] at h
  split at h
  · have := of_decide_eq_true h; omega
  · have := of_decide_eq_true h; omega

theorem ratioGE_half {p t : Int} (hp : 0 ≤ p) (h2 : 2 * p ≤ t) (h : ratioGE p t = true) : False := by
  unfold ratioGE at h
  simp only [Generated.BridgeConsts.consensusNum, Generated.BridgeConsts.consensusDen] at h
  split at h
  · have := of_decide_eq_true h; omega
  · have := of_decide_eq_true h; omega

/-- `processCompletion` does not depend on the order in which the claim groups are visited, provided claim
    contents are distinct keys and no validator occurs in two groups (or twice in one). -/
theorem processCompletionOn_perm (vals : List Validator) (wl : List Nat) (p : Prophecy) (l₁ l₂ : List Group)
    (h₁ : l₁.Perm p.groups) (h₂ : l₂.Perm p.groups) (hv : ValsWF vals)
    (hc : (p.groups.map (·.1)).Nodup) (hn : (p.groups.flatMap (·.2)).Nodup) :
    processCompletionOn l₁ vals wl p = processCompletionOn l₂ vals wl p := by
  have h12 : l₁.Perm l₂ := h₁.trans h₂.symm
  obtain ⟨ebp, etc⟩ := findHighest_perm vals wl l₁ l₂ h12
  unfold processCompletionOn
  simp only [ebp, etc]
  by_cases hge : ratioGE (findHighest vals wl l₂).bestPower (totalPower vals wl : Nat) = true
  · simp only [hge, if_true]
    -- both maxima are attained by groups; two different groups cannot both reach the threshold
    obtain ⟨_, _, a3⟩ := foldl_tally_best vals wl l₁ Tally.init
    obtain ⟨_, _, b3⟩ := foldl_tally_best vals wl l₂ Tally.init
    have hsum := sum_claimPower_le_total vals wl p.groups hv hn
    rw [← totalPower_eq_total] at hsum
    have fold1 : List.foldl (tallyStep vals wl) Tally.init l₁ = findHighest vals wl l₁ := rfl
    have fold2 : List.foldl (tallyStep vals wl) Tally.init l₂ = findHighest vals wl l₂ := rfl
    rw [fold1] at a3
    rw [fold2] at b3
    rcases a3 with ⟨e, _⟩ | ⟨g1, hg1, c1, e1⟩
    · exfalso
      have : (findHighest vals wl l₂).bestPower = -1 := by rw [← ebp, e]; rfl
      rw [this] at hge
      exact ratioGE_neg (by omega) hge
    rcases b3 with ⟨e, _⟩ | ⟨g2, hg2, c2, e2⟩
    · exfalso
      have : (findHighest vals wl l₂).bestPower = -1 := by rw [e]; rfl
      rw [this] at hge
      exact ratioGE_neg (by omega) hge
    have hg1' := h₁.mem_iff.mp hg1
    have hg2' := h₂.mem_iff.mp hg2
    by_cases heq : g1 = g2
    · rw [c1, c2, heq]
    · exfalso
      have h2 := two_le_sum p.groups (fun g => claimPower vals wl g.2) g1 g2 hg1' hg2' heq
      have e1' : (findHighest vals wl l₂).bestPower = (claimPower vals wl g1.2 : Nat) := by rw [← ebp, e1]; rfl
      have e2' : (findHighest vals wl l₂).bestPower = (claimPower vals wl g2.2 : Nat) := by rw [e2]; rfl
      apply ratioGE_half _ _ hge
      · rw [e2']; omega
      · rw [e2']
        have : (claimPower vals wl g1.2 : Int) = (claimPower vals wl g2.2 : Nat) := by rw [← e1', e2']
        omega
  · simp only [hge]
    rfl

/-! ### association lists -/

theorem lookup_some_mem {β} (l : List (Nat × β)) (k : Nat) (c : β) (h : l.lookup k = some c) : (k, c) ∈ l := by
  induction l with
  | nil => simp at h
  | cons e es ih =>
    obtain ⟨a, b⟩ := e
    by_cases hk : k = a
    · subst hk
      simp [List.lookup_cons] at h
      simp [h]
    · have : (k == a) = false := by simpa using hk
      simp only [List.lookup_cons, this] at h
      exact List.mem_cons_of_mem _ (ih h)

theorem lookup_none_iff {β} (l : List (Nat × β)) (k : Nat) : l.lookup k = none ↔ k ∉ l.map (·.1) := by
  induction l with
  | nil => simp
  | cons e es ih =>
    obtain ⟨a, b⟩ := e
    by_cases hk : k = a
    · subst hk; simp [List.lookup_cons]
    · have : (k == a) = false := by simpa using hk
      simp only [List.lookup_cons, this, List.map_cons, List.mem_cons, not_or]
      rw [ih]
      simp [hk]

theorem lookup_of_mem_nodup {β} (l : List (Nat × β)) (k : Nat) (c : β) (hn : (l.map (·.1)).Nodup) (h : (k, c) ∈ l) :
    l.lookup k = some c := by
  induction l with
  | nil => simp at h
  | cons e es ih =>
    obtain ⟨a, b⟩ := e
    simp only [List.map_cons, List.nodup_cons] at hn
    rcases List.mem_cons.mp h with heq | hin
    · cases heq; simp [List.lookup_cons]
    · have hne : k ≠ a := by
        intro hk; subst hk
        exact hn.1 (List.mem_map_of_mem (f := (·.1)) hin)
      have : (k == a) = false := by simpa using hne
      simp only [List.lookup_cons, this]
      exact ih hn.2 hin

theorem setVClaim_new (es : List (Nat × Content)) (v : Nat) (c : Content) (h : v ∉ es.map (·.1)) :
    setVClaim es v c = es ++ [(v, c)] := by
  induction es with
  | nil => rfl
  | cons e es ih =>
    simp only [List.map_cons, List.mem_cons, not_or] at h
    have : (e.1 == v) = false := by simpa using (Ne.symm h.1)
    simp only [setVClaim, this, List.cons_append]
    rw [ih h.2]
    rfl

/-! ### `AddClaim` keeps the tally well-formed -/

theorem addToGroups_contents (gs : List Group) (c : Content) (v : Nat) :
    (addToGroups gs c v).map (·.1) = if c ∈ gs.map (·.1) then gs.map (·.1) else gs.map (·.1) ++ [c] := by
  induction gs with
  | nil => simp [addToGroups]
  | cons g gs ih =>
    by_cases h : g.1 = c
    · simp [addToGroups, h]
    · have hb : (g.1 == c) = false := by simpa using h
      simp only [addToGroups, hb, Bool.false_eq_true, if_false, List.map_cons, List.mem_cons]
      rw [ih]
      have : ¬ c = g.1 := fun e => h e.symm
      by_cases hc : c ∈ gs.map (·.1)
      · simp [hc]
      · simp [hc, this]

theorem addToGroups_flat_perm (gs : List Group) (c : Content) (v : Nat) :
    ((addToGroups gs c v).flatMap (·.2)).Perm (v :: gs.flatMap (·.2)) := by
  induction gs with
  | nil => simp [addToGroups]
  | cons g gs ih =>
    by_cases h : g.1 = c
    · have hb : (g.1 == c) = true := by simpa using h
      simp only [addToGroups, hb, List.flatMap_cons, if_true]
      rw [List.append_assoc]
      have : (g.2 ++ ([v] ++ gs.flatMap (·.2))).Perm (v :: (g.2 ++ gs.flatMap (·.2))) := by
        simpa using List.perm_middle (l₁ := g.2) (l₂ := gs.flatMap (·.2)) (a := v)
      exact this
    · have hb : (g.1 == c) = false := by simpa using h
      simp only [addToGroups, hb, Bool.false_eq_true, if_false, List.flatMap_cons]
      have h1 : (g.2 ++ (addToGroups gs c v).flatMap (·.2)).Perm (g.2 ++ (v :: gs.flatMap (·.2))) :=
        List.Perm.append_left _ ih
      exact h1.trans List.perm_middle

theorem mem_addToGroups (gs : List Group) (c : Content) (v : Nat) (g' : Group) (h : g' ∈ addToGroups gs c v) :
    g' ∈ gs ∨ (g'.1 = c ∧ ∃ vs, g'.2 = vs ++ [v] ∧ ((c, vs) ∈ gs ∨ vs = [])) := by
  induction gs with
  | nil =>
    simp only [addToGroups, List.mem_singleton] at h
    right; subst h; exact ⟨rfl, [], rfl, Or.inr rfl⟩
  | cons g gs ih =>
    by_cases hg : g.1 = c
    · have hb : (g.1 == c) = true := by simpa using hg
      simp only [addToGroups, hb, if_true, List.mem_cons] at h
      rcases h with h | h
      · right; subst h
        refine ⟨hg, g.2, rfl, Or.inl ?_⟩
        rw [← hg]; simp
      · left; simp [h]
    · have hb : (g.1 == c) = false := by simpa using hg
      simp only [addToGroups, hb, Bool.false_eq_true, if_false, List.mem_cons] at h
      rcases h with h | h
      · left; simp [h]
      · rcases ih h with h' | ⟨e1, vs, e2, h'⟩
        · left; simp [h']
        · right
          refine ⟨e1, vs, e2, ?_⟩
          rcases h' with h' | h'
          · left; simp [h']
          · right; exact h'

theorem addToGroups_mono (gs : List Group) (c : Content) (v : Nat) (g : Group) (h : g ∈ gs) :
    ∃ g' ∈ addToGroups gs c v, g'.1 = g.1 ∧ ∀ u ∈ g.2, u ∈ g'.2 := by
  induction gs with
  | nil => simp at h
  | cons g0 gs ih =>
    by_cases hg : g0.1 = c
    · have hb : (g0.1 == c) = true := by simpa using hg
      simp only [addToGroups, hb, if_true]
      rcases List.mem_cons.mp h with h | h
      · subst h
        exact ⟨(g.1, g.2 ++ [v]), by simp, rfl, fun u hu => by simp [hu]⟩
      · exact ⟨g, by simp [h], rfl, fun u hu => hu⟩
    · have hb : (g0.1 == c) = false := by simpa using hg
      simp only [addToGroups, hb, Bool.false_eq_true, if_false]
      rcases List.mem_cons.mp h with h | h
      · subst h
        exact ⟨g, by simp, rfl, fun u hu => hu⟩
      · obtain ⟨g', hg', e1, e2⟩ := ih h
        exact ⟨g', by simp [hg'], e1, e2⟩

theorem addToGroups_has (gs : List Group) (c : Content) (v : Nat) :
    ∃ g' ∈ addToGroups gs c v, g'.1 = c ∧ v ∈ g'.2 := by
  induction gs with
  | nil => exact ⟨(c, [v]), by simp [addToGroups], rfl, by simp⟩
  | cons g0 gs ih =>
    by_cases hg : g0.1 = c
    · have hb : (g0.1 == c) = true := by simpa using hg
      simp only [addToGroups, hb, if_true]
      exact ⟨(g0.1, g0.2 ++ [v]), by simp, hg, by simp⟩
    · have hb : (g0.1 == c) = false := by simpa using hg
      simp only [addToGroups, hb, Bool.false_eq_true, if_false]
      obtain ⟨g', hg', e1, e2⟩ := ih
      exact ⟨g', by simp [hg'], e1, e2⟩

theorem hasClaim_false (p : Prophecy) (v : Nat) (hne : ∀ e ∈ p.vclaims, e.2 ≠ .empty) (h : hasClaim p v = false) :
    v ∉ p.vclaims.map (·.1) := by
  rw [← lookup_none_iff]
  unfold hasClaim at h
  split at h
  · rename_i c hc
    have := hne _ (lookup_some_mem _ _ _ hc)
    simp [this] at h
  · assumption

/-- `AddClaim` of a new validator with a non-empty content keeps the prophecy's tally well-formed -/
theorem addClaim_wf (p : Prophecy) (v : Nat) (c : Content) (hwf : ProphecyWF p) (hnew : hasClaim p v = false)
    (hc : c ≠ .empty) : ProphecyWF (addClaim p v c) := by
  obtain ⟨w1, w2, w3, w4, w5, w6⟩ := hwf
  have hv : v ∉ p.vclaims.map (·.1) := hasClaim_false p v w6 hnew
  have hvg : v ∉ p.groups.flatMap (·.2) := by
    intro hin
    obtain ⟨g, hg, hvg⟩ := List.mem_flatMap.mp hin
    have := w4 g hg v hvg
    exact hv (List.mem_map_of_mem (f := (·.1)) (lookup_some_mem _ _ _ this))
  have hset : setVClaim p.vclaims v c = p.vclaims ++ [(v, c)] := setVClaim_new _ _ _ hv
  unfold ProphecyWF addClaim
  simp only [hset]
  have hlk : ∀ u d, p.vclaims.lookup u = some d → (p.vclaims ++ [(v, c)]).lookup u = some d := by
    intro u d h
    rw [List.lookup_append, h]; rfl
  have hlkv : (p.vclaims ++ [(v, c)]).lookup v = some c := by
    rw [List.lookup_append, (lookup_none_iff _ _).mpr hv]
    simp [List.lookup_cons]
  refine ⟨?_, ?_, ?_, ?_, ?_, ?_⟩
  · rw [addToGroups_contents]
    split
    · exact w1
    · rename_i hcn
      rw [List.nodup_append]
      exact ⟨w1, by simp, by intro a ha b hb; simp at hb; subst hb; intro e; exact hcn (e ▸ ha)⟩
  · rw [(addToGroups_flat_perm _ _ _).nodup_iff, List.nodup_cons]
    exact ⟨hvg, w2⟩
  · rw [List.map_append, List.nodup_append]
    exact ⟨w3, by simp, by intro a ha b hb; simp at hb; subst hb; intro e; exact hv (e ▸ ha)⟩
  · intro g' hg' u hu
    rcases mem_addToGroups _ _ _ _ hg' with h | ⟨e1, vs, e2, h⟩
    · exact hlk _ _ (w4 g' h u hu)
    · rw [e2] at hu
      rw [e1]
      rcases List.mem_append.mp hu with hu | hu
      · rcases h with h | h
        · exact hlk _ _ (w4 _ h u hu)
        · subst h; simp at hu
      · simp at hu; subst hu; exact hlkv
  · intro e he
    rcases List.mem_append.mp he with he | he
    · obtain ⟨g, hg, e1, e2⟩ := w5 e he
      obtain ⟨g', hg', f1, f2⟩ := addToGroups_mono p.groups c v g hg
      exact ⟨g', hg', by rw [f1, e1], f2 _ e2⟩
    · simp at he; subst he
      exact addToGroups_has p.groups c v
  · intro e he
    rcases List.mem_append.mp he with he | he
    · exact w6 e he
    · simp at he; subst he; exact hc

theorem newProphecy_wf (id : String) : ProphecyWF (newProphecy id) := by
  unfold ProphecyWF newProphecy
  simp

/-- `processCompletion` touches status and final claim only -/
theorem processCompletionOn_groups (gs : List Group) (vals : List Validator) (wl : List Nat) (p : Prophecy) :
    (processCompletionOn gs vals wl p).groups = p.groups ∧ (processCompletionOn gs vals wl p).vclaims = p.vclaims ∧
    (processCompletionOn gs vals wl p).id = p.id := by
  unfold processCompletionOn
  simp only
  split
  · exact ⟨rfl, rfl, rfl⟩
  · split <;> exact ⟨rfl, rfl, rfl⟩

theorem processCompletionOn_wf (gs : List Group) (vals : List Validator) (wl : List Nat) (p : Prophecy) (h : ProphecyWF p) :
    ProphecyWF (processCompletionOn gs vals wl p) := by
  obtain ⟨e1, e2, _⟩ := processCompletionOn_groups gs vals wl p
  unfold ProphecyWF at h ⊢
  rw [e1, e2]
  exact h

/-! ### `ProcessClaim` -/

/-- every prophecy of the store has a well-formed tally -/
def OStateWF (st : OState) : Prop := ∀ p ∈ st.prophecies, ProphecyWF p

theorem getProphecy_some {ps : List Prophecy} {id : String} {p : Prophecy} (h : getProphecy ps id = some p) :
    p ∈ ps ∧ p.id = id := by
  unfold getProphecy at h
  exact ⟨List.mem_of_find?_eq_some h, by simpa using List.find?_some h⟩

theorem getD_id (ps : List Prophecy) (id : String) : ((getProphecy ps id).getD (newProphecy id)).id = id := by
  cases h : getProphecy ps id with
  | none => rfl
  | some p => exact (getProphecy_some h).2

theorem getD_wf (st : OState) (id : String) (h : OStateWF st) :
    ProphecyWF ((getProphecy st.prophecies id).getD (newProphecy id)) := by
  cases hp : getProphecy st.prophecies id with
  | none => exact newProphecy_wf id
  | some p => exact h p (getProphecy_some hp).1

theorem mem_setProphecy (ps : List Prophecy) (p q : Prophecy) (h : q ∈ setProphecy ps p) : q ∈ ps ∨ q = p := by
  induction ps with
  | nil => simp [setProphecy] at h; exact Or.inr h
  | cons a ps ih =>
    by_cases e : (a.id == p.id) = true
    · simp only [setProphecy, e, if_true, List.mem_cons] at h
      rcases h with h | h
      · exact Or.inr h
      · exact Or.inl (by simp [h])
    · have e' : (a.id == p.id) = false := by simpa using e
      simp only [setProphecy, e', Bool.false_eq_true, if_false, List.mem_cons] at h
      rcases h with h | h
      · exact Or.inl (by simp [h])
      · rcases ih h with h | h
        · exact Or.inl (by simp [h])
        · exact Or.inr h

theorem getProphecy_setProphecy_same (ps : List Prophecy) (p : Prophecy) : getProphecy (setProphecy ps p) p.id = some p := by
  induction ps with
  | nil => simp [setProphecy, getProphecy]
  | cons a ps ih =>
    by_cases e : (a.id == p.id) = true
    · simp [setProphecy, e, getProphecy]
    · have e' : (a.id == p.id) = false := by simpa using e
      simp only [setProphecy, e', Bool.false_eq_true, if_false]
      unfold getProphecy at ih ⊢
      rw [List.find?_cons, e']
      exact ih

theorem getProphecy_setProphecy_other (ps : List Prophecy) (p : Prophecy) (id : String) (hne : p.id ≠ id) :
    getProphecy (setProphecy ps p) id = getProphecy ps id := by
  induction ps with
  | nil =>
    have : (p.id == id) = false := by simpa using hne
    simp [setProphecy, getProphecy, this]
  | cons a ps ih =>
    by_cases e : (a.id == p.id) = true
    · have e1 : a.id = p.id := by simpa using e
      have h1 : (a.id == id) = false := by rw [e1]; simpa using hne
      have h2 : (p.id == id) = false := by simpa using hne
      simp [setProphecy, e, getProphecy, h1, h2]
    · have e' : (a.id == p.id) = false := by simpa using e
      simp only [setProphecy, e', Bool.false_eq_true, if_false]
      unfold getProphecy at ih ⊢
      rw [List.find?_cons, List.find?_cons, ih]

/-- the prophecy a claim addresses, before the claim -/
def target (st : OState) (c : Claim) : Prophecy := (getProphecy st.prophecies c.id).getD (newProphecy c.id)

/-- the prophecy after `AddClaim` and `processCompletion` -/
def claimed (ord : List Group → List Group) (vals : List Validator) (st : OState) (c : Claim) : Prophecy :=
  processCompletion ord vals st.whitelist (addClaim (target st c) c.validator c.content)

theorem ensureInWhiteList_spec {wl : List Nat} {c : Claim} (h : ensureInWhiteList wl c = true) :
    c.spelling = 0 ∧ inWhiteList wl c.validator = true := by
  unfold ensureInWhiteList at h
  simpa using h

/-- what a successful `ProcessClaim` did -/
theorem processClaim_ok {ord : List Group → List Group} {vals : List Validator} {st : OState} {c : Claim}
    {st' : OState} {s : StatusText} {f : Content} (h : processClaim ord vals st c = .ok (st', s, f)) :
    ensureInWhiteList st.whitelist c = true ∧ checkActive vals c.validator = true ∧ c.content ≠ .empty ∧
    (target st c).status = .pending ∧ hasClaim (target st c) c.validator = false ∧
    st' = { st with prophecies := setProphecy st.prophecies (claimed ord vals st c) } ∧
    s = (claimed ord vals st c).status ∧ f = (claimed ord vals st c).final := by
  unfold claimed target
  unfold processClaim at h
  by_cases h1 : ensureInWhiteList st.whitelist c = true
  · by_cases h2 : checkActive vals c.validator = true
    · by_cases h3 : (c.id == "") = true
      · simp [h1, h2, h3] at h
      · by_cases h4 : (c.content == Content.empty) = true
        · simp [h1, h2, h3, h4] at h
        · by_cases h5 : (((getProphecy st.prophecies c.id).getD (newProphecy c.id)).status != StatusText.pending) = true
          · simp [h1, h2, h3, h4, h5] at h
          · by_cases h6 : hasClaimKey ((getProphecy st.prophecies c.id).getD (newProphecy c.id)) c = true
            · simp [h1, h2, h3, h4, h5, h6] at h
            · simp only [h1, h2, h3, h4, h5, h6, Bool.not_true, Bool.false_eq_true, if_false] at h
              injection h with h
              injection h with e1 e2
              injection e2 with e2 e3
              have hsp := (ensureInWhiteList_spec h1).1
              have h6' : hasClaim ((getProphecy st.prophecies c.id).getD (newProphecy c.id)) c.validator = false := by
                unfold hasClaimKey at h6
                simpa [hsp] using h6
              refine ⟨h1, h2, by simpa using h4, by simpa using h5, h6', e1.symm, e2.symm, e3.symm⟩
    · simp [h1, h2] at h
  · simp [h1] at h

/-- `ProcessClaim` keeps every tally well-formed -/
theorem processClaim_wf {ord : List Group → List Group} {vals : List Validator} {st : OState} {c : Claim}
    {st' : OState} {s : StatusText} {f : Content} (hwf : OStateWF st)
    (h : processClaim ord vals st c = .ok (st', s, f)) : OStateWF st' := by
  obtain ⟨_, _, h3, _, h5, e1, _, _⟩ := processClaim_ok h
  subst e1
  intro q hq
  rcases mem_setProphecy _ _ _ hq with hq | hq
  · exact hwf q hq
  · subst hq
    exact processCompletionOn_wf _ _ _ _ (addClaim_wf _ _ _ (getD_wf st c.id hwf) h5 h3)

/-- support of a claim group's content = counted power of the group's validators -/
theorem support_eq_cpOf (vals : List Validator) (wl : List Nat) (p : Prophecy) (hwf : ProphecyWF p) (g : Group)
    (hg : g ∈ p.groups) : support vals wl p.vclaims g.1 = cpOf vals wl g.2 := by
  obtain ⟨w1, w2, w3, w4, w5, w6⟩ := hwf
  unfold support cpOf
  rw [sum_filter_map]
  congr 1
  apply List.map_congr_left
  intro v _
  have hiff : (p.vclaims.lookup v.id == some g.1) = true ↔ v.id ∈ g.2 := by
    constructor
    · intro h
      have h' : p.vclaims.lookup v.id = some g.1 := by simpa using h
      obtain ⟨g', hg', e1, e2⟩ := w5 _ (lookup_some_mem _ _ _ h')
      have : g' = g := List.inj_on_of_nodup_map w1 hg' hg e1
      rw [← this]; exact e2
    · intro h
      simp [w4 g hg v.id h]
  by_cases hin : v.id ∈ g.2
  · have := hiff.mpr hin
    simp [hin, this, wgt]
  · have : (p.vclaims.lookup v.id == some g.1) = false := by
      cases hh : (p.vclaims.lookup v.id == some g.1) with
      | false => rfl
      | true => exact (hin (hiff.mp hh)).elim
    simp [hin, this]

end Sif.Oracle

namespace Sif.Oracle
open Sif.Generated

theorem ratioGE_nat (p t : Nat) (ht : 0 < t) : ratioGE (p : Int) (t : Int) = decide (7 * t ≤ 10 * p) := by
  unfold ratioGE
  have hne : ((t : Nat) : Int) ≠ 0 := by omega
  rw [if_neg hne]
  apply decide_eq_decide.mpr
  have h7 : ((BridgeConsts.consensusNum : Nat) : Int) = 7 := rfl
  have h10 : ((BridgeConsts.consensusDen : Nat) : Int) = 10 := rfl
  rw [h7, h10]
  constructor <;> intro h <;> omega

theorem ratioLT_nat (p t : Nat) (ht : 0 < t) : ratioLT (p : Int) (t : Int) = decide (10 * p < 7 * t) := by
  unfold ratioLT
  have hne : ((t : Nat) : Int) ≠ 0 := by omega
  rw [if_neg hne]
  apply decide_eq_decide.mpr
  have h7 : ((BridgeConsts.consensusNum : Nat) : Int) = 7 := rfl
  have h10 : ((BridgeConsts.consensusDen : Nat) : Int) = 10 := rfl
  rw [h7, h10]
  constructor <;> intro h <;> omega

end Sif.Oracle
