import Sif.Proofs.C13Inv
/-
  C13 helper lemmas, part 4: the incremental interest payment (a "modify" step), its failing exits,
  `HandleInterestPayment`, the pro-rated interest block, `ForceCloseLong`.
-/
namespace Sif.Margin
open Sif Sif.Spec.C13

theorem iipEdge_ok {w : W} {ip ipc : Nat} {e : W × Nat × Nat} (h : iipEdge w ip ipc = .ok e) :
    ∃ u, e.1 = { w with mtp := { w.mtp with unpaid := u } } := by
  unfold iipEdge at h
  split at h
  · obtain ⟨cac, _, h⟩ := bind_ok h
    obtain ⟨u, _, h⟩ := bind_ok h
    have h := pure_ok h
    exact ⟨u, by rw [← h]⟩
  · simp at h; exact ⟨w.mtp.unpaid, by rw [← h]⟩

theorem iipEdge_err {w w' : W} {ip ipc : Nat} {e : Err} (h : iipEdge w ip ipc = .error (e, w')) : w' = w := by
  unfold iipEdge at h
  split at h
  · rcases bind_err h with h | ⟨cac, _, h⟩
    · exact (liftE_err h).1
    · rcases bind_err h with h | ⟨u, _, h⟩
      · exact liftM_err h
      · simp [pure, Except.pure] at h
  · simp at h

theorem takeFundPayment_err {w w' : W} {amount : Nat} {asset : Asset} {pct : Dec} {fund : Addr} {e : Err}
    (h : takeFundPayment w amount asset pct fund = .error (e, w')) : w' = w := by
  unfold takeFundPayment at h
  rcases bind_err h with h | ⟨_, _, h⟩
  · exact liftM_err h
  rcases bind_err h with h | ⟨take, _, h⟩
  · exact liftM_err h
  · rcases bind_err h with h | ⟨bank, _, h⟩
    · exact (liftE_err h).1
    · simp [pure, Except.pure] at h

theorem storeMtp_err {w w' : W} {e : Err} (hid : w.mtp.id ≠ 0) (h : w.storeMtp = .error (e, w')) : LedgerSame w.s w'.s := by
  unfold W.storeMtp State.setMtp at h
  simp only [hid, if_false] at h
  split at h
  · simp at h
  · rename_i e' s m heq
    split at heq
    · simp at heq; simp at h; rw [← h.2]; simp only []; rw [← heq.2.1]; exact LedgerSame.refl _
    · simp at heq

/-- a successful incremental interest payment: custody `x` moves from the position and from the
    pool's custody (into the pool's balance and the fund); everything is persisted -/
theorem iipBody_ok {w : W} {interest : Nat} {r : Nat × W} (hid : w.mtp.id ≠ 0) (h : iipBody w interest = .ok r) :
    ∃ x, MtpSame w.mtp { r.2.mtp with custody := w.mtp.custody } ∧ r.2.mtp.custody + x = w.mtp.custody ∧
      r.2.pool.sym = w.pool.sym ∧
      (∀ b, r.2.pool.cust b + (if b = isNative w.mtp.cust then x else 0) = w.pool.cust b) ∧
      (∀ b, r.2.pool.liab b = w.pool.liab b) ∧
      r.2.s.pools = setPoolL w.s.pools r.2.pool ∧ r.2.s.mtps = setMtpL w.s.mtps r.2.mtp ∧
      r.2.s.openCount = w.s.openCount ∧ r.2.s.mtpCount = w.s.mtpCount := by
  unfold iipBody at h
  obtain ⟨ip, _, h⟩ := bind_ok h
  obtain ⟨ipc, _, h⟩ := bind_ok h
  obtain ⟨e, he, h⟩ := bind_ok h
  obtain ⟨pc, _, h⟩ := bind_ok h
  obtain ⟨pk, _, h⟩ := bind_ok h
  obtain ⟨cu, hcu, h⟩ := bind_ok h
  obtain ⟨tw, htw, h⟩ := bind_ok h
  obtain ⟨actual, _, h⟩ := bind_ok h
  obtain ⟨c, hc, h⟩ := bind_ok h
  obtain ⟨b, _, h⟩ := bind_ok h
  obtain ⟨w9, hw9, h⟩ := bind_ok h
  have h := pure_ok h
  obtain ⟨u, hu⟩ := iipEdge_ok he
  obtain ⟨bank, hbank⟩ := takeFundPayment_ok htw
  have hcu' := usub_ok (liftM_ok hcu)
  have hc' := usub_ok (liftM_ok hc)
  rw [hbank] at hc' hw9
  rw [hu] at hcu' hc' hw9
  simp only [] at hcu' hc'
  have hw9' := storeMtp_ok_old (by exact hid) hw9
  rw [← h, hw9']
  refine ⟨e.2.2, ⟨rfl, rfl, rfl, rfl, rfl, rfl⟩, hcu', by simp, ?_, ?_, rfl, rfl, rfl, rfl⟩
  · intro b'
    simp only [storePool_pool, cust_setBal, cust_setCust]
    by_cases hb : b' = isNative w.mtp.cust
    · subst hb; simp; exact hc'
    · simp [hb]
  · intro b'
    simp

theorem iipBody_err {w w' : W} {interest : Nat} {e : Err} (hid : w.mtp.id ≠ 0) (h : iipBody w interest = .error (e, w')) :
    LedgerSame w.s w'.s := by
  unfold iipBody at h
  rcases bind_err h with h | ⟨ip, _, h⟩
  · rw [liftM_err h]; exact LedgerSame.refl _
  rcases bind_err h with h | ⟨ipc, _, h⟩
  · rw [(liftE_err h).1]; exact LedgerSame.refl _
  rcases bind_err h with h | ⟨e1, he, h⟩
  · rw [iipEdge_err h]; exact LedgerSame.refl _
  obtain ⟨u, hu⟩ := iipEdge_ok he
  rcases bind_err h with h | ⟨pc, _, h⟩
  · rw [liftM_err h, hu]; exact LedgerSame.refl _
  rcases bind_err h with h | ⟨pk, _, h⟩
  · rw [liftM_err h, hu]; exact LedgerSame.refl _
  rcases bind_err h with h | ⟨cu, _, h⟩
  · rw [liftM_err h, hu]; exact LedgerSame.refl _
  rcases bind_err h with h | ⟨tw, htw, h⟩
  · rw [takeFundPayment_err h, hu]; exact LedgerSame.refl _
  obtain ⟨bank, hbank⟩ := takeFundPayment_ok htw
  rcases bind_err h with h | ⟨actual, _, h⟩
  · rw [liftM_err h, hbank, hu]; exact LedgerSame.bank _ _
  rcases bind_err h with h | ⟨c, _, h⟩
  · rw [liftM_err h, hbank, hu]; exact LedgerSame.bank _ _
  rcases bind_err h with h | ⟨b, _, h⟩
  · rw [liftM_err h, hbank, hu]; exact LedgerSame.bank _ _
  rcases bind_err h with h | ⟨w9, _, h⟩
  · have := storeMtp_err (by rw [hbank, hu]; exact hid) h
    rw [hbank, hu] at this
    exact LedgerSame.trans (LedgerSame.bank _ bank) this
  · simp [pure, Except.pure] at h

end Sif.Margin

namespace Sif.Margin
open Sif Sif.Spec.C13

theorem Good.id_ne_zero {w : W} (hg : Good w) : w.mtp.id ≠ 0 := by
  obtain ⟨m0, hm0, hs⟩ := hg.mtp
  obtain ⟨hmem, hkey⟩ := getMtpL_some_mem hm0
  have := (hg.wf.ids m0 hmem).2.1
  have hk : m0.id = w.mtp.id := by
    have := hkey; unfold Mtp.key at this; exact (Prod.mk.inj this).2
  rw [← hk]; exact this

/-- a successful incremental interest payment keeps the world good -/
theorem iipBody_good {w : W} {interest : Nat} {r : Nat × W} (hg : Good w) (h : iipBody w interest = .ok r) :
    Good r.2 ∧ r.2.mtp.key = w.mtp.key ∧ r.2.pool.sym = w.pool.sym ∧ Frame w.s r.2.s w.mtp.key w.pool.sym := by
  obtain ⟨x, hsame, hcust, hsym, hc, hl, hpools, hmtps, hoc, hmc⟩ := iipBody_ok hg.id_ne_zero h
  obtain ⟨p0, hp0, hpc, hpl⟩ := hg.pool
  obtain ⟨m0, hm0, hm0s⟩ := hg.mtp
  have hkey : r.2.mtp.key = w.mtp.key := hsame.key
  have hcoll : r.2.mtp.coll = w.mtp.coll := hsame.coll
  have hcu : r.2.mtp.cust = w.mtp.cust := hsame.cust
  have hli : r.2.mtp.liab = w.mtp.liab := hsame.liab
  have hpos : r.2.mtp.pos = w.mtp.pos := hsame.pos
  have hget : getMtpL w.s.mtps r.2.mtp.key = some m0 := by rw [hkey]; exact hm0
  have hm0sym : m0.poolSym = w.pool.sym := by rw [poolSym_congr hm0s.coll.symm hm0s.cust.symm]; exact hg.home
  have hnsym : r.2.mtp.poolSym = w.pool.sym := by rw [poolSym_congr hcoll hcu]; exact hg.home
  obtain ⟨hmem, hk0⟩ := getMtpL_some_mem hm0
  refine ⟨⟨?_, ?_, ?_, ?_, ?_⟩, hkey, hsym, ⟨fun k' hk' => by rw [hmtps]; exact getMtpL_setMtpL_other _ (by rw [hkey]; exact hk'), fun y hy => by rw [hpools]; exact getPoolL_setPoolL_other _ (by rw [hsym]; exact hy), hmc⟩⟩
  · unfold OKp
    rw [hpools, hmtps, hoc]
    apply OKc_trans (sym := w.pool.sym) (p0 := p0) (old := some m0) (new := some r.2.mtp) hg.ok hg.wf.syms hp0 hsym
      (Trans.modify hg.wf.keys hget)
    · intro o ho; cases ho; exact hm0sym
    · intro n hn; cases hn; exact hnsym
    · intro b
      simp only [Option.map_some, Option.getD_some, custOf_eq _ _ _ hm0sym, custOf_eq _ _ _ hnsym, hcu]
      have h1 := hc b; have h2 := hpc b
      rw [← hm0s.cust]
      have h3 := hm0s.custody
      by_cases hb : b = isNative w.mtp.cust
      · simp only [hb, if_true] at h1 ⊢; rw [hb] at h2; omega
      · simp only [hb, if_false] at h1 ⊢; omega
    · intro b
      simp only [Option.map_some, Option.getD_some, liabOf_eq _ _ _ hm0sym, liabOf_eq _ _ _ hnsym, hcoll, hli]
      rw [← hm0s.coll, ← hm0s.liab, hl b, hpl b]
    · simp
  · apply WFp_of hg.wf
    · rw [hpools]; exact syms_setPoolL (p0 := p0) (by rw [hsym]; exact hp0)
    · rw [hmtps, setMtpL_present hget, keys_replace rfl]; exact hg.wf.keys
    · intro m hm
      rw [hmtps, setMtpL_present hget] at hm
      rw [hmc]
      rcases mem_replace hm with rfl | hm
      · have h0 := hg.wf.ids m0 hmem
        have hid : r.2.mtp.id = m0.id := by
          have := hkey.trans hk0.symm; unfold Mtp.key at this; exact (Prod.mk.inj this).2
        refine ⟨by rw [hid]; exact h0.1, by rw [hid]; exact h0.2.1, ?_, by rw [hpos, hm0s.pos]; exact h0.2.2.2⟩
        have := h0.2.2.1; unfold pairOK at this ⊢; rw [hcoll, hcu, hm0s.coll, hm0s.cust]; exact this
      · exact hg.wf.ids m hm
    · rw [hmtps, setMtpL_present hget, hmc]; simp; exact hg.wf.len
    · rw [hmc]; exact hg.wf.cnt
  · refine ⟨r.2.pool, ?_, fun _ => rfl, fun _ => rfl⟩
    rw [hpools]; exact getPoolL_set _ _
  · refine ⟨r.2.mtp, ?_, MtpSame.refl _⟩
    rw [hmtps, setMtpL_present hget]; exact getMtpL_replace_self hget
  · rw [hnsym, hsym]

/-- `HandleInterestPayment` of the repaired code keeps the world good on every exit -/
theorem handleInterestPayment_good {fx : Fixes} (hfx : fx.iipCopy = true) {w : W} {interest : Nat} (hg : Good w) :
    (∀ r, handleInterestPayment fx w interest = .ok r → Good r.2 ∧ r.2.mtp.key = w.mtp.key ∧ r.2.pool.sym = w.pool.sym ∧ Frame w.s r.2.s w.mtp.key w.pool.sym) ∧
    (∀ e w', handleInterestPayment fx w interest = .error (e, w') → Good w' ∧ w'.mtp.key = w.mtp.key ∧ w'.pool.sym = w.pool.sym ∧ Frame w.s w'.s w.mtp.key w.pool.sym) := by
  have hbank : ∀ (e : Err) (w' : W), iipBody w interest = .error (e, w') →
      Good ({ w with s := w'.s } : W) ∧ Frame w.s w'.s w.mtp.key w.pool.sym := by
    intro e w' h
    have hl : LedgerSame w.s w'.s := iipBody_err hg.id_ne_zero h
    exact ⟨hg.congr (w' := { w with s := w'.s }) hl (Pool.sameLedger_refl _) (MtpSame.refl _), hl.frame _ _⟩
  unfold handleInterestPayment incrementalInterestPayment
  constructor
  · intro r h
    split at h
    · cases hb : iipBody w interest with
      | ok r' =>
        rw [hb] at h; simp at h; rw [← h]; exact iipBody_good hg hb
      | error ew =>
        obtain ⟨e, w'⟩ := ew
        rw [hb] at h; simp only [hfx, if_true] at h
        split at h
        · simp at h
        · simp at h; rw [← h]; exact ⟨(hbank e w' hb).1, rfl, rfl, (hbank e w' hb).2⟩
    · simp at h; rw [← h]
      exact ⟨hg.congr (LedgerSame.refl _) (Pool.sameLedger_refl _) ⟨rfl, rfl, rfl, rfl, rfl, rfl⟩, rfl, rfl, Frame.refl _ _ _⟩
  · intro e w' h
    split at h
    · cases hb : iipBody w interest with
      | ok r' => rw [hb] at h; simp at h
      | error ew =>
        obtain ⟨e', w''⟩ := ew
        rw [hb] at h; simp only [hfx, if_true] at h
        split at h
        · simp at h; rw [← h.2]; exact ⟨(hbank e' w'' hb).1, rfl, rfl, (hbank e' w'' hb).2⟩
        · simp at h
    · simp at h

end Sif.Margin
