import Sif.Proofs.C20RewardsEdits
/- C20 (b): the EndBlocker and the AddRewardPeriod handler of the tree with fixes/F27.diff applied;
   arbitrary histories of edits and blocks, no hypothesis on how periods switch -/
namespace Sif.Rewards
open Sif Sif.Spec.C20

theorem endBlockActive_ok_form {p : Period} {h a : Nat} (e : Env) (hok : CurOK p h) {r : Nat × Nat}
    (hr : endBlockActive false p h a e = .ok r) :
    r = finish (decide ((h - p.start) % p.mod = 0)) (a + share p) e := by
  unfold endBlockActive at hr
  rw [dist_compute hok, calc_compute hok] at hr
  simp only at hr
  have hai : accuIn false p h a = a := by simp [accuIn]
  rw [hai] at hr
  unfold Uint.add Uint.chk at hr
  by_cases hlt : a + share p < two256
  · rw [if_pos hlt] at hr; cases hr; rfl
  · rw [if_neg hlt] at hr; cases hr

/-- one block of period `p` whose incoming accumulator `ain` is 0 in the period's first block and
    within the invariant otherwise -/
theorem finish_step {p : Period} {h ain accu' m : Nat} (e : Env) (hok : CurOK p h) (ha : p.alloc ≠ 0)
    (h0 : h = p.start → ain = 0)
    (hb : h ≠ p.start → ain ≤ share p * ((h - p.start - 1) % p.mod))
    (hf : (accu', m) = finish (decide ((h - p.start) % p.mod = 0)) (ain + share p) e) :
    rewardsBlockOK (some p) h m = true ∧ accuOK (some p) (h + 1) accu' := by
  have hm1 := hok.m1
  have hlo := hok.lo
  simp only [rewardsBlockOK, ha, if_false, decide_eq_true_eq]
  by_cases hstart : h = p.start
  · have hz : (h - p.start) % p.mod = 0 := by rw [hstart]; simp
    rw [h0 hstart, hz] at hf
    simp only [decide_true, finish, Nat.zero_add] at hf
    cases hf
    refine ⟨?_, fun q _ _ _ => Nat.zero_le _⟩
    have key : blockBound p h = share p := by
      unfold blockBound; rw [if_neg (by simp [hz]), if_pos hstart]
    rw [key]
    exact distribute_le _ _
  · have hacc := hb hstart
    have hgt : 1 ≤ h - p.start := by omega
    by_cases hz : (h - p.start) % p.mod = 0
    · rw [hz] at hf
      simp only [decide_true, finish] at hf
      cases hf
      refine ⟨?_, fun q _ _ _ => Nat.zero_le _⟩
      unfold blockBound
      simp only [hz, ne_eq, not_true_eq_false, if_false, hstart]
      have h1 := distribute_le (ain + share p) e
      have h2 : (h - p.start - 1) % p.mod + 1 ≤ p.mod := Nat.mod_lt _ (by omega)
      have h3 : share p * ((h - p.start - 1) % p.mod) + share p ≤ share p * p.mod := by
        have := Nat.mul_le_mul_left (share p) h2
        rw [Nat.mul_add, Nat.mul_one] at this
        exact this
      omega
    · simp only [hz, decide_false, finish] at hf
      cases hf
      refine ⟨by unfold blockBound; simp [hz], ?_⟩
      intro q hq hqa hne
      cases hq
      have e1 : h + 1 - p.start - 1 = h - p.start := by omega
      rw [e1]
      have := mod_pred (by omega : 0 < p.mod) hgt hz
      have h3 : share p * ((h - p.start - 1) % p.mod) + share p = share p * ((h - p.start) % p.mod) := by
        rw [← this, Nat.mul_add, Nat.mul_one]
      omega

/-- a period covering height h−1 has started before h -/
theorem start_lt_of_prev {ps : List Period} {h : Nat} {p : Period} (hh : h ≠ 0)
    (hc : currentPeriod ps (h - 1) = some p) : p.start < h := by
  obtain ⟨q, _, hr, rfl⟩ := currentPeriod_some hc
  obtain ⟨e1, _⟩ := normMod_fields q
  rw [inRange_iff] at hr
  omega

/-- the invariant: the accumulator is within the bound of the period that covers the previous
    height in the stored list -/
def accuInvR (ps : List Period) (h accu : Nat) : Prop := accuOK (currentPeriod ps (h - 1)) h accu

theorem endBlockR_step {ps : List Period} (henv : inEnvelope ps = true) {h accu accu' m : Nat} (e : Env)
    (hh : h ≠ 0) (hinv : accuInvR ps h accu) (hr : endBlockR ps h accu e = .ok (accu', m)) :
    rewardsBlockOK (currentPeriod ps h) h m = true ∧ accuInvR ps (h + 1) accu' := by
  unfold accuInvR
  simp only [Nat.add_sub_cancel]
  unfold endBlockR at hr
  cases hc : currentPeriod ps h with
  | none =>
    rw [hc] at hr; cases hr
    exact ⟨by simp [rewardsBlockOK], fun q hq => by cases hq⟩
  | some p =>
    rw [hc] at hr
    simp only at hr
    by_cases ha : p.alloc = 0
    · rw [if_pos ha] at hr; cases hr
      refine ⟨by simp [rewardsBlockOK, ha], ?_⟩
      intro q hq hqa _; cases hq; exact absurd ha hqa
    · rw [if_neg ha] at hr
      have hok := curOK_of_current henv hc
      have hf := endBlockActive_ok_form e hok hr
      apply finish_step e hok ha ?_ ?_ hf
      · intro hs
        unfold accuInR
        by_cases hp : h ≠ 0 ∧ currentPeriod ps (h - 1) = some p
        · have := start_lt_of_prev hp.1 hp.2; omega
        · rw [if_neg hp]
      · intro hs
        unfold accuInR
        by_cases hp : h ≠ 0 ∧ currentPeriod ps (h - 1) = some p
        · rw [if_pos hp]; exact hinv p hp.2 ha hs
        · rw [if_neg hp]; exact Nat.zero_le _

theorem runStepsR_block {ps : List Period} {h accu : Nat} {e : Env} {r : List Step} {a : Nat}
    {tr : List BlockObs} (hr : runStepsR ps h accu (.block e :: r) = .ok (a, tr)) :
    ∃ accu' m tr', endBlockR ps h accu e = .ok (accu', m) ∧
      runStepsR ps (h + 1) accu' r = .ok (a, tr') ∧ tr = (h, currentPeriod ps h, m) :: tr' := by
  simp only [runStepsR] at hr
  cases h1 : endBlockR ps h accu e with
  | error x => rw [h1] at hr; cases hr
  | ok p =>
    obtain ⟨accu', m⟩ := p
    rw [h1] at hr
    simp only at hr
    cases h2 : runStepsR ps (h + 1) accu' r with
    | error x => rw [h2] at hr; cases hr
    | ok p2 =>
      obtain ⟨a2, tr'⟩ := p2
      rw [h2] at hr
      simp only at hr
      cases hr
      exact ⟨accu', m, tr', rfl, h2, rfl⟩

theorem editAccu_inv {ps ps' : List Period} {h accu : Nat} (hh : h ≠ 0) (hinv : accuInvR ps h accu) :
    accuInvR ps' h (editAccu ps ps' h accu) := by
  unfold editAccu accuInvR at *
  by_cases hk : h = 0 ∨ currentPeriod ps (h - 1) = currentPeriod ps' (h - 1)
  · rw [if_pos hk]
    rcases hk with hk | hk
    · exact absurd hk hh
    · rw [← hk]; exact hinv
  · rw [if_neg hk]; exact fun _ _ _ _ => Nat.zero_le _

/-- per-block clause along EVERY history of edits and blocks -/
theorem stepsR_blocks_ok :
    ∀ (steps : List Step) (ps : List Period) (h accu a : Nat) (tr : List BlockObs),
      stepsEnv ps steps = true → h ≠ 0 → accuInvR ps h accu →
      runStepsR ps h accu steps = .ok (a, tr) → traceBlocksOK tr = true := by
  intro steps
  induction steps with
  | nil => intro ps h accu a tr _ _ _ hr; simp only [runStepsR] at hr; cases hr; rfl
  | cons st r ih =>
    intro ps h accu a tr henv hh hinv hr
    cases st with
    | edit ps' =>
      simp only [runStepsR] at hr
      simp only [stepsEnv] at henv
      exact ih ps' h _ a tr henv hh (editAccu_inv hh hinv) hr
    | block e =>
      obtain ⟨accu', m, tr', h1, h2, rfl⟩ := runStepsR_block hr
      simp only [stepsEnv, Bool.and_eq_true] at henv
      obtain ⟨hb, hnext⟩ := endBlockR_step henv.1 e hh hinv h1
      simp only [traceBlocksOK, hb, Bool.true_and]
      exact ih ps (h + 1) accu' a tr' henv.2 (by omega) hnext h2

/-- blocks of `q`'s range not yet processed at height h -/
def remBlocks (q : Period) (h : Nat) : Nat :=
  if h ≤ q.start then q.stop - q.start + 1 else if h ≤ q.stop then q.stop + 1 - h else 0

/-- what `q` may still create: its share for every block of its range still to come, plus the
    accumulator if `q` covered the previous height -/
def budgetR (q : Period) (ps : List Period) (h accu : Nat) : Nat :=
  share q * remBlocks q h + (if h ≠ 0 ∧ currentPeriod ps (h - 1) = some q then accu else 0)

theorem stepsR_budget (q : Period) (hqa : q.alloc ≠ 0) :
    ∀ (steps : List Step) (ps : List Period) (h accu a : Nat) (tr : List BlockObs),
      stepsEnv ps steps = true → h ≠ 0 →
      runStepsR ps h accu steps = .ok (a, tr) → sumFor q tr ≤ budgetR q ps h accu := by
  intro steps
  induction steps with
  | nil => intro ps h accu a tr _ _ hr; simp only [runStepsR] at hr; cases hr; simp [sumFor]
  | cons st r ih =>
    intro ps h accu a tr henv hh hr
    cases st with
    | edit ps' =>
      simp only [runStepsR] at hr
      simp only [stepsEnv] at henv
      have hih := ih ps' h _ a tr henv hh hr
      refine Nat.le_trans hih ?_
      unfold budgetR editAccu
      by_cases hq' : h ≠ 0 ∧ currentPeriod ps' (h - 1) = some q
      · rw [if_pos hq']
        by_cases hk : h = 0 ∨ currentPeriod ps (h - 1) = currentPeriod ps' (h - 1)
        · rw [if_pos hk]
          rcases hk with hk | hk
          · exact absurd hk hh
          · rw [if_pos ⟨hh, by rw [hk]; exact hq'.2⟩]; exact Nat.le_refl _
        · rw [if_neg hk]; omega
      · rw [if_neg hq']; omega
    | block e =>
      obtain ⟨accu', m, tr', h1, h2, rfl⟩ := runStepsR_block hr
      simp only [stepsEnv, Bool.and_eq_true] at henv
      have hih := ih ps (h + 1) accu' a tr' henv.2 (by omega) h2
      simp only [sumFor]
      unfold budgetR at hih ⊢
      simp only [Nat.add_sub_cancel] at hih
      have hne1 : h + 1 ≠ 0 := by omega
      by_cases hcur : currentPeriod ps h = some q
      · have hok := curOK_of_current henv.1 hcur
        have hlo := hok.lo
        have hhi := hok.hi
        unfold endBlockR at h1
        rw [hcur] at h1
        simp only at h1
        rw [if_neg hqa] at h1
        have hf := endBlockActive_ok_form e hok h1
        rw [if_pos ⟨hne1, hcur⟩] at hih
        simp only [hcur, if_true]
        have hrem : remBlocks q h = remBlocks q (h + 1) + 1 := by
          unfold remBlocks
          by_cases e1 : h = q.start
          · have c1 : h ≤ q.start := by omega
            have c2 : ¬ (h + 1 ≤ q.start) := by omega
            rw [if_pos c1, if_neg c2]
            by_cases c3 : h + 1 ≤ q.stop
            · rw [if_pos c3]; omega
            · rw [if_neg c3]; omega
          · have c1 : ¬ (h ≤ q.start) := by omega
            have c2 : ¬ (h + 1 ≤ q.start) := by omega
            rw [if_neg c1, if_pos hhi, if_neg c2]
            by_cases c3 : h + 1 ≤ q.stop
            · rw [if_pos c3]; omega
            · rw [if_neg c3]; omega
        have hmul : share q * remBlocks q h = share q * remBlocks q (h + 1) + share q := by
          rw [hrem]; exact Nat.mul_succ _ _
        have hain : accuInR ps q h accu = (if h ≠ 0 ∧ currentPeriod ps (h - 1) = some q then accu else 0) := rfl
        rw [← hain]
        unfold finish at hf
        split at hf
        · cases hf
          have := distribute_le (accuInR ps q h accu + share q) e
          omega
        · cases hf; omega
      · simp only [hcur, if_false, Nat.zero_add]
        have : ¬ (h + 1 ≠ 0 ∧ currentPeriod ps h = some q) := fun c => hcur c.2
        rw [if_neg this] at hih
        have hmono : remBlocks q (h + 1) ≤ remBlocks q h := by
          unfold remBlocks
          by_cases c1 : h + 1 ≤ q.start
          · rw [if_pos c1, if_pos (by omega)]; omega
          · rw [if_neg c1]
            by_cases c2 : h ≤ q.start
            · rw [if_pos c2]
              by_cases c3 : h + 1 ≤ q.stop
              · rw [if_pos c3]; omega
              · rw [if_neg c3]; omega
            · rw [if_neg c2]
              by_cases c3 : h + 1 ≤ q.stop
              · rw [if_pos c3, if_pos (by omega)]; omega
              · rw [if_neg c3]; omega
        have := Nat.mul_le_mul_left (share q) hmono
        omega

theorem remBlocks_le (q : Period) (h : Nat) : remBlocks q h ≤ q.stop - q.start + 1 := by
  unfold remBlocks; split
  · omega
  · split <;> omega

theorem prev_range {ps : List Period} {h : Nat} {p : Period} (hh : h ≠ 0)
    (hc : currentPeriod ps (h - 1) = some p) : p.start < h ∧ h ≤ p.stop + 1 := by
  obtain ⟨q, _, hr, rfl⟩ := currentPeriod_some hc
  obtain ⟨e1, e2, _⟩ := normMod_fields q
  rw [inRange_iff] at hr
  omega

/-- the budget at the beginning of a history that satisfies the invariant is within the allocation -/
theorem budgetR_le_alloc (q : Period) (hqa : q.alloc ≠ 0) {ps : List Period} {h accu : Nat}
    (hinv : accuInvR ps h accu) : budgetR q ps h accu ≤ q.alloc := by
  have hle : share q * (q.stop - q.start + 1) ≤ q.alloc := Nat.div_mul_le_self _ _
  unfold budgetR
  by_cases hp : h ≠ 0 ∧ currentPeriod ps (h - 1) = some q
  · rw [if_pos hp]
    obtain ⟨h1, h2⟩ := prev_range hp.1 hp.2
    have hacc := hinv q hp.2 hqa (by omega)
    have hmod : (h - q.start - 1) % q.mod ≤ h - q.start - 1 := Nat.mod_le _ _
    have h3 : share q * ((h - q.start - 1) % q.mod) ≤ share q * (h - q.start - 1) := Nat.mul_le_mul_left _ hmod
    have hrem : remBlocks q h + (h - q.start - 1) ≤ q.stop - q.start + 1 := by
      unfold remBlocks
      rw [if_neg (by omega)]
      by_cases c : h ≤ q.stop
      · rw [if_pos c]; omega
      · rw [if_neg c]; omega
    have h4 := Nat.mul_le_mul_left (share q) hrem
    rw [Nat.mul_add] at h4
    omega
  · rw [if_neg hp]
    have := Nat.mul_le_mul_left (share q) (remBlocks_le q h)
    omega

end Sif.Rewards
