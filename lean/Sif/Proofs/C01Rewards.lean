import Sif.Proofs.C01Hooks
import Sif.Proofs.C18
/-
  C01 — depth rewards (both modes) keep the module account solvent.
-/
namespace Sif.Clp
open Sif Sif.AList Sif.Spec.C01

/-- `Solv` transported along a step that changes neither keys nor the recorded amounts' upper bound -/
theorem solv_of_le {s t : St} (hinv : Solv s) (hnd : t.pools.NodupKeys) (hk : PoolKeysOK t)
    (h : ∀ d, recorded t d + s.bal clpAcct d ≤ recorded s d + t.bal clpAcct d) : Solv t := by
  refine ⟨hnd, hk, ?_⟩
  intro d
  have := h d; have := hinv.2.2 d
  omega

theorem addRewardToPool_rec {s s' : St} {sym : String} {amt : Nat} (hk : PoolKeysOK s)
    (h : addRewardToPool s sym amt = .ok s') :
    s'.bank = s.bank ∧ s'.buckets = s.buckets ∧ (s.pools.NodupKeys → s'.pools.NodupKeys) ∧ PoolKeysOK s' ∧
    ∀ d, recorded s' d ≤ recorded s d + (if d = rowan then amt else 0) := by
  unfold addRewardToPool at h
  split at h
  · cases h; exact ⟨rfl, rfl, id, hk, fun d => by split <;> omega⟩
  · rename_i p hg
    obtain ⟨nB, hn, h⟩ := bind_ok h
    obtain ⟨rp, _, h⟩ := bind_ok h
    cases h
    have hps : p.sym = sym := hk sym p hg
    have en := (Uint.add_ok hn).1
    refine ⟨rfl, rfl, fun h => nodupKeys_set _ _ h, ?_, ?_⟩
    · intro sy q hq
      have hq : (s.pools.set (poolKey sym) { p with nBal := nB, rpnd := rp }).get (poolKey sy) = some q := hq
      rw [get_set] at hq
      split at hq
      · rename_i he
        cases hq
        have := poolKey_inj he
        simp [hps, this]
      · exact hk sy q hq
    · intro d
      have := sumBy_set_present (poolRec d) s.pools (poolKey sym) ({ p with nBal := nB, rpnd := rp } : Pool) p hg
      simp only [recorded_eq]
      show sumBy (poolRec d) (s.pools.set (poolKey sym) { p with nBal := nB, rpnd := rp }) + _ ≤ _
      simp only [poolRec, en] at this ⊢
      split_prop hd : d = rowan <;> simp only [hd, if_true, if_false] at this ⊢ <;> omega

theorem accumulateRewards_rec :
    ∀ (tuples : List (String × Nat)) (s s' : St), PoolKeysOK s → accumulateRewards s tuples = .ok s' →
      s'.bank = s.bank ∧ s'.buckets = s.buckets ∧ (s.pools.NodupKeys → s'.pools.NodupKeys) ∧ PoolKeysOK s' ∧
      ∀ d, recorded s' d ≤ recorded s d + (if d = rowan then amtSum tuples else 0) := by
  intro tuples
  induction tuples with
  | nil =>
    intro s s' hk h
    unfold accumulateRewards at h; simp [List.foldlM] at h; cases h
    exact ⟨rfl, rfl, id, hk, fun d => by split <;> simp [amtSum]⟩
  | cons hd t ih =>
    intro s s' hk h
    obtain ⟨sym, amt⟩ := hd
    unfold accumulateRewards at h
    simp only [List.foldlM] at h
    obtain ⟨s1, h1, h⟩ := bind_ok h
    obtain ⟨b1, k1, n1, hk1, r1⟩ := addRewardToPool_rec hk h1
    obtain ⟨b2, k2, n2, hk2, r2⟩ := ih s1 s' hk1 h
    refine ⟨b2.trans b1, k2.trans k1, fun h => n2 (n1 h), hk2, ?_⟩
    intro d
    have := r1 d; have := r2 d
    simp only [amtSum]
    split_prop hd : d = rowan <;> simp only [hd, if_true, if_false] at * <;> omega

theorem resetRpnd_rec (s : St) (hk : PoolKeysOK s) :
    (resetRpnd s).bank = s.bank ∧ (resetRpnd s).buckets = s.buckets ∧ PoolKeysOK (resetRpnd s) ∧
    ∀ d, recorded (resetRpnd s) d = recorded s d := by
  refine ⟨rfl, rfl, ?_, ?_⟩
  · intro sy q hq
    have hq : AList.get (s.pools.map (fun (e : String × Pool) => (e.1, { e.2 with rpnd := 0 }))) (poolKey sy) = some q := hq
    rw [get_map_val (fun p : Pool => { p with rpnd := 0 })] at hq
    cases hg : s.pools.get (poolKey sy) with
    | none => simp [hg] at hq
    | some p =>
      simp [hg] at hq
      subst hq
      exact hk sy p hg
  · intro d
    simp only [recorded_eq]
    show sumBy (poolRec d) (s.pools.map (fun (e : String × Pool) => (e.1, { e.2 with rpnd := 0 }))) + _ = _
    congr 1
    generalize s.pools = l
    induction l with
    | nil => rfl
    | cons hd t ih => obtain ⟨k, p⟩ := hd; simp only [List.map_cons, sumBy, ih]; rfl

end Sif.Clp

namespace Sif.Clp
open Sif Sif.AList Sif.Spec.C01

def tsum (t : AList Nat) : Nat := t.sumBy id

/-- what the recipients of `l` are owed in total -/
def owed (ps : List Payout) : List String → Nat
  | [] => 0
  | a :: t => totalFor ps a + owed ps t

theorem refundStep (t : AList Nat) (k : String) (amt : Nat) (v : Nat)
    (h : Uint.sub ((t.get k).getD 0) amt = .ok v) : tsum (t.set k v) + amt = tsum t := by
  obtain ⟨e, hle⟩ := Uint.sub_ok h
  unfold tsum
  cases hg : t.get k with
  | none =>
    rw [sumBy_set_absent _ _ _ _ hg]
    simp [hg] at e hle
    subst e; simp [hle]
  | some cur =>
    have := sumBy_set_present id t k v cur hg
    simp [hg] at e hle
    simp only [id] at this
    omega

theorem foldlM_refund (ps : List Payout) :
    ∀ (t t' : AList Nat), ps.foldlM (fun t p => do
        let cur := (t.get p.1).getD 0
        let v ← Uint.sub cur p.2.2
        pure (t.set p.1 v)) t = .ok t' →
      tsum t' + ps.foldl (fun a p => a + p.2.2) 0 = tsum t := by
  induction ps with
  | nil => intro t t' h; simp [List.foldlM] at h; cases h; simp
  | cons p rest ih =>
    intro t t' h
    simp only [List.foldlM] at h
    obtain ⟨t1, h1, h⟩ := bind_ok h
    obtain ⟨v, hv, h1⟩ := bind_ok h1
    cases h1
    have e1 := refundStep t p.1 p.2.2 v hv
    have e2 := ih _ _ h
    have shift : ∀ (l : List Payout) (c : Nat), l.foldl (fun a p => a + p.2.2) c = c + l.foldl (fun a p => a + p.2.2) 0 := by
      intro l
      induction l with
      | nil => intro c; simp
      | cons q r ihl => intro c; simp only [List.foldl]; rw [ihl (c + q.2.2), ihl (0 + q.2.2)]; omega
    simp only [List.foldl]
    rw [shift rest (0 + p.2.2)]
    omega

theorem refundTotals_sum {tots tots' : AList Nat} {ps : List Payout} {addr : String}
    (h : refundTotals tots ps addr = .ok tots') : tsum tots' + totalFor ps addr = tsum tots := by
  unfold refundTotals at h
  unfold totalFor
  exact foldlM_refund _ _ _ h

/-- the payout loop: the module account loses at most what it pays, and only native coins;
    whatever is refused is taken back out of the per-pool totals -/
theorem transferAll_bank (ps : List Payout) :
    ∀ (l : List String) (s : St) (tots : AList Nat) (s' : St) (tots' : AList Nat),
      transferAll ps l s tots = .ok (s', tots') →
      s'.pools = s.pools ∧ s'.buckets = s.buckets ∧ s'.lps = s.lps ∧
      (∀ d, d ≠ rowan → s.bal clpAcct d ≤ s'.bal clpAcct d) ∧
      s.bal clpAcct rowan + tsum tots ≤ s'.bal clpAcct rowan + owed ps l + tsum tots' := by
  intro l
  induction l with
  | nil =>
    intro s tots s' tots' h
    unfold transferAll at h; cases h
    exact ⟨rfl, rfl, rfl, fun _ _ => Nat.le_refl _, by simp [owed]⟩
  | cons a t ih =>
    intro s tots s' tots' h
    unfold transferAll at h
    split at h
    · rename_i s1 hs
      unfold sendFromModule at hs
      split at hs
      · cases hs
      · obtain ⟨p1, l1, k1, _⟩ := send_frame hs
        have b1 := send_out_bal hs
        obtain ⟨r1, r2, r3, r4, r5⟩ := ih _ _ _ _ h
        refine ⟨r1.trans p1, r2.trans k1, r3.trans l1, ?_, ?_⟩
        · intro d hd
          have := b1 d; have := r4 d hd
          simp only [hd, if_false] at *
          omega
        · have := b1 rowan
          simp only [if_true] at this
          simp only [owed]; omega
    · obtain ⟨t1, ht, h⟩ := bind_ok h
      have e := refundTotals_sum ht
      obtain ⟨r1, r2, r3, r4, r5⟩ := ih _ _ _ _ h
      refine ⟨r1, r2, r3, r4, ?_⟩
      simp only [owed]; omega

/-- replacing the record under a raw store key by one with the same symbol keeps key consistency -/
theorem poolKeysOK_setKey {s : St} {k : String} {p p' : Pool} (hk : PoolKeysOK s)
    (hg : s.pools.get k = some p) (hs : p'.sym = p.sym) : PoolKeysOK { s with pools := s.pools.set k p' } := by
  intro sy q hq
  have hq : (s.pools.set k p').get (poolKey sy) = some q := hq
  rw [get_set] at hq
  split at hq
  · rename_i he
    cases hq
    rw [hs]
    exact hk sy p (by show s.pools.get (poolKey sy) = some p; rw [← he]; exact hg)
  · exact hk sy q hq

theorem recorded_setKey {s : St} {k : String} {p p' : Pool} (hg : s.pools.get k = some p) (d : String) :
    recorded { s with pools := s.pools.set k p' } d + poolRec d p = recorded s d + poolRec d p' := by
  simp only [recorded_eq]
  have := sumBy_set_present (poolRec d) s.pools k p' p hg
  show sumBy (poolRec d) (s.pools.set k p') + _ + _ = _
  omega

theorem bumpRpnd_rec {s s' : St} {tots : AList Nat} (hk : PoolKeysOK s) (h : bumpRpnd s tots = .ok s') :
    s'.bank = s.bank ∧ s'.buckets = s.buckets ∧ (s.pools.NodupKeys → s'.pools.NodupKeys) ∧ PoolKeysOK s' ∧
    ∀ d, recorded s' d = recorded s d := by
  unfold bumpRpnd at h
  revert s s'
  induction tots with
  | nil => intro s s' hk h; simp [List.foldlM] at h; cases h; exact ⟨rfl, rfl, id, hk, fun _ => rfl⟩
  | cons hd t ih =>
    intro s s' hk h
    obtain ⟨key, amt⟩ := hd
    simp only [List.foldlM] at h
    obtain ⟨s1, h1, h⟩ := bind_ok h
    have step : s1.bank = s.bank ∧ s1.buckets = s.buckets ∧ (s.pools.NodupKeys → s1.pools.NodupKeys) ∧ PoolKeysOK s1 ∧
        ∀ d, recorded s1 d = recorded s d := by
      split at h1
      · cases h1; exact ⟨rfl, rfl, id, hk, fun _ => rfl⟩
      · split at h1
        · cases h1; exact ⟨rfl, rfl, id, hk, fun _ => rfl⟩
        · rename_i p hg
          obtain ⟨rp, _, h1⟩ := bind_ok h1
          cases h1
          refine ⟨rfl, rfl, fun h => nodupKeys_set _ _ h, poolKeysOK_setKey hk hg rfl, ?_⟩
          intro d
          have := recorded_setKey (p' := ({ p with rpnd := rp } : Pool)) hg d
          simp only [poolRec] at this
          omega
    obtain ⟨b1, k1, n1, hk1, r1⟩ := step
    obtain ⟨b2, k2, n2, hk2, r2⟩ := ih hk1 h
    exact ⟨b2.trans b1, k2.trans k1, fun h => n2 (n1 h), hk2, fun d => (r2 d).trans (r1 d)⟩

end Sif.Clp

namespace Sif.Clp
open Sif Sif.AList Sif.Spec.C01

theorem bal_of_bank_eq {s t : St} (h : t.bank = s.bank) (a d : String) : t.bal a d = s.bal a d := by
  simp [St.bal, h]

/-- every rewarded pool has at least one provider record (in distribute mode a pool without
    providers would have its reward recorded while the coins are burned) -/
def RewardedHaveProviders (s : St) (tuples : List (String × Nat)) : Prop :=
  ∀ t ∈ tuples, (lpsOf s t.1).isEmpty = false

theorem filter_noLp_nil {s : St} {tuples : List (String × Nat)} (h : RewardedHaveProviders s tuples) :
    tuples.filter (fun t => (lpsOf s t.1).isEmpty) = [] := by
  rw [List.filter_eq_nil_iff]
  intro t ht
  simp [h t ht]

/-- distribute mode: after minting, paying and burning the remainder the module account holds
    exactly what it held before the mint, and no recorded amount changed -/
theorem distributeRewards_solv {s0 s s' : St} {tuples : List (String × Nat)} {pre mint : Nat}
    (hinv : Solv s0) (hs : s = s0.setBal clpAcct rowan (pre + mint)) (hpre : pre = s0.bal clpAcct rowan)
    (hprov : RewardedHaveProviders s tuples)
    (h : distributeRewards s tuples pre = .ok s') : Solv s' := by
  unfold distributeRewards at h
  obtain ⟨sa, h0, h⟩ := bind_ok h
  obtain ⟨⟨ps, tots⟩, _, h⟩ := bind_ok h
  obtain ⟨⟨s1, tots1⟩, ht, h⟩ := bind_ok h
  obtain ⟨s2, hb, h⟩ := bind_ok h
  obtain ⟨diff, hd, h⟩ := bind_ok h
  cases h
  -- no pool without providers: the accumulate step is the identity
  rw [filter_noLp_nil hprov] at h0
  have hsa : sa = s := by
    unfold accumulateRewards at h0
    simp only [List.foldlM] at h0
    cases h0; rfl
  rw [hsa] at ht
  obtain ⟨p1, k1, _, o1, _⟩ := transferAll_bank ps _ _ _ _ _ ht
  obtain ⟨hnd, hk, hsolv⟩ := hinv
  have hks : PoolKeysOK s1 := poolKeysOK_congr (s := s0) (by rw [p1, hs]; rfl) hk
  obtain ⟨b2, k2, n2, hk2, r2⟩ := bumpRpnd_rec hks hb
  obtain ⟨ed, hle⟩ := Uint.sub_ok hd
  refine ⟨?_, ?_, ?_⟩
  · show s2.pools.NodupKeys
    apply n2; rw [p1, hs]; exact hnd
  · exact poolKeysOK_congr (s := s2) rfl hk2
  · intro d
    have hrec : recorded (s2.setBal clpAcct rowan (s2.bal clpAcct rowan - diff)) d = recorded s0 d := by
      have e1 : recorded (s2.setBal clpAcct rowan (s2.bal clpAcct rowan - diff)) d = recorded s2 d := rfl
      rw [e1, r2 d]
      exact recorded_congr (by rw [p1, hs]; rfl) (by rw [k1, hs]; rfl) d
    rw [hrec, bal_setBal]
    have hsv := hsolv d
    by_cases hdr : d = rowan
    · subst hdr
      simp only [true_and, if_true]
      omega
    · have hne : ¬ (clpAcct = clpAcct ∧ rowan = d) := fun e => hdr e.2.symm
      rw [if_neg hne]
      have e2 : s2.bal clpAcct d = s1.bal clpAcct d := bal_of_bank_eq b2 _ _
      have e3 := o1 d hdr
      have e4 : (s0.setBal clpAcct rowan (pre + mint)).bal clpAcct d = s0.bal clpAcct d := by
        rw [bal_setBal]; rw [if_neg hne]
      rw [hs] at e3
      omega

/-- accumulate mode: the minted coins stay in the module account and are recorded on the pools -/
theorem accumulate_solv {s0 s' : St} {tuples : List (String × Nat)} {mint : Nat}
    (hinv : Solv s0) (hm : amtSum tuples = mint)
    (h : accumulateRewards (s0.setBal clpAcct rowan (s0.bal clpAcct rowan + mint)) tuples = .ok s') : Solv s' := by
  obtain ⟨hnd, hk, hsolv⟩ := hinv
  have hk1 : PoolKeysOK (s0.setBal clpAcct rowan (s0.bal clpAcct rowan + mint)) := poolKeysOK_congr rfl hk
  obtain ⟨b, k, n, hk', r⟩ := accumulateRewards_rec tuples _ _ hk1 h
  refine ⟨n hnd, hk', ?_⟩
  intro d
  have := r d; have hsv := hsolv d
  have e0 : recorded (s0.setBal clpAcct rowan (s0.bal clpAcct rowan + mint)) d = recorded s0 d := rfl
  rw [e0] at this
  rw [bal_of_bank_eq b, bal_setBal]
  split_prop hd : d = rowan
  · have hd' : d = rowan := of_eq_true hd
    subst hd'
    simp only [if_true, and_self] at this ⊢
    omega
  · simp only [hd, if_false] at this
    have hne : ¬ (clpAcct = clpAcct ∧ rowan = d) := fun e => (of_eq_false hd) e.2.symm
    rw [if_neg hne]; omega

end Sif.Clp

namespace Sif.Clp
open Sif Sif.AList Sif.Spec.C01

theorem solv_resetRpnd {s : St} (hinv : Solv s) : Solv (resetRpnd s) := by
  obtain ⟨hnd, hk, hsolv⟩ := hinv
  obtain ⟨b, _, hk', r⟩ := resetRpnd_rec s hk
  refine ⟨(resetRpnd_upres s).2.1 hnd, hk', ?_⟩
  intro d
  rw [r d, bal_of_bank_eq b]; exact hsolv d

theorem solv_startReset {s : St} (rp : RewardPeriod) (hinv : Solv s) : Solv (startReset s rp) := by
  unfold startReset
  split
  · exact solv_resetRpnd hinv
  · exact hinv

/-- the premise of distribute mode, stated on the state the tuples are computed from -/
def DistributeOK (s0 : St) (rp : RewardPeriod) (td : Dec) (bd : Nat) : Prop :=
  rp.distribute = true →
    ∀ tuples mint, rewardTuples rp td bd s0.pools bd 0 [] = .ok (tuples, mint) →
      RewardedHaveProviders (s0.setBal clpAcct rowan (s0.bal clpAcct rowan + mint)) tuples

theorem distributeTuples_solv {s0 s' : St} {rp : RewardPeriod} {td : Dec} {bd : Nat}
    (hinv : Solv s0) (hok : DistributeOK s0 rp td bd) (h : distributeTuples s0 rp td bd = .ok s') : Solv s' := by
  unfold distributeTuples at h
  obtain ⟨⟨tuples, mint⟩, ht, h⟩ := bind_ok h
  dsimp only at h
  obtain ⟨_, hsum⟩ := rewardTuples_le rp td bd s0.pools bd 0 [] tuples mint rfl ht
  split at h
  · rename_i hd
    exact distributeRewards_solv hinv rfl rfl (hok hd tuples mint ht) h
  · exact accumulate_solv hinv hsum.symm h

theorem distributeDepthRewards_solv {s s' : St} {rp : RewardPeriod} {bd : Nat}
    (hinv : Solv s) (hok : ∀ td, DistributeOK (startReset s rp) rp td bd)
    (h : distributeDepthRewards s rp bd = .ok s') : Solv s' := by
  unfold distributeDepthRewards at h
  split at h
  · cases h; exact hinv
  · obtain ⟨td, _, h⟩ := bind_ok h
    unfold afterDepth at h
    split at h
    · cases h; exact solv_startReset rp hinv
    · exact distributeTuples_solv (solv_startReset rp hinv) (hok td) h

/-- the period as the hook uses it (`mod = 0` is read as 1) -/
def effPeriod (rp0 : RewardPeriod) : RewardPeriod := if rp0.mod = 0 then { rp0 with mod := 1 } else rp0

theorem rewardsHook_solv {s s' : St} (hinv : Solv s)
    (hok : ∀ rp0, s.params.rewardPeriod = some rp0 → ∀ td bd, DistributeOK (startReset s (effPeriod rp0)) (effPeriod rp0) td bd)
    (h : rewardsHook s = .ok s') : Solv s' := by
  unfold rewardsHook at h
  split at h
  · cases h; exact hinv
  · rename_i rp0 hrp
    split at h
    · cases h; exact hinv
    · obtain ⟨d, _, h⟩ := bind_ok h
      obtain ⟨cur, _, h⟩ := bind_ok h
      obtain ⟨bd, _, h⟩ := bind_ok h
      split at h
      · obtain ⟨s1, h1, h⟩ := bind_ok h
        cases h
        have := distributeDepthRewards_solv hinv (fun td => hok rp0 hrp td bd) h1
        obtain ⟨a, b, c⟩ := this
        exact ⟨a, poolKeysOK_congr rfl b, fun d => c d⟩
      · cases h
        obtain ⟨a, b, c⟩ := hinv
        exact ⟨a, poolKeysOK_congr rfl b, fun d => c d⟩

end Sif.Clp
