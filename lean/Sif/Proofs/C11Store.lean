import Sif.Spec.C11
import Sif.Proofs.C11Keys
import Sif.Proofs.DispBank
/- lemmas about the sorted stores of the dispensation model (C11) -/
namespace Sif.Disp
open Sif.Spec.C11

/-- every key of the store is above `k` -/
def keysLt {α} (k : Key) (st : Store α) : Prop := ∀ p ∈ st, ltKey k p.1 = true

/-- strictly increasing keys -/
def Sorted {α} : Store α → Prop
  | [] => True
  | (k, _) :: r => keysLt k r ∧ Sorted r

theorem sGet_none_of_keysLt {α} {k : Key} {st : Store α} (h : keysLt k st) : sGet st k = none := by
  induction st with
  | nil => rfl
  | cons p r ih =>
    obtain ⟨k', v⟩ := p
    have h1 : ltKey k k' = true := h (k', v) (by simp)
    have hne : k' ≠ k := fun e => ltKey_ne h1 e.symm
    simp only [sGet, hne, if_false]
    exact ih (fun p hp => h p (by simp [hp]))

theorem sGet_sSet_same {α} (st : Store α) (k : Key) (v : α) : sGet (sSet st k v) k = some v := by
  induction st with
  | nil => simp [sSet, sGet]
  | cons p r ih =>
    obtain ⟨k', v'⟩ := p
    simp only [sSet]
    split
    · simp [sGet]
    · split
      · simp [sGet]
      · rename_i h1 _
        have : k' ≠ k := fun e => h1 e.symm
        simp [sGet, this, ih]

theorem sGet_sSet_other {α} (st : Store α) (k k' : Key) (v : α) (h : k' ≠ k) :
    sGet (sSet st k v) k' = sGet st k' := by
  have h' : k ≠ k' := fun e => h e.symm
  induction st with
  | nil => simp [sSet, sGet, h']
  | cons p r ih =>
    obtain ⟨k0, v0⟩ := p
    simp only [sSet]
    split
    · rename_i e; subst e; simp [sGet, h']
    · split
      · simp [sGet, h']
      · simp only [sGet]; rw [ih]

theorem sGet_sDel_other {α} (st : Store α) (k k' : Key) (h : k' ≠ k) :
    sGet (sDel st k) k' = sGet st k' := by
  induction st with
  | nil => rfl
  | cons p r ih =>
    obtain ⟨k0, v0⟩ := p
    simp only [sDel]
    split
    · rename_i e; subst e
      have : k0 ≠ k' := fun e => h e.symm
      simp [sGet, this]
    · simp only [sGet]; rw [ih]

theorem keysLt_sSet {α} {k0 : Key} {st : Store α} (h : keysLt k0 st) {k : Key} (hk : ltKey k0 k = true) (v : α) :
    keysLt k0 (sSet st k v) := by
  induction st with
  | nil => intro p hp; simp [sSet] at hp; subst hp; exact hk
  | cons p r ih =>
    obtain ⟨k', v'⟩ := p
    have hr : keysLt k0 r := fun p hp => h p (by simp [hp])
    have hk' : ltKey k0 k' = true := h (k', v') (by simp)
    simp only [sSet]
    split
    · intro p hp
      simp at hp
      rcases hp with rfl | hp
      · exact hk
      · exact hr p hp
    · split
      · intro p hp
        simp at hp
        rcases hp with rfl | rfl | hp
        · exact hk
        · exact hk'
        · exact hr p hp
      · intro p hp
        simp at hp
        rcases hp with rfl | hp
        · exact hk'
        · exact ih hr p hp

theorem keysLt_sDel {α} {k0 : Key} {st : Store α} (h : keysLt k0 st) (k : Key) : keysLt k0 (sDel st k) := by
  induction st with
  | nil => exact h
  | cons p r ih =>
    obtain ⟨k', v'⟩ := p
    have hr : keysLt k0 r := fun p hp => h p (by simp [hp])
    simp only [sDel]
    split
    · exact hr
    · intro p hp
      simp at hp
      rcases hp with rfl | hp
      · exact h (k', v') (by simp)
      · exact ih hr p hp

theorem sorted_sSet {α} {st : Store α} (h : Sorted st) (k : Key) (v : α) : Sorted (sSet st k v) := by
  induction st with
  | nil => simp [sSet, Sorted, keysLt]
  | cons p r ih =>
    obtain ⟨k', v'⟩ := p
    obtain ⟨h1, h2⟩ := h
    simp only [sSet]
    split
    · rename_i e; subst e; exact ⟨h1, h2⟩
    · split
      · rename_i hlt
        refine ⟨?_, h1, h2⟩
        intro p hp
        simp at hp
        rcases hp with rfl | hp
        · exact hlt
        · exact ltKey_trans hlt (h1 p hp)
      · rename_i hne hnlt
        have hlt : ltKey k' k = true := ltKey_total hne (by simpa using hnlt)
        exact ⟨keysLt_sSet h1 hlt v, ih h2⟩

theorem sorted_sDel {α} {st : Store α} (h : Sorted st) (k : Key) : Sorted (sDel st k) := by
  induction st with
  | nil => exact h
  | cons p r ih =>
    obtain ⟨k', v'⟩ := p
    obtain ⟨h1, h2⟩ := h
    simp only [sDel]
    split
    · exact h2
    · exact ⟨keysLt_sDel h1 k, ih h2⟩

theorem sGet_sDel_same {α} {st : Store α} (h : Sorted st) (k : Key) : sGet (sDel st k) k = none := by
  induction st with
  | nil => rfl
  | cons p r ih =>
    obtain ⟨k', v'⟩ := p
    obtain ⟨h1, h2⟩ := h
    simp only [sDel]
    split
    · rename_i e; subst e; exact sGet_none_of_keysLt h1
    · rename_i hne; simp only [sGet, hne, if_false]; exact ih h2

theorem sGet_mem {α} {st : Store α} {k : Key} {v : α} (h : sGet st k = some v) : (k, v) ∈ st := by
  induction st with
  | nil => cases h
  | cons p r ih =>
    obtain ⟨k', v'⟩ := p
    simp only [sGet] at h
    split at h
    · rename_i e; subst e; cases h; simp
    · simp [ih h]

theorem sGet_of_mem_sorted {α} {st : Store α} (hs : Sorted st) {k : Key} {v : α} (h : (k, v) ∈ st) :
    sGet st k = some v := by
  induction st with
  | nil => cases h
  | cons p r ih =>
    obtain ⟨k', v'⟩ := p
    obtain ⟨h1, h2⟩ := hs
    simp at h
    rcases h with ⟨rfl, rfl⟩ | h
    · simp [sGet]
    · have : k' ≠ k := ltKey_ne (h1 (k, v) h)
      simp only [sGet, this, if_false]
      exact ih h2 h

theorem sHas_eq {α} (st : Store α) (k : Key) : sHas st k = (sGet st k).isSome := rfl

/-! ### sums -/

theorem amt_le_sum (st : Store Rec) (k : Key) (d : Denom) : amt st k d ≤ sumStore d st := by
  induction st with
  | nil => simp [amt, sGet, sumStore]
  | cons p r ih =>
    obtain ⟨k', v'⟩ := p
    unfold amt at ih ⊢
    simp only [sGet, sumStore]
    by_cases e : k' = k
    · simp [e]
    · simp only [e, if_false]; omega

theorem amt_of_get {st : Store Rec} {k : Key} {r : Rec} (h : sGet st k = some r) (d : Denom) :
    amt st k d = coinsGet r.coins d := by
  unfold amt; rw [h]

theorem amt_of_none {st : Store Rec} {k : Key} (h : sGet st k = none) (d : Denom) : amt st k d = 0 := by
  unfold amt; rw [h]

theorem sum_sSet {st : Store Rec} (hs : Sorted st) (k : Key) (r : Rec) (d : Denom) :
    sumStore d (sSet st k r) + amt st k d = sumStore d st + coinsGet r.coins d := by
  induction st with
  | nil => simp [sSet, sumStore, amt, sGet]
  | cons p rest ih =>
    obtain ⟨k', v'⟩ := p
    obtain ⟨h1, h2⟩ := hs
    simp only [sSet]
    split
    · rename_i e; subst e
      simp [sumStore, amt, sGet]; omega
    · split
      · rename_i hne hlt
        have hk : keysLt k ((k', v') :: rest) := by
          intro p hp
          simp at hp
          rcases hp with rfl | hp
          · exact hlt
          · exact ltKey_trans hlt (h1 p hp)
        rw [amt_of_none (sGet_none_of_keysLt hk)]
        simp [sumStore]; omega
      · rename_i hne _
        have hne' : k' ≠ k := fun e => hne e.symm
        have ih' := ih h2
        unfold amt at ih' ⊢
        simp only [sumStore, sGet, hne', if_false]
        omega

theorem sum_sDel (st : Store Rec) (k : Key) (d : Denom) :
    sumStore d (sDel st k) + amt st k d = sumStore d st := by
  induction st with
  | nil => simp [sDel, sumStore, amt, sGet]
  | cons p rest ih =>
    obtain ⟨k', v'⟩ := p
    simp only [sDel]
    split
    · rename_i e; subst e; simp [sumStore, amt, sGet]; omega
    · rename_i hne
      unfold amt at ih ⊢
      simp only [sumStore, sGet, hne, if_false]
      omega

theorem amt_sSet (st : Store Rec) (k k' : Key) (r : Rec) (d : Denom) :
    amt (sSet st k r) k' d = if k' = k then coinsGet r.coins d else amt st k' d := by
  unfold amt
  by_cases h : k' = k
  · subst h; rw [sGet_sSet_same]; simp
  · rw [sGet_sSet_other _ _ _ _ h]; simp [h]

theorem amt_sDel {st : Store Rec} (hs : Sorted st) (k k' : Key) (d : Denom) :
    amt (sDel st k) k' d = if k' = k then 0 else amt st k' d := by
  unfold amt
  by_cases h : k' = k
  · subst h; rw [sGet_sDel_same hs]; simp
  · rw [sGet_sDel_other _ _ _ h]; simp [h]

/-! ### coins -/

theorem coinsGet_coinsAdd1 (c : Coins) (d : Denom) (n : Nat) (d' : Denom) :
    coinsGet (coinsAdd1 c d n) d' = coinsGet c d' + (if d = d' then n else 0) := by
  induction c with
  | nil =>
    simp only [coinsAdd1]
    split
    · rename_i h; subst h; simp [coinsGet]
    · simp [coinsGet]
  | cons p r ih =>
    obtain ⟨d0, n0⟩ := p
    simp only [coinsAdd1]
    split
    · rename_i e; subst e
      split
      · rename_i hz
        have h1 : n0 = 0 := by omega
        have h2 : n = 0 := by omega
        subst h1; subst h2
        simp [coinsGet]
      · simp only [coinsGet]
        by_cases h : d = d'
        · simp [h]; omega
        · simp [h]
    · split
      · split
        · rename_i hz; subst hz; simp [coinsGet]
        · simp only [coinsGet]; omega
      · simp only [coinsGet]; rw [ih]; omega

theorem coinsGet_coinsAdd (a b : Coins) (d : Denom) :
    coinsGet (coinsAdd a b) d = coinsGet a d + coinsGet b d := by
  unfold coinsAdd
  induction b generalizing a with
  | nil => simp [coinsGet]
  | cons p r ih =>
    obtain ⟨d0, n0⟩ := p
    simp only [List.foldl]
    rw [ih, coinsGet_coinsAdd1]
    simp only [coinsGet]
    omega

end Sif.Disp
