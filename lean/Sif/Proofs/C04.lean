import Sif.Proofs.C03
import Mathlib.Tactic.FieldSimp
/-
  C04 — helper lemmas: swapping there and back never returns more than was sent; a swap never
  lowers the constant product.
-/
namespace Sif.Clp
open Sif Sif.Spec.C03

/-- the output of `CalcSwapResult` is at most the (fee-free) adjusted constant-product amount -/
theorem calcSwap_le_adjusted {t : Bool} {X x Y : Nat} {r f : Dec} {y fee : Nat}
    (hr : 0 ≤ r.i) (h : calcSwapResult t X x Y r f = .ok (y, fee)) : (y : ℚ) ≤ adjusted t X x Y r := by
  have hadj := adjusted_nonneg t X x Y hr
  by_cases hne : (X = 0 ∨ x = 0 ∨ Y = 0)
  · unfold calcSwapResult at h
    rw [if_pos hne] at h
    cases h
    simpa using hadj
  · obtain ⟨adj, e3, e2, e4, e5⟩ := calcSwap_ok_spec hr hne h
    have l1 := ratIntQuo_le hadj
    have c3 : ((adj : Int) : ℚ) = (ratIntQuo (adjusted t X x Y r) : ℚ) := by rw [e3]
    simp only [Int.cast_natCast] at c3
    have : (y : ℚ) ≤ (adj : ℚ) := by
      rw [e4]; exact_mod_cast Nat.sub_le adj fee
    linarith

theorem rawXYK_eq (x X Y : Nat) : rawXYK x X Y = ((x : ℚ) * Y) / ((X : ℚ) + x) := by
  unfold rawXYK
  rw [Rat.mkRat_eq_div]
  push_cast
  rfl

/-- **Round trip.**  Swap `x` for `y`, then swap `y` back in the pool as it stands after the first
    swap: what comes back is never more than `x` — for every pool, amount, both fee rates and
    every ratio-shifting rate ≥ 0 (the two ratio-shifting factors cancel; floors and fees only
    reduce). -/
theorem swap_roundtrip_le {t : Bool} {X x Y : Nat} {r f1 f2 : Dec} {y fee1 x' fee2 : Nat}
    (hr : 0 ≤ r.i) (hy : y < Y)
    (h1 : calcSwapResult t X x Y r f1 = .ok (y, fee1))
    (h2 : calcSwapResult (!t) (Y - y) y (X + x) r f2 = .ok (x', fee2)) : x' ≤ x := by
  have b1 := calcSwap_le_adjusted hr h1
  have b2 := calcSwap_le_adjusted hr h2
  have hfac := pmtpFactor_pos hr
  suffices hq : (x' : ℚ) ≤ (x : ℚ) by exact_mod_cast hq
  by_cases hx0 : x = 0
  · -- nothing sent: nothing received, nothing comes back
    subst hx0
    have : y = 0 := by
      unfold calcSwapResult at h1; simp at h1; exact h1.1.symm
    subst this
    unfold calcSwapResult at h2; simp at h2
    rw [← h2.1]
  have hYpos : (0 : ℚ) < (Y : ℚ) := by
    have : 0 < Y := by omega
    exact_mod_cast this
  have hXx : (0 : ℚ) < (X : ℚ) + x := by
    have : 0 < x := Nat.pos_of_ne_zero hx0
    have h1 : (0 : ℚ) < (x : ℚ) := by exact_mod_cast this
    have h2 : (0 : ℚ) ≤ (X : ℚ) := Nat.cast_nonneg _
    linarith
  have hYy : ((Y - y : Nat) : ℚ) + y = (Y : ℚ) := by
    have : Y - y + y = Y := by omega
    exact_mod_cast this
  have hyn : (0 : ℚ) ≤ (y : ℚ) := Nat.cast_nonneg _
  -- the way back is priced at y·(X+x)/Y, adjusted the opposite way
  unfold adjusted at b1 b2
  rw [rawXYK_eq] at b1 b2
  rw [hYy] at b2
  push_cast at b2
  cases t
  · -- first leg multiplied by (1+r), way back divided by it
    simp only [Bool.false_eq_true, if_false, Bool.not_false, if_true] at b1 b2
    have : (y : ℚ) * ((X : ℚ) + x) / Y / pmtpFactor r ≤ x := by
      rw [div_div, div_le_iff₀ (mul_pos hYpos hfac)]
      have hb : (y : ℚ) * ((X : ℚ) + x) ≤ (x : ℚ) * Y / ((X : ℚ) + x) * pmtpFactor r * ((X : ℚ) + x) :=
        mul_le_mul_of_nonneg_right b1 hXx.le
      have e : (x : ℚ) * Y / ((X : ℚ) + x) * pmtpFactor r * ((X : ℚ) + x) = x * (Y * pmtpFactor r) := by
        field_simp
      linarith
    linarith
  · simp only [if_true, Bool.not_true, Bool.false_eq_true, if_false] at b1 b2
    have : (y : ℚ) * ((X : ℚ) + x) / Y * pmtpFactor r ≤ x := by
      have hb : (y : ℚ) ≤ (x : ℚ) * Y / ((X : ℚ) + x) / pmtpFactor r := b1
      have hb2 : (y : ℚ) * ((X : ℚ) + x) / Y * pmtpFactor r
          ≤ ((x : ℚ) * Y / ((X : ℚ) + x) / pmtpFactor r) * ((X : ℚ) + x) / Y * pmtpFactor r := by
        apply mul_le_mul_of_nonneg_right _ hfac.le
        apply div_le_div_of_nonneg_right _ hYpos.le
        exact mul_le_mul_of_nonneg_right hb hXx.le
      have e : ((x : ℚ) * Y / ((X : ℚ) + x) / pmtpFactor r) * ((X : ℚ) + x) / Y * pmtpFactor r = x := by
        field_simp
      linarith
    linarith

/-- **Constant product.**  With ratio shifting off (r = 0) a swap never lowers X·Y:
    (X + x)·(Y − y) ≥ X·Y for the depths before and after. -/
theorem swap_k_nondecreasing {t : Bool} {X x Y : Nat} {f : Dec} {y fee : Nat}
    (hy : y ≤ Y) (h : calcSwapResult t X x Y ⟨0⟩ f = .ok (y, fee)) : X * Y ≤ (X + x) * (Y - y) := by
  have b := calcSwap_le_adjusted (r := ⟨0⟩) (by simp) h
  by_cases hx0 : X + x = 0
  · have : X = 0 := by omega
    subst this; simp
  have hXx : (0 : ℚ) < (X : ℚ) + x := by
    have : 0 < X + x := Nat.pos_of_ne_zero hx0
    exact_mod_cast this
  have hone : pmtpFactor ⟨0⟩ = 1 := by
    unfold pmtpFactor decToRat; simp
  unfold adjusted at b
  rw [rawXYK_eq, hone] at b
  have hb : (y : ℚ) ≤ (x : ℚ) * Y / ((X : ℚ) + x) := by
    cases t <;> simpa using b
  rw [le_div_iff₀ hXx] at hb
  suffices hq : ((X * Y : Nat) : ℚ) ≤ (((X + x) * (Y - y) : Nat) : ℚ) by exact_mod_cast hq
  have : ((Y - y : Nat) : ℚ) = (Y : ℚ) - y := by
    rw [Nat.cast_sub hy]
  push_cast
  rw [this]
  nlinarith

end Sif.Clp
