import Sif.Model.Validate
/- C10 tie 1: a clause list that contains (before any barrier) every required clause accepts only
   what the required clauses accept. -/
namespace Sif.Proofs.C10
open Sif Sif.Validate

theorem beforeBarrier_subset : ∀ (cs : List Clause) (c : Clause), c ∈ beforeBarrier cs → c ∈ cs := by
  intro cs
  induction cs with
  | nil => intro c h; simp [beforeBarrier] at h
  | cons x xs ih =>
    intro c h
    unfold beforeBarrier at h
    by_cases hb : x.barrier = true
    · simp [hb] at h
    · simp only [hb] at h
      rcases List.mem_cons.1 h with rfl | h'
      · exact List.mem_cons_self
      · exact List.mem_cons_of_mem _ (ih c h')

/-- code accepts (no generated clause rejects) ⇒ model accepts (no required clause rejects) -/
theorem covers_sound (e : Env) (gen req : List Clause) (hc : covers gen req = true)
    (h : acceptsAll e gen = true) : acceptsAll e req = true := by
  unfold acceptsAll at *
  unfold covers at hc
  rw [List.all_eq_true] at *
  intro r hr
  have h1 := hc r hr
  have hmem : r ∈ beforeBarrier gen := by
    rw [List.contains_iff_mem] at h1; exact h1
  exact h r (beforeBarrier_subset _ _ hmem)

end Sif.Proofs.C10
