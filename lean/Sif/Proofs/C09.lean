import Sif.Model.Determinism
/-
  Helper lemmas for C09: folding a (possibly halting) step over a permutation of the entries.
  Core Lean only is enough here (List.Perm lives in core).
-/
namespace Sif.Det
open List

theorem foldH_cons {σ α : Type} (f : σ → α → Option σ) (s : σ) (a : α) (l : List α) :
    foldH f s (a :: l) = (f s a).bind (fun s' => foldH f s' l) := rfl

theorem foldH_append {σ α : Type} (f : σ → α → Option σ) (l₁ l₂ : List α) (s : σ) :
    foldH f s (l₁ ++ l₂) = (foldH f s l₁).bind (fun s' => foldH f s' l₂) := by
  induction l₁ generalizing s with
  | nil => simp [foldH]
  | cons a l ih =>
    simp only [List.cons_append, foldH_cons]
    cases h : f s a with
    | none => simp
    | some s' => simp [ih]

/-- The engine of every order-independence theorem: if the steps of related entries commute on
    states satisfying an invariant that the steps preserve, the fold over any two permutations of a
    pairwise-related list agrees.  (List.Perm induction; the `swap` case is the adjacent transposition.) -/
theorem foldH_perm {σ α : Type} (f : σ → α → Option σ) (Inv : σ → Prop) (R : α → α → Prop)
    (hsymm : ∀ a b, R a b → R b a)
    (hinv : ∀ s a s', Inv s → f s a = some s' → Inv s')
    (hcomm : ∀ a b, R a b → ∀ s, Inv s →
      (f s a).bind (fun s' => f s' b) = (f s b).bind (fun s' => f s' a))
    {l₁ l₂ : List α} (p : l₁.Perm l₂) :
    l₁.Pairwise R → ∀ s, Inv s → foldH f s l₁ = foldH f s l₂ := by
  induction p with
  | nil => intros; rfl
  | cons x _ ih =>
    intro hp s hs
    simp only [foldH_cons]
    cases h : f s x with
    | none => rfl
    | some s' =>
      simp only [Option.bind_some]
      exact ih (List.Pairwise.of_cons hp) s' (hinv s x s' hs h)
  | swap x y l =>
    intro hp s hs
    have hyx : R y x := List.rel_of_pairwise_cons hp (List.mem_cons_self)
    have e1 : foldH f s (y :: x :: l) = ((f s y).bind (fun s' => f s' x)).bind (fun s' => foldH f s' l) := by
      simp only [foldH_cons]
      cases f s y <;> simp
    have e2 : foldH f s (x :: y :: l) = ((f s x).bind (fun s' => f s' y)).bind (fun s' => foldH f s' l) := by
      simp only [foldH_cons]
      cases f s x <;> simp
    rw [e1, e2, hcomm y x hyx s hs]
  | trans p₁ _ ih₁ ih₂ =>
    intro hp s hs
    exact (ih₁ hp s hs).trans (ih₂ ((p₁.pairwise_iff (fun {a b} h => hsymm a b h)).mp hp) s hs)


/-! ### function updates -/

theorem upd_same {κ ν : Type} [DecidableEq κ] (f : κ → ν) (k : κ) (v : ν) : upd f k v k = v := by
  simp [upd]

theorem upd_other {κ ν : Type} [DecidableEq κ] (f : κ → ν) {k x : κ} (v : ν) (h : x ≠ k) : upd f k v x = f x := by
  simp [upd, h]

theorem upd_comm {κ ν : Type} [DecidableEq κ] (f : κ → ν) {k k' : κ} (v v' : ν) (h : k ≠ k') :
    upd (upd f k v) k' v' = upd (upd f k' v') k v := by
  funext x
  unfold upd
  by_cases h1 : x = k' <;> by_cases h2 : x = k <;> simp [h1, h2]
  · subst h1; subst h2; exact absurd rfl h
  · intro e; exact absurd e.symm h
  · intro e; exact absurd e h

theorem pairwise_of_mem {α : Type} (R : α → α → Prop) :
    ∀ (l : List α), (∀ a ∈ l, ∀ b ∈ l, R a b) → l.Pairwise R
  | [], _ => List.Pairwise.nil
  | a :: l, h => List.Pairwise.cons (fun b hb => h a (List.mem_cons_self) b (List.mem_cons_of_mem _ hb))
      (pairwise_of_mem R l (fun x hx y hy => h x (List.mem_cons_of_mem _ hx) y (List.mem_cons_of_mem _ hy)))

/-! ### A. the sum -/

theorem uintAdd_comm (s a b : Nat) :
    (uintAdd s a).bind (fun s' => uintAdd s' b) = (uintAdd s b).bind (fun s' => uintAdd s' a) := by
  unfold uintAdd
  by_cases h1 : s + a < two256 <;> by_cases h2 : s + b < two256 <;> simp [h1, h2]
  · by_cases h3 : s + a + b < two256
    · have h4 : s + b + a < two256 := by omega
      simp [h3, h4]; omega
    · have h4 : ¬ s + b + a < two256 := by omega
      simp [h3, h4]
  · omega
  · omega

/-! ### B. pool-record updates -/

theorem removeRowanStep_comm (a b : PoolObj × Nat) (h : a.1.sym ≠ b.1.sym) (st : PoolStore) :
    (removeRowanStep st a).bind (fun s' => removeRowanStep s' b) =
    (removeRowanStep st b).bind (fun s' => removeRowanStep s' a) := by
  unfold removeRowanStep
  by_cases h1 : a.1.native < a.2 <;> by_cases h2 : b.1.native < b.2 <;> simp [h1, h2]
  exact upd_comm st _ _ h

theorem rewardsPoolStep_comm (a b : PoolObj × Nat) (h : a.1.sym ≠ b.1.sym) (st : PoolStore) :
    (rewardsPoolStep st a).bind (fun s' => rewardsPoolStep s' b) =
    (rewardsPoolStep st b).bind (fun s' => rewardsPoolStep s' a) := by
  unfold rewardsPoolStep
  by_cases h1 : a.2 = 0 <;> by_cases h2 : b.2 = 0 <;> simp [h1, h2]
  cases ha : uintAdd a.1.rewardDistributed a.2 <;> cases hb : uintAdd b.1.rewardDistributed b.2 <;> simp
  exact upd_comm st _ _ h


/-! ### C. the payout loop -/

theorem subOne_comm (a b : String × Nat) (pm : String → Nat) :
    (subOne pm a).bind (fun s' => subOne s' b) = (subOne pm b).bind (fun s' => subOne s' a) := by
  obtain ⟨ka, x⟩ := a
  obtain ⟨kb, y⟩ := b
  unfold subOne
  simp only
  by_cases hk : ka = kb
  · -- same pool: both orders halt iff the two amounts together exceed the entry
    subst hk
    by_cases h1 : pm ka < x
    · by_cases h2 : pm ka < y
      · simp [h1, h2]
      · have h3 : pm ka - y < x := by omega
        simp [h1, h2, upd_same, h3]
    · by_cases h2 : pm ka < y
      · have h3 : pm ka - x < y := by omega
        simp [h1, h2, upd_same, h3]
      · by_cases h3 : pm ka - x < y
        · have h4 : pm ka - y < x := by omega
          simp [h1, h2, upd_same, h3, h4]
        · have h4 : ¬ pm ka - y < x := by omega
          simp [h1, h2, upd_same, h3, h4]
          funext z
          unfold upd
          by_cases hz : z = ka <;> simp [hz]
          omega
  · have hk' : kb ≠ ka := fun e => hk e.symm
    by_cases h1 : pm ka < x <;> by_cases h2 : pm kb < y <;>
      simp [h1, h2, upd_other _ _ hk, upd_other _ _ hk']
    exact upd_comm pm _ _ hk

theorem subPools_perm {l₁ l₂ : List (String × Nat)} (p : l₁.Perm l₂) (pm : String → Nat) :
    subPools pm l₁ = subPools pm l₂ := by
  unfold subPools
  exact foldH_perm subOne (fun _ => True) (fun _ _ => True) (fun _ _ _ => trivial) (fun _ _ _ _ _ => trivial)
    (fun a b _ s _ => subOne_comm a b s) p (pairwise_of_mem _ _ (fun _ _ _ _ => trivial)) pm trivial

theorem subPools_comm (la lb : List (String × Nat)) (pm : String → Nat) :
    (subPools pm la).bind (fun s' => subPools s' lb) = (subPools pm lb).bind (fun s' => subPools s' la) := by
  have h1 := foldH_append subOne la lb pm
  have h2 := foldH_append subOne lb la pm
  unfold subPools
  rw [← h1, ← h2]
  exact subPools_perm List.perm_append_comm pm

/-- move `amt` from the module to `to` (truncated subtraction: only used while solvent) -/
def Bank.pay (b : Bank) (to : String) (amt : Nat) : Bank :=
  { b with modBal := b.modBal - amt, bal := upd b.bal to (b.bal to + amt) }

/-- the payout step without the insufficient-funds test (what `payStep` is while the module is solvent) -/
def payStep' (blocked : String → Bool) (s : PayState) (e : LpEntry) : Option PayState :=
  if blocked e.addr then (subPools s.poolMap e.pools).map (fun pm => { s with poolMap := pm })
  else some { s with bank := (s.bank.pay e.addr e.total).touch e.addr }

theorem payStep_eq_of_solvent (blocked : String → Bool) (s : PayState) (e : LpEntry) (h : e.total ≤ s.bank.modBal) :
    payStep blocked s e = payStep' blocked s e := by
  unfold payStep payStep' Bank.send Bank.pay
  by_cases hb : blocked e.addr = true
  · simp [hb]
  · have hlt : ¬ s.bank.modBal < e.total := by omega
    simp [hb, hlt]

theorem payStep'_modBal (blocked : String → Bool) (s s' : PayState) (e : LpEntry) (h : payStep' blocked s e = some s') :
    s.bank.modBal - e.total ≤ s'.bank.modBal := by
  unfold payStep' at h
  by_cases hb : blocked e.addr = true
  · simp [hb] at h
    obtain ⟨pm, _, rfl⟩ := h
    simp
  · simp [hb] at h
    subst h
    unfold Bank.touch Bank.pay
    split <;> simp

theorem transfer_eq_of_solvent (blocked : String → Bool) :
    ∀ (l : List LpEntry) (s : PayState), (l.map (·.total)).sum ≤ s.bank.modBal →
      foldH (payStep blocked) s l = foldH (payStep' blocked) s l
  | [], _, _ => rfl
  | e :: l, s, h => by
    simp only [List.map_cons, List.sum_cons] at h
    simp only [foldH_cons]
    rw [payStep_eq_of_solvent blocked s e (by omega)]
    cases hs : payStep' blocked s e with
    | none => rfl
    | some s' =>
      simp only [Option.bind_some]
      have := payStep'_modBal blocked s s' e hs
      exact transfer_eq_of_solvent blocked l s' (by omega)

theorem touch_of_has (b : Bank) (a : String) (h : b.hasAcct a = true) : b.touch a = b := by
  unfold Bank.touch; simp [h]

theorem touch_hasAcct_mono (b : Bank) (a x : String) (h : b.hasAcct x = true) : (b.touch a).hasAcct x = true := by
  unfold Bank.touch
  split
  · exact h
  · simp only [upd]; split <;> simp [h]

theorem payStep'_hasAcct_mono (blocked : String → Bool) (s s' : PayState) (e : LpEntry) (x : String)
    (h : payStep' blocked s e = some s') (hx : s.bank.hasAcct x = true) : s'.bank.hasAcct x = true := by
  unfold payStep' at h
  by_cases hb : blocked e.addr = true
  · simp [hb] at h
    obtain ⟨pm, _, rfl⟩ := h
    exact hx
  · simp [hb] at h
    subst h
    exact touch_hasAcct_mono _ _ _ hx

theorem bal_comm (f : String → Nat) (a b : String) (x y : Nat) :
    upd (upd f a (f a + x)) b ((upd f a (f a + x)) b + y) =
    upd (upd f b (f b + y)) a ((upd f b (f b + y)) a + x) := by
  funext z
  unfold upd
  by_cases hab : a = b
  · subst hab
    by_cases hz : z = a <;> simp [hz]
    omega
  · have hba : ¬ b = a := fun e => hab e.symm
    by_cases h1 : z = a
    · subst h1; simp [hab, hba]
    · by_cases h2 : z = b
      · subst h2; simp [hab, hba]
      · simp [h1, h2]

theorem pay_comm (B : Bank) (a b : String) (x y : Nat) :
    (B.pay a x).pay b y = (B.pay b y).pay a x := by
  unfold Bank.pay
  simp only
  rw [bal_comm B.bal a b x y, Nat.sub_right_comm]

theorem payStep'_comm (blocked : String → Bool) (a b : LpEntry) (s : PayState)
    (ha : s.bank.hasAcct a.addr = true) (hb : s.bank.hasAcct b.addr = true) :
    (payStep' blocked s a).bind (fun s' => payStep' blocked s' b) =
    (payStep' blocked s b).bind (fun s' => payStep' blocked s' a) := by
  unfold payStep'
  by_cases ba : blocked a.addr = true <;> by_cases bb : blocked b.addr = true
  · -- both refused: two take-backs from poolRowanMap
    simp only [ba, bb, if_true]
    have := subPools_comm a.pools b.pools s.poolMap
    cases h1 : subPools s.poolMap a.pools with
    | none =>
      cases h2 : subPools s.poolMap b.pools with
      | none => simp
      | some pm2 => rw [h1, h2] at this; simp at this; simp [← this]
    | some pm1 =>
      cases h2 : subPools s.poolMap b.pools with
      | none => rw [h1, h2] at this; simp at this; simp [this]
      | some pm2 =>
        rw [h1, h2] at this; simp at this
        simp
        cases h3 : subPools pm1 b.pools <;> cases h4 : subPools pm2 a.pools <;> rw [h3, h4] at this <;> simp_all
  · simp only [ba, bb, if_true, Bool.false_eq_true, if_false]
    cases h1 : subPools s.poolMap a.pools <;> simp [ba, h1]
  · simp only [ba, bb, if_true, Bool.false_eq_true, if_false]
    cases h1 : subPools s.poolMap b.pools <;> simp [bb, h1]
  · simp only [ba, bb, Bool.false_eq_true, if_false, Option.bind_some]
    have t1 : (s.bank.pay a.addr a.total).touch a.addr = s.bank.pay a.addr a.total := touch_of_has _ _ ha
    have t2 : (s.bank.pay b.addr b.total).touch b.addr = s.bank.pay b.addr b.total := touch_of_has _ _ hb
    rw [t1, t2]
    have t3 : ((s.bank.pay a.addr a.total).pay b.addr b.total).touch b.addr = (s.bank.pay a.addr a.total).pay b.addr b.total :=
      touch_of_has _ _ hb
    have t4 : ((s.bank.pay b.addr b.total).pay a.addr a.total).touch a.addr = (s.bank.pay b.addr b.total).pay a.addr a.total :=
      touch_of_has _ _ ha
    simp only [t3, t4]
    rw [pay_comm s.bank a.addr b.addr a.total b.total]


/-! ### D. keyed iterations -/

theorem auth_touch_of_has (a : Auth) (x : String) (h : a.hasAcct x = true) : a.touch x = a := by
  unfold Auth.touch; simp [h]

theorem auth_touch_list_id (l : List String) (a : Auth) (h : ∀ x ∈ l, a.hasAcct x = true) :
    l.foldl Auth.touch a = a := by
  induction l with
  | nil => rfl
  | cons x l ih =>
    simp only [List.foldl_cons]
    rw [auth_touch_of_has a x (h x (List.mem_cons_self))]
    exact ih (fun y hy => h y (List.mem_cons_of_mem _ hy))

theorem keyedStep_of_has {κ ν : Type} [DecidableEq κ] (g : κ → ν → Option ν) (paid : κ → ν → List String)
    (s : KeyedState κ ν) (k : κ) (h : ∀ k v x, x ∈ paid k v → s.auth.hasAcct x = true) :
    keyedStep g paid s k = (g k (s.comp k)).map (fun v => { comp := upd s.comp k v, auth := s.auth }) := by
  unfold keyedStep
  rw [auth_touch_list_id _ _ (fun x hx => h k (s.comp k) x hx)]

theorem keyedStep_comm {κ ν : Type} [DecidableEq κ] (g : κ → ν → Option ν) (paid : κ → ν → List String)
    (k k' : κ) (hne : k ≠ k') (s : KeyedState κ ν) (h : ∀ k v x, x ∈ paid k v → s.auth.hasAcct x = true) :
    (keyedStep g paid s k).bind (fun s' => keyedStep g paid s' k') =
    (keyedStep g paid s k').bind (fun s' => keyedStep g paid s' k) := by
  rw [keyedStep_of_has g paid s k h, keyedStep_of_has g paid s k' h]
  have hne' : k' ≠ k := fun e => hne e.symm
  have step : ∀ (c : κ → ν) (j : κ), keyedStep g paid ⟨c, s.auth⟩ j =
      (g j (c j)).map (fun v => { comp := upd c j v, auth := s.auth }) :=
    fun c j => keyedStep_of_has g paid ⟨c, s.auth⟩ j h
  cases h1 : g k (s.comp k) with
  | none =>
    cases h2 : g k' (s.comp k') with
    | none => rfl
    | some v' =>
      simp only [Option.map_none, Option.bind_none, Option.map_some, Option.bind_some]
      rw [step]
      simp [upd_other _ _ hne, h1]
  | some v =>
    simp only [Option.map_some, Option.bind_some]
    rw [step]
    simp only [upd_other _ _ hne']
    cases h2 : g k' (s.comp k') with
    | none => simp
    | some v' =>
      simp only [Option.map_some, Option.bind_some]
      rw [step]
      simp [upd_other _ _ hne, h1, upd_comm s.comp v v' hne]

/-! ### E. the tally -/

theorem tally_fold_tot (l : List ClaimGroup) (t : Tally) :
    (l.foldl tallyStep t).tot = t.tot + (l.map (·.power)).sum := by
  induction l generalizing t with
  | nil => simp
  | cons g l ih =>
    simp only [List.foldl_cons, List.map_cons, List.sum_cons]
    rw [ih]
    unfold tallyStep
    split <;> simp <;> omega

/-- what the fold knows about its result: the power is an upper bound of every group, and the
    reported claim belongs to a group of exactly that power (or nothing beat the start value) -/
theorem tally_fold_spec (l : List ClaimGroup) (t : Tally) :
    let T := l.foldl tallyStep t
    t.hp ≤ T.hp ∧ (∀ g ∈ l, (g.power : Int) ≤ T.hp) ∧
    ((T.hp = t.hp ∧ T.claim = t.claim) ∨ (∃ g ∈ l, (g.power : Int) = T.hp ∧ g.content = T.claim)) := by
  induction l generalizing t with
  | nil => simp
  | cons g l ih =>
    simp only [List.foldl_cons]
    have := ih (tallyStep t g)
    obtain ⟨h1, h2, h3⟩ := this
    have hstep : t.hp ≤ (tallyStep t g).hp ∧ (g.power : Int) ≤ (tallyStep t g).hp ∧
        (((tallyStep t g).hp = t.hp ∧ (tallyStep t g).claim = t.claim) ∨
         ((g.power : Int) = (tallyStep t g).hp ∧ g.content = (tallyStep t g).claim)) := by
      unfold tallyStep
      split <;> simp <;> omega
    obtain ⟨s1, s2, s3⟩ := hstep
    refine ⟨by omega, ?_, ?_⟩
    · intro x hx
      rcases List.mem_cons.mp hx with rfl | hx
      · omega
      · exact h2 x hx
    · rcases h3 with ⟨e1, e2⟩ | ⟨x, hx, e1, e2⟩
      · rcases s3 with ⟨f1, f2⟩ | ⟨f1, f2⟩
        · left; exact ⟨by omega, by rw [e2, f2]⟩
        · right; exact ⟨g, List.mem_cons_self, by omega, by rw [e2, f2]⟩
      · right; exact ⟨x, List.mem_cons_of_mem _ hx, e1, e2⟩

theorem le_sum_of_mem (l : List ClaimGroup) (c : ClaimGroup) (hc : c ∈ l) : c.power ≤ (l.map (·.power)).sum := by
  induction l with
  | nil => cases hc
  | cons y l ih =>
    simp only [List.map_cons, List.sum_cons]
    rcases List.mem_cons.mp hc with rfl | hc
    · omega
    · have := ih hc
      omega

theorem two_le_sum (l : List ClaimGroup) (a b : ClaimGroup) (ha : a ∈ l) (hb : b ∈ l) (hne : a ≠ b) :
    a.power + b.power ≤ (l.map (·.power)).sum := by
  induction l with
  | nil => cases ha
  | cons x l ih =>
    simp only [List.map_cons, List.sum_cons]
    rcases List.mem_cons.mp ha with rfl | ha' <;> rcases List.mem_cons.mp hb with rfl | hb'
    · exact absurd rfl hne
    · have := le_sum_of_mem l b hb'; omega
    · have := le_sum_of_mem l a ha'; omega
    · have := ih ha' hb'; omega

/-! ### F. partition -/

theorem partition_fold {α : Type} (key : α → String) (lps : List α) (m : String → List α) (a : String) :
    (lps.foldl (fun m lp => upd m (key lp) (m (key lp) ++ [lp])) m) a = m a ++ lps.filter (fun lp => key lp = a) := by
  induction lps generalizing m with
  | nil => simp
  | cons x l ih =>
    simp only [List.foldl_cons]
    rw [ih]
    unfold upd
    by_cases h : key x = a
    · subst h
      simp [List.filter_cons]
    · have h' : ¬ a = key x := fun e => h e.symm
      simp [List.filter_cons, h, h']

end Sif.Det
