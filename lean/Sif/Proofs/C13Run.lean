import Sif.Proofs.C13Hook
/-
  C13 helper lemmas, part 7: environment steps and histories.
-/
namespace Sif.Margin
open Sif Sif.Spec.C13

theorem applyBals_inv : ∀ (bals : List (Asset × Nat × Nat)) (s : State), OKp s → WFp s →
    OKp (applyBals bals s) ∧ WFp (applyBals bals s) ∧ (applyBals bals s).mtpCount = s.mtpCount := by
  intro bals
  induction bals with
  | nil => intro s h1 h2; exact ⟨h1, h2, rfl⟩
  | cons x xs ih =>
    intro s h1 h2
    obtain ⟨sym, n, e⟩ := x
    unfold applyBals
    cases hp : getPoolL s.pools sym with
    | none => simp only []; exact ih s h1 h2
    | some p =>
      simp only []
      obtain ⟨_, hs⟩ := getPoolL_some hp
      have := setPool_sameLedger (p := ({ p with nBal := n, eBal := e } : Pool)) (p0 := p) h1 h2 (by simpa [hs] using hp)
        (fun b => by cases b <;> rfl) (fun b => by cases b <;> rfl)
      obtain ⟨a, b, c⟩ := ih _ this.1 this.2
      exact ⟨a, b, c⟩

/-- one step of a history keeps the invariant; only Open advances the id counter, by one -/
theorem step_inv {s : State} (op : Op) (hok : OKp s) (hwf : WFp s) (hcnt : s.mtpCount + opens [op] < u64) :
    OKp (step Fixes.repaired s op) ∧ WFp (step Fixes.repaired s op) ∧
      (step Fixes.repaired s op).mtpCount ≤ s.mtpCount + opens [op] := by
  cases op with
  | msg m =>
    cases m with
    | «open» mo =>
      simp only [opens] at hcnt ⊢
      cases h : openMsg Fixes.repaired s mo with
      | ok w =>
        obtain ⟨x, y, _, _, _, _, z, _⟩ := openMsg_good (fx := Fixes.repaired) rfl hok hwf (by omega) h
        simp only [step, deliver, handle, h, Except.map]; exact ⟨x, y, by omega⟩
      | error e => simp only [step, deliver, handle, h, Except.map]; exact ⟨hok, hwf, by omega⟩
    | close a id =>
      cases h : closeMsg Fixes.repaired s a id with
      | ok r =>
        obtain ⟨x, y, _, z, _, _⟩ := closeMsg_good (fx := Fixes.repaired) rfl hok hwf h
        simp only [step, deliver, handle, h, Except.map]; exact ⟨x, y, by omega⟩
      | error e => simp only [step, deliver, handle, h, Except.map]; exact ⟨hok, hwf, by omega⟩
    | adminClose sg a id t =>
      cases h : adminCloseMsg Fixes.repaired s sg a id t with
      | ok r =>
        obtain ⟨x, y, _, _, z, _, _⟩ := adminCloseMsg_good (fx := Fixes.repaired) rfl hok hwf h
        simp only [step, deliver, handle, h, Except.map]; exact ⟨x, y, by omega⟩
      | error e => simp only [step, deliver, handle, h, Except.map]; exact ⟨hok, hwf, by omega⟩
    | forceClose sg a id =>
      cases h : adminCloseMsg Fixes.repaired s sg a id false with
      | ok r =>
        obtain ⟨x, y, _, _, z, _, _⟩ := adminCloseMsg_good (fx := Fixes.repaired) rfl hok hwf h
        simp only [step, deliver, handle, h, Except.map]; exact ⟨x, y, by omega⟩
      | error e => simp only [step, deliver, handle, h, Except.map]; exact ⟨hok, hwf, by omega⟩
  | beginBlock rates =>
    cases h : beginBlocker Fixes.repaired s rates with
    | ok s' =>
      obtain ⟨x, y, z⟩ := beginBlocker_inv (fx := Fixes.repaired) rfl rfl hok hwf h
      simp only [step, h]; exact ⟨x, y, by omega⟩
    | error e => simp only [step, h]; exact ⟨hok, hwf, by omega⟩
  | env e =>
    simp only [step]
    generalize hs1 : ({ s with params := e.params, clp := e.clp, admins := e.admins, whitelist := e.whitelist, bank := e.bank, height := e.height } : State) = s1
    have hl : LedgerSame s s1 := by rw [← hs1]; exact ⟨rfl, rfl, rfl, rfl⟩
    obtain ⟨x, y, z⟩ := applyBals_inv e.bals s1 (OKp_congr hok hl) (WFp_congr hwf hl)
    exact ⟨x, y, by rw [z, hl.mtpCount]; omega⟩

theorem opens_cons (op : Op) (ops : List Op) : opens (op :: ops) = opens [op] + opens ops := by
  cases op with
  | msg m => cases m <;> simp [opens] <;> omega
  | beginBlock r => simp [opens]
  | env e => simp [opens]

theorem run_inv : ∀ (ops : List Op) (s : State), OKp s → WFp s → s.mtpCount + opens ops < u64 →
    OKp (run Fixes.repaired s ops) ∧ WFp (run Fixes.repaired s ops) := by
  intro ops
  induction ops with
  | nil => intro s a b _; exact ⟨a, b⟩
  | cons op ops ih =>
    intro s hok hwf hcnt
    rw [opens_cons] at hcnt
    obtain ⟨a, b, c⟩ := step_inv op hok hwf (by omega)
    unfold run
    simp only [List.foldl_cons]
    exact ih _ a b (by omega)

end Sif.Margin
