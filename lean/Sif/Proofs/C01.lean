import Sif.Proofs.C02Hooks
import Sif.Spec.C01
/-
  C01 — helper lemmas: the module account covers the recorded amounts after every message.
-/
namespace Sif.Clp
open Sif Sif.AList Sif.Spec.C01

/-- what one pool records in denomination `d` -/
def poolRec (d : String) (p : Pool) : Nat :=
  (if d = rowan then p.nBal + p.nCust else 0) + (if d = p.sym then p.eBal + p.eCust else 0)

theorem recorded_eq (s : St) (d : String) :
    recorded s d = s.pools.sumBy (poolRec d) + (s.buckets.get d).getD 0 := rfl

/-- every stored pool sits under the key of its own symbol -/
def PoolKeysOK (s : St) : Prop := ∀ sym p, s.getPool sym = some p → p.sym = sym

/-- the solvency invariant of C01, with the well-formedness of the pool store it rests on -/
def Solv (s : St) : Prop :=
  s.pools.NodupKeys ∧ PoolKeysOK s ∧ ∀ d, recorded s d ≤ s.bal clpAcct d

theorem solv_init : Solv ({} : St) := by
  refine ⟨nodupKeys_nil, ?_, ?_⟩
  · intro sym p h; simp [St.getPool, AList.get] at h
  · intro d; simp [recorded, AList.sumBy, AList.get]

/-- recorded amount after replacing a stored pool -/
theorem recorded_setPool_present {s : St} {p p' : Pool} (d : String) (hg : s.getPool p'.sym = some p) :
    recorded (s.setPool p') d + poolRec d p = recorded s d + poolRec d p' := by
  simp only [recorded_eq, setPool_buckets]
  have := sumBy_set_present (poolRec d) s.pools (poolKey p'.sym) p' p hg
  show sumBy (poolRec d) (s.pools.set (poolKey p'.sym) p') + _ + _ = _
  omega

theorem recorded_setPool_absent {s : St} {p' : Pool} (d : String) (hg : s.getPool p'.sym = none) :
    recorded (s.setPool p') d = recorded s d + poolRec d p' := by
  simp only [recorded_eq, setPool_buckets]
  have := sumBy_set_absent (poolRec d) s.pools (poolKey p'.sym) p' hg
  show sumBy (poolRec d) (s.pools.set (poolKey p'.sym) p') + _ = _
  omega

theorem poolKeysOK_setPool {s : St} {p' : Pool} (h : PoolKeysOK s) : PoolKeysOK (s.setPool p') := by
  intro sym p hp
  rw [getPool_setPool] at hp
  split at hp
  · cases hp; assumption
  · exact h sym p hp

/-- the recorded amounts only read pools and buckets -/
theorem recorded_congr {s s' : St} (hp : s'.pools = s.pools) (hb : s'.buckets = s.buckets) (d : String) :
    recorded s' d = recorded s d := by
  simp [recorded, hp, hb]

theorem poolKeysOK_congr {s s' : St} (hp : s'.pools = s.pools) (h : PoolKeysOK s) : PoolKeysOK s' := by
  intro sym p hg
  exact h sym p (by simpa [St.getPool, hp] using hg)

end Sif.Clp

namespace Sif.Clp
open Sif Sif.AList Sif.Spec.C01

theorem createPool_solv {s s' : St} {signer sym : String} {n e : Nat} (hs : signer ≠ clpAcct)
    (hinv : Solv s) (h : createPool s signer sym n e = .ok s') : Solv s' := by
  unfold createPool at h
  obtain ⟨_, _, h⟩ := bind_ok h
  obtain ⟨_, _, h⟩ := bind_ok h
  obtain ⟨_, _, h⟩ := bind_ok h
  obtain ⟨_, hnp, h⟩ := bind_ok h
  obtain ⟨uo, hu, h⟩ := bind_ok h
  obtain ⟨u, huo, h⟩ := bind_ok h
  obtain ⟨_, _, h⟩ := bind_ok h
  obtain ⟨s1, h1, h⟩ := bind_ok h
  obtain ⟨s2, h2, h⟩ := bind_ok h
  cases h
  obtain ⟨_, b1, p1, l1, k1, _⟩ := send_spec (optR_ok h1) hs
  obtain ⟨_, b2, p2, l2, k2, _⟩ := send_spec (optR_ok h2) hs
  have hnone : s2.getPool sym = none := by
    have := guardR_ok hnp
    simp [AList.contains] at this
    simpa [St.getPool, p2, p1] using this
  obtain ⟨hnd, hk, hsolv⟩ := hinv
  have hk2 : PoolKeysOK s2 := poolKeysOK_congr (p2.trans p1) hk
  refine ⟨?_, ?_, ?_⟩
  · show NodupKeys (s2.pools.set _ _)
    apply nodupKeys_set; rw [p2, p1]; exact hnd
  · intro sy p hp
    simp only [setLP_getPool] at hp
    exact poolKeysOK_setPool hk2 sy p hp
  · intro d
    have hrec := recorded_setPool_absent (s := s2) (p' := { sym := sym, nBal := n, eBal := e, units := u.poolUnits }) d hnone
    have hr2 : recorded s2 d = recorded s d := recorded_congr (p2.trans p1) (k2.trans k1) d
    have := hsolv d
    have hb : (s2.bal clpAcct d) = s.bal clpAcct d + (if d = sym then e else 0) + (if d = rowan then n else 0) := by
      rw [b2, b1]
      have : clpAcct ≠ signer := Ne.symm hs
      simp only [poolRec] at *
      grind
    show recorded ((s2.setPool _).setLP _) d ≤ ((s2.setPool _).setLP _).bal clpAcct d
    simp only [setLP_bal, setPool_bal]
    have : recorded ((s2.setPool { sym := sym, nBal := n, eBal := e, units := u.poolUnits }).setLP
        { sym := sym, addr := signer, units := u.lpUnits, lastUpdated := s.height }) d
        = recorded (s2.setPool { sym := sym, nBal := n, eBal := e, units := u.poolUnits }) d := rfl
    rw [this, hrec, hr2, hb]
    simp only [poolRec]
    grind

end Sif.Clp

namespace Sif.Clp
open Sif Sif.AList Sif.Spec.C01

/-- generic closing step: one stored pool replaced, provider records changed, bank as given -/
theorem solv_replace_pool {s t : St} {p p' : Pool} (hinv : Solv s)
    (hpools : t.pools = s.pools.set (poolKey p'.sym) p') (hbk : t.buckets = s.buckets)
    (hg : s.getPool p'.sym = some p)
    (hbal : ∀ d, recorded s d + poolRec d p' ≤ t.bal clpAcct d + poolRec d p) : Solv t := by
  obtain ⟨hnd, hk, hsolv⟩ := hinv
  refine ⟨by rw [hpools]; exact nodupKeys_set _ _ hnd, ?_, ?_⟩
  · intro sy q hq
    have : (s.setPool p').getPool sy = some q := by simpa [St.getPool, St.setPool, hpools] using hq
    exact poolKeysOK_setPool hk sy q this
  · intro d
    have hrec := recorded_setPool_present (s := s) (p' := p') d hg
    have : recorded t d = recorded (s.setPool p') d := by
      simp [recorded, St.setPool, hpools, hbk]
    rw [this]
    have := hbal d
    omega

theorem solv_lpCur {s : St} (c : Nat) (h : Solv s) : Solv { s with lpCur := c } := h

theorem addLiquidityCore_solv {s s' : St} {signer sym : String} {n e : Nat} (hs : signer ≠ clpAcct)
    (hinv : Solv s) (h : addLiquidityCore s signer sym n e = .ok s') : Solv s' := by
  unfold addLiquidityCore at h
  obtain ⟨_, _, h⟩ := bind_ok h
  obtain ⟨_, _, h⟩ := bind_ok h
  obtain ⟨pool, hp, h⟩ := bind_ok h
  obtain ⟨⟨nD, eD⟩, hd, h⟩ := bind_ok h
  obtain ⟨uo, hu, h⟩ := bind_ok h
  obtain ⟨u, huo, h⟩ := bind_ok h
  obtain ⟨_, _, h⟩ := bind_ok h
  obtain ⟨s1, h1, h⟩ := bind_ok h
  obtain ⟨s2, h2, h⟩ := bind_ok h
  obtain ⟨nB, hnB, h⟩ := bind_ok h
  obtain ⟨eB, heB, h⟩ := bind_ok h
  obtain ⟨lp, hlp, h⟩ := bind_ok h
  cases h
  have hp : s.getPool sym = some pool := optR_ok hp
  obtain ⟨p1, l1, k1, _⟩ := send_frame (optR_ok h1)
  obtain ⟨p2, l2, k2, _⟩ := send_frame (optR_ok h2)
  have b1 := send_in_bal (optR_ok h1) hs
  have b2 := send_in_bal (optR_ok h2) hs
  have hsym : pool.sym = sym := hinv.2.1 sym pool hp
  have hnB := (Uint.add_ok (liftM_ok hnB)).1
  have heB := (Uint.add_ok (liftM_ok heB)).1
  refine solv_replace_pool (p := pool)
    (p' := { pool with sym := sym, units := u.poolUnits, nBal := nB, eBal := eB }) hinv ?_ ?_ hp ?_
  · show (s2.pools.set _ _) = _
    rw [p2, p1]
  · show s2.buckets = s.buckets
    rw [k2, k1]
  · intro d
    show _ ≤ s2.bal clpAcct d + _
    rw [b2, b1]
    have := hinv.2.2 d
    simp only [poolRec, hsym, hnB, heB]
    split <;> split <;> omega

end Sif.Clp

namespace Sif.Clp
open Sif Sif.AList Sif.Spec.C01

theorem poolAfterRemoval_spec {pool pool' : Pool} {lu left wN wE : Nat}
    (h : poolAfterRemoval pool lu left wN wE = .ok pool') :
    pool'.nBal = pool.nBal - wN ∧ wN ≤ pool.nBal ∧ pool'.eBal = pool.eBal - wE ∧ wE ≤ pool.eBal ∧
    pool'.nCust = pool.nCust ∧ pool'.eCust = pool.eCust ∧ pool'.sym = pool.sym := by
  unfold poolAfterRemoval at h
  obtain ⟨u0, h0, h⟩ := bind_ok h
  obtain ⟨u, h1, h⟩ := bind_ok h
  obtain ⟨nB, h2, h⟩ := bind_ok h
  obtain ⟨eB, h3, h⟩ := bind_ok h
  cases h
  obtain ⟨e2, l2⟩ := Uint.sub_ok h2
  obtain ⟨e3, l3⟩ := Uint.sub_ok h3
  exact ⟨e2, l2, e3, l3, rfl, rfl, rfl⟩

theorem finishRemoval_solv {s s' : St} {pool pool' : Pool} {sym addr : String} {wN wE left nD eD : Nat}
    (hinv : Solv s) (hp : s.getPool sym = some pool)
    (hspec : pool'.nBal = pool.nBal - wN ∧ wN ≤ pool.nBal ∧ pool'.eBal = pool.eBal - wE ∧ wE ≤ pool.eBal ∧
      pool'.nCust = pool.nCust ∧ pool'.eCust = pool.eCust ∧ pool'.sym = pool.sym)
    (h : finishRemoval s { pool' with sym := sym } sym addr wN wE left nD eD = .ok s') : Solv s' := by
  unfold finishRemoval at h
  obtain ⟨_, _, h⟩ := bind_ok h
  obtain ⟨_, _, h⟩ := bind_ok h
  obtain ⟨_, _, h⟩ := bind_ok h
  obtain ⟨_, _, h⟩ := bind_ok h
  obtain ⟨s1, h1, h⟩ := bind_ok h
  obtain ⟨s2, h2, h⟩ := bind_ok h
  cases h
  obtain ⟨p1, l1, k1, _⟩ := send_frame (optR_ok h1)
  obtain ⟨p2, l2, k2, _⟩ := send_frame (optR_ok h2)
  have b1 := send_out_bal (optR_ok h1)
  have b2 := send_out_bal (optR_ok h2)
  have hsym : pool.sym = sym := hinv.2.1 sym pool hp
  obtain ⟨e1, le1, e2, le2, c1, c2, _⟩ := hspec
  refine solv_replace_pool (p := pool) (p' := { pool' with sym := sym }) hinv ?_ ?_ hp ?_
  · split
    · show (s2.pools.set _ _) = _; rw [p2, p1]
    · show (s2.pools.set _ _) = _; rw [p2, p1]
  · split
    · show s2.buckets = _; rw [k2, k1]
    · show s2.buckets = _; rw [k2, k1]
  · intro d
    have hb : s.bal clpAcct d ≤ s2.bal clpAcct d + (if d = sym then wE else 0) + (if d = rowan then wN else 0) := by
      have := b1 d; have := b2 d; omega
    have hbal' : ∀ (t : St), t.bal clpAcct d = s2.bal clpAcct d →
        recorded s d + poolRec d { pool' with sym := sym } ≤ t.bal clpAcct d + poolRec d pool := by
      intro t ht
      rw [ht]
      have := hinv.2.2 d
      simp only [poolRec, hsym, e1, e2, c1, c2]
      split <;> split <;> simp_all <;> omega
    split
    · exact hbal' _ rfl
    · exact hbal' _ rfl

theorem removeLiquidity_solv {s s' : St} {signer sym : String} {w : Nat}
    (hinv : Solv s) (h : removeLiquidity s signer sym w = .ok s') : Solv s' := by
  unfold removeLiquidity at h
  obtain ⟨_, _, h⟩ := bind_ok h
  obtain ⟨pool, hp, h⟩ := bind_ok h
  obtain ⟨lp, hlp, h⟩ := bind_ok h
  obtain ⟨_, _, h⟩ := bind_ok h
  obtain ⟨_, _, h⟩ := bind_ok h
  obtain ⟨⟨nD, eD⟩, _, h⟩ := bind_ok h
  obtain ⟨⟨wN, wE, left⟩, _, h⟩ := bind_ok h
  obtain ⟨_, _, h⟩ := bind_ok h
  obtain ⟨_, _, h⟩ := bind_ok h
  obtain ⟨pool', hpa, h⟩ := bind_ok h
  exact finishRemoval_solv hinv (optR_ok hp) (poolAfterRemoval_spec (liftM_ok hpa)) h

theorem removeLiquidityUnits_solv {s s' : St} {signer sym : String} {w : Nat}
    (hinv : Solv s) (h : removeLiquidityUnits s signer sym w = .ok s') : Solv s' := by
  unfold removeLiquidityUnits at h
  obtain ⟨_, _, h⟩ := bind_ok h
  obtain ⟨pool, hp, h⟩ := bind_ok h
  obtain ⟨lp, hlp, h⟩ := bind_ok h
  obtain ⟨_, _, h⟩ := bind_ok h
  obtain ⟨⟨nD, eD⟩, _, h⟩ := bind_ok h
  obtain ⟨⟨wN, wE, left⟩, _, h⟩ := bind_ok h
  obtain ⟨_, _, h⟩ := bind_ok h
  obtain ⟨_, _, h⟩ := bind_ok h
  obtain ⟨pool', hpa, h⟩ := bind_ok h
  exact finishRemoval_solv hinv (optR_ok hp) (poolAfterRemoval_spec (liftM_ok hpa)) h

end Sif.Clp

namespace Sif.Clp
open Sif Sif.AList Sif.Spec.C01

/-- what `SwapOne` does to the pool record -/
theorem swapOne_spec {t : Bool} {x : Nat} {pool pool' : Pool} {r f : Dec} {y fee : Nat}
    (h : swapOne t x pool r f = .ok (y, fee, pool')) :
    pool'.nCust = pool.nCust ∧ pool'.eCust = pool.eCust ∧ pool'.sym = pool.sym ∧ pool'.units = pool.units ∧
    pool'.nLiab = pool.nLiab ∧ pool'.eLiab = pool.eLiab ∧
    (if t then pool'.eBal = pool.eBal + x ∧ pool'.nBal = pool.nBal - y ∧ y < pool.nBal
     else pool'.nBal = pool.nBal + x ∧ pool'.eBal = pool.eBal - y ∧ y < pool.eBal) := by
  unfold swapOne at h
  obtain ⟨_, _, h⟩ := bind_ok h
  obtain ⟨_, _, h⟩ := bind_ok h
  obtain ⟨⟨y', fee'⟩, _, h⟩ := bind_ok h
  obtain ⟨_, hg, h⟩ := bind_ok h
  obtain ⟨X', hX, h⟩ := bind_ok h
  obtain ⟨Y', hY, h⟩ := bind_ok h
  cases h
  have hlt := guardR_ok hg
  have eX := (Uint.add_ok (liftM_ok hX)).1
  have eY := (Uint.sub_ok (liftM_ok hY)).1
  cases t <;> simp_all

/-- single-pool swap step on the recorded amounts -/
theorem recorded_swapOne {s : St} {t : Bool} {x y fee : Nat} {pool p' : Pool} {r f : Dec} {sym : String}
    (hk : pool.sym = sym) (hg : s.getPool sym = some pool)
    (h : swapOne t x pool r f = .ok (y, fee, p')) (d : String) :
    recorded (s.setPool { p' with sym := sym }) d + (if t then (if d = rowan then y else 0) else (if d = sym then y else 0))
      = recorded s d + (if t then (if d = sym then x else 0) else (if d = rowan then x else 0)) := by
  obtain ⟨c1, c2, _, _, _, _, hs⟩ := swapOne_spec h
  have hrec := recorded_setPool_present (s := s) (p' := { p' with sym := sym }) d hg
  simp only [poolRec, hk, c1, c2] at hrec
  cases t
  · simp only [Bool.false_eq_true, if_false] at hs ⊢
    obtain ⟨e1, e2, hlt⟩ := hs
    rw [e1, e2] at hrec
    split <;> split <;> simp_all <;> omega
  · simp only [if_true] at hs ⊢
    obtain ⟨e1, e2, hlt⟩ := hs
    rw [e1, e2] at hrec
    split <;> split <;> simp_all <;> omega

end Sif.Clp

namespace Sif.Clp
open Sif Sif.AList Sif.Spec.C01

theorem recorded_swapOne_toRowan {s : St} {x y fee : Nat} {pool p' : Pool} {r f : Dec} {sym : String}
    (hk : pool.sym = sym) (hg : s.getPool sym = some pool)
    (h : swapOne true x pool r f = .ok (y, fee, p')) (d : String) :
    recorded (s.setPool { p' with sym := sym }) d + (if d = rowan then y else 0)
      = recorded s d + (if d = sym then x else 0) := by
  have := recorded_swapOne hk hg h d
  simpa using this

theorem recorded_swapOne_fromRowan {s : St} {x y fee : Nat} {pool p' : Pool} {r f : Dec} {sym : String}
    (hk : pool.sym = sym) (hg : s.getPool sym = some pool)
    (h : swapOne false x pool r f = .ok (y, fee, p')) (d : String) :
    recorded (s.setPool { p' with sym := sym }) d + (if d = sym then y else 0)
      = recorded s d + (if d = rowan then x else 0) := by
  have := recorded_swapOne hk hg h d
  simpa using this

/-- well-formedness of the pool store -/
def WFp (s : St) : Prop := s.pools.NodupKeys ∧ PoolKeysOK s

theorem wfp_setPool {s : St} (p : Pool) (h : WFp s) : WFp (s.setPool p) :=
  ⟨nodupKeys_set _ _ h.1, poolKeysOK_setPool h.2⟩

theorem wfp_congr {s s' : St} (hp : s'.pools = s.pools) (h : WFp s) : WFp s' :=
  ⟨by rw [hp]; exact h.1, poolKeysOK_congr hp h.2⟩

/-- the second leg (or only leg) of a swap plus the payout, from a state whose bank already holds
    the sent coins: bookkeeping equation and bank bound -/
theorem swapCore_solv {s s' : St} {signer sent recv : String} {amt mn y : Nat} (hs : signer ≠ clpAcct)
    (hinv : Solv s) (h : swapCore s signer sent recv amt mn = .ok (s', y)) : Solv s' := by
  unfold swapCore at h
  obtain ⟨_, _, h⟩ := bind_ok h
  obtain ⟨_, _, h⟩ := bind_ok h
  obtain ⟨_, _, h⟩ := bind_ok h
  obtain ⟨_, _, h⟩ := bind_ok h
  obtain ⟨s1, h1, h⟩ := bind_ok h
  obtain ⟨⟨s2, amt2⟩, hleg, h⟩ := bind_ok h
  obtain ⟨outPool, hop, h⟩ := bind_ok h
  obtain ⟨⟨y', fee, p'⟩, hso, h⟩ := bind_ok h
  obtain ⟨_, _, h⟩ := bind_ok h
  obtain ⟨_, _, h⟩ := bind_ok h
  obtain ⟨s4, h4, h⟩ := bind_ok h
  have hs4 : s4 = s' ∧ y' = y := by cases h; exact ⟨rfl, rfl⟩
  obtain ⟨rfl, rfl⟩ := hs4
  clear h
  obtain ⟨hnd, hk, hsolv⟩ := hinv
  obtain ⟨p1, l1, k1, _⟩ := send_frame (optR_ok h1)
  have b1 := send_in_bal (optR_ok h1) hs
  have wf1 : WFp s1 := wfp_congr p1 ⟨hnd, hk⟩
  have r1 : ∀ d, recorded s1 d = recorded s d := recorded_congr p1 k1
  obtain ⟨p4, l4, k4, _⟩ := send_frame (optR_ok h4)
  have b4 := send_out_bal (optR_ok h4)
  by_cases hr : recv = rowan
  · -- selling an external token for native: one leg in the pool of the sent token
    subst hr
    have hroute : s2 = s1 ∧ amt2 = amt := by
      unfold swapRoute at hleg
      simp at hleg
      exact ⟨hleg.1.symm, hleg.2.symm⟩
    obtain ⟨rfl, rfl⟩ := hroute
    simp only [eq_self_iff_true, if_true, decide_true, ↓reduceIte] at hop hso p4 k4 b4
    have hop : s2.getPool sent = some outPool := optR_ok hop
    have r3 := recorded_swapOne_toRowan (s := s2) (wf1.2 _ outPool hop) hop hso
    have wf4 : WFp s4 := wfp_congr p4 (wfp_setPool _ wf1)
    refine ⟨wf4.1, wf4.2, ?_⟩
    intro d
    rw [recorded_congr p4 k4 d]
    have h3 := r3 d; have hb4 := b4 d; have hb1 := b1 d; have hsv := hsolv d
    rw [r1 d] at h3
    simp only [setPool_bal] at hb4
    by_cases hd1 : d = rowan <;> by_cases hd2 : d = sent <;>
      simp only [hd1, hd2, if_true, if_false] at h3 hb4 hb1 hsv ⊢ <;> omega
  · have hdec : decide (recv = rowan) = false := by simp [hr]
    simp only [hr, if_false, hdec] at hop hso p4 k4 b4
    by_cases hsr : sent = rowan
    · -- buying an external token with native: one leg in the pool of the received token
      subst hsr
      have hroute : s2 = s1 ∧ amt2 = amt := by
        unfold swapRoute at hleg
        simp at hleg
        exact ⟨hleg.1.symm, hleg.2.symm⟩
      obtain ⟨rfl, rfl⟩ := hroute
      have hop : s2.getPool recv = some outPool := optR_ok hop
      have r3 := recorded_swapOne_fromRowan (s := s2) (wf1.2 _ outPool hop) hop hso
      have wf4 : WFp s4 := wfp_congr p4 (wfp_setPool _ wf1)
      refine ⟨wf4.1, wf4.2, ?_⟩
      intro d
      rw [recorded_congr p4 k4 d]
      have h3 := r3 d; have hb4 := b4 d; have hb1 := b1 d; have hsv := hsolv d
      rw [r1 d] at h3
      simp only [setPool_bal] at hb4
      by_cases hd1 : d = rowan <;> by_cases hd2 : d = recv <;>
        simp only [hd1, hd2, if_true, if_false] at h3 hb4 hb1 hsv ⊢ <;> omega
    · -- external → external: two legs, the native amount passes from one pool to the other
      unfold swapRoute at hleg
      rw [if_pos ⟨hsr, hr⟩] at hleg
      unfold swapFirstLeg at hleg
      obtain ⟨inPool, hip, hleg⟩ := bind_ok hleg
      obtain ⟨⟨y1, f1, q'⟩, hs1, hleg⟩ := bind_ok hleg
      have : s2 = s1.setPool { q' with sym := sent } ∧ amt2 = y1 := by cases hleg; exact ⟨rfl, rfl⟩
      obtain ⟨rfl, rfl⟩ := this
      have hip : s1.getPool sent = some inPool := optR_ok hip
      have r2 := recorded_swapOne_toRowan (s := s1) (wf1.2 sent inPool hip) hip hs1
      have wf2 : WFp (s1.setPool { q' with sym := sent }) := wfp_setPool _ wf1
      have hop : (s1.setPool { q' with sym := sent }).getPool recv = some outPool := optR_ok hop
      have r3 := recorded_swapOne_fromRowan (wf2.2 _ outPool hop) hop hso
      have wf4 : WFp s4 := wfp_congr p4 (wfp_setPool _ wf2)
      refine ⟨wf4.1, wf4.2, ?_⟩
      intro d
      rw [recorded_congr p4 k4 d]
      have h3 := r3 d; have h2 := r2 d; have hb4 := b4 d; have hb1 := b1 d; have hsv := hsolv d
      rw [r1 d] at h2
      simp only [setPool_bal] at hb4
      by_cases hd1 : d = rowan <;> by_cases hd2 : d = recv <;> by_cases hd3 : d = sent <;>
        simp only [hd1, hd2, hd3, if_true, if_false] at h3 h2 hb4 hb1 hsv ⊢ <;> omega

end Sif.Clp

namespace Sif.Clp
open Sif Sif.AList Sif.Spec.C01

theorem swap_solv {s s' : St} {signer sent recv : String} {amt mn y : Nat} (hs : signer ≠ clpAcct)
    (hinv : Solv s) (h : swap s signer sent recv amt mn = .ok (s', y)) : Solv s' := by
  obtain ⟨s4, c, hc, rfl⟩ := swap_ok h
  exact solv_lpCur c (swapCore_solv hs hinv hc)

theorem addLiquidity_solv {s s' : St} {signer sym : String} {n e : Nat} (hs : signer ≠ clpAcct)
    (hinv : Solv s) (h : addLiquidity s signer sym n e = .ok s') : Solv s' := by
  obtain ⟨s0, c, hc, rfl⟩ := addLiquidity_ok h
  exact solv_lpCur c (addLiquidityCore_solv hs hinv hc)

theorem addToBucket_solv {s s' : St} {signer d0 : String} {amt : Nat} (hs : signer ≠ clpAcct)
    (hinv : Solv s) (h : addToBucket s signer d0 amt = .ok s') : Solv s' := by
  unfold addToBucket at h
  split at h
  · cases h; exact hinv
  · obtain ⟨_, _, h⟩ := bind_ok h
    obtain ⟨_, _, h⟩ := bind_ok h
    obtain ⟨s1, h1, h⟩ := bind_ok h
    cases h
    obtain ⟨p1, l1, k1, _⟩ := send_frame (optR_ok h1)
    have b1 := send_in_bal (optR_ok h1) hs
    obtain ⟨hnd, hk, hsolv⟩ := hinv
    refine ⟨by show s1.pools.NodupKeys; rw [p1]; exact hnd, poolKeysOK_congr (s' := { s1 with buckets := _ }) p1 hk, ?_⟩
    intro d
    show recorded { s1 with buckets := _ } d ≤ s1.bal clpAcct d
    simp only [recorded_eq, p1, get_set, k1]
    have := hsolv d
    simp only [recorded_eq] at this
    rw [b1 d]
    by_cases hd : d0 = d
    · subst hd; simp; cases hg : s.buckets.get d0 <;> simp [hg] at this ⊢ <;> omega
    · have : ¬ d = d0 := fun e => hd e.symm
      simp [hd, this]; omega

/-- the refund loop pays out at most the running balances it tracks -/
theorem decommissionLoop_bank {pool : Pool} {nD eD : Nat} :
    ∀ (l : List (String × LP)) (s s' : St) (pu nB eB : Nat),
      decommissionLoop pool nD eD l s pu nB eB = .ok s' →
      s'.buckets = s.buckets ∧ ∃ nB' eB', nB' ≤ nB ∧ eB' ≤ eB ∧
        ∀ d, s.bal clpAcct d ≤ s'.bal clpAcct d + (if d = rowan then nB - nB' else 0) + (if d = pool.sym then eB - eB' else 0) := by
  intro l
  induction l with
  | nil =>
    intro s s' pu nB eB h
    unfold decommissionLoop at h
    cases h
    exact ⟨rfl, nB, eB, Nat.le_refl _, Nat.le_refl _, fun d => by split <;> split <;> omega⟩
  | cons hd t ih =>
    intro s s' pu nB eB h
    obtain ⟨k, lp⟩ := hd
    unfold decommissionLoop at h
    obtain ⟨⟨wN, wE, _⟩, _, h⟩ := bind_ok h
    obtain ⟨_, _, h⟩ := bind_ok h
    obtain ⟨nB1, hn, h⟩ := bind_ok h
    obtain ⟨eB1, he, h⟩ := bind_ok h
    obtain ⟨_, _, h⟩ := bind_ok h
    obtain ⟨s1, h1, h⟩ := bind_ok h
    obtain ⟨s2, h2, h⟩ := bind_ok h
    obtain ⟨_, _, k1, _⟩ := send_frame (optR_ok h1)
    obtain ⟨_, _, k2, _⟩ := send_frame (optR_ok h2)
    have b1 := send_out_bal (optR_ok h1)
    have b2 := send_out_bal (optR_ok h2)
    obtain ⟨en, ln⟩ := Uint.sub_ok (liftM_ok hn)
    obtain ⟨ee, le⟩ := Uint.sub_ok (liftM_ok he)
    obtain ⟨hk, nB', eB', l1, l2, hb⟩ := ih _ _ _ _ _ h
    refine ⟨by rw [hk]; show s2.buckets = _; rw [k2, k1], nB', eB', by omega, by omega, ?_⟩
    intro d
    have h1 := b1 d; have h2 := b2 d; have h3 := hb d
    simp only [eraseLP_bal] at h3
    split_prop hd1 : d = rowan <;> split_prop hd2 : d = pool.sym <;>
      simp only [hd1, hd2, if_true, if_false] at h1 h2 h3 ⊢ <;> omega

theorem recorded_erasePool {s : St} {sym : String} {p : Pool} (hg : s.getPool sym = some p) (d : String) :
    recorded { s with pools := s.pools.erase (poolKey sym) } d + poolRec d p = recorded s d := by
  simp only [recorded_eq]
  have := sumBy_erase_present (poolRec d) s.pools (poolKey sym) p hg
  omega

theorem decommissionPool_solv {s s' : St} {signer sym : String}
    (hinv : Solv s) (h : decommissionPool s signer sym = .ok s') : Solv s' := by
  unfold decommissionPool at h
  obtain ⟨pool, hp, h⟩ := bind_ok h
  obtain ⟨_, _, h⟩ := bind_ok h
  obtain ⟨_, _, h⟩ := bind_ok h
  obtain ⟨⟨nD, eD⟩, _, h⟩ := bind_ok h
  obtain ⟨s1, hloop, h⟩ := bind_ok h
  cases h
  have hp : s.getPool sym = some pool := optR_ok hp
  obtain ⟨_, _, r3⟩ := decommissionLoop_spec (pool := { pool with sym := sym }) _ _ _ _ _ _ rfl hloop
  obtain ⟨hk1, nB', eB', l1, l2, hb⟩ := decommissionLoop_bank _ _ _ _ _ _ hloop
  obtain ⟨hnd, hk, hsolv⟩ := hinv
  have hsym : pool.sym = sym := hk sym pool hp
  refine ⟨?_, ?_, ?_⟩
  · show (s1.pools.erase _).NodupKeys
    rw [r3]; exact nodupKeys_erase _ hnd
  · intro sy q hq
    have hq : (s1.pools.erase (poolKey sym)).get (poolKey sy) = some q := hq
    rw [r3] at hq
    by_cases hs : sym = sy
    · subst hs; rw [get_erase_self _ hnd] at hq; cases hq
    · rw [get_erase_ne _ _ _ (poolKey_ne hs)] at hq
      exact hk sy q hq
  · intro d
    have hp1 : s1.getPool sym = some pool := by simpa [St.getPool, r3] using hp
    have hrec := recorded_erasePool (s := s1) hp1 d
    have hr1 : recorded s1 d = recorded s d := recorded_congr r3 hk1 d
    have hbd := hb d
    have hsv := hsolv d
    show recorded { s1 with pools := s1.pools.erase (poolKey sym) } d ≤ s1.bal clpAcct d
    simp only [poolRec, hsym] at hrec
    split_prop hd1 : d = rowan <;> split_prop hd2 : d = sym <;>
      simp only [hd1, hd2, if_true, if_false] at hrec hbd hsv hr1 ⊢ <;> omega

end Sif.Clp
