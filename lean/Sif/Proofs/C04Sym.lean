import Sif.Proofs.C04RemoveBps
import Sif.Proofs.C04Add
/-
  C04 — clauses 2 and 3 for symmetric additions: what an immediate removal of the units received
  returns is at most what was added plus the dust of each token.
-/
namespace Sif.Clp
open Sif Sif.Dec Sif.Spec.C04

theorem withdrawFromUnits_w_pos {Pu nD eD lu w n e left : Nat}
    (h : calculateWithdrawalFromUnits Pu nD eD lu w = .ok (n, e, left)) : 0 < w := by
  rcases Nat.eq_zero_or_pos w with hw | hw
  · exfalso
    subst hw
    unfold calculateWithdrawalFromUnits at h
    obtain ⟨nF, hn, h⟩ := bind_ok h
    obtain ⟨eF, he, h⟩ := bind_ok h
    obtain ⟨luF, _, h⟩ := bind_ok h
    obtain ⟨wuF, hwu, h⟩ := bind_ok h
    obtain ⟨q, hq, h⟩ := bind_ok h
    have ew : wuF.i = 0 := by have := decOfNatStr_i hwu; simpa using this
    unfold Dec.quo at hq
    simp [ew] at hq
  · exact hw
end Sif.Clp

namespace Sif.Clp
open Sif Sif.Dec Sif.Spec.C04

theorem dust_ge_v (Dt Do v : Nat) : (4 : ℚ) + (v : ℚ) / 10 ^ 9 ≤ (dust Dt Do v : ℚ) := by
  have h1 : v ≤ ceilDiv v (10 ^ 9) * 10 ^ 9 := le_ceilDiv_mul v (10 ^ 9) (by positivity)
  have h1q : (v : ℚ) ≤ (ceilDiv v (10 ^ 9) : ℚ) * 10 ^ 9 := by exact_mod_cast h1
  have h2 : (v : ℚ) / 10 ^ 9 ≤ (ceilDiv v (10 ^ 9) : ℚ) := by
    rw [div_le_iff₀ (by positivity)]; exact h1q
  have h3 : (dust Dt Do v : ℚ) = 4 * (1 + (ceilDiv Dt Do : ℚ)) + (ceilDiv v (10 ^ 9) : ℚ) + (ceilDiv Dt (10 ^ 16) : ℚ) := by
    unfold dust; push_cast; ring
  rw [h3]
  have hx : (0 : ℚ) ≤ (ceilDiv Dt Do : ℚ) := Nat.cast_nonneg _
  have hy : (0 : ℚ) ≤ (ceilDiv Dt (10 ^ 16) : ℚ) := Nat.cast_nonneg _
  generalize (v : ℚ) / 10 ^ 9 = t at h2 ⊢
  generalize (ceilDiv v (10 ^ 9) : ℚ) = c at h2 ⊢
  generalize (ceilDiv Dt Do : ℚ) = x at hx ⊢
  generalize (ceilDiv Dt (10 ^ 16) : ℚ) = y at hy ⊢
  linarith

/-- a payout bounded by `side·lu/(P+lu)·(1+2/P) + 1` with `side₀·lu ≤ x·P` (side = side₀ + x) is at most x + dust -/
theorem back_le_added {S x lu Pp back Dt Do : Nat} (hP : 0 < Pp + lu)
    (hfloor : S * lu ≤ x * Pp)
    (hb : (back : ℚ) ≤ ((S + x : Nat) : ℚ) * lu / ((Pp + lu : Nat) : ℚ) * (1 + 2 / P) + 1) :
    back ≤ x + dust Dt Do x := by
  have hPq : (0 : ℚ) < ((Pp + lu : Nat) : ℚ) := by exact_mod_cast hP
  have hPv : (P : ℚ) = 10 ^ 18 := by rw [P_val]; norm_num
  have hx0 : (0 : ℚ) ≤ (x : ℚ) := Nat.cast_nonneg _
  have hfl : ((S : ℚ) + x) * lu ≤ (x : ℚ) * ((Pp : ℚ) + lu) := by
    have : ((S * lu : Nat) : ℚ) ≤ ((x * Pp : Nat) : ℚ) := by exact_mod_cast hfloor
    push_cast at this; nlinarith
  have hshare : ((S + x : Nat) : ℚ) * lu / ((Pp + lu : Nat) : ℚ) ≤ x := by
    rw [div_le_iff₀ hPq]; push_cast; exact hfl
  have hshare0 : (0 : ℚ) ≤ ((S + x : Nat) : ℚ) * lu / ((Pp + lu : Nat) : ℚ) := by positivity
  have hd := dust_ge_v Dt Do x
  have h2 : ((S + x : Nat) : ℚ) * lu / ((Pp + lu : Nat) : ℚ) * (2 / P) ≤ (x : ℚ) / 10 ^ 9 := by
    rw [hPv]
    have a1 : ((S + x : Nat) : ℚ) * lu / ((Pp + lu : Nat) : ℚ) * (2 / 10 ^ 18) ≤ (x : ℚ) * (2 / 10 ^ 18) :=
      mul_le_mul_of_nonneg_right hshare (by positivity)
    have a2 : (x : ℚ) * (2 / 10 ^ 18) ≤ (x : ℚ) / 10 ^ 9 := by
      have hD : (0 : ℚ) ≤ (x : ℚ) / 10 ^ 9 := by positivity
      have e : (x : ℚ) * (2 / 10 ^ 18) = (x : ℚ) / 10 ^ 9 * (2 / 10 ^ 9) := by ring
      rw [e]
      have : (2 : ℚ) / 10 ^ 9 ≤ 1 := by norm_num
      nlinarith
    linarith
  have key : (back : ℚ) ≤ ((x + dust Dt Do x : Nat) : ℚ) := by
    push_cast
    have e : ((S + x : Nat) : ℚ) * lu / ((Pp + lu : Nat) : ℚ) * (1 + 2 / P)
        = ((S + x : Nat) : ℚ) * lu / ((Pp + lu : Nat) : ℚ) + ((S + x : Nat) : ℚ) * lu / ((Pp + lu : Nat) : ℚ) * (2 / P) := by ring
    rw [e] at hb
    linarith
  exact_mod_cast key

/-- clauses 2 and 3 for a symmetric addition: adding (n, e) in the pool's ratio and removing the units
    received returns at most (n, e) plus dust of each token -/
theorem addRemove_symmetric {P0 R A n e : Nat} {fS fB r : Dec} {u : UnitsRes} {n' e' left : Nat}
    (hR : R ≠ 0) (hs : symmetryState A e R n = .symmetric)
    (h : calculatePoolUnits P0 R A n e fS fB r = .ok (some u))
    (hw : calculateWithdrawalFromUnits u.poolUnits (R + n) (A + e) u.lpUnits u.lpUnits = .ok (n', e', left)) :
    addRemoveOK r fS fB R A n e n' e' = true := by
  -- the units of a symmetric addition
  have hsym : R * e = n * A := by
    unfold symmetryState at hs
    split at hs; · cases hs
    split at hs; · cases hs
    split at hs; · cases hs
    split at hs; · cases hs
    split at hs
    · rename_i heq; rw [heq]
    · cases hs
  obtain ⟨lu, hpu, hlu, hfloor⟩ : ∃ lu, u.poolUnits = P0 + lu ∧ u.lpUnits = lu ∧ lu * R ≤ n * P0 := by
    unfold calculatePoolUnits at h
    rw [hs] at h
    cases hh : symmetricUnits P0 R n with
    | error err => simp [hh, Except.map] at h
    | ok v =>
      simp [hh, Except.map] at h; subst h
      unfold symmetricUnits at hh
      obtain ⟨⟨pu, l⟩, h4, hh⟩ := bind_ok hh
      cases hh
      obtain ⟨_, hl, hp⟩ := poolUnitsSymmetric_spec h4
      exact ⟨l, hp, rfl, by rw [hl]; exact Nat.div_mul_le_self _ _⟩
  rw [hpu, hlu] at hw
  have hlupos := withdrawFromUnits_w_pos hw
  have hPpos : 0 < P0 + lu := by omega
  obtain ⟨bn, be⟩ := withdrawFromUnits_le_tight hlupos (Nat.le_add_left lu P0) hw
  have hRpos : 0 < R := Nat.pos_of_ne_zero hR
  have hfloorN : R * lu ≤ n * P0 := by rw [Nat.mul_comm]; exact hfloor
  have hfloorE : A * lu ≤ e * P0 := by
    -- A·lu·R ≤ A·n·P0 = R·e·P0
    apply Nat.le_of_mul_le_mul_left _ hRpos
    calc R * (A * lu) = A * (lu * R) := by ring
      _ ≤ A * (n * P0) := Nat.mul_le_mul_left _ hfloor
      _ = (n * A) * P0 := by ring
      _ = (R * e) * P0 := by rw [hsym]
      _ = R * (e * P0) := by ring
  have hn' : n' ≤ n + dust R A n := back_le_added hPpos hfloorN bn
  have he' : e' ≤ e + dust A R e := back_le_added hPpos hfloorE be
  unfold addRemoveOK
  simp only [Nat.not_lt.mpr hn', Nat.not_lt.mpr he', decide_false, Bool.not_false,
    if_false, Bool.and_self, gt_iff_lt]
end Sif.Clp
