import Sif.Proofs.C01
/-
  C01, exact-equality half: every user message other than a decommission leaves the slack
  (module balance − recorded amounts) of every token exactly as it was.
-/
namespace Sif.Clp
open Sif Sif.AList Sif.Spec.C01

/-- the slack of every token is the same in `s'` as in `s` (additive form, no subtraction) -/
def SlackEq (s s' : St) : Prop := ∀ d, s'.bal clpAcct d + recorded s d = s.bal clpAcct d + recorded s' d

theorem SlackEq.refl (s : St) : SlackEq s s := fun _ => rfl

theorem SlackEq.trans {a b c : St} (h1 : SlackEq a b) (h2 : SlackEq b c) : SlackEq a c := by
  intro d; have := h1 d; have := h2 d; omega

theorem slackEq_lpCur {s s' : St} (c : Nat) (h : SlackEq s s') : SlackEq s { s' with lpCur := c } := h

/-- coins leaving the module account towards another account: it loses exactly `amt` of `d0` -/
theorem send_out_bal_eq {s s' : St} {dst d0 : String} {amt : Nat} (h : send s clpAcct dst d0 amt = some s')
    (hne : dst ≠ clpAcct) (d : String) : s.bal clpAcct d = s'.bal clpAcct d + (if d = d0 then amt else 0) := by
  obtain ⟨hle, b, _⟩ := send_spec h (Ne.symm hne)
  rw [b]
  by_cases hd : d = d0
  · subst hd; simp; omega
  · simp [hd]

theorem recorded_replace_pool {s t : St} {p p' : Pool}
    (hpools : t.pools = s.pools.set (poolKey p'.sym) p') (hbk : t.buckets = s.buckets)
    (hg : s.getPool p'.sym = some p) (d : String) :
    recorded t d + poolRec d p = recorded s d + poolRec d p' := by
  have hrec := recorded_setPool_present (s := s) (p' := p') d hg
  have : recorded t d = recorded (s.setPool p') d := by
    simp [recorded, St.setPool, hpools, hbk]
  rw [this]; exact hrec

theorem createPool_slack {s s' : St} {signer sym : String} {n e : Nat} (hs : signer ≠ clpAcct)
    (h : createPool s signer sym n e = .ok s') : SlackEq s s' := by
  unfold createPool at h
  obtain ⟨_, _, h⟩ := bind_ok h
  obtain ⟨_, _, h⟩ := bind_ok h
  obtain ⟨_, _, h⟩ := bind_ok h
  obtain ⟨_, hnp, h⟩ := bind_ok h
  obtain ⟨uo, hu, h⟩ := bind_ok h
  obtain ⟨u, huo, h⟩ := bind_ok h
  obtain ⟨_, _, h⟩ := bind_ok h
  obtain ⟨s1, h1, h⟩ := bind_ok h
  obtain ⟨s2, h2, h⟩ := bind_ok h
  cases h
  obtain ⟨_, b1, p1, l1, k1, _⟩ := send_spec (optR_ok h1) hs
  obtain ⟨_, b2, p2, l2, k2, _⟩ := send_spec (optR_ok h2) hs
  have hnone : s2.getPool sym = none := by
    have := guardR_ok hnp
    simp [AList.contains] at this
    simpa [St.getPool, p2, p1] using this
  intro d
  have hrec := recorded_setPool_absent (s := s2) (p' := { sym := sym, nBal := n, eBal := e, units := u.poolUnits }) d hnone
  have hr2 : recorded s2 d = recorded s d := recorded_congr (p2.trans p1) (k2.trans k1) d
  have hb : (s2.bal clpAcct d) = s.bal clpAcct d + (if d = sym then e else 0) + (if d = rowan then n else 0) := by
    rw [b2, b1]
    have : clpAcct ≠ signer := Ne.symm hs
    simp only [poolRec] at *
    grind
  show ((s2.setPool _).setLP _).bal clpAcct d + recorded s d = s.bal clpAcct d + recorded ((s2.setPool _).setLP _) d
  simp only [setLP_bal, setPool_bal]
  have : recorded ((s2.setPool { sym := sym, nBal := n, eBal := e, units := u.poolUnits }).setLP
      { sym := sym, addr := signer, units := u.lpUnits, lastUpdated := s.height }) d
      = recorded (s2.setPool { sym := sym, nBal := n, eBal := e, units := u.poolUnits }) d := rfl
  rw [this, hrec, hr2, hb]
  simp only [poolRec]
  grind

theorem addLiquidityCore_slack {s s' : St} {signer sym : String} {n e : Nat} (hs : signer ≠ clpAcct)
    (hinv : Solv s) (h : addLiquidityCore s signer sym n e = .ok s') : SlackEq s s' := by
  unfold addLiquidityCore at h
  obtain ⟨_, _, h⟩ := bind_ok h
  obtain ⟨_, _, h⟩ := bind_ok h
  obtain ⟨pool, hp, h⟩ := bind_ok h
  obtain ⟨⟨nD, eD⟩, hd, h⟩ := bind_ok h
  obtain ⟨uo, hu, h⟩ := bind_ok h
  obtain ⟨u, huo, h⟩ := bind_ok h
  obtain ⟨_, _, h⟩ := bind_ok h
  obtain ⟨s1, h1, h⟩ := bind_ok h
  obtain ⟨s2, h2, h⟩ := bind_ok h
  obtain ⟨nB, hnB, h⟩ := bind_ok h
  obtain ⟨eB, heB, h⟩ := bind_ok h
  obtain ⟨lp, hlp, h⟩ := bind_ok h
  cases h
  have hp : s.getPool sym = some pool := optR_ok hp
  obtain ⟨p1, l1, k1, _⟩ := send_frame (optR_ok h1)
  obtain ⟨p2, l2, k2, _⟩ := send_frame (optR_ok h2)
  have b1 := send_in_bal (optR_ok h1) hs
  have b2 := send_in_bal (optR_ok h2) hs
  have hsym : pool.sym = sym := hinv.2.1 sym pool hp
  have hnB := (Uint.add_ok (liftM_ok hnB)).1
  have heB := (Uint.add_ok (liftM_ok heB)).1
  intro d
  have hrec := recorded_replace_pool (s := s)
    (t := (s2.setPool { pool with sym := sym, units := u.poolUnits, nBal := nB, eBal := eB }).setLP lp)
    (p := pool) (p' := { pool with sym := sym, units := u.poolUnits, nBal := nB, eBal := eB })
    (by show (s2.pools.set _ _) = _; rw [p2, p1]) (by show s2.buckets = s.buckets; rw [k2, k1]) hp d
  show s2.bal clpAcct d + recorded s d = _
  rw [b2, b1]
  simp only [poolRec, hsym, hnB, heB] at hrec
  split at hrec <;> split at hrec <;> simp_all <;> omega

theorem finishRemoval_slack {s s' : St} {pool pool' : Pool} {sym addr : String} {wN wE left nD eD : Nat}
    (hinv : Solv s) (ha : addr ≠ clpAcct) (hp : s.getPool sym = some pool)
    (hspec : pool'.nBal = pool.nBal - wN ∧ wN ≤ pool.nBal ∧ pool'.eBal = pool.eBal - wE ∧ wE ≤ pool.eBal ∧
      pool'.nCust = pool.nCust ∧ pool'.eCust = pool.eCust ∧ pool'.sym = pool.sym)
    (h : finishRemoval s { pool' with sym := sym } sym addr wN wE left nD eD = .ok s') : SlackEq s s' := by
  unfold finishRemoval at h
  obtain ⟨_, _, h⟩ := bind_ok h
  obtain ⟨_, _, h⟩ := bind_ok h
  obtain ⟨_, _, h⟩ := bind_ok h
  obtain ⟨_, _, h⟩ := bind_ok h
  obtain ⟨s1, h1, h⟩ := bind_ok h
  obtain ⟨s2, h2, h⟩ := bind_ok h
  cases h
  obtain ⟨p1, l1, k1, _⟩ := send_frame (optR_ok h1)
  obtain ⟨p2, l2, k2, _⟩ := send_frame (optR_ok h2)
  have b1 := send_out_bal_eq (optR_ok h1) ha
  have b2 := send_out_bal_eq (optR_ok h2) ha
  have hsym : pool.sym = sym := hinv.2.1 sym pool hp
  obtain ⟨e1, le1, e2, le2, c1, c2, _⟩ := hspec
  intro d
  have hb : s.bal clpAcct d = s2.bal clpAcct d + (if d = sym then wE else 0) + (if d = rowan then wN else 0) := by
    have := b1 d; have := b2 d; omega
  have key : ∀ (t : St), t.bal clpAcct d = s2.bal clpAcct d →
      t.pools = s.pools.set (poolKey sym) { pool' with sym := sym } → t.buckets = s.buckets →
      t.bal clpAcct d + recorded s d = s.bal clpAcct d + recorded t d := by
    intro t ht htp htb
    have hrec := recorded_replace_pool (s := s) (t := t) (p := pool) (p' := { pool' with sym := sym }) htp htb hp d
    rw [ht, hb]
    simp only [poolRec, hsym, e1, e2, c1, c2] at hrec
    split at hrec <;> split at hrec <;> simp_all <;> omega
  split
  · exact key _ rfl (by show (s2.pools.set _ _) = _; rw [p2, p1]) (by show s2.buckets = _; rw [k2, k1])
  · exact key _ rfl (by show (s2.pools.set _ _) = _; rw [p2, p1]) (by show s2.buckets = _; rw [k2, k1])

theorem removeLiquidity_slack {s s' : St} {signer sym : String} {w : Nat} (hs : signer ≠ clpAcct)
    (hinv : Solv s) (h : removeLiquidity s signer sym w = .ok s') : SlackEq s s' := by
  unfold removeLiquidity at h
  obtain ⟨_, _, h⟩ := bind_ok h
  obtain ⟨pool, hp, h⟩ := bind_ok h
  obtain ⟨lp, hlp, h⟩ := bind_ok h
  obtain ⟨_, _, h⟩ := bind_ok h
  obtain ⟨_, _, h⟩ := bind_ok h
  obtain ⟨⟨nD, eD⟩, _, h⟩ := bind_ok h
  obtain ⟨⟨wN, wE, left⟩, _, h⟩ := bind_ok h
  obtain ⟨_, _, h⟩ := bind_ok h
  obtain ⟨_, _, h⟩ := bind_ok h
  obtain ⟨pool', hpa, h⟩ := bind_ok h
  exact finishRemoval_slack hinv hs (optR_ok hp) (poolAfterRemoval_spec (liftM_ok hpa)) h

theorem removeLiquidityUnits_slack {s s' : St} {signer sym : String} {w : Nat} (hs : signer ≠ clpAcct)
    (hinv : Solv s) (h : removeLiquidityUnits s signer sym w = .ok s') : SlackEq s s' := by
  unfold removeLiquidityUnits at h
  obtain ⟨_, _, h⟩ := bind_ok h
  obtain ⟨pool, hp, h⟩ := bind_ok h
  obtain ⟨lp, hlp, h⟩ := bind_ok h
  obtain ⟨_, _, h⟩ := bind_ok h
  obtain ⟨⟨nD, eD⟩, _, h⟩ := bind_ok h
  obtain ⟨⟨wN, wE, left⟩, _, h⟩ := bind_ok h
  obtain ⟨_, _, h⟩ := bind_ok h
  obtain ⟨_, _, h⟩ := bind_ok h
  obtain ⟨pool', hpa, h⟩ := bind_ok h
  exact finishRemoval_slack hinv hs (optR_ok hp) (poolAfterRemoval_spec (liftM_ok hpa)) h

theorem addToBucket_slack {s s' : St} {signer d0 : String} {amt : Nat} (hs : signer ≠ clpAcct)
    (h : addToBucket s signer d0 amt = .ok s') : SlackEq s s' := by
  unfold addToBucket at h
  split at h
  · cases h; exact SlackEq.refl s
  · obtain ⟨_, _, h⟩ := bind_ok h
    obtain ⟨_, _, h⟩ := bind_ok h
    obtain ⟨s1, h1, h⟩ := bind_ok h
    cases h
    obtain ⟨p1, l1, k1, _⟩ := send_frame (optR_ok h1)
    have b1 := send_in_bal (optR_ok h1) hs
    intro d
    show s1.bal clpAcct d + recorded s d = s.bal clpAcct d + recorded { s1 with buckets := _ } d
    simp only [recorded_eq, p1, get_set, k1]
    rw [b1 d]
    by_cases hd : d0 = d
    · subst hd; simp; cases hg : s.buckets.get d0 <;> simp <;> omega
    · have : ¬ d = d0 := fun e => hd e.symm
      simp [hd, this]

theorem swapCore_slack {s s' : St} {signer sent recv : String} {amt mn y : Nat} (hs : signer ≠ clpAcct)
    (hinv : Solv s) (h : swapCore s signer sent recv amt mn = .ok (s', y)) : SlackEq s s' := by
  unfold swapCore at h
  obtain ⟨_, _, h⟩ := bind_ok h
  obtain ⟨_, _, h⟩ := bind_ok h
  obtain ⟨_, _, h⟩ := bind_ok h
  obtain ⟨_, _, h⟩ := bind_ok h
  obtain ⟨s1, h1, h⟩ := bind_ok h
  obtain ⟨⟨s2, amt2⟩, hleg, h⟩ := bind_ok h
  obtain ⟨outPool, hop, h⟩ := bind_ok h
  obtain ⟨⟨y', fee, p'⟩, hso, h⟩ := bind_ok h
  obtain ⟨_, _, h⟩ := bind_ok h
  obtain ⟨_, _, h⟩ := bind_ok h
  obtain ⟨s4, h4, h⟩ := bind_ok h
  have hs4 : s4 = s' ∧ y' = y := by cases h; exact ⟨rfl, rfl⟩
  obtain ⟨rfl, rfl⟩ := hs4
  clear h
  obtain ⟨hnd, hk, hsolv⟩ := hinv
  obtain ⟨p1, l1, k1, _⟩ := send_frame (optR_ok h1)
  have b1 := send_in_bal (optR_ok h1) hs
  have wf1 : WFp s1 := wfp_congr p1 ⟨hnd, hk⟩
  have r1 : ∀ d, recorded s1 d = recorded s d := recorded_congr p1 k1
  obtain ⟨p4, l4, k4, _⟩ := send_frame (optR_ok h4)
  have b4 := send_out_bal_eq (optR_ok h4) hs
  by_cases hr : recv = rowan
  · -- selling an external token for native: one leg in the pool of the sent token
    subst hr
    have hroute : s2 = s1 ∧ amt2 = amt := by
      unfold swapRoute at hleg
      simp at hleg
      exact ⟨hleg.1.symm, hleg.2.symm⟩
    obtain ⟨rfl, rfl⟩ := hroute
    simp only [eq_self_iff_true, if_true, decide_true, ↓reduceIte] at hop hso p4 k4 b4
    have hop : s2.getPool sent = some outPool := optR_ok hop
    have r3 := recorded_swapOne_toRowan (s := s2) (wf1.2 _ outPool hop) hop hso
    have wf4 : WFp s4 := wfp_congr p4 (wfp_setPool _ wf1)
    intro d
    rw [recorded_congr p4 k4 d]
    have h3 := r3 d; have hb4 := b4 d; have hb1 := b1 d; have hsv := hsolv d
    rw [r1 d] at h3
    simp only [setPool_bal] at hb4
    by_cases hd1 : d = rowan <;> by_cases hd2 : d = sent <;>
      simp only [hd1, hd2, if_true, if_false] at h3 hb4 hb1 hsv ⊢ <;> omega
  · have hdec : decide (recv = rowan) = false := by simp [hr]
    simp only [hr, if_false, hdec] at hop hso p4 k4 b4
    by_cases hsr : sent = rowan
    · -- buying an external token with native: one leg in the pool of the received token
      subst hsr
      have hroute : s2 = s1 ∧ amt2 = amt := by
        unfold swapRoute at hleg
        simp at hleg
        exact ⟨hleg.1.symm, hleg.2.symm⟩
      obtain ⟨rfl, rfl⟩ := hroute
      have hop : s2.getPool recv = some outPool := optR_ok hop
      have r3 := recorded_swapOne_fromRowan (s := s2) (wf1.2 _ outPool hop) hop hso
      have wf4 : WFp s4 := wfp_congr p4 (wfp_setPool _ wf1)
      intro d
      rw [recorded_congr p4 k4 d]
      have h3 := r3 d; have hb4 := b4 d; have hb1 := b1 d; have hsv := hsolv d
      rw [r1 d] at h3
      simp only [setPool_bal] at hb4
      by_cases hd1 : d = rowan <;> by_cases hd2 : d = recv <;>
        simp only [hd1, hd2, if_true, if_false] at h3 hb4 hb1 hsv ⊢ <;> omega
    · -- external → external: two legs, the native amount passes from one pool to the other
      unfold swapRoute at hleg
      rw [if_pos ⟨hsr, hr⟩] at hleg
      unfold swapFirstLeg at hleg
      obtain ⟨inPool, hip, hleg⟩ := bind_ok hleg
      obtain ⟨⟨y1, f1, q'⟩, hs1, hleg⟩ := bind_ok hleg
      have : s2 = s1.setPool { q' with sym := sent } ∧ amt2 = y1 := by cases hleg; exact ⟨rfl, rfl⟩
      obtain ⟨rfl, rfl⟩ := this
      have hip : s1.getPool sent = some inPool := optR_ok hip
      have r2 := recorded_swapOne_toRowan (s := s1) (wf1.2 sent inPool hip) hip hs1
      have wf2 : WFp (s1.setPool { q' with sym := sent }) := wfp_setPool _ wf1
      have hop : (s1.setPool { q' with sym := sent }).getPool recv = some outPool := optR_ok hop
      have r3 := recorded_swapOne_fromRowan (wf2.2 _ outPool hop) hop hso
      have wf4 : WFp s4 := wfp_congr p4 (wfp_setPool _ wf2)
      intro d
      rw [recorded_congr p4 k4 d]
      have h3 := r3 d; have h2 := r2 d; have hb4 := b4 d; have hb1 := b1 d; have hsv := hsolv d
      rw [r1 d] at h2
      simp only [setPool_bal] at hb4
      by_cases hd1 : d = rowan <;> by_cases hd2 : d = recv <;> by_cases hd3 : d = sent <;>
        simp only [hd1, hd2, hd3, if_true, if_false] at h3 h2 hb4 hb1 hsv ⊢ <;> omega


theorem swap_slack {s s' : St} {signer sent recv : String} {amt mn y : Nat} (hs : signer ≠ clpAcct)
    (hinv : Solv s) (h : swap s signer sent recv amt mn = .ok (s', y)) : SlackEq s s' := by
  obtain ⟨s4, c, hc, rfl⟩ := swap_ok h
  exact slackEq_lpCur c (swapCore_slack hs hinv hc)

theorem addLiquidity_slack {s s' : St} {signer sym : String} {n e : Nat} (hs : signer ≠ clpAcct)
    (hinv : Solv s) (h : addLiquidity s signer sym n e = .ok s') : SlackEq s s' := by
  obtain ⟨s0, c, hc, rfl⟩ := addLiquidity_ok h
  exact slackEq_lpCur c (addLiquidityCore_slack hs hinv hc)

end Sif.Clp
