import Sif.Proofs.C18
import Sif.Proofs.C18Clamp
import Sif.Proofs.C18Bucket
/-
  C18 — the n-provider bound of one pool's LPPD / depth-reward payout: `collectLoop` is the running clamp of
  the raw provider amounts at the cap, so every provider is within (n+1)·(1 + D·10⁻¹⁸) + ½ of its share.
-/
namespace Sif.Clp
open Sif Sif.Dec

/-- the unclamped amounts of the providers of one pool -/
inductive RawLP (pd : Dec) (pu : Nat) : List LP → List (String × Nat) → Prop
  | nil : RawLP pd pu [] []
  | cons {lp : LP} {a : Nat} {l : List LP} {r : List (String × Nat)} :
      providerAmount pd pu lp.units = .ok a → RawLP pd pu l r → RawLP pd pu (lp :: l) ((lp.addr, a) :: r)

/-- `collectLoop` is the running clamp of the raw amounts at what is left of the cap -/
theorem collectLoop_clamp (pd : Dec) (cap pu : Nat) :
    ∀ (lps : List LP) (total : Nat) (acc l : List (String × Nat)) (tot : Nat),
      total ≤ cap →
      collectLoop pd cap pu lps total acc = .ok (l, tot) →
      ∃ raw, RawLP pd pu lps raw ∧ l = acc.reverse ++ clampAmounts (cap - total) raw := by
  intro lps
  induction lps with
  | nil =>
    intro total acc l tot _ h
    unfold collectLoop at h
    cases h
    exact ⟨[], .nil, by simp [clampAmounts]⟩
  | cons lp rest ih =>
    intro total acc l tot hle h
    unfold collectLoop at h
    obtain ⟨a, ha, h⟩ := bind_ok h
    obtain ⟨t, ht, h⟩ := bind_ok h
    have et := (Uint.add_ok ht).1
    split at h
    · rename_i hgt
      obtain ⟨prev, hp, h⟩ := bind_ok h
      obtain ⟨a', ha', h⟩ := bind_ok h
      have ep := (Uint.sub_ok hp).1
      have ea := (Uint.sub_ok ha').1
      obtain ⟨raw, hr, hl⟩ := ih cap ((lp.addr, a') :: acc) l tot (Nat.le_refl _) h
      refine ⟨(lp.addr, a) :: raw, .cons ha hr, ?_⟩
      rw [hl]
      simp only [clampAmounts, List.reverse_cons, List.append_assoc, List.singleton_append]
      have h1 : a > cap - total := by omega
      simp only [h1, if_true]
      have h2 : a' = cap - total := by omega
      rw [h2]
      simp
    · rename_i hng
      obtain ⟨raw, hr, hl⟩ := ih t ((lp.addr, a) :: acc) l tot (by omega) h
      refine ⟨(lp.addr, a) :: raw, .cons ha hr, ?_⟩
      rw [hl]
      simp only [clampAmounts, List.reverse_cons, List.append_assoc, List.singleton_append]
      have h1 : ¬ a > cap - total := by omega
      simp only [h1, if_false]
      have h2 : cap - t = cap - total - a := by omega
      rw [h2]
end Sif.Clp

namespace Sif.Clp
open Sif Sif.Dec

def lpUnitsSum : List LP → Nat
  | [] => 0
  | lp :: t => lp.units + lpUnitsSum t

theorem rawLP_total {pd : Dec} {pu : Nat} (hpu : 0 < pu) (hpd : 0 ≤ pd.i) {lps : List LP} {raw : List (String × Nat)}
    (h : RawLP pd pu lps raw) :
    raw.length = lps.length ∧
    (amtTotal raw : ℚ) ≤ (lpUnitsSum lps : ℚ) / pu * ((pd.i : ℚ) / P) + (lps.length : ℚ) * (1 + (pd.i : ℚ) / P / P) := by
  induction h with
  | nil => simp [amtTotal, lpUnitsSum]
  | @cons lp a l r ha _ ih =>
    obtain ⟨hl, hs⟩ := ih
    refine ⟨by simp [hl], ?_⟩
    rw [amtTotal_cons]
    obtain ⟨b1, _⟩ := providerAmount_bound hpu hpd ha
    simp only [lpUnitsSum, List.length_cons, Nat.cast_add, Nat.cast_one]
    have e1 : ((lp.units : ℚ) + (lpUnitsSum l : ℚ)) / pu * ((pd.i : ℚ) / P)
        = (lp.units : ℚ) / pu * ((pd.i : ℚ) / P) + (lpUnitsSum l : ℚ) / pu * ((pd.i : ℚ) / P) := by ring
    rw [e1]
    have e2 : ((l.length : ℚ) + 1) * (1 + (pd.i : ℚ) / P / P) = (l.length : ℚ) * (1 + (pd.i : ℚ) / P / P) + (1 + (pd.i : ℚ) / P / P) := by ring
    rw [e2]
    linarith

theorem rawLP_get {pd : Dec} {pu : Nat} {lps : List LP} {raw : List (String × Nat)} (h : RawLP pd pu lps raw) :
    ∀ i (h1 : i < lps.length) (h2 : i < raw.length),
      (raw[i]'h2).1 = (lps[i]'h1).addr ∧ providerAmount pd pu (lps[i]'h1).units = .ok (raw[i]'h2).2 := by
  induction h with
  | nil => intro i h1; simp at h1
  | @cons lp a l r ha _ ih =>
    intro i h1 h2
    cases i with
    | zero => exact ⟨rfl, ha⟩
    | succ j => simpa using ih j (by simpa using h1) (by simpa using h2)

/-- **n-provider bound of one pool's LPPD / depth-reward payout.**  With D = the pool's distribution amount
    and provider units that do not exceed the pool units, the i-th provider is handed at most its share
    u_i/U of D plus one base unit plus D·10⁻¹⁸, and at least its share minus (n+1)·(1 + D·10⁻¹⁸) − ½ — the
    running clamp lets later providers absorb the rounding of the earlier ones; any n, all magnitudes. -/
theorem lppd_amounts_fair {pd : Dec} {pu : Nat} {lps : List LP} {l : List (String × Nat)} {tot : Nat}
    (hpu : 0 < pu) (hpd : 0 ≤ pd.i) (hsum : lpUnitsSum lps ≤ pu)
    (h : collectProviderDistribution pd pu lps = .ok (l, tot)) :
    l.length = lps.length ∧
    ∀ i (h1 : i < lps.length) (h2 : i < l.length),
      (l[i]'h2).1 = (lps[i]'h1).addr ∧
      ((l[i]'h2).2 : ℚ) ≤ ((lps[i]'h1).units : ℚ) / pu * ((pd.i : ℚ) / P) + 1 + (pd.i : ℚ) / P / P ∧
      ((lps[i]'h1).units : ℚ) / pu * ((pd.i : ℚ) / P) - ((lps.length : ℚ) + 1) * (1 + (pd.i : ℚ) / P / P) - 1 / 2
        ≤ ((l[i]'h2).2 : ℚ) := by
  unfold collectProviderDistribution at h
  obtain ⟨cap, hc, h⟩ := bind_ok h
  obtain ⟨ecap, _⟩ := Uint.ofInt_ok hc
  obtain ⟨raw, hR, hl⟩ := collectLoop_clamp pd cap pu lps 0 [] l tot (Nat.zero_le _) h
  simp only [List.reverse_nil, List.nil_append, Nat.sub_zero] at hl
  subst hl
  obtain ⟨hlen, htot⟩ := rawLP_total hpu hpd hR
  obtain ⟨hmap, hle⟩ := clampAmounts_le cap raw
  have hclen : (clampAmounts cap raw).length = raw.length := by
    have := congrArg List.length hmap; simpa using this
  have hp : (0 : ℚ) < (P : ℚ) := by exact_mod_cast P_pos
  have hpuq : (0 : ℚ) < (pu : ℚ) := by exact_mod_cast hpu
  have hD0 : (0 : ℚ) ≤ (pd.i : ℚ) / P := div_nonneg (by exact_mod_cast hpd) hp.le
  -- cap ≥ D − 1/2
  obtain ⟨_, _, rlow⟩ := roundInt_err hpd
  have hcapq : (pd.i : ℚ) / P - 1 / 2 ≤ (cap : ℚ) := by
    have : ((cap : Int) : ℚ) = (pd.roundInt : ℚ) := by rw [ecap]
    have h2 : (cap : ℚ) = (pd.roundInt : ℚ) := by exact_mod_cast this
    rw [h2]; exact rlow
  -- Σ raw ≤ D + n(1 + D/P)
  have hshare : (lpUnitsSum lps : ℚ) / pu * ((pd.i : ℚ) / P) ≤ (pd.i : ℚ) / P := by
    have : (lpUnitsSum lps : ℚ) / pu ≤ 1 := by
      rw [div_le_one hpuq]; exact_mod_cast hsum
    nlinarith
  refine ⟨by rw [hclen, hlen], ?_⟩
  intro i h1 h2
  have h3 : i < raw.length := by rw [hlen]; exact h1
  obtain ⟨hname, hamt⟩ := rawLP_get hR i h1 h3
  obtain ⟨bu, bl⟩ := providerAmount_bound hpu hpd hamt
  have hc1 := hle i h3 h2
  have hc2 := clampAmounts_ge cap raw i h3 h2
  have hname' : ((clampAmounts cap raw)[i]'h2).1 = (raw[i]'h3).1 := by
    have := congrArg (fun l => l[i]?) hmap
    simp only [List.getElem?_map] at this
    rw [List.getElem?_eq_getElem h2, List.getElem?_eq_getElem h3] at this
    simpa using this
  refine ⟨by rw [hname', hname], ?_, ?_⟩
  · have : (((clampAmounts cap raw)[i]'h2).2 : ℚ) ≤ ((raw[i]'h3).2 : ℚ) := by exact_mod_cast hc1
    linarith
  · have hover : ((amtTotal raw - cap : Nat) : ℚ) ≤ (lps.length : ℚ) * (1 + (pd.i : ℚ) / P / P) + 1 / 2 := by
      by_cases hb : amtTotal raw ≤ cap
      · rw [Nat.sub_eq_zero_of_le hb]
        have : (0 : ℚ) ≤ (lps.length : ℚ) * (1 + (pd.i : ℚ) / P / P) := by positivity
        simp; linarith
      · rw [Nat.cast_sub (by omega)]; linarith
    have : ((raw[i]'h3).2 : ℚ) ≤ (((clampAmounts cap raw)[i]'h2).2 : ℚ) + ((amtTotal raw - cap : Nat) : ℚ) := by exact_mod_cast hc2
    have e : ((lps.length : ℚ) + 1) * (1 + (pd.i : ℚ) / P / P) = (lps.length : ℚ) * (1 + (pd.i : ℚ) / P / P) + (1 + (pd.i : ℚ) / P / P) := by ring
    rw [e]
    linarith
end Sif.Clp
