import Sif.Spec.C10
import Sif.Proofs.C10EndNum
import Sif.Proofs.C10Pmtp
set_option exponentiation.threshold 400
/-
  C10 helper lemmas: the clp EndBlocker (LPPD + depth rewards) returns normally inside the envelope
  `EInvP`, for every height, every pool list, every provider list.
-/
namespace Sif.Proofs.C10
open Sif Sif.Hooks Sif.Spec.C10

local notation "P" => Dec.P

theorem map_ok {α β} {x : M α} {a : α} (f : α → β) (h : x = .ok a) : x.map f = .ok (f a) := by
  subst h; rfl

/-- `IsDistributionBlockPure` cannot divide by zero for a non-zero uint64 modulus -/
theorem isDistBlock_ok (h : Int) (start mod : Nat) (hm : mod ≠ 0) (hm64 : mod < 2 ^ 64) :
    ∃ b, isDistBlock h start mod = .ok b := by
  unfold isDistBlock modI64
  have : wrapI64 (mod : Int) ≠ 0 := by
    unfold wrapI64; rw [two63_val, two64_val]; omega
  rw [if_neg this]
  exact ⟨_, rfl⟩

/-! ### LPPD -/

structure SamePool (a b : EPool) : Prop where
  sym : a.sym = b.sym
  units : a.units = b.units
  rpnd : a.rpnd = b.rpnd
  lps : a.lps = b.lps
  nb : a.nb ≤ b.nb

theorem EPoolOKP_of_same {a b : EPool} (h : SamePool a b) (hb : EPoolOKP b) : EPoolOKP a := by
  obtain ⟨h1, h2, h3, h4⟩ := hb
  exact ⟨le_trans h.nb h1, by rw [h.rpnd]; exact h2, by rw [h.lps, h.units]; exact h3, by rw [h.lps, h.units]; exact h4⟩

theorem lppdPool_ok (rate : Dec) (hr0 : 0 ≤ rate.i) (hr1 : rate.i ≤ P) (q : EPool) (hq : EPoolOKP q) :
    ∃ q', lppdPool rate q = .ok q' ∧ SamePool q' q := by
  unfold lppdPool
  by_cases he : q.lps.isEmpty = true
  · rw [if_pos he]; exact ⟨q, rfl, ⟨rfl, rfl, rfl, rfl, le_refl _⟩⟩
  · rw [if_neg he]
    obtain ⟨h1, _, h3, h4⟩ := hq
    have hne : q.lps ≠ [] := by
      intro h; apply he; rw [h]; rfl
    have hrv : rate.i = (rate.i.toNat : Nat) := (Int.toNat_of_nonneg hr0).symm
    have hrP : rate.i.toNat ≤ P := by
      have : (rate.i.toNat : Int) ≤ P := by rw [← hrv]; exact hr1
      exact_mod_cast this
    have hamt : q.nb < 2 ^ 255 := lt_of_le_of_lt h1 (by norm_num)
    obtain ⟨r, hr, hle⟩ := collectPD_ok (rate := rate) (amt := q.nb) hrv hrP hamt q.lps (fun _ => h3 hne) h4
    rw [map_ok _ hr]
    refine ⟨_, rfl, ?_⟩
    by_cases hlt : q.nb < r.1
    · rw [if_pos hlt]; exact ⟨rfl, rfl, rfl, rfl, le_refl _⟩
    · rw [if_neg hlt]; exact ⟨rfl, rfl, rfl, rfl, Nat.sub_le _ _⟩

/-- pointwise relation between the pool list before and after a step -/
inductive SamePools : List EPool → List EPool → Prop
  | nil : SamePools [] []
  | cons {a b : EPool} {as bs : List EPool} : SamePool a b → SamePools as bs → SamePools (a :: as) (b :: bs)

theorem SamePools.refl : ∀ l : List EPool, SamePools l l
  | [] => .nil
  | q :: qs => .cons ⟨rfl, rfl, rfl, rfl, le_refl _⟩ (SamePools.refl qs)

theorem SamePools.ok {as bs : List EPool} (h : SamePools as bs) (hb : ∀ q ∈ bs, EPoolOKP q) : ∀ q ∈ as, EPoolOKP q := by
  induction h with
  | nil => intro q hq; cases hq
  | cons hab _ ih =>
    intro q hq
    rcases List.mem_cons.1 hq with rfl | hq'
    · exact EPoolOKP_of_same hab (hb _ List.mem_cons_self)
    · exact ih (fun x hx => hb x (List.mem_cons_of_mem _ hx)) q hq'

theorem SamePools.sum {as bs : List EPool} (h : SamePools as bs) : sumNb as ≤ sumNb bs := by
  induction h with
  | nil => exact le_refl _
  | cons hab _ ih => unfold sumNb; exact Nat.add_le_add hab.nb ih

theorem lppdPools_ok (rate : Dec) (hr0 : 0 ≤ rate.i) (hr1 : rate.i ≤ P) :
    ∀ pools : List EPool, (∀ q ∈ pools, EPoolOKP q) → ∃ ps, lppdPools rate pools = .ok ps ∧ SamePools ps pools := by
  intro pools
  induction pools with
  | nil => intro _; exact ⟨[], rfl, .nil⟩
  | cons q qs ih =>
    intro h
    obtain ⟨q', hq', hs⟩ := lppdPool_ok rate hr0 hr1 q (h q List.mem_cons_self)
    obtain ⟨ps, hps, hss⟩ := ih (fun x hx => h x (List.mem_cons_of_mem _ hx))
    refine ⟨q' :: ps, ?_, .cons hs hss⟩
    unfold lppdPools
    rw [bind_eq_of_ok _ hq', bind_eq_of_ok _ hps]; rfl

theorem findLppd_mem {h : Int} : ∀ {l : List LppdPeriod} {p : LppdPeriod}, findLppd h l = some p → p ∈ l := by
  intro l
  induction l with
  | nil => intro p hp; cases hp
  | cons x xs ih =>
    intro p hp
    unfold findLppd at hp
    by_cases ha : lppdActive h x = true
    · rw [if_pos ha] at hp; cases hp; exact List.mem_cons_self
    · rw [if_neg ha] at hp; exact List.mem_cons_of_mem _ (ih hp)

theorem lppdRun_ok (h : Int) (periods : List LppdPeriod) (pools : List EPool)
    (hper : ∀ p ∈ periods, LppdOKP p) (hpools : ∀ q ∈ pools, EPoolOKP q) :
    ∃ ps, lppdRun h periods pools = .ok ps ∧ SamePools ps pools := by
  unfold lppdRun
  cases hf : findLppd h periods with
  | none => exact ⟨pools, rfl, SamePools.refl _⟩
  | some p =>
    obtain ⟨hm, hm64, hr0, hr1⟩ := hper p (findLppd_mem hf)
    obtain ⟨due, hdue⟩ := isDistBlock_ok h p.start p.mod hm hm64
    simp only
    rw [bind_eq_of_ok _ hdue]
    cases due with
    | false => exact ⟨pools, rfl, SamePools.refl _⟩
    | true => exact lppdPools_ok p.rate hr0 hr1 pools hpools

/-! ### depth rewards -/

/-- the facts about the current period that the arithmetic needs (mod already normalised) -/
structure PeriodOK (p : RewardPeriod) : Prop where
  se : p.start ≤ p.end_
  e64 : p.end_ < 2 ^ 64
  nowrap : ¬ (p.start = 0 ∧ p.end_ = 2 ^ 64 - 1)
  mod0 : p.mod ≠ 0
  mod64 : p.mod < 2 ^ 64
  alloc : optLe p.alloc (2 ^ 128 - 1)
  defm : optDecIn p.defMult 0 (10 * P)
  mults : ∀ m ∈ p.mults, optDecInOrNone m.m 0 (10 * P)

theorem findReward_ok {h : Int} : ∀ {l : List RewardPeriod} {p : RewardPeriod}, (∀ q ∈ l, RewOKP q) →
    findReward h l = some p → PeriodOK p := by
  intro l
  induction l with
  | nil => intro p _ hp; cases hp
  | cons x xs ih =>
    intro p hl hp
    unfold findReward at hp
    by_cases ha : wrapU64 h ≥ x.start ∧ wrapU64 h ≤ x.end_
    · rw [if_pos ha] at hp
      obtain ⟨a1, a2, a3, a4, a5, a6, a7⟩ := hl x List.mem_cons_self
      by_cases hm : x.mod = 0
      · rw [if_pos hm] at hp; cases hp
        exact ⟨a1, a2, a3, by show (1 : Nat) ≠ 0; omega, by show (1 : Nat) < 2 ^ 64; norm_num, a5, a6, a7⟩
      · rw [if_neg hm] at hp; cases hp
        exact ⟨a1, a2, a3, hm, a4, a5, a6, a7⟩
    · rw [if_neg ha] at hp
      exact ih (fun q hq => hl q (List.mem_cons_of_mem _ hq)) hp

/-- `GetPoolMultiplier`: never a nil dereference, the multiplier is in [0, 10] -/
theorem poolMult_ok (sym : String) (p : RewardPeriod) (hp : PeriodOK p) :
    ∃ m, poolMult sym p = .ok m ∧ 0 ≤ m.i ∧ m.i ≤ 10 * P := by
  unfold poolMult
  have hdm := hp.defm
  cases hd : p.defMult with
  | none => rw [hd] at hdm; exact absurd hdm (by unfold optDecIn; simp)
  | some d0 =>
    rw [hd] at hdm
    cases hf : p.mults.find? (fun m => decide (m.asset = sym ∧ m.m.isSome = true)) with
    | none => exact ⟨d0, rfl, hdm.1, hdm.2⟩
    | some x =>
      have hmem : x ∈ p.mults := List.mem_of_find?_eq_some hf
      obtain ⟨a, mo⟩ := x
      cases mo with
      | none => exact ⟨d0, rfl, hdm.1, hdm.2⟩
      | some d =>
        have := hp.mults _ hmem
        exact ⟨d, rfl, this.1, this.2⟩

theorem two200_mul : (2 : Nat) ^ 200 * (10 * P) < 2 ^ 315 := by rw [P_val]; norm_num

/-- the per-pool weight `nb × multiplier` as an exact decimal -/
theorem weight_ok (nb : Nat) (m : Dec) (hm0 : 0 ≤ m.i) (hm1 : m.i ≤ 10 * P) (hnb : nb ≤ 2 ^ 200) :
    Dec.mul (decOfUint nb) m = .ok ⟨((nb * m.i.toNat : Nat) : Int)⟩ := by
  have hmv : m.i = (m.i.toNat : Nat) := (Int.toNat_of_nonneg hm0).symm
  have hle : m.i.toNat ≤ 10 * P := by
    have : (m.i.toNat : Int) ≤ 10 * P := by rw [← hmv]; exact hm1
    exact_mod_cast this
  have hval : mulNat (nb * P) m.i.toNat = nb * m.i.toNat := mulNat_P_left nb _
  have hfit : mulNat (nb * P) m.i.toNat < 2 ^ 315 := by
    rw [hval]
    exact lt_of_le_of_lt (Nat.mul_le_mul hnb hle) two200_mul
  have := Dec_mul_nat (a := decOfUint nb) (b := m) (decOfUint_i nb) hmv hfit
  rw [hval] at this
  exact this

/-- `calcTotalDepth`: no overflow while the total native depth is below 2^200; the total dominates
    every pool's weight -/
theorem totalDepth_ok (p : RewardPeriod) (hp : PeriodOK p) :
    ∀ (pools : List EPool) (acc : Dec), (∀ q ∈ pools, q.nb ≤ 2 ^ 200) → 0 ≤ acc.i →
      acc.i + (10 * P : Nat) * sumNb pools ≤ (2 ^ 200 * (10 * P) : Nat) →
      ∃ T, totalDepth p pools acc = .ok T ∧ acc.i ≤ T.i ∧
        ∀ q ∈ pools, ∃ m, poolMult q.sym p = .ok m ∧ 0 ≤ m.i ∧ m.i ≤ 10 * P ∧ ((q.nb * m.i.toNat : Nat) : Int) ≤ T.i - acc.i := by
  intro pools
  induction pools with
  | nil => intro acc _ h0 _; exact ⟨acc, rfl, le_refl _, fun q hq => by cases hq⟩
  | cons q qs ih =>
    intro acc hnb h0 hsum
    obtain ⟨m, hm, hm0, hm1⟩ := poolMult_ok q.sym p hp
    have hq200 := hnb q List.mem_cons_self
    have hw := weight_ok q.nb m hm0 hm1 hq200
    have hmv : m.i = (m.i.toNat : Nat) := (Int.toNat_of_nonneg hm0).symm
    have hle : m.i.toNat ≤ 10 * P := by
      have : (m.i.toNat : Int) ≤ 10 * P := by rw [← hmv]; exact hm1
      exact_mod_cast this
    have hterm : q.nb * m.i.toNat ≤ (10 * P) * q.nb := by rw [Nat.mul_comm]; exact Nat.mul_le_mul_right _ hle
    unfold sumNb at hsum
    have hsum' : acc.i + ((q.nb * m.i.toNat : Nat) : Int) + ((10 * P : Nat) : Int) * sumNb qs ≤ ((2 ^ 200 * (10 * P) : Nat) : Int) := by
      have : ((q.nb * m.i.toNat : Nat) : Int) ≤ ((10 * P : Nat) : Int) * q.nb := by exact_mod_cast hterm
      push_cast at hsum ⊢
      nlinarith
    have h315 := two200_mul
    have hadd : Dec.add acc ⟨((q.nb * m.i.toNat : Nat) : Int)⟩ = .ok ⟨acc.i + ((q.nb * m.i.toNat : Nat) : Int)⟩ := by
      apply Dec_add_ok
      show (acc.i + ((q.nb * m.i.toNat : Nat) : Int)).natAbs < 2 ^ 315
      have hnn : (0 : Int) ≤ ((10 * P : Nat) : Int) * sumNb qs := by positivity
      have : acc.i + ((q.nb * m.i.toNat : Nat) : Int) < ((2 ^ 315 : Nat) : Int) := by
        have : ((2 ^ 200 * (10 * P) : Nat) : Int) < ((2 ^ 315 : Nat) : Int) := by exact_mod_cast h315
        linarith
      have hnn2 : 0 ≤ acc.i + ((q.nb * m.i.toNat : Nat) : Int) := by positivity
      omega
    obtain ⟨T, hT, hTle, hall⟩ := ih ⟨acc.i + ((q.nb * m.i.toNat : Nat) : Int)⟩ (fun x hx => hnb x (List.mem_cons_of_mem _ hx))
      (by show 0 ≤ acc.i + ((q.nb * m.i.toNat : Nat) : Int); positivity) hsum'
    refine ⟨T, ?_, ?_, ?_⟩
    · unfold totalDepth
      rw [bind_eq_of_ok _ hm, bind_eq_of_ok _ hw, bind_eq_of_ok _ hadd]
      exact hT
    · have : acc.i ≤ acc.i + ((q.nb * m.i.toNat : Nat) : Int) := by
        have : (0 : Int) ≤ ((q.nb * m.i.toNat : Nat) : Int) := by positivity
        omega
      exact le_trans this hTle
    · intro x hx
      rcases List.mem_cons.1 hx with rfl | hx'
      · exact ⟨m, hm, hm0, hm1, by
          have : acc.i + ((x.nb * m.i.toNat : Nat) : Int) ≤ T.i := hTle
          omega⟩
      · obtain ⟨m', h1, h2, h3, h4⟩ := hall x hx'
        refine ⟨m', h1, h2, h3, ?_⟩
        have : (0 : Int) ≤ ((q.nb * m.i.toNat : Nat) : Int) := by positivity
        have h4' : ((x.nb * m'.i.toNat : Nat) : Int) ≤ T.i - (acc.i + ((q.nb * m.i.toNat : Nat) : Int)) := h4
        omega

theorem two255_mul_P : (2 : Nat) ^ 255 * P < 2 ^ 315 := by
  have := P_lt_2_60'
  calc 2 ^ 255 * P < 2 ^ 255 * 2 ^ 60 := Nat.mul_lt_mul_of_pos_left this (by positivity)
    _ = 2 ^ 315 := by rw [← pow_add]

/-- `calcPoolDistribution`: a pool whose weight is at most the (positive) total gets at most the
    block distribution; no panic -/
theorem poolDistribution_ok (m : Dec) (nb : Nat) (T : Dec) (bd : Nat) (hm0 : 0 ≤ m.i) (hm1 : m.i ≤ 10 * P)
    (hnb : nb ≤ 2 ^ 200) (hT : 0 < T.i) (hw : ((nb * m.i.toNat : Nat) : Int) ≤ T.i) (hbd : bd < 2 ^ 255) :
    ∃ r, poolDistribution m nb T bd = .ok r ∧ r ≤ bd := by
  unfold poolDistribution
  rw [bind_eq_of_ok _ (weight_ok nb m hm0 hm1 hnb)]
  have hTv : T.i = (T.i.toNat : Nat) := (Int.toNat_of_nonneg (le_of_lt hT)).symm
  have hTpos : 0 < T.i.toNat := by
    have : (0 : Int) < (T.i.toNat : Int) := by rw [← hTv]; exact hT
    exact_mod_cast this
  have hwN : nb * m.i.toNat ≤ T.i.toNat := by
    have : ((nb * m.i.toNat : Nat) : Int) ≤ (T.i.toNat : Int) := by rw [← hTv]; exact hw
    exact_mod_cast this
  have hshare : Dec.chopRoundNat (nb * m.i.toNat * P * P / T.i.toNat) ≤ P := share_le_P hwN hTpos
  have hq := Dec_quo_nat (a := ⟨((nb * m.i.toNat : Nat) : Int)⟩) (b := T) rfl hTv (ne_of_gt hTpos)
    (lt_of_le_of_lt hshare (lt_trans P_lt_2_60' two60_lt))
  rw [bind_eq_of_ok _ hq]
  -- weight × blockDistribution, exact
  have hval : mulNat (Dec.chopRoundNat (nb * m.i.toNat * P * P / T.i.toNat)) (bd * P) =
      Dec.chopRoundNat (nb * m.i.toNat * P * P / T.i.toNat) * bd := mulNat_P_right _ bd
  have hle : Dec.chopRoundNat (nb * m.i.toNat * P * P / T.i.toNat) * bd ≤ bd * P := by
    rw [Nat.mul_comm bd P]; exact Nat.mul_le_mul_right _ hshare
  have hfit : mulNat (Dec.chopRoundNat (nb * m.i.toNat * P * P / T.i.toNat)) (bd * P) < 2 ^ 315 := by
    rw [hval]
    exact lt_of_le_of_lt hle (lt_trans (Nat.mul_lt_mul_of_pos_right hbd P_pos) two255_mul_P)
  have hm := Dec_mul_nat (a := ⟨((Dec.chopRoundNat (nb * m.i.toNat * P * P / T.i.toNat) : Nat) : Int)⟩) (b := decOfUint bd) rfl (decOfUint_i bd) hfit
  rw [hval] at hm
  rw [bind_eq_of_ok _ hm]
  -- truncate
  unfold Dec.truncateInt Uint.ofInt
  have hdiv : Int.tdiv ((Dec.chopRoundNat (nb * m.i.toNat * P * P / T.i.toNat) * bd : Nat) : Int) (P : Int) =
      ((Dec.chopRoundNat (nb * m.i.toNat * P * P / T.i.toNat) * bd / P : Nat) : Int) := by
    rw [Int.tdiv_eq_ediv_of_nonneg (by positivity)]; rfl
  show ∃ r, (if Int.tdiv ((Dec.chopRoundNat (nb * m.i.toNat * P * P / T.i.toNat) * bd : Nat) : Int) (P : Int) < 0 then _ else _) = _ ∧ _
  rw [hdiv]
  have hnn : ¬ (((Dec.chopRoundNat (nb * m.i.toNat * P * P / T.i.toNat) * bd / P : Nat) : Int) < 0) := not_lt.mpr (by positivity)
  rw [if_neg hnn, Int.toNat_natCast]
  have hr : Dec.chopRoundNat (nb * m.i.toNat * P * P / T.i.toNat) * bd / P ≤ bd := by
    apply Nat.div_le_of_le_mul
    rw [Nat.mul_comm P bd]; exact hle
  unfold Uint.chk
  rw [if_pos (lt_of_le_of_lt hr (lt_trans hbd two255_lt))]
  exact ⟨_, rfl, hr⟩

/-- `CollectPoolRewardTuples`: every pool reward is at most the block distribution -/
theorem rewardTuples_ok (p : RewardPeriod) (T : Dec) (bd : Nat) (hT : 0 < T.i) (hbd : bd < 2 ^ 255) :
    ∀ (qs : List EPool) (remaining : Nat),
      (∀ q ∈ qs, q.nb ≤ 2 ^ 200 ∧ ∃ m, poolMult q.sym p = .ok m ∧ 0 ≤ m.i ∧ m.i ≤ 10 * P ∧ ((q.nb * m.i.toNat : Nat) : Int) ≤ T.i) →
      remaining ≤ bd →
      ∃ rs, rewardTuples p T bd qs remaining = .ok rs ∧ ∀ r ∈ rs, r ≤ bd := by
  intro qs
  induction qs with
  | nil => intro _ _ _; exact ⟨[], rfl, fun r hr => by cases hr⟩
  | cons q qs ih =>
    intro remaining hq hrem
    unfold rewardTuples
    by_cases h0 : remaining = 0
    · rw [if_pos h0]
      exact ⟨_, rfl, fun r hr => by rw [List.eq_of_mem_replicate hr]; exact Nat.zero_le _⟩
    · rw [if_neg h0]
      obtain ⟨hnb, m, hm, hm0, hm1, hw⟩ := hq q List.mem_cons_self
      obtain ⟨pd, hpd, hpdle⟩ := poolDistribution_ok m q.nb T bd hm0 hm1 hnb hT hw hbd
      rw [bind_eq_of_ok _ hm, bind_eq_of_ok _ hpd]
      have hmin : (if pd > remaining then remaining else pd) ≤ remaining := by
        by_cases h : pd > remaining
        · rw [if_pos h]
        · rw [if_neg h]; omega
      have hsub : Uint.sub remaining (if pd > remaining then remaining else pd) = .ok (remaining - (if pd > remaining then remaining else pd)) := by
        unfold Uint.sub; rw [if_pos hmin]
      simp only
      rw [bind_eq_of_ok _ hsub]
      obtain ⟨rs, hrs, hall⟩ := ih (remaining - (if pd > remaining then remaining else pd))
        (fun x hx => hq x (List.mem_cons_of_mem _ hx)) (le_trans (Nat.sub_le _ _) hrem)
      rw [bind_eq_of_ok _ hrs]
      refine ⟨_, rfl, ?_⟩
      intro r hr
      rcases List.mem_cons.1 hr with rfl | hr'
      · exact le_trans hmin hrem
      · exact hall r hr'

theorem Uint_add_ok {a b : Nat} (h : a + b < two256) : Uint.add a b = .ok (a + b) := by
  unfold Uint.add Uint.chk; rw [if_pos h]

theorem applyReward_ok (distribute : Bool) (q : EPool) (reward bd : Nat) (hq : EPoolOKP q) (hr : reward ≤ bd) (hbd : bd < 2 ^ 255) :
    ∃ q', applyReward distribute q reward = .ok q' := by
  obtain ⟨h1, h2, h3, h4⟩ := hq
  have h256 : (2 : Nat) ^ 200 + 2 ^ 255 < two256 := by unfold two256; norm_num
  have hnb : q.nb + reward < two256 := by omega
  have hrp : q.rpnd + reward < two256 := by omega
  have hacc : ∃ q', (do let nb ← Uint.add q.nb reward; let r ← Uint.add q.rpnd reward; pure { q with nb := nb, rpnd := r } : M EPool) = .ok q' := by
    rw [bind_eq_of_ok _ (Uint_add_ok hnb), bind_eq_of_ok _ (Uint_add_ok hrp)]; exact ⟨_, rfl⟩
  unfold applyReward
  by_cases h0 : reward = 0
  · rw [if_pos h0]; exact ⟨q, rfl⟩
  · rw [if_neg h0]
    cases distribute with
    | false => simpa using hacc
    | true =>
      rw [if_pos rfl]
      by_cases he : q.lps.isEmpty = true
      · rw [if_pos he]; exact hacc
      · rw [if_neg he]
        have hne : q.lps ≠ [] := by intro h; apply he; rw [h]; rfl
        have hone : (Dec.one).i = ((P : Nat) : Int) := rfl
        obtain ⟨c, hc, hcle⟩ := collectPD_ok (rate := Dec.one) (amt := reward) hone (le_refl _) (lt_of_le_of_lt hr hbd) q.lps (fun _ => h3 hne) h4
        have hrp' : q.rpnd + c.1 < two256 := by omega
        rw [bind_eq_of_ok _ hc, bind_eq_of_ok _ (Uint_add_ok hrp')]
        exact ⟨_, rfl⟩

theorem applyRewards_ok (distribute : Bool) (bd : Nat) (hbd : bd < 2 ^ 255) :
    ∀ (qs : List EPool) (rs : List Nat), (∀ q ∈ qs, EPoolOKP q) → (∀ r ∈ rs, r ≤ bd) →
      ∃ out, applyRewards distribute qs rs = .ok out := by
  intro qs
  induction qs with
  | nil => intro rs _ _; exact ⟨[], by unfold applyRewards; rfl⟩
  | cons q qs ih =>
    intro rs hq hr
    cases rs with
    | nil => exact ⟨q :: qs, by unfold applyRewards; rfl⟩
    | cons r rs =>
      obtain ⟨q', hq'⟩ := applyReward_ok distribute q r bd (hq q List.mem_cons_self) (hr r List.mem_cons_self) hbd
      obtain ⟨out, hout⟩ := ih rs (fun x hx => hq x (List.mem_cons_of_mem _ hx)) (fun x hx => hr x (List.mem_cons_of_mem _ hx))
      exact ⟨q' :: out, by unfold applyRewards; rw [bind_eq_of_ok _ hq', bind_eq_of_ok _ hout]; rfl⟩

theorem sumNb_bound {pools : List EPool} (h : sumNb pools ≤ 2 ^ 200) :
    ((0 : Int) + ((10 * P : Nat) : Int) * sumNb pools ≤ ((2 ^ 200 * (10 * P) : Nat) : Int)) := by
  have : (10 * P) * sumNb pools ≤ 2 ^ 200 * (10 * P) := by
    rw [Nat.mul_comm (2 ^ 200)]; exact Nat.mul_le_mul_left _ h
  have : (((10 * P) * sumNb pools : Nat) : Int) ≤ ((2 ^ 200 * (10 * P) : Nat) : Int) := by exact_mod_cast this
  push_cast at this ⊢
  linarith

/-- `DistributeDepthRewards` -/
theorem distributeDepth_ok (h : Int) (p : RewardPeriod) (hp : PeriodOK p) (bd : Nat) (hbd : bd < 2 ^ 255)
    (pools : List EPool) (hpools : ∀ q ∈ pools, EPoolOKP q) (hsum : sumNb pools ≤ 2 ^ 200) :
    ∃ out, distributeDepth h p bd pools = .ok out := by
  unfold distributeDepth
  by_cases h0 : bd = 0
  · rw [if_pos h0]; exact ⟨pools, rfl⟩
  · rw [if_neg h0]
    obtain ⟨T, hT, _, hall⟩ := totalDepth_ok p hp pools Dec.zero (fun q hq => (hpools q hq).1) (le_refl _) (sumNb_bound hsum)
    rw [bind_eq_of_ok _ hT]
    simp only
    by_cases hle : T.i ≤ 0
    · rw [if_pos hle]; exact ⟨_, rfl⟩
    · rw [if_neg hle]
      -- pools after the reset: same symbols and balances
      have hpools1 : ∀ q ∈ resetIfStart h p pools, EPoolOKP q ∧ ∃ q0 ∈ pools, q.sym = q0.sym ∧ q.nb = q0.nb := by
        intro q hq
        unfold resetIfStart at hq
        by_cases hs : wrapU64 h = p.start
        · rw [if_pos hs] at hq
          obtain ⟨q0, hq0, rfl⟩ := List.mem_map.1 hq
          obtain ⟨a1, _, a3, a4⟩ := hpools q0 hq0
          exact ⟨⟨a1, Nat.zero_le _, a3, a4⟩, q0, hq0, rfl, rfl⟩
        · rw [if_neg hs] at hq
          exact ⟨hpools q hq, q, hq, rfl, rfl⟩
      have hTz : Dec.zero.i = 0 := rfl
      have htup := rewardTuples_ok p T bd (by omega) hbd (resetIfStart h p pools) bd
        (fun q hq => by
          obtain ⟨hok, q0, hq0, hs, hn⟩ := hpools1 q hq
          obtain ⟨m, h1, h2, h3, h4⟩ := hall q0 hq0
          rw [hTz] at h4
          exact ⟨hok.1, m, by rw [hs]; exact h1, h2, h3, by rw [hn]; omega⟩)
        (le_refl _)
      obtain ⟨rs, hrs, hrall⟩ := htup
      rw [bind_eq_of_ok _ hrs]
      exact applyRewards_ok p.distribute bd hbd _ rs (fun q hq => (hpools1 q hq).1) hrall

/-- the rewards half of the EndBlocker -/
theorem rewardsRun_ok (h : Int) (s : EState) (pools : List EPool) (haccu : s.accu < 2 ^ 254)
    (hrew : ∀ p ∈ s.rew, RewOKP p) (hpools : ∀ q ∈ pools, EPoolOKP q) (hsum : sumNb pools ≤ 2 ^ 200) :
    ∃ r, rewardsRun h s pools = .ok r := by
  unfold rewardsRun
  cases hf : findReward h s.rew with
  | none => exact ⟨_, rfl⟩
  | some p =>
    have hp := findReward_ok hrew hf
    simp only
    cases ha : p.alloc with
    | none => have := hp.alloc; rw [ha] at this; exact absurd this (by unfold optLe; simp)
    | some a =>
      have ha128 : a ≤ 2 ^ 128 - 1 := by have := hp.alloc; rw [ha] at this; exact this
      simp only
      by_cases h0 : a = 0
      · rw [if_pos h0]; exact ⟨_, rfl⟩
      · rw [if_neg h0]
        unfold rewardsWith
        obtain ⟨due, hdue⟩ := isDistBlock_ok h p.start p.mod hp.mod0 hp.mod64
        rw [bind_eq_of_ok _ hdue]
        -- the period length end − start + 1 (uint64) is not zero
        have hse := hp.se
        have he64 := hp.e64
        have hnw := hp.nowrap
        have hlen : wrapU64 ((wrapU64 ((p.end_ : Int) - p.start) : Int) + 1) ≠ 0 := by
          unfold wrapU64; rw [two64_val]
          have h64 : (2 : Nat) ^ 64 = 18446744073709551616 := by norm_num
          rw [h64] at he64 hnw
          omega
        have hcur : blockDistribution p a = .ok (a / wrapU64 ((wrapU64 ((p.end_ : Int) - p.start) : Int) + 1)) := by
          unfold blockDistribution Uint.quo; rw [if_neg hlen]
        rw [bind_eq_of_ok _ hcur]
        have hcur_le : a / wrapU64 ((wrapU64 ((p.end_ : Int) - p.start) : Int) + 1) ≤ a := Nat.div_le_self _ _
        have h254 : (2 : Nat) ^ 254 + (2 ^ 128 - 1) < 2 ^ 255 := by norm_num
        have hacc0 : accuKept h s.rew p s.accu ≤ s.accu := by
          unfold accuKept
          cases rewardAt (prevHeight h) s.rew with
          | none => exact Nat.zero_le _
          | some q => simp only; split_ifs <;> omega
        have hbd : accuKept h s.rew p s.accu + a / wrapU64 ((wrapU64 ((p.end_ : Int) - p.start) : Int) + 1) < 2 ^ 255 := by omega
        rw [bind_eq_of_ok _ (Uint_add_ok (lt_trans hbd two255_lt))]
        cases due with
        | false => exact ⟨_, rfl⟩
        | true =>
          obtain ⟨out, hout⟩ := distributeDepth_ok h p hp _ hbd pools hpools hsum
          simp only [if_true]
          rw [bind_eq_of_ok _ hout]
          exact ⟨_, rfl⟩

/-- x/clp/abci.go `EndBlocker`: no panic inside the envelope -/
theorem endBlock_ok (s : EState) (h : Int) (hinv : EInvP s) : ∃ s', endBlock s h = .ok s' := by
  obtain ⟨haccu, hlppd, hrew, hpools, hsum⟩ := hinv
  unfold endBlock
  obtain ⟨ps, hps, hsame⟩ := lppdRun_ok h s.lppd s.pools hlppd hpools
  rw [bind_eq_of_ok _ hps]
  obtain ⟨r, hr⟩ := rewardsRun_ok h s ps haccu hrew (hsame.ok hpools) (le_trans hsame.sum hsum)
  rw [bind_eq_of_ok _ hr]
  exact ⟨_, rfl⟩

end Sif.Proofs.C10
