import Sif.Proofs.C02Hooks
/-
  The running clamp of `CollectProviderDistribution`: the amounts handed to the providers of one
  pool never sum to more than the pool's distribution amount.
-/
namespace Sif.Clp
open Sif Sif.AList

def amtSum : List (String × Nat) → Nat
  | [] => 0
  | (_, a) :: t => a + amtSum t

theorem amtSum_append (l1 l2 : List (String × Nat)) : amtSum (l1 ++ l2) = amtSum l1 + amtSum l2 := by
  induction l1 with
  | nil => simp [amtSum]
  | cons hd t ih => obtain ⟨k, a⟩ := hd; simp [amtSum, ih]; omega

theorem amtSum_reverse (l : List (String × Nat)) : amtSum l.reverse = amtSum l := by
  induction l with
  | nil => rfl
  | cons hd t ih => obtain ⟨k, a⟩ := hd; simp [amtSum_append, amtSum, ih]; omega

/-- the clamp: final total ≤ cap, and the total is exactly what was handed out -/
theorem collectLoop_spec (rowanPd : Dec) (cap pu : Nat) :
    ∀ (lps : List LP) (total : Nat) (acc l : List (String × Nat)) (tot : Nat),
      total ≤ cap → total = amtSum acc →
      collectLoop rowanPd cap pu lps total acc = .ok (l, tot) → tot ≤ cap ∧ tot = amtSum l := by
  intro lps
  induction lps with
  | nil =>
    intro total acc l tot hle hs h
    unfold collectLoop at h
    cases h
    exact ⟨hle, by rw [amtSum_reverse]; exact hs⟩
  | cons lp rest ih =>
    intro total acc l tot hle hs h
    unfold collectLoop at h
    obtain ⟨a, _, h⟩ := bind_ok h
    obtain ⟨t, ht, h⟩ := bind_ok h
    have et := (Uint.add_ok ht).1
    split at h
    · obtain ⟨prev, hp, h⟩ := bind_ok h
      obtain ⟨a', ha', h⟩ := bind_ok h
      have ep := (Uint.sub_ok hp).1
      have ea := (Uint.sub_ok ha').1
      refine ih cap ((lp.addr, a') :: acc) l tot (Nat.le_refl _) ?_ h
      simp only [amtSum]; omega
    · refine ih t ((lp.addr, a) :: acc) l tot (by omega) ?_ h
      simp only [amtSum]; omega

theorem collectProviderDistribution_spec {rowanPd : Dec} {pu : Nat} {lps : List LP} {l : List (String × Nat)} {tot : Nat}
    (h : collectProviderDistribution rowanPd pu lps = .ok (l, tot)) :
    ∃ cap : Nat, (cap : Int) = rowanPd.roundInt ∧ tot ≤ cap ∧ tot = amtSum l := by
  unfold collectProviderDistribution at h
  obtain ⟨cap, hc, h⟩ := bind_ok h
  obtain ⟨e, _⟩ := Uint.ofInt_ok hc
  obtain ⟨h1, h2⟩ := collectLoop_spec rowanPd cap pu lps 0 [] l tot (Nat.zero_le _) rfl h
  exact ⟨cap, e, h1, h2⟩

end Sif.Clp
