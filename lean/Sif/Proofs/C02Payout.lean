import Sif.Proofs.DecError
import Sif.Proofs.RatFloor
import Sif.Model.Clp.Units
/-
  C02 — a removal pays out at most the pro-rata fraction of each side, up to one base unit plus
  10^-15 relative.
-/
namespace Sif.Clp
open Sif Sif.Dec

theorem decOfNatStr_i {n : Nat} {d : Dec} (h : decOfNatStr n = .ok d) : d.i = ((n * P : Nat) : Int) := by
  unfold decOfNatStr at h; exact chk_ok h

/-- one side of a withdrawal: `side.Quo(P.Quo(w))` rounded to an integer (either rounding mode)
    is at most side·w/P·(1 + 10^-15) + 1 -/
theorem side_quo_le {side Pu w : Nat} {q ws : Dec} (hw : 0 < w) (hwP : w ≤ Pu)
    (hq : (Dec.ofNat Pu).quo ⟨((w * P : Nat) : Int)⟩ = .ok q)
    (hs : (⟨((side * P : Nat) : Int)⟩ : Dec).quo q = .ok ws) :
    0 ≤ ws.i ∧ (ws.i : ℚ) / P + 1 / 2 ≤ (side : ℚ) * w / Pu * (1 + 1 / 10 ^ 15) + 1 := by
  have hp : (0 : ℚ) < (P : ℚ) := by exact_mod_cast P_pos
  have hPu : 0 < Pu := Nat.lt_of_lt_of_le hw hwP
  have hPuq : (0 : ℚ) < (Pu : ℚ) := by exact_mod_cast hPu
  have hwq : (0 : ℚ) < (w : ℚ) := by exact_mod_cast hw
  have hwPq : (w : ℚ) ≤ (Pu : ℚ) := by exact_mod_cast hwP
  have hsq : (0 : ℚ) ≤ (side : ℚ) := Nat.cast_nonneg _
  have ha : 0 ≤ (Dec.ofNat Pu).i := Int.natCast_nonneg _
  have hb : (0 : Int) < ((w * P : Nat) : Int) := by have := Nat.mul_pos hw P_pos; exact_mod_cast this
  obtain ⟨q0, q1, q2⟩ := quo_err (b := ⟨((w * P : Nat) : Int)⟩) ha hb hq
  -- x = Pu·10^18 / w ≥ 10^18
  have hx : ((Dec.ofNat Pu).i : ℚ) * P / (((w * P : Nat) : Int) : ℚ) = (Pu : ℚ) * P / w := by
    show (((Pu * P : Nat) : Int) : ℚ) * P / _ = _
    push_cast; field_simp
  rw [hx] at q1 q2
  have hxP : (P : ℚ) ≤ (Pu : ℚ) * P / w := by
    rw [le_div_iff₀ hwq]; nlinarith
  have hP2 : (2 : ℚ) ≤ P := by
    have : 2 ≤ P := by rw [P_val]; decide
    exact_mod_cast this
  have hinvP : (1 : ℚ) / P ≤ 1 / 2 := by rw [div_le_div_iff₀ hp (by norm_num)]; linarith
  -- q ≥ x − 1 > 0
  have hqlow : (Pu : ℚ) * P / w - 1 ≤ (q.i : ℚ) := by linarith
  have hqpos : (0 : ℚ) < (q.i : ℚ) := by linarith
  have hqposI : 0 < q.i := by exact_mod_cast hqpos
  have has : (0 : Int) ≤ ((side * P : Nat) : Int) := Int.natCast_nonneg _
  obtain ⟨s0, s1, _⟩ := quo_err (a := ⟨((side * P : Nat) : Int)⟩) has hqposI hs
  have hnum : ((((side * P : Nat) : Int) : ℚ)) * P / (q.i : ℚ) = (side : ℚ) * P * P / q.i := by push_cast; ring
  rw [hnum] at s1
  refine ⟨s0, ?_⟩
  -- 1/q ≤ 1/(x−1) ≤ (1/x)(1 + 2/x) ≤ (1/x)(1 + 2/P)
  set x : ℚ := (Pu : ℚ) * P / w with hxdef
  have hxpos : (0 : ℚ) < x := by linarith
  have hx2 : (2 : ℚ) ≤ x := by linarith
  have hfrac : (side : ℚ) * P * P / q.i ≤ (side : ℚ) * P * P / x * (1 + 2 / x) := by
    have h1 : (side : ℚ) * P * P / q.i ≤ (side : ℚ) * P * P / (x - 1) := by
      apply div_le_div_of_nonneg_left (by positivity) (by linarith) hqlow
    have h2 : (side : ℚ) * P * P / (x - 1) ≤ (side : ℚ) * P * P / x * (1 + 2 / x) := by
      have hx1 : (0 : ℚ) < x - 1 := by linarith
      rw [div_le_iff₀ hx1]
      have e : (side : ℚ) * P * P / x * (1 + 2 / x) * (x - 1) = (side : ℚ) * P * P * ((x + 2) * (x - 1) / (x * x)) := by
        field_simp
      rw [e]
      have : (1 : ℚ) ≤ (x + 2) * (x - 1) / (x * x) := by
        rw [le_div_iff₀ (by positivity)]; nlinarith
      nlinarith [mul_nonneg (mul_nonneg hsq hp.le) hp.le]
    linarith
  have hfair : (side : ℚ) * P * P / x = (side : ℚ) * w / Pu * P := by
    simp only [hxdef]; field_simp
  have h2x : (2 : ℚ) / x ≤ 2 / P := by
    apply div_le_div_of_nonneg_left (by norm_num) hp hxP
  have hfairn : (0 : ℚ) ≤ (side : ℚ) * w / Pu := by positivity
  -- assemble
  have hws : (ws.i : ℚ) ≤ (side : ℚ) * w / Pu * P * (1 + 2 / P) + 1 / 2 := by
    have : (side : ℚ) * P * P / x * (1 + 2 / x) ≤ (side : ℚ) * w / Pu * P * (1 + 2 / P) := by
      rw [hfair]
      apply mul_le_mul_of_nonneg_left _ (by positivity)
      linarith
    linarith
  have hdiv : (ws.i : ℚ) / P ≤ (side : ℚ) * w / Pu * (1 + 2 / P) + 1 / (2 * P) := by
    rw [div_le_iff₀ hp]
    have e : ((side : ℚ) * w / Pu * (1 + 2 / P) + 1 / (2 * P)) * P = (side : ℚ) * w / Pu * P * (1 + 2 / P) + 1 / 2 := by
      field_simp
    rw [e]; exact hws
  have h2P : (2 : ℚ) / P ≤ 1 / 10 ^ 15 := by
    rw [div_le_div_iff₀ hp (by positivity)]
    have : (P : ℚ) = 10 ^ 18 := by rw [P_val]; norm_num
    rw [this]; norm_num
  have hhalfP : (1 : ℚ) / (2 * P) ≤ 1 / 2 := by
    rw [div_le_div_iff₀ (by positivity) (by norm_num)]; linarith
  have : (side : ℚ) * w / Pu * (1 + 2 / P) ≤ (side : ℚ) * w / Pu * (1 + 1 / 10 ^ 15) := by
    apply mul_le_mul_of_nonneg_left _ hfairn; linarith
  linarith

end Sif.Clp

namespace Sif.Clp
open Sif Sif.Dec

/-- `CalculateWithdrawalFromUnits`: both payouts are at most the pro-rata fraction w/P of the depth,
    up to one base unit plus 10^-15 relative -/
theorem withdrawFromUnits_le_prorata {Pu nD eD lu w n e left : Nat} (hw : 0 < w) (hwP : w ≤ Pu)
    (h : calculateWithdrawalFromUnits Pu nD eD lu w = .ok (n, e, left)) :
    (n : ℚ) ≤ (nD : ℚ) * w / Pu * (1 + 1 / 10 ^ 15) + 1 ∧ (e : ℚ) ≤ (eD : ℚ) * w / Pu * (1 + 1 / 10 ^ 15) + 1 := by
  unfold calculateWithdrawalFromUnits at h
  obtain ⟨nF, hn, h⟩ := bind_ok h
  obtain ⟨eF, he, h⟩ := bind_ok h
  obtain ⟨luF, _, h⟩ := bind_ok h
  obtain ⟨wuF, hwu, h⟩ := bind_ok h
  obtain ⟨q, hq, h⟩ := bind_ok h
  obtain ⟨wE, hwE, h⟩ := bind_ok h
  obtain ⟨q', hq', h⟩ := bind_ok h
  obtain ⟨wN, hwN, h⟩ := bind_ok h
  obtain ⟨_, _, h⟩ := bind_ok h
  obtain ⟨n', hn', h⟩ := bind_ok h
  obtain ⟨e', he', h⟩ := bind_ok h
  obtain ⟨l', _, h⟩ := bind_ok h
  have : n' = n ∧ e' = e := by cases h; exact ⟨rfl, rfl⟩
  obtain ⟨rfl, rfl⟩ := this
  have en : nF = ⟨((nD * P : Nat) : Int)⟩ := by
    have := decOfNatStr_i hn; cases nF; simp_all
  have ee : eF = ⟨((eD * P : Nat) : Int)⟩ := by
    have := decOfNatStr_i he; cases eF; simp_all
  have ew : wuF = ⟨((w * P : Nat) : Int)⟩ := by
    have := decOfNatStr_i hwu; cases wuF; simp_all
  subst en ee ew
  obtain ⟨s0, s1⟩ := side_quo_le hw hwP hq' hwN
  obtain ⟨t0, t1⟩ := side_quo_le hw hwP hq hwE
  obtain ⟨rn0, rn1, _⟩ := roundInt_err s0
  obtain ⟨re0, re1, _⟩ := roundInt_err t0
  unfold roundToUint at hn' he'
  obtain ⟨cn, _⟩ := Uint.ofInt_ok hn'
  obtain ⟨ce, _⟩ := Uint.ofInt_ok he'
  have hnq : (n' : ℚ) = (wN.roundInt : ℚ) := by exact_mod_cast congrArg (fun z : Int => (z : ℚ)) cn
  have heq : (e' : ℚ) = (wE.roundInt : ℚ) := by exact_mod_cast congrArg (fun z : Int => (z : ℚ)) ce
  constructor
  · rw [hnq]; linarith
  · rw [heq]; linarith

/-- `CalculateWithdrawal` (basis points): with unitsToClaim = lpUnits / (10000 / wBasis) as computed
    by the code, both payouts are at most depth · unitsToClaim / P up to the same tolerance -/
theorem withdraw_side_bound {side Pu : Nat} {claim q ws : Dec} (hc : 0 < claim.i) (hcP : claim.i ≤ ((Pu * P : Nat) : Int))
    (hq : (Dec.ofNat Pu).quo claim = .ok q)
    (hs : (⟨((side * P : Nat) : Int)⟩ : Dec).quo q = .ok ws) :
    0 ≤ ws.i ∧ (ws.i : ℚ) / P ≤ (side : ℚ) * ((claim.i : ℚ) / P) / Pu * (1 + 1 / 10 ^ 15) + 1 / 2 := by
  have hp : (0 : ℚ) < (P : ℚ) := by exact_mod_cast P_pos
  have hcq : (0 : ℚ) < (claim.i : ℚ) := by exact_mod_cast hc
  have hPu : (0 : ℚ) < (Pu : ℚ) := by
    have : (0 : Int) < ((Pu * P : Nat) : Int) := lt_of_lt_of_le hc hcP
    have h2 : 0 < Pu * P := by exact_mod_cast this
    have h3 : 0 < Pu := Nat.pos_of_mul_pos_right h2
    exact_mod_cast h3
  have hcPq : (claim.i : ℚ) ≤ (Pu : ℚ) * P := by
    have := hcP
    have h2 : ((claim.i : Int) : ℚ) ≤ (((Pu * P : Nat) : Int) : ℚ) := by exact_mod_cast this
    push_cast at h2; exact h2
  have hsq : (0 : ℚ) ≤ (side : ℚ) := Nat.cast_nonneg _
  have ha : 0 ≤ (Dec.ofNat Pu).i := Int.natCast_nonneg _
  obtain ⟨q0, q1, q2⟩ := quo_err ha hc hq
  have hx : ((Dec.ofNat Pu).i : ℚ) * P / (claim.i : ℚ) = (Pu : ℚ) * P * P / claim.i := by
    show (((Pu * P : Nat) : Int) : ℚ) * P / _ = _
    push_cast; ring
  rw [hx] at q1 q2
  set x : ℚ := (Pu : ℚ) * P * P / claim.i with hxdef
  have hxP : (P : ℚ) ≤ x := by
    simp only [hxdef]; rw [le_div_iff₀ hcq]; nlinarith
  have hP2 : (2 : ℚ) ≤ P := by
    have : 2 ≤ P := by rw [P_val]; decide
    exact_mod_cast this
  have hinvP : (1 : ℚ) / P ≤ 1 / 2 := by rw [div_le_div_iff₀ hp (by norm_num)]; linarith
  have hqlow : x - 1 ≤ (q.i : ℚ) := by linarith
  have hqpos : (0 : ℚ) < (q.i : ℚ) := by linarith
  have hqposI : 0 < q.i := by exact_mod_cast hqpos
  have has : (0 : Int) ≤ ((side * P : Nat) : Int) := Int.natCast_nonneg _
  obtain ⟨s0, s1, _⟩ := quo_err (a := ⟨((side * P : Nat) : Int)⟩) has hqposI hs
  have hnum : ((((side * P : Nat) : Int) : ℚ)) * P / (q.i : ℚ) = (side : ℚ) * P * P / q.i := by push_cast; ring
  rw [hnum] at s1
  refine ⟨s0, ?_⟩
  have hxpos : (0 : ℚ) < x := by linarith
  have hx2 : (2 : ℚ) ≤ x := by linarith
  have hfrac : (side : ℚ) * P * P / q.i ≤ (side : ℚ) * P * P / x * (1 + 2 / x) := by
    have h1 : (side : ℚ) * P * P / q.i ≤ (side : ℚ) * P * P / (x - 1) := by
      apply div_le_div_of_nonneg_left (by positivity) (by linarith) hqlow
    have h2 : (side : ℚ) * P * P / (x - 1) ≤ (side : ℚ) * P * P / x * (1 + 2 / x) := by
      have hx1 : (0 : ℚ) < x - 1 := by linarith
      rw [div_le_iff₀ hx1]
      have e : (side : ℚ) * P * P / x * (1 + 2 / x) * (x - 1) = (side : ℚ) * P * P * ((x + 2) * (x - 1) / (x * x)) := by
        field_simp
      rw [e]
      have : (1 : ℚ) ≤ (x + 2) * (x - 1) / (x * x) := by
        rw [le_div_iff₀ (by positivity)]; nlinarith
      nlinarith [mul_nonneg (mul_nonneg hsq hp.le) hp.le]
    linarith
  have hfair : (side : ℚ) * P * P / x = (side : ℚ) * ((claim.i : ℚ) / P) / Pu * P := by
    simp only [hxdef]; field_simp
  have h2x : (2 : ℚ) / x ≤ 2 / P := div_le_div_of_nonneg_left (by norm_num) hp hxP
  have hfairn : (0 : ℚ) ≤ (side : ℚ) * ((claim.i : ℚ) / P) / Pu := by positivity
  have hws : (ws.i : ℚ) ≤ (side : ℚ) * ((claim.i : ℚ) / P) / Pu * P * (1 + 2 / P) + 1 / 2 := by
    have : (side : ℚ) * P * P / x * (1 + 2 / x) ≤ (side : ℚ) * ((claim.i : ℚ) / P) / Pu * P * (1 + 2 / P) := by
      rw [hfair]
      apply mul_le_mul_of_nonneg_left _ (by positivity)
      linarith
    linarith
  have hdiv : (ws.i : ℚ) / P ≤ (side : ℚ) * ((claim.i : ℚ) / P) / Pu * (1 + 2 / P) + 1 / (2 * P) := by
    rw [div_le_iff₀ hp]
    have e : ((side : ℚ) * ((claim.i : ℚ) / P) / Pu * (1 + 2 / P) + 1 / (2 * P)) * P
        = (side : ℚ) * ((claim.i : ℚ) / P) / Pu * P * (1 + 2 / P) + 1 / 2 := by
      field_simp
    rw [e]; exact hws
  have h2P : (2 : ℚ) / P ≤ 1 / 10 ^ 15 := by
    rw [div_le_div_iff₀ hp (by positivity)]
    have : (P : ℚ) = 10 ^ 18 := by rw [P_val]; norm_num
    rw [this]; norm_num
  have hhalfP : (1 : ℚ) / (2 * P) ≤ 1 / 2 := by
    rw [div_le_div_iff₀ (by positivity) (by norm_num)]; linarith
  have : (side : ℚ) * ((claim.i : ℚ) / P) / Pu * (1 + 2 / P) ≤ (side : ℚ) * ((claim.i : ℚ) / P) / Pu * (1 + 1 / 10 ^ 15) := by
    apply mul_le_mul_of_nonneg_left _ hfairn; linarith
  linarith

end Sif.Clp
