import Sif.Proofs.C13Iip
/-
  C13 helper lemmas, part 5: the pro-rated interest block, `ForceCloseLong`, and the message
  handlers Close / AdminClose / ForceClose / Open.
-/
namespace Sif.Margin
open Sif Sif.Spec.C13

theorem addBlockInterest_ok {w w' : W} {fin : Nat} (h : addBlockInterest w fin = .ok w') :
    w'.s = w.s ∧ w'.mtp = w.mtp ∧ w.pool.sameLedger w'.pool := by
  unfold addBlockInterest at h
  obtain ⟨b, _, h⟩ := bind_ok h
  have h := pure_ok h
  rw [← h]
  refine ⟨rfl, rfl, ?_⟩
  simp only []
  split
  · exact ⟨rfl, fun b => by cases b <;> rfl, fun b => by cases b <;> rfl⟩
  · exact ⟨rfl, fun b => by cases b <;> rfl, fun b => by cases b <;> rfl⟩

theorem addBlockInterest_err {w w' : W} {fin : Nat} {e : Err} (h : addBlockInterest w fin = .error (e, w')) : w' = w := by
  unfold addBlockInterest at h
  rcases bind_err h with h | ⟨b, _, h⟩
  · exact liftM_err h
  · simp [pure, Except.pure] at h

theorem addBlockInterest_good {w w' : W} {fin : Nat} (hg : Good w) (h : addBlockInterest w fin = .ok w') :
    Good w' ∧ w'.mtp.key = w.mtp.key ∧ w'.pool.sym = w.pool.sym := by
  obtain ⟨hs, hm, hp⟩ := addBlockInterest_ok h
  refine ⟨hg.congr (by rw [hs]; exact LedgerSame.refl _) hp (by rw [hm]; exact MtpSame.refl _), by rw [hm], hp.1⟩

theorem interestBlock_good {fx : Fixes} (hfx : fx.iipCopy = true) {w w' : W} (hg : Good w) (h : interestBlock fx w = .ok w') :
    Good w' ∧ w'.mtp.key = w.mtp.key ∧ w'.pool.sym = w.pool.sym := by
  unfold interestBlock at h
  split at h
  · obtain ⟨ip, _, h⟩ := bind_ok h
    obtain ⟨fw, hfw, h⟩ := bind_ok h
    obtain ⟨w1, hw1, h⟩ := bind_ok h
    obtain ⟨hh, _, h⟩ := bind_ok h
    have h := pure_ok h
    obtain ⟨g1, k1, s1⟩ := (handleInterestPayment_good hfx hg).1 fw hfw
    obtain ⟨g2, k2, s2⟩ := addBlockInterest_good g1 hw1
    rw [← h]
    exact ⟨g2.congr (LedgerSame.refl _) (Pool.sameLedger_refl _) ⟨rfl, rfl, rfl, rfl, rfl, rfl⟩, k2.trans k1, s2.trans s1⟩
  · simp at h; rw [← h]; exact ⟨hg, rfl, rfl⟩

theorem forceCloseLong_good {fx : Fixes} (hfx : fx.iipCopy = true) {w w' : W} {a t : Bool} {r : Nat} (hg : Good w)
    (h : forceCloseLong fx w a t = .ok (r, w')) :
    OKp w'.s ∧ WFp w'.s ∧ getMtpL w'.s.mtps w.mtp.key = none := by
  unfold forceCloseLong at h
  obtain ⟨w1, hw1, h⟩ := bind_ok h
  obtain ⟨_, _, h⟩ := bind_ok h
  obtain ⟨g1, k1, _⟩ := interestBlock_good hfx hg hw1
  have := closeTail_good g1 h
  rw [k1] at this
  exact this

/-- a world built from a stored position and its stored pool is good -/
theorem Good.of_lookup {s : State} {m : Mtp} {p : Pool} {a : Addr} {id : Nat} (hok : OKp s) (hwf : WFp s)
    (hm : s.getMtp a id = .ok m) (hp : s.getPool m.poolSym = .ok p) : Good { s := s, pool := p, mtp := m } ∧ m.key = (a, id) := by
  unfold State.getMtp at hm
  unfold State.getPool at hp
  split at hm
  · rename_i m' hm'
    simp at hm; subst hm
    split at hp
    · rename_i p' hp'
      simp at hp; subst hp
      obtain ⟨_, hk⟩ := getMtpL_some_mem hm'
      obtain ⟨_, hps⟩ := getPoolL_some hp'
      refine ⟨⟨hok, hwf, ⟨p', by simpa [hps] using hp', fun _ => rfl, fun _ => rfl⟩, ⟨m', by simpa [hk] using hm', MtpSame.refl _⟩, hps.symm⟩, hk⟩
    · simp at hp
  · simp at hm

theorem closeMsg_good {fx : Fixes} (hfx : fx.iipCopy = true) {s : State} {a : Addr} {id : Nat} {r : Nat × W}
    (hok : OKp s) (hwf : WFp s) (h : closeMsg fx s a id = .ok r) :
    OKp r.2.s ∧ WFp r.2.s ∧ getMtpL r.2.s.mtps (a, id) = none := by
  unfold closeMsg at h
  obtain ⟨m, hm, h⟩ := bind_ok h
  obtain ⟨_, _, h⟩ := bind_ok h
  obtain ⟨p, hp, h⟩ := bind_ok h
  have h := dropW_ok h
  obtain ⟨w1, hw1, h⟩ := bind_ok h
  obtain ⟨hg, hk⟩ := Good.of_lookup hok hwf hm hp
  obtain ⟨g1, k1, _⟩ := interestBlock_good hfx hg hw1
  obtain ⟨r1, r2⟩ := r
  have := closeTail_good g1 h
  rw [k1] at this
  simp only [] at this
  rw [hk] at this
  exact this

theorem adminCloseMsg_good {fx : Fixes} (hfx : fx.iipCopy = true) {s : State} {signer a : Addr} {id : Nat} {t : Bool} {r : Nat × W}
    (hok : OKp s) (hwf : WFp s) (h : adminCloseMsg fx s signer a id t = .ok r) :
    OKp r.2.s ∧ WFp r.2.s ∧ getMtpL r.2.s.mtps (a, id) = none ∧ s.admins.contains signer = true := by
  unfold adminCloseMsg at h
  obtain ⟨_, hadm, h⟩ := bind_ok h
  obtain ⟨m, hm, h⟩ := bind_ok h
  obtain ⟨_, _, h⟩ := bind_ok h
  obtain ⟨p, hp, h⟩ := bind_ok h
  have h := dropW_ok h
  obtain ⟨hg, hk⟩ := Good.of_lookup hok hwf hm hp
  obtain ⟨r1, r2⟩ := r
  have := forceCloseLong_good hfx hg h
  simp only [] at this
  rw [hk] at this
  exact ⟨this.1, this.2.1, this.2.2, ensure_ok hadm⟩

end Sif.Margin
