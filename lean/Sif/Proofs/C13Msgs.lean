import Sif.Proofs.C13Iip
/-
  C13 helper lemmas, part 5: the pro-rated interest block, `ForceCloseLong`, and the message
  handlers Close / AdminClose / ForceClose / Open.
-/
namespace Sif.Margin
open Sif Sif.Spec.C13

theorem addBlockInterest_ok {w w' : W} {fin : Nat} (h : addBlockInterest w fin = .ok w') :
    w'.s = w.s ∧ w'.mtp = w.mtp ∧ w.pool.sameLedger w'.pool := by
  unfold addBlockInterest at h
  obtain ⟨b, _, h⟩ := bind_ok h
  have h := pure_ok h
  rw [← h]
  refine ⟨rfl, rfl, ?_⟩
  simp only []
  split
  · exact ⟨rfl, fun b => by cases b <;> rfl, fun b => by cases b <;> rfl⟩
  · exact ⟨rfl, fun b => by cases b <;> rfl, fun b => by cases b <;> rfl⟩

theorem addBlockInterest_err {w w' : W} {fin : Nat} {e : Err} (h : addBlockInterest w fin = .error (e, w')) : w' = w := by
  unfold addBlockInterest at h
  rcases bind_err h with h | ⟨b, _, h⟩
  · exact liftM_err h
  · simp [pure, Except.pure] at h

theorem addBlockInterest_good {w w' : W} {fin : Nat} (hg : Good w) (h : addBlockInterest w fin = .ok w') :
    Good w' ∧ w'.mtp.key = w.mtp.key ∧ w'.pool.sym = w.pool.sym ∧ w'.s = w.s := by
  obtain ⟨hs, hm, hp⟩ := addBlockInterest_ok h
  refine ⟨hg.congr (by rw [hs]; exact LedgerSame.refl _) hp (by rw [hm]; exact MtpSame.refl _), by rw [hm], hp.1, hs⟩

theorem interestBlock_good {fx : Fixes} (hfx : fx.iipCopy = true) {w w' : W} (hg : Good w) (h : interestBlock fx w = .ok w') :
    Good w' ∧ w'.mtp.key = w.mtp.key ∧ w'.pool.sym = w.pool.sym ∧ Frame w.s w'.s w.mtp.key w.pool.sym := by
  unfold interestBlock at h
  split at h
  · obtain ⟨ip, _, h⟩ := bind_ok h
    obtain ⟨fw, hfw, h⟩ := bind_ok h
    obtain ⟨w1, hw1, h⟩ := bind_ok h
    obtain ⟨hh, _, h⟩ := bind_ok h
    have h := pure_ok h
    obtain ⟨g1, k1, s1, f1⟩ := (handleInterestPayment_good hfx hg).1 fw hfw
    obtain ⟨g2, k2, s2, e2⟩ := addBlockInterest_good g1 hw1
    rw [← h]
    refine ⟨g2.congr (LedgerSame.refl _) (Pool.sameLedger_refl _) ⟨rfl, rfl, rfl, rfl, rfl, rfl⟩, k2.trans k1, s2.trans s1, ?_⟩
    simp only []; rw [e2]; exact f1
  · simp at h; rw [← h]; exact ⟨hg, rfl, rfl, Frame.refl _ _ _⟩

theorem forceCloseLong_good {fx : Fixes} (hfx : fx.iipCopy = true) {w w' : W} {a t : Bool} {r : Nat} (hg : Good w)
    (h : forceCloseLong fx w a t = .ok (r, w')) :
    OKp w'.s ∧ WFp w'.s ∧ getMtpL w'.s.mtps w.mtp.key = none ∧ Frame w.s w'.s w.mtp.key w.pool.sym ∧
      getPoolL w'.s.pools w'.pool.sym = some w'.pool ∧ w'.pool.sym = w.pool.sym := by
  unfold forceCloseLong at h
  obtain ⟨w1, hw1, h⟩ := bind_ok h
  obtain ⟨_, _, h⟩ := bind_ok h
  obtain ⟨g1, k1, s1, f1⟩ := interestBlock_good hfx hg hw1
  have := closeTail_good g1 h
  rw [k1] at this
  obtain ⟨t1, t2, t3, t4, t5, t6, t7⟩ := this
  refine ⟨t1, t2, t3, ⟨?_, ?_, t7.trans f1.count⟩, ?_, t6.trans s1⟩
  · intro k' hk'
    rw [t4, getMtpL_del_other _ hk']
    exact f1.mtps k' hk'
  · intro y hy
    rw [t5, getPoolL_setPoolL_other _ (by rw [t6, s1]; exact hy)]
    exact f1.pools y hy
  · rw [t5]; exact getPoolL_set _ _

/-- a world built from a stored position and its stored pool is good -/
theorem Good.of_lookup {s : State} {m : Mtp} {p : Pool} {a : Addr} {id : Nat} (hok : OKp s) (hwf : WFp s)
    (hm : s.getMtp a id = .ok m) (hp : s.getPool m.poolSym = .ok p) : Good { s := s, pool := p, mtp := m } ∧ m.key = (a, id) := by
  unfold State.getMtp at hm
  unfold State.getPool at hp
  split at hm
  · rename_i m' hm'
    simp at hm; subst hm
    split at hp
    · rename_i p' hp'
      simp at hp; subst hp
      obtain ⟨_, hk⟩ := getMtpL_some_mem hm'
      obtain ⟨_, hps⟩ := getPoolL_some hp'
      refine ⟨⟨hok, hwf, ⟨p', by simpa [hps] using hp', fun _ => rfl, fun _ => rfl⟩, ⟨m', by simpa [hk] using hm', MtpSame.refl _⟩, hps.symm⟩, hk⟩
    · simp at hp
  · simp at hm

theorem closeMsg_good {fx : Fixes} (hfx : fx.iipCopy = true) {s : State} {a : Addr} {id : Nat} {r : Nat × W}
    (hok : OKp s) (hwf : WFp s) (h : closeMsg fx s a id = .ok r) :
    OKp r.2.s ∧ WFp r.2.s ∧ getMtpL r.2.s.mtps (a, id) = none ∧ r.2.s.mtpCount = s.mtpCount ∧
      (∀ k, k ≠ (a, id) → getMtpL r.2.s.mtps k = getMtpL s.mtps k) ∧
      (∃ sym, ∀ y, y ≠ sym → getPoolL r.2.s.pools y = getPoolL s.pools y) := by
  unfold closeMsg at h
  obtain ⟨m, hm, h⟩ := bind_ok h
  obtain ⟨_, _, h⟩ := bind_ok h
  obtain ⟨p, hp, h⟩ := bind_ok h
  have h := dropW_ok h
  obtain ⟨w1, hw1, h⟩ := bind_ok h
  obtain ⟨hg, hk⟩ := Good.of_lookup hok hwf hm hp
  obtain ⟨g1, k1, _, f1⟩ := interestBlock_good hfx hg hw1
  obtain ⟨r1, r2⟩ := r
  have := closeTail_good g1 h
  rw [k1] at this
  simp only [] at this
  rw [hk] at this
  obtain ⟨_, _, sy1, _⟩ := interestBlock_good hfx hg hw1
  refine ⟨this.1, this.2.1, this.2.2.1, this.2.2.2.2.2.2.trans f1.count, ?_, ⟨p.sym, ?_⟩⟩
  · intro k hk'
    rw [this.2.2.2.1, getMtpL_del_other _ hk']
    exact f1.mtps k (by rw [hk]; exact hk')
  · intro y hy
    rw [this.2.2.2.2.1, getPoolL_setPoolL_other _ (by rw [this.2.2.2.2.2.1, sy1]; exact hy)]
    exact f1.pools y hy

theorem adminCloseMsg_good {fx : Fixes} (hfx : fx.iipCopy = true) {s : State} {signer a : Addr} {id : Nat} {t : Bool} {r : Nat × W}
    (hok : OKp s) (hwf : WFp s) (h : adminCloseMsg fx s signer a id t = .ok r) :
    OKp r.2.s ∧ WFp r.2.s ∧ getMtpL r.2.s.mtps (a, id) = none ∧ s.admins.contains signer = true ∧
      r.2.s.mtpCount = s.mtpCount ∧ (∀ k, k ≠ (a, id) → getMtpL r.2.s.mtps k = getMtpL s.mtps k) ∧
      (∃ sym, ∀ y, y ≠ sym → getPoolL r.2.s.pools y = getPoolL s.pools y) := by
  unfold adminCloseMsg at h
  obtain ⟨_, hadm, h⟩ := bind_ok h
  obtain ⟨m, hm, h⟩ := bind_ok h
  obtain ⟨_, _, h⟩ := bind_ok h
  obtain ⟨p, hp, h⟩ := bind_ok h
  have h := dropW_ok h
  obtain ⟨hg, hk⟩ := Good.of_lookup hok hwf hm hp
  obtain ⟨r1, r2⟩ := r
  have := forceCloseLong_good hfx hg h
  simp only [] at this
  rw [hk] at this
  exact ⟨this.1, this.2.1, this.2.2.1, ensure_ok hadm, this.2.2.2.1.count, this.2.2.2.1.mtps, ⟨p.sym, this.2.2.2.1.pools⟩⟩

end Sif.Margin

namespace Sif.Margin
open Sif Sif.Spec.C13

/-- `Borrow` of a new position (id 0): what is stored and how the pool's liabilities move -/
theorem borrow_ok {w w' : W} {ca : Asset} {amt cust : Nat} {eta : Dec} (hid : w.mtp.id = 0)
    (h : borrow w ca amt cust eta = .ok w') :
    ∃ la, w'.mtp.addr = w.mtp.addr ∧ w'.mtp.id = (w.s.mtpCount + 1) % u64 ∧ w'.mtp.coll = w.mtp.coll ∧
      w'.mtp.cust = w.mtp.cust ∧ w'.mtp.pos = w.mtp.pos ∧ w'.mtp.liab = w.mtp.liab + la ∧
      w'.mtp.custody = w.mtp.custody + cust ∧
      w'.pool.sym = w.pool.sym ∧ (∀ b, w'.pool.cust b = w.pool.cust b) ∧
      (∀ b, w'.pool.liab b = if b = isNative w.mtp.coll then w.pool.liab b + w'.mtp.liab else w.pool.liab b) ∧
      w'.s.pools = setPoolL w.s.pools w'.pool ∧ w'.s.mtps = setMtpL w.s.mtps w'.mtp ∧
      w'.s.mtpCount = (w.s.mtpCount + 1) % u64 ∧ w'.s.openCount = (w.s.openCount + 1) % u64 := by
  unfold borrow at h
  obtain ⟨_, _, h⟩ := bind_ok h
  obtain ⟨liabDec, _, h⟩ := bind_ok h
  obtain ⟨c1, _, h⟩ := bind_ok h
  obtain ⟨la, _, h⟩ := bind_ok h
  obtain ⟨l1, hl1, h⟩ := bind_ok h
  obtain ⟨cu, hcu, h⟩ := bind_ok h
  obtain ⟨lev, _, h⟩ := bind_ok h
  obtain ⟨hh, _, h⟩ := bind_ok h
  obtain ⟨bank, _, h⟩ := bind_ok h
  obtain ⟨b, _, h⟩ := bind_ok h
  obtain ⟨l, hl, h⟩ := bind_ok h
  have hl1' := uadd_ok (liftM_ok hl1)
  have hcu' := uadd_ok (liftM_ok hcu)
  have hl' := uadd_ok (liftM_ok hl)
  simp only [] at hl1' hcu' hl'
  have h' := storeMtp_ok_new (by exact hid) h
  simp only [] at h'
  rw [h']
  refine ⟨la, rfl, rfl, rfl, rfl, rfl, hl1', hcu', by simp, ?_, ?_, rfl, rfl, rfl, rfl⟩
  · intro b'; simp
  · intro b'
    simp only [storePool_pool, liab_setLiab, liab_setBal]
    by_cases hb : b' = isNative w.mtp.coll
    · subst hb; simp; rw [hl']; simp
    · simp [hb]

/-- `Open`: the new position and its pool move together -/
theorem openMsg_good {fx : Fixes} (hfx : fx.openPair = true) {s : State} {msg : MsgOpen} {w : W}
    (hok : OKp s) (hwf : WFp s) (hcnt : s.mtpCount + 1 < u64) (h : openMsg fx s msg = .ok w) :
    OKp w.s ∧ WFp w.s ∧ getMtpL w.s.mtps w.mtp.key = some w.mtp ∧ getPoolL w.s.pools w.mtp.poolSym = some w.pool ∧
      (∃ lr, updateMTPHealth w.s w.mtp w.pool = .ok lr ∧ w.s.params.safetyFactor < lr) ∧
      w.mtp.key = (msg.signer, s.mtpCount + 1) ∧ w.s.mtpCount = s.mtpCount + 1 ∧
      (∀ k, k ≠ w.mtp.key → getMtpL w.s.mtps k = getMtpL s.mtps k) := by
  unfold openMsg at h
  obtain ⟨_, _, h⟩ := bind_ok h
  obtain ⟨_, _, h⟩ := bind_ok h
  obtain ⟨_, _, h⟩ := bind_ok h
  obtain ⟨_, _, h⟩ := bind_ok h
  obtain ⟨_, _, h⟩ := bind_ok h
  obtain ⟨_, hposition, h⟩ := bind_ok h
  unfold openLong at h
  obtain ⟨eta, _, h⟩ := bind_ok h
  obtain ⟨_, _, h⟩ := bind_ok h
  obtain ⟨pool, hpool, h⟩ := bind_ok h
  obtain ⟨_, _, h⟩ := bind_ok h
  obtain ⟨levDec, _, h⟩ := bind_ok h
  obtain ⟨levAmt, _, h⟩ := bind_ok h
  obtain ⟨_, _, h⟩ := bind_ok h
  obtain ⟨_, _, h⟩ := bind_ok h
  obtain ⟨custody, _, h⟩ := bind_ok h
  obtain ⟨_, _, h⟩ := bind_ok h
  obtain ⟨_, hpair, h⟩ := bind_ok h
  have h := dropW_ok h
  unfold openWrites at h
  obtain ⟨w1, hw1, h⟩ := bind_ok h
  obtain ⟨w2, hw2, h⟩ := bind_ok h
  obtain ⟨w3, hw3, h⟩ := bind_ok h
  obtain ⟨lr, hlr, h⟩ := bind_ok h
  obtain ⟨_, hsafe, h⟩ := bind_ok h
  have h := pure_ok h
  subst h
  have hlr := liftE_ok hlr
  have hsafe := ensure_ok (liftE_ok hsafe)
  have hposition := ensure_ok hposition
  have hpair := ensure_ok hpair
  simp only [hfx, Bool.not_true, Bool.false_or] at hpair
  simp at hposition
  -- the pool
  have hp0 : getPoolL s.pools (if isNative msg.coll then msg.borrow else msg.coll) = some pool := by
    unfold State.getPool at hpool
    split at hpool
    · rename_i p hp; simp at hpool; rw [← hpool]; exact hp
    · simp at hpool
  obtain ⟨_, hpsym⟩ := getPoolL_some hp0
  -- the three writes
  obtain ⟨la, ha, hid1, hcoll, hcust, hpos, hliab, hcustody, hsym1, hc1, hl1, hpools1, hmtps1, hmc1, hoc1⟩ :=
    borrow_ok (by rfl) hw1
  obtain ⟨hh, rfl⟩ := updatePoolHealth_ok hw2
  obtain ⟨c3, b3, hc3, hw3e⟩ := takeInCustody_ok hw3
  simp only [newMtp] at ha hid1 hcoll hcust hpos hliab hcustody hmc1 hoc1 hc1 hl1
  have hM3 : w3.mtp = w1.mtp := by rw [hw3e]; rfl
  have hP : w3.s.pools = setPoolL s.pools w3.pool := by
    rw [hw3e]
    simp only [storePool_pools, storePool_pool]
    rw [setPoolL_collapse _ _ _ (by simp), hpools1, setPoolL_collapse _ _ _ (by simp)]
  have hMs : w3.s.mtps = setMtpL s.mtps w1.mtp := by rw [hw3e]; simp only [storePool_mtps]; exact hmtps1
  have hOC3 : w3.s.openCount = w1.s.openCount := by rw [hw3e]; rfl
  have hMC3 : w3.s.mtpCount = w1.s.mtpCount := by rw [hw3e]; rfl
  have hS3 : w3.pool.sym = pool.sym := by rw [hw3e]; simp [hsym1]
  have hC3 : ∀ b, w3.pool.cust b = if b = isNative w1.mtp.cust then pool.cust b + w1.mtp.custody else pool.cust b := by
    intro b
    rw [hw3e]
    simp only [storePool_pool, storePool_mtp, cust_setCust, cust_setBal, cust_health] at hc3 ⊢
    rw [hc3, hc1]
    by_cases hb : b = isNative w1.mtp.cust
    · subst hb; simp
    · simp [hb, hc1]
  have hL3 : ∀ b, w3.pool.liab b = w1.pool.liab b := by
    intro b; rw [hw3e]; simp
  have hhealth : ∃ lr, updateMTPHealth w3.s w3.mtp w3.pool = .ok lr ∧ w3.s.params.safetyFactor < lr := by
    refine ⟨lr, hlr, ?_⟩
    simp only [Bool.not_eq_true', decide_eq_false_iff_not] at hsafe
    show w3.s.params.safetyFactor.i < lr.i
    have : ¬ lr.i ≤ w3.s.params.safetyFactor.i := hsafe
    omega
  unfold OKp
  rw [hP, hMs, hOC3]
  have hoc : s.openCount + 1 < u64 := by
    have := hok.count; have := hwf.len; omega
  have hmc1' : w1.s.mtpCount = s.mtpCount + 1 := by rw [hmc1]; exact Nat.mod_eq_of_lt hcnt
  have hoc1' : w1.s.openCount = s.openCount + 1 := by rw [hoc1]; exact Nat.mod_eq_of_lt hoc
  have hid1' : w1.mtp.id = s.mtpCount + 1 := by rw [hid1]; exact Nat.mod_eq_of_lt hcnt
  have hnone : getMtpL s.mtps w1.mtp.key = none := by
    rw [getMtpL_none]
    intro x hx hk
    have := (hwf.ids x hx).1
    have hk2 : x.id = w1.mtp.id := by unfold Mtp.key at hk; exact (Prod.mk.inj hk).2
    omega
  have hnsym : w1.mtp.poolSym = pool.sym := by
    unfold Mtp.poolSym; rw [hcoll, hcust, hpsym]
  refine ⟨?_, ?_, ?_, ?_, hhealth, ?_, by rw [hMC3, hmc1'], fun k hk => getMtpL_setMtpL_other _ (by rw [← hM3]; exact hk)⟩
  · rw [hoc1']
    apply OKc_trans (sym := pool.sym) (p0 := pool) (old := none) (new := some w1.mtp) hok hwf.syms (by rw [hpsym]; exact hp0)
      hS3 (Trans.add hnone)
    · intro o ho; cases ho
    · intro n hn; cases hn; exact hnsym
    · intro b
      simp only [Option.map_none, Option.getD_none, Option.map_some, Option.getD_some, custOf_eq _ _ _ hnsym, Nat.add_zero]
      rw [hC3 b]
      by_cases hb : b = isNative w1.mtp.cust
      · simp [hb]
      · simp [hb]
    · intro b
      simp only [Option.map_none, Option.getD_none, Option.map_some, Option.getD_some, liabOf_eq _ _ _ hnsym,
        Nat.add_zero, hL3 b, hl1, hcoll]
      by_cases hb : b = isNative msg.coll
      · simp [hb]
      · simp [hb]
    · simp
  · apply WFp_of hwf
    · rw [hP]
      exact syms_setPoolL (p0 := pool) (by rw [hS3, hpsym]; exact hp0)
    · rw [hMs, setMtpL_absent hnone]
      have hperm := keys_insert_perm s.mtps w1.mtp
      rw [hperm.nodup_iff, List.nodup_cons]
      refine ⟨?_, hwf.keys⟩
      intro hmem
      simp only [List.mem_map] at hmem
      obtain ⟨x, hx, hxk⟩ := hmem
      exact (getMtpL_none.mp hnone) x hx hxk
    · intro m hm
      rw [hMs, setMtpL_absent hnone] at hm
      rw [hMC3, hmc1']
      rcases mem_insert.mp hm with rfl | hm
      · refine ⟨by omega, by omega, ?_, by rw [hpos]; exact hposition⟩
        unfold pairOK; rw [hcoll, hcust]; exact hpair
      · have := hwf.ids m hm
        exact ⟨by omega, this.2.1, this.2.2.1, this.2.2.2⟩
    · rw [hMs, setMtpL_absent hnone, length_insert, hMC3, hmc1']
      have := hwf.len; omega
    · rw [hMC3, hmc1']; exact hcnt
  · rw [hM3, setMtpL_absent hnone]; exact getMtpL_insert_self hnone
  · rw [hM3, hnsym, ← hS3]; exact getPoolL_set _ _
  · rw [hM3]; unfold Mtp.key; rw [ha, hid1']

end Sif.Margin
