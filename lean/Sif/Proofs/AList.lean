import Sif.Base.AList
/- Lookup and sum lemmas for association lists (core tactics only). -/
namespace Sif.AList
variable {α : Type}

@[simp] theorem get_nil (k : String) : get ([] : AList α) k = none := rfl

theorem get_cons (k' : String) (v : α) (t : AList α) (k : String) :
    get ((k', v) :: t) k = if k' = k then some v else get t k := rfl

theorem contains_iff (l : AList α) (k : String) : l.contains k = true ↔ ∃ v, l.get k = some v := by
  unfold contains
  cases h : l.get k <;> simp

theorem get_replace_self (l : AList α) (k : String) (v : α) (h : l.contains k = true) :
    (l.replace k v).get k = some v := by
  induction l with
  | nil => simp [contains, get] at h
  | cons hd t ih =>
    obtain ⟨k', v'⟩ := hd
    unfold replace
    by_cases hk : k' = k
    · simp [hk, get_cons]
    · simp only [hk, if_false, get_cons]
      apply ih
      simpa [contains, get_cons, hk] using h

theorem get_replace_ne (l : AList α) (k k2 : String) (v : α) (hne : k ≠ k2) :
    (l.replace k v).get k2 = l.get k2 := by
  induction l with
  | nil => rfl
  | cons hd t ih =>
    obtain ⟨k', v'⟩ := hd
    unfold replace
    by_cases hk : k' = k
    · subst hk
      simp [get_cons, hne]
    · simp only [hk, if_false, get_cons, ih]

theorem get_insert_self (l : AList α) (k : String) (v : α) (h : l.get k = none) :
    (l.insert k v).get k = some v := by
  induction l with
  | nil => simp [insert, get_cons]
  | cons hd t ih =>
    obtain ⟨k', v'⟩ := hd
    have hk : k' ≠ k := by
      intro e; simp [get_cons, e] at h
    have ht : get t k = none := by simpa [get_cons, hk] using h
    unfold insert
    split
    · simp [get_cons]
    · simp [get_cons, hk, ih ht]

theorem get_insert_ne (l : AList α) (k k2 : String) (v : α) (hne : k ≠ k2) :
    (l.insert k v).get k2 = l.get k2 := by
  induction l with
  | nil => simp [insert, get_cons, hne]
  | cons hd t ih =>
    obtain ⟨k', v'⟩ := hd
    unfold insert
    split
    · simp [get_cons, hne]
    · simp [get_cons, ih]

theorem get_set_self (l : AList α) (k : String) (v : α) : (l.set k v).get k = some v := by
  unfold set
  split
  · exact get_replace_self l k v ‹_›
  · apply get_insert_self
    cases h : l.get k with
    | none => rfl
    | some x => simp [contains, h] at *

theorem get_set_ne (l : AList α) (k k2 : String) (v : α) (hne : k ≠ k2) : (l.set k v).get k2 = l.get k2 := by
  unfold set
  split
  · exact get_replace_ne l k k2 v hne
  · exact get_insert_ne l k k2 v hne

theorem get_set (l : AList α) (k k2 : String) (v : α) :
    (l.set k v).get k2 = if k = k2 then some v else l.get k2 := by
  by_cases h : k = k2
  · subst h; simp [get_set_self]
  · simp [h, get_set_ne l k k2 v h]

theorem get_erase_ne (l : AList α) (k k2 : String) (hne : k ≠ k2) : (l.erase k).get k2 = l.get k2 := by
  induction l with
  | nil => rfl
  | cons hd t ih =>
    obtain ⟨k', v'⟩ := hd
    unfold erase
    by_cases hk : k' = k
    · subst hk; simp [get_cons, hne]
    · simp [hk, get_cons, ih]

/-! sums -/

theorem sumBy_replace (f : α → Nat) (l : AList α) (k : String) (v o : α) (h : l.get k = some o) :
    sumBy f (l.replace k v) + f o = sumBy f l + f v := by
  induction l with
  | nil => simp at h
  | cons hd t ih =>
    obtain ⟨k', v'⟩ := hd
    unfold replace
    by_cases hk : k' = k
    · have : v' = o := by simpa [get_cons, hk] using h
      subst this
      simp only [hk, if_true, sumBy]; omega
    · have ht : get t k = some o := by simpa [get_cons, hk] using h
      have := ih ht
      simp only [hk, if_false, sumBy]; omega

theorem sumBy_insert (f : α → Nat) (l : AList α) (k : String) (v : α) :
    sumBy f (l.insert k v) = sumBy f l + f v := by
  induction l with
  | nil => simp [insert, sumBy]
  | cons hd t ih =>
    obtain ⟨k', v'⟩ := hd
    unfold insert
    split
    · simp only [sumBy]; omega
    · simp only [sumBy, ih]; omega

theorem sumBy_set_present (f : α → Nat) (l : AList α) (k : String) (v o : α) (h : l.get k = some o) :
    sumBy f (l.set k v) + f o = sumBy f l + f v := by
  unfold set
  have : l.contains k = true := by simp [contains, h]
  simp only [this, if_true]
  exact sumBy_replace f l k v o h

theorem sumBy_set_absent (f : α → Nat) (l : AList α) (k : String) (v : α) (h : l.get k = none) :
    sumBy f (l.set k v) = sumBy f l + f v := by
  unfold set
  have : l.contains k = false := by simp [contains, h]
  simp only [this]
  exact sumBy_insert f l k v

theorem sumBy_erase_present (f : α → Nat) (l : AList α) (k : String) (o : α) (h : l.get k = some o) :
    sumBy f (l.erase k) + f o = sumBy f l := by
  induction l with
  | nil => simp at h
  | cons hd t ih =>
    obtain ⟨k', v'⟩ := hd
    unfold erase
    by_cases hk : k' = k
    · have : v' = o := by simpa [get_cons, hk] using h
      subst this
      simp only [hk, if_true, sumBy]; omega
    · have ht : get t k = some o := by simpa [get_cons, hk] using h
      have := ih ht
      simp only [hk, if_false, sumBy]; omega

theorem sumBy_erase_absent (f : α → Nat) (l : AList α) (k : String) (h : l.get k = none) :
    sumBy f (l.erase k) = sumBy f l := by
  induction l with
  | nil => rfl
  | cons hd t ih =>
    obtain ⟨k', v'⟩ := hd
    unfold erase
    by_cases hk : k' = k
    · simp [get_cons, hk] at h
    · have ht : get t k = none := by simpa [get_cons, hk] using h
      simp only [hk, if_false, sumBy, ih ht]

end Sif.AList

namespace Sif.AList
variable {α : Type}

/-- no key is stored twice -/
def NodupKeys (l : AList α) : Prop := l.keys.Nodup

theorem nodupKeys_nil : NodupKeys ([] : AList α) := List.nodup_nil

theorem keys_replace (l : AList α) (k : String) (v : α) : (l.replace k v).keys = l.keys := by
  induction l with
  | nil => rfl
  | cons hd t ih =>
    obtain ⟨k', v'⟩ := hd
    unfold replace
    by_cases hk : k' = k
    · simp [hk, keys]
    · simp only [hk, if_false]
      simp only [keys, List.map_cons] at ih ⊢
      rw [ih]

theorem mem_keys_of_get {l : AList α} {k : String} {v : α} (h : l.get k = some v) : k ∈ l.keys := by
  induction l with
  | nil => simp at h
  | cons hd t ih =>
    obtain ⟨k', v'⟩ := hd
    by_cases hk : k' = k
    · simp [keys, hk]
    · have : get t k = some v := by simpa [get_cons, hk] using h
      have := ih this
      simp only [keys, List.map_cons, List.mem_cons] at this ⊢
      exact Or.inr this

theorem get_none_of_not_mem {l : AList α} {k : String} (h : k ∉ l.keys) : l.get k = none := by
  induction l with
  | nil => rfl
  | cons hd t ih =>
    obtain ⟨k', v'⟩ := hd
    simp only [keys, List.map_cons, List.mem_cons, not_or] at h
    have hk : k' ≠ k := fun e => h.1 e.symm
    simp only [get_cons, hk, if_false]
    exact ih h.2

theorem not_mem_keys_of_get_none {l : AList α} {k : String} (h : l.get k = none) : k ∉ l.keys := by
  induction l with
  | nil => simp [keys]
  | cons hd t ih =>
    obtain ⟨k', v'⟩ := hd
    by_cases hk : k' = k
    · simp [get_cons, hk] at h
    · have ht : get t k = none := by simpa [get_cons, hk] using h
      simp only [keys, List.map_cons, List.mem_cons, not_or]
      exact ⟨fun e => hk e.symm, ih ht⟩

theorem mem_keys_insert (l : AList α) (k : String) (v : α) (x : String) :
    x ∈ (l.insert k v).keys ↔ x = k ∨ x ∈ l.keys := by
  induction l with
  | nil => simp [insert, keys]
  | cons hd t ih =>
    obtain ⟨k', v'⟩ := hd
    unfold insert
    split
    · simp [keys]
    · simp only [keys, List.map_cons, List.mem_cons] at ih ⊢
      rw [ih]
      constructor
      · rintro (h | h | h) <;> simp [h]
      · rintro (h | h | h) <;> simp [h]

theorem nodupKeys_insert {l : AList α} {k : String} {v : α} (h : NodupKeys l) (hk : l.get k = none) :
    NodupKeys (l.insert k v) := by
  induction l with
  | nil => simp [insert, NodupKeys, keys]
  | cons hd t ih =>
    obtain ⟨k', v'⟩ := hd
    have hne : k' ≠ k := by intro e; simp [get_cons, e] at hk
    have ht : get t k = none := by simpa [get_cons, hne] using hk
    have hnm := not_mem_keys_of_get_none ht
    simp only [NodupKeys, keys, List.map_cons, List.nodup_cons] at h
    unfold insert
    split
    · simp only [NodupKeys, keys, List.map_cons, List.nodup_cons, List.mem_cons, not_or]
      exact ⟨⟨fun e => hne e.symm, hnm⟩, h.1, h.2⟩
    · simp only [NodupKeys, keys, List.map_cons, List.nodup_cons]
      refine ⟨?_, ih h.2 ht⟩
      intro hm
      have := (mem_keys_insert t k v k').mp hm
      rcases this with e | e
      · exact hne e
      · exact h.1 e

theorem nodupKeys_set {l : AList α} (k : String) (v : α) (h : NodupKeys l) : NodupKeys (l.set k v) := by
  unfold set
  split
  · unfold NodupKeys; rw [keys_replace]; exact h
  · apply nodupKeys_insert h
    cases hg : l.get k with
    | none => rfl
    | some x => simp [contains, hg] at *

theorem keys_erase_sublist (l : AList α) (k : String) : (l.erase k).keys.Sublist l.keys := by
  induction l with
  | nil => exact List.Sublist.refl _
  | cons hd t ih =>
    obtain ⟨k', v'⟩ := hd
    unfold erase
    by_cases hk : k' = k
    · simp only [hk, if_true, keys, List.map_cons]
      exact List.sublist_cons_self _ _
    · simp only [hk, if_false, keys, List.map_cons]
      exact List.Sublist.cons₂ _ ih

theorem nodupKeys_erase {l : AList α} (k : String) (h : NodupKeys l) : NodupKeys (l.erase k) :=
  List.Nodup.sublist (keys_erase_sublist l k) h

theorem get_erase_self {l : AList α} (k : String) (h : NodupKeys l) : (l.erase k).get k = none := by
  induction l with
  | nil => rfl
  | cons hd t ih =>
    obtain ⟨k', v'⟩ := hd
    simp only [NodupKeys, keys, List.map_cons, List.nodup_cons] at h
    unfold erase
    by_cases hk : k' = k
    · subst hk
      simp only [if_true]
      exact get_none_of_not_mem h.1
    · simp only [hk, if_false, get_cons]
      exact ih h.2

end Sif.AList
