import Sif.Proofs.C10Chain
set_option exponentiation.threshold 400
/-
  C10 helper lemmas: histories that interleave blocks with several accepted admin messages
  (policy → end_policy → block rate between policies → next policy …).
-/
namespace Sif.Proofs.C10
open Sif Sif.Hooks Sif.Validate Sif.Spec.C10

/-- what is asked of one step in state `s` when `h` is the next height to be processed: a block is
    inside the envelope; a message was ACCEPTED by the validation clauses in a truthful context (it is
    executed in block `h − 1`, whose BeginBlocker has run) -/
def StepOKP (s : BState) (h : Int) : Step → Prop
  | .block e _ => e.h = h ∧ EnvOKP s.pm e ∧ PoolsOKP e.pools
  | .updatePmtp m c =>
      acceptsUpdatePmtpParams m c { gov := s.pm.gov, lpMax := s.lp.max } = true ∧ c.height = h - 1 ∧ 0 ≤ c.height ∧
      c.insideWindow = insideOf s.pm c.height ∧ -two63 ≤ m.start ∧ m.end_ < two63 ∧ s.pm.inter.i ≤ B1
  | .modifyRates m c =>
      acceptsModifyPmtpRates m c { gov := s.pm.gov, lpMax := s.lp.max } = true ∧ c.height = h - 1 ∧
      c.insideWindow = insideOf s.pm c.height
  | .updateLP m => acceptsUpdateLPParams m default {} = true ∧ m.max < two256
  | .modifyLP m => acceptsModifyLPRates m default { lpMax := s.lp.max } = true

/-- every step of the history, judged in the state the previous steps left -/
def HistOKP : BState → Int → List Step → Prop
  | _, _, [] => True
  | s, h, st :: rest =>
    StepOKP s h st ∧
    match stepState s st with
    | .ok s' => HistOKP s' (nextH h st) rest
    | .error _ => True

instance (pm : Pmtp) (h : Int) : Decidable (insideOf pm h = true) := inferInstance

instance decStepOKP (s : BState) (h : Int) (st : Step) : Decidable (StepOKP s h st) := by
  cases st <;> unfold StepOKP <;> infer_instance

/-- Boolean form of `HistOKP` (for concrete histories) -/
def histOK : BState → Int → List Step → Bool
  | _, _, [] => true
  | s, h, st :: rest =>
    decide (StepOKP s h st) &&
    match stepState s st with
    | .ok s' => histOK s' (nextH h st) rest
    | .error _ => true

theorem histOK_sound : ∀ (steps : List Step) (s : BState) (h : Int), histOK s h steps = true → HistOKP s h steps := by
  intro steps
  induction steps with
  | nil => intro _ _ _; trivial
  | cons st rest ih =>
    intro s h hh
    unfold histOK at hh
    rw [Bool.and_eq_true] at hh
    obtain ⟨h1, h2⟩ := hh
    refine ⟨of_decide_eq_true h1, ?_⟩
    cases hs : stepState s st with
    | error e => trivial
    | ok s' => rw [hs] at h2; exact ih s' _ h2

theorem UpdateLPParams_inv (m : MsgUpdateLPParams) (c : Ctx) (s : StVals) (lp : LiqProt)
    (hacc : acceptsUpdateLPParams m c s = true) (hwt : m.max < two256) :
    LpInv (applyUpdateLPParams m lp) = true := by
  unfold acceptsUpdateLPParams Req.updateLPParams at hacc
  rw [acceptsAll_cons, cl_rejects] at hacc
  have h1 := hacc.1
  simp [evalCond, evalTerm, envUpdateLPParams] at h1
  rw [LpInv_iff]
  refine ⟨fun _ => ?_, le_refl _, hwt⟩
  simp only [applyUpdateLPParams]; omega

theorem ModifyLPRates_inv (m : MsgModifyLPRates) (c : Ctx) (s : StVals) (lp : LiqProt)
    (hacc : acceptsModifyLPRates m c s = true) (hst : s.lpMax = lp.max) (hinv : LpInv lp = true) :
    LpInv (applyModifyLPRates m lp) = true := by
  unfold acceptsModifyLPRates Req.modifyLPRates at hacc
  rw [acceptsAll_cons, cl_rejects] at hacc
  have h1 := hacc.1
  simp [evalCond, evalTerm, envModifyLPRates, stOf] at h1
  obtain ⟨a, _, b⟩ := (LpInv_iff lp).1 hinv
  rw [LpInv_iff]
  exact ⟨a, by simp only [applyModifyLPRates]; omega, b⟩

/-- one step keeps both invariants (for the next height) and does not panic -/
theorem stepState_ok (s : BState) (h : Int) (st : Step) (hlp : LpInv s.lp = true) (hpm : PmtpInvP s.pm h)
    (hok : StepOKP s h st) :
    ∃ s', stepState s st = .ok s' ∧ LpInv s'.lp = true ∧ PmtpInvP s'.pm (nextH h st) := by
  cases st with
  | block e c =>
    obtain ⟨he, henv, hpools⟩ := hok
    subst he
    obtain ⟨o, ho, hlp', hpm', _⟩ := beginBlock_ok s e hlp hpm henv hpools
    refine ⟨userMove o.st c, ?_, userMove_inv _ _ hlp', hpm'⟩
    show (beginBlock s e).map _ = _
    rw [ho]; rfl
  | updatePmtp m c =>
    obtain ⟨hacc, hh, hh0, hwin, hs, he, hB⟩ := hok
    have hpm1 : PmtpInvP s.pm (c.height + 1) := by rw [hh]; simpa using hpm
    have := UpdatePmtpParams_inv m c _ s.pm hacc hs he hh0 rfl hwin hpm1 hB
    refine ⟨_, rfl, hlp, ?_⟩
    show PmtpInvP (applyUpdatePmtpParams m s.pm) h
    have e : c.height + 1 = h := by omega
    rw [← e]; exact this
  | modifyRates m c =>
    obtain ⟨hacc, hh, hwin⟩ := hok
    have hpm1 : PmtpInvP s.pm (c.height + 1) := by rw [hh]; simpa using hpm
    have := ModifyPmtpRates_inv m c _ s.pm hacc hwin hpm1
    refine ⟨_, rfl, hlp, ?_⟩
    show PmtpInvP (applyModifyPmtpRates m c s.pm) h
    have e : c.height + 1 = h := by omega
    rw [← e]; exact this
  | updateLP m =>
    obtain ⟨hacc, hwt⟩ := hok
    exact ⟨_, rfl, UpdateLPParams_inv m default {} s.lp hacc hwt, hpm⟩
  | modifyLP m =>
    exact ⟨_, rfl, ModifyLPRates_inv m default _ s.lp hok rfl hlp, hpm⟩

/-- any history of blocks and accepted messages runs to its end without a panic -/
theorem runSteps_ok : ∀ (steps : List Step) (s : BState) (h : Int),
    LpInv s.lp = true → PmtpInvP s.pm h → HistOKP s h steps → ∃ s', runSteps s steps = .ok s' := by
  intro steps
  induction steps with
  | nil => intro s _ _ _ _; exact ⟨s, rfl⟩
  | cons st rest ih =>
    intro s h hlp hpm hhist
    obtain ⟨hstep, hrest⟩ := hhist
    obtain ⟨s', hs', hlp', hpm'⟩ := stepState_ok s h st hlp hpm hstep
    rw [hs'] at hrest
    obtain ⟨s'', hs''⟩ := ih s' (nextH h st) hlp' hpm' hrest
    exact ⟨s'', by unfold runSteps; rw [hs']; exact hs''⟩

end Sif.Proofs.C10
