import Sif.Model.Genesis
/- helper lemmas for the C14 theorems (core Lean only) -/
namespace Sif.Gen
open List

theorem klt_irrefl : ∀ k : Key, klt k k = false
  | [] => rfl
  | a :: as => by simp [klt, klt_irrefl as]

theorem klt_asymm : ∀ a b : Key, klt a b = true → klt b a = false
  | [], [], h => by simp [klt] at h
  | [], _ :: _, _ => rfl
  | _ :: _, [], h => by simp [klt] at h
  | x :: xs, y :: ys, h => by
    unfold klt at h ⊢
    by_cases h1 : x < y
    · have h2 : ¬ y < x := by omega
      have h3 : ¬ y = x := by omega
      simp [h2, h3]
    · by_cases h2 : x = y
      · subst h2
        simp at h ⊢
        exact klt_asymm xs ys h
      · simp [h1, h2] at h

theorem klt_ne {a b : Key} (h : klt a b = true) : a ≠ b := by
  intro e; subst e; rw [klt_irrefl] at h; cases h

/-- inserting a key above every key of the store appends it -/
theorem set_append_of_lt (s : Store) (k : Key) (v : Val) (h : ∀ e ∈ s, klt e.1 k = true) :
    s.set k v = s ++ [(k, v)] := by
  induction s with
  | nil => rfl
  | cons e r ih =>
    obtain ⟨k', v'⟩ := e
    have hk : klt k' k = true := h (k', v') (List.mem_cons_self)
    have hne : ¬ k = k' := fun e => klt_ne hk e.symm
    have hnlt : klt k k' = false := klt_asymm _ _ hk
    simp only [Store.set, hne, hnlt, if_false, List.cons_append, Bool.false_eq_true]
    rw [ih (fun e he => h e (List.mem_cons_of_mem _ he))]

/-- folding `set` over entries that continue a sorted store in order just appends them -/
theorem foldl_set_sorted (l acc : Store) (h : Sorted (acc ++ l)) :
    l.foldl (fun s e => s.set e.1 e.2) acc = acc ++ l := by
  induction l generalizing acc with
  | nil => simp
  | cons e r ih =>
    simp only [List.foldl_cons]
    have hlt : ∀ x ∈ acc, klt x.1 e.1 = true := by
      intro x hx
      unfold Sorted at h
      rw [List.pairwise_append] at h
      exact h.2.2 x hx e (List.mem_cons_self)
    rw [set_append_of_lt acc e.1 e.2 hlt]
    have : acc ++ [(e.1, e.2)] ++ r = acc ++ e :: r := by simp
    rw [ih (acc ++ [(e.1, e.2)]) (by rw [this]; exact h), this]

theorem sorted_under (p : Key) (s : Store) (h : Sorted s) : Sorted (under p s) := by
  unfold Sorted under at *
  exact h.filter _

theorem under_under (p : Key) (s : Store) : under p (under p s) = under p s := by
  unfold under; simp [List.filter_filter]

/-- decoding then re-encoding the records under the prefix gives back exactly those store entries -/
theorem entries_of_export {α : Type} (c : Coll α) (L : Store)
    (h : ∀ e ∈ L, ∃ a, c.dec e.2 = some a ∧ c.entry a = e) :
    (L.filterMap (fun e => c.dec e.2)).map c.entry = L := by
  induction L with
  | nil => rfl
  | cons e r ih =>
    obtain ⟨a, ha, hea⟩ := h e (List.mem_cons_self)
    simp only [List.filterMap_cons, ha, List.map_cons, hea]
    rw [ih (fun x hx => h x (List.mem_cons_of_mem _ hx))]

theorem initC_eq_foldl_entries {α : Type} (c : Coll α) (items : List α) (s0 : Store) :
    initC c items s0 = (items.map c.entry).foldl (fun s e => s.set e.1 e.2) s0 := by
  unfold initC
  rw [List.foldl_map]
  rfl

/-- frame: a `Set` under another prefix does not change what lies under prefix `q` -/
theorem under_set_of_not_prefix (q : Key) (s : Store) (k : Key) (v : Val) (h : isPrefix q k = false) :
    under q (s.set k v) = under q s := by
  induction s with
  | nil => simp [Store.set, under, h]
  | cons e r ih =>
    obtain ⟨k', v'⟩ := e
    unfold Store.set
    by_cases h1 : k = k'
    · subst h1
      simp [under, h]
    · by_cases h2 : klt k k' = true
      · simp [h1, h2, under, h]
      · have h2' : klt k k' = false := by simpa using h2
        simp only [h1, h2', if_false, Bool.false_eq_true]
        unfold under at ih ⊢
        simp only [List.filter_cons]
        rw [ih]

theorem under_initC_other {α : Type} (c : Coll α) (q : Key) (items : List α) (s0 : Store)
    (h : ∀ a ∈ items, isPrefix q (c.key a) = false) :
    under q (initC c items s0) = under q s0 := by
  unfold initC
  induction items generalizing s0 with
  | nil => rfl
  | cons a r ih =>
    simp only [List.foldl_cons]
    rw [ih _ (fun x hx => h x (List.mem_cons_of_mem _ hx)),
      under_set_of_not_prefix q s0 _ _ (h a (List.mem_cons_self))]

/-- single-byte prefixes: different bytes are disjoint prefixes -/
theorem prefix_byte_disjoint (a b : Nat) (hab : a ≠ b) (k : Key) (h : isPrefix [a] k = true) : isPrefix [b] k = false := by
  cases k with
  | nil => simp [isPrefix, List.isPrefixOf] at h
  | cons x xs =>
    simp [isPrefix, List.isPrefixOf] at h ⊢
    omega

/-! ### `set` on a sorted store -/

theorem klt_trans : ∀ a b c : Key, klt a b = true → klt b c = true → klt a c = true
  | [], [], _, h, _ => by simp [klt] at h
  | [], _ :: _, [], _, h2 => by simp [klt] at h2
  | [], _ :: _, _ :: _, _, _ => rfl
  | _ :: _, [], _, h, _ => by simp [klt] at h
  | _ :: _, _ :: _, [], _, h2 => by simp [klt] at h2
  | x :: xs, y :: ys, z :: zs, h1, h2 => by
    unfold klt at h1 h2 ⊢
    by_cases a1 : x < y
    · by_cases b1 : y < z
      · have : x < z := by omega
        simp [this]
      · by_cases b2 : y = z
        · subst b2; simp [a1]
        · simp [b1, b2] at h2
    · by_cases a2 : x = y
      · subst a2
        simp at h1
        by_cases b1 : x < z
        · simp [b1]
        · by_cases b2 : x = z
          · subst b2
            simp at h2 ⊢
            exact klt_trans xs ys zs h1 h2
          · simp [b1, b2] at h2
      · simp [a1, a2] at h1

theorem klt_total : ∀ a b : Key, a ≠ b → klt a b = false → klt b a = true
  | [], [], h, _ => absurd rfl h
  | [], _ :: _, _, h2 => by simp [klt] at h2
  | _ :: _, [], _, _ => rfl
  | x :: xs, y :: ys, h, h2 => by
    unfold klt at h2 ⊢
    by_cases a1 : x < y
    · simp [a1] at h2
    · by_cases a2 : x = y
      · subst a2
        simp at h2 ⊢
        exact klt_total xs ys (fun e => h (by rw [e])) h2
      · have : y < x := by omega
        simp [this]

theorem mem_set (s : Store) (k : Key) (v : Val) (e : Key × Val) (h : e ∈ s.set k v) : e = (k, v) ∨ e ∈ s := by
  induction s with
  | nil => simp [Store.set] at h; exact Or.inl h
  | cons x r ih =>
    obtain ⟨k', v'⟩ := x
    unfold Store.set at h
    by_cases h1 : k = k'
    · simp [h1] at h
      rcases h with h | h
      · left; rw [h, h1]
      · right; exact List.mem_cons_of_mem _ h
    · by_cases h2 : klt k k' = true
      · simp [h1, h2] at h
        rcases h with h | h | h
        · exact Or.inl h
        · right; rw [h]; exact List.mem_cons_self
        · right; exact List.mem_cons_of_mem _ h
      · have h2' : klt k k' = false := by simpa using h2
        simp [h1, h2'] at h
        rcases h with h | h
        · right; rw [h]; exact List.mem_cons_self
        · rcases ih h with h | h
          · exact Or.inl h
          · right; exact List.mem_cons_of_mem _ h

theorem sorted_set (s : Store) (k : Key) (v : Val) (hs : Sorted s) : Sorted (s.set k v) := by
  induction s with
  | nil => simp [Store.set, Sorted]
  | cons x r ih =>
    obtain ⟨k', v'⟩ := x
    unfold Sorted at hs
    rw [List.pairwise_cons] at hs
    obtain ⟨hhead, htail⟩ := hs
    unfold Store.set
    by_cases h1 : k = k'
    · subst h1
      simp only [if_true]
      unfold Sorted
      rw [List.pairwise_cons]
      exact ⟨hhead, htail⟩
    · by_cases h2 : klt k k' = true
      · simp only [h1, h2, if_true, if_false]
        unfold Sorted
        rw [List.pairwise_cons, List.pairwise_cons]
        refine ⟨?_, hhead, htail⟩
        intro e he
        rcases List.mem_cons.mp he with rfl | he
        · exact h2
        · exact klt_trans _ _ _ h2 (hhead e he)
      · have h2' : klt k k' = false := by simpa using h2
        simp only [h1, h2', if_false, Bool.false_eq_true]
        unfold Sorted
        rw [List.pairwise_cons]
        refine ⟨?_, ih htail⟩
        intro e he
        rcases mem_set r k v e he with rfl | he
        · exact klt_total k k' h1 h2'
        · exact hhead e he

/-- inserting below every key of the store puts the entry in front -/
theorem set_cons_of_lt (t : Store) (k : Key) (v : Val) (h : ∀ e ∈ t, klt k e.1 = true) : t.set k v = (k, v) :: t := by
  cases t with
  | nil => rfl
  | cons x r =>
    obtain ⟨k', v'⟩ := x
    have hk : klt k k' = true := h (k', v') List.mem_cons_self
    have hne : ¬ k = k' := klt_ne hk
    simp [Store.set, hne, hk]

theorem set_cons (k' : Key) (v' : Val) (r : Store) (k : Key) (v : Val) :
    Store.set ((k', v') :: r) k v =
      if k = k' then (k, v) :: r else if klt k k' then (k, v) :: (k', v') :: r else (k', v') :: Store.set r k v := rfl

/-- on a sorted store, reading a prefix commutes with a `Set` under that prefix -/
theorem under_set_of_prefix (p : Key) (s : Store) (k : Key) (v : Val) (hs : Sorted s) (hp : isPrefix p k = true) :
    under p (s.set k v) = (under p s).set k v := by
  induction s with
  | nil => simp [Store.set, under, hp]
  | cons x r ih =>
    obtain ⟨k', v'⟩ := x
    unfold Sorted at hs
    rw [List.pairwise_cons] at hs
    obtain ⟨hhead, htail⟩ := hs
    rw [set_cons]
    by_cases h1 : k = k'
    · subst h1
      simp [under, hp, Store.set]
    · by_cases h2 : klt k k' = true
      · simp only [h1, h2, if_true, if_false]
        have hall : ∀ e ∈ under p ((k', v') :: r), klt k e.1 = true := by
          intro e he
          unfold under at he
          have hm := (List.mem_filter.mp he).1
          rcases List.mem_cons.mp hm with rfl | hm
          · exact h2
          · exact klt_trans _ _ _ h2 (hhead e hm)
        rw [set_cons_of_lt _ k v hall]
        show List.filter (fun e => isPrefix p e.1) ((k, v) :: (k', v') :: r) = _
        rw [List.filter_cons]
        simp only [hp, if_true]
        rfl
      · have h2' : klt k k' = false := by simpa using h2
        simp only [h1, h2', if_false, Bool.false_eq_true]
        have ih' := ih htail
        unfold under at ih' ⊢
        by_cases hk' : isPrefix p k' = true
        · simp only [List.filter_cons, hk', if_true]
          rw [ih', set_cons]
          simp [h1, h2']
        · simp only [List.filter_cons, hk', if_false, Bool.false_eq_true]
          exact ih'

theorem sorted_initC {α : Type} (c : Coll α) (items : List α) (s0 : Store) (hs : Sorted s0) : Sorted (initC c items s0) := by
  unfold initC
  induction items generalizing s0 with
  | nil => exact hs
  | cons a r ih => simp only [List.foldl_cons]; exact ih _ (sorted_set s0 _ _ hs)

theorem under_initC_same {α : Type} (c : Coll α) (p : Key) (items : List α) (s0 : Store) (hs : Sorted s0)
    (h : ∀ a ∈ items, isPrefix p (c.key a) = true) :
    under p (initC c items s0) = initC c items (under p s0) := by
  unfold initC
  induction items generalizing s0 with
  | nil => rfl
  | cons a r ih =>
    simp only [List.foldl_cons]
    rw [ih _ (sorted_set s0 _ _ hs) (fun x hx => h x (List.mem_cons_of_mem _ hx)),
      under_set_of_prefix p s0 _ _ hs (h a List.mem_cons_self)]

/-! ### permutations (documents in arbitrary order) -/

theorem set_perm (s : Store) (k : Key) (v : Val) (h : k ∉ s.map (·.1)) : (s.set k v).Perm ((k, v) :: s) := by
  induction s with
  | nil => exact List.Perm.refl _
  | cons e r ih =>
    obtain ⟨k', v'⟩ := e
    have hne : ¬ k = k' := by
      intro e; apply h; simp [e]
    have hr : k ∉ r.map (·.1) := by
      intro hm; apply h; simp at hm ⊢; right; exact hm
    unfold Store.set
    by_cases h2 : klt k k' = true
    · simp [hne, h2]
    · simp only [hne, h2, if_false]
      exact ((ih hr).cons (k', v')).trans (List.Perm.swap _ _ _)

theorem keys_set_perm (s : Store) (k : Key) (v : Val) (h : k ∉ s.map (·.1)) :
    ((s.set k v).map (·.1)).Perm (k :: s.map (·.1)) := by
  have := (set_perm s k v h).map (·.1)
  simpa using this

theorem foldl_set_perm (l acc : Store) (hnd : ((acc ++ l).map (·.1)).Nodup) :
    (l.foldl (fun s e => s.set e.1 e.2) acc).Perm (acc ++ l) := by
  induction l generalizing acc with
  | nil => simp
  | cons e r ih =>
    simp only [List.foldl_cons]
    have hk : e.1 ∉ acc.map (·.1) := by
      intro hm
      rw [List.map_append, List.nodup_append] at hnd
      exact hnd.2.2 _ hm _ (by simp) rfl
    have p1 := set_perm acc e.1 e.2 hk
    have hnd' : (((acc.set e.1 e.2) ++ r).map (·.1)).Nodup := by
      have pk : (((acc.set e.1 e.2) ++ r).map (·.1)).Perm ((acc ++ e :: r).map (·.1)) := by
        simp only [List.map_append, List.map_cons]
        exact ((keys_set_perm acc e.1 e.2 hk).append_right _).trans (by
          simpa using (List.perm_middle (a := e.1) (l₁ := acc.map (·.1)) (l₂ := r.map (·.1))).symm)
      exact (pk.nodup_iff).mpr hnd
    refine (ih _ hnd').trans ?_
    exact (p1.append_right r).trans (by simpa using (List.perm_middle (a := (e.1, e.2)) (l₁ := acc) (l₂ := r)).symm)

/-! ### key functions -/

/-- split at the LAST separator: the right parts contain none -/
theorem joinU_inj_right {l₁ l₂ r₁ r₂ : List Nat} (h1 : us ∉ r₁) (h2 : us ∉ r₂)
    (h : joinU l₁ r₁ = joinU l₂ r₂) : l₁ = l₂ ∧ r₁ = r₂ := by
  unfold joinU at h
  rcases List.append_eq_append_iff.mp h with ⟨a', ha, hb⟩ | ⟨c', hc, hd⟩
  · cases a' with
    | nil => simp at ha hb; exact ⟨ha.symm, hb⟩
    | cons x t =>
      exfalso
      simp at hb
      apply h1
      rw [hb.2]
      simp
  · cases c' with
    | nil => simp at hc hd; exact ⟨hc, hd.symm⟩
    | cons x t =>
      exfalso
      simp at hd
      apply h2
      rw [hd.2]
      simp

theorem filterMap_entries {α : Type} (c : Coll α) (g : List α) (h : ItemsOK c g) :
    (g.map c.entry).filterMap (fun e => c.dec e.2) = g := by
  induction g with
  | nil => rfl
  | cons a r ih =>
    have ha := (h a (List.mem_cons_self)).1
    simp only [List.map_cons, List.filterMap_cons, Coll.entry, ha]
    congr 1
    exact ih (fun x hx => h x (List.mem_cons_of_mem _ hx))


end Sif.Gen
