import Sif.Proofs.C01
import Sif.Proofs.C03
/- C03 — the swap handler: exact settlement on the bank, minimum received, output below balance. -/
namespace Sif.Clp
open Sif Sif.AList

theorem swapRoute_bank {s s2 : St} {sent recv : String} {amt amt2 : Nat} {f : Dec}
    (h : swapRoute s sent recv amt f = .ok (s2, amt2)) : s2.bank = s.bank ∧ s2.lps = s.lps ∧ s2.buckets = s.buckets := by
  unfold swapRoute at h
  split at h
  · unfold swapFirstLeg at h
    obtain ⟨_, _, h⟩ := bind_ok h
    obtain ⟨⟨_, _, _⟩, _, h⟩ := bind_ok h
    cases h; exact ⟨rfl, rfl, rfl⟩
  · cases h; exact ⟨rfl, rfl, rfl⟩

/-- exact settlement of a successful swap on every account and denomination -/
theorem swapCore_bank {s s' : St} {signer sent recv : String} {amt mn y : Nat} (hs : signer ≠ clpAcct)
    (h : swapCore s signer sent recv amt mn = .ok (s', y)) :
    mn ≤ y ∧ amt ≤ s.bal signer sent ∧ s'.lps = s.lps ∧ s'.buckets = s.buckets ∧
    ∃ s1 : St, (∀ a d, s1.bal a d = if a = signer ∧ d = sent then s.bal a d - amt
                        else if a = clpAcct ∧ d = sent then s.bal a d + amt else s.bal a d) ∧
      y ≤ s1.bal clpAcct recv ∧
      (∀ a d, s'.bal a d = if a = clpAcct ∧ d = recv then s1.bal a d - y
                        else if a = signer ∧ d = recv then s1.bal a d + y else s1.bal a d) := by
  unfold swapCore at h
  obtain ⟨_, _, h⟩ := bind_ok h
  obtain ⟨_, _, h⟩ := bind_ok h
  obtain ⟨_, _, h⟩ := bind_ok h
  obtain ⟨_, _, h⟩ := bind_ok h
  obtain ⟨s1, h1, h⟩ := bind_ok h
  obtain ⟨⟨s2, amt2⟩, hleg, h⟩ := bind_ok h
  obtain ⟨outPool, hop, h⟩ := bind_ok h
  obtain ⟨⟨y', fee, p'⟩, hso, h⟩ := bind_ok h
  obtain ⟨_, hmin, h⟩ := bind_ok h
  obtain ⟨_, _, h⟩ := bind_ok h
  obtain ⟨s4, h4, h⟩ := bind_ok h
  have hs4 : s4 = s' ∧ y' = y := by cases h; exact ⟨rfl, rfl⟩
  obtain ⟨rfl, rfl⟩ := hs4
  obtain ⟨hle1, b1, _, l1, k1, _⟩ := send_spec (optR_ok h1) hs
  obtain ⟨bk2, l2, k2⟩ := swapRoute_bank hleg
  obtain ⟨hle4, b4, _, l4, k4, _⟩ := send_spec (optR_ok h4) (Ne.symm hs)
  have hmin := guardR_ok hmin
  refine ⟨by simpa using hmin, hle1, ?_, ?_, s1, b1, ?_, ?_⟩
  · rw [l4]; show s2.lps = _; rw [l2, l1]
  · rw [k4]; show s2.buckets = _; rw [k2, k1]
  · have : (s2.setPool { p' with sym := if recv = rowan then sent else recv }).bal clpAcct recv = s1.bal clpAcct recv := by
      simp [St.bal, bk2]
    rw [← this]; exact hle4
  · intro a d
    rw [b4]
    have : ∀ x z, (s2.setPool { p' with sym := if recv = rowan then sent else recv }).bal x z = s1.bal x z := by
      intro x z; simp [St.bal, bk2]
    simp only [this]

/-- exact settlement of a successful swap on every account and denomination -/
theorem swap_bank {s s' : St} {signer sent recv : String} {amt mn y : Nat} (hs : signer ≠ clpAcct)
    (h : swap s signer sent recv amt mn = .ok (s', y)) :
    mn ≤ y ∧ amt ≤ s.bal signer sent ∧ s'.lps = s.lps ∧ s'.buckets = s.buckets ∧
    ∃ s1 : St, (∀ a d, s1.bal a d = if a = signer ∧ d = sent then s.bal a d - amt
                        else if a = clpAcct ∧ d = sent then s.bal a d + amt else s.bal a d) ∧
      y ≤ s1.bal clpAcct recv ∧
      (∀ a d, s'.bal a d = if a = clpAcct ∧ d = recv then s1.bal a d - y
                        else if a = signer ∧ d = recv then s1.bal a d + y else s1.bal a d) := by
  obtain ⟨s4, c, hc, rfl⟩ := swap_ok h
  exact swapCore_bank (s' := s4) hs hc

/-- the output is strictly less than the pool's balance of the received token -/
theorem swapOne_lt_balance {t : Bool} {x : Nat} {pool pool' : Pool} {r f : Dec} {y fee : Nat}
    (h : swapOne t x pool r f = .ok (y, fee, pool')) : y < (if t then pool.nBal else pool.eBal) := by
  obtain ⟨_, _, _, _, _, _, hs⟩ := swapOne_spec h
  cases t <;> simp_all

/-- per leg: what `SwapOne` returns is `CalcSwapResult` on the depths (balance + liabilities) -/
theorem swapOne_calc {t : Bool} {x : Nat} {pool pool' : Pool} {r f : Dec} {y fee : Nat}
    (h : swapOne t x pool r f = .ok (y, fee, pool')) :
    calcSwapResult t ((if t then pool.eBal else pool.nBal) + (if t then pool.eLiab else pool.nLiab)) x
      ((if t then pool.nBal else pool.eBal) + (if t then pool.nLiab else pool.eLiab)) r f = .ok (y, fee) := by
  unfold swapOne at h
  obtain ⟨Xi, hX, h⟩ := bind_ok h
  obtain ⟨Yi, hY, h⟩ := bind_ok h
  obtain ⟨⟨y', fee'⟩, hc, h⟩ := bind_ok h
  obtain ⟨_, _, h⟩ := bind_ok h
  obtain ⟨_, _, h⟩ := bind_ok h
  obtain ⟨_, _, h⟩ := bind_ok h
  have : y' = y ∧ fee' = fee := by cases h; exact ⟨rfl, rfl⟩
  obtain ⟨rfl, rfl⟩ := this
  have eX := (Uint.add_ok (liftM_ok hX)).1
  have eY := (Uint.add_ok (liftM_ok hY)).1
  rw [← eX, ← eY]
  exact liftM_ok hc

end Sif.Clp
