import Sif.Proofs.C11Steps
import Sif.Proofs.C20Mint
/- selection, the run handler, and the invariant along histories (C11) -/
namespace Sif.Disp
open Sif.Spec.C11

/-! ### GetLimitedRecordsForRunner -/

theorem selectRecs_sublist (name : List Char) (runner : Addr) (t : DType) (n : Int) (st : Store Rec) :
    (selectRecs name runner t n st).Sublist st := by
  induction st generalizing n with
  | nil => simp [selectRecs]
  | cons p rest ih =>
    obtain ⟨k, r⟩ := p
    simp only [selectRecs]
    split
    · exact List.nil_sublist _
    · split
      · exact List.Sublist.cons_cons _ (ih _)
      · exact List.Sublist.cons _ (ih _)

theorem selectRecs_matches (name : List Char) (runner : Addr) (t : DType) (n : Int) (st : Store Rec) :
    ∀ x ∈ selectRecs name runner t n st, x.2.matches name runner t = true := by
  induction st generalizing n with
  | nil => intro x hx; simp [selectRecs] at hx
  | cons p rest ih =>
    obtain ⟨k, r⟩ := p
    intro x hx
    simp only [selectRecs] at hx
    split at hx
    · cases hx
    · split at hx
      · rename_i hm
        simp at hx
        rcases hx with rfl | hx
        · exact hm
        · exact ih _ x hx
      · exact ih _ x hx

/-- the selection is the first `n` matching records in key order -/
theorem selectRecs_eq_take (name : List Char) (runner : Addr) (t : DType) (n : Nat) (st : Store Rec) :
    selectRecs name runner t (n : Int) st = (st.filter (fun p => p.2.matches name runner t)).take n := by
  induction st generalizing n with
  | nil => simp [selectRecs]
  | cons p rest ih =>
    obtain ⟨k, r⟩ := p
    simp only [selectRecs]
    cases n with
    | zero => simp
    | succ n =>
      have hn : ¬ ((n + 1 : Nat) : Int) = 0 := by omega
      rw [if_neg hn]
      have e : ((n + 1 : Nat) : Int) - 1 = (n : Int) := by omega
      by_cases hm : r.matches name runner t = true
      · simp only [hm, if_true, List.filter_cons_of_pos, List.take_succ_cons]
        rw [e, ih]
      · simp only [hm, List.filter_cons_of_neg, Bool.false_eq_true, if_false, not_false_eq_true]
        rw [ih]

theorem selectRecs_length (name : List Char) (runner : Addr) (t : DType) (n : Nat) (st : Store Rec) :
    (selectRecs name runner t (n : Int) st).length ≤ n := by
  rw [selectRecs_eq_take]; simp [List.length_take]; omega

theorem sorted_pairwise {α} {st : Store α} (h : Sorted st) : st.Pairwise (fun a b => a.1 ≠ b.1) := by
  induction st with
  | nil => exact List.Pairwise.nil
  | cons p rest ih =>
    obtain ⟨k, v⟩ := p
    obtain ⟨h1, h2⟩ := h
    exact List.Pairwise.cons (fun q hq => ltKey_ne (h1 q hq)) (ih h2)

theorem selectRecs_selOK {s : DispState} (hw : WF s) (name : List Char) (runner : Addr) (t : DType) (n : Int) :
    SelOK s (selectRecs name runner t n s.pending) := by
  have hsub := selectRecs_sublist name runner t n s.pending
  refine ⟨?_, (sorted_pairwise hw.sp).sublist hsub⟩
  intro x hx
  have hmem : x ∈ s.pending := hsub.subset hx
  have hg : sGet s.pending x.1 = some x.2 := sGet_of_mem_sorted hw.sp hmem
  have hk := (hw.pk _ _ hg).1
  exact ⟨hk.symm, by rw [hk]; exact hg⟩

/-- `RunDistribution`: never panics on a well-formed state; keeps the invariant; pays exactly the
    selected records in key order -/
theorem run_spec {cfg : DispCfg} {h : Int} {s : DispState} {l : Ledger} (hi : Inv cfg.module s l) (m : MsgRun) :
    ∃ s' os, runDistribution cfg h s m = .ok (s', os) ∧ Inv cfg.module s' (ledgerPay l os) ∧
      os.map (fun x => (x.1, x.2.1)) = selectRecs m.name m.runner m.typ m.count s.pending ∧
      RunFacts cfg h s s' os := by
  unfold runDistribution
  exact payAll_spec cfg h _ s l hi (selectRecs_selOK hi.wf _ _ _ _)

/-! ### CreateUserClaim -/

theorem createClaim_spec {s s' : DispState} {m : MsgClaim} (hc : createClaim cfg s m = some s') :
    sGet s.claims (claimKey (cfg.canon m.user) m.typ) = none ∧
    s' = { s with claims := sSet s.claims (claimKey (cfg.canon m.user) m.typ) () } := by
  unfold createClaim at hc
  split at hc
  · cases hc
  · rename_i hh
    split at hc
    · cases hc
    · cases hc
      refine ⟨?_, rfl⟩
      simp only [sHas, Bool.not_eq_true, Option.isSome_eq_false_iff, Option.isNone_iff_eq_none] at hh
      exact hh

/-! ### the invariant along histories -/

theorem inv_bank_mono {module : Addr} {s : DispState} {l : Ledger} (hi : Inv module s l) (b' : Bank)
    (hb : ∀ d, s.bank.bal module d ≤ b'.bal module d) : Inv module { s with bank := b' } l := by
  refine ⟨⟨hi.wf.sp, hi.wf.sc, hi.wf.sf, hi.wf.sl, hi.wf.pk⟩, ?_, hi.ledger⟩
  intro d
  have e := hi.escrow d
  have := hb d
  unfold escrowCovers at e ⊢
  simp only
  omega

theorem step_inv {cfg : ChainCfg} (hcfg : cfgOK cfg = true) {c : Chain} {l : Ledger} (op : Op)
    (hop : opOK cfg op = true) (hi : Inv cfg.disp.module c.st l) :
    Inv cfg.disp.module (step cfg c op).1.st (ledgerStep cfg c op l) := by
  simp only [cfgOK, Bool.and_eq_true, beq_iff_eq, bne_iff_ne, ne_eq] at hcfg
  obtain ⟨hmod, heco⟩ := hcfg
  cases op with
  | tx msg =>
    cases msg with
    | create m =>
      simp only [opOK, bne_iff_ne, ne_eq] at hop
      simp only [ledgerStep, step, deliver]
      by_cases hvb : m.validateBasic cfg.disp = true
      · simp only [hvb, Bool.not_true, Bool.false_eq_true, if_false]
        cases hc : createDistribution cfg.disp c.height c.st m with
        | none => simp only; exact hi
        | some s' =>
          simp only [if_true]
          obtain ⟨hw', _, _, hbank, hamt, hsum, _, _, hcomp, hfail, _⟩ := create_spec hi.wf hc
          refine ⟨hw', ?_, ?_⟩
          · intro d
            have e := hi.escrow d
            unfold escrowCovers at e ⊢
            rw [hsum d, hfail, coinsGet_totalOutput_bal hbank hop d]
            omega
          · intro k d
            have e := hi.ledger k d
            unfold ledgerEq at e ⊢
            simp only [ledgerCreate]
            rw [hamt k d]
            omega
      · simp only [hvb, Bool.not_false, if_true]
        simp
        exact hi
    | run m =>
      simp only [ledgerStep, step, deliver]
      by_cases hvb : m.validateBasic cfg.disp cfg.maxRecords = true
      · simp only [hvb, Bool.not_true, Bool.false_eq_true, if_false]
        obtain ⟨s', os, hr, hi', _, _⟩ := run_spec (h := c.height) hi m
        rw [hr]
        exact hi'
      · simp only [hvb, Bool.not_false, if_true, ledgerPay]
        exact hi
    | claim m =>
      simp only [ledgerStep, step, deliver]
      by_cases hvb : m.validateBasic cfg.disp = true
      · simp only [hvb, Bool.not_true, Bool.false_eq_true, if_false]
        cases hc : createClaim cfg.disp c.st m with
        | none => exact hi
        | some s' =>
          obtain ⟨_, rfl⟩ := createClaim_spec hc
          exact ⟨⟨hi.wf.sp, hi.wf.sc, hi.wf.sf, sorted_sSet hi.wf.sl _ _, hi.wf.pk⟩, hi.escrow, hi.ledger⟩
      · simp only [hvb, Bool.not_false, if_true]
        exact hi
  | beginBlock =>
    simp only [ledgerStep, step]
    cases hb : beginBlocker cfg.mint cfg.disp.blocked { counter := c.counter, bank := c.st.bank } with
    | error e => exact hi
    | ok ms =>
      simp only
      apply inv_bank_mono hi
      intro d
      have := beginBlocker_module_mono cfg.mint cfg.disp.blocked _ ms (by rw [hmod]; exact heco) hb d
      rw [hmod] at this
      exact this
  | fund a coins =>
    simp only [ledgerStep, step]
    apply inv_bank_mono hi
    intro d
    rw [bal_mintCoins]
    omega
  | transfer frm to coins =>
    simp only [opOK, bne_iff_ne, ne_eq] at hop
    simp only [ledgerStep, step]
    cases hs : sendCoins c.st.bank frm to coins with
    | none => exact hi
    | some b =>
      simp only
      apply inv_bank_mono hi
      intro d
      rw [bal_sendCoins hs]
      have : ¬ cfg.disp.module = frm := fun e => hop e.symm
      simp only [this, if_false]
      omega

end Sif.Disp
