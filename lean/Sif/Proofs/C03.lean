import Sif.Spec.C03
import Sif.Proofs.RatFloor
import Sif.Proofs.Except
import Mathlib.Tactic.Positivity
import Mathlib.Tactic.Ring
/- helper lemmas for the C03 theorems -/
namespace Sif.Clp
open Sif Sif.Spec.C03

theorem rawXYK_nonneg (x X Y : Nat) : 0 ≤ rawXYK x X Y := by
  unfold rawXYK
  rw [Rat.mkRat_eq_div]
  apply div_nonneg <;> positivity

theorem pmtpFactor_pos {r : Dec} (h : 0 ≤ r.i) : 0 < pmtpFactor r := by
  unfold pmtpFactor
  have := decToRat_nonneg h
  linarith

theorem adjusted_nonneg (t : Bool) (X x Y : Nat) {r : Dec} (hr : 0 ≤ r.i) : 0 ≤ adjusted t X x Y r := by
  unfold adjusted
  have h1 := rawXYK_nonneg x X Y
  have h2 := pmtpFactor_pos hr
  split
  · exact div_nonneg h1 h2.le
  · exact mul_nonneg h1 h2.le

/-- what a successful `CalcSwapResult` on a non-empty pool computed -/
theorem calcSwap_ok_spec {t : Bool} {X x Y : Nat} {r f : Dec} {y fee : Nat}
    (hr : 0 ≤ r.i) (hne : ¬ (X = 0 ∨ x = 0 ∨ Y = 0))
    (h : calcSwapResult t X x Y r f = .ok (y, fee)) :
    ∃ adj : Nat, (adj : Int) = ratIntQuo (adjusted t X x Y r) ∧
      (fee : Int) = ratIntQuo (adjusted t X x Y r * decToRat f) ∧ y = adj - fee ∧ fee ≤ adj := by
  unfold calcSwapResult at h
  rw [if_neg hne] at h
  obtain ⟨adjR, h1, h⟩ := bind_ok h
  obtain ⟨fee', h2, h⟩ := bind_ok h
  obtain ⟨adj', h3, h⟩ := bind_ok h
  obtain ⟨y', h4, h⟩ := bind_ok h
  cases h
  have hadjR : adjR = adjusted t X x Y r := by
    unfold adjusted
    unfold adjustR at h1
    cases t
    · simp at h1 ⊢; cases h1; rfl
    · simp [ratDiv] at h1 ⊢
      split at h1
      · exact absurd ‹_› (pmtpFactor_pos hr).ne'
      · cases h1; rfl
  subst hadjR
  obtain ⟨e2, _⟩ := Uint.ofInt_ok h2
  obtain ⟨e3, _⟩ := Uint.ofInt_ok h3
  obtain ⟨e4, e5⟩ := Uint.sub_ok h4
  exact ⟨adj', e3, e2, e4, e5⟩

end Sif.Clp
