import Sif.Proofs.C18
import Sif.Proofs.RatFloor
/-
  C18 — depth rewards: each pool's reward is its weighted share (multiplier × native balance over the
  total weight the hook computed) of the block distribution, up to rounding.
-/
namespace Sif.Clp
open Sif Sif.Dec

/-- `calcPoolDistribution`: with weight w = m·nBal (exact), total weight TD (as computed) and block
    distribution bd, the result is within  bd/(2·TD·10^18) + bd/10^18 + 1  of  (w / TD)·bd  (raw units:
    TD·10^18 = td.i). -/
theorem poolDistribution_bound {m td : Dec} {nBal bd pd : Nat} (hm : 0 ≤ m.i) (htd : 0 < td.i)
    (h : poolDistribution m nBal td bd = .ok pd) :
    let share : ℚ := (nBal : ℚ) * m.i / td.i
    (pd : ℚ) ≤ share * bd + (bd : ℚ) / (2 * td.i) + (bd : ℚ) / (2 * P) + 1 / (2 * P) ∧
    share * bd - (bd : ℚ) / (2 * td.i) - (bd : ℚ) / P - 1 / (2 * P) - 1 < (pd : ℚ) := by
  intro share
  unfold poolDistribution at h
  obtain ⟨w0, h0, h⟩ := bind_ok h
  obtain ⟨w, h1, h⟩ := bind_ok h
  obtain ⟨x, h2, h⟩ := bind_ok h
  have hp : (0 : ℚ) < (P : ℚ) := by exact_mod_cast P_pos
  have htdq : (0 : ℚ) < (td.i : ℚ) := by exact_mod_cast htd
  have hn0 : 0 ≤ (Dec.ofNat nBal).i := by rw [ofNat_i]; exact Int.natCast_nonneg _
  have hb0 : 0 ≤ (Dec.ofNat bd).i := by rw [ofNat_i]; exact Int.natCast_nonneg _
  obtain ⟨a0, a1, a2⟩ := mul_err hn0 hm h0
  obtain ⟨b0, b1, b2⟩ := quo_err a0 htd h1
  obtain ⟨c0, c1, c2⟩ := mul_err b0 hb0 h2
  obtain ⟨t0, t1, t2⟩ := truncateInt_err c0
  obtain ⟨hpd, _⟩ := Uint.ofInt_ok h
  have hpdq : (pd : ℚ) = (x.truncateInt : ℚ) := by exact_mod_cast congrArg (fun z : Int => (z : ℚ)) hpd
  have e0 : ((Dec.ofNat nBal).i : ℚ) * m.i / P = (nBal : ℚ) * m.i := by
    rw [ofNat_i]; push_cast; field_simp
  have e2 : (w.i : ℚ) * (Dec.ofNat bd).i / P = (w.i : ℚ) * bd := by
    rw [ofNat_i]; push_cast; field_simp
  rw [e0] at a1 a2
  rw [e2] at c1 c2
  have hbd : (0 : ℚ) ≤ (bd : ℚ) := Nat.cast_nonneg _
  -- w.i against share·P
  have hshare : (nBal : ℚ) * m.i * P / td.i = share * P := by simp only [share]; field_simp
  have w_hi : (w.i : ℚ) ≤ share * P + P / (2 * td.i) + 1 / 2 := by
    have : (w0.i : ℚ) * P / td.i ≤ ((nBal : ℚ) * m.i + 1 / 2) * P / td.i := by
      apply div_le_div_of_nonneg_right _ htdq.le
      exact mul_le_mul_of_nonneg_right a1 hp.le
    have e : ((nBal : ℚ) * m.i + 1 / 2) * P / td.i = share * P + P / (2 * td.i) := by
      rw [← hshare]; field_simp
    linarith
  have w_lo : share * P - P / (2 * td.i) - 1 / 2 - 1 / P ≤ (w.i : ℚ) := by
    have : ((nBal : ℚ) * m.i - 1 / 2) * P / td.i ≤ (w0.i : ℚ) * P / td.i := by
      apply div_le_div_of_nonneg_right _ htdq.le
      exact mul_le_mul_of_nonneg_right a2 hp.le
    have e : ((nBal : ℚ) * m.i - 1 / 2) * P / td.i = share * P - P / (2 * td.i) := by
      rw [← hshare]; field_simp
    linarith
  rw [hpdq]
  constructor
  · -- upper
    have s1 : (x.i : ℚ) / P ≤ ((share * P + P / (2 * td.i) + 1 / 2) * bd + 1 / 2) / P := by
      apply div_le_div_of_nonneg_right _ hp.le
      have := mul_le_mul_of_nonneg_right w_hi hbd
      linarith
    have e : ((share * P + P / (2 * td.i) + 1 / 2) * bd + 1 / 2) / P
        = share * bd + (bd : ℚ) / (2 * td.i) + (bd : ℚ) / (2 * P) + 1 / (2 * P) := by
      field_simp
    linarith
  · -- lower
    have s1 : ((share * P - P / (2 * td.i) - 1 / 2 - 1 / P) * bd - 1 / 2) / P ≤ (x.i : ℚ) / P := by
      apply div_le_div_of_nonneg_right _ hp.le
      have := mul_le_mul_of_nonneg_right w_lo hbd
      linarith
    have e : ((share * P - P / (2 * td.i) - 1 / 2 - 1 / P) * bd - 1 / 2) / P
        = share * bd - (bd : ℚ) / (2 * td.i) - (bd : ℚ) / (2 * P) - (bd : ℚ) / (P * P) - 1 / (2 * P) := by
      field_simp
    have hPP : (bd : ℚ) / (P * P) ≤ (bd : ℚ) / (2 * P) := by
      apply div_le_div_of_nonneg_left hbd (by positivity)
      have hP2 : (2 : ℚ) ≤ P := by
        have : 2 ≤ P := by rw [P_val]; decide
        exact_mod_cast this
      nlinarith
    have : (bd : ℚ) / (2 * P) + (bd : ℚ) / (2 * P) = (bd : ℚ) / P := by field_simp; ring
    linarith

/-- every reward tuple belongs to a pool of the list and is at most that pool's `calcPoolDistribution` -/
theorem rewardTuples_mem (rp : RewardPeriod) (td : Dec) (bd : Nat) :
    ∀ (pools : List (String × Pool)) (remaining mint : Nat) (acc l : List (String × Nat)) (m : Nat),
      rewardTuples rp td bd pools remaining mint acc = .ok (l, m) →
      ∀ t ∈ l, t ∈ acc ∨ ∃ e ∈ pools, e.2.sym = t.1 ∧
        ∃ pd, poolDistribution (multiplier rp e.2.sym) e.2.nBal td bd = .ok pd ∧ t.2 ≤ pd := by
  intro pools
  induction pools with
  | nil =>
    intro remaining mint acc l m h t ht
    unfold rewardTuples at h
    cases h
    left; simpa using ht
  | cons hd rest ih =>
    intro remaining mint acc l m h t ht
    obtain ⟨k, p⟩ := hd
    unfold rewardTuples at h
    split at h
    · cases h; left; simpa using ht
    · obtain ⟨pd, hpd, h⟩ := bind_ok h
      split at h
      · rcases ih _ _ _ _ _ h t ht with hacc | ⟨e, he, hr⟩
        · exact Or.inl hacc
        · exact Or.inr ⟨e, List.mem_cons_of_mem _ he, hr⟩
      · dsimp only at h
        rcases ih _ _ _ _ _ h t ht with hacc | ⟨e, he, hr⟩
        · rcases List.mem_cons.mp hacc with rfl | hacc
          · right
            refine ⟨(k, p), List.mem_cons_self, rfl, pd, hpd, ?_⟩
            dsimp only
            split <;> omega
          · exact Or.inl hacc
        · exact Or.inr ⟨e, List.mem_cons_of_mem _ he, hr⟩

end Sif.Clp

namespace Sif.Clp
open Sif Sif.Dec

/-- exact total weight of a pool list, in raw 10⁻¹⁸ units: Σ nBal·multiplier -/
def weightSum (rp : RewardPeriod) : List (String × Pool) → ℚ
  | [] => 0
  | (_, p) :: rest => (p.nBal : ℚ) * (multiplier rp p.sym).i + weightSum rp rest

theorem add_ok {a b c : Dec} (h : a.add b = .ok c) : c.i = a.i + b.i := by
  unfold Dec.add at h; exact chk_ok h

/-- `calcTotalDepth`: the total the hook computes is the exact weight sum up to half a unit of 10⁻¹⁸ per pool -/
theorem totalDepth_err (rp : RewardPeriod) :
    ∀ (pools : List (String × Pool)) (acc td : Dec),
      (∀ e ∈ pools, 0 ≤ (multiplier rp e.2.sym).i) → 0 ≤ acc.i →
      totalDepth rp pools acc = .ok td →
      0 ≤ td.i ∧ (td.i : ℚ) ≤ acc.i + weightSum rp pools + (pools.length : ℚ) / 2 ∧
      (acc.i : ℚ) + weightSum rp pools - (pools.length : ℚ) / 2 ≤ (td.i : ℚ) := by
  intro pools
  induction pools with
  | nil =>
    intro acc td _ hacc h
    unfold totalDepth at h
    cases h
    simp [weightSum, hacc]
  | cons hd rest ih =>
    intro acc td hm hacc h
    obtain ⟨k, p⟩ := hd
    unfold totalDepth at h
    obtain ⟨w, hw, h⟩ := bind_ok h
    obtain ⟨acc', ha, h⟩ := bind_ok h
    have hn0 : 0 ≤ (Dec.ofNat p.nBal).i := by rw [ofNat_i]; exact Int.natCast_nonneg _
    have hmp : 0 ≤ (multiplier rp p.sym).i := hm (k, p) List.mem_cons_self
    obtain ⟨w0, w1, w2⟩ := mul_err hn0 hmp hw
    have hp : (0 : ℚ) < (P : ℚ) := by exact_mod_cast P_pos
    have e0 : ((Dec.ofNat p.nBal).i : ℚ) * (multiplier rp p.sym).i / P = (p.nBal : ℚ) * (multiplier rp p.sym).i := by
      rw [ofNat_i]; push_cast; field_simp
    rw [e0] at w1 w2
    have hacc' := add_ok ha
    have hacc0 : 0 ≤ acc'.i := by rw [hacc']; omega
    obtain ⟨r0, r1, r2⟩ := ih acc' td (fun e he => hm e (List.mem_cons_of_mem _ he)) hacc0 h
    have hq : (acc'.i : ℚ) = acc.i + w.i := by rw [hacc']; push_cast; ring
    refine ⟨r0, ?_, ?_⟩
    · simp only [weightSum, List.length_cons]; push_cast; rw [hq] at r1; linarith
    · simp only [weightSum, List.length_cons]; push_cast; rw [hq] at r2; linarith

end Sif.Clp
