import Sif.Proofs.C15
set_option linter.unusedSimpArgs false
/-
  C15 — handler-level and step-level lemmas (what an accepted message implies), used by the
  history theorems of Sif/Props/C15.lean.
-/
namespace Sif.Proofs.C15
open Sif Sif.Unlock Sif.Spec.C15

/-! ### unwrapping the handlers -/
theorem unlockH_ok {L C : Nat} {h : Int} {s : Option LP} {u : Nat} {o : Option LP}
    (hok : unlockH L C h s u = .ok o) : ∃ lp, s = some lp ∧ unlockLP L C h lp u = .ok o := by
  cases s with
  | none => cases hok
  | some lp => exact ⟨lp, rfl, hok⟩

theorem cancelH_ok {L C : Nat} {h : Int} {s : Option LP} {u : Nat} {o : Option LP}
    (hok : cancelH L C h s u = .ok o) : ∃ lp, s = some lp ∧ cancelLP L C h lp u = .ok o := by
  cases s with
  | none => cases hok
  | some lp => exact ⟨lp, rfl, hok⟩

theorem removeUnitsH_ok {L C : Nat} {h : Int} {s : Option LP} {w : Nat} {o : Option LP}
    (hok : removeUnitsH L C h s w = .ok o) :
    ∃ lp left, s = some lp ∧ removeCore L h lp.units (prune L C h lp.unlocks) left = .ok o := by
  unfold removeUnitsH at hok
  split at hok
  · cases hok
  · cases s with
    | none => cases hok
    | some lp =>
      simp only [removeUnitsLP] at hok
      split at hok
      · cases hok
      · cases hl : liftP (leftFromUnits lp.units w) with
        | error e => rw [hl] at hok; cases hok
        | ok left => rw [hl] at hok; exact ⟨lp, left, rfl, hok⟩

theorem removeH_ok {L C : Nat} {h : Int} {s : Option LP} {wb a : Int} {o : Option LP}
    (hok : removeH L C h s wb a = .ok o) :
    ∃ lp left, s = some lp ∧ removeCore L h lp.units (prune L C h lp.unlocks) left = .ok o := by
  unfold removeH at hok
  split at hok
  · cases hok
  · cases s with
    | none => cases hok
    | some lp =>
      simp only [removeLP] at hok
      split at hok
      · cases hok
      · simp only [removeLP2] at hok
        cases hm : liftP (convWBasis lp.units wb.toNat) with
        | error e => rw [hm] at hok; cases hok
        | ok mu =>
          rw [hm] at hok
          simp only at hok
          split at hok
          · cases hok
          · cases hl : liftP (leftFromWBasis lp.units wb.toNat) with
            | error e => rw [hl] at hok; cases hok
            | ok left => rw [hl] at hok; exact ⟨lp, left, rfl, hok⟩

theorem addH_ok {s : Option LP} {m : Nat} {o : Option LP} (hok : addH s m = .ok o) :
    ∃ lp, o = some lp ∧ lp.unlocks = unlocksOf s ∧ unitsOf s ≤ lp.units := by
  cases s with
  | none => simp only [addH, Except.ok.injEq] at hok; exact ⟨⟨m, []⟩, hok.symm, rfl, Nat.zero_le _⟩
  | some lp =>
    simp only [addH] at hok
    cases ha : liftP (Uint.add lp.units m) with
    | error e => rw [ha] at hok; cases hok
    | ok u =>
      rw [ha] at hok
      simp only [Except.ok.injEq] at hok
      refine ⟨_, hok.symm, rfl, ?_⟩
      unfold Uint.add Uint.chk liftP at ha
      split at ha
      · rename_i heq
        split at heq
        · cases heq; cases ha; simp [unitsOf]
        · cases heq
      · cases ha

/-! ### the margin-health gate only ever refuses -/
theorem gate_ok {hc : Health} {r : Except Err (Option LP)} {o : Option LP} (h : gate hc r = .ok o) : r = .ok o := by
  cases r with
  | error e => simp only [gate] at h; split at h <;> cases h
  | ok v => cases hc <;> simp [gate, gateAfter] at h <;> rw [h]

theorem gate_err_bal {hc : Health} {r : Except Err (Option LP)} (h : gate hc r = .error .bal) : r = .error .bal := by
  cases r with
  | error e =>
    simp only [gate] at h
    split at h
    · cases h
    · exact h
  | ok v => cases hc <;> simp [gate, gateAfter] at h

theorem gate_not_pass {hc : Health} {r : Except Err (Option LP)} (hne : hc ≠ .pass) : ∀ o, gate hc r ≠ .ok o := by
  intro o h
  cases r with
  | error e => simp only [gate] at h; split at h <;> cases h
  | ok v => cases hc <;> simp [gate, gateAfter] at h <;> exact hne rfl

/-! ### the transaction wrapper -/
theorem commit_ok {s : St} {k : String} {r : Except Err (Option LP)} {s' : St}
    (h : commit s k r = (s', .ok)) : ∃ v, r = .ok v ∧ s' = s.set k v := by
  cases r with
  | ok v => simp only [commit, Prod.mk.injEq] at h; exact ⟨v, rfl, h.1.symm⟩
  | error e => simp only [commit, Prod.mk.injEq] at h; cases h.2

theorem commit_err {s : St} {k : String} {r : Except Err (Option LP)} {s' : St} {e : Err}
    (h : commit s k r = (s', .err e)) : r = .error e ∧ s' = s := by
  cases r with
  | ok v => simp only [commit, Prod.mk.injEq] at h; cases h.2
  | error e' =>
    simp only [commit, Prod.mk.injEq, Res.err.injEq] at h
    exact ⟨by rw [h.2], h.1.symm⟩

theorem set_same (s : St) (k : String) (v : Option LP) : (s.set k v).lps k = v := by simp [St.set]
theorem set_other (s : St) {k k' : String} (v : Option LP) (h : k' ≠ k) : (s.set k v).lps k' = s.lps k' := by
  simp [St.set, h]

/-! ### heights -/
theorem heightsOK_mono {h h' : Int} {rs : List Rec} (hle : h ≤ h') (hh : heightsOK h rs = true) :
    heightsOK h' rs = true := by
  unfold heightsOK at *
  rw [List.all_eq_true] at *
  intro r hr
  have := hh r hr
  simp only [Bool.and_eq_true, decide_eq_true_eq] at this ⊢
  omega

theorem heightsOK_filter {h : Int} {rs : List Rec} (p : Rec → Bool) (hh : heightsOK h rs = true) :
    heightsOK h (rs.filter p) = true := by
  unfold heightsOK at *
  rw [List.all_eq_true] at *
  intro r hr
  exact hh r (List.mem_filter.mp hr).1

theorem heightsOK_consume {hc : Int} (any : Bool) (L : Nat) (h : Int) (rs : List Rec) (u : Nat)
    (hh : heightsOK hc rs = true) : heightsOK hc (consume any L h rs u).1 = true := by
  induction rs generalizing u with
  | nil => simp [consume, heightsOK]
  | cons r rs ih =>
    unfold heightsOK at hh
    simp only [List.all_cons, Bool.and_eq_true] at hh
    have ih' := fun u => ih u (by unfold heightsOK; exact hh.2)
    simp only [consume]
    cases he : (any || maturedGo L h r)
    · simp only [Bool.false_eq_true, if_false]
      unfold heightsOK
      simp only [List.all_cons, Bool.and_eq_true]
      exact ⟨hh.1, by have := ih' u; unfold heightsOK at this; exact this⟩
    · simp only [if_true]
      split
      · unfold heightsOK
        simp only [List.all_cons, Bool.and_eq_true]
        exact ⟨hh.1, by have := ih' (u - r.units); unfold heightsOK at this; exact this⟩
      · unfold heightsOK
        simp only [List.all_cons, Bool.and_eq_true]
        exact ⟨hh.1, hh.2⟩

theorem heightsOK_append_one {h : Int} {rs : List Rec} {u : Nat} (h0 : 0 ≤ h) (hh : heightsOK h rs = true) :
    heightsOK h (rs ++ [⟨h, u⟩]) = true := by
  unfold heightsOK at *
  rw [List.all_append, hh]
  simp [h0]

theorem chk_ok {i : Int} {d : Dec} (h : Dec.chk i = .ok d) : d.i = i := by
  unfold Dec.chk at h
  split at h
  · cases h; rfl
  · cases h

theorem leftFromUnits_ok {units w left : Nat} (hw : w ≤ units) (h : leftFromUnits units w = .ok left) :
    left = units - w := by
  unfold leftFromUnits decOfNat at h
  obtain ⟨uF, h1, h⟩ := bind_ok h
  obtain ⟨wF, h2, h⟩ := bind_ok h
  obtain ⟨d, h3, h⟩ := bind_ok h
  have e1 := chk_ok h1
  have e2 := chk_ok h2
  unfold Dec.sub at h3
  have e3 := chk_ok h3
  rw [e1, e2] at e3
  have hP : Dec.P = 1000000000000000000 := by decide
  have hd : d.i = (((units - w) * Dec.P : Nat) : Int) := by
    rw [e3, hP]; omega
  unfold Uint.ofInt Dec.roundInt Dec.chopRound at h
  rw [hd] at h
  have hnn : ¬ ((((units - w) * Dec.P : Nat) : Int) < 0) := by omega
  simp only [hnn, if_false, Int.natAbs_natCast] at h
  have hq : Dec.chopRoundNat ((units - w) * Dec.P) = units - w := by
    unfold Dec.chopRoundNat Dec.half
    simp only [hP]
    have : (units - w) * 1000000000000000000 % 1000000000000000000 = 0 := Nat.mul_mod_left _ _
    have h2 : (units - w) * 1000000000000000000 / 1000000000000000000 = units - w := Nat.mul_div_cancel _ (by omega)
    simp [this, h2]
  rw [hq] at h
  have hnn2 : ¬ (((units - w : Nat) : Int) < 0) := by omega
  simp only [hnn2, if_false, Int.toNat_natCast] at h
  unfold Uint.chk at h
  split at h
  · cases h; rfl
  · cases h

/-- `MsgRemoveLiquidityUnits` burns exactly `WithdrawUnits` -/
theorem removeUnitsH_ok_exact {L C : Nat} {h : Int} {s : Option LP} {w : Nat} {o : Option LP}
    (hok : removeUnitsH L C h s w = .ok o) :
    ∃ lp, s = some lp ∧ w ≤ lp.units ∧ 0 < w ∧
      removeCore L h lp.units (prune L C h lp.unlocks) (lp.units - w) = .ok o := by
  unfold removeUnitsH at hok
  split at hok
  · cases hok
  · rename_i hw0
    cases s with
    | none => cases hok
    | some lp =>
      simp only [removeUnitsLP] at hok
      split at hok
      · cases hok
      · rename_i hgt
        cases hl : leftFromUnits lp.units w with
        | error e => rw [hl] at hok; simp only [liftP] at hok; cases hok
        | ok left =>
          rw [hl] at hok
          simp only [liftP] at hok
          have := leftFromUnits_ok (by omega) hl
          subst this
          exact ⟨lp, rfl, by omega, by omega, hok⟩

/-- lingering zero-unit records never count: every handler looks at the stored list only through
    `PruneUnlockRecords`, which drops them -/
theorem prune_filter_nonzero (L C : Nat) (h : Int) (rs : List Rec) :
    prune L C h (rs.filter nonzero) = prune L C h rs := by
  unfold prune
  rw [List.filter_filter]
  congr 1
  funext r
  simp only [keepRec, nonzero]
  cases expiredGo L C h r <;> simp

/-! ### step inversions -/
theorem step_removeUnits_ok {s s' : St} {h : Int} {k : String} {w : Nat} {hc : Health}
    (hok : step s h (.removeUnits k w hc) = (s', .ok)) :
    ∃ lp left o, s.lps k = some lp ∧
      removeCore s.L h lp.units (prune s.L s.C h lp.unlocks) left = .ok o ∧ s' = s.set k o := by
  obtain ⟨o, hr, hs⟩ := commit_ok (show commit s k (gate hc (removeUnitsH s.L s.C h (s.lps k) w)) = (s', .ok) from hok)
  obtain ⟨lp, left, hlp, hc⟩ := removeUnitsH_ok (gate_ok hr)
  exact ⟨lp, left, o, hlp, hc, hs⟩

theorem step_remove_ok {s s' : St} {h : Int} {k : String} {wb a : Int} {hc : Health}
    (hok : step s h (.remove k wb a hc) = (s', .ok)) :
    ∃ lp left o, s.lps k = some lp ∧
      removeCore s.L h lp.units (prune s.L s.C h lp.unlocks) left = .ok o ∧ s' = s.set k o := by
  obtain ⟨o, hr, hs⟩ := commit_ok (show commit s k (gate hc (removeH s.L s.C h (s.lps k) wb a)) = (s', .ok) from hok)
  obtain ⟨lp, left, hlp, hc⟩ := removeH_ok (gate_ok hr)
  exact ⟨lp, left, o, hlp, hc, hs⟩

/-- what an accepted removal implies, in the judge's own predicates -/
theorem removal_accepted {s : St} {h : Int} {k : String} {lp : LP} {left : Nat} {o : Option LP}
    (hok : removeCore s.L h lp.units (prune s.L s.C h lp.unlocks) left = .ok o) :
    unitsOf ((s.set k o).lps k) ≤ lp.units ∧
    removeOK s.L s.C h lp.unlocks (lp.units - unitsOf ((s.set k o).lps k)) true = true ∧
    consumedOK s.L lp.unlocks (unlocksOf ((s.set k o).lps k)) (lp.units - unitsOf ((s.set k o).lps k)) true = true := by
  obtain ⟨hle, hu, _, hcons, henv, _⟩ := removeCore_ok hok
  rw [set_same, hu]
  refine ⟨hle, ?_, ?_⟩
  · unfold removeOK allowed
    by_cases hL : s.L = 0
    · simp [hL]
    · cases he : inEnvelope s.L s.C h lp.unlocks
      · simp
      · simp [hL, henv hL he]
  · unfold consumedOK
    by_cases hL : s.L = 0
    · simp [hL]
    · simp [hL, hcons hL]

/-! ### the two invariants along a history -/

/-- no unit used twice (ledger form) -/
def J (s : St) (g : String → Ledger) : Prop :=
  ∀ k, (g k).burnedLocked + total (unlocksOf (s.lps k)) ≤ (g k).requested

theorem upd_self (g : String → Ledger) (k : String) : upd g k (g k) = g := by
  funext k'; unfold upd; split
  · rename_i h; rw [h]
  · rfl

theorem J_set {s : St} {g : String → Ledger} {k : String} {v : Option LP} {dr db : Nat} (hJ : J s g)
    (hv : total (unlocksOf v) + db ≤ total (unlocksOf (s.lps k)) + dr) :
    J (s.set k v) (upd g k ⟨(g k).requested + dr, (g k).burnedLocked + db⟩) := by
  intro k'
  by_cases hk : k' = k
  · subst hk
    have := hJ k'
    simp only [set_same, upd, if_true]
    omega
  · have := hJ k'
    simp only [set_other s v hk, upd, if_neg hk]
    exact this

theorem J_set0 {s : St} {g : String → Ledger} {k : String} {v : Option LP} (hJ : J s g)
    (hv : total (unlocksOf v) ≤ total (unlocksOf (s.lps k))) : J (s.set k v) g := by
  have := J_set (dr := 0) (db := 0) hJ (by omega : total (unlocksOf v) + 0 ≤ total (unlocksOf (s.lps k)) + 0)
  have e : upd g k ⟨(g k).requested + 0, (g k).burnedLocked + 0⟩ = g := by
    have : (⟨(g k).requested + 0, (g k).burnedLocked + 0⟩ : Ledger) = g k := rfl
    rw [this, upd_self]
  rwa [e] at this

/-- the removal case of `J_step`, shared by the two removal messages -/
theorem J_removal {s : St} {g : String → Ledger} {h : Int} {k : String} (hJ : J s g)
    (r : Except Err (Option LP))
    (hr : ∀ o, r = .ok o → ∃ lp left, s.lps k = some lp ∧
        removeCore s.L h lp.units (prune s.L s.C h lp.unlocks) left = .ok o) :
    J (commit s k r).1
      (upd g k ((g k).onRemoval (commit s k r).2.isOk s.L
        (unitsOf (s.lps k) - unitsOf ((commit s k r).1.lps k)))) := by
  cases r with
  | error e =>
    simp only [commit, Ledger.onRemoval, Res.isOk, Bool.false_and, Bool.false_eq_true, if_false, upd_self]
    exact hJ
  | ok o =>
    obtain ⟨lp, left, hlp, hc⟩ := hr o rfl
    obtain ⟨hle, hu, htot, hcons, _, _⟩ := removeCore_ok hc
    simp only [commit, Ledger.onRemoval, Res.isOk, Bool.true_and, set_same]
    rw [hu, hlp]
    have e1 : unitsOf (some lp) = lp.units := rfl
    have e2 : unlocksOf (some lp) = lp.unlocks := rfl
    rw [e1]
    by_cases hL : s.L = 0
    · simp only [hL, ne_eq, not_true_eq_false, decide_false, Bool.false_eq_true, if_false, upd_self]
      exact J_set0 hJ (by rw [hlp, e2]; exact htot)
    · simp only [ne_eq, hL, not_false_eq_true, decide_true, if_true]
      have := J_set (dr := 0) (db := lp.units - left) (k := k) (v := o) hJ
        (by rw [hlp, e2]; have := hcons hL; omega)
      exact this

theorem J_step {s : St} {g : String → Ledger} (h : Int) (op : Op) (hJ : J s g) :
    J (step s h op).1 (ledgerStep s h op g) := by
  cases op with
  | unlock k u =>
    simp only [step, ledgerStep]
    cases hr : unlockH s.L s.C h (s.lps k) u with
    | error e =>
      simp only [commit, Ledger.onUnlock, Res.isOk, Bool.false_eq_true, if_false, upd_self]
      exact hJ
    | ok o =>
      obtain ⟨lp, hlp, hu⟩ := unlockH_ok hr
      obtain ⟨ho, hle⟩ := unlockLP_ok hu
      simp only [commit, Ledger.onUnlock, Res.isOk, if_true]
      have := J_set (dr := u) (db := 0) (k := k) (v := o) hJ (by
        rw [hlp, ho]; simp only [unlocksOf, total_append, total]
        have := total_prune_le s.L s.C h lp.unlocks
        omega)
      exact this
  | cancel k u =>
    simp only [step, ledgerStep]
    cases hr : cancelH s.L s.C h (s.lps k) u with
    | error e => exact hJ
    | ok o =>
      obtain ⟨lp, hlp, hu⟩ := cancelH_ok hr
      obtain ⟨st, ho, hle⟩ := cancelLP_ok hu
      simp only [commit]
      exact J_set0 hJ (by rw [hlp, ho]; exact hle)
  | removeUnits k w hc =>
    simp only [step, ledgerStep]
    exact J_removal hJ _ (fun o ho => removeUnitsH_ok (gate_ok ho))
  | remove k wb a hc =>
    simp only [step, ledgerStep]
    exact J_removal hJ _ (fun o ho => removeH_ok (gate_ok ho))
  | add k m =>
    simp only [step, ledgerStep]
    cases hr : addH (s.lps k) m with
    | error e => exact hJ
    | ok o =>
      obtain ⟨lp, ho, hun, _⟩ := addH_ok hr
      simp only [commit]
      exact J_set0 hJ (by rw [ho]; simp only [unlocksOf, hun]; exact Nat.le_refl _)
  | setParams L C => exact hJ

theorem J_run {s : St} {g : String → Ledger} (ops : List (Int × Op)) (hJ : J s g) :
    J (runL s g ops).1 (runL s g ops).2 := by
  induction ops generalizing s g with
  | nil => exact hJ
  | cons p ops ih =>
    obtain ⟨h, op⟩ := p
    simp only [runL]
    exact ih (J_step h op hJ)

/-- outstanding ≤ units, and no stored request is from the future -/
def WF (hc : Int) (s : St) : Prop :=
  ∀ k lp, s.lps k = some lp → total lp.unlocks ≤ lp.units ∧ heightsOK hc lp.unlocks = true

theorem WF_mono {hc hc' : Int} {s : St} (hle : hc ≤ hc') (hw : WF hc s) : WF hc' s :=
  fun k lp hlp => ⟨(hw k lp hlp).1, heightsOK_mono hle (hw k lp hlp).2⟩

theorem WF_set {hc : Int} {s : St} {k : String} {v : Option LP} (hw : WF hc s)
    (hv : ∀ lp, v = some lp → total lp.unlocks ≤ lp.units ∧ heightsOK hc lp.unlocks = true) :
    WF hc (s.set k v) := by
  intro k' lp hlp
  by_cases hk : k' = k
  · subst hk; rw [set_same] at hlp; exact hv lp hlp
  · rw [set_other s v hk] at hlp; exact hw k' lp hlp

theorem WF_removal {s : St} {h : Int} {k : String} (hw : WF h s) (h1 : h < 9223372036854775808)
    (r : Except Err (Option LP))
    (hr : ∀ o, r = .ok o → ∃ lp left, s.lps k = some lp ∧
        removeCore s.L h lp.units (prune s.L s.C h lp.unlocks) left = .ok o) :
    WF h (commit s k r).1 := by
  cases r with
  | error e => exact hw
  | ok o =>
    obtain ⟨lp, left, hlp, hc⟩ := hr o rfl
    obtain ⟨hinv, hh⟩ := hw k lp hlp
    simp only [commit]
    apply WF_set hw
    intro lp' ho
    subst ho
    obtain ⟨hle, hu, htot, hcons, _, hun⟩ := removeCore_ok hc
    simp only [unitsOf, unlocksOf] at hu htot hcons
    refine ⟨?_, ?_⟩
    · by_cases hL : s.L = 0
      · have hc' := hc
        rw [hL] at hc'
        have := removeCore_ok_lock_zero hc' hh h1 hinv
        simpa [unlocksOf, unitsOf] using this
      · have := hcons hL
        omega
    · rw [hun lp' rfl]
      exact heightsOK_consume _ _ _ _ _ (heightsOK_filter _ hh)

theorem WF_step {s : St} {hc : Int} (h : Int) (op : Op) (h0 : 0 ≤ hc) (hle : hc ≤ h)
    (h1 : h < 9223372036854775808) (hw : WF hc s) : WF h (step s h op).1 := by
  have hw' := WF_mono hle hw
  cases op with
  | unlock k u =>
    simp only [step]
    cases hr : unlockH s.L s.C h (s.lps k) u with
    | error e => exact hw'
    | ok o =>
      obtain ⟨lp, hlp, hu⟩ := unlockH_ok hr
      obtain ⟨ho, hle2⟩ := unlockLP_ok hu
      simp only [commit]
      apply WF_set hw'
      intro lp' hlp'
      rw [ho] at hlp'
      cases hlp'
      simp only [total_append, total]
      refine ⟨by omega, ?_⟩
      exact heightsOK_append_one (by omega) (heightsOK_filter _ (hw' k lp hlp).2)
  | cancel k u =>
    simp only [step]
    cases hr : cancelH s.L s.C h (s.lps k) u with
    | error e => exact hw'
    | ok o =>
      obtain ⟨lp, hlp, hu⟩ := cancelH_ok hr
      simp only [commit]
      apply WF_set hw'
      intro lp' hlp'
      subst hlp'
      obtain ⟨hinv, hh⟩ := hw' k lp hlp
      unfold cancelLP at hu
      cases hx : useUnlocked s.L h (prune s.L s.C h lp.unlocks) u true with
      | error e => rw [hx] at hu; cases hu
      | ok p =>
        obtain ⟨caller, st⟩ := p
        rw [hx] at hu
        simp only [Except.ok.injEq, Option.some.injEq] at hu
        subst hu
        obtain ⟨hc1, hs1, _, hle3⟩ := useUnlocked_ok hx
        have := total_prune_le s.L s.C h lp.unlocks
        have := total_filter_nonzero caller
        simp only
        refine ⟨by rw [hs1]; omega, ?_⟩
        rw [hs1, hc1]
        exact heightsOK_filter _ (heightsOK_consume _ _ _ _ _ (heightsOK_filter _ hh))
  | removeUnits k w hc =>
    simp only [step]
    exact WF_removal hw' h1 _ (fun o ho => removeUnitsH_ok (gate_ok ho))
  | remove k wb a hc =>
    simp only [step]
    exact WF_removal hw' h1 _ (fun o ho => removeH_ok (gate_ok ho))
  | add k m =>
    simp only [step]
    cases hr : addH (s.lps k) m with
    | error e => exact hw'
    | ok o =>
      obtain ⟨lp, ho, hun, hunits⟩ := addH_ok hr
      simp only [commit]
      apply WF_set hw'
      intro lp' hlp'
      rw [ho] at hlp'
      cases hlp'
      cases hs : s.lps k with
      | none => rw [hs] at hun; simp only [unlocksOf] at hun; rw [hun]; simp [total, heightsOK]
      | some lp0 =>
        rw [hs] at hun hunits
        simp only [unlocksOf, unitsOf] at hun hunits
        obtain ⟨hinv, hh⟩ := hw' k lp0 hs
        rw [hun]
        exact ⟨by omega, hh⟩
  | setParams L C => exact hw'

theorem WF_run {s : St} {hc : Int} (ops : List (Int × Op)) (h0 : 0 ≤ hc) (hm : heightsMono hc ops = true)
    (hw : WF hc s) : ∃ hc', WF hc' (run s ops) := by
  induction ops generalizing s hc with
  | nil => exact ⟨hc, hw⟩
  | cons p ops ih =>
    obtain ⟨h, op⟩ := p
    simp only [heightsMono, Bool.and_eq_true, decide_eq_true_eq] at hm
    obtain ⟨⟨hle, h1⟩, hrest⟩ := hm
    simp only [run]
    exact ih (by omega) hrest (WF_step h op h0 hle (by unfold two63 at h1; exact h1) hw)

/-! ### stored records stay within the accepted requests, height by height -/

theorem unitsAt_cons (r : Rec) (rs : List Rec) (q : Int) :
    unitsAt (r :: rs) q = (if r.height = q then r.units else 0) + unitsAt rs q := by
  unfold unitsAt
  by_cases h : r.height = q
  · simp [List.filter, h, total]
  · simp [List.filter, h, total]

theorem unitsAt_append (a b : List Rec) (q : Int) : unitsAt (a ++ b) q = unitsAt a q + unitsAt b q := by
  unfold unitsAt; rw [List.filter_append, total_append]

theorem unitsAt_filter_le (p : Rec → Bool) (rs : List Rec) (q : Int) : unitsAt (rs.filter p) q ≤ unitsAt rs q := by
  induction rs with
  | nil => simp [unitsAt, total]
  | cons r rs ih =>
    simp only [List.filter]
    cases hp : p r
    · simp only [unitsAt_cons]; omega
    · simp only [unitsAt_cons]; omega

theorem unitsAt_shrinks {a b : List Rec} (h : shrinks a b = true) (q : Int) : unitsAt b q ≤ unitsAt a q := by
  induction a generalizing b with
  | nil => cases b with
    | nil => exact Nat.le_refl _
    | cons y ys => simp [shrinks] at h
  | cons x xs ih =>
    cases b with
    | nil => simp [shrinks] at h
    | cons y ys =>
      simp only [shrinks, Bool.and_eq_true, decide_eq_true_eq] at h
      obtain ⟨⟨hh, hu⟩, hrest⟩ := h
      have := ih hrest
      simp only [unitsAt_cons, hh]
      split <;> omega

/-- stored units at every height ≤ requested units at that height -/
def G (s : St) (g : String → List Rec) : Prop :=
  ∀ k q, unitsAt (unlocksOf (s.lps k)) q ≤ unitsAt (g k) q

theorem G_set {s : St} {g : String → List Rec} {k : String} {v : Option LP} (hG : G s g)
    (hv : ∀ q, unitsAt (unlocksOf v) q ≤ unitsAt (unlocksOf (s.lps k)) q) : G (s.set k v) g := by
  intro k' q
  by_cases hk : k' = k
  · subst hk; rw [set_same]; exact Nat.le_trans (hv q) (hG k' q)
  · rw [set_other s v hk]; exact hG k' q

theorem G_commit_shrink {s : St} {g : String → List Rec} {k : String} (hG : G s g) (r : Except Err (Option LP))
    (hr : ∀ o, r = .ok o → ∀ q, unitsAt (unlocksOf o) q ≤ unitsAt (unlocksOf (s.lps k)) q) :
    G (commit s k r).1 g := by
  cases r with
  | error e => exact hG
  | ok o => exact G_set hG (hr o rfl)

theorem removeCore_unitsAt {L C : Nat} {h : Int} {units : Nat} {stored : List Rec} {left : Nat} {o : Option LP}
    (hok : removeCore L h units (prune L C h stored) left = .ok o) (q : Int) :
    unitsAt (unlocksOf o) q ≤ unitsAt stored q := by
  obtain ⟨_, _, _, _, _, hun⟩ := removeCore_ok hok
  cases o with
  | none => simp [unlocksOf, unitsAt, total]
  | some lp =>
    simp only [unlocksOf]
    rw [hun lp rfl]
    exact Nat.le_trans (unitsAt_shrinks (consume_shrinks _ _ _ _ _) q) (unitsAt_filter_le _ _ q)

theorem G_step {s : St} {g : String → List Rec} (h : Int) (op : Op) (hG : G s g) :
    G (step s h op).1 (reqStep s h op g) := by
  cases op with
  | unlock k u =>
    simp only [step, reqStep]
    cases hr : unlockH s.L s.C h (s.lps k) u with
    | error e => simp only [commit, Res.isOk, cond_false]; exact hG
    | ok o =>
      obtain ⟨lp, hlp, hu⟩ := unlockH_ok hr
      obtain ⟨ho, _⟩ := unlockLP_ok hu
      simp only [commit, Res.isOk, cond_true]
      intro k' q
      by_cases hk : k' = k
      · subst hk
        have := hG k' q
        rw [hlp] at this
        simp only [unlocksOf] at this
        have hp := unitsAt_filter_le (keepRec s.L s.C h) lp.unlocks q
        simp only [set_same, updR, if_true, ho, unlocksOf, unitsAt_append]
        unfold prune
        omega
      · simp only [set_other s o hk, updR, if_neg hk]; exact hG k' q
  | cancel k u =>
    simp only [step, reqStep]
    refine G_commit_shrink hG _ ?_
    intro o ho q
    obtain ⟨lp, hlp, hu⟩ := cancelH_ok ho
    unfold cancelLP at hu
    cases hx : useUnlocked s.L h (prune s.L s.C h lp.unlocks) u true with
    | error e => rw [hx] at hu; cases hu
    | ok p =>
      obtain ⟨caller, st⟩ := p
      rw [hx] at hu
      simp only [Except.ok.injEq] at hu
      subst hu
      obtain ⟨hc1, hs1, _, _⟩ := useUnlocked_ok hx
      rw [hlp]
      simp only [unlocksOf]
      rw [hs1, hc1]
      exact Nat.le_trans (unitsAt_filter_le _ _ q)
        (Nat.le_trans (unitsAt_shrinks (consume_shrinks _ _ _ _ _) q) (unitsAt_filter_le _ _ q))
  | removeUnits k w hc =>
    simp only [step, reqStep]
    refine G_commit_shrink hG _ ?_
    intro o ho q
    obtain ⟨lp, left, hlp, hcq⟩ := removeUnitsH_ok (gate_ok ho)
    rw [hlp]; exact removeCore_unitsAt hcq q
  | remove k wb a hc =>
    simp only [step, reqStep]
    refine G_commit_shrink hG _ ?_
    intro o ho q
    obtain ⟨lp, left, hlp, hcq⟩ := removeH_ok (gate_ok ho)
    rw [hlp]; exact removeCore_unitsAt hcq q
  | add k m =>
    simp only [step, reqStep]
    refine G_commit_shrink hG _ ?_
    intro o ho q
    obtain ⟨lp, ho', hun, _⟩ := addH_ok ho
    rw [ho']; simp only [unlocksOf, hun]; exact Nat.le_refl _
  | setParams L C => exact hG

theorem G_run {s : St} {g : String → List Rec} (ops : List (Int × Op)) (hG : G s g) :
    G (runR s g ops).1 (runR s g ops).2 := by
  induction ops generalizing s g with
  | nil => exact hG
  | cons p ops ih =>
    obtain ⟨h, op⟩ := p
    simp only [runR]
    exact ih (G_step h op hG)

end Sif.Proofs.C15
