import Sif.Proofs.C04Remove
/-
  C04 — clause 4 for removals by basis points: tight (2·10⁻¹⁸) forms of the payout bounds of
  `CalculateWithdrawal`, and the backing inequality with the dust of DESIGN 4/C04.
-/

namespace Sif.Clp
open Sif Sif.Dec Sif.Spec.C04

/-- tight form of `withdraw_side_bound` -/
theorem withdraw_side_bound_tight {side Pu : Nat} {claim q ws : Dec} (hc : 0 < claim.i) (hcP : claim.i ≤ ((Pu * P : Nat) : Int))
    (hq : (Dec.ofNat Pu).quo claim = .ok q)
    (hs : (⟨((side * P : Nat) : Int)⟩ : Dec).quo q = .ok ws) :
    0 ≤ ws.i ∧ (ws.i : ℚ) / P ≤ (side : ℚ) * ((claim.i : ℚ) / P) / Pu * (1 + 2 / P) + 1 / 2 := by
  have hp : (0 : ℚ) < (P : ℚ) := by exact_mod_cast P_pos
  have hcq : (0 : ℚ) < (claim.i : ℚ) := by exact_mod_cast hc
  have hPu : (0 : ℚ) < (Pu : ℚ) := by
    have : (0 : Int) < ((Pu * P : Nat) : Int) := lt_of_lt_of_le hc hcP
    have h2 : 0 < Pu * P := by exact_mod_cast this
    have h3 : 0 < Pu := Nat.pos_of_mul_pos_right h2
    exact_mod_cast h3
  have hcPq : (claim.i : ℚ) ≤ (Pu : ℚ) * P := by
    have := hcP
    have h2 : ((claim.i : Int) : ℚ) ≤ (((Pu * P : Nat) : Int) : ℚ) := by exact_mod_cast this
    push_cast at h2; exact h2
  have hsq : (0 : ℚ) ≤ (side : ℚ) := Nat.cast_nonneg _
  have ha : 0 ≤ (Dec.ofNat Pu).i := Int.natCast_nonneg _
  obtain ⟨q0, q1, q2⟩ := quo_err ha hc hq
  have hx : ((Dec.ofNat Pu).i : ℚ) * P / (claim.i : ℚ) = (Pu : ℚ) * P * P / claim.i := by
    show (((Pu * P : Nat) : Int) : ℚ) * P / _ = _
    push_cast; ring
  rw [hx] at q1 q2
  set x : ℚ := (Pu : ℚ) * P * P / claim.i with hxdef
  have hxP : (P : ℚ) ≤ x := by
    simp only [hxdef]; rw [le_div_iff₀ hcq]; nlinarith
  have hP2 : (2 : ℚ) ≤ P := by
    have : 2 ≤ P := by rw [P_val]; decide
    exact_mod_cast this
  have hinvP : (1 : ℚ) / P ≤ 1 / 2 := by rw [div_le_div_iff₀ hp (by norm_num)]; linarith
  have hqlow : x - 1 ≤ (q.i : ℚ) := by linarith
  have hqpos : (0 : ℚ) < (q.i : ℚ) := by linarith
  have hqposI : 0 < q.i := by exact_mod_cast hqpos
  have has : (0 : Int) ≤ ((side * P : Nat) : Int) := Int.natCast_nonneg _
  obtain ⟨s0, s1, _⟩ := quo_err (a := ⟨((side * P : Nat) : Int)⟩) has hqposI hs
  have hnum : ((((side * P : Nat) : Int) : ℚ)) * P / (q.i : ℚ) = (side : ℚ) * P * P / q.i := by push_cast; ring
  rw [hnum] at s1
  refine ⟨s0, ?_⟩
  have hxpos : (0 : ℚ) < x := by linarith
  have hx2 : (2 : ℚ) ≤ x := by linarith
  have hfrac : (side : ℚ) * P * P / q.i ≤ (side : ℚ) * P * P / x * (1 + 2 / x) := by
    have h1 : (side : ℚ) * P * P / q.i ≤ (side : ℚ) * P * P / (x - 1) := by
      apply div_le_div_of_nonneg_left (by positivity) (by linarith) hqlow
    have h2 : (side : ℚ) * P * P / (x - 1) ≤ (side : ℚ) * P * P / x * (1 + 2 / x) := by
      have hx1 : (0 : ℚ) < x - 1 := by linarith
      rw [div_le_iff₀ hx1]
      have e : (side : ℚ) * P * P / x * (1 + 2 / x) * (x - 1) = (side : ℚ) * P * P * ((x + 2) * (x - 1) / (x * x)) := by
        field_simp
      rw [e]
      have : (1 : ℚ) ≤ (x + 2) * (x - 1) / (x * x) := by
        rw [le_div_iff₀ (by positivity)]; nlinarith
      nlinarith [mul_nonneg (mul_nonneg hsq hp.le) hp.le]
    linarith
  have hfair : (side : ℚ) * P * P / x = (side : ℚ) * ((claim.i : ℚ) / P) / Pu * P := by
    simp only [hxdef]; field_simp
  have h2x : (2 : ℚ) / x ≤ 2 / P := div_le_div_of_nonneg_left (by norm_num) hp hxP
  have hfairn : (0 : ℚ) ≤ (side : ℚ) * ((claim.i : ℚ) / P) / Pu := by positivity
  have hws : (ws.i : ℚ) ≤ (side : ℚ) * ((claim.i : ℚ) / P) / Pu * P * (1 + 2 / P) + 1 / 2 := by
    have : (side : ℚ) * P * P / x * (1 + 2 / x) ≤ (side : ℚ) * ((claim.i : ℚ) / P) / Pu * P * (1 + 2 / P) := by
      rw [hfair]
      apply mul_le_mul_of_nonneg_left _ (by positivity)
      linarith
    linarith
  have hdiv : (ws.i : ℚ) / P ≤ (side : ℚ) * ((claim.i : ℚ) / P) / Pu * (1 + 2 / P) + 1 / (2 * P) := by
    rw [div_le_iff₀ hp]
    have e : ((side : ℚ) * ((claim.i : ℚ) / P) / Pu * (1 + 2 / P) + 1 / (2 * P)) * P
        = (side : ℚ) * ((claim.i : ℚ) / P) / Pu * P * (1 + 2 / P) + 1 / 2 := by
      field_simp
    rw [e]; exact hws
  have hhalfP : (1 : ℚ) / (2 * P) ≤ 1 / 2 := by
    rw [div_le_div_iff₀ (by positivity) (by norm_num)]; linarith
  linarith


/-- tight form of `withdraw_le_prorata` -/
theorem withdraw_le_tight {Pu nD eD lu w n e left : Nat} (hw0 : 0 < w) (hw : w ≤ 10000) (hlu : lu ≤ Pu)
    (h : calculateWithdrawal Pu nD eD lu w = .ok (n, e, left)) :
    left ≤ lu ∧
    (n : ℚ) ≤ (nD : ℚ) * ((lu - left : Nat) : ℚ) / Pu * (1 + 2 / P) + 1 ∧
    (e : ℚ) ≤ (eD : ℚ) * ((lu - left : Nat) : ℚ) / Pu * (1 + 2 / P) + 1 := by
  unfold calculateWithdrawal at h
  obtain ⟨nF, hn, h⟩ := bind_ok h
  obtain ⟨eF, he, h⟩ := bind_ok h
  obtain ⟨luF, hl, h⟩ := bind_ok h
  obtain ⟨wF, hwf, h⟩ := bind_ok h
  obtain ⟨den, hden, h⟩ := bind_ok h
  obtain ⟨claim, hclaim, h⟩ := bind_ok h
  obtain ⟨q, hq, h⟩ := bind_ok h
  obtain ⟨wE, hwE, h⟩ := bind_ok h
  obtain ⟨q', hq', h⟩ := bind_ok h
  obtain ⟨wN, hwN, h⟩ := bind_ok h
  obtain ⟨lf, hlf, h⟩ := bind_ok h
  obtain ⟨n', hn', h⟩ := bind_ok h
  obtain ⟨e', he', h⟩ := bind_ok h
  obtain ⟨l', hl', h⟩ := bind_ok h
  have : n' = n ∧ e' = e ∧ l' = left := by cases h; exact ⟨rfl, rfl, rfl⟩
  obtain ⟨rfl, rfl, rfl⟩ := this
  have en : nF = ⟨((nD * P : Nat) : Int)⟩ := by have := decOfNatStr_i hn; cases nF; simp_all
  have ee : eF = ⟨((eD * P : Nat) : Int)⟩ := by have := decOfNatStr_i he; cases eF; simp_all
  have el : luF = ⟨((lu * P : Nat) : Int)⟩ := by have := decOfNatStr_i hl; cases luF; simp_all
  have ew : wF = ⟨((w * P : Nat) : Int)⟩ := by have := decOfNatStr_i hwf; cases wF; simp_all
  subst en ee el ew
  have hp : (0 : ℚ) < (P : ℚ) := by exact_mod_cast P_pos
  have hwq : (0 : ℚ) < (w : ℚ) := by exact_mod_cast hw0
  have hwq' : (w : ℚ) ≤ 10000 := by exact_mod_cast hw
  -- denominator = 10000 / w ≥ 1 (as a raw integer ≥ 10^18)
  have hb : (0 : Int) < ((w * P : Nat) : Int) := by have := Nat.mul_pos hw0 P_pos; exact_mod_cast this
  have ha : 0 ≤ (Dec.ofNat 10000).i := Int.natCast_nonneg _
  obtain ⟨d0, d1, d2⟩ := quo_err (b := ⟨((w * P : Nat) : Int)⟩) ha hb hden
  have hxd : ((Dec.ofNat 10000).i : ℚ) * P / (((w * P : Nat) : Int) : ℚ) = 10000 * (P : ℚ) / w := by
    show (((10000 * P : Nat) : Int) : ℚ) * P / _ = _
    push_cast; field_simp
  rw [hxd] at d2
  have hP2 : (2 : ℚ) ≤ P := by
    have : 2 ≤ P := by rw [P_val]; decide
    exact_mod_cast this
  have hinvP : (1 : ℚ) / P ≤ 1 / 2 := by rw [div_le_div_iff₀ hp (by norm_num)]; linarith
  have hxge : (P : ℚ) ≤ 10000 * (P : ℚ) / w := by rw [le_div_iff₀ hwq]; nlinarith
  have hP3 : (3 : ℚ) ≤ P := by
    have : 3 ≤ P := by rw [P_val]; decide
    exact_mod_cast this
  have hinvP3 : (1 : ℚ) / P ≤ 1 / 3 := by rw [div_le_div_iff₀ hp (by norm_num)]; linarith
  have hdenq : (P : ℚ) - 1 < (den.i : ℚ) := by linarith
  have hdenI : (P : Int) ≤ den.i := by
    have : ((P : Int) : ℚ) - 1 < (den.i : ℚ) := by exact_mod_cast hdenq
    have h2 : (P : Int) - 1 < den.i := by exact_mod_cast this
    omega
  have hdenpos : 0 < den.i := lt_of_lt_of_le (by have := P_pos; exact_mod_cast this) hdenI
  -- claim = lu / denominator ≤ lu
  have hla : (0 : Int) ≤ ((lu * P : Nat) : Int) := Int.natCast_nonneg _
  obtain ⟨c0, c1, _⟩ := quo_err (a := ⟨((lu * P : Nat) : Int)⟩) hla hdenpos hclaim
  have hclaim_le : claim.i ≤ ((lu * P : Nat) : Int) := by
    have hdq : (P : ℚ) ≤ (den.i : ℚ) := by exact_mod_cast hdenI
    have hnum : ((((lu * P : Nat) : Int) : ℚ)) * P / (den.i : ℚ) ≤ (lu : ℚ) * P := by
      rw [div_le_iff₀ (by linarith)]
      push_cast
      have : (0 : ℚ) ≤ (lu : ℚ) * P := by positivity
      nlinarith
    have : (claim.i : ℚ) < (((lu * P : Nat) : Int) : ℚ) + 1 := by push_cast; linarith
    have h2 : claim.i < ((lu * P : Nat) : Int) + 1 := by exact_mod_cast this
    omega
  -- what stays with the provider
  have hlf_i : lf.i = ((lu * P : Nat) : Int) - claim.i := by
    unfold Dec.sub at hlf; exact chk_ok hlf
  have hlf0 : 0 ≤ lf.i := by omega
  obtain ⟨t0, t1, t2⟩ := truncateInt_err hlf0
  unfold truncToUint at hn' he' hl'
  obtain ⟨cl, _⟩ := Uint.ofInt_ok hl'
  have hleftq : (l' : ℚ) = (lf.truncateInt : ℚ) := by exact_mod_cast congrArg (fun z : Int => (z : ℚ)) cl
  have hleft_le : (l' : ℚ) ≤ (lu : ℚ) - (claim.i : ℚ) / P := by
    rw [hleftq]
    have : (lf.i : ℚ) / P = (lu : ℚ) - (claim.i : ℚ) / P := by
      rw [hlf_i]; push_cast; field_simp
    linarith
  have hleft_nat : l' ≤ lu := by
    have : (l' : ℚ) ≤ (lu : ℚ) := by
      have : (0 : ℚ) ≤ (claim.i : ℚ) / P := div_nonneg (by exact_mod_cast c0) hp.le
      linarith
    exact_mod_cast this
  have hburned : (claim.i : ℚ) / P ≤ ((lu - l' : Nat) : ℚ) := by
    rw [Nat.cast_sub hleft_nat]; linarith
  refine ⟨hleft_nat, ?_, ?_⟩
  all_goals
    by_cases hc0 : claim.i = 0
    · -- nothing claimed: the quotient P/0 would have panicked
      exfalso
      unfold Dec.quo at hq
      simp [hc0] at hq
    have hcpos : 0 < claim.i := by omega
    have hcP : claim.i ≤ ((Pu * P : Nat) : Int) := by
      have : ((lu * P : Nat) : Int) ≤ ((Pu * P : Nat) : Int) := by
        have := Nat.mul_le_mul_right P hlu; exact_mod_cast this
      omega
  · obtain ⟨s0, s1⟩ := withdraw_side_bound_tight hcpos hcP hq' hwN
    obtain ⟨r0, r1, _⟩ := truncateInt_err s0
    obtain ⟨cn, _⟩ := Uint.ofInt_ok hn'
    have hnq : (n' : ℚ) = (wN.truncateInt : ℚ) := by exact_mod_cast congrArg (fun z : Int => (z : ℚ)) cn
    rw [hnq]
    have hmono : (nD : ℚ) * ((claim.i : ℚ) / P) / Pu * (1 + 2 / P)
        ≤ (nD : ℚ) * ((lu - l' : Nat) : ℚ) / Pu * (1 + 2 / P) := by
      apply mul_le_mul_of_nonneg_right _ (by positivity)
      apply div_le_div_of_nonneg_right _ (Nat.cast_nonneg _)
      exact mul_le_mul_of_nonneg_left hburned (Nat.cast_nonneg _)
    linarith
  · obtain ⟨s0, s1⟩ := withdraw_side_bound_tight hcpos hcP hq hwE
    obtain ⟨r0, r1, _⟩ := truncateInt_err s0
    obtain ⟨ce, _⟩ := Uint.ofInt_ok he'
    have heq : (e' : ℚ) = (wE.truncateInt : ℚ) := by exact_mod_cast congrArg (fun z : Int => (z : ℚ)) ce
    rw [heq]
    have hmono : (eD : ℚ) * ((claim.i : ℚ) / P) / Pu * (1 + 2 / P)
        ≤ (eD : ℚ) * ((lu - l' : Nat) : ℚ) / Pu * (1 + 2 / P) := by
      apply mul_le_mul_of_nonneg_right _ (by positivity)
      apply div_le_div_of_nonneg_right _ (Nat.cast_nonneg _)
      exact mul_le_mul_of_nonneg_left hburned (Nat.cast_nonneg _)
    linarith


end Sif.Clp

namespace Sif.Clp
open Sif Sif.Dec Sif.Spec.C04

theorem side_after_ge' {D w Pu n : Nat} {Do : Nat} (hPu0 : 0 < Pu) (hwP : w ≤ Pu) (hn : n ≤ D)
    (hb : (n : ℚ) ≤ (D : ℚ) * w / Pu * (1 + 2 / P) + 1) :
    (D : ℚ) * ((Pu - w : Nat) : ℚ) / Pu ≤ ((D - n : Nat) : ℚ) + (dust D Do (D - n) : ℚ) := by
  have hPu : (0 : ℚ) < (Pu : ℚ) := by exact_mod_cast hPu0
  have hd := dust_ge D Do (D - n)
  have hPv : (P : ℚ) = 10 ^ 18 := by rw [P_val]; norm_num
  rw [Nat.cast_sub hn, Nat.cast_sub hwP]
  have hw0 : (0 : ℚ) ≤ (w : ℚ) := Nat.cast_nonneg _
  have hfr : (D : ℚ) * w / Pu ≤ D := by
    rw [div_le_iff₀ hPu]
    have : (w : ℚ) ≤ Pu := by exact_mod_cast hwP
    have : (0 : ℚ) ≤ (D : ℚ) := Nat.cast_nonneg _
    nlinarith
  have hfr0 : (0 : ℚ) ≤ (D : ℚ) * w / Pu := by positivity
  have e1 : (D : ℚ) * ((Pu : ℚ) - w) / Pu = D - (D : ℚ) * w / Pu := by field_simp
  rw [e1]
  have h2P : (D : ℚ) * w / Pu * (2 / P) ≤ (D : ℚ) / 10 ^ 16 := by
    rw [hPv]
    have : (D : ℚ) * w / Pu * (2 / 10 ^ 18) ≤ (D : ℚ) * (2 / 10 ^ 18) := by
      apply mul_le_mul_of_nonneg_right hfr (by positivity)
    have : (D : ℚ) * (2 / 10 ^ 18) ≤ (D : ℚ) / 10 ^ 16 := by
      have hD : (0 : ℚ) ≤ (D : ℚ) / 10 ^ 16 := by positivity
      have e : (D : ℚ) * (2 / 10 ^ 18) = (D : ℚ) / 10 ^ 16 * (1 / 50) := by ring
      rw [e]; nlinarith
    linarith
  have : (D : ℚ) * w / Pu * (1 + 2 / P) = (D : ℚ) * w / Pu + (D : ℚ) * w / Pu * (2 / P) := by ring
  linarith

theorem backing_of_sides {Pu nD eD n e b : Nat} (hPu0 : 0 < Pu) (hbP : b ≤ Pu) (hn : n ≤ nD) (he : e ≤ eD)
    (bn : (n : ℚ) ≤ (nD : ℚ) * b / Pu * (1 + 2 / P) + 1)
    (be : (e : ℚ) ≤ (eD : ℚ) * b / Pu * (1 + 2 / P) + 1) :
    backingOK nD eD Pu (nD - n) (eD - e) (Pu - b) = true := by
  have sn := side_after_ge' (Do := eD) hPu0 hbP hn bn
  have se := side_after_ge' (Do := nD) hPu0 hbP he be
  have hPu : (0 : ℚ) < (Pu : ℚ) := by exact_mod_cast hPu0
  unfold backingOK
  rw [if_pos (Nat.sub_le _ _)]
  simp only [decide_eq_true_eq]
  have key : ((nD * eD * ((Pu - b) * (Pu - b)) : Nat) : ℚ) ≤
      (((nD - n + dust nD eD (nD - n)) * (eD - e + dust eD nD (eD - e)) * (Pu * Pu) : Nat) : ℚ) := by
    push_cast
    set a : ℚ := ((nD - n : Nat) : ℚ) + (dust nD eD (nD - n) : ℚ)
    set c : ℚ := ((eD - e : Nat) : ℚ) + (dust eD nD (eD - e) : ℚ)
    set r : ℚ := ((Pu - b : Nat) : ℚ)
    have hr0 : (0 : ℚ) ≤ r := Nat.cast_nonneg _
    have hn0 : (0 : ℚ) ≤ (nD : ℚ) := Nat.cast_nonneg _
    have he0 : (0 : ℚ) ≤ (eD : ℚ) := Nat.cast_nonneg _
    have ha : (nD : ℚ) * r ≤ a * Pu := by
      have := sn; rw [div_le_iff₀ hPu] at this; exact this
    have hc : (eD : ℚ) * r ≤ c * Pu := by
      have := se; rw [div_le_iff₀ hPu] at this; exact this
    have hmul : ((nD : ℚ) * r) * ((eD : ℚ) * r) ≤ (a * Pu) * (c * Pu) :=
      mul_le_mul ha hc (by positivity) (le_trans (by positivity) ha)
    calc (nD : ℚ) * eD * (r * r) = ((nD : ℚ) * r) * ((eD : ℚ) * r) := by ring
      _ ≤ (a * Pu) * (c * Pu) := hmul
      _ = a * c * ((Pu : ℚ) * Pu) := by ring
  exact_mod_cast key

/-- removal by basis points: pool units after = Pu − (lu − left) -/
theorem backing_removeBps {Pu nD eD lu w n e left : Nat} (hPu0 : 0 < Pu) (hw0 : 0 < w) (hw : w ≤ 10000) (hlu : lu ≤ Pu)
    (hn : n ≤ nD) (he : e ≤ eD)
    (h : calculateWithdrawal Pu nD eD lu w = .ok (n, e, left)) :
    backingOK nD eD Pu (nD - n) (eD - e) (Pu - (lu - left)) = true := by
  obtain ⟨hl, bn, be⟩ := withdraw_le_tight hw0 hw hlu h
  have hbP : lu - left ≤ Pu := le_trans (Nat.sub_le _ _) hlu
  exact backing_of_sides hPu0 hbP hn he bn be
end Sif.Clp
