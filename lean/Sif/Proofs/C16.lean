import Sif.Spec.C16
/-
  Helper lemmas for C16 (relayer translation): narrowing, what the two translation functions return,
  the attribute-scan invariant (last value wins, presence flags), the decimal rendering / `SetString`
  round trip, prophecy-id injectivity, and the scan of an event emitted by the chain.
-/
set_option linter.unusedSimpArgs false
namespace Sif.Proofs.C16
open Sif Sif.Relayer Sif.Spec.C16

/-! ### narrowing -/

theorem int64OfBig_id (i : Int) (h1 : -(2 ^ 63 : Int) ≤ i) (h2 : i < 2 ^ 63) : int64OfBig i = i := by
  unfold int64OfBig
  have hna : i.natAbs ≤ 2 ^ 63 := by omega
  have hmod : i.natAbs % 2 ^ 64 = i.natAbs := Nat.mod_eq_of_lt (by omega)
  simp only [hmod]
  by_cases hneg : i < 0
  · simp only [hneg, if_true]
    by_cases hlt : i.natAbs < 2 ^ 63
    · simp only [hlt, if_true]
      have : ¬ ((i.natAbs : Int) = -(2 ^ 63)) := by omega
      simp only [this, if_false]; omega
    · simp only [hlt, if_false]
      have he : (i.natAbs : Int) - 2 ^ 64 = -(2 ^ 63) := by omega
      simp only [he, if_true]; omega
  · simp only [hneg, if_false]
    have hlt : i.natAbs < 2 ^ 63 := by omega
    simp only [hlt, if_true]; omega

/-- the result of the narrowing always fits int64 -/
theorem int64OfBig_range (i : Int) : -(2 ^ 63 : Int) ≤ int64OfBig i ∧ int64OfBig i < 2 ^ 63 := by
  unfold int64OfBig
  have hm : i.natAbs % 2 ^ 64 < 2 ^ 64 := Nat.mod_lt _ (by decide)
  generalize i.natAbs % 2 ^ 64 = lo at hm
  by_cases hlt : lo < 2 ^ 63
  · simp only [hlt, if_true]
    by_cases hneg : i < 0
    · simp only [hneg, if_true]
      have : ¬ ((lo : Int) = -(2 ^ 63)) := by omega
      simp only [this, if_false]; omega
    · simp only [hneg, if_false]; omega
  · simp only [hlt, if_false]
    by_cases hneg : i < 0
    · simp only [hneg, if_true]
      by_cases he : (lo : Int) - 2 ^ 64 = -(2 ^ 63)
      · simp only [he, if_true]; omega
      · simp only [he, if_false]; omega
    · simp only [hneg, if_false]; omega

theorem int64OfBig_id' (i : Int) (h : inInt64 i = true) : int64OfBig i = i := by
  unfold inInt64 at h
  simp only [Bool.and_eq_true, decide_eq_true_eq] at h
  exact int64OfBig_id i h.1 h.2

/-- what `ethToClaim` returns when it returns a claim -/
theorem ethToClaim_ok (env : Env) (val : Str) (ev : EthEvent) (c : Claim)
    (h : ethToClaim env val ev = .ok c) :
    ∃ r, env.bech32 ev.to = some r ∧ r ≠ [] ∧ bitLen ev.value.natAbs ≤ 256 ∧
      ¬ (ev.claimType = ctLock ∧ claimSymbol env ev = str "eth" ∧ isZeroAddr ev.token = false) ∧
      c = { chainId := int64OfBig ev.chainId, bridge := addrString ev.bridge, nonce := int64OfBig ev.nonce,
            symbol := claimSymbol env ev, token := addrString ev.token, sender := addrString ev.sender,
            validator := val, receiver := r, amount := ev.value, claimType := ev.claimType } := by
  unfold ethToClaim at h
  split at h
  · cases h
  · rename_i r hr
    split at h
    · cases h
    · rename_i hne
      split at h
      · cases h
      · rename_i heth
        split at h
        · cases h
        · rename_i hbits
          refine ⟨r, hr, hne, by omega, ?_, ?_⟩
          · intro ⟨h1, h2, h3⟩
            apply heth
            simp [h1, h2, h3]
          · cases h; rfl

theorem claimSymbol_lock (env : Env) (ev : EthEvent) (h : ev.claimType = ctLock) :
    claimSymbol env ev = toLower env ev.symbol := by simp [claimSymbol, h]

theorem claimSymbol_burn (env : Env) (ev : EthEvent) (h : ev.claimType = ctBurn) :
    claimSymbol env ev = ethToSif env.table ev.symbol := by
  have hne : ¬ (ctBurn = ctLock) := by decide
  simp [claimSymbol, h, hne]

theorem ethToClaim_faithful (env : Env) (val : Str) (ev : EthEvent) (c : Claim)
    (h : ethToClaim env val ev = .ok c) : claimFaithful env val ev c = true := by
  obtain ⟨r, hr, _, _, _, rfl⟩ := ethToClaim_ok env val ev c h
  unfold claimFaithful
  simp only [Bool.and_eq_true]
  refine ⟨⟨⟨⟨⟨⟨⟨⟨⟨⟨?_, ?_⟩, ?_⟩, ?_⟩, ?_⟩, ?_⟩, ?_⟩, ?_⟩, ?_⟩, ?_⟩, ?_⟩
  · by_cases hi : inInt64 ev.chainId = true
    · simp [int64OfBig_id' _ hi]
    · simp [hi]
  · by_cases hi : inInt64 ev.nonce = true
    · simp [int64OfBig_id' _ hi]
    · simp [hi]
  · simp
  · simp
  · simp
  · simp [hr]
  · simp
  · simp
  · simp
  · by_cases hl : ev.claimType = ctLock
    · simp [claimSymbol_lock env ev hl]
    · simp [hl]
  · by_cases hb : ev.claimType = ctBurn
    · simp [claimSymbol_burn env ev hb]
    · simp [hb]

/-- which events are refused: exactly the malformed ones (and a too-large amount panics) -/
theorem ethToClaim_verdict (env : Env) (val : Str) (ev : EthEvent) :
    (ethWellFormed env ev = true → ∃ c, ethToClaim env val ev = .ok c) ∧
    (ethWellFormed env ev = false → ∃ e, ethToClaim env val ev = .error e) := by
  unfold ethWellFormed ethToClaim
  cases hb : env.bech32 ev.to with
  | none => simp
  | some r =>
    by_cases hr : r = []
    · simp [hr]
    · by_cases hl : ev.claimType = ctLock
      · have hs : claimSymbol env ev = toLower env ev.symbol := claimSymbol_lock env ev hl
        by_cases he : toLower env ev.symbol = str "eth"
        · by_cases hz : isZeroAddr ev.token = true
          · by_cases hbits : bitLen ev.value.natAbs ≤ 256
            · have : ¬ (256 < bitLen ev.value.natAbs) := by omega
              simp [hr, hl, hs, he, hz, hbits, this]
            · have : 256 < bitLen ev.value.natAbs := by omega
              simp [hr, hl, hs, he, hz, hbits, this]
          · simp [hr, hl, hs, he, hz]
        · by_cases hbits : bitLen ev.value.natAbs ≤ 256
          · have : ¬ (256 < bitLen ev.value.natAbs) := by omega
            simp [hr, hl, hs, he, hbits, this]
          · have : 256 < bitLen ev.value.natAbs := by omega
            simp [hr, hl, hs, he, hbits, this]
      · by_cases hbits : bitLen ev.value.natAbs ≤ 256
        · have : ¬ (256 < bitLen ev.value.natAbs) := by omega
          simp [hr, hl, hbits, this]
        · have : 256 < bitLen ev.value.natAbs := by omega
          simp [hr, hl, hbits, this]

theorem lastVal_snoc (k : Str) (pre : List Attr) (a : Attr) :
    lastVal k (pre ++ [a]) = if a.key = k then some a.val else lastVal k pre := by
  simp [lastVal, List.foldl_append]

theorem hasKey_snoc (k : Str) (pre : List Attr) (a : Attr) :
    hasKey k (pre ++ [a]) = (hasKey k pre || decide (a.key = k)) := by
  simp [hasKey, List.any_append]

structure AccInv (kind : Nat) (env : Env) (pre : List Attr) (acc : Acc) : Prop where
  sender : acc.sender = lastVal kCosmosSender pre
  seq : acc.seq = (lastVal kCosmosSenderSequence pre).bind (parseBig false)
  recv : acc.receiver = ((lastVal kEthereumReceiver pre).bind parseHexAddr).getD zeroAddr
  amount : acc.amount = (lastVal kAmount pre).bind parseSdkInt
  symLock : kind = kLock → acc.symbol = ((lastVal kSymbol pre).map (sifToEth env.table)).getD []
  symBurn : kind = kBurn → (match lastVal kSymbol pre with | some v => v = 'c' :: acc.symbol | none => acc.symbol = [])
  fSender : acc.sSender = hasKey kCosmosSender pre
  fSeq : acc.sSeq = hasKey kCosmosSenderSequence pre
  fRecv : acc.sRecv = hasKey kEthereumReceiver pre
  fSym : acc.sSym = hasKey kSymbol pre
  fAmt : acc.sAmt = hasKey kAmount pre

theorem accInv_init (kind : Nat) (env : Env) : AccInv kind env [] {} := by
  constructor <;> simp +contextual [lastVal, hasKey]

theorem stripPrefixC_some (v s : Str) (h : stripPrefixC v = some s) : v = 'c' :: s := by
  unfold stripPrefixC at h
  split at h
  · cases h; rfl
  · cases h

set_option maxHeartbeats 1000000 in
theorem attrStep_inv (kind : Nat) (env : Env) (pre : List Attr) (acc acc' : Acc) (a : Attr)
    (hinv : AccInv kind env pre acc) (h : attrStep kind env acc a = .ok acc') :
    AccInv kind env (pre ++ [a]) acc' := by
  obtain ⟨i1, i2, i3, i4, i5, i6, f1, f2, f3, f4, f5⟩ := hinv
  have n12 : kCosmosSender ≠ kCosmosSenderSequence := by decide
  have n13 : kCosmosSender ≠ kEthereumReceiver := by decide
  have n14 : kCosmosSender ≠ kSymbol := by decide
  have n15 : kCosmosSender ≠ kAmount := by decide
  have n23 : kCosmosSenderSequence ≠ kEthereumReceiver := by decide
  have n24 : kCosmosSenderSequence ≠ kSymbol := by decide
  have n25 : kCosmosSenderSequence ≠ kAmount := by decide
  have n34 : kEthereumReceiver ≠ kSymbol := by decide
  have n35 : kEthereumReceiver ≠ kAmount := by decide
  have n45 : kSymbol ≠ kAmount := by decide
  unfold attrStep at h
  by_cases k1 : a.key = kCosmosSender
  · simp only [k1, if_true] at h
    cases h
    constructor <;> simp +contextual [lastVal_snoc, hasKey_snoc, k1, n12, n13, n14, n15, *]
  · simp only [k1, if_false] at h
    by_cases k2 : a.key = kCosmosSenderSequence
    · simp only [k2, if_true] at h
      cases hp : parseBig false a.val with
      | none => simp [hp] at h
      | some i =>
        simp only [hp] at h
        cases h
        constructor <;> simp +contextual [lastVal_snoc, hasKey_snoc, k2, n12.symm, n23, n24, n25, hp, *]
    · simp only [k2, if_false] at h
      by_cases k3 : a.key = kEthereumReceiver
      · simp only [k3, if_true] at h
        cases hp : parseHexAddr a.val with
        | none => simp [hp] at h
        | some r =>
          simp only [hp] at h
          cases h
          constructor <;> simp +contextual [lastVal_snoc, hasKey_snoc, k3, n13.symm, n23.symm, n34, n35, hp, *]
      · simp only [k3, if_false] at h
        by_cases k4 : a.key = kSymbol
        · simp only [k4, if_true] at h
          unfold symbolStep at h
          by_cases hl : kind = kLock
          · simp only [hl, if_true] at h
            cases h
            have hnb : ¬ (kLock = kBurn) := by decide
            constructor <;> simp +contextual [lastVal_snoc, hasKey_snoc, k4, n14.symm, n24.symm, n34.symm, n45, hl, hnb, *]
          · simp only [hl, if_false] at h
            by_cases hb : kind = kBurn
            · simp only [hb, if_true] at h
              cases hs : stripPrefixC a.val with
              | none => simp [hs] at h
              | some s =>
                simp only [hs] at h
                cases h
                have hv := stripPrefixC_some _ _ hs
                have hnl : ¬ (kBurn = kLock) := by decide
                constructor <;> simp +contextual [lastVal_snoc, hasKey_snoc, k4, n14.symm, n24.symm, n34.symm, n45, hb, hnl, hv, *]
            · simp only [hb, if_false] at h
              cases h
              constructor <;> simp +contextual [lastVal_snoc, hasKey_snoc, k4, n14.symm, n24.symm, n34.symm, n45, hl, hb, *]
        · simp only [k4, if_false] at h
          by_cases k5 : a.key = kAmount
          · simp only [k5, if_true] at h
            cases hp : parseSdkInt a.val with
            | none => simp [hp] at h
            | some i =>
              simp only [hp] at h
              cases h
              constructor <;> simp +contextual [lastVal_snoc, hasKey_snoc, k5, n15.symm, n25.symm, n35.symm, n45.symm, hp, *]
          · simp only [k5, if_false] at h
            cases h
            constructor <;> simp +contextual [lastVal_snoc, hasKey_snoc, k1, k2, k3, k4, k5, *]


theorem scanAttrs_inv (kind : Nat) (env : Env) (rest pre : List Attr) (acc acc' : Acc)
    (hinv : AccInv kind env pre acc) (h : scanAttrs kind env rest acc = .ok acc') :
    AccInv kind env (pre ++ rest) acc' := by
  induction rest generalizing pre acc with
  | nil => simp only [scanAttrs] at h; cases h; simpa using hinv
  | cons a as ih =>
    simp only [scanAttrs] at h
    cases hs : attrStep kind env acc a with
    | error e => simp [hs] at h
    | ok acc1 =>
      simp only [hs] at h
      have h1 := attrStep_inv kind env pre acc acc1 a hinv hs
      have := ih (pre ++ [a]) acc1 h1 h
      simpa [List.append_assoc] using this

theorem scanAttrs_append (kind : Nat) (env : Env) (xs ys : List Attr) (acc : Acc) :
    scanAttrs kind env (xs ++ ys) acc =
      (match scanAttrs kind env xs acc with
       | .error e => .error e
       | .ok acc' => scanAttrs kind env ys acc') := by
  induction xs generalizing acc with
  | nil => rfl
  | cons a as ih =>
    simp only [List.cons_append, scanAttrs]
    cases attrStep kind env acc a with
    | error e => rfl
    | ok acc1 => exact ih acc1

/-- what `cosmosToMsg` returns when it returns a message -/
theorem cosmosToMsg_ok (kind : Nat) (env : Env) (attrs : List Attr) (m : CosmosMsg)
    (h : cosmosToMsg kind env attrs = .ok m) :
    ∃ acc, scanAttrs kind env attrs {} = .ok acc ∧ 5 ≤ acc.seenCount ∧
      m = { kind := kind, sender := acc.sender, seq := acc.seq, receiver := acc.receiver,
            symbol := acc.symbol, amount := acc.amount } := by
  unfold cosmosToMsg at h
  cases hs : scanAttrs kind env attrs {} with
  | error e => simp [hs] at h
  | ok acc =>
    simp only [hs] at h
    by_cases hn : acc.seenCount < 5
    · simp [hn] at h
    · simp only [hn, if_false] at h
      cases h
      exact ⟨acc, rfl, by omega, rfl⟩

theorem seenCount_five (acc : Acc) (h : 5 ≤ acc.seenCount) :
    acc.sSender = true ∧ acc.sSeq = true ∧ acc.sRecv = true ∧ acc.sSym = true ∧ acc.sAmt = true := by
  unfold Acc.seenCount at h
  cases h1 : acc.sSender <;> cases h2 : acc.sSeq <;> cases h3 : acc.sRecv <;> cases h4 : acc.sSym <;>
    cases h5 : acc.sAmt <;> simp [h1, h2, h3, h4, h5] at h ⊢

theorem cosmosToMsg_complete (kind : Nat) (env : Env) (attrs : List Attr) (m : CosmosMsg)
    (h : cosmosToMsg kind env attrs = .ok m) : complete attrs = true := by
  obtain ⟨acc, hs, h5, _⟩ := cosmosToMsg_ok kind env attrs m h
  have inv := scanAttrs_inv kind env attrs [] {} acc (accInv_init kind env) hs
  simp only [List.nil_append] at inv
  obtain ⟨s1, s2, s3, s4, s5⟩ := seenCount_five acc h5
  unfold complete
  rw [← inv.fSender, ← inv.fSeq, ← inv.fRecv, ← inv.fSym, ← inv.fAmt, s1, s2, s3, s4, s5]
  rfl

theorem cosmosToMsg_faithful (kind : Nat) (env : Env) (attrs : List Attr) (m : CosmosMsg)
    (h : cosmosToMsg kind env attrs = .ok m) : msgFaithful kind env attrs m = true := by
  obtain ⟨acc, hs, _, rfl⟩ := cosmosToMsg_ok kind env attrs m h
  have inv := scanAttrs_inv kind env attrs [] {} acc (accInv_init kind env) hs
  simp only [List.nil_append] at inv
  unfold msgFaithful
  simp only [Bool.and_eq_true]
  refine ⟨⟨⟨⟨⟨?_, ?_⟩, ?_⟩, ?_⟩, ?_⟩, ?_⟩
  · simp
  · simp [inv.sender]
  · simp [inv.seq]
  · simp [inv.recv]
  · simp [inv.amount]
  · by_cases hl : kind = kLock
    · simp [inv.symLock hl]
    · simp [hl]

theorem cosmosToMsg_burnSymbol (env : Env) (attrs : List Attr) (m : CosmosMsg)
    (h : cosmosToMsg kBurn env attrs = .ok m) : burnSymbolOK attrs true m.symbol = true := by
  obtain ⟨acc, hs, _, rfl⟩ := cosmosToMsg_ok kBurn env attrs m h
  have inv := scanAttrs_inv kBurn env attrs [] {} acc (accInv_init kBurn env) hs
  simp only [List.nil_append] at inv
  have := inv.symBurn rfl
  unfold burnSymbolOK
  cases hv : lastVal kSymbol attrs with
  | none => simp [hv] at this ⊢; exact this
  | some v => simp [hv] at this ⊢; exact this


theorem attrStep_symbol_burn (env : Env) (acc : Acc) (sym : Str) :
    attrStep kBurn env acc ⟨kSymbol, sym⟩ =
      (match stripPrefixC sym with
       | none => .error (.err .notPrefixed)
       | some s => .ok { acc with symbol := s, sSym := true }) := by
  have n1 : kSymbol ≠ kCosmosSender := by decide
  have n2 : kSymbol ≠ kCosmosSenderSequence := by decide
  have n3 : kSymbol ≠ kEthereumReceiver := by decide
  have nk : ¬ (kBurn = kLock) := by decide
  simp [attrStep, symbolStep, n1, n2, n3, nk]
  cases stripPrefixC sym <;> rfl

theorem burn_symbol_iff (env : Env) (pre : List Attr) (acc : Acc) (sym s : Str)
    (hpre : scanAttrs kBurn env pre {} = .ok acc)
    (h1 : acc.sSender = true) (h2 : acc.sSeq = true) (h3 : acc.sRecv = true) (h4 : acc.sAmt = true) :
    (∃ m, cosmosToMsg kBurn env (pre ++ [⟨kSymbol, sym⟩]) = .ok m ∧ m.symbol = s) ↔ sym = 'c' :: s := by
  have hscan : scanAttrs kBurn env (pre ++ [⟨kSymbol, sym⟩]) {} =
      (match stripPrefixC sym with
       | none => .error (.err .notPrefixed)
       | some s => .ok { acc with symbol := s, sSym := true }) := by
    rw [scanAttrs_append, hpre]
    simp only [scanAttrs, attrStep_symbol_burn]
    cases stripPrefixC sym <;> rfl
  constructor
  · rintro ⟨m, hm, hs⟩
    unfold cosmosToMsg at hm
    rw [hscan] at hm
    cases hp : stripPrefixC sym with
    | none => simp [hp] at hm
    | some s' =>
      simp only [hp] at hm
      have hv := stripPrefixC_some _ _ hp
      split at hm
      · cases hm
      · cases hm
        simp at hs
        rw [hv, hs]
  · intro hv
    have hp : stripPrefixC sym = some s := by rw [hv]; rfl
    refine ⟨{ kind := kBurn, sender := acc.sender, seq := acc.seq, receiver := acc.receiver, symbol := s, amount := acc.amount }, ?_, rfl⟩
    unfold cosmosToMsg
    rw [hscan, hp]
    simp [Acc.seenCount, h1, h2, h3, h4]

/-! ### decimal rendering and `SetString` are inverse -/

theorem digitChar_facts (d : Nat) (h : d < 10) :
    digitVal (Nat.digitChar d) = d ∧ Nat.digitChar d ≠ '_' ∧ Nat.digitChar d ≠ '-' ∧ Nat.digitChar d ≠ '+' ∧
    (d ≠ 0 → Nat.digitChar d ≠ '0') := by
  have : d = 0 ∨ d = 1 ∨ d = 2 ∨ d = 3 ∨ d = 4 ∨ d = 5 ∨ d = 6 ∨ d = 7 ∨ d = 8 ∨ d = 9 := by omega
  rcases this with rfl | rfl | rfl | rfl | rfl | rfl | rfl | rfl | rfl | rfl <;> decide

theorem scanDigits_append (b : Nat) (sep : Bool) (xs ys : Str) (st : Scan) :
    scanDigits b sep (xs ++ ys) st = (scanDigits b sep xs st).bind (scanDigits b sep ys) := by
  induction xs generalizing st with
  | nil => rfl
  | cons c cs ih =>
    simp only [List.cons_append, scanDigits]
    split
    · exact ih _
    · split
      · exact ih _
      · rfl

theorem scanDigits_digit (sep : Bool) (d : Nat) (h : d < 10) (st : Scan) :
    scanDigits 10 sep [Nat.digitChar d] st =
      some { st with acc := st.acc * 10 + d, count := st.count + 1, prevDigit := true, prevSep := false } := by
  obtain ⟨hv, hu, _, _, _⟩ := digitChar_facts d h
  simp [scanDigits, hu, hv, h]

theorem toDigits_split (n : Nat) (h : 10 ≤ n) :
    Nat.toDigits 10 n = Nat.toDigits 10 (n / 10) ++ [Nat.digitChar (n % 10)] := by
  have h1 : 0 < n / 10 := by omega
  have h2 : n % 10 < 10 := Nat.mod_lt _ (by decide)
  have := @Nat.toDigits_append_toDigits 10 (n / 10) (n % 10) (by decide) h1 h2
  rw [Nat.toDigits_of_lt_base h2] at this
  rw [this]
  congr 1
  omega

theorem scanDigits_toDigits (sep pd inv : Bool) (n : Nat) :
    ∃ cnt, 0 < cnt ∧ scanDigits 10 sep (Nat.toDigits 10 n) ⟨0, 0, pd, false, inv⟩ = some ⟨n, cnt, true, false, inv⟩ := by
  induction n using Nat.strongRecOn with
  | _ n ih =>
    by_cases h : n < 10
    · refine ⟨1, by decide, ?_⟩
      rw [Nat.toDigits_of_lt_base h, scanDigits_digit sep n h]
      simp
    · have hq : n / 10 < n := by omega
      obtain ⟨cnt, hc, hs⟩ := ih (n / 10) hq
      refine ⟨cnt + 1, by omega, ?_⟩
      rw [toDigits_split n (by omega), scanDigits_append, hs]
      simp only [Option.bind]
      rw [scanDigits_digit sep (n % 10) (Nat.mod_lt _ (by decide))]
      simp
      omega

/-- first character of a decimal rendering: a digit, never a sign, and not '0' for a positive number -/
theorem toDigits_head (n : Nat) :
    ∃ c rest, Nat.toDigits 10 n = c :: rest ∧ c ≠ '-' ∧ c ≠ '+' ∧ (0 < n → c ≠ '0') := by
  induction n using Nat.strongRecOn with
  | _ n ih =>
    by_cases h : n < 10
    · obtain ⟨_, _, h3, h4, h5⟩ := digitChar_facts n h
      exact ⟨Nat.digitChar n, [], Nat.toDigits_of_lt_base h, h3, h4, fun hp => h5 (by omega)⟩
    · obtain ⟨c, rest, hr, h1, h2, h3⟩ := ih (n / 10) (by omega)
      refine ⟨c, rest ++ [Nat.digitChar (n % 10)], ?_, h1, h2, fun _ => h3 (by omega)⟩
      rw [toDigits_split n (by omega), hr]; rfl

theorem scanNat10_decNat (n : Nat) : scanNat10 (decNat n) = some n := by
  obtain ⟨cnt, hc, hs⟩ := scanDigits_toDigits false false false n
  unfold scanNat10 decNat
  rw [hs]
  have : cnt ≠ 0 := by omega
  simp [scanFinish, this]

theorem scanNat0_decNat (n : Nat) : scanNat0 (decNat n) = some n := by
  by_cases hz : n = 0
  · subst hz; decide
  · obtain ⟨c, rest, hr, _, _, h0⟩ := toDigits_head n
    have hc0 : c ≠ '0' := h0 (by omega)
    obtain ⟨cnt, hc, hs⟩ := scanDigits_toDigits true false false n
    unfold decNat at *
    rw [hr] at hs ⊢
    unfold scanNat0
    split
    · rename_i heq; cases heq
    · rename_i heq; cases heq; exact absurd rfl hc0
    · rename_i heq; cases heq; exact absurd rfl hc0
    · rw [hs]
      have : cnt ≠ 0 := by omega
      simp [scanFinish, this]

theorem parseBig_decInt (b0 : Bool) (i : Int) : parseBig b0 (decInt i) = some i := by
  have hmag : ∀ n, (if b0 then scanNat0 else scanNat10) (decNat n) = some n := by
    intro n; cases b0
    · exact scanNat10_decNat n
    · exact scanNat0_decNat n
  unfold parseBig decInt
  by_cases hneg : i < 0
  · simp only [hneg, if_true]
    simp [hmag]
    omega
  · simp only [hneg, if_false]
    obtain ⟨c, rest, hr, h1, h2, _⟩ := toDigits_head i.natAbs
    have hm := hmag i.natAbs
    unfold decNat at hm ⊢
    rw [hr] at hm ⊢
    split
    · rename_i heq; cases heq; exact absurd rfl h1
    · rename_i heq; cases heq; exact absurd rfl h2
    · simp [hm]
      omega

theorem parseSdkInt_decInt (i : Int) (h : bitLen i.natAbs ≤ 256) : parseSdkInt (decInt i) = some i := by
  unfold parseSdkInt
  rw [parseBig_decInt]
  have : ¬ (256 < bitLen i.natAbs) := by omega
  simp [this]

theorem decInt_injective (i j : Int) (h : decInt i = decInt j) : i = j := by
  have h1 := parseBig_decInt false i
  rw [h, parseBig_decInt] at h1
  exact (Option.some.inj h1).symm


theorem claimId_injective (c₁ c₂ : Claim) (hc : c₁.chainId = c₂.chainId)
    (h1 : c₁.sender.length = 42) (h2 : c₂.sender.length = 42) (hid : claimId c₁ = claimId c₂) :
    c₁.nonce = c₂.nonce ∧ c₁.sender = c₂.sender := by
  unfold claimId at hid
  rw [hc] at hid
  simp only [List.append_assoc] at hid
  have h := List.append_cancel_left hid
  have hl : (decInt c₁.nonce).length = (decInt c₂.nonce).length := by
    have := congrArg List.length h
    simp only [List.length_append] at this
    omega
  obtain ⟨ha, hb⟩ := List.append_inj h hl
  exact ⟨decInt_injective _ _ ha, hb⟩

theorem idInjective_holds (c₁ c₂ : Claim) : idInjective c₁ c₂ (claimId c₁) (claimId c₂) = true := by
  unfold idInjective
  by_cases h : c₁.chainId = c₂.chainId ∧ c₁.sender.length = 42 ∧ c₂.sender.length = 42 ∧ claimId c₁ = claimId c₂
  · obtain ⟨hc, h1, h2, hid⟩ := h
    obtain ⟨hn, hs⟩ := claimId_injective c₁ c₂ hc h1 h2 hid
    simp [hn, hs]
  · have : (decide (c₁.chainId = c₂.chainId) && decide (c₁.sender.length = 42) && decide (c₂.sender.length = 42) &&
        decide (claimId c₁ = claimId c₂)) = false := by
      simp only [Bool.and_eq_false_iff, decide_eq_false_iff_not]
      by_cases a : c₁.chainId = c₂.chainId
      · by_cases b : c₁.sender.length = 42
        · by_cases c : c₂.sender.length = 42
          · right; intro d; exact h ⟨a, b, c, d⟩
          · left; right; exact c
        · left; left; right; exact b
      · left; left; left; exact a
    simp [this]

/-! ### the chain's emitted event, parsed -/

/-- the loop variables after the first five attributes of an emitted event -/
def accBeforeSymbol (b : BridgeMsg) (seq : Nat) (r : Str) : Acc :=
  { sender := some b.sender, seq := some (seq : Int), receiver := r, amount := some b.amount,
    sSender := true, sSeq := true, sRecv := true, sAmt := true }

theorem compose_scan (kind : Nat) (env : Env) (b : BridgeMsg) (seq : Nat) (r : Str)
    (hr : parseHexAddr b.receiver = some r) (hbits : bitLen b.amount.natAbs ≤ 256)
    (sym : Str) (hsym : symbolStep kind env (accBeforeSymbol b seq r) b.symbol =
        .ok { accBeforeSymbol b seq r with symbol := sym, sSym := true }) :
    cosmosToMsg kind env (emitAttrs b seq) =
      .ok { kind := kind, sender := some b.sender, seq := some (seq : Int), receiver := r, symbol := sym, amount := some b.amount } := by
  have e1 : str "ethereum_chain_id" ≠ kCosmosSender ∧ str "ethereum_chain_id" ≠ kCosmosSenderSequence ∧
      str "ethereum_chain_id" ≠ kEthereumReceiver ∧ str "ethereum_chain_id" ≠ kSymbol ∧ str "ethereum_chain_id" ≠ kAmount := by decide
  have e7 : str "ceth_amount" ≠ kCosmosSender ∧ str "ceth_amount" ≠ kCosmosSenderSequence ∧
      str "ceth_amount" ≠ kEthereumReceiver ∧ str "ceth_amount" ≠ kSymbol ∧ str "ceth_amount" ≠ kAmount := by decide
  have n21 : kCosmosSenderSequence ≠ kCosmosSender := by decide
  have n31 : kEthereumReceiver ≠ kCosmosSender := by decide
  have n32 : kEthereumReceiver ≠ kCosmosSenderSequence := by decide
  have n51 : kAmount ≠ kCosmosSender := by decide
  have n52 : kAmount ≠ kCosmosSenderSequence := by decide
  have n53 : kAmount ≠ kEthereumReceiver := by decide
  have n54 : kAmount ≠ kSymbol := by decide
  have n41 : kSymbol ≠ kCosmosSender := by decide
  have n42 : kSymbol ≠ kCosmosSenderSequence := by decide
  have n43 : kSymbol ≠ kEthereumReceiver := by decide
  have hseq : parseBig false (decNat seq) = some (seq : Int) := by
    have := parseBig_decInt false (seq : Int)
    have h0 : ¬ ((seq : Int) < 0) := by omega
    simpa [decInt, h0] using this
  have hamt := parseSdkInt_decInt b.amount hbits
  simp only [accBeforeSymbol] at hsym
  simp [cosmosToMsg, emitAttrs, scanAttrs, attrStep, e1, e7, n21, n31, n32, n51, n52, n53, n54, n41, n42, n43,
    hseq, hamt, hr, hsym, Acc.seenCount]

/-! ### the batch path -/

theorem wellFormed_of_ok (env : Env) (val : Str) (ev : EthEvent) (c : Claim)
    (h : ethToClaim env val ev = .ok c) : ethWellFormed env ev = true := by
  cases hw : ethWellFormed env ev with
  | true => rfl
  | false =>
    obtain ⟨e, he⟩ := (ethToClaim_verdict env val ev).2 hw
    rw [he] at h; cases h

theorem not_wellFormed_of_error (env : Env) (val : Str) (ev : EthEvent) (e : Fail)
    (h : ethToClaim env val ev = .error e) : ethWellFormed env ev = false := by
  cases hw : ethWellFormed env ev with
  | false => rfl
  | true =>
    obtain ⟨c, hc⟩ := (ethToClaim_verdict env val ev).1 hw
    rw [hc] at h; cases h

/-- the chain's stateless validation of a translated claim, in terms of its source event -/
theorem validateBasic_of_ok (env : Env) (val : Str) (ev : EthEvent) (c : Claim)
    (h : ethToClaim env val ev = .ok c) : validateBasicOK env c = submittable env val ev := by
  have hw := wellFormed_of_ok env val ev c h
  obtain ⟨r, _, hr, _, _, rfl⟩ := ethToClaim_ok env val ev c h
  simp [validateBasicOK, submittable, hw, hr, addrString]

theorem relayBatch_cons_ok (env : Env) (val : Str) (ev : EthEvent) (rest : List EthEvent) (c : Claim)
    (h : ethToClaim env val ev = .ok c) :
    relayBatch env val (ev :: rest) =
      if submittable env val ev then c :: relayBatch env val rest else relayBatch env val rest := by
  have hv := validateBasic_of_ok env val ev c h
  simp only [relayBatch, List.filterMap_cons, claimOf, h, List.filter_cons, hv]

theorem relayBatch_cons_error (env : Env) (val : Str) (ev : EthEvent) (rest : List EthEvent) (e : Fail)
    (h : ethToClaim env val ev = .error e) :
    relayBatch env val (ev :: rest) = relayBatch env val rest := by
  simp only [relayBatch, List.filterMap_cons, claimOf, h]

theorem submittable_false_of_error (env : Env) (val : Str) (ev : EthEvent) (e : Fail)
    (h : ethToClaim env val ev = .error e) : submittable env val ev = false := by
  simp [submittable, not_wellFormed_of_error env val ev e h]

theorem relayBatch_positional (env : Env) (val : Str) (events : List EthEvent) :
    batchCountOK env val events (relayBatch env val events) = true ∧
    batchFieldsOK env val events (relayBatch env val events) = true := by
  induction events with
  | nil => simp [batchCountOK, batchFieldsOK, relayBatch]
  | cons ev rest ih =>
    obtain ⟨ih1, ih2⟩ := ih
    simp only [batchCountOK, batchFieldsOK, decide_eq_true_eq] at ih1 ih2 ⊢
    cases h : ethToClaim env val ev with
    | error e =>
      rw [relayBatch_cons_error env val ev rest e h]
      simp only [List.filter_cons, submittable_false_of_error env val ev e h]
      exact ⟨ih1, ih2⟩
    | ok c =>
      rw [relayBatch_cons_ok env val ev rest c h]
      cases hs : submittable env val ev with
      | false => simp only [List.filter_cons, hs]; exact ⟨ih1, ih2⟩
      | true =>
        simp only [List.filter_cons, hs, if_true, List.length_cons, List.zip_cons_cons, List.all_cons,
          Bool.and_eq_true]
        exact ⟨by omega, ethToClaim_faithful env val ev c h, ih2⟩

/-- every submitted claim is the translation of an event of the batch -/
theorem relayBatch_mem (env : Env) (val : Str) (events : List EthEvent) (c : Claim)
    (h : c ∈ relayBatch env val events) : ∃ ev, ev ∈ events ∧ ethToClaim env val ev = .ok c := by
  simp only [relayBatch, List.mem_filter, List.mem_filterMap] at h
  obtain ⟨⟨ev, hev, hc⟩, _⟩ := h
  refine ⟨ev, hev, ?_⟩
  unfold claimOf at hc
  cases he : ethToClaim env val ev with
  | error e => simp [he] at hc
  | ok c' => simp [he] at hc; rw [hc]


end Sif.Proofs.C16
