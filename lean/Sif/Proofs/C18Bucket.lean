import Sif.Model.Clp.Hooks
/-
  C18 — the running clamp of fix F26 on the epoch reward amounts: the amounts never add up to more than
  the bucket, the clamp never raises an amount, changes nothing while the amounts fit, and lowers an
  amount by at most the total overshoot of the rounded shares.
-/
namespace Sif.Clp
open Sif

def amtTotal (l : List (String × Nat)) : Nat := l.foldl (fun a e => a + e.2) 0

theorem amtTotal_cons (a : String) (x : Nat) (l : List (String × Nat)) : amtTotal ((a, x) :: l) = x + amtTotal l := by
  unfold amtTotal
  simp only [List.foldl_cons, Nat.zero_add]
  have : ∀ (l : List (String × Nat)) (k : Nat), l.foldl (fun a e => a + e.2) k = k + l.foldl (fun a e => a + e.2) 0 := by
    intro l
    induction l with
    | nil => intro k; simp
    | cons h t ih => intro k; simp only [List.foldl_cons, Nat.zero_add]; rw [ih (k + h.2), ih h.2]; omega
  exact this l x

/-- fix F26: the clamped amounts never add up to more than the bucket -/
theorem clampAmounts_total_le (B : Nat) (l : List (String × Nat)) : amtTotal (clampAmounts B l) ≤ B := by
  induction l generalizing B with
  | nil => simp [clampAmounts, amtTotal]
  | cons h t ih =>
    obtain ⟨a, x⟩ := h
    simp only [clampAmounts]
    rw [amtTotal_cons]
    have := ih (B - if x > B then B else x)
    split at this <;> split <;> omega

/-- the clamp keeps addresses and order, and never raises an amount -/
theorem clampAmounts_le (B : Nat) (l : List (String × Nat)) :
    (clampAmounts B l).map (·.1) = l.map (·.1) ∧
    ∀ i (h : i < l.length) (h' : i < (clampAmounts B l).length), ((clampAmounts B l)[i]'h').2 ≤ (l[i]'h).2 := by
  induction l generalizing B with
  | nil => simp [clampAmounts]
  | cons h t ih =>
    obtain ⟨a, x⟩ := h
    simp only [clampAmounts]
    obtain ⟨i1, i2⟩ := ih (B - if x > B then B else x)
    refine ⟨by simp [i1], ?_⟩
    intro i hi hi'
    cases i with
    | zero => simp only [List.getElem_cons_zero]; split <;> omega
    | succ j =>
      simp only [List.getElem_cons_succ]
      exact i2 j (by simpa using hi) (by simpa using hi')

/-- while the raw amounts still fit, the clamp changes nothing: a provider's amount is lowered only if the
    amounts before it and its own exceed the bucket -/
theorem clampAmounts_eq_of_fits (B : Nat) (l : List (String × Nat)) (h : amtTotal l ≤ B) : clampAmounts B l = l := by
  induction l generalizing B with
  | nil => simp [clampAmounts]
  | cons hd t ih =>
    obtain ⟨a, x⟩ := hd
    rw [amtTotal_cons] at h
    simp only [clampAmounts]
    have hx : ¬ x > B := by omega
    simp only [hx, if_false]
    rw [ih (B - x) (by omega)]
end Sif.Clp

namespace Sif.Clp
open Sif

/-- the clamp lowers an amount by at most the total overshoot of the raw amounts over the bucket -/
theorem clampAmounts_ge (B : Nat) (l : List (String × Nat)) :
    ∀ i (h : i < l.length) (h' : i < (clampAmounts B l).length),
      (l[i]'h).2 ≤ ((clampAmounts B l)[i]'h').2 + (amtTotal l - B) := by
  induction l generalizing B with
  | nil => intro i h; simp at h
  | cons hd t ih =>
    obtain ⟨a, x⟩ := hd
    intro i hi hi'
    simp only [clampAmounts] at hi' ⊢
    rw [amtTotal_cons]
    cases i with
    | zero => simp only [List.getElem_cons_zero]; split <;> omega
    | succ j =>
      simp only [List.getElem_cons_succ]
      by_cases hx : x > B
      · simp only [hx, if_true] at hi' ⊢
        have := ih (B - B) j (by simpa using hi) (by simpa using hi')
        omega
      · simp only [hx, if_false] at hi' ⊢
        have := ih (B - x) j (by simpa using hi) (by simpa using hi')
        omega
end Sif.Clp
