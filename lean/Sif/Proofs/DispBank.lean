import Sif.Model.DispBank
/- helper lemmas about the small bank model (C11/C20) -/
namespace Sif.Disp

/-! ### kvGet / kvSet -/

theorem kvGet_kvErase_ne {κ} [DecidableEq κ] (l : List (κ × Nat)) (k k' : κ) (h : k' ≠ k) :
    kvGet (kvErase l k) k' = kvGet l k' := by
  induction l with
  | nil => rfl
  | cons p r ih =>
    obtain ⟨k0, v⟩ := p
    by_cases h0 : k0 = k
    · subst h0
      have : k0 ≠ k' := fun e => h e.symm
      simp [kvErase, kvGet, this, ih]
    · simp only [kvErase, h0, if_false, kvGet]
      rw [ih]

theorem kvGet_kvSet_same {κ} [DecidableEq κ] (l : List (κ × Nat)) (k : κ) (v : Nat) :
    kvGet (kvSet l k v) k = v := by
  simp [kvSet, kvGet]

theorem kvGet_kvSet_other {κ} [DecidableEq κ] (l : List (κ × Nat)) (k k' : κ) (v : Nat) (h : k' ≠ k) :
    kvGet (kvSet l k v) k' = kvGet l k' := by
  have : k ≠ k' := fun e => h e.symm
  simp only [kvSet, kvGet, this, if_false]
  exact kvGet_kvErase_ne l k k' h

/-! ### balances and supply -/

theorem bal_setBal (b : Bank) (a a' : Addr) (d d' : Denom) (v : Nat) :
    (b.setBal a d v).bal a' d' = if a' = a ∧ d' = d then v else b.bal a' d' := by
  unfold Bank.setBal Bank.bal
  by_cases h : a' = a ∧ d' = d
  · obtain ⟨rfl, rfl⟩ := h
    simp [kvGet_kvSet_same]
  · rw [if_neg h]
    apply kvGet_kvSet_other
    intro e
    apply h
    cases e
    exact ⟨rfl, rfl⟩

theorem sup_setBal (b : Bank) (a : Addr) (d d' : Denom) (v : Nat) :
    (b.setBal a d v).sup d' = b.sup d' := rfl

theorem bal_setSup (b : Bank) (a : Addr) (d d' : Denom) (v : Nat) :
    (b.setSup d v).bal a d' = b.bal a d' := rfl

theorem sup_setSup (b : Bank) (d d' : Denom) (v : Nat) :
    (b.setSup d v).sup d' = if d' = d then v else b.sup d' := by
  unfold Bank.setSup Bank.sup
  by_cases h : d' = d
  · subst h; simp [kvGet_kvSet_same]
  · rw [if_neg h]; exact kvGet_kvSet_other _ _ _ _ h

/-! ### coin lists -/

theorem bal_addCoins (b : Bank) (a : Addr) (c : Coins) (a' : Addr) (d' : Denom) :
    (addCoins b a c).bal a' d' = b.bal a' d' + (if a' = a then coinsGet c d' else 0) := by
  induction c generalizing b with
  | nil => simp [addCoins, coinsGet]
  | cons p r ih =>
    obtain ⟨d, n⟩ := p
    simp only [addCoins, coinsGet]
    rw [ih, bal_setBal]
    by_cases ha : a' = a
    · subst ha
      by_cases hd : d' = d
      · subst hd; simp; omega
      · have : ¬ d = d' := fun e => hd e.symm
        simp [hd, this]
    · simp [ha]

theorem sup_addCoins (b : Bank) (a : Addr) (c : Coins) (d' : Denom) :
    (addCoins b a c).sup d' = b.sup d' := by
  induction c generalizing b with
  | nil => rfl
  | cons p r ih => obtain ⟨d, n⟩ := p; simp only [addCoins]; rw [ih, sup_setBal]

theorem bal_subCoins (b : Bank) (a : Addr) (c : Coins) (a' : Addr) (d' : Denom) :
    (subCoins b a c).bal a' d' = b.bal a' d' - (if a' = a then coinsGet c d' else 0) := by
  induction c generalizing b with
  | nil => simp [subCoins, coinsGet]
  | cons p r ih =>
    obtain ⟨d, n⟩ := p
    simp only [subCoins, coinsGet]
    rw [ih, bal_setBal]
    by_cases ha : a' = a
    · subst ha
      by_cases hd : d' = d
      · subst hd; simp; omega
      · have : ¬ d = d' := fun e => hd e.symm
        simp [hd, this]
    · simp [ha]

theorem sup_subCoins (b : Bank) (a : Addr) (c : Coins) (d' : Denom) :
    (subCoins b a c).sup d' = b.sup d' := by
  induction c generalizing b with
  | nil => rfl
  | cons p r ih => obtain ⟨d, n⟩ := p; simp only [subCoins]; rw [ih, sup_setBal]

theorem sup_addSupply (b : Bank) (c : Coins) (d' : Denom) :
    (addSupply b c).sup d' = b.sup d' + coinsGet c d' := by
  induction c generalizing b with
  | nil => simp [addSupply, coinsGet]
  | cons p r ih =>
    obtain ⟨d, n⟩ := p
    simp only [addSupply, coinsGet]
    rw [ih, sup_setSup]
    by_cases hd : d' = d
    · subst hd; simp; omega
    · have : ¬ d = d' := fun e => hd e.symm
      simp [hd, this]

theorem bal_addSupply (b : Bank) (c : Coins) (a : Addr) (d' : Denom) :
    (addSupply b c).bal a d' = b.bal a d' := by
  induction c generalizing b with
  | nil => rfl
  | cons p r ih => obtain ⟨d, n⟩ := p; simp only [addSupply]; rw [ih, bal_setSup]

theorem sup_subSupply (b : Bank) (c : Coins) (d' : Denom) :
    (subSupply b c).sup d' = b.sup d' - coinsGet c d' := by
  induction c generalizing b with
  | nil => simp [subSupply, coinsGet]
  | cons p r ih =>
    obtain ⟨d, n⟩ := p
    simp only [subSupply, coinsGet]
    rw [ih, sup_setSup]
    by_cases hd : d' = d
    · subst hd; simp; omega
    · have : ¬ d = d' := fun e => hd e.symm
      simp [hd, this]

theorem bal_subSupply (b : Bank) (c : Coins) (a : Addr) (d' : Denom) :
    (subSupply b c).bal a d' = b.bal a d' := by
  induction c generalizing b with
  | nil => rfl
  | cons p r ih => obtain ⟨d, n⟩ := p; simp only [subSupply]; rw [ih, bal_setSup]

theorem bal_mintCoins (b : Bank) (m : Addr) (c : Coins) (a' : Addr) (d' : Denom) :
    (mintCoins b m c).bal a' d' = b.bal a' d' + (if a' = m then coinsGet c d' else 0) := by
  unfold mintCoins; rw [bal_addSupply, bal_addCoins]

theorem sup_mintCoins (b : Bank) (m : Addr) (c : Coins) (d' : Denom) :
    (mintCoins b m c).sup d' = b.sup d' + coinsGet c d' := by
  unfold mintCoins; rw [sup_addSupply, sup_addCoins]

/-- a successful send moves exactly the coins -/
theorem bal_sendCoins {b b' : Bank} {frm to : Addr} {c : Coins} (h : sendCoins b frm to c = some b')
    (a' : Addr) (d' : Denom) :
    b'.bal a' d' = b.bal a' d' - (if a' = frm then coinsGet c d' else 0) + (if a' = to then coinsGet c d' else 0) := by
  unfold sendCoins at h
  split at h
  · cases h; rw [bal_addCoins, bal_subCoins]
  · cases h

theorem sup_sendCoins {b b' : Bank} {frm to : Addr} {c : Coins} (h : sendCoins b frm to c = some b')
    (d' : Denom) : b'.sup d' = b.sup d' := by
  unfold sendCoins at h
  split at h
  · cases h; rw [sup_addCoins, sup_subCoins]
  · cases h

end Sif.Disp
