import Sif.Proofs.C13Bank
/-
  C13 helper lemmas, part 9: a position that is missing after the BeginBlocker was removed by the
  processing of that very position, at an epoch boundary, in a synced world.
-/
namespace Sif.Margin
open Sif Sif.Spec.C13

/-- parameters and height survive the processing of a position (every exit) -/
theorem processMtp_cfg {fx : Fixes} (h1 : fx.iipCopy = true) (h2 : fx.fcAtomic = true) {w : W} (hg : Good w) :
    (processMtp fx w).s.params = w.s.params ∧ (processMtp fx w).s.height = w.s.height := by
  unfold processMtp
  split
  · exact ⟨rfl, rfl⟩
  · rename_i hh _
    have g1 : Good ({ w with mtp := { w.mtp with health := hh } } : W) :=
      hg.congr (LedgerSame.refl _) (Pool.sameLedger_refl _) ⟨rfl, rfl, rfl, rfl, rfl, rfl⟩
    have ha1 : Acc [w.s.clp.clpAddr, w.mtp.addr, w.s.params.fcAddr, w.s.params.iipAddr]
        ({ w with mtp := { w.mtp with health := hh } } : W) := ⟨by simp, by simp, by simp, by simp⟩
    simp only []
    split
    · exact ⟨rfl, rfl⟩
    · rename_i ip _
      split
      · -- a panic inside the interest payment: only the store writes made so far remain
        rename_i e w' he
        unfold handleInterestPayment incrementalInterestPayment at he
        split at he
        · cases hb : iipBody ({ w with mtp := { w.mtp with health := hh } } : W) ip with
          | ok r' => rw [hb] at he; simp at he
          | error ew =>
            obtain ⟨e', w''⟩ := ew
            rw [hb] at he; simp only [h1, if_true] at he
            have mv := iipBody_moves_err ha1 g1.id_ne_zero hb
            split at he
            · simp at he; rw [← he.2]; exact ⟨mv.params, mv.height⟩
            · simp at he
        · simp at he
      · rename_i fw hfw
        obtain ⟨g2, _, _, _⟩ := (handleInterestPayment_good h1 g1).1 fw hfw
        obtain ⟨mv, _, _⟩ := handleInterestPayment_moves h1 ha1 g1.id_ne_zero hfw
        simp only [] at mv
        split
        · rename_i e w' he
          have := addBlockInterest_err he
          subst this
          exact ⟨mv.params, mv.height⟩
        · rename_i w3 hw3
          obtain ⟨g3, _, _, e3⟩ := addBlockInterest_good g2 hw3
          obtain ⟨g4, m4, p4, ht4⟩ := storeMtpIgnore_spec g3
          unfold processMtpClose
          cases hf : forceCloseLong fx (storeMtpIgnore w3) false true with
          | ok r =>
            obtain ⟨r1, w5⟩ := r
            have mv5 := (forceCloseLong_moves (L := [(storeMtpIgnore w3).s.clp.clpAddr, (storeMtpIgnore w3).mtp.addr,
              (storeMtpIgnore w3).s.params.fcAddr, (storeMtpIgnore w3).s.params.iipAddr]) h1
              ⟨by simp, by simp, by simp, by simp⟩ g4.id_ne_zero hf).1
            simp only []
            exact ⟨by rw [mv5.params, p4, e3, mv.params], by rw [mv5.height, ht4, e3, mv.height]⟩
          | error ew =>
            obtain ⟨e, w'⟩ := ew
            simp only [h2, if_true]
            exact ⟨by rw [p4, e3, mv.params], by rw [ht4, e3, mv.height]⟩

theorem epoch_congr {s s' : State} (hp : s'.params = s.params) (hh : s'.height = s.height) : s'.epochPosition = s.epochPosition := by
  unfold State.epochPosition; rw [hp, hh]

/-- the loop over a pool's positions removes a position only by processing it -/
theorem processMtps_removed {fx : Fixes} (h1 : fx.iipCopy = true) (h2 : fx.fcAtomic = true) (k : Key) :
    ∀ (ms : List Mtp) (s : State) (p : Pool), LoopInv s p → (ms.map Mtp.key).Nodup →
      (∀ m ∈ ms, Synced s m ∧ m.poolSym = p.sym) → s.epochPosition = 0 →
      ((processMtps fx ms s p).1.params = s.params ∧ (processMtps fx ms s p).1.height = s.height) ∧
      (getMtpL s.mtps k ≠ none → getMtpL (processMtps fx ms s p).1.mtps k = none →
        ∃ w, Good w ∧ w.mtp.key = k ∧ w.s.epochPosition = 0 ∧ getMtpL (processMtp fx w).s.mtps k = none) := by
  intro ms
  induction ms with
  | nil => intro s p _ _ _ _; exact ⟨⟨rfl, rfl⟩, fun h1 h2 => absurd h2 h1⟩
  | cons m ms ih =>
    intro s p hl hnd hall h0
    simp only [List.map_cons, List.nodup_cons] at hnd
    obtain ⟨hsync, hhome⟩ := hall m List.mem_cons_self
    have hg : Good ({ s := s, pool := p, mtp := m } : W) := Good.ofLoop hl hsync hhome
    have ha := processMtp_after (fx := fx) h1 h2 hg
    have hc := processMtp_cfg (fx := fx) h1 h2 hg
    unfold processMtps
    simp only []
    generalize hw' : processMtp fx { s := s, pool := p, mtp := m } = w' at ha hc ⊢
    obtain ⟨inv, hsym, hframe⟩ := ha
    simp only [] at hsym hframe hc
    have hall' : ∀ m' ∈ ms, Synced w'.s m' ∧ m'.poolSym = w'.pool.sym := by
      intro m' hm'
      obtain ⟨⟨m0, hm0, hs0⟩, hh⟩ := hall m' (List.mem_cons_of_mem _ hm')
      have hne : m'.key ≠ m.key := by
        intro h; apply hnd.1; rw [← h]; exact List.mem_map_of_mem hm'
      exact ⟨⟨m0, by rw [hframe.mtps _ hne]; exact hm0, hs0⟩, by rw [hsym]; exact hh⟩
    have h0' : w'.s.epochPosition = 0 := by rw [epoch_congr hc.1 hc.2]; exact h0
    obtain ⟨⟨c1, c2⟩, rem⟩ := ih w'.s w'.pool inv hnd.2 hall' h0'
    refine ⟨⟨c1.trans hc.1, c2.trans hc.2⟩, ?_⟩
    intro hpres hgone
    by_cases hrem : getMtpL w'.s.mtps k = none
    · -- removed by this very step: then k is this position's key
      by_cases hk : k = m.key
      · exact ⟨{ s := s, pool := p, mtp := m }, hg, hk.symm, h0, by rw [hw']; exact hrem⟩
      · exfalso; rw [hframe.mtps k hk] at hrem; exact hpres hrem
    · exact rem hrem hgone

/-- one iteration of the pool loop -/
theorem bbPool_removed {fx : Fixes} (h1 : fx.iipCopy = true) (h2 : fx.fcAtomic = true) (k : Key) {s s' : State} {p p0 : Pool}
    {rate : Option Dec} (hok : OKp s) (hwf : WFp s) (hp0 : getPoolL s.pools p.sym = some p0)
    (hc : ∀ b, p0.cust b = p.cust b) (hl : ∀ b, p0.liab b = p.liab b) (h0 : s.epochPosition = 0)
    (h : bbPool fx s p rate = .ok s') :
    (s'.params = s.params ∧ s'.height = s.height) ∧
    (getMtpL s.mtps k ≠ none → getMtpL s'.mtps k = none →
      ∃ w, Good w ∧ w.mtp.key = k ∧ w.s.epochPosition = 0 ∧ getMtpL (processMtp fx w).s.mtps k = none) := by
  have hnn : isNative p.sym = false := by
    obtain ⟨hmem, hs⟩ := getPoolL_some hp0
    rw [← hs]; exact hwf.nonNative p0 hmem
  unfold bbPool at h
  simp only [] at h
  split at h
  · split at h
    · simp at h; rw [← h]; exact ⟨⟨rfl, rfl⟩, fun a b => absurd b a⟩
    · rename_i r
      obtain ⟨hh, _, h⟩ := bind_ok h
      have h := pure_ok h
      generalize hp3 : ({ ({ ({ p with biE := 0, biN := 0 } : Pool) with rate := r, lastH := s.height } : Pool) with health := hh } : Pool) = p3 at h
      have hs3 : p3.sym = p.sym := by rw [← hp3]
      have hc3 : ∀ b, p0.cust b = p3.cust b := by intro b; rw [← hp3, hc b]; cases b <;> rfl
      have hl3 : ∀ b, p0.liab b = p3.liab b := by intro b; rw [← hp3, hl b]; cases b <;> rfl
      obtain ⟨ok1, wf1⟩ := setPool_sameLedger hok hwf (by rw [hs3]; exact hp0) hc3 hl3
      have inv1 : LoopInv (s.setPool p3) p3 := ⟨ok1, wf1, ⟨p3, getPoolL_set _ _, fun _ => rfl, fun _ => rfl⟩⟩
      have hsnap : ∀ m ∈ mtpsForPool (s.setPool p3) p.sym, Synced (s.setPool p3) m ∧ m.poolSym = p3.sym := by
        intro m hm
        obtain ⟨hmem, hhome⟩ := mtpsForPool_home wf1 hnn hm
        exact ⟨⟨m, getMtpL_of_mem wf1.keys hmem, MtpSame.refl _⟩, by rw [hs3]; exact hhome⟩
      have hndsnap : ((mtpsForPool (s.setPool p3) p.sym).map Mtp.key).Nodup := by
        unfold mtpsForPool
        exact List.Nodup.sublist (List.Sublist.map _ List.filter_sublist) wf1.keys
      obtain ⟨⟨c1, c2⟩, rem⟩ := processMtps_removed h1 h2 k _ _ _ inv1 hndsnap hsnap (by exact h0)
      generalize processMtps fx (mtpsForPool (s.setPool p3) p.sym) (s.setPool p3) p3 = sp at h c1 c2 rem
      rw [← h]
      exact ⟨⟨c1, c2⟩, rem⟩
  · simp at h
    rw [← h]
    exact ⟨⟨rfl, rfl⟩, fun a b => absurd b a⟩

theorem bbPools_removed {fx : Fixes} (h1 : fx.iipCopy = true) (h2 : fx.fcAtomic = true) (rates : Asset → Option Dec) (k : Key) :
    ∀ (ps : List Pool) (s s' : State), OKp s → WFp s → (ps.map (fun q => q.sym)).Nodup →
      (∀ q ∈ ps, getPoolL s.pools q.sym = some q) → s.epochPosition = 0 → bbPools fx rates ps s = .ok s' →
      getMtpL s.mtps k ≠ none → getMtpL s'.mtps k = none →
      ∃ w, Good w ∧ w.mtp.key = k ∧ w.s.epochPosition = 0 ∧ getMtpL (processMtp fx w).s.mtps k = none := by
  intro ps
  induction ps with
  | nil => intro s s' _ _ _ _ _ h hp hg; simp [bbPools] at h; rw [← h] at hg; exact absurd hg hp
  | cons p ps ih =>
    intro s s' hok hwf hnd hall h0 h hp hg
    simp only [List.map_cons, List.nodup_cons] at hnd
    unfold bbPools at h
    obtain ⟨s1, hs1, h⟩ := bind_ok h
    obtain ⟨ok1, wf1, fr, _⟩ := bbPool_inv h1 h2 hok hwf (hall p List.mem_cons_self) (fun _ => rfl) (fun _ => rfl) hs1
    obtain ⟨⟨c1, c2⟩, rem⟩ := bbPool_removed h1 h2 k hok hwf (hall p List.mem_cons_self) (fun _ => rfl) (fun _ => rfl) h0 hs1
    by_cases hrem : getMtpL s1.mtps k = none
    · exact rem hp hrem
    · apply ih s1 s' ok1 wf1 hnd.2 _ (by rw [epoch_congr c1 c2]; exact h0) h hrem hg
      intro q hq
      have hne : q.sym ≠ p.sym := by
        intro he; apply hnd.1; rw [← he]; exact List.mem_map_of_mem (f := fun q => q.sym) hq
      rw [fr _ hne]
      exact hall q (List.mem_cons_of_mem _ hq)

/-- a position missing after the BeginBlocker was removed by the processing of that position -/
theorem beginBlocker_removed {fx : Fixes} (h1 : fx.iipCopy = true) (h2 : fx.fcAtomic = true) {s s' : State}
    {rates : Asset → Option Dec} {k : Key} (hok : OKp s) (hwf : WFp s) (h : beginBlocker fx s rates = .ok s')
    (hp : getMtpL s.mtps k ≠ none) (hg : getMtpL s'.mtps k = none) :
    ∃ w, Good w ∧ w.mtp.key = k ∧ w.s.epochPosition = 0 ∧ getMtpL (processMtp fx w).s.mtps k = none := by
  unfold beginBlocker at h
  split at h
  · rename_i h0
    exact bbPools_removed h1 h2 rates k s.pools s s' hok hwf hwf.syms (fun q hq => getPoolL_of_mem hwf.syms hq)
      (by simpa using h0) h hp hg
  · simp at h; rw [← h] at hg; exact absurd hg hp

end Sif.Margin
