import Sif.Proofs.ClpState
import Sif.Proofs.RatFloor
/-
  C02 — helper lemmas: the units invariant is preserved by every message of the AMM.
-/
namespace Sif.Clp
open Sif Sif.AList

/-- pool units = Σ provider units for every pool; no provider record without a pool -/
def UnitsView (s : St) : Prop :=
  ∀ sym, match s.getPool sym with
    | some p => p.units = (s.lpsOf sym).sumBy (·.units)
    | none => s.lpsOf sym = []

/-- the invariant of C02 (with uniqueness of pool keys, which the proof of `DecommissionPool`
    needs: the destroyed pool must really be gone) -/
def UnitsInv (s : St) : Prop := s.pools.NodupKeys ∧ UnitsView s

theorem unitsInv_init : UnitsInv ({} : St) := by
  refine ⟨nodupKeys_nil, ?_⟩
  intro sym; simp [St.getPool, St.lpsOf, AList.get]

/-- states that differ only in the bank (and other fields the invariant does not read) -/
theorem UnitsInv.congr {s s' : St} (h : UnitsInv s) (hp : s'.pools = s.pools) (hl : s'.lps = s.lps) : UnitsInv s' := by
  refine ⟨by rw [hp]; exact h.1, ?_⟩
  intro sym
  have := h.2 sym
  simpa [St.getPool, St.lpsOf, hp, hl] using this

theorem poolUnitsSymmetric_sum {X x P np pu : Nat} (h : poolUnitsSymmetric X x P = .ok (np, pu)) : np = P + pu := by
  unfold poolUnitsSymmetric at h
  split at h
  · cases h
  · obtain ⟨a, _, h⟩ := bind_ok h
    obtain ⟨b, hb, h⟩ := bind_ok h
    cases h
    exact (Uint.add_ok hb).1

/-- outside the empty-side branch, `CalculatePoolUnits` returns `P + lpUnits` as new pool units -/
theorem calculatePoolUnits_sum {P R A r a : Nat} {fS fB p : Dec} {u : UnitsRes}
    (h : calculatePoolUnits P R A r a fS fB p = .ok (some u))
    (hne : symmetryState A a R r ≠ .emptyPool) : u.poolUnits = P + u.lpUnits := by
  unfold calculatePoolUnits at h
  split at h
  · exact absurd ‹_› hne
  · cases h; rfl
  · cases hh : needMoreYUnits P R A r a (decToRat fB) (decToRat p) with
    | error e => simp [hh, Except.map] at h
    | ok v =>
      simp [hh, Except.map] at h; subst h
      unfold needMoreYUnits at hh
      obtain ⟨_, _, hh⟩ := bind_ok hh
      obtain ⟨_, _, hh⟩ := bind_ok hh
      obtain ⟨_, _, hh⟩ := bind_ok hh
      obtain ⟨⟨pu, lu⟩, h4, hh⟩ := bind_ok hh
      cases hh
      exact poolUnitsSymmetric_sum h4
  · cases hh : symmetricUnits P R r with
    | error e => simp [hh, Except.map] at h
    | ok v =>
      simp [hh, Except.map] at h; subst h
      unfold symmetricUnits at hh
      obtain ⟨⟨pu, lu⟩, h4, hh⟩ := bind_ok hh
      cases hh
      exact poolUnitsSymmetric_sum h4
  · cases hh : needMoreXUnits P R A r a (decToRat fS) (decToRat p) with
    | error e => simp [hh, Except.map] at h
    | ok v =>
      simp [hh, Except.map] at h; subst h
      unfold needMoreXUnits at hh
      obtain ⟨_, _, hh⟩ := bind_ok hh
      obtain ⟨_, _, hh⟩ := bind_ok hh
      obtain ⟨_, _, hh⟩ := bind_ok hh
      obtain ⟨⟨pu, lu⟩, h4, hh⟩ := bind_ok hh
      cases hh
      exact poolUnitsSymmetric_sum h4

/-- in the empty-pool branch the creator gets exactly the new pool units -/
theorem calculatePoolUnits_empty {r a : Nat} {fS fB p : Dec} {u : UnitsRes}
    (h : calculatePoolUnits 0 0 0 r a fS fB p = .ok (some u)) : u.poolUnits = u.lpUnits := by
  unfold calculatePoolUnits symmetryState at h
  simp at h
  split at h
  · cases h
  · cases h; rfl

end Sif.Clp

namespace Sif.Clp
open Sif Sif.AList

/-- units view after setting one pool record and one provider record of the same pool -/
theorem unitsInv_setPool_setLP {s : St} {pool : Pool} {lp : LP} (hinv : UnitsInv s)
    (hsym : lp.sym = pool.sym)
    (hsum : pool.units = ((s.lpsOf pool.sym).set lp.addr lp).sumBy (·.units)) :
    UnitsInv ((s.setPool pool).setLP lp) := by
  refine ⟨nodupKeys_set _ _ hinv.1, ?_⟩
  intro sym'
  simp only [setLP_getPool, getPool_setPool, lpsOf_setLP, setPool_lpsOf, hsym]
  by_cases h : pool.sym = sym'
  · subst h; simp [hsum]
  · simp [h]; exact hinv.2 sym'

theorem unitsInv_setPool_eraseLP {s : St} {pool : Pool} {addr : String} (hinv : UnitsInv s)
    (hsum : pool.units = ((s.lpsOf pool.sym).erase addr).sumBy (·.units)) :
    UnitsInv ((s.setPool pool).eraseLP pool.sym addr) := by
  refine ⟨nodupKeys_set _ _ hinv.1, ?_⟩
  intro sym'
  simp only [eraseLP_getPool, getPool_setPool, lpsOf_eraseLP, setPool_lpsOf]
  by_cases h : pool.sym = sym'
  · subst h; simp [hsum]
  · simp [h]; exact hinv.2 sym'

/-- replacing a pool record by one with the same units keeps the invariant -/
theorem unitsInv_setPool_sameUnits {s : St} {old pool : Pool} (hinv : UnitsInv s)
    (hold : s.getPool pool.sym = some old) (hu : pool.units = old.units) : UnitsInv (s.setPool pool) := by
  refine ⟨nodupKeys_set _ _ hinv.1, ?_⟩
  intro sym'
  simp only [getPool_setPool, setPool_lpsOf]
  by_cases h : pool.sym = sym'
  · subst h
    have := hinv.2 pool.sym
    rw [hold] at this
    simp [hu, this]
  · simp [h]; exact hinv.2 sym'

theorem createPool_units {s s' : St} {signer sym : String} {n e : Nat}
    (hinv : UnitsInv s) (h : createPool s signer sym n e = .ok s') : UnitsInv s' := by
  unfold createPool at h
  obtain ⟨_, _, h⟩ := bind_ok h
  obtain ⟨_, _, h⟩ := bind_ok h
  obtain ⟨_, _, h⟩ := bind_ok h
  obtain ⟨_, hnp, h⟩ := bind_ok h
  obtain ⟨uo, hu, h⟩ := bind_ok h
  obtain ⟨u, huo, h⟩ := bind_ok h
  obtain ⟨_, _, h⟩ := bind_ok h
  obtain ⟨s1, h1, h⟩ := bind_ok h
  obtain ⟨s2, h2, h⟩ := bind_ok h
  cases h
  have hu := liftM_ok hu
  have huo := optR_ok huo
  subst huo
  obtain ⟨p1, l1, _⟩ := send_frame (optR_ok h1)
  obtain ⟨p2, l2, _⟩ := send_frame (optR_ok h2)
  have hinv2 : UnitsInv s2 := hinv.congr (p2.trans p1) (l2.trans l1)
  have hnone : s2.getPool sym = none := by
    have := guardR_ok hnp
    simp [AList.contains] at this
    simpa [St.getPool, p2, p1] using this
  apply unitsInv_setPool_setLP hinv2 rfl
  have hl : s2.lpsOf sym = [] := by
    have := hinv2.2 sym
    rw [hnone] at this
    exact this
  simp [hl, AList.set, AList.contains, AList.insert, AList.sumBy]
  exact calculatePoolUnits_empty hu

theorem symmetryState_ne_empty {X x Y y : Nat} (hX : X ≠ 0) (hY : Y ≠ 0) : symmetryState X x Y y ≠ .emptyPool := by
  unfold symmetryState
  have : ¬ (X = 0 ∨ Y = 0) := by omega
  rw [if_neg this]
  split
  · simp
  · split
    · simp
    · split
      · simp
      · split <;> simp

theorem depths_spec {p : Pool} {nD eD : Nat} (h : p.depths = .ok (nD, eD)) :
    nD = p.nBal + p.nLiab ∧ eD = p.eBal + p.eLiab := by
  unfold Pool.depths at h
  obtain ⟨n', hn', h⟩ := bind_ok h
  obtain ⟨e', he', h⟩ := bind_ok h
  cases h
  exact ⟨(Uint.add_ok hn').1, (Uint.add_ok he').1⟩

/-- `AddLiquidity` keeps pool units = Σ provider units **when both sides of the pool are
    non-empty** (with an empty side the handler replaces the pool units: finding F17) -/
theorem addLiquidityCore_units {s s' : St} {signer sym : String} {n e : Nat}
    (hinv : UnitsInv s) (h : addLiquidityCore s signer sym n e = .ok s')
    (hside : ∀ p, s.getPool sym = some p → p.nBal + p.nLiab ≠ 0 ∧ p.eBal + p.eLiab ≠ 0) : UnitsInv s' := by
  unfold addLiquidityCore at h
  obtain ⟨_, _, h⟩ := bind_ok h
  obtain ⟨_, _, h⟩ := bind_ok h
  obtain ⟨pool, hp, h⟩ := bind_ok h
  obtain ⟨⟨nD, eD⟩, hd, h⟩ := bind_ok h
  obtain ⟨uo, hu, h⟩ := bind_ok h
  obtain ⟨u, huo, h⟩ := bind_ok h
  obtain ⟨_, _, h⟩ := bind_ok h
  obtain ⟨s1, h1, h⟩ := bind_ok h
  obtain ⟨s2, h2, h⟩ := bind_ok h
  obtain ⟨nB, _, h⟩ := bind_ok h
  obtain ⟨eB, _, h⟩ := bind_ok h
  obtain ⟨lp, hlp, h⟩ := bind_ok h
  cases h
  have hp : s.getPool sym = some pool := optR_ok hp
  have hu := liftM_ok hu
  have huo := optR_ok huo; subst huo
  obtain ⟨p1, l1, _⟩ := send_frame (optR_ok h1)
  obtain ⟨p2, l2, _⟩ := send_frame (optR_ok h2)
  have hinv2 : UnitsInv s2 := hinv.congr (p2.trans p1) (l2.trans l1)
  obtain ⟨hnD, heD⟩ := depths_spec (liftM_ok hd)
  obtain ⟨hn0, he0⟩ := hside pool hp
  have hsum := calculatePoolUnits_sum hu (symmetryState_ne_empty (by omega) (by omega))
  have hl2 : s2.lpsOf sym = s.lpsOf sym := by simp [St.lpsOf, l2, l1]
  have hpu : pool.units = (s.lpsOf sym).sumBy (·.units) := by
    have := hinv.2 sym; rw [hp] at this; exact this
  have hlp := liftM_ok hlp
  unfold lpAfterAdd at hlp
  cases hg : s.getLP sym signer with
  | none =>
    rw [hg] at hlp
    cases hlp
    apply unitsInv_setPool_setLP hinv2 rfl
    simp only [hl2]
    rw [sumBy_set_absent _ _ _ _ hg, hsum, hpu]
  | some old =>
    rw [hg] at hlp
    obtain ⟨u', hu', hlp⟩ := bind_ok hlp
    cases hlp
    have hadd := (Uint.add_ok hu').1
    apply unitsInv_setPool_setLP hinv2 rfl
    simp only [hl2]
    have := sumBy_set_present (·.units) (s.lpsOf sym) signer
      ({ sym := sym, addr := signer, units := u', lastUpdated := s.height } : LP) old hg
    simp only at this
    omega

end Sif.Clp

namespace Sif.Clp
open Sif Sif.AList

theorem poolAfterRemoval_units {pool pool' : Pool} {lu left wN wE : Nat}
    (h : poolAfterRemoval pool lu left wN wE = .ok pool') :
    pool'.units = pool.units - lu + left ∧ lu ≤ pool.units := by
  unfold poolAfterRemoval at h
  obtain ⟨u0, h0, h⟩ := bind_ok h
  obtain ⟨u, h1, h⟩ := bind_ok h
  obtain ⟨_, _, h⟩ := bind_ok h
  obtain ⟨_, _, h⟩ := bind_ok h
  cases h
  obtain ⟨e0, hle⟩ := Uint.sub_ok h0
  obtain ⟨e1, _⟩ := Uint.add_ok h1
  exact ⟨by simp [e1, e0], hle⟩

/-- the common tail of both removal handlers -/
theorem finishRemoval_units {s s' : St} {pool pool' : Pool} {lp : LP} {sym addr : String} {wN wE left nD eD : Nat}
    (hinv : UnitsInv s) (hp : s.getPool sym = some pool) (hlp : s.getLP sym addr = some lp)
    (hu : pool'.units = pool.units - lp.units + left) (hle : lp.units ≤ pool.units)
    (h : finishRemoval s { pool' with sym := sym } sym addr wN wE left nD eD = .ok s') : UnitsInv s' := by
  unfold finishRemoval at h
  obtain ⟨_, _, h⟩ := bind_ok h
  obtain ⟨_, _, h⟩ := bind_ok h
  obtain ⟨_, _, h⟩ := bind_ok h
  obtain ⟨_, _, h⟩ := bind_ok h
  obtain ⟨s1, h1, h⟩ := bind_ok h
  obtain ⟨s2, h2, h⟩ := bind_ok h
  cases h
  obtain ⟨p1, l1, _⟩ := send_frame (optR_ok h1)
  obtain ⟨p2, l2, _⟩ := send_frame (optR_ok h2)
  have hinv2 : UnitsInv s2 := hinv.congr (p2.trans p1) (l2.trans l1)
  have hl2 : s2.lpsOf sym = s.lpsOf sym := by simp [St.lpsOf, l2, l1]
  have hpu : pool.units = (s.lpsOf sym).sumBy (·.units) := by
    have := hinv.2 sym; rw [hp] at this; exact this
  have hlp' : (s.lpsOf sym).get addr = some lp := hlp
  split
  · rename_i h0
    have := unitsInv_setPool_eraseLP (s := s2) (pool := { pool' with sym := sym }) (addr := addr) hinv2 (by
      simp only [hl2]
      have := sumBy_erase_present (·.units) (s.lpsOf sym) addr lp hlp'
      omega)
    exact this
  · apply unitsInv_setPool_setLP hinv2 rfl
    simp only [hl2]
    have := sumBy_set_present (·.units) (s.lpsOf sym) addr
      ({ sym := sym, addr := addr, units := left, lastUpdated := s.height } : LP) lp hlp'
    simp only at this
    omega

theorem removeLiquidity_units {s s' : St} {signer sym : String} {w : Nat}
    (hinv : UnitsInv s) (h : removeLiquidity s signer sym w = .ok s') : UnitsInv s' := by
  unfold removeLiquidity at h
  obtain ⟨_, _, h⟩ := bind_ok h
  obtain ⟨pool, hp, h⟩ := bind_ok h
  obtain ⟨lp, hlp, h⟩ := bind_ok h
  obtain ⟨_, _, h⟩ := bind_ok h
  obtain ⟨_, _, h⟩ := bind_ok h
  obtain ⟨⟨nD, eD⟩, _, h⟩ := bind_ok h
  obtain ⟨⟨wN, wE, left⟩, _, h⟩ := bind_ok h
  obtain ⟨_, _, h⟩ := bind_ok h
  obtain ⟨_, _, h⟩ := bind_ok h
  obtain ⟨pool', hpa, h⟩ := bind_ok h
  obtain ⟨hu, hle⟩ := poolAfterRemoval_units (liftM_ok hpa)
  exact finishRemoval_units hinv (optR_ok hp) (optR_ok hlp) hu hle h

theorem removeLiquidityUnits_units {s s' : St} {signer sym : String} {w : Nat}
    (hinv : UnitsInv s) (h : removeLiquidityUnits s signer sym w = .ok s') : UnitsInv s' := by
  unfold removeLiquidityUnits at h
  obtain ⟨_, _, h⟩ := bind_ok h
  obtain ⟨pool, hp, h⟩ := bind_ok h
  obtain ⟨lp, hlp, h⟩ := bind_ok h
  obtain ⟨_, _, h⟩ := bind_ok h
  obtain ⟨⟨nD, eD⟩, _, h⟩ := bind_ok h
  obtain ⟨⟨wN, wE, left⟩, _, h⟩ := bind_ok h
  obtain ⟨_, _, h⟩ := bind_ok h
  obtain ⟨_, _, h⟩ := bind_ok h
  obtain ⟨pool', hpa, h⟩ := bind_ok h
  obtain ⟨hu, hle⟩ := poolAfterRemoval_units (liftM_ok hpa)
  exact finishRemoval_units hinv (optR_ok hp) (optR_ok hlp) hu hle h

theorem swapOne_units {t : Bool} {x : Nat} {pool pool' : Pool} {r f : Dec} {y fee : Nat}
    (h : swapOne t x pool r f = .ok (y, fee, pool')) : pool'.units = pool.units := by
  unfold swapOne at h
  obtain ⟨_, _, h⟩ := bind_ok h
  obtain ⟨_, _, h⟩ := bind_ok h
  obtain ⟨⟨y', fee'⟩, _, h⟩ := bind_ok h
  obtain ⟨_, _, h⟩ := bind_ok h
  obtain ⟨_, _, h⟩ := bind_ok h
  obtain ⟨_, _, h⟩ := bind_ok h
  cases h
  split <;> rfl

theorem swapCore_units {s s' : St} {signer sent recv : String} {amt mn y : Nat}
    (hinv : UnitsInv s) (h : swapCore s signer sent recv amt mn = .ok (s', y)) : UnitsInv s' := by
  unfold swapCore at h
  obtain ⟨_, _, h⟩ := bind_ok h
  obtain ⟨_, _, h⟩ := bind_ok h
  obtain ⟨_, _, h⟩ := bind_ok h
  obtain ⟨_, _, h⟩ := bind_ok h
  obtain ⟨s1, h1, h⟩ := bind_ok h
  obtain ⟨⟨s2, amt2⟩, hleg, h⟩ := bind_ok h
  obtain ⟨outPool, hop, h⟩ := bind_ok h
  obtain ⟨⟨y', fee, p'⟩, hso, h⟩ := bind_ok h
  obtain ⟨_, _, h⟩ := bind_ok h
  obtain ⟨_, _, h⟩ := bind_ok h
  obtain ⟨s4, h4, h⟩ := bind_ok h
  cases h
  obtain ⟨p1, l1, _⟩ := send_frame (optR_ok h1)
  have hinv1 : UnitsInv s1 := hinv.congr p1 l1
  have hinv2 : UnitsInv s2 := by
    unfold swapRoute at hleg
    split at hleg
    · unfold swapFirstLeg at hleg
      obtain ⟨inPool, hip, hleg⟩ := bind_ok hleg
      obtain ⟨⟨y1, f1, q'⟩, hs1, hleg⟩ := bind_ok hleg
      cases hleg
      exact unitsInv_setPool_sameUnits (pool := { q' with sym := sent }) hinv1 (optR_ok hip)
        (by have hq := swapOne_units hs1; exact hq)
    · cases hleg; exact hinv1
  obtain ⟨p4, l4, _⟩ := send_frame (optR_ok h4)
  refine UnitsInv.congr ?_ p4 l4
  exact unitsInv_setPool_sameUnits (pool := { p' with sym := if recv = rowan then sent else recv }) hinv2 (optR_ok hop)
    (by have hq := swapOne_units hso; exact hq)

theorem swap_units {s s' : St} {signer sent recv : String} {amt mn y : Nat}
    (hinv : UnitsInv s) (h : swap s signer sent recv amt mn = .ok (s', y)) : UnitsInv s' := by
  obtain ⟨s4, c, hc, rfl⟩ := swap_ok h
  exact (swapCore_units hinv hc).congr rfl rfl

theorem addLiquidity_units {s s' : St} {signer sym : String} {n e : Nat}
    (hinv : UnitsInv s) (h : addLiquidity s signer sym n e = .ok s')
    (hside : ∀ p, s.getPool sym = some p → p.nBal + p.nLiab ≠ 0 ∧ p.eBal + p.eLiab ≠ 0) : UnitsInv s' := by
  obtain ⟨s0, c, hc, rfl⟩ := addLiquidity_ok h
  exact (addLiquidityCore_units hinv hc hside).congr rfl rfl

theorem addToBucket_units {s s' : St} {signer d : String} {amt : Nat}
    (hinv : UnitsInv s) (h : addToBucket s signer d amt = .ok s') : UnitsInv s' := by
  unfold addToBucket at h
  split at h
  · cases h; exact hinv
  · obtain ⟨_, _, h⟩ := bind_ok h
    obtain ⟨_, _, h⟩ := bind_ok h
    obtain ⟨s1, h1, h⟩ := bind_ok h
    cases h
    obtain ⟨p1, l1, _⟩ := send_frame (optR_ok h1)
    exact hinv.congr p1 l1

end Sif.Clp

namespace Sif.Clp
open Sif Sif.AList

/-- the refund loop of `DecommissionPool` empties the pool's provider list and touches no other
    provider list and no pool record -/
theorem decommissionLoop_spec {pool : Pool} {nD eD : Nat} :
    ∀ (l : List (String × LP)) (s s' : St) (pu nB eB : Nat),
      s.lpsOf pool.sym = l → decommissionLoop pool nD eD l s pu nB eB = .ok s' →
      s'.lpsOf pool.sym = [] ∧ (∀ sym, sym ≠ pool.sym → s'.lpsOf sym = s.lpsOf sym) ∧ s'.pools = s.pools := by
  intro l
  induction l with
  | nil =>
    intro s s' pu nB eB hl h
    unfold decommissionLoop at h
    cases h
    exact ⟨hl, fun _ _ => rfl, rfl⟩
  | cons hd t ih =>
    intro s s' pu nB eB hl h
    obtain ⟨k, lp⟩ := hd
    unfold decommissionLoop at h
    obtain ⟨⟨wN, wE, _⟩, _, h⟩ := bind_ok h
    obtain ⟨_, _, h⟩ := bind_ok h
    obtain ⟨_, _, h⟩ := bind_ok h
    obtain ⟨_, _, h⟩ := bind_ok h
    obtain ⟨_, _, h⟩ := bind_ok h
    obtain ⟨s1, h1, h⟩ := bind_ok h
    obtain ⟨s2, h2, h⟩ := bind_ok h
    obtain ⟨p1, l1, _⟩ := send_frame (optR_ok h1)
    obtain ⟨p2, l2, _⟩ := send_frame (optR_ok h2)
    have hl2 : ∀ sym, s2.lpsOf sym = s.lpsOf sym := by intro sym; simp [St.lpsOf, l2, l1]
    have hrest : (s2.eraseLP pool.sym k).lpsOf pool.sym = t := by
      rw [lpsOf_eraseLP]; simp [hl2, hl, AList.erase]
    obtain ⟨r1, r2, r3⟩ := ih _ _ _ _ _ hrest h
    refine ⟨r1, ?_, ?_⟩
    · intro sym hne
      rw [r2 sym hne, lpsOf_eraseLP]
      simp [Ne.symm hne, hl2]
    · rw [r3]; simp [p2, p1]

theorem decommissionPool_units {s s' : St} {signer sym : String}
    (hinv : UnitsInv s) (h : decommissionPool s signer sym = .ok s') : UnitsInv s' := by
  unfold decommissionPool at h
  obtain ⟨pool, hp, h⟩ := bind_ok h
  obtain ⟨_, _, h⟩ := bind_ok h
  obtain ⟨_, _, h⟩ := bind_ok h
  obtain ⟨⟨nD, eD⟩, _, h⟩ := bind_ok h
  obtain ⟨s1, hloop, h⟩ := bind_ok h
  cases h
  obtain ⟨r1, r2, r3⟩ := decommissionLoop_spec (pool := { pool with sym := sym }) _ _ _ _ _ _ rfl hloop
  refine ⟨?_, ?_⟩
  · show (s1.pools.erase (poolKey sym)).NodupKeys
    rw [r3]; exact nodupKeys_erase _ hinv.1
  · intro sym'
    show (match (s1.pools.erase (poolKey sym)).get (poolKey sym') with
      | some p => p.units = (s1.lpsOf sym').sumBy (·.units)
      | none => s1.lpsOf sym' = [])
    by_cases hs : sym = sym'
    · subst hs
      rw [r3, get_erase_self _ hinv.1]
      exact r1
    · rw [r3, get_erase_ne _ _ _ (poolKey_ne hs), r2 sym' (Ne.symm hs)]
      exact hinv.2 sym'

end Sif.Clp
