/- Unwrapping `do` blocks in `Except`. -/
namespace Sif

theorem bind_ok {ε α β} {x : Except ε α} {f : α → Except ε β} {b : β}
    (h : (x >>= f) = .ok b) : ∃ a, x = .ok a ∧ f a = .ok b := by
  cases x with
  | error e => cases h
  | ok a => exact ⟨a, rfl, h⟩

theorem bind_ok_iff {ε α β} {x : Except ε α} {f : α → Except ε β} {b : β} :
    (x >>= f) = .ok b ↔ ∃ a, x = .ok a ∧ f a = .ok b := by
  constructor
  · exact bind_ok
  · rintro ⟨a, rfl, h⟩; exact h

theorem pure_ok {ε α} {a b : α} (h : (pure a : Except ε α) = .ok b) : a = b := by
  cases h; rfl

end Sif
