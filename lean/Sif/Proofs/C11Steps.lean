import Sif.Proofs.C11Store
/- step lemmas of the dispensation model (C11): create, run, claim -/
namespace Sif.Disp
open Sif.Spec.C11

/-- well-formedness of the module store: sorted sub-stores, pending records stored under their own
    key and valid (`DistributionRecord.Validate`) -/
structure WF (s : DispState) : Prop where
  sp : Sorted s.pending
  sc : Sorted s.completed
  sf : Sorted s.failed
  sl : Sorted s.claims
  pk : ∀ k r, sGet s.pending k = some r → r.key = k ∧ r.valid = true

theorem wf_empty : WF DispState.empty :=
  ⟨trivial, trivial, trivial, trivial, fun k r h => by simp [DispState.empty, sGet] at h⟩

/-! ### CreateDrops -/

theorem createDrop_spec {name : List Char} {t : DType} {runner : Addr} {h : Int} {p p' : Store Rec} {o : Output}
    (hc : createDrop name t runner h p o = some p') :
    ∃ r : Rec, p' = sSet p (recordKey name t o.addr) r ∧ r.name = name ∧ r.typ = t ∧ r.rcpt = o.addr ∧
      r.runner = runner ∧ r.valid = true ∧
      ∀ d, coinsGet r.coins d = coinsGet o.coins d + amt p (recordKey name t o.addr) d := by
  unfold createDrop at hc
  simp only at hc
  cases hg : sGet p (recordKey name t o.addr) with
  | none =>
    rw [hg] at hc
    simp only at hc
    split at hc
    · rename_i hv
      cases hc
      refine ⟨_, rfl, rfl, rfl, rfl, rfl, hv, ?_⟩
      intro d; rw [amt_of_none hg]; simp
    · cases hc
  | some old =>
    rw [hg] at hc
    simp only at hc
    split at hc
    · rename_i hv
      cases hc
      refine ⟨_, rfl, rfl, rfl, rfl, rfl, hv, ?_⟩
      intro d; rw [amt_of_get hg]; simp only; rw [coinsGet_coinsAdd]
    · cases hc

structure PendOK (p : Store Rec) : Prop where
  sorted : Sorted p
  pk : ∀ k r, sGet p k = some r → r.key = k ∧ r.valid = true

theorem createDrop_pendOK {name : List Char} {t : DType} {runner : Addr} {h : Int} {p p' : Store Rec} {o : Output}
    (hp : PendOK p) (hc : createDrop name t runner h p o = some p') : PendOK p' := by
  obtain ⟨r, rfl, hn, ht, hr, _, hv, _⟩ := createDrop_spec hc
  refine ⟨sorted_sSet hp.sorted _ _, ?_⟩
  intro k r' hg
  by_cases hk : k = recordKey name t o.addr
  · subst hk
    rw [sGet_sSet_same] at hg
    cases hg
    exact ⟨by unfold Rec.key; rw [hn, ht, hr], hv⟩
  · rw [sGet_sSet_other _ _ _ _ hk] at hg
    exact hp.pk k r' hg

theorem createDrops_spec {name : List Char} {t : DType} {runner : Addr} {h : Int} {outs : List Output}
    {p p' : Store Rec} (hp : PendOK p) (hc : createDrops name t runner h p outs = some p') :
    PendOK p' ∧
    (∀ k d, amt p' k d = amt p k d + outsFor name t outs k d) ∧
    (∀ d, sumStore d p' = sumStore d p + outsTotal outs d) ∧
    (∀ k, (∀ o ∈ outs, recordKey name t o.addr ≠ k) → sGet p' k = sGet p k) ∧
    (∀ k, (∃ o ∈ outs, recordKey name t o.addr = k) →
        ∃ r, sGet p' k = some r ∧ r.runner = runner ∧ r.name = name ∧ r.typ = t) := by
  induction outs generalizing p with
  | nil =>
    simp only [createDrops] at hc; cases hc
    refine ⟨hp, ?_, ?_, ?_, ?_⟩
    · intro k d; simp [outsFor]
    · intro d; simp [outsTotal]
    · intro k _; rfl
    · intro k ⟨o, ho, _⟩; cases ho
  | cons o rest ih =>
    simp only [createDrops] at hc
    cases h1 : createDrop name t runner h p o with
    | none => rw [h1] at hc; cases hc
    | some p1 =>
      rw [h1] at hc
      simp only at hc
      have hp1 := createDrop_pendOK hp h1
      obtain ⟨r, e1, hn, ht, hr, hrun, hv, hcoins⟩ := createDrop_spec h1
      obtain ⟨hp', hamt, hsum, hsame, hrunner⟩ := ih hp1 hc
      refine ⟨hp', ?_, ?_, ?_, ?_⟩
      · intro k d
        rw [hamt k d, e1, amt_sSet]
        simp only [outsFor]
        by_cases hk : k = recordKey name t o.addr
        · subst hk; simp [hcoins d]; omega
        · have : ¬ recordKey name t o.addr = k := fun e => hk e.symm
          simp [hk, this]
      · intro d
        rw [hsum d]
        have := sum_sSet hp.sorted (recordKey name t o.addr) r d
        rw [← e1, hcoins d] at this
        simp only [outsTotal]
        omega
      · intro k hno
        rw [hsame k (fun o' ho' => hno o' (by simp [ho'])), e1]
        exact sGet_sSet_other _ _ _ _ (fun e => hno o (by simp) e.symm)
      · intro k ⟨o', ho', hk'⟩
        simp at ho'
        by_cases hin : ∃ o'' ∈ rest, recordKey name t o''.addr = k
        · exact hrunner k hin
        · have hno : ∀ o'' ∈ rest, recordKey name t o''.addr ≠ k := fun o'' h'' e => hin ⟨o'', h'', e⟩
          rcases ho' with rfl | ho'
          · refine ⟨r, ?_, hrun, hn, ht⟩
            rw [hsame k hno, e1, ← hk']
            exact sGet_sSet_same _ _ _
          · exact absurd ⟨o', ho', hk'⟩ hin

theorem coinsGet_totalOutput (outs : List Output) (d : Denom) :
    coinsGet (totalOutput outs) d = outsTotal outs d := by
  cases outs with
  | nil => simp [totalOutput, outsTotal, coinsGet]
  | cons o rest =>
    simp only [totalOutput, outsTotal]
    generalize o.coins = acc
    induction rest generalizing acc with
    | nil => simp [outsTotal]
    | cons o' r ih =>
      simp only [List.foldl, outsTotal]
      rw [ih, coinsGet_coinsAdd]
      omega

/-- the module account receives exactly the total of the outputs (distributor ≠ module) -/
theorem coinsGet_totalOutput_bal {b b' : Bank} {frm module : Addr} {outs : List Output}
    (h : sendCoins b frm module (totalOutput outs) = some b') (hne : ¬ frm = module) (d : Denom) :
    b'.bal module d = b.bal module d + outsTotal outs d := by
  rw [bal_sendCoins h, coinsGet_totalOutput]
  have : ¬ module = frm := fun e => hne e.symm
  simp [this]

/-! ### CreateDistribution -/

theorem create_spec {cfg : DispCfg} {h : Int} {s s' : DispState} {m : MsgCreate} (hw : WF s)
    (hc : createDistribution cfg h s m = some s') :
    let name := distName h m.distributor
    WF s' ∧
    sGet s.dists (distKey name m.typ m.runner) = none ∧
    s'.dists = sSet s.dists (distKey name m.typ m.runner) () ∧
    sendCoins s.bank m.distributor cfg.module (totalOutput m.outputs) = some s'.bank ∧
    (∀ k d, amt s'.pending k d = amt s.pending k d + outsFor name m.typ m.outputs k d) ∧
    (∀ d, sumStore d s'.pending = sumStore d s.pending + outsTotal m.outputs d) ∧
    (∀ k, (∀ o ∈ m.outputs, recordKey name m.typ o.addr ≠ k) → sGet s'.pending k = sGet s.pending k) ∧
    (∀ k, (∃ o ∈ m.outputs, recordKey name m.typ o.addr = k) →
        ∃ r, sGet s'.pending k = some r ∧ r.runner = m.runner ∧ r.name = name ∧ r.typ = m.typ) ∧
    s'.completed = s.completed ∧ s'.failed = s.failed ∧ s'.claims = s.claims := by
  intro name
  unfold createDistribution at hc
  simp only at hc
  split at hc
  · cases hc
  · rename_i hd
    split at hc
    · cases hc
    · split at hc
      · cases hc
      · cases hb : sendCoins s.bank m.distributor cfg.module (totalOutput m.outputs) with
        | none => rw [hb] at hc; cases hc
        | some bank' =>
          rw [hb] at hc
          simp only at hc
          cases hp : createDrops (distName h m.distributor) m.typ m.runner h s.pending m.outputs with
          | none => rw [hp] at hc; cases hc
          | some pending' =>
            rw [hp] at hc
            cases hc
            obtain ⟨hp', hamt, hsum, hsame, hrun⟩ := createDrops_spec ⟨hw.sp, hw.pk⟩ hp
            refine ⟨⟨hp'.sorted, hw.sc, hw.sf, hw.sl, hp'.pk⟩, ?_, rfl, rfl, hamt, hsum, hsame, hrun, rfl, rfl, rfl⟩
            simp only [sHas, Bool.not_eq_true, Option.isSome_eq_false_iff, Option.isNone_iff_eq_none] at hd
            exact hd

/-! ### RunDistribution: one record -/

/-- what one iteration of `DistributeDrops` does to a record that is pending and valid -/
inductive PayRel (cfg : DispCfg) (h : Int) (s : DispState) (r : Rec) : DispState → Outcome → Prop
  | skipped : cfg.validAddr r.rcpt = false → PayRel cfg h s r s .skipped
  | failed : cfg.validAddr r.rcpt = true →
      sendModuleToAccount cfg.blocked s.bank cfg.module (cfg.canon r.rcpt) r.coins = none →
      PayRel cfg h s r { s with failed := sSet s.failed r.key { r with done := h }, pending := sDel s.pending r.key } .failed
  | paid (b' : Bank) : cfg.validAddr r.rcpt = true →
      sendModuleToAccount cfg.blocked s.bank cfg.module (cfg.canon r.rcpt) r.coins = some b' →
      PayRel cfg h s r
        { s with bank := b', completed := sSet s.completed r.key { r with done := h }, pending := sDel s.pending r.key,
                 claims := if r.typ.claimable then sDel s.claims (claimKey (cfg.canon r.rcpt) r.typ) else s.claims } .paid

theorem moveRec_ok {s : DispState} {r : Rec} (toFailed : Bool) (h : Int) (hv : r.valid = true)
    (hg : sGet s.pending r.key = some r) :
    moveRec s toFailed r h =
      ({ (if toFailed then { s with failed := sSet s.failed r.key { r with done := h } }
          else { s with completed := sSet s.completed r.key { r with done := h } }) with
          pending := sDel s.pending r.key }, true) := by
  unfold moveRec
  have hv' : ({ r with done := h } : Rec).valid = true := hv
  have hk : ({ r with done := h } : Rec).key = r.key := rfl
  simp only [hv', Bool.not_true, Bool.false_eq_true, if_false, hk]
  cases toFailed <;> simp [sHas, hg]

theorem payOne_rel (cfg : DispCfg) (h : Int) {s : DispState} {r : Rec} (hv : r.valid = true)
    (hg : sGet s.pending r.key = some r) :
    ∃ s' o, payOne cfg h s r = .ok (s', o) ∧ PayRel cfg h s r s' o := by
  unfold payOne
  cases ha : cfg.validAddr r.rcpt with
  | false => exact ⟨s, .skipped, by simp, .skipped ha⟩
  | true =>
    simp only [Bool.not_true, Bool.false_eq_true, if_false]
    cases hs : sendModuleToAccount cfg.blocked s.bank cfg.module (cfg.canon r.rcpt) r.coins with
    | none =>
      simp only
      rw [moveRec_ok true h hv hg]
      exact ⟨_, .failed, rfl, .failed ha hs⟩
    | some b' =>
      simp only
      unfold payOneSent
      have hg' : sGet ({ s with bank := b' } : DispState).pending r.key = some r := hg
      rw [moveRec_ok false h hv hg']
      simp only [Bool.false_eq_true, if_false]
      refine ⟨_, .paid, rfl, ?_⟩
      have := PayRel.paid (cfg := cfg) (h := h) (s := s) (r := r) b' ha hs
      cases hcl : r.typ.claimable <;> simpa [hcl] using this

/-- the invariant carried through every history -/
structure Inv (module : Addr) (s : DispState) (l : Ledger) : Prop where
  wf : WF s
  escrow : ∀ d, escrowCovers module s d
  ledger : ∀ k d, ledgerEq l s k d

theorem pendOK_sDel {p : Store Rec} (hp : PendOK p) (k0 : Key) : PendOK (sDel p k0) := by
  refine ⟨sorted_sDel hp.sorted k0, ?_⟩
  intro k r hg
  by_cases hk : k = k0
  · subst hk; rw [sGet_sDel_same hp.sorted] at hg; cases hg
  · rw [sGet_sDel_other _ _ _ hk] at hg; exact hp.pk k r hg

theorem payRel_inv {cfg : DispCfg} {h : Int} {s s' : DispState} {r : Rec} {o : Outcome} {l : Ledger}
    (hi : Inv cfg.module s l) (hg : sGet s.pending r.key = some r) (hr : PayRel cfg h s r s' o) :
    Inv cfg.module s' (ledgerPay l [(r.key, r, o)]) := by
  have hp : PendOK s.pending := ⟨hi.wf.sp, hi.wf.pk⟩
  cases hr with
  | skipped _ => exact ⟨hi.wf, hi.escrow, hi.ledger⟩
  | failed ha hs =>
    have hpd := pendOK_sDel hp r.key
    refine ⟨⟨hpd.sorted, hi.wf.sc, sorted_sSet hi.wf.sf _ _, hi.wf.sl, hpd.pk⟩, ?_, ?_⟩
    · intro d
      have e := hi.escrow d
      unfold escrowCovers at e ⊢
      simp only
      have h1 := sum_sDel s.pending r.key d
      have h2 := sum_sSet hi.wf.sf r.key { r with done := h } d
      rw [amt_of_get hg] at h1
      simp only at h2
      omega
    · intro k d
      have e := hi.ledger k d
      unfold ledgerEq at e ⊢
      simp only [ledgerPay]
      rw [amt_sDel hi.wf.sp]
      by_cases hk : k = r.key
      · subst hk; rw [amt_of_get hg] at e; simp; omega
      · simp [hk]; omega
  | paid b' ha hs =>
    have hpd := pendOK_sDel hp r.key
    have hsl : Sorted (if r.typ.claimable then sDel s.claims (claimKey (cfg.canon r.rcpt) r.typ) else s.claims) := by
      split
      · exact sorted_sDel hi.wf.sl _
      · exact hi.wf.sl
    refine ⟨⟨hpd.sorted, sorted_sSet hi.wf.sc _ _, hi.wf.sf, hsl, hpd.pk⟩, ?_, ?_⟩
    · intro d
      have e := hi.escrow d
      unfold escrowCovers at e ⊢
      simp only
      have h1 := sum_sDel s.pending r.key d
      rw [amt_of_get hg] at h1
      unfold sendModuleToAccount at hs
      split at hs
      · cases hs
      · have hb := bal_sendCoins hs cfg.module d
        simp only [if_true] at hb
        split at hb <;> omega
    · intro k d
      have e := hi.ledger k d
      unfold ledgerEq at e ⊢
      simp only [ledgerPay]
      rw [amt_sDel hi.wf.sp]
      by_cases hk : k = r.key
      · subst hk; rw [amt_of_get hg] at e; simp; omega
      · simp [hk]; omega

/-! ### RunDistribution: the loop -/

/-- the records collected by `GetLimitedRecordsForRunner`, relative to the current state -/
structure SelOK (s : DispState) (sel : List (Key × Rec)) : Prop where
  mem : ∀ x ∈ sel, x.1 = x.2.key ∧ sGet s.pending x.2.key = some x.2
  distinct : sel.Pairwise (fun a b => a.1 ≠ b.1)

structure RunFacts (cfg : DispCfg) (h : Int) (s s' : DispState) (os : List (Key × Rec × Outcome)) : Prop where
  shrink : ∀ k r, sGet s'.pending k = some r → sGet s.pending k = some r
  gone : ∀ x ∈ os, x.2.2 ≠ .skipped → sGet s'.pending x.1 = none
  keep : ∀ k, (∀ x ∈ os, x.1 ≠ k) → sGet s'.pending k = sGet s.pending k
  keepC : ∀ k, (∀ x ∈ os, x.1 ≠ k) → sGet s'.completed k = sGet s.completed k
  keepF : ∀ k, (∀ x ∈ os, x.1 ≠ k) → sGet s'.failed k = sGet s.failed k
  bank : ∀ a d, a ≠ cfg.module → s'.bank.bal a d = s.bank.bal a d + paidTo cfg.canon os a d
  dists : s'.dists = s.dists
  supply : ∀ d, s'.bank.sup d = s.bank.sup d
  bankModule : cfg.blocked cfg.module = true → ∀ d, s'.bank.bal cfg.module d + paidAll os d = s.bank.bal cfg.module d
  donePaid : ∀ x ∈ os, x.2.2 = .paid → sGet s'.completed x.1 = some { x.2.1 with done := h }
  doneFailed : ∀ x ∈ os, x.2.2 = .failed → sGet s'.failed x.1 = some { x.2.1 with done := h }
  claimsDel : ∀ x ∈ os, x.2.2 = .paid → x.2.1.typ.claimable = true →
      sGet s'.claims (claimKey (cfg.canon x.2.1.rcpt) x.2.1.typ) = none
  claimsShrink : ∀ k, sGet s'.claims k = some () → sGet s.claims k = some ()
  skippedOnlyInvalid : ∀ x ∈ os, x.2.2 = .skipped → cfg.validAddr x.2.1.rcpt = false
  failedOnlyRefused : ∀ x ∈ os, x.2.2 = .failed → cfg.validAddr x.2.1.rcpt = true
  skippedStays : ∀ x ∈ os, x.2.2 = .skipped → sGet s'.pending x.1 = sGet s.pending x.1

theorem sGet_sDel_some {α} {st : Store α} (hs : Sorted st) {k0 k : Key} {v : α}
    (h : sGet (sDel st k0) k = some v) : sGet st k = some v ∧ k ≠ k0 := by
  by_cases hk : k = k0
  · subst hk; rw [sGet_sDel_same hs] at h; cases h
  · rw [sGet_sDel_other _ _ _ hk] at h; exact ⟨h, hk⟩

theorem ledgerPay_cons (l : Ledger) (x : Key × Rec × Outcome) (os : List (Key × Rec × Outcome)) :
    ledgerPay l (x :: os) = ledgerPay (ledgerPay l [x]) os := by
  obtain ⟨k, r, o⟩ := x
  cases o <;> simp [ledgerPay]

theorem payAll_spec (cfg : DispCfg) (h : Int) :
    ∀ (sel : List (Key × Rec)) (s : DispState) (l : Ledger), Inv cfg.module s l → SelOK s sel →
    ∃ s' os, payAll cfg h s sel = .ok (s', os) ∧ Inv cfg.module s' (ledgerPay l os) ∧
      os.map (fun x => (x.1, x.2.1)) = sel ∧ RunFacts cfg h s s' os := by
  intro sel
  induction sel with
  | nil =>
    intro s l hi _
    refine ⟨s, [], rfl, hi, rfl, ?_⟩
    constructor
    · exact fun _ _ h => h
    · intro x hx; cases hx
    · exact fun _ _ => rfl
    · exact fun _ _ => rfl
    · exact fun _ _ => rfl
    · intro a d _; simp [paidTo]
    · rfl
    · intro d; rfl
    · intro _ d; simp [paidAll]
    · intro x hx; cases hx
    · intro x hx; cases hx
    · intro x hx; cases hx
    · exact fun _ h => h
    · intro x hx; cases hx
    · intro x hx; cases hx
    · intro x hx; cases hx
  | cons x rest ih =>
    intro s l hi hsel
    obtain ⟨k, r⟩ := x
    obtain ⟨hk, hg⟩ := hsel.mem (k, r) (by simp)
    simp only at hk hg
    subst hk
    have hv := (hi.wf.pk _ _ hg).2
    obtain ⟨s1, o, h1, hrel⟩ := payOne_rel cfg h hv hg
    have hi1 := payRel_inv hi hg hrel
    have hdist := List.pairwise_cons.mp hsel.distinct
    -- pending of s1 is pending of s or pending of s minus r.key
    have hpend1 : s1.pending = s.pending ∨ s1.pending = sDel s.pending r.key := by
      cases hrel with
      | skipped _ => left; rfl
      | failed _ _ => right; rfl
      | paid _ _ _ => right; rfl
    have hsel1 : SelOK s1 rest := by
      refine ⟨?_, hdist.2⟩
      intro y hy
      obtain ⟨e1, e2⟩ := hsel.mem y (by simp [hy])
      refine ⟨e1, ?_⟩
      rcases hpend1 with e | e
      · rw [e]; exact e2
      · rw [e, sGet_sDel_other]
        · exact e2
        · intro e'; exact hdist.1 y hy (by simp only; rw [e1, e'])
    obtain ⟨s', os, h2, hi', hmap, hf⟩ := ih s1 _ hi1 hsel1
    refine ⟨s', (r.key, r, o) :: os, ?_, ?_, ?_, ?_⟩
    · simp only [payAll, h1, h2]
    · rw [ledgerPay_cons]; exact hi'
    · simp [hmap]
    · -- facts of the head step
      have hkeys : ∀ y ∈ os, y.1 ≠ r.key := by
        intro y hy e
        have : (y.1, y.2.1) ∈ rest := by rw [← hmap]; exact List.mem_map.mpr ⟨y, hy, rfl⟩
        exact hdist.1 _ this e.symm
      have hshrink1 : ∀ k r', sGet s1.pending k = some r' → sGet s.pending k = some r' := by
        intro k r' hk
        rcases hpend1 with e | e
        · rw [e] at hk; exact hk
        · rw [e] at hk; exact (sGet_sDel_some hi.wf.sp hk).1
      have hclaims1 : ∀ k, sGet s1.claims k = some () → sGet s.claims k = some () := by
        intro k hk
        cases hrel with
        | skipped _ => exact hk
        | failed _ _ => exact hk
        | paid _ _ _ =>
          simp only at hk
          split at hk
          · exact (sGet_sDel_some hi.wf.sl hk).1
          · exact hk
      refine ⟨?_, ?_, ?_, ?_, ?_, ?_, ?_, ?_, ?_, ?_, ?_, ?_, ?_, ?_, ?_, ?_⟩
      · intro k r' hk; exact hshrink1 k r' (hf.shrink k r' hk)
      · intro y hy hne
        simp at hy
        rcases hy with rfl | hy
        · simp only at hne ⊢
          have h1none : sGet s1.pending r.key = none := by
            cases hrel with
            | skipped _ => exact absurd rfl hne
            | failed _ _ => exact sGet_sDel_same hi.wf.sp _
            | paid _ _ _ => exact sGet_sDel_same hi.wf.sp _
          cases hq : sGet s'.pending r.key with
          | none => rfl
          | some r' => rw [hf.shrink _ _ hq] at h1none; cases h1none
        · exact hf.gone y hy hne
      · intro k hk
        have hk0 : r.key ≠ k := hk (r.key, r, o) (by simp)
        rw [hf.keep k (fun y hy => hk y (by simp [hy]))]
        rcases hpend1 with e | e
        · rw [e]
        · rw [e]; exact sGet_sDel_other _ _ _ (fun e' => hk0 e'.symm)
      · intro k hk
        have hk0 : r.key ≠ k := hk (r.key, r, o) (by simp)
        rw [hf.keepC k (fun y hy => hk y (by simp [hy]))]
        cases hrel with
        | skipped _ => rfl
        | failed _ _ => rfl
        | paid _ _ _ => exact sGet_sSet_other _ _ _ _ (fun e' => hk0 e'.symm)
      · intro k hk
        have hk0 : r.key ≠ k := hk (r.key, r, o) (by simp)
        rw [hf.keepF k (fun y hy => hk y (by simp [hy]))]
        cases hrel with
        | skipped _ => rfl
        | failed _ _ => exact sGet_sSet_other _ _ _ _ (fun e' => hk0 e'.symm)
        | paid _ _ _ => rfl
      · intro a d ha
        rw [hf.bank a d ha]
        cases hrel with
        | skipped _ => simp [paidTo]
        | failed _ _ => simp [paidTo]
        | paid b' _ hs =>
          simp only [paidTo]
          unfold sendModuleToAccount at hs
          split at hs
          · cases hs
          · rw [bal_sendCoins hs a d]
            simp only [ha, if_false]
            by_cases e : a = cfg.canon r.rcpt
            · subst e; simp; omega
            · have : ¬ cfg.canon r.rcpt = a := fun e' => e e'.symm
              simp [e, this]
      · rw [hf.dists]; cases hrel <;> rfl
      · intro d
        rw [hf.supply d]
        cases hrel with
        | skipped _ => rfl
        | failed _ _ => rfl
        | paid b' _ hs =>
          unfold sendModuleToAccount at hs
          split at hs
          · cases hs
          · exact sup_sendCoins hs d
      · intro hblk d
        have ht := hf.bankModule hblk d
        cases hrel with
        | skipped _ => simp only [paidAll]; exact ht
        | failed _ _ => simp only [paidAll]; exact ht
        | paid b' _ hs =>
          simp only [paidAll]
          simp only at ht
          have hesc := hi.escrow d
          unfold escrowCovers at hesc
          have hle := amt_le_sum s.pending r.key d
          rw [amt_of_get hg] at hle
          unfold sendModuleToAccount at hs
          split at hs
          · cases hs
          · rename_i hnb
            have hne : ¬ cfg.module = cfg.canon r.rcpt := by
              intro e; rw [← e, hblk] at hnb; exact hnb rfl
            have hb := bal_sendCoins hs cfg.module d
            simp only [if_true, hne, if_false] at hb
            omega
      · intro y hy hp
        simp at hy
        rcases hy with rfl | hy
        · simp only at hp ⊢
          subst hp
          rw [hf.keepC r.key hkeys]
          cases hrel with
          | paid _ _ _ => exact sGet_sSet_same _ _ _
        · exact hf.donePaid y hy hp
      · intro y hy hp
        simp at hy
        rcases hy with rfl | hy
        · simp only at hp ⊢
          subst hp
          rw [hf.keepF r.key hkeys]
          cases hrel with
          | failed _ _ => exact sGet_sSet_same _ _ _
        · exact hf.doneFailed y hy hp
      · intro y hy hp hc
        simp at hy
        rcases hy with rfl | hy
        · simp only at hp hc ⊢
          subst hp
          have h1none : sGet s1.claims (claimKey (cfg.canon r.rcpt) r.typ) = none := by
            cases hrel with
            | paid _ _ _ => simp only [hc, if_true]; exact sGet_sDel_same hi.wf.sl _
          cases hq : sGet s'.claims (claimKey (cfg.canon r.rcpt) r.typ) with
          | none => rfl
          | some u => cases u; rw [hf.claimsShrink _ hq] at h1none; cases h1none
        · exact hf.claimsDel y hy hp hc
      · intro k hk; exact hclaims1 k (hf.claimsShrink k hk)
      · intro y hy hp
        simp at hy
        rcases hy with rfl | hy
        · simp only at hp ⊢
          subst hp
          cases hrel with
          | skipped ha => exact ha
        · exact hf.skippedOnlyInvalid y hy hp
      · intro y hy hp
        simp at hy
        rcases hy with rfl | hy
        · simp only at hp ⊢
          subst hp
          cases hrel with
          | failed ha _ => exact ha
        · exact hf.failedOnlyRefused y hy hp
      · intro y hy hp
        simp at hy
        rcases hy with rfl | hy
        · simp only at hp ⊢
          subst hp
          rw [hf.keep r.key hkeys]
          cases hrel with
          | skipped _ => rfl
        · rw [hf.skippedStays y hy hp]
          have hne : y.1 ≠ r.key := hkeys y hy
          rcases hpend1 with e | e
          · rw [e]
          · rw [e]; exact sGet_sDel_other _ _ _ hne

end Sif.Disp
