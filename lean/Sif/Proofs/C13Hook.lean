import Sif.Proofs.C13Msgs
/-
  C13 helper lemmas, part 6: the BeginBlocker of the repaired code — every exit of the processing of
  one position keeps the invariant; the loops over positions and pools.
-/
namespace Sif.Margin
open Sif Sif.Spec.C13

theorem custOf_same {m m' : Mtp} (h : MtpSame m m') (sym : Asset) (b : Bool) : custOf sym b m' = custOf sym b m := by
  unfold custOf; rw [poolSym_congr h.coll h.cust, h.cust, h.custody]

theorem liabOf_same {m m' : Mtp} (h : MtpSame m m') (sym : Asset) (b : Bool) : liabOf sym b m' = liabOf sym b m := by
  unfold liabOf; rw [poolSym_congr h.coll h.cust, h.coll, h.liab]

theorem storeMtp_err_eq {w w' : W} {e : Err} (hid : w.mtp.id ≠ 0) (h : w.storeMtp = .error (e, w')) : w' = w := by
  unfold W.storeMtp State.setMtp at h
  simp only [hid, if_false] at h
  split at h
  · simp at h
  · rename_i e' s m heq
    split at heq
    · simp at heq; simp at h; rw [← h.2, ← heq.2.1, ← heq.2.2]
    · simp at heq

/-- persisting the in-memory position when it agrees with the stored one on the ledger -/
theorem storeMtp_good {w w' : W} (hg : Good w) (h : w.storeMtp = .ok w') :
    Good w' ∧ w'.pool = w.pool ∧ w'.mtp = w.mtp ∧ Frame w.s w'.s w.mtp.key w.pool.sym := by
  have h' := storeMtp_ok_old hg.id_ne_zero h
  obtain ⟨m0, hm0, hsame⟩ := hg.mtp
  obtain ⟨hmem, hk0⟩ := getMtpL_some_mem hm0
  have ht := Trans.modify hg.wf.keys hm0
  rw [h']
  refine ⟨⟨?_, ?_, ?_, ?_, hg.home⟩, rfl, rfl, ⟨fun k' hk' => getMtpL_setMtpL_other _ hk', fun _ _ => rfl, rfl⟩⟩
  · unfold OKp
    simp only []
    refine ⟨?_, ?_, ?_, ?_⟩
    · intro p hp b
      have h1 := hg.ok.cust p hp b
      have h2 := ht.sums (custOf p.sym b)
      simp only [Option.map_some, Option.getD_some, custOf_same hsame] at h2
      omega
    · intro p hp b
      have h1 := hg.ok.liab p hp b
      have h2 := ht.sums (liabOf p.sym b)
      simp only [Option.map_some, Option.getD_some, liabOf_same hsame] at h2
      omega
    · have h1 := hg.ok.count
      have h2 := ht.sums (fun _ => 1)
      rw [sumBy_const_one, sumBy_const_one] at h2
      simp at h2
      omega
    · intro m hm
      rcases ht.mem m hm with h | h
      · exact hg.ok.pool m h
      · cases h
        have := hg.ok.pool m0 hmem
        rw [poolSym_congr hsame.coll hsame.cust]; exact this
  · refine WFp_of (s' := ({ w.s with mtps := setMtpL w.s.mtps w.mtp } : State)) hg.wf rfl ?_ ?_ ?_ ?_
    · simp only []; rw [setMtpL_present hm0, keys_replace rfl]; exact hg.wf.keys
    · intro m hm
      simp only [] at hm ⊢
      rw [setMtpL_present hm0] at hm
      rcases mem_replace hm with rfl | hm
      · have h0 := hg.wf.ids m0 hmem
        have hid : w.mtp.id = m0.id := by
          have := hk0.symm; unfold Mtp.key at this; exact (Prod.mk.inj this).2
        refine ⟨by rw [hid]; exact h0.1, by rw [hid]; exact h0.2.1, ?_, by rw [hsame.pos]; exact h0.2.2.2⟩
        have := h0.2.2.1; unfold pairOK at this ⊢; rw [hsame.coll, hsame.cust]; exact this
      · exact hg.wf.ids m hm
    · simp only []; rw [setMtpL_present hm0]; simp; exact hg.wf.len
    · exact hg.wf.cnt
  · exact hg.pool
  · exact ⟨w.mtp, by simp only []; rw [setMtpL_present hm0]; exact getMtpL_replace_self hm0, MtpSame.refl _⟩

/-- the loop invariant of the position loop: the store satisfies the invariant and the shared
    in-memory pool agrees with the stored pool on the ledger -/
structure LoopInv (s : State) (p : Pool) : Prop where
  ok : OKp s
  wf : WFp s
  pool : ∃ p0, getPoolL s.pools p.sym = some p0 ∧ (∀ b, p0.cust b = p.cust b) ∧ (∀ b, p0.liab b = p.liab b)

/-- the snapshot of a position is still what is stored (on the ledger) -/
def Synced (s : State) (m : Mtp) : Prop := ∃ m0, getMtpL s.mtps m.key = some m0 ∧ MtpSame m0 m

theorem Good.loop {w : W} (hg : Good w) : LoopInv w.s w.pool := ⟨hg.ok, hg.wf, hg.pool⟩

theorem Good.ofLoop {s : State} {p : Pool} {m : Mtp} (hl : LoopInv s p) (hs : Synced s m) (hh : m.poolSym = p.sym) :
    Good { s := s, pool := p, mtp := m } := ⟨hl.ok, hl.wf, hl.pool, hs, hh⟩

/-- what every exit of `BeginBlockerProcessMTP` guarantees -/
structure After (w w' : W) : Prop where
  inv : LoopInv w'.s w'.pool
  sym : w'.pool.sym = w.pool.sym
  frame : Frame w.s w'.s w.mtp.key w.pool.sym

theorem After.ofGood {w w' : W} (hg : Good w') (hs : w'.pool.sym = w.pool.sym) (hf : Frame w.s w'.s w.mtp.key w.pool.sym) :
    After w w' := ⟨hg.loop, hs, hf⟩

theorem processMtpClose_after {fx : Fixes} (h1 : fx.iipCopy = true) (h2 : fx.fcAtomic = true) {w : W} (hg : Good w) :
    After w (processMtpClose fx w) := by
  have hw1 : Good (storeMtpIgnore w) ∧ (storeMtpIgnore w).pool = w.pool ∧
      (storeMtpIgnore w).mtp = w.mtp ∧ Frame w.s (storeMtpIgnore w).s w.mtp.key w.pool.sym := by
    unfold storeMtpIgnore
    cases hs : w.storeMtp with
    | ok w' => exact storeMtp_good hg hs
    | error ew =>
      obtain ⟨e, w'⟩ := ew
      have := storeMtp_err_eq hg.id_ne_zero hs
      subst this
      exact ⟨hg, rfl, rfl, Frame.refl _ _ _⟩
  unfold processMtpClose
  generalize storeMtpIgnore w = w1 at hw1 ⊢
  obtain ⟨g1, hp1, hm1, f1⟩ := hw1
  cases hf : forceCloseLong fx w1 false true with
  | ok r =>
    obtain ⟨r1, w2⟩ := r
    obtain ⟨o, wf, _, f2, hp2, hs2⟩ := forceCloseLong_good h1 g1 hf
    simp only []
    rw [hm1, hp1] at f2
    refine ⟨⟨o, wf, ⟨w2.pool, hp2, fun _ => rfl, fun _ => rfl⟩⟩, by rw [hs2, hp1], f1.trans f2⟩
  | error ew =>
    obtain ⟨e, w'⟩ := ew
    simp only [h2, if_true]
    exact After.ofGood g1 (by rw [hp1]) f1

theorem processMtp_after {fx : Fixes} (h1 : fx.iipCopy = true) (h2 : fx.fcAtomic = true) {w : W} (hg : Good w) :
    After w (processMtp fx w) := by
  unfold processMtp
  split
  · exact After.ofGood hg rfl (Frame.refl _ _ _)
  · rename_i hh _
    have g1 : Good ({ w with mtp := { w.mtp with health := hh } } : W) :=
      hg.congr (LedgerSame.refl _) (Pool.sameLedger_refl _) ⟨rfl, rfl, rfl, rfl, rfl, rfl⟩
    simp only []
    split
    · exact After.ofGood g1 rfl (Frame.refl _ _ _)
    · rename_i ip _
      split
      · rename_i e w' he
        obtain ⟨g, _, s, f⟩ := (handleInterestPayment_good h1 g1).2 e w' he
        exact After.ofGood g s f
      · rename_i fw hfw
        obtain ⟨g2, k2, s2, f2⟩ := (handleInterestPayment_good h1 g1).1 fw hfw
        split
        · rename_i e w' he
          have := addBlockInterest_err he
          subst this
          exact After.ofGood g2 s2 f2
        · rename_i w3 hw3
          obtain ⟨g3, k3, s3, e3⟩ := addBlockInterest_good g2 hw3
          have := processMtpClose_after (fx := fx) h1 h2 g3
          refine ⟨this.inv, this.sym.trans (s3.trans s2), ?_⟩
          have hf := this.frame
          rw [e3, k3, k2, s3, s2] at hf
          exact f2.trans hf

end Sif.Margin

namespace Sif.Margin
open Sif Sif.Spec.C13

theorem getMtpL_of_mem {l : List Mtp} {m : Mtp} (hnd : (l.map Mtp.key).Nodup) (hm : m ∈ l) : getMtpL l m.key = some m := by
  induction l with
  | nil => cases hm
  | cons x xs ih =>
    simp only [List.map_cons, List.nodup_cons] at hnd
    rw [getMtpL_cons]
    rcases List.mem_cons.mp hm with rfl | hm'
    · simp
    · have : ¬ x.key = m.key := by
        intro h; apply hnd.1; rw [h]; exact List.mem_map_of_mem hm'
      rw [if_neg this]; exact ih hnd.2 hm'

theorem getPoolL_of_mem {l : List Pool} {p : Pool} (hnd : (l.map (fun q => q.sym)).Nodup) (hp : p ∈ l) : getPoolL l p.sym = some p := by
  induction l with
  | nil => cases hp
  | cons x xs ih =>
    simp only [List.map_cons, List.nodup_cons] at hnd
    rw [getPoolL_cons]
    rcases List.mem_cons.mp hp with rfl | hp'
    · simp
    · have : ¬ x.sym = p.sym := by
        intro h; apply hnd.1; rw [h]; exact List.mem_map_of_mem (f := fun q => q.sym) hp'
      rw [if_neg this]; exact ih hnd.2 hp'

/-- the loop over a pool's positions -/
theorem processMtps_inv {fx : Fixes} (h1 : fx.iipCopy = true) (h2 : fx.fcAtomic = true) :
    ∀ (ms : List Mtp) (s : State) (p : Pool), LoopInv s p → (ms.map Mtp.key).Nodup →
      (∀ m ∈ ms, Synced s m ∧ m.poolSym = p.sym) →
      LoopInv (processMtps fx ms s p).1 (processMtps fx ms s p).2 ∧ (processMtps fx ms s p).2.sym = p.sym ∧
        (∀ y, y ≠ p.sym → getPoolL (processMtps fx ms s p).1.pools y = getPoolL s.pools y) ∧
        (processMtps fx ms s p).1.mtpCount = s.mtpCount := by
  intro ms
  induction ms with
  | nil => intro s p hl _ _; exact ⟨hl, rfl, fun _ _ => rfl, rfl⟩
  | cons m ms ih =>
    intro s p hl hnd hall
    simp only [List.map_cons, List.nodup_cons] at hnd
    obtain ⟨hsync, hhome⟩ := hall m List.mem_cons_self
    have ha := processMtp_after (fx := fx) h1 h2 (Good.ofLoop hl hsync hhome)
    unfold processMtps
    simp only []
    generalize processMtp fx { s := s, pool := p, mtp := m } = w' at ha ⊢
    obtain ⟨inv, hsym, hframe⟩ := ha
    simp only [] at hsym hframe
    have hall' : ∀ m' ∈ ms, Synced w'.s m' ∧ m'.poolSym = w'.pool.sym := by
      intro m' hm'
      obtain ⟨⟨m0, hm0, hs0⟩, hh⟩ := hall m' (List.mem_cons_of_mem _ hm')
      have hne : m'.key ≠ m.key := by
        intro h; apply hnd.1; rw [← h]; exact List.mem_map_of_mem hm'
      exact ⟨⟨m0, by rw [hframe.mtps _ hne]; exact hm0, hs0⟩, by rw [hsym]; exact hh⟩
    obtain ⟨r1, r2, r3, r4⟩ := ih w'.s w'.pool inv hnd.2 hall'
    refine ⟨r1, r2.trans hsym, ?_, r4.trans hframe.count⟩
    intro y hy
    rw [r3 y (by rw [hsym]; exact hy)]
    exact hframe.pools y hy

/-- writing a pool record that agrees with the stored one on the ledger -/
theorem setPool_sameLedger {s : State} {p p0 : Pool} (hok : OKp s) (hwf : WFp s)
    (hp0 : getPoolL s.pools p.sym = some p0) (hc : ∀ b, p0.cust b = p.cust b) (hl : ∀ b, p0.liab b = p.liab b) :
    OKp (s.setPool p) ∧ WFp (s.setPool p) := by
  constructor
  · unfold OKp State.setPool
    simp only []
    exact OKc_trans (sym := p.sym) (p0 := p0) (old := none) (new := none) hok hwf.syms hp0 rfl (Trans.refl _)
      (fun _ h => by cases h) (fun _ h => by cases h) (fun b => by simp [hc b]) (fun b => by simp [hl b]) (by simp)
  · refine WFp_of (s' := s.setPool p) hwf ?_ hwf.keys hwf.ids hwf.len hwf.cnt
    exact syms_setPoolL (p0 := p0) hp0

theorem mtpsForPool_home {s : State} {sym : Asset} {m : Mtp} (hwf : WFp s) (hsym : isNative sym = false)
    (hm : m ∈ mtpsForPool s sym) : m ∈ s.mtps ∧ m.poolSym = sym := by
  unfold mtpsForPool at hm
  simp only [List.mem_filter, Bool.or_eq_true, decide_eq_true_eq] at hm
  obtain ⟨hmem, hor⟩ := hm
  refine ⟨hmem, ?_⟩
  have hpair := (hwf.ids m hmem).2.2.1
  unfold pairOK at hpair
  unfold Mtp.poolSym
  cases hc : isNative m.coll
  · -- collateral is not native, so the custody asset is
    simp only [hc] at hpair ⊢
    have hcu : isNative m.cust = true := by simpa using hpair
    rcases hor with h | h
    · rw [h] at hcu; rw [hcu] at hsym; cases hsym
    · simpa using h
  · simp only [hc] at hpair ⊢
    rcases hor with h | h
    · simpa using h
    · rw [h] at hc; rw [hc] at hsym; cases hsym

/-- one iteration of the pool loop -/
theorem bbPool_inv {fx : Fixes} (h1 : fx.iipCopy = true) (h2 : fx.fcAtomic = true) {s s' : State} {p p0 : Pool} {rate : Option Dec}
    (hok : OKp s) (hwf : WFp s) (hp0 : getPoolL s.pools p.sym = some p0)
    (hc : ∀ b, p0.cust b = p.cust b) (hl : ∀ b, p0.liab b = p.liab b) (h : bbPool fx s p rate = .ok s') :
    OKp s' ∧ WFp s' ∧ (∀ y, y ≠ p.sym → getPoolL s'.pools y = getPoolL s.pools y) ∧ s'.mtpCount = s.mtpCount := by
  have hnn : isNative p.sym = false := by
    obtain ⟨hmem, hs⟩ := getPoolL_some hp0
    rw [← hs]; exact hwf.nonNative p0 hmem
  unfold bbPool at h
  simp only [] at h
  split at h
  · split at h
    · simp at h; rw [← h]; exact ⟨hok, hwf, fun _ _ => rfl, rfl⟩
    · rename_i r
      obtain ⟨hh, _, h⟩ := bind_ok h
      have h := pure_ok h
      -- the pool with reset counters, new rate and health: same ledger
      generalize hp3 : ({ ({ ({ p with biE := 0, biN := 0 } : Pool) with rate := r, lastH := s.height } : Pool) with health := hh } : Pool) = p3 at h
      have hs3 : p3.sym = p.sym := by rw [← hp3]
      have hc3 : ∀ b, p0.cust b = p3.cust b := by intro b; rw [← hp3, hc b]; cases b <;> rfl
      have hl3 : ∀ b, p0.liab b = p3.liab b := by intro b; rw [← hp3, hl b]; cases b <;> rfl
      obtain ⟨ok1, wf1⟩ := setPool_sameLedger hok hwf (by rw [hs3]; exact hp0) hc3 hl3
      have inv1 : LoopInv (s.setPool p3) p3 := ⟨ok1, wf1, ⟨p3, getPoolL_set _ _, fun _ => rfl, fun _ => rfl⟩⟩
      have hsnap : ∀ m ∈ mtpsForPool (s.setPool p3) p.sym, Synced (s.setPool p3) m ∧ m.poolSym = p3.sym := by
        intro m hm
        obtain ⟨hmem, hhome⟩ := mtpsForPool_home wf1 hnn hm
        exact ⟨⟨m, getMtpL_of_mem wf1.keys hmem, MtpSame.refl _⟩, by rw [hs3]; exact hhome⟩
      have hndsnap : ((mtpsForPool (s.setPool p3) p.sym).map Mtp.key).Nodup := by
        unfold mtpsForPool
        exact List.Nodup.sublist (List.Sublist.map _ List.filter_sublist) wf1.keys
      obtain ⟨r1, r2, r3, r4⟩ := processMtps_inv h1 h2 _ _ _ inv1 hndsnap hsnap
      generalize processMtps fx (mtpsForPool (s.setPool p3) p.sym) (s.setPool p3) p3 = sp at h r1 r2 r3 r4
      obtain ⟨q0, hq0, hqc, hql⟩ := r1.pool
      obtain ⟨ok2, wf2⟩ := setPool_sameLedger r1.ok r1.wf hq0 hqc hql
      rw [← h]
      refine ⟨ok2, wf2, ?_, r4⟩
      intro y hy
      unfold State.setPool
      simp only []
      rw [getPoolL_setPoolL_other _ (by rw [r2, hs3]; exact hy), r3 y (by rw [hs3]; exact hy)]
      exact getPoolL_setPoolL_other _ (by rw [hs3]; exact hy)
  · simp at h
    rw [← h]
    obtain ⟨ok1, wf1⟩ := setPool_sameLedger (p := ({ p with biE := 0, biN := 0 } : Pool)) hok hwf hp0
      (fun b => by rw [hc b]; cases b <;> rfl) (fun b => by rw [hl b]; cases b <;> rfl)
    refine ⟨ok1, wf1, ?_, rfl⟩
    intro y hy
    exact getPoolL_setPoolL_other _ hy

theorem bbPools_inv {fx : Fixes} (h1 : fx.iipCopy = true) (h2 : fx.fcAtomic = true) (rates : Asset → Option Dec) :
    ∀ (ps : List Pool) (s s' : State), OKp s → WFp s → (ps.map (fun q => q.sym)).Nodup →
      (∀ q ∈ ps, getPoolL s.pools q.sym = some q) → bbPools fx rates ps s = .ok s' →
      OKp s' ∧ WFp s' ∧ s'.mtpCount = s.mtpCount := by
  intro ps
  induction ps with
  | nil => intro s s' hok hwf _ _ h; simp [bbPools] at h; rw [← h]; exact ⟨hok, hwf, rfl⟩
  | cons p ps ih =>
    intro s s' hok hwf hnd hall h
    simp only [List.map_cons, List.nodup_cons] at hnd
    unfold bbPools at h
    obtain ⟨s1, hs1, h⟩ := bind_ok h
    obtain ⟨ok1, wf1, fr, hc1⟩ := bbPool_inv h1 h2 hok hwf (hall p List.mem_cons_self) (fun _ => rfl) (fun _ => rfl) hs1
    have hq' : ∀ q ∈ ps, getPoolL s1.pools q.sym = some q := ?_
    · obtain ⟨a, b, c⟩ := ih s1 s' ok1 wf1 hnd.2 hq' h
      exact ⟨a, b, c.trans hc1⟩
    intro q hq
    have hne : q.sym ≠ p.sym := by
      intro he; apply hnd.1; rw [← he]; exact List.mem_map_of_mem (f := fun q => q.sym) hq
    rw [fr _ hne]
    exact hall q (List.mem_cons_of_mem _ hq)

/-- **BeginBlocker of the repaired code preserves the invariant**, whatever the new interest rates -/
theorem beginBlocker_inv {fx : Fixes} (h1 : fx.iipCopy = true) (h2 : fx.fcAtomic = true) {s s' : State}
    {rates : Asset → Option Dec} (hok : OKp s) (hwf : WFp s) (h : beginBlocker fx s rates = .ok s') :
    OKp s' ∧ WFp s' ∧ s'.mtpCount = s.mtpCount := by
  unfold beginBlocker at h
  split at h
  · exact bbPools_inv h1 h2 rates s.pools s s' hok hwf hwf.syms (fun q hq => getPoolL_of_mem hwf.syms hq) h
  · simp at h; rw [← h]; exact ⟨hok, hwf, rfl⟩

end Sif.Margin
