import Sif.Proofs.C13Steps
/-
  C13 helper lemmas, part 3: the invariant on states and on worlds, and its preservation by the
  composite steps (interest payment = modify, close tail = remove, open writes = add).
-/
namespace Sif.Margin
open Sif Sif.Spec.C13

structure WFp (s : State) : Prop where
  keys : (s.mtps.map Mtp.key).Nodup
  syms : (s.pools.map (fun p => p.sym)).Nodup
  nonNative : ∀ p ∈ s.pools, isNative p.sym = false
  ids : ∀ m ∈ s.mtps, m.id ≤ s.mtpCount ∧ m.id ≠ 0 ∧ pairOK m = true ∧ m.pos = 1
  len : s.mtps.length ≤ s.mtpCount
  cnt : s.mtpCount < u64

theorem WF_iff (s : State) : WF s = true ↔ WFp s := by
  unfold WF
  simp only [Bool.and_eq_true, decide_eq_true_eq, List.all_eq_true]
  constructor
  · rintro ⟨⟨⟨⟨⟨h1, h2⟩, h3⟩, h4⟩, h5⟩, h6⟩
    exact ⟨h1, h2, fun p hp => by simpa using h3 p hp, fun m hm => by have := h4 m hm; exact ⟨this.1.1.1, this.1.1.2, this.1.2, this.2⟩, h5, h6⟩
  · rintro ⟨h1, h2, h3, h4, h5, h6⟩
    exact ⟨⟨⟨⟨⟨h1, h2⟩, fun p hp => by simpa using h3 p hp⟩, fun m hm => by have := h4 m hm; exact ⟨⟨⟨this.1, this.2.1⟩, this.2.2.1⟩, this.2.2.2⟩⟩, h5⟩, h6⟩

def OKp (s : State) : Prop := OKc s.pools s.mtps s.openCount

theorem MarginOK_iff (s : State) : MarginOK s = true ↔ OKp s := marginOK_iff _ _ _

/-- the ledger part of a position: key, assets, custody, liabilities, kind -/
structure MtpSame (m m' : Mtp) : Prop where
  key : m'.key = m.key
  custody : m'.custody = m.custody
  liab : m'.liab = m.liab
  coll : m'.coll = m.coll
  cust : m'.cust = m.cust
  pos : m'.pos = m.pos

theorem MtpSame.refl (m : Mtp) : MtpSame m m := ⟨rfl, rfl, rfl, rfl, rfl, rfl⟩
theorem MtpSame.trans {a b c : Mtp} (h1 : MtpSame a b) (h2 : MtpSame b c) : MtpSame a c :=
  ⟨h2.key.trans h1.key, h2.custody.trans h1.custody, h2.liab.trans h1.liab, h2.coll.trans h1.coll, h2.cust.trans h1.cust, h2.pos.trans h1.pos⟩

/-- memory and store agree on the ledger, and the store satisfies the invariant -/
structure Good (w : W) : Prop where
  ok : OKp w.s
  wf : WFp w.s
  pool : ∃ p0, getPoolL w.s.pools w.pool.sym = some p0 ∧ (∀ b, p0.cust b = w.pool.cust b) ∧ (∀ b, p0.liab b = w.pool.liab b)
  mtp : ∃ m0, getMtpL w.s.mtps w.mtp.key = some m0 ∧ MtpSame m0 w.mtp
  home : w.mtp.poolSym = w.pool.sym

theorem poolSym_congr {m m' : Mtp} (h1 : m'.coll = m.coll) (h2 : m'.cust = m.cust) : m'.poolSym = m.poolSym := by
  unfold Mtp.poolSym; rw [h1, h2]

theorem custOf_eq (sym : Asset) (b : Bool) (m : Mtp) (h : m.poolSym = sym) :
    custOf sym b m = if b = isNative m.cust then m.custody else 0 := by
  unfold custOf
  by_cases hb : b = isNative m.cust
  · simp [h, hb]
  · have : ¬ (isNative m.cust = b) := fun h' => hb h'.symm
    simp [hb, this]

theorem liabOf_eq (sym : Asset) (b : Bool) (m : Mtp) (h : m.poolSym = sym) :
    liabOf sym b m = if b = isNative m.coll then m.liab else 0 := by
  unfold liabOf
  by_cases hb : b = isNative m.coll
  · simp [h, hb]
  · have : ¬ (isNative m.coll = b) := fun h' => hb h'.symm
    simp [hb, this]

theorem mod_pred {n : Nat} (h1 : 1 ≤ n) (h2 : n < u64) : (n + u64 - 1) % u64 = n - 1 := by
  have : n + u64 - 1 = (n - 1) + u64 := by omega
  rw [this, Nat.add_mod_right]
  exact Nat.mod_eq_of_lt (by omega)

/-- WFp depends only on the four ledger components, and survives a pool rewrite with the same symbols
    together with a position list whose members are old ones (or well-formed new ones). -/
theorem WFp_of {s s' : State}
    (hwf : WFp s)
    (hsyms : s'.pools.map (fun p => p.sym) = s.pools.map (fun p => p.sym))
    (hkeys : (s'.mtps.map Mtp.key).Nodup)
    (hids : ∀ m ∈ s'.mtps, m.id ≤ s'.mtpCount ∧ m.id ≠ 0 ∧ pairOK m = true ∧ m.pos = 1)
    (hlen : s'.mtps.length ≤ s'.mtpCount) (hcnt : s'.mtpCount < u64) : WFp s' := by
  refine ⟨hkeys, by rw [hsyms]; exact hwf.syms, ?_, hids, hlen, hcnt⟩
  intro p hp
  have : p.sym ∈ s'.pools.map (fun p => p.sym) := List.mem_map_of_mem (f := fun p => p.sym) hp
  rw [hsyms] at this
  simp only [List.mem_map] at this
  obtain ⟨q, hq, hqs⟩ := this
  rw [← hqs]; exact hwf.nonNative q hq

/-- the tail of every close: custody out, swap, repay — the position disappears -/
theorem closeTail_good {w w' : W} {tf : Bool} {r : Nat} (hg : Good w) (h : closeTail w tf = .ok (r, w')) :
    OKp w'.s ∧ WFp w'.s ∧ getMtpL w'.s.mtps w.mtp.key = none ∧ w'.s.mtps = delMtpL w.s.mtps w.mtp.key ∧
      w'.s.pools = setPoolL w.s.pools w'.pool ∧ w'.pool.sym = w.pool.sym ∧ w'.s.mtpCount = w.s.mtpCount := by
  unfold closeTail at h
  obtain ⟨w1, hw1, h⟩ := bind_ok h
  obtain ⟨ra, _, h⟩ := bind_ok h
  obtain ⟨w2, hw2, h⟩ := bind_ok h
  have h := pure_ok h
  simp at h
  obtain ⟨_, rfl⟩ := h
  obtain ⟨c, b, hc, rfl⟩ := takeOutCustody_ok hw1
  obtain ⟨hh, bank, b2, l, u, m0', hl, hm0', hw2eq⟩ := repay_ok hw2
  simp only [storePool_mtp, storePool_pool, storePool_mtps] at hl hm0' hw2eq
  obtain ⟨p0, hp0, hpc, hpl⟩ := hg.pool
  obtain ⟨m0, hm0, hsame⟩ := hg.mtp
  have hcu := hsame.custody.symm; have hli := hsame.liab.symm; have hco := hsame.coll.symm; have hcs := hsame.cust.symm
  have hm : m0' = m0 := by rw [hm0] at hm0'; exact (Option.some.inj hm0').symm
  subst hm
  have hm0sym : m0'.poolSym = w.pool.sym := by rw [poolSym_congr hco hcs]; exact hg.home
  obtain ⟨hmem, hkey⟩ := getMtpL_some_mem hm0
  have hoc : 1 ≤ w.s.openCount ∧ w.s.openCount < u64 := by
    have h1 := hg.ok.count
    have h2 := hg.wf.len
    have h3 := hg.wf.cnt
    have : 0 < w.s.mtps.length := List.length_pos_of_mem hmem
    omega
  -- the final state, explicitly
  rw [hw2eq]
  simp only [State.setPool, storePool_pools, storePool_openCount, storePool_mtpCount]
  rw [setPoolL_collapse _ _ _ (by simp)]
  refine ⟨?_, ?_, getMtpL_del _ _, trivial, rfl, by simp, trivial⟩
  · unfold OKp
    simp only []
    apply OKc_trans (sym := w.pool.sym) (p0 := p0) (old := some m0') (new := none) hg.ok hg.wf.syms hp0 (by simp)
      (Trans.remove hg.wf.keys hm0)
    · intro o ho; cases ho; exact hm0sym
    · intro n hn; cases hn
    · intro b'
      simp only [Option.map_some, Option.getD_some, Option.map_none, Option.getD_none, cust_setUns, cust_setLiab, cust_setBal,
        cust_setCust, custOf_eq _ _ _ hm0sym, hcs, hcu, Nat.add_zero]
      have := hpc b'
      by_cases hb : b' = isNative w.mtp.cust
      · subst hb; simp; omega
      · simp [hb]; omega
    · intro b'
      simp only [Option.map_some, Option.getD_some, Option.map_none, Option.getD_none, liab_setUns, liab_setLiab, liab_setBal,
        liab_setCust, liabOf_eq _ _ _ hm0sym, hco, hli, Nat.add_zero]
      have := hpl b'
      have hl' : l + w.mtp.liab = w.pool.liab (isNative w.mtp.coll) := by simpa using hl
      by_cases hb : b' = isNative w.mtp.coll
      · subst hb; simp; omega
      · simp [hb]; omega
    · simp; rw [mod_pred hoc.1 hoc.2]; omega
  · apply WFp_of hg.wf
    · simp only []
      exact syms_setPoolL (p0 := p0) (by simpa using hp0)
    · exact keys_del_nodup hg.wf.keys
    · intro m hm; exact hg.wf.ids m (mem_del hm).1
    · simp only []
      have := (List.length_filter_le (fun m => decide (m.key ≠ w.mtp.key)) w.s.mtps)
      have h2 := hg.wf.len
      unfold delMtpL; omega
    · exact hg.wf.cnt
end Sif.Margin

namespace Sif.Margin
open Sif Sif.Spec.C13

/-- the four store components the invariant reads are unchanged -/
structure LedgerSame (s s' : State) : Prop where
  pools : s'.pools = s.pools
  mtps : s'.mtps = s.mtps
  openCount : s'.openCount = s.openCount
  mtpCount : s'.mtpCount = s.mtpCount

theorem LedgerSame.refl (s : State) : LedgerSame s s := ⟨rfl, rfl, rfl, rfl⟩
theorem LedgerSame.trans {a b c : State} (h1 : LedgerSame a b) (h2 : LedgerSame b c) : LedgerSame a c :=
  ⟨h2.pools.trans h1.pools, h2.mtps.trans h1.mtps, h2.openCount.trans h1.openCount, h2.mtpCount.trans h1.mtpCount⟩
theorem LedgerSame.bank (s : State) (b : Bank) : LedgerSame s { s with bank := b } := ⟨rfl, rfl, rfl, rfl⟩

/-- positions other than `k` are untouched -/
structure Frame (s s' : State) (k : Key) (sym : Asset) : Prop where
  mtps : ∀ k', k' ≠ k → getMtpL s'.mtps k' = getMtpL s.mtps k'
  pools : ∀ sym', sym' ≠ sym → getPoolL s'.pools sym' = getPoolL s.pools sym'
  count : s'.mtpCount = s.mtpCount

theorem Frame.refl (s : State) (k : Key) (sym : Asset) : Frame s s k sym := ⟨fun _ _ => rfl, fun _ _ => rfl, rfl⟩
theorem Frame.trans {a b c : State} {k : Key} {sym : Asset} (h1 : Frame a b k sym) (h2 : Frame b c k sym) : Frame a c k sym :=
  ⟨fun k' hk => (h2.mtps k' hk).trans (h1.mtps k' hk), fun y hy => (h2.pools y hy).trans (h1.pools y hy), h2.count.trans h1.count⟩
theorem LedgerSame.frame {s s' : State} (h : LedgerSame s s') (k : Key) (sym : Asset) : Frame s s' k sym :=
  ⟨fun _ _ => by rw [h.mtps], fun _ _ => by rw [h.pools], h.mtpCount⟩

theorem OKp_congr {s s' : State} (h : OKp s) (hs : LedgerSame s s') : OKp s' := by
  unfold OKp at *; rw [hs.pools, hs.mtps, hs.openCount]; exact h

theorem WFp_congr {s s' : State} (h : WFp s) (hs : LedgerSame s s') : WFp s' := by
  obtain ⟨h1, h2, h3, h4, h5, h6⟩ := h
  refine ⟨?_, ?_, ?_, ?_, ?_, ?_⟩
  · rw [hs.mtps]; exact h1
  · rw [hs.pools]; exact h2
  · rw [hs.pools]; exact h3
  · rw [hs.mtps, hs.mtpCount]; exact h4
  · rw [hs.mtps, hs.mtpCount]; exact h5
  · rw [hs.mtpCount]; exact h6

theorem Good.congr {w w' : W} (hg : Good w) (hs : LedgerSame w.s w'.s) (hp : w.pool.sameLedger w'.pool)
    (hm : MtpSame w.mtp w'.mtp) : Good w' := by
  obtain ⟨hsym, hc, hl⟩ := hp
  refine ⟨OKp_congr hg.ok hs, WFp_congr hg.wf hs, ?_, ?_, ?_⟩
  · obtain ⟨p0, h1, h2, h3⟩ := hg.pool
    refine ⟨p0, ?_, ?_, ?_⟩
    · rw [hs.pools, hsym]; exact h1
    · intro b; rw [hc]; exact h2 b
    · intro b; rw [hl]; exact h3 b
  · obtain ⟨m0, h1, h2⟩ := hg.mtp
    refine ⟨m0, ?_, h2.trans hm⟩
    rw [hs.mtps, hm.key]; exact h1
  · rw [poolSym_congr hm.coll hm.cust, hsym]; exact hg.home

end Sif.Margin
