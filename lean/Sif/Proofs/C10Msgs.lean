import Sif.Proofs.C10Pmtp
import Sif.Proofs.C10Lp
set_option exponentiation.threshold 400
/-
  C10 helper lemmas: what `accepts` (the required validation clauses) gives for the two PMTP
  messages, and that applying an accepted message re-establishes `PmtpInvP`.
-/
namespace Sif.Proofs.C10
open Sif Sif.Hooks Sif.Validate Sif.Spec.C10

local notation "P" => Dec.P

theorem P18_eq : P18 = (P : Int) := by unfold P18 Dec.P; norm_num

theorem guarded_rejects (e : Env) (g c : Cond) :
    (Clause.mk [] [g] c false).rejects e = false ↔
      (evalCond e [] g = some false ∨ (evalCond e [] g = some true ∧ evalCond e [] c = some false)) := by
  simp only [Clause.rejects, rejBinders, rejAt, guardsHold]
  cases evalCond e [] g with
  | none => simp
  | some b => cases b <;> simp

/-- everything the required clauses of `UpdatePmtpParams` say, in plain arithmetic -/
theorem accepts_UpdatePmtpParams_facts (m : MsgUpdatePmtpParams) (c : Ctx) (s : StVals)
    (hacc : acceptsUpdatePmtpParams m c s = true)
    (hs : -two63 ≤ m.start) (he : m.end_ < two63) :
    0 < m.epochLen ∧ m.start ≤ m.end_ ∧ c.insideWindow = false ∧ c.height < m.start ∧ m.gov ≠ .bad ∧
    (c.height ≥ 0 → Int.tmod (m.end_ - m.start + 1) m.epochLen = 0 ∧
      0 ≤ (effectiveGov m s.gov).i ∧ (effectiveGov m s.gov).i ≤ P ∧
      (effectiveGov m s.gov).i * Int.tdiv (m.end_ - m.start + 1) m.epochLen ≤ 50 * P) := by
  unfold acceptsUpdatePmtpParams Req.updatePmtpParams at hacc
  rw [acceptsAll_cons, cl_rejects] at hacc
  obtain ⟨h1, hacc⟩ := hacc
  rw [acceptsAll_cons, cl_rejects] at hacc
  obtain ⟨h2, hacc⟩ := hacc
  rw [acceptsAll_cons, cl_rejects] at hacc
  obtain ⟨h3, hacc⟩ := hacc
  rw [acceptsAll_cons, cl_rejects] at hacc
  obtain ⟨h4, hacc⟩ := hacc
  rw [acceptsAll_cons, cl_rejects] at hacc
  obtain ⟨h5, hacc⟩ := hacc
  rw [acceptsAll_cons, guarded_rejects] at hacc
  obtain ⟨h6, hacc⟩ := hacc
  rw [acceptsAll_cons, cl_rejects] at hacc
  obtain ⟨h7, hacc⟩ := hacc
  rw [acceptsAll_cons, cl_rejects] at hacc
  obtain ⟨h8, _⟩ := hacc
  simp [evalCond, evalTerm, envUpdatePmtpParams] at h1
  simp [evalCond, evalTerm, envUpdatePmtpParams] at h2
  simp [evalCond, evalTerm, envUpdatePmtpParams, ctxAtom] at h4
  simp [evalCond, evalTerm, envUpdatePmtpParams, stOf] at h5
  have hbad : m.gov ≠ .bad := by
    intro hb
    simp [evalCond, evalTerm, envUpdatePmtpParams, hb, DecStr.isEmpty, DecStr.isBad] at h6
  refine ⟨by omega, by omega, h4, by omega, hbad, ?_⟩
  intro hh0
  rw [two63_val] at hs he
  have hw1 : wrapI64 (m.end_ - m.start) = m.end_ - m.start := wrapI64_id (by rw [two63_val]; omega) (by rw [two63_val]; omega)
  have hw2 : wrapI64 (m.end_ - m.start + 1) = m.end_ - m.start + 1 := wrapI64_id (by rw [two63_val]; omega) (by rw [two63_val]; omega)
  have hL0 : m.epochLen ≠ 0 := by omega
  -- clause 3: the modulus
  have hmod : Int.tmod (m.end_ - m.start + 1) m.epochLen = 0 := by
    simp [evalCond, evalTerm, envUpdatePmtpParams, Req.numBlocks, hw1, hw2, hL0] at h3
    exact h3
  -- the effective governance rate as the clause sees it
  have heff : evalTerm (envUpdatePmtpParams m c s) [] Req.effGov = some (effectiveGov m s.gov).i := by
    unfold Req.effGov effectiveGov
    cases hg : m.gov with
    | empty => simp [evalTerm, envUpdatePmtpParams, hg, DecStr.isEmpty, stOf]
    | bad => exact absurd hg hbad
    | val d => simp [evalTerm, envUpdatePmtpParams, hg, DecStr.isEmpty, DecStr.raw]
  have hlit : ∀ n : Int, evalTerm (envUpdatePmtpParams m c s) [] (Term.lit n) = some n := fun _ => rfl
  have h7' : 0 ≤ (effectiveGov m s.gov).i ∧ (effectiveGov m s.gov).i ≤ P := by
    obtain ⟨ha, hb⟩ := evalCond_or_false h7
    obtain ⟨x, y, hx, hy, hxy⟩ := evalCond_lt_false ha
    obtain ⟨x', y', hx', hy', hxy'⟩ := evalCond_lt_false hb
    rw [heff] at hx hy'
    rw [hlit] at hy hx'
    cases hx; cases hy; cases hx'; cases hy'
    rw [P18_eq] at hxy'
    exact ⟨by omega, by omega⟩
  have hE0 : 0 ≤ Int.tdiv (m.end_ - m.start + 1) m.epochLen := Int.tdiv_nonneg (by omega) (by omega)
  have hEle : Int.tdiv (m.end_ - m.start + 1) m.epochLen ≤ m.end_ - m.start + 1 := by
    rw [Int.tdiv_eq_ediv_of_nonneg (by omega)]
    exact Int.ediv_le_self _ (by omega)
  have hw3 : wrapI64 (Int.tdiv (m.end_ - m.start + 1) m.epochLen) = Int.tdiv (m.end_ - m.start + 1) m.epochLen :=
    wrapI64_id (by rw [two63_val]; omega) (by rw [two63_val]; omega)
  have h8' : (effectiveGov m s.gov).i * Int.tdiv (m.end_ - m.start + 1) m.epochLen ≤ 50 * P := by
    have hdiv : evalTerm (envUpdatePmtpParams m c s) [] (Term.divI64 Req.numBlocks (Term.fld "PmtpPeriodEpochLength")) =
        some (Int.tdiv (m.end_ - m.start + 1) m.epochLen) := by
      simp [evalTerm, envUpdatePmtpParams, Req.numBlocks, hw1, hw2, hw3, hL0]
    obtain ⟨x, y, hx, hy, hxy⟩ := evalCond_lt_false h8
    rw [hlit] at hx
    rw [evalTerm_mulInt heff hdiv] at hy
    cases hx
    by_cases hfit : decFits ((effectiveGov m s.gov).i * Int.tdiv (m.end_ - m.start + 1) m.epochLen) = true
    · rw [if_pos hfit] at hy
      cases hy
      rw [P18_eq] at hxy
      omega
    · rw [if_neg hfit] at hy
      cases hy
  exact ⟨hmod, h7'.1, h7'.2, h8'⟩

/-- `IsInsidePmtpWindow` as the handlers see it -/
def insideOf (pm : Pmtp) (height : Int) : Bool := decide (pm.start ≤ height ∧ height ≤ pm.end_)

theorem ctrZero_outside (pm : Pmtp) (H : Int) (hinv : PmtpInvP pm (H + 1)) (hout : insideOf pm H = false) : ctrZero pm := by
  obtain ⟨_, _, _, _, _, hA, _, hC⟩ := hinv
  unfold insideOf at hout
  simp only [decide_eq_false_iff_not, not_and_or, not_le] at hout
  rcases hout with h | h
  · exact (hA (by omega)).1
  · exact hC (by omega)

theorem UpdatePmtpParams_inv (m : MsgUpdatePmtpParams) (c : Ctx) (s : StVals) (pm : Pmtp)
    (hacc : acceptsUpdatePmtpParams m c s = true)
    (hs : -two63 ≤ m.start) (he : m.end_ < two63) (hh0 : 0 ≤ c.height)
    (hst : s.gov = pm.gov) (hwin : c.insideWindow = insideOf pm c.height)
    (hinv : PmtpInvP pm (c.height + 1)) (henv : pm.inter.i ≤ B1) :
    PmtpInvP (applyUpdatePmtpParams m pm) (c.height + 1) := by
  obtain ⟨hL, hse, hins, hhs, _, hrest⟩ := accepts_UpdatePmtpParams_facts m c s hacc hs he
  obtain ⟨hmod, hg0, hg1, hgE⟩ := hrest hh0
  have hz := ctrZero_outside pm c.height hinv (by rw [← hwin]; exact hins)
  obtain ⟨_, hi1, hr1, hi2, hr2, _, _, _⟩ := hinv
  rw [hst] at hg0 hg1 hgE
  unfold applyUpdatePmtpParams
  refine ⟨hse, hi1, hr1, hi2, hr2, ?_, ?_, ?_⟩
  · intro _
    refine ⟨hz, ⟨hL, by show 1 ≤ m.start; omega, hse, he, ?_, hg0, hg1, ?_⟩, henv⟩
    · show Int.tmod (m.end_ - m.start + 1) m.epochLen = 0; exact hmod
    · show (effectiveGov m pm.gov).i * Int.tdiv (m.end_ - m.start + 1) m.epochLen ≤ 50 * P; exact hgE
  · intro hh; exfalso
    have : m.start < c.height + 1 := hh.1
    omega
  · intro hh; exfalso
    have : m.end_ < c.height + 1 := hh
    omega

/-- what the required clauses of `ModifyPmtpRates` say about a running rate that takes effect -/
theorem accepts_ModifyPmtpRates_facts (m : MsgModifyPmtpRates) (c : Ctx) (s : StVals)
    (hacc : acceptsModifyPmtpRates m c s = true) (d : Dec) (hv : m.runningRate = .val d) (hout : c.insideWindow = false) :
    -(P : Int) < d.i ∧ d.i ≤ 1000000 * P := by
  unfold acceptsModifyPmtpRates Req.modifyPmtpRates at hacc
  rw [acceptsAll_cons, guarded_rejects] at hacc
  obtain ⟨_, hacc⟩ := hacc
  rw [acceptsAll_cons, guarded_rejects] at hacc
  obtain ⟨h2, _⟩ := hacc
  have hg : evalCond (envModifyPmtpRates m c s) [] Req.rrGuard = some true := by
    simp [Req.rrGuard, evalCond, envModifyPmtpRates, hv, DecStr.isEmpty, ctxAtom, hout]
  rw [hg] at h2
  rcases h2 with h2 | ⟨_, h2⟩
  · cases h2
  obtain ⟨ha, hb⟩ := evalCond_or_false h2
  obtain ⟨x, y, hx, hy, hxy⟩ := evalCond_le_false ha
  obtain ⟨x', y', hx', hy', hxy'⟩ := evalCond_lt_false hb
  have hfld : evalTerm (envModifyPmtpRates m c s) [] (Term.fld "dec:RunningRate") = some d.i := by
    simp [evalTerm, envModifyPmtpRates, hv, DecStr.raw]
  have hlit : ∀ n : Int, evalTerm (envModifyPmtpRates m c s) [] (Term.lit n) = some n := fun _ => rfl
  rw [hfld] at hx hy'
  rw [hlit] at hy hx'
  cases hx; cases hy; cases hx'; cases hy'
  rw [P18_eq] at hxy hxy'
  exact ⟨by omega, by omega⟩

theorem ModifyPmtpRates_inv (m : MsgModifyPmtpRates) (c : Ctx) (s : StVals) (pm : Pmtp)
    (hacc : acceptsModifyPmtpRates m c s = true)
    (hwin : c.insideWindow = insideOf pm c.height)
    (hinv : PmtpInvP pm (c.height + 1)) :
    PmtpInvP (applyModifyPmtpRates m c pm) (c.height + 1) := by
  have hP60 : (P : Int) < 2 ^ 60 := by exact_mod_cast P_lt_2_60
  have hB1 : B1 = 2 ^ 250 := rfl
  have hB2 : B2 = 2 ^ 270 := rfl
  unfold applyModifyPmtpRates
  cases hin : c.insideWindow with
  | true =>
    -- inside the window the two rate fields are ignored; EndPolicy may close the policy now
    have hb : setBlockRate m true pm = pm := by unfold setBlockRate; cases m.blockRate <;> rfl
    have hr : setRunningRate m true pm = pm := by unfold setRunningRate; cases m.runningRate <;> rfl
    rw [hb, hr]
    unfold endPolicyNow
    by_cases hep : m.endPolicy = true
    · simp only [hep, hin, and_self, if_true]
      have hinside : pm.start ≤ c.height ∧ c.height ≤ pm.end_ := by
        rw [hin] at hwin; unfold insideOf at hwin; exact of_decide_eq_true hwin.symm
      obtain ⟨_, _, hr1, _, hr2, _, _, _⟩ := hinv
      exact ⟨hinside.1, hr1, hr1, hr2, hr2, fun hh => by exfalso; have : c.height + 1 ≤ pm.start := hh; omega,
        fun hh => by exfalso; have : c.height + 1 ≤ c.height := hh.2; omega, fun _ => ⟨rfl, rfl⟩⟩
    · simp only [hep, Bool.false_eq_true, false_and, if_false]
      exact hinv
  | false =>
    have hend : ∀ q, endPolicyNow m c q = q := by
      intro q; unfold endPolicyNow; simp [hin]
    rw [hend]
    have hout : insideOf pm c.height = false := by rw [← hwin]; exact hin
    obtain ⟨hse, hi1, hr1, hi2, hr2, hA, hB, hC⟩ := hinv
    have hnotB : ¬ (pm.start < c.height + 1 ∧ c.height + 1 ≤ pm.end_) := by
      unfold insideOf at hout
      simp only [decide_eq_false_iff_not, not_and_or, not_le] at hout
      omega
    -- the block rate is never read outside a window (PolicyStart overwrites it)
    have hbr : ∀ q : Pmtp, PmtpInvP q (c.height + 1) → q.start = pm.start → q.end_ = pm.end_ →
        PmtpInvP (setBlockRate m false q) (c.height + 1) := by
      intro q hq e1 e2
      unfold setBlockRate
      cases m.blockRate with
      | empty => exact hq
      | bad => exact hq
      | val b =>
        obtain ⟨a1, a2, a3, a4, a5, a6, _, a8⟩ := hq
        exact ⟨a1, a2, a3, a4, a5, a6, fun hh => by exfalso; apply hnotB; rw [← e1, ← e2]; exact hh, a8⟩
    have hbase := hbr pm ⟨hse, hi1, hr1, hi2, hr2, hA, hB, hC⟩ rfl rfl
    have hfields : (setBlockRate m false pm).start = pm.start ∧ (setBlockRate m false pm).end_ = pm.end_ := by
      unfold setBlockRate; cases m.blockRate <;> exact ⟨rfl, rfl⟩
    unfold setRunningRate
    cases hrr : m.runningRate with
    | empty => exact hbase
    | bad => exact hbase
    | val d =>
      obtain ⟨hd1, hd2⟩ := accepts_ModifyPmtpRates_facts m c s hacc d hrr hin
      obtain ⟨a1, _, _, _, _, a6, a7, a8⟩ := hbase
      have hdB1 : d.i ≤ B1 := by rw [hB1]; omega
      have hdB2 : d.i ≤ B2 := by rw [hB2]; omega
      exact ⟨a1, hd1, hd1, hdB2, hdB2, fun hh => ⟨(a6 hh).1, (a6 hh).2.1, hdB1⟩,
        fun hh => by exfalso; apply hnotB; rw [← hfields.1, ← hfields.2]; exact hh, a8⟩

end Sif.Proofs.C10
