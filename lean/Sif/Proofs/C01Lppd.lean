import Sif.Proofs.C01Rewards
/-
  C01 — provider distribution (LPPD) keeps the module account solvent: what leaves the module
  account is exactly what is deducted from the pools.
-/
namespace Sif.Clp
open Sif Sif.AList Sif.Spec.C01 Sif.Dec

def payTot : List Payout → Nat
  | [] => 0
  | p :: t => p.2.2 + payTot t

theorem foldl_add_shift (l : List Payout) (c : Nat) :
    l.foldl (fun a p => a + p.2.2) c = c + l.foldl (fun a p => a + p.2.2) 0 := by
  induction l generalizing c with
  | nil => simp
  | cons q r ih => simp only [List.foldl]; rw [ih (c + q.2.2), ih (0 + q.2.2)]; omega

theorem totalFor_cons (p : Payout) (ps : List Payout) (a : String) :
    totalFor (p :: ps) a = (if p.2.1 = a then p.2.2 else 0) + totalFor ps a := by
  unfold totalFor
  by_cases h : p.2.1 = a
  · simp only [h, List.filter_cons, decide_true, if_true, List.foldl]
    rw [foldl_add_shift]; simp
  · simp [List.filter_cons, h]

theorem owed_cons_le (p : Payout) (ps : List Payout) :
    ∀ (L : List String), L.Nodup → owed (p :: ps) L ≤ p.2.2 + owed ps L ∧
      (p.2.1 ∉ L → owed (p :: ps) L = owed ps L) := by
  intro L
  induction L with
  | nil => intro _; simp [owed]
  | cons a t ih =>
    intro hnd
    have hnd' := List.nodup_cons.mp hnd
    obtain ⟨ih1, ih2⟩ := ih hnd'.2
    simp only [owed, totalFor_cons]
    constructor
    · by_cases h : p.2.1 = a
      · have : p.2.1 ∉ t := by rw [h]; exact hnd'.1
        have := ih2 this
        simp only [h, if_true]; omega
      · simp only [h, if_false]; omega
    · intro hn
      have h1 : p.2.1 ≠ a := fun e => hn (by rw [e]; exact List.mem_cons_self ..)
      have h2 : p.2.1 ∉ t := fun e => hn (List.mem_cons_of_mem _ e)
      simp only [h1, if_false, ih2 h2]; omega

/-- nobody is owed more than was planned in total -/
theorem owed_le_payTot (ps : List Payout) : ∀ (L : List String), L.Nodup → owed ps L ≤ payTot ps := by
  induction ps with
  | nil =>
    intro L _
    have : ∀ (L : List String), owed [] L = 0 := by
      intro L
      induction L with
      | nil => rfl
      | cons a t ih => simp [owed, totalFor, ih]
    simp [this L, payTot]
  | cons p rest ih =>
    intro L hnd
    have := (owed_cons_le p rest L hnd).1
    have := ih L hnd
    simp only [payTot]; omega

theorem recipients_nodup (ps : List Payout) : (recipients ps).Nodup := by
  unfold recipients
  have : ∀ (l : List Payout) (acc : AList Unit), acc.NodupKeys → (l.foldl (fun acc p => acc.set p.2.1 ()) acc).NodupKeys := by
    intro l
    induction l with
    | nil => intro acc h; exact h
    | cons p t ih => intro acc h; exact ih _ (nodupKeys_set _ _ h)
  exact this ps [] nodupKeys_nil

theorem payTot_append (a b : List Payout) : payTot (a ++ b) = payTot a + payTot b := by
  induction a with
  | nil => simp [payTot]
  | cons p t ih => simp only [List.cons_append, payTot, ih]; omega

theorem payTot_map (sym : String) (l : List (String × Nat)) :
    payTot (l.map (fun (a, n) => (sym, a, n))) = amtSum l := by
  induction l with
  | nil => rfl
  | cons hd t ih => obtain ⟨a, n⟩ := hd; simp only [List.map_cons, payTot, amtSum, ih]

/-- what `collectAll` plans (keys = store keys of the pools): the per-pool totals cover the planned
    payouts, and each total is bounded by the pool's rounded distribution amount -/
theorem collectAll_spec (s : St) (f : Pool → M (Option Dec)) :
    ∀ (pools : List (String × Pool)) (ps : List Payout) (tots : AList Nat), NodupKeys pools →
      collectAll s f pools = .ok (ps, tots) →
      payTot ps ≤ tsum tots ∧ tots.NodupKeys ∧
      (∀ k, k ∈ tots.keys → k ∈ AList.keys pools) ∧
      (∀ k v, tots.get k = some v → ∃ p, (k, p) ∈ pools ∧ ∃ pd, f p = .ok (some pd) ∧ (v : Int) ≤ pd.roundInt) := by
  intro pools
  induction pools with
  | nil =>
    intro ps tots _ h
    unfold collectAll at h; cases h
    exact ⟨by simp [payTot, tsum, sumBy], nodupKeys_nil, by simp [AList.keys], by simp⟩
  | cons hd rest ih =>
    intro ps tots hwf h
    obtain ⟨k0, pool⟩ := hd
    have hnd := hwf
    simp only [NodupKeys, AList.keys, List.map_cons, List.nodup_cons] at hnd
    have hwf' : NodupKeys rest := hnd.2
    unfold collectAll at h
    obtain ⟨⟨ps0, tots0⟩, h0, h⟩ := bind_ok h
    obtain ⟨i1, i2, i3, i4⟩ := ih ps0 tots0 hwf' h0
    have lift3 : ∀ k, k ∈ tots0.keys → k ∈ AList.keys ((k0, pool) :: rest) := by
      intro k hk
      simp only [AList.keys, List.map_cons, List.mem_cons]
      exact Or.inr (i3 k hk)
    have lift4 : ∀ k v, tots0.get k = some v → ∃ p, (k, p) ∈ (k0, pool) :: rest ∧ ∃ pd, f p = .ok (some pd) ∧ (v : Int) ≤ pd.roundInt := by
      intro k v hk; obtain ⟨p, he, hs⟩ := i4 k v hk; exact ⟨p, List.mem_cons_of_mem _ he, hs⟩
    dsimp only at h
    split at h
    · cases h; exact ⟨i1, i2, lift3, lift4⟩
    · obtain ⟨fo, hf, h⟩ := bind_ok h
      split at h
      · cases h; exact ⟨i1, i2, lift3, lift4⟩
      · rename_i pd
        obtain ⟨⟨l, total⟩, hc, h⟩ := bind_ok h
        cases h
        obtain ⟨cap, hcap, hle, hsum⟩ := collectProviderDistribution_spec hc
        have hfresh : tots0.get k0 = none := by
          apply get_none_of_not_mem
          intro hk
          exact hnd.1 (i3 _ hk)
        refine ⟨?_, nodupKeys_set _ _ i2, ?_, ?_⟩
        · rw [payTot_append, payTot_map]
          unfold tsum
          rw [sumBy_set_absent _ _ _ _ hfresh]
          unfold tsum at i1
          simp only [id]; omega
        · intro k hk
          by_cases hkp : k = k0
          · subst hkp; simp [AList.keys]
          · apply lift3
            have e : (tots0.set k0 total).get k = tots0.get k := get_set_ne _ _ _ _ (Ne.symm hkp)
            by_contra hn
            have hg : (tots0.set k0 total).get k = none := by rw [e]; exact get_none_of_not_mem hn
            exact (not_mem_keys_of_get_none hg) hk
        · intro k v hg
          rw [get_set] at hg
          split at hg
          · rename_i hkp
            cases hg
            subst hkp
            refine ⟨pool, List.mem_cons_self .., pd, hf, ?_⟩
            rw [← hcap]; exact_mod_cast hle
          · exact lift4 k v hg

end Sif.Clp

namespace Sif.Clp
open Sif Sif.AList Sif.Spec.C01 Sif.Dec

theorem refund_mono (ps : List Payout) :
    ∀ (t t' : AList Nat), ps.foldlM (fun t p => do
        let cur := (t.get p.1).getD 0
        let v ← Uint.sub cur p.2.2
        pure (t.set p.1 v)) t = .ok t' →
      (t.NodupKeys → t'.NodupKeys) ∧ ∀ k, (t'.get k).getD 0 ≤ (t.get k).getD 0 := by
  induction ps with
  | nil => intro t t' h; simp [List.foldlM] at h; cases h; exact ⟨id, fun _ => Nat.le_refl _⟩
  | cons p rest ih =>
    intro t t' h
    simp only [List.foldlM] at h
    obtain ⟨t1, h1, h⟩ := bind_ok h
    obtain ⟨v, hv, h1⟩ := bind_ok h1
    cases h1
    obtain ⟨e, _⟩ := Uint.sub_ok hv
    obtain ⟨n2, m2⟩ := ih _ _ h
    refine ⟨fun hn => n2 (nodupKeys_set _ _ hn), ?_⟩
    intro k
    have := m2 k
    rw [get_set] at this
    split at this
    · rename_i hk; subst hk; simp at this; omega
    · exact this

theorem transferAll_mono (ps : List Payout) :
    ∀ (l : List String) (s : St) (tots : AList Nat) (s' : St) (tots' : AList Nat),
      transferAll ps l s tots = .ok (s', tots') →
      (tots.NodupKeys → tots'.NodupKeys) ∧ ∀ k, (tots'.get k).getD 0 ≤ (tots.get k).getD 0 := by
  intro l
  induction l with
  | nil => intro s tots s' tots' h; unfold transferAll at h; cases h; exact ⟨id, fun _ => Nat.le_refl _⟩
  | cons a t ih =>
    intro s tots s' tots' h
    unfold transferAll at h
    split at h
    · exact ih _ _ _ _ h
    · obtain ⟨t1, ht, h⟩ := bind_ok h
      unfold refundTotals at ht
      obtain ⟨n1, m1⟩ := refund_mono _ _ _ ht
      obtain ⟨n2, m2⟩ := ih _ _ _ _ h
      exact ⟨fun hn => n2 (n1 hn), fun k => Nat.le_trans (m2 k) (m1 k)⟩

theorem deductRowan_spec {s : St} {k : String} {v : Nat} (hnd : s.pools.NodupKeys) (hk : PoolKeysOK s)
    (hfit : v = 0 ∨ ∃ p, s.pools.get k = some p ∧ v ≤ p.nBal) :
    (deductRowan s (k, v)).bank = s.bank ∧ (deductRowan s (k, v)).buckets = s.buckets ∧
    (deductRowan s (k, v)).pools.NodupKeys ∧ PoolKeysOK (deductRowan s (k, v)) ∧
    (∀ k', k' ≠ k → (deductRowan s (k, v)).pools.get k' = s.pools.get k') ∧
    ∀ d, recorded (deductRowan s (k, v)) d + (if d = rowan then v else 0) = recorded s d := by
  unfold deductRowan
  dsimp only
  cases hg : s.pools.get k with
  | none =>
    dsimp only
    rcases hfit with hv0 | ⟨p, hp, _⟩
    · subst hv0
      exact ⟨rfl, rfl, hnd, hk, fun _ _ => rfl, fun d => by split <;> simp⟩
    · rw [hg] at hp; cases hp
  | some p =>
    dsimp only
    have hlt : ¬ p.nBal < v := by
      rcases hfit with hv0 | ⟨q, hq, hle⟩
      · omega
      · rw [hg] at hq; cases hq; omega
    simp only [hlt, if_false]
    refine ⟨trivial, trivial, nodupKeys_set _ _ hnd, poolKeysOK_setKey hk hg rfl, ?_, ?_⟩
    · intro k' hne
      show (s.pools.set k _).get k' = _
      rw [get_set_ne _ _ _ _ (Ne.symm hne)]
    · intro d
      have := recorded_setKey (p' := ({ p with nBal := p.nBal - v } : Pool)) hg d
      simp only [poolRec] at this
      split_prop hd : d = rowan <;> simp only [hd, if_true, if_false] at this ⊢ <;> omega

/-- `RemoveRowanFromPool` for every entry of the map, when every deduction fits its pool -/
theorem removeRowan_spec :
    ∀ (tots : AList Nat) (s : St), tots.NodupKeys → s.pools.NodupKeys → PoolKeysOK s →
      (∀ k v, AList.get tots k = some v → v = 0 ∨ ∃ p, s.pools.get k = some p ∧ v ≤ p.nBal) →
      (removeRowanFromPools s tots).bank = s.bank ∧ (removeRowanFromPools s tots).buckets = s.buckets ∧
      (removeRowanFromPools s tots).pools.NodupKeys ∧ PoolKeysOK (removeRowanFromPools s tots) ∧
      ∀ d, recorded (removeRowanFromPools s tots) d + (if d = rowan then tsum tots else 0) = recorded s d := by
  intro tots
  induction tots with
  | nil =>
    intro s _ hnd hk _
    show s.bank = s.bank ∧ s.buckets = s.buckets ∧ s.pools.NodupKeys ∧ PoolKeysOK s ∧
      ∀ d, recorded s d + (if d = rowan then tsum [] else 0) = recorded s d
    exact ⟨rfl, rfl, hnd, hk, fun d => by simp [tsum, sumBy]⟩
  | cons hd t ih =>
    intro s hnt hnd hk hfit
    obtain ⟨k, v⟩ := hd
    have hnt' : NodupKeys t := by
      simp only [NodupKeys, AList.keys, List.map_cons, List.nodup_cons] at hnt; exact hnt.2
    have hknot : k ∉ AList.keys t := by
      simp only [NodupKeys, AList.keys, List.map_cons, List.nodup_cons] at hnt; exact hnt.1
    have hkv := hfit k v (by simp [get_cons])
    obtain ⟨b1, k1, n1, hk1, frame1, r1⟩ := deductRowan_spec hnd hk hkv
    have hfit1 : ∀ k' v', AList.get t k' = some v' →
        v' = 0 ∨ ∃ p, (deductRowan s (k, v)).pools.get k' = some p ∧ v' ≤ p.nBal := by
      intro k' v' hg
      have hne : k' ≠ k := fun e => hknot (by rw [← e]; exact mem_keys_of_get hg)
      have := hfit k' v' (by rw [get_cons]; simp [Ne.symm hne, hg])
      rw [frame1 k' hne]; exact this
    obtain ⟨b2, k2, n2, hk2, r2⟩ := ih (deductRowan s (k, v)) hnt' n1 hk1 hfit1
    have hfold : removeRowanFromPools s ((k, v) :: t) = removeRowanFromPools (deductRowan s (k, v)) t := rfl
    rw [hfold]
    refine ⟨b2.trans b1, k2.trans k1, n2, hk2, ?_⟩
    intro d
    have e1 := r1 d; have e2 := r2 d
    simp only [tsum, sumBy, id] at e2 ⊢
    split_prop hd : d = rowan <;> simp only [hd, if_true, if_false] at e1 e2 ⊢ <;> omega

end Sif.Clp

namespace Sif.Clp
open Sif Sif.AList Sif.Spec.C01 Sif.Dec

theorem get_of_mem_nodup {α : Type} {l : AList α} {k : String} {v : α} (hnd : NodupKeys l) (hm : (k, v) ∈ l) :
    l.get k = some v := by
  induction l with
  | nil => cases hm
  | cons hd t ih =>
    obtain ⟨k', v'⟩ := hd
    simp only [NodupKeys, AList.keys, List.map_cons, List.nodup_cons] at hnd
    rcases List.mem_cons.mp hm with e | e
    · cases e; simp [get_cons]
    · have hne : k' ≠ k := by
        intro he; subst he
        exact hnd.1 (List.mem_map_of_mem (f := Prod.fst) e)
      simp only [get_cons, hne, if_false]
      exact ih hnd.2 e

/-- for a block rate in [0,1] the rounded distribution amount of a pool is at most its balance -/
theorem lppd_cap_le {rate pd : Dec} {n : Nat} (h0 : 0 ≤ rate.i) (h1 : rate.i ≤ P)
    (h : rate.mul (Dec.ofNat n) = .ok pd) : pd.roundInt ≤ (n : Int) := by
  have hb : 0 ≤ (Dec.ofNat n).i := by rw [ofNat_i]; exact Int.natCast_nonneg _
  obtain ⟨m0, m1, _⟩ := mul_err h0 hb h
  obtain ⟨_, r1, _⟩ := roundInt_err m0
  have hp : (0 : ℚ) < (P : ℚ) := by exact_mod_cast P_pos
  have hrate : (rate.i : ℚ) ≤ P := by exact_mod_cast h1
  have hn : (0 : ℚ) ≤ (n : ℚ) := Nat.cast_nonneg _
  have e : ((Dec.ofNat n).i : ℚ) = (n : ℚ) * P := by rw [ofNat_i]; push_cast; ring
  rw [e] at m1
  have hx : (rate.i : ℚ) * ((n : ℚ) * P) / P = (rate.i : ℚ) * n := by field_simp
  rw [hx] at m1
  have h2 : (pd.i : ℚ) / P ≤ ((rate.i : ℚ) * n + 1 / 2) / P := div_le_div_of_nonneg_right m1 hp.le
  have h3 : ((rate.i : ℚ) * n + 1 / 2) / P ≤ n + 1 / (2 * P) := by
    rw [add_div]
    have : (rate.i : ℚ) * n / P ≤ n := by
      rw [div_le_iff₀ hp]; nlinarith
    have e2 : (1 : ℚ) / 2 / P = 1 / (2 * P) := by field_simp
    rw [e2]; linarith
  have hP2 : (1 : ℚ) / (2 * P) < 1 / 2 := by
    rw [div_lt_div_iff₀ (by positivity) (by norm_num)]
    have : (2 : ℚ) ≤ P := by
      have : 2 ≤ P := by rw [P_val]; decide
      exact_mod_cast this
    linarith
  have hlt : (pd.roundInt : ℚ) < (n : ℚ) + 1 := by linarith
  have : pd.roundInt < (n : Int) + 1 := by exact_mod_cast hlt
  omega

/-- **LPPD.**  With a block rate in [0,1] one provider-distribution run keeps the module account
    solvent: the coins that leave it are exactly what is deducted from the pools. -/
theorem lppdRun_solv {s s' : St} {p : LppdPeriod} (h0 : 0 ≤ p.rate.i) (h1 : p.rate.i ≤ P)
    (hinv : Solv s) (h : lppdRun s p = .ok s') : Solv s' := by
  unfold lppdRun at h
  obtain ⟨⟨ps, tots⟩, hc, h⟩ := bind_ok h
  obtain ⟨⟨s1, tots1⟩, ht, h⟩ := bind_ok h
  cases h
  obtain ⟨hnd, hk, hsolv⟩ := hinv
  obtain ⟨c1, c2, _, c4⟩ := collectAll_spec s _ s.pools ps tots hnd hc
  obtain ⟨t1, t2, _, t4, t5⟩ := transferAll_bank ps _ _ _ _ _ ht
  obtain ⟨m1, m2⟩ := transferAll_mono ps _ _ _ _ _ ht
  have howed := owed_le_payTot ps (recipients ps) (recipients_nodup ps)
  have hnd1 : s1.pools.NodupKeys := by rw [t1]; exact hnd
  have hk1 : PoolKeysOK s1 := poolKeysOK_congr t1 hk
  have hfit : ∀ k v, AList.get tots1 k = some v → v = 0 ∨ ∃ q, s1.pools.get k = some q ∧ v ≤ q.nBal := by
    intro k v hg
    have hm := m2 k
    rw [hg] at hm
    cases hg0 : tots.get k with
    | none => rw [hg0] at hm; simp at hm; exact Or.inl hm
    | some v0 =>
      rw [hg0] at hm; simp at hm
      obtain ⟨q, hq, pd, hf, hle⟩ := c4 k v0 hg0
      obtain ⟨pd', hmul, hsome⟩ := bind_ok hf
      cases hsome
      have hcap := lppd_cap_le h0 h1 hmul
      refine Or.inr ⟨q, by rw [t1]; exact get_of_mem_nodup hnd hq, ?_⟩
      have : (v0 : Int) ≤ (q.nBal : Int) := le_trans hle hcap
      omega
  obtain ⟨r1, r2, r3, r4, r5⟩ := removeRowan_spec tots1 s1 (m1 c2) hnd1 hk1 hfit
  refine ⟨r3, r4, ?_⟩
  intro d
  have e := r5 d
  have hrec1 : recorded s1 d = recorded s d := recorded_congr t1 t2 d
  have hsv := hsolv d
  rw [bal_of_bank_eq r1]
  by_cases hd : d = rowan
  · subst hd
    simp only [if_true] at e
    omega
  · simp only [hd, if_false] at e
    have := t4 d hd
    omega

theorem lppdHook_solv {s s' : St}
    (hrate : ∀ p, s.params.lppd = some p → 0 ≤ p.rate.i ∧ p.rate.i ≤ P)
    (hinv : Solv s) (h : lppdHook s = .ok s') : Solv s' := by
  unfold lppdHook at h
  split at h
  · cases h; exact hinv
  · rename_i p hp
    split at h
    · obtain ⟨d, _, h⟩ := bind_ok h
      split at h
      · exact lppdRun_solv (hrate p hp).1 (hrate p hp).2 hinv h
      · cases h; exact hinv
    · cases h; exact hinv

end Sif.Clp

namespace Sif.Clp
open Sif Sif.AList Sif.Spec.C01 Sif.Dec

/-- the two premises of the block hook: LPPD block rate in [0,1] (as validation enforces), and in
    distribute mode every pool that is rewarded has a provider record -/
def EndBlockOK (s : St) : Prop :=
  (∀ p, s.params.lppd = some p → 0 ≤ p.rate.i ∧ p.rate.i ≤ P) ∧
  ∀ s1, lppdHook s = .ok s1 → ∀ rp0, s1.params.rewardPeriod = some rp0 →
    ∀ td bd, DistributeOK (startReset s1 (effPeriod rp0)) (effPeriod rp0) td bd

theorem endBlocker_solv {s s' : St} (hok : EndBlockOK s) (hinv : Solv s) (h : endBlocker s = .ok s') : Solv s' := by
  unfold endBlocker at h
  obtain ⟨s1, h1, h⟩ := bind_ok h
  exact rewardsHook_solv (lppdHook_solv hok.1 hinv h1) (hok.2 s1 h1) h

end Sif.Clp
