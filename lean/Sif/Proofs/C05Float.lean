import Sif.Num.F64Bridge
import Mathlib.Tactic.Linarith
/- the float test of processCompletion agrees with the integer test 7·t ≤ 10·p for totals below 2^48 -/
namespace Sif.F64

theorem divGE07_iff (p t : Nat) (ht0 : 0 < t) (ht : t < 2 ^ 48) : divGE07 p t = true ↔ 7 * t ≤ 10 * p := by
  unfold divGE07 sigDiv c07sig
  simp only [decide_eq_true_eq]
  have hdm := Nat.div_add_mod (p * 2 ^ 53) t
  have hr := Nat.mod_lt (p * 2 ^ 53) ht0
  generalize hf : p * 2 ^ 53 / t = f at *
  generalize hrr : p * 2 ^ 53 % t = r at *
  have h53 : (2 : Nat) ^ 53 = 9007199254740992 := by norm_num
  have h48 : (2 : Nat) ^ 48 = 281474976710656 := by norm_num
  rw [h53] at hdm
  rw [h48] at ht
  constructor
  · intro h
    -- if 10 p < 7 t the quotient's significand stays below that of 0.7
    by_contra hlt
    have hlt' : 10 * p + 1 ≤ 7 * t := by omega
    -- f < c
    have hfc : f < 6305039478318694 := by
      by_contra hge
      have : t * 6305039478318694 ≤ t * f := Nat.mul_le_mul_left t (by omega)
      omega
    by_cases hf2 : f + 2 ≤ 6305039478318694
    · split at h
      · omega
      · split at h
        · omega
        · split at h <;> omega
    · have hfe : f = 6305039478318693 := by omega
      subst hfe
      have : 2 * r < t := by omega
      simp only [this, if_true] at h
      omega
  · intro h
    have hfc : 6305039478318694 ≤ f := by
      by_contra hlt
      have : t * (f + 1) ≤ t * 6305039478318694 := Nat.mul_le_mul_left t (by omega)
      have : t * (f + 1) = t * f + t := by rw [Nat.mul_add, Nat.mul_one]
      omega
    split
    · exact hfc
    · split
      · omega
      · split <;> omega

end Sif.F64
