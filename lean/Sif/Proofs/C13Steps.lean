import Sif.Proofs.C13Lists
/-
  C13 helper lemmas, part 2: what each successful primitive step of the margin model does, in
  explicit form (the failing exits are handled in part 3).
-/
namespace Sif.Margin
open Sif Sif.Spec.C13

/-! ### lifting -/

theorem liftM_ok {α} {w : W} {x : M α} {a : α} (h : liftM w x = .ok a) : x = .ok a := by
  cases x with
  | ok b => simp [liftM] at h; rw [h]
  | error e => simp [liftM] at h

theorem liftE_ok {α} {w : W} {x : Except Err α} {a : α} (h : liftE w x = .ok a) : x = .ok a := by
  cases x with
  | ok b => simp [liftE] at h; rw [h]
  | error e => simp [liftE] at h

theorem liftM_err {α} {w w' : W} {x : M α} {e : Err} (h : liftM w x = .error (e, w')) : w' = w := by
  cases x with
  | ok b => simp [liftM] at h
  | error e => simp [liftM] at h; exact h.2.symm

theorem liftE_err {α} {w w' : W} {x : Except Err α} {e : Err} (h : liftE w x = .error (e, w')) : w' = w ∧ x = .error e := by
  cases x with
  | ok b => simp [liftE] at h
  | error e => simp [liftE] at h; exact ⟨h.2.symm, by rw [h.1]⟩

theorem liftP_ok {α} {x : M α} {a : α} (h : liftP x = .ok a) : x = .ok a := by
  cases x with
  | ok b => simp [liftP] at h; rw [h]
  | error e => simp [liftP] at h

theorem dropW_ok {α} {x : R α} {a : α} (h : dropW x = .ok a) : x = .ok a := by
  cases x with
  | ok b => simp [dropW] at h; rw [h]
  | error e => simp [dropW] at h

theorem ensure_ok {c : Bool} {e : Err} {u : Unit} (h : ensure c e = .ok u) : c = true := by
  unfold ensure at h
  split at h
  · assumption
  · simp at h

theorem bind_err {ε α β} {x : Except ε α} {f : α → Except ε β} {e : ε}
    (h : (x >>= f) = .error e) : x = .error e ∨ ∃ a, x = .ok a ∧ f a = .error e := by
  cases x with
  | error e' => left; simpa [bind, Except.bind] using h
  | ok a => right; exact ⟨a, rfl, h⟩

theorem uadd_ok {a b c : Nat} (h : Uint.add a b = .ok c) : c = a + b := by
  unfold Uint.add Uint.chk at h
  split at h <;> simp at h
  exact h.symm

theorem usub_ok {a b c : Nat} (h : Uint.sub a b = .ok c) : c + b = a := by
  unfold Uint.sub at h
  split at h <;> simp at h
  omega

/-! ### side accessors and setters -/

@[simp] theorem cust_setCust (p : Pool) (n b : Bool) (v : Nat) : (p.setCust n v).cust b = if b = n then v else p.cust b := by
  cases n <;> cases b <;> simp [Pool.setCust, Pool.cust]
@[simp] theorem cust_setBal (p : Pool) (n b : Bool) (v : Nat) : (p.setBal n v).cust b = p.cust b := by
  cases n <;> cases b <;> simp [Pool.setBal, Pool.cust]
@[simp] theorem cust_setLiab (p : Pool) (n b : Bool) (v : Nat) : (p.setLiab n v).cust b = p.cust b := by
  cases n <;> cases b <;> simp [Pool.setLiab, Pool.cust]
@[simp] theorem cust_setUns (p : Pool) (n b : Bool) (v : Nat) : (p.setUns n v).cust b = p.cust b := by
  cases n <;> cases b <;> simp [Pool.setUns, Pool.cust]
@[simp] theorem liab_setLiab (p : Pool) (n b : Bool) (v : Nat) : (p.setLiab n v).liab b = if b = n then v else p.liab b := by
  cases n <;> cases b <;> simp [Pool.setLiab, Pool.liab]
@[simp] theorem liab_setBal (p : Pool) (n b : Bool) (v : Nat) : (p.setBal n v).liab b = p.liab b := by
  cases n <;> cases b <;> simp [Pool.setBal, Pool.liab]
@[simp] theorem liab_setCust (p : Pool) (n b : Bool) (v : Nat) : (p.setCust n v).liab b = p.liab b := by
  cases n <;> cases b <;> simp [Pool.setCust, Pool.liab]
@[simp] theorem liab_setUns (p : Pool) (n b : Bool) (v : Nat) : (p.setUns n v).liab b = p.liab b := by
  cases n <;> cases b <;> simp [Pool.setUns, Pool.liab]
@[simp] theorem sym_setCust (p : Pool) (n : Bool) (v : Nat) : (p.setCust n v).sym = p.sym := by
  cases n <;> simp [Pool.setCust]
@[simp] theorem sym_setBal (p : Pool) (n : Bool) (v : Nat) : (p.setBal n v).sym = p.sym := by
  cases n <;> simp [Pool.setBal]
@[simp] theorem sym_setLiab (p : Pool) (n : Bool) (v : Nat) : (p.setLiab n v).sym = p.sym := by
  cases n <;> simp [Pool.setLiab]
@[simp] theorem sym_setUns (p : Pool) (n : Bool) (v : Nat) : (p.setUns n v).sym = p.sym := by
  cases n <;> simp [Pool.setUns]
@[simp] theorem cust_health (p : Pool) (h : Dec) (b : Bool) : ({ p with health := h } : Pool).cust b = p.cust b := by
  cases b <;> rfl
@[simp] theorem liab_health (p : Pool) (h : Dec) (b : Bool) : ({ p with health := h } : Pool).liab b = p.liab b := by
  cases b <;> rfl

/-- the ledger part of a pool record: symbol, custody and liabilities of both sides -/
def Pool.sameLedger (p q : Pool) : Prop := q.sym = p.sym ∧ (∀ b, q.cust b = p.cust b) ∧ (∀ b, q.liab b = p.liab b)

theorem Pool.sameLedger_refl (p : Pool) : p.sameLedger p := ⟨rfl, fun _ => rfl, fun _ => rfl⟩

/-! ### stores -/

@[simp] theorem storePool_pools (w : W) : w.storePool.s.pools = setPoolL w.s.pools w.pool := rfl
@[simp] theorem storePool_mtps (w : W) : w.storePool.s.mtps = w.s.mtps := rfl
@[simp] theorem storePool_openCount (w : W) : w.storePool.s.openCount = w.s.openCount := rfl
@[simp] theorem storePool_mtpCount (w : W) : w.storePool.s.mtpCount = w.s.mtpCount := rfl
@[simp] theorem storePool_pool (w : W) : w.storePool.pool = w.pool := rfl
@[simp] theorem storePool_mtp (w : W) : w.storePool.mtp = w.mtp := rfl

/-- `SetMTP` of a position that already has an id -/
theorem storeMtp_ok_old {w w' : W} (hid : w.mtp.id ≠ 0) (h : w.storeMtp = .ok w') :
    w' = { w with s := { w.s with mtps := setMtpL w.s.mtps w.mtp } } := by
  unfold W.storeMtp State.setMtp at h
  simp only [hid, if_false] at h
  split at h
  · rename_i s m heq
    split at heq
    · simp at heq
    · simp at heq; simp at h; rw [← h, ← heq.1, ← heq.2]
  · simp at h

/-- `SetMTP` of a new position (id 0) -/
theorem storeMtp_ok_new {w w' : W} (hid : w.mtp.id = 0) (h : w.storeMtp = .ok w') :
    let m1 : Mtp := { w.mtp with id := (w.s.mtpCount + 1) % u64 }
    w' = { w with mtp := m1, s := { w.s with mtps := setMtpL w.s.mtps m1, mtpCount := (w.s.mtpCount + 1) % u64,
                                             openCount := (w.s.openCount + 1) % u64 } } := by
  unfold W.storeMtp State.setMtp at h
  simp only [hid, if_true] at h
  split at h
  · rename_i s m heq
    split at heq
    · simp at heq
    · simp at heq; simp at h; rw [← h, ← heq.1, ← heq.2]
  · simp at h

/-! ### primitives -/

theorem takeFundPayment_ok {w : W} {amount : Nat} {asset : Asset} {pct : Dec} {fund : Addr} {r : Nat × W}
    (h : takeFundPayment w amount asset pct fund = .ok r) :
    ∃ bank, r.2 = { w with s := { w.s with bank := bank } } := by
  unfold takeFundPayment at h
  obtain ⟨_, _, h⟩ := bind_ok h
  obtain ⟨take, _, h⟩ := bind_ok h
  obtain ⟨bank, _, h⟩ := bind_ok h
  have := pure_ok h
  exact ⟨bank, by rw [← this]⟩

theorem takeOutCustody_ok {w w' : W} (h : takeOutCustody w = .ok w') :
    ∃ c b, c + w.mtp.custody = w.pool.cust (isNative w.mtp.cust) ∧
      w' = ({ w with pool := (w.pool.setCust (isNative w.mtp.cust) c).setBal (isNative w.mtp.cust) b } : W).storePool := by
  unfold takeOutCustody at h
  obtain ⟨c, hc, h⟩ := bind_ok h
  obtain ⟨b, _, h⟩ := bind_ok h
  exact ⟨c, b, usub_ok (liftM_ok hc), (pure_ok h).symm⟩

theorem takeInCustody_ok {w w' : W} (h : takeInCustody w = .ok w') :
    ∃ c b, c = w.pool.cust (isNative w.mtp.cust) + w.mtp.custody ∧
      w' = ({ w with pool := (w.pool.setBal (isNative w.mtp.cust) b).setCust (isNative w.mtp.cust) c } : W).storePool := by
  unfold takeInCustody at h
  obtain ⟨b, _, h⟩ := bind_ok h
  obtain ⟨c, hc, h⟩ := bind_ok h
  have hc' := uadd_ok (liftM_ok hc)
  simp at hc'
  exact ⟨c, b, hc', (pure_ok h).symm⟩

theorem updatePoolHealth_ok {w w' : W} (h : updatePoolHealth w = .ok w') :
    ∃ hh, w' = ({ w with pool := { w.pool with health := hh } } : W).storePool := by
  unfold updatePoolHealth at h
  obtain ⟨hh, _, h⟩ := bind_ok h
  exact ⟨hh, (pure_ok h).symm⟩

theorem repayPayout_ok {w w' : W} {ret : Nat} {tf : Bool} (h : repayPayout w ret tf = .ok w') :
    ∃ bank, w' = { w with s := { w.s with bank := bank } } := by
  unfold repayPayout at h
  split at h
  · simp at h; exact ⟨w.s.bank, by rw [← h]⟩
  · obtain ⟨tw, htw, h⟩ := bind_ok h
    obtain ⟨actual, _, h⟩ := bind_ok h
    obtain ⟨bank, _, h⟩ := bind_ok h
    have h := pure_ok h
    by_cases htf : tf = true
    · simp only [htf, if_true] at htw
      obtain ⟨bank1, hb1⟩ := takeFundPayment_ok htw
      refine ⟨bank, ?_⟩
      rw [← h]; simp only []; rw [hb1]
    · simp only [htf] at htw
      have htw := pure_ok htw
      refine ⟨bank, ?_⟩
      rw [← h, ← htw]

/-- `Repay`: the position is destroyed; the pool's liabilities drop by the position's liabilities -/
theorem repay_ok {w w' : W} {ra : Nat} {tf : Bool} (h : repay w ra tf = .ok w') :
    ∃ hh bank b l u m0, l + w.mtp.liab = w.pool.liab (isNative w.mtp.coll) ∧
      getMtpL w.s.mtps w.mtp.key = some m0 ∧
      let P := ((w.pool.setBal (isNative w.mtp.coll) b).setLiab (isNative w.mtp.coll) l).setUns (isNative w.mtp.coll) u
      w' = { s := ({ w.s with bank := bank, mtps := delMtpL w.s.mtps w.mtp.key,
                              openCount := (w.s.openCount + u64 - 1) % u64 } : State).setPool P,
             pool := P, mtp := { w.mtp with health := hh } } := by
  unfold repay at h
  obtain ⟨hh, _, h⟩ := bind_ok h
  obtain ⟨_, _, h⟩ := bind_ok h
  obtain ⟨w2, hw2, h⟩ := bind_ok h
  obtain ⟨b, _, h⟩ := bind_ok h
  obtain ⟨l, hl, h⟩ := bind_ok h
  obtain ⟨u1, _, h⟩ := bind_ok h
  obtain ⟨u2, _, h⟩ := bind_ok h
  obtain ⟨s5, hs5, h⟩ := bind_ok h
  have h := pure_ok h
  obtain ⟨bank, hbank⟩ := repayPayout_ok hw2
  subst hbank
  have hl' := usub_ok (liftM_ok hl)
  simp at hl'
  have hs5' := liftE_ok hs5
  unfold State.destroyMtp at hs5'
  simp only [] at hs5'
  split at hs5'
  · simp at hs5'
  · rename_i m0 hm0
    simp at hs5'
    refine ⟨hh, bank, b, l, u2, m0, hl', hm0, ?_⟩
    rw [← h, ← hs5']
    rfl

end Sif.Margin
