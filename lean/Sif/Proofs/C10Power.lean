import Sif.Num.Basic
import Sif.Proofs.Except
import Mathlib.Tactic.Linarith
import Mathlib.Tactic.Ring
import Mathlib.Tactic.Positivity
set_option exponentiation.threshold 400
/-
  C10 helper lemmas: `sdk.Dec.Power` (square and multiply with banker's rounding and a 315-bit check
  at every step) cannot overflow when `(d + 1ulp)^n ≤ 2^K` — for every exponent, by induction on the loop.
-/
namespace Sif.Proofs.C10
open Sif

local notation "P" => Dec.P

theorem P_pos : 0 < P := by unfold Dec.P; positivity
theorem P_val : P = 10 ^ 18 := rfl
theorem half_val : Dec.half = 5 * 10 ^ 17 := rfl

/-- banker's rounding is within half a unit above the exact quotient … -/
theorem chopRoundNat_le (n : Nat) : 2 * P * Dec.chopRoundNat n ≤ 2 * n + P := by
  unfold Dec.chopRoundNat
  have hd := Nat.div_add_mod n P
  have hm := Nat.mod_lt n P_pos
  have hP : P = 2 * Dec.half := by rw [P_val, half_val]; norm_num
  simp only
  generalize n / P = q at *
  generalize n % P = r at *
  generalize Dec.half = hf at *
  generalize P = p at *
  subst hP
  split_ifs with h1 h2 h3
  · nlinarith
  · nlinarith
  · nlinarith
  · have : r = hf := by omega
    nlinarith

/-- … and never below the truncated quotient -/
theorem chopRoundNat_ge (n : Nat) : n / P ≤ Dec.chopRoundNat n := by
  unfold Dec.chopRoundNat
  simp only
  split_ifs <;> omega

theorem chopRoundNat_mul_P (v : Nat) : Dec.chopRoundNat (P * v) = v := by
  unfold Dec.chopRoundNat
  have h1 : P * v / P = v := Nat.mul_div_cancel_left v P_pos
  have h2 : P * v % P = 0 := Nat.mul_mod_right P v
  simp only [h1, h2]
  have : (0 : Nat) < Dec.half := by rw [half_val]; norm_num
  simp [this]

/-- the magnitude computed by `Dec.Mul` on two non-negative decimals -/
def mulNat (a b : Nat) : Nat := Dec.chopRoundNat (a * b)

theorem bitLen_le_of_lt {v k : Nat} (h : v < 2 ^ k) : bitLen v ≤ k := by
  unfold bitLen
  split_ifs with h0
  · omega
  · have := (Nat.log2_lt h0).2 h
    omega

theorem Dec_mul_nat {a b : Dec} {x y : Nat} (ha : a.i = x) (hb : b.i = y) (hfit : mulNat x y < 2 ^ 315) :
    Dec.mul a b = .ok ⟨(mulNat x y : Nat)⟩ := by
  unfold Dec.mul Dec.chopRound Dec.chk
  rw [ha, hb]
  have hnn : ¬ ((x : Int) * (y : Int) < 0) := not_lt.mpr (by positivity)
  have hab : ((x : Int) * (y : Int)).natAbs = x * y := by
    rw [← Nat.cast_mul]; exact Int.natAbs_natCast _
  simp only [hnn, if_false, hab]
  have : bitLen ((Dec.chopRoundNat (x * y) : Int)).natAbs ≤ Dec.maxBits := by
    rw [Int.natAbs_natCast]; exact bitLen_le_of_lt hfit
  simp only [this, if_true, mulNat]

/-- invariant of the loop: a value standing for `D^e`, kept ≥ 1 and (with one unit of slack)
    below `X^e / P^(e-1)` where `X = D + 1` -/
def Bnd (X v e : Nat) : Prop := P ≤ v ∧ (v + 1) * P ^ (e - 1) ≤ X ^ e

theorem Bnd_mul {X v1 v2 e1 e2 : Nat} (h1 : Bnd X v1 e1) (h2 : Bnd X v2 e2) (he1 : 1 ≤ e1) (he2 : 1 ≤ e2) :
    Bnd X (mulNat v1 v2) (e1 + e2) := by
  obtain ⟨l1, u1⟩ := h1
  obtain ⟨l2, u2⟩ := h2
  have hle := chopRoundNat_le (v1 * v2)
  have hge := chopRoundNat_ge (v1 * v2)
  constructor
  · have : P ≤ v1 * v2 / P := by
      rw [Nat.le_div_iff_mul_le P_pos]; exact Nat.mul_le_mul l1 l2
    exact le_trans this hge
  · -- P (v+1) ≤ (v1+1)(v2+1)
    have key : P * (mulNat v1 v2 + 1) ≤ (v1 + 1) * (v2 + 1) := by
      unfold mulNat; nlinarith
    have hexp : e1 + e2 - 1 = 1 + (e1 - 1) + (e2 - 1) := by omega
    calc (mulNat v1 v2 + 1) * P ^ (e1 + e2 - 1)
        = (P * (mulNat v1 v2 + 1)) * (P ^ (e1 - 1) * P ^ (e2 - 1)) := by rw [hexp, pow_add, pow_add, pow_one]; ring
      _ ≤ ((v1 + 1) * (v2 + 1)) * (P ^ (e1 - 1) * P ^ (e2 - 1)) := Nat.mul_le_mul_right _ key
      _ = ((v1 + 1) * P ^ (e1 - 1)) * ((v2 + 1) * P ^ (e2 - 1)) := by ring
      _ ≤ X ^ e1 * X ^ e2 := Nat.mul_le_mul u1 u2
      _ = X ^ (e1 + e2) := (pow_add X e1 e2).symm

/-- a bounded value fits: `v + 1 ≤ 2^K · P` -/
theorem Bnd_fits {X v e n K : Nat} (h : Bnd X v e) (he1 : 1 ≤ e) (hen : e ≤ n) (hX : P ≤ X)
    (hpow : X ^ n ≤ 2 ^ K * P ^ n) : v + 1 ≤ 2 ^ K * P := by
  obtain ⟨_, u⟩ := h
  have hPn : 0 < P ^ (n - 1) := pow_pos P_pos _
  -- (v+1) P^(e-1) X^(n-e) ≤ X^n ≤ 2^K P^n ; X^(n-e) ≥ P^(n-e)
  have h1 : (v + 1) * P ^ (e - 1) * P ^ (n - e) ≤ X ^ e * X ^ (n - e) :=
    Nat.mul_le_mul u (Nat.pow_le_pow_left hX _)
  have h2 : X ^ e * X ^ (n - e) = X ^ n := by rw [← pow_add]; congr 1; omega
  have h3 : (v + 1) * P ^ (e - 1) * P ^ (n - e) = (v + 1) * P ^ (n - 1) := by
    rw [mul_assoc, ← pow_add]; congr 2; omega
  have h4 : 2 ^ K * P ^ n = (2 ^ K * P) * P ^ (n - 1) := by
    have : n = (n - 1) + 1 := by omega
    conv_lhs => rw [this, pow_succ]
    ring
  rw [h3, h2] at h1
  have h5 : (v + 1) * P ^ (n - 1) ≤ (2 ^ K * P) * P ^ (n - 1) := by rw [← h4]; exact le_trans h1 hpow
  exact Nat.le_of_mul_le_mul_right h5 hPn

theorem two_pow_mul_P_lt {K : Nat} (hK : K ≤ 255) : 2 ^ K * P < 2 ^ 315 := by
  have h1 : P < 2 ^ 60 := by rw [P_val]; norm_num
  have h2 : (2 : Nat) ^ K ≤ 2 ^ 255 := Nat.pow_le_pow_right (by norm_num) hK
  calc 2 ^ K * P ≤ 2 ^ 255 * P := Nat.mul_le_mul_right _ h2
    _ < 2 ^ 255 * 2 ^ 60 := Nat.mul_lt_mul_of_pos_left h1 (by positivity)
    _ = 2 ^ 315 := by rw [← pow_add]

/-- the accumulator `tmp`: still the initial 1, or a bounded power -/
def TB (X t et : Nat) : Prop := (t = P ∧ et = 0) ∨ (1 ≤ et ∧ Bnd X t et)

theorem TB_mul {X t et d ed : Nat} (ht : TB X t et) (hd : Bnd X d ed) (hed : 1 ≤ ed) :
    Bnd X (mulNat t d) (et + ed) := by
  rcases ht with ⟨rfl, rfl⟩ | ⟨h1, hb⟩
  · unfold mulNat; rw [chopRoundNat_mul_P]; simpa using hd
  · exact Bnd_mul hb hd h1 hed

section loop
variable {X n K : Nat} (hX : P ≤ X) (hpow : X ^ n ≤ 2 ^ K * P ^ n) (hK : K ≤ 255)
include hX hpow hK

theorem mul_step {a b : Dec} {x y e : Nat} (ha : a.i = x) (hb : b.i = y) (hB : Bnd X (mulNat x y) e)
    (he1 : 1 ≤ e) (hen : e ≤ n) : Dec.mul a b = .ok ⟨(mulNat x y : Nat)⟩ := by
  apply Dec_mul_nat ha hb
  have := Bnd_fits hB he1 hen hX hpow
  have := two_pow_mul_P_lt hK
  omega

/-- the square-and-multiply loop of `Dec.Power` -/
theorem powerLoop_ok : ∀ (fuel i : Nat) (d tmp : Dec) (dv tv ed et : Nat),
    d.i = dv → tmp.i = tv → Bnd X dv ed → TB X tv et → 1 ≤ ed → 1 ≤ i → i < 2 ^ fuel → ed * i + et = n →
    ∃ d' t' dv' tv' ed' et', Dec.powerLoop fuel i d tmp = .ok (d', t') ∧ d'.i = (dv' : Nat) ∧ t'.i = (tv' : Nat) ∧
      Bnd X dv' ed' ∧ TB X tv' et' ∧ 1 ≤ ed' ∧ ed' + et' = n := by
  intro fuel
  induction fuel with
  | zero => intro i _ _ _ _ _ _ _ _ _ _ _ hi hlt; rw [pow_zero] at hlt; omega
  | succ f ih =>
    intro i d tmp dv tv ed et hd ht hBd hBt hed hi hlt hsum
    unfold Dec.powerLoop
    by_cases h1 : i > 1
    · simp only [h1, if_true]
      -- d' = d*d with exponent 2 ed
      have h2ed : ed + ed ≤ n := by nlinarith
      have hBdd : Bnd X (mulNat dv dv) (ed + ed) := Bnd_mul hBd hBd hed hed
      have hdd := mul_step hX hpow hK hd hd hBdd (by omega) h2ed
      by_cases hodd : i % 2 ≠ 0
      · rw [if_pos hodd]
        have hBtd : Bnd X (mulNat tv dv) (et + ed) := TB_mul hBt hBd hed
        have hetd : et + ed ≤ n := by nlinarith
        have htd := mul_step hX hpow hK ht hd hBtd (by omega) hetd
        simp only [htd, hdd, bind, Except.bind]
        refine ih (i / 2) _ _ (mulNat dv dv) (mulNat tv dv) (ed + ed) (et + ed) rfl rfl hBdd (Or.inr ⟨by omega, hBtd⟩)
          (by omega) (by omega) ?_ ?_
        · rw [pow_succ] at hlt; omega
        · have : i = 2 * (i / 2) + 1 := by omega
          nlinarith
      · rw [if_neg hodd]
        simp only [hdd, bind, Except.bind, pure, Except.pure]
        refine ih (i / 2) _ _ (mulNat dv dv) tv (ed + ed) et rfl ht hBdd hBt (by omega) (by omega) ?_ ?_
        · rw [pow_succ] at hlt; omega
        · have : i = 2 * (i / 2) := by omega
          nlinarith
    · simp only [h1, if_false]
      have : i = 1 := by omega
      subst this
      exact ⟨d, tmp, dv, tv, ed, et, rfl, hd, ht, hBd, hBt, hed, by omega⟩

/-- `Dec.Power` returns normally, the result is ≥ 1 and below `2^K` (as a decimal) -/
theorem power_ok (d : Dec) (dv : Nat) (hd : d.i = dv) (hD : dv + 1 = X) (hP : P ≤ dv) (hn1 : 1 ≤ n) (hn : n < 2 ^ 64) :
    ∃ r rv, Dec.power d n = .ok r ∧ r.i = (rv : Nat) ∧ P ≤ rv ∧ rv + 1 ≤ 2 ^ K * P := by
  unfold Dec.power
  have hn0 : n ≠ 0 := by omega
  simp only [hn0, if_false]
  have hB0 : Bnd X dv 1 := ⟨hP, by simp [hD]⟩
  have hone : Dec.one.i = (P : Nat) := rfl
  obtain ⟨d', t', dv', tv', ed', et', hl, hd', ht', hBd', hBt', hed', hs⟩ :=
    powerLoop_ok hX hpow hK 64 n d Dec.one dv P 1 0 hd hone hB0 (Or.inl ⟨rfl, rfl⟩) (le_refl _) hn1 hn (by omega)
  simp only [hl, bind, Except.bind]
  -- final d'.mul tmp'
  have hBf : Bnd X (mulNat dv' tv') n := by
    have := TB_mul hBt' hBd' hed'
    have hcomm : mulNat dv' tv' = mulNat tv' dv' := by unfold mulNat; rw [Nat.mul_comm]
    rw [hcomm, ← hs, Nat.add_comm]; exact this
  have hm := mul_step hX hpow hK hd' ht' hBf hn1 (le_refl _)
  exact ⟨_, _, hm, rfl, hBf.1, Bnd_fits hBf hn1 (le_refl _) hX hpow⟩

end loop

end Sif.Proofs.C10
