import Sif.Spec.C07
import Sif.Proofs.C06
/- helper lemmas for the C07 theorems: coin movements of ProcessLock / ProcessBurn -/
set_option linter.unusedSimpArgs false
set_option linter.unusedVariables false
namespace Sif.EthBridge
open Sif.Oracle Sif.Bank Sif.Spec.C06 Sif.Spec.C07

theorem at_add (a : Nat) (d : String) (n k : Nat) (a' : Nat) (d' : String) :
    at_ a d (n + k) a' d' = at_ a d n a' d' + at_ a d k a' d' := by
  unfold at_; split <;> simp

theorem debit_eq (m : PegMsg) (a : Nat) (d : String) :
    debit m a d = at_ m.sender m.symbol m.amount.toNat a d + at_ m.sender cethSymbol m.ceth.toNat a d := rfl

theorem credit_eq (m : PegMsg) (feeTo : Option Nat) (a : Nat) (d : String) :
    credit m feeTo a d = at_ (feeAcct feeTo) cethSymbol m.ceth.toNat a d := rfl

/-- the coin movements of a successful ProcessLock / ProcessBurn, additively -/
theorem pegMove_ok {s : BState} {m : PegMsg} {sp : Bool} {b : Bank} (h : pegMove s m sp = .ok b) :
    (∀ a d, b.bal a d + debit m a d = s.bank.bal a d + credit m s.cethReceiver a d) ∧
    (∀ d, b.supply d + atD m.symbol m.amount.toNat d = s.bank.supply d) := by
  unfold pegMove at h
  simp only at h
  split at h
  · -- fee receiver set
    rename_i r hr
    split at h
    · cases h
    · rename_i b1 h1
      split at h
      · cases h
      · split at h
        · cases h
        · rename_i b2 h2
          obtain ⟨f1, f2⟩ := sendCoin_ok h1
          obtain ⟨g1, g2⟩ := sendCoin_ok h2
          obtain ⟨k1, k2⟩ := burnCoin_ok h
          refine ⟨?_, ?_⟩
          · intro a d
            rw [debit_eq, credit_eq, hr]
            have := f1 a d
            have := g1 a d
            have := k1 a d
            simp only [feeAcct, Option.getD_some]
            omega
          · intro d
            have := k2 d
            rw [g2, f2] at this
            exact this
  · rename_i hr
    split at h
    · cases h
    · split at h
      · rename_i hsym
        split at h
        · split at h
          · cases h
          · split at h
            · cases h
            · rename_i b1 h1
              obtain ⟨f1, f2⟩ := sendCoin_ok h1
              obtain ⟨k1, k2⟩ := burnCoin_ok h
              refine ⟨?_, ?_⟩
              · intro a d
                rw [debit_eq, credit_eq, hr, hsym]
                have := f1 a d
                have := k1 a d
                have e1 := at_add m.sender cethSymbol m.ceth.toNat m.amount.toNat a d
                have e2 := at_add moduleAcct cethSymbol m.ceth.toNat m.amount.toNat a d
                simp only [feeAcct, Option.getD_none]
                omega
              · intro d
                have := k2 d
                rw [f2] at this
                rw [hsym]; exact this
        · cases h
      · rename_i hsym
        split at h
        · cases h
        · rename_i b1 h1
          split at h
          · cases h
          · rename_i b2 h2
            obtain ⟨f1, f2⟩ := sendCoin_ok h1
            obtain ⟨g1, g2⟩ := sendCoin_ok h2
            obtain ⟨k1, k2⟩ := burnCoin_ok h
            refine ⟨?_, ?_⟩
            · intro a d
              rw [debit_eq, credit_eq, hr]
              have := f1 a d
              have := g1 a d
              have := k1 a d
              simp only [feeAcct, Option.getD_none]
              by_cases hlt : m.symbol < cethSymbol
              · simp only [hlt, if_true] at *
                omega
              · simp only [hlt, if_false] at *
                omega
            · intro d
              have := k2 d
              rw [g2, f2] at this
              exact this

theorem deliver_lock_cases (ord : List Group → List Group) (vals : List Validator) (s : BState) (m : PegMsg) :
    (∃ f, deliver ord vals s (.lock m) = (s, .failed f)) ∨
    (∃ s' e, lock s m = .ok (s', e) ∧ lockValidate m = true ∧ deliver ord vals s (.lock m) = (s', .event e)) := by
  unfold deliver
  by_cases hv : validateBasic (.lock m) = true
  · simp only [hv, Bool.not_true, Bool.false_eq_true, if_false]
    cases hc : lock s m with
    | error f => left; exact ⟨f, by simp [handle, hc, Except.map]⟩
    | ok r => right; exact ⟨r.1, r.2, rfl, hv, by simp [handle, hc, Except.map]⟩
  · left
    have : validateBasic (.lock m) = false := by simpa using hv
    exact ⟨.err .validate, by simp [this]⟩

theorem deliver_burn_cases (ord : List Group → List Group) (vals : List Validator) (s : BState) (m : PegMsg) :
    (∃ f, deliver ord vals s (.burn m) = (s, .failed f)) ∨
    (∃ s' e, burn s m = .ok (s', e) ∧ burnValidate m = true ∧ deliver ord vals s (.burn m) = (s', .event e)) := by
  unfold deliver
  by_cases hv : validateBasic (.burn m) = true
  · simp only [hv, Bool.not_true, Bool.false_eq_true, if_false]
    cases hc : burn s m with
    | error f => left; exact ⟨f, by simp [handle, hc, Except.map]⟩
    | ok r => right; exact ⟨r.1, r.2, rfl, hv, by simp [handle, hc, Except.map]⟩
  · left
    have : validateBasic (.burn m) = false := by simpa using hv
    exact ⟨.err .validate, by simp [this]⟩

/-- administrative messages never change the supply; rescue moves ceth without changing it -/
theorem deliver_admin_supply (ord : List Group → List Group) (vals : List Validator) (s : BState) (m : Msg)
    (h1 : m.isClaim = false) (h2 : ∀ pm, m ≠ .lock pm) (h3 : ∀ pm, m ≠ .burn pm) :
    (deliver ord vals s m).1.bank.supply = s.bank.supply := by
  unfold deliver
  split
  · rfl
  · cases hh : handle ord vals s m with
    | error e => rfl
    | ok r =>
      simp only
      cases m with
      | claim _ => simp [Msg.isClaim] at h1
      | lock pm => exact (h2 pm rfl).elim
      | burn pm => exact (h3 pm rfl).elim
      | pause a p =>
        simp only [handle] at hh
        obtain ⟨y, hy, e⟩ := map_ok hh
        subst e
        unfold setPause at hy
        split at hy <;> cases hy
        rfl
      | blacklist a l =>
        simp only [handle] at hh
        obtain ⟨y, hy, e⟩ := map_ok hh
        subst e
        unfold setBlacklist at hy
        split at hy <;> cases hy
        rfl
      | cethReceiver a r' =>
        simp only [handle] at hh
        obtain ⟨y, hy, e⟩ := map_ok hh
        subst e
        unfold setCethReceiver at hy
        repeat (split at hy <;> try cases hy)
        rfl
      | rescue a r' n =>
        simp only [handle] at hh
        obtain ⟨y, hy, e⟩ := map_ok hh
        subst e
        unfold rescueCeth at hy
        split at hy
        · cases hy
        · split at hy
          · cases hy
          · split at hy
            · cases hy
            · split at hy
              · cases hy
              · rename_i b hb
                cases hy
                exact (sendFromModule_ok hb).2.2
      | whitelist a op v =>
        simp only [handle] at hh
        obtain ⟨y, hy, e⟩ := map_ok hh
        subst e
        unfold EthBridge.updateWhiteList at hy
        split at hy
        · cases hy
        · split at hy
          · cases hy
          · cases hy; rfl

/-- one step of a history, one denomination: supply + locked + burned = supply before + credited -/
theorem step_supply (ord : List Group → List Group) (w : World) (st : Step) (d : String) :
    (stepWorld ord w st).s.bank.supply d + stepLocked ord w st d + stepBurned ord w st d =
      w.s.bank.supply d + stepCredited ord w st d := by
  cases st with
  | setVals v => simp [stepWorld, stepLocked, stepBurned, stepCredited]
  | restart => simp [stepWorld, stepLocked, stepBurned, stepCredited]
  | blocks n => simp [stepWorld, stepLocked, stepBurned, stepCredited]
  | msg m =>
    cases m with
    | claim cm =>
      simp only [stepWorld, stepLocked, stepBurned, stepCredited, Nat.add_zero]
      rcases deliver_claim_cases ord w.vals w.s cm with ⟨f, hd⟩ | ⟨s', status, hc, hd⟩
      · rw [hd]; simp
      · rw [hd]
        obtain ⟨o, fin, hp, eo, _, _, _, _, hcase⟩ := createClaim_ok hc
        obtain ⟨_, _, fa⟩ := processClaim_status hp
        rcases hcase with ⟨hs, hsucc⟩ | ⟨hs, hsame⟩
        · obtain ⟨c, hcred, _, _, hsup, _⟩ := processSuccessfulClaim_ok hsucc
          subst hs
          simp only [if_true]
          rw [eo, fa, hcred]
          have := hsup d
          simp only [atD] at this
          simpa using this
        · have : Out.claimed status ≠ Out.claimed .success := by
            intro e; cases e; exact hs rfl
          simp only [this, if_false, Nat.add_zero]
          rw [hsame]
    | lock pm =>
      simp only [stepWorld, stepLocked, stepBurned, stepCredited, Nat.add_zero]
      rcases deliver_lock_cases ord w.vals w.s pm with ⟨f, hd⟩ | ⟨s', e, hl, _, hd⟩
      · rw [hd]; simp [Out.isOk]
      · rw [hd]
        have hmove := (lock_ok_frame hl).2.2.2.2.2.2.2
        have := (pegMove_ok hmove).2 d
        simp only [atD] at this
        simp only [Out.isOk, if_true]
        exact this
    | burn pm =>
      simp only [stepWorld, stepLocked, stepBurned, stepCredited, Nat.add_zero, Nat.zero_add]
      rcases deliver_burn_cases ord w.vals w.s pm with ⟨f, hd⟩ | ⟨s', e, hl, _, hd⟩
      · rw [hd]; simp [Out.isOk]
      · rw [hd]
        have hmove := (burn_ok_frame hl).2.2.2.2.2.2.2
        have := (pegMove_ok hmove).2 d
        simp only [atD] at this
        simp only [Out.isOk, if_true]
        exact this
    | pause a p =>
      simp only [stepWorld, stepLocked, stepBurned, stepCredited, Nat.add_zero]
      rw [deliver_admin_supply ord w.vals w.s _ rfl (by intro pm h; cases h) (by intro pm h; cases h)]
    | blacklist a l =>
      simp only [stepWorld, stepLocked, stepBurned, stepCredited, Nat.add_zero]
      rw [deliver_admin_supply ord w.vals w.s _ rfl (by intro pm h; cases h) (by intro pm h; cases h)]
    | cethReceiver a r =>
      simp only [stepWorld, stepLocked, stepBurned, stepCredited, Nat.add_zero]
      rw [deliver_admin_supply ord w.vals w.s _ rfl (by intro pm h; cases h) (by intro pm h; cases h)]
    | rescue a r n =>
      simp only [stepWorld, stepLocked, stepBurned, stepCredited, Nat.add_zero]
      rw [deliver_admin_supply ord w.vals w.s _ rfl (by intro pm h; cases h) (by intro pm h; cases h)]
    | whitelist a op v =>
      simp only [stepWorld, stepLocked, stepBurned, stepCredited, Nat.add_zero]
      rw [deliver_admin_supply ord w.vals w.s _ rfl (by intro pm h; cases h) (by intro pm h; cases h)]

end Sif.EthBridge

namespace Sif.EthBridge
open Sif.Oracle Sif.Bank Sif.Spec.C06 Sif.Spec.C07

/-- a credit for a claim that is not a lock claim leaves the peggy-token list alone -/
theorem processSuccessfulClaim_peggy_other {s s' : BState} {r : Nat} {a : Int} {sym : String} {t c : Nat}
    (h : processSuccessfulClaim s (.eth r a sym t c) = .ok s') (hc : c ≠ 2) : s'.peggy = s.peggy := by
  unfold processSuccessfulClaim at h
  simp only [hc, if_false] at h
  split at h
  · split at h
    · cases h
    · split at h
      · cases h
      · cases h; rfl
  · cases h

/-- `AddPeggyToken` is exact-string set insertion -/
theorem addPeggy_spec (l : List String) (d : String) :
    (addPeggy l d).contains d = true ∧ (∀ x, l.contains x = true → (addPeggy l d).contains x = true) ∧
    (∀ x, (addPeggy l d).contains x = true → l.contains x = true ∨ x = d) := by
  unfold addPeggy
  split
  · rename_i h
    exact ⟨h, fun x hx => hx, fun x hx => Or.inl hx⟩
  · refine ⟨by simp, fun x hx => ?_, fun x hx => ?_⟩
    · simp only [List.contains_eq_mem, List.mem_append, decide_eq_true_eq] at hx ⊢
      exact Or.inl hx
    · simp only [List.contains_eq_mem, List.mem_append, decide_eq_true_eq, List.mem_singleton] at hx ⊢
      exact hx

/-- the pegged denominations one step of a history mints: an accepted lock claim that reports SUCCESS -/
def stepMinted (ord : List Group → List Group) (w : World) : Step → List String
  | .msg (.claim m) =>
    if (deliver ord w.vals w.s (.claim m)).2 = .claimed .success then
      match finalOf (deliver ord w.vals w.s (.claim m)).1.oracle (claimOf m).id with
      | .eth _ _ sym _ 2 => [peggedPrefix ++ sym]
      | _ => []
    else []
  | _ => []

/-- all pegged denominations a history mints -/
def mintedOf (ord : List Group → List Group) (w : World) : List Step → List String
  | [] => []
  | st :: rest => stepMinted ord w st ++ mintedOf ord (stepWorld ord w st) rest

end Sif.EthBridge

namespace Sif.Bank

/-- the bank primitives fail only with "insufficient funds" or a panic -/
def bankFail (f : Fail) : Prop := f = .err .funds ∨ f = .panic

theorem subCoin_err {b : Bank} {a : Nat} {d : String} {n : Nat} {f : Fail} (h : subCoin b a d n = .error f) : bankFail f := by
  unfold subCoin at h
  split at h
  · cases h
  · split at h
    · cases h; exact Or.inl rfl
    · cases h

theorem addCoin_err {b : Bank} {a : Nat} {d : String} {n : Nat} {f : Fail} (h : addCoin b a d n = .error f) : bankFail f := by
  unfold addCoin at h
  split at h
  · cases h
  · split at h
    · cases h; exact Or.inr rfl
    · cases h

theorem sendCoin_err {b : Bank} {src dst : Nat} {d : String} {n : Nat} {f : Fail} (h : sendCoin b src dst d n = .error f) : bankFail f := by
  unfold sendCoin at h
  split at h
  · rename_i f' h1; cases h; exact subCoin_err h1
  · split at h
    · rename_i f' h2; cases h; exact addCoin_err h2
    · cases h

theorem burnCoin_err {b : Bank} {d : String} {n : Nat} {f : Fail} (h : burnCoin b d n = .error f) : bankFail f := by
  unfold burnCoin at h
  split at h
  · rename_i f' h1; cases h; exact subCoin_err h1
  · split at h
    · cases h
    · split at h
      · cases h; exact Or.inr rfl
      · cases h

end Sif.Bank

namespace Sif.EthBridge
open Sif.Oracle Sif.Bank

theorem pegMove_err {s : BState} {m : PegMsg} {sp : Bool} {f : Fail} (h : pegMove s m sp = .error f) : bankFail f := by
  unfold pegMove at h
  simp only at h
  split at h
  · split at h
    · rename_i f' h1; cases h; exact sendCoin_err h1
    · split at h
      · cases h; exact Or.inr rfl
      · split at h
        · rename_i f' h2; cases h; exact sendCoin_err h2
        · exact burnCoin_err h
  · split at h
    · cases h; exact Or.inr rfl
    · split at h
      · split at h
        · split at h
          · cases h; exact Or.inr rfl
          · split at h
            · rename_i f' h1; cases h; exact sendCoin_err h1
            · exact burnCoin_err h
        · cases h; exact Or.inr rfl
      · split at h
        · rename_i f' h1; cases h; exact sendCoin_err h1
        · split at h
          · rename_i f' h2; cases h; exact sendCoin_err h2
          · exact burnCoin_err h

/-- a burn is refused as "native token" only if the token is not in the peggy-token list -/
theorem burn_native_refusal {s : BState} {m : PegMsg} (h : burn s m = .error (.err .native)) : s.peggy.contains m.symbol = false := by
  unfold burn at h
  split at h
  · cases h
  · split at h
    · rename_i hp; simpa using hp
    · split at h
      · cases h
      · split at h
        · cases h
        · split at h
          · rename_i f hf
            cases h
            rcases pegMove_err hf with e | e <;> cases e
          · cases h

end Sif.EthBridge

namespace Sif.EthBridge
open Sif.Oracle Sif.Bank Sif.Spec.C06 Sif.Spec.C07 Sif.Generated

/-- a successful ProcessLock / ProcessBurn of a message whose fee is not negative and whose amount is positive was payable
    from the sender's balances before it -/
theorem payable_of_move {s : BState} {m : PegMsg} {sp : Bool} {b : Bank} (h : pegMove s m sp = .ok b)
    (hfee : 0 ≤ m.ceth) (hamt : 0 < m.amount) : payable m s.cethReceiver s.bank.bal = true := by
  obtain ⟨hb, _⟩ := pegMove_ok h
  have h1 := hb m.sender m.symbol
  have h2 := hb m.sender cethSymbol
  rw [debit_eq, credit_eq] at h1 h2
  unfold payable
  have e1 : at_ m.sender m.symbol m.amount.toNat m.sender m.symbol = m.amount.toNat := by simp [at_]
  have e2 : at_ m.sender cethSymbol m.ceth.toNat m.sender cethSymbol = m.ceth.toNat := by simp [at_]
  have le1 : at_ (feeAcct s.cethReceiver) cethSymbol m.ceth.toNat m.sender m.symbol
      ≤ at_ m.sender cethSymbol m.ceth.toNat m.sender m.symbol := by
    unfold at_
    by_cases hc : m.symbol = cethSymbol
    · simp only [hc, and_true, true_and, if_true]
      split <;> omega
    · simp [hc]
  have c1 : m.amount.toNat ≤ s.bank.bal m.sender m.symbol := by omega
  simp only [hfee, hamt, c1, decide_true, Bool.true_and]
  by_cases hf : feeAcct s.cethReceiver = m.sender
  · simp [hf]
  · have z : at_ (feeAcct s.cethReceiver) cethSymbol m.ceth.toNat m.sender cethSymbol = 0 := by
      unfold at_; simp [hf]; intro e; exact (hf e.symm).elim
    have e3 : at_ m.sender m.symbol m.amount.toNat m.sender cethSymbol = if m.symbol = cethSymbol then m.amount.toNat else 0 := by
      unfold at_
      by_cases hc : m.symbol = cethSymbol
      · simp [hc]
      · have : ¬ cethSymbol = m.symbol := fun e => hc e.symm
        simp [hc, this]
    have c2 : m.ceth.toNat + (if m.symbol = cethSymbol then m.amount.toNat else 0) ≤ s.bank.bal m.sender cethSymbol := by
      rw [← e3]; omega
    simp [hf, c2]

theorem lockValidate_spec {m : PegMsg} (h : lockValidate m = true) : 0 ≤ m.ceth ∧ 0 < m.amount := by
  unfold lockValidate at h
  simp only [Bool.and_eq_true, decide_eq_true_eq] at h
  have : (0 : Int) ≤ (BridgeConsts.lockGasCost : Int) := Int.natCast_nonneg _
  exact ⟨by omega, h.1.1.2⟩

theorem burnValidate_spec {m : PegMsg} (h : burnValidate m = true) : 0 ≤ m.ceth ∧ 0 < m.amount := by
  unfold burnValidate at h
  simp only [Bool.and_eq_true, decide_eq_true_eq] at h
  have : (0 : Int) ≤ (BridgeConsts.burnGasCost : Int) := Int.natCast_nonneg _
  exact ⟨by omega, h.1.1.1.2⟩

end Sif.EthBridge
