import Sif.Spec.C17
/-
  Helper lemmas for C17: the per-step preservation lemmas behind the trace theorems.
-/
set_option linter.unusedSimpArgs false
namespace Sif.Proofs.C17
open Sif.Relayer.Loop Sif.Spec.C17

/-! ### traces of `run` -/

theorem run_nil (t : Nat) (s : St) : run t s [] = (s, []) := rfl

theorem run_cons (t : Nat) (s : St) (i : In) (is : List In) :
    run t s (i :: is) = ((run t (step t s i).1 is).1, (step t s i).2 ++ (run t (step t s i).1 is).2) := rfl

/-! ### the observer accepts every step -/

theorem observeAll_append (t : Nat) (o : Obs) (a b : List Ev) :
    observeAll t o (a ++ b) = (observeAll t o a).bind (fun o' => observeAll t o' b) := by
  induction a generalizing o with
  | nil => rfl
  | cons e es ih =>
    simp only [List.cons_append, observeAll]
    cases observe t o e with
    | none => rfl
    | some o' => exact ih o'

/-- the observer's state agrees with the model's, between iterations -/
def Agree (s : St) (o : Obs) : Prop :=
  o.c = s.mem ∧ o.mh = s.maxHead ∧ o.db = s.persisted ∧ o.pending = none ∧ o.handled = false

theorem restart_observe (t : Nat) (s : St) (o : Obs)
    (hc : o.mh = s.maxHead) (hd : o.db = s.persisted) :
    ∃ o', observeAll t o (restart s).2 = some o' ∧ Agree (restart s).1 o' := by
  refine ⟨{ o with c := s.persisted, pending := none, handled := false }, ?_, ?_⟩
  · simp [restart, observeAll, observe, hd]
  · simp [restart, Agree, hc, hd]

theorem iter_observe (t : Nat) (s : St) (o : Obs) (n : Nat) (oc : Outcome) (h : Agree s o) :
    ∃ o', observeAll t o (iter t s n oc).2 = some o' ∧ Agree (iter t s n oc).1 o' := by
  obtain ⟨hc, hm, hd, hp, hh⟩ := h
  obtain ⟨oc0, omh, odb, opend, ohand⟩ := o
  simp only at hc hm hd hp hh
  subst hc hm hd hp hh
  unfold iter
  by_cases hn : n < t
  · simp only [hn, if_true]
    cases oc <;> simp [skip, restart, observeAll, observe, Agree]
  · simp only [hn, if_false]
    have hle : n - t + t ≤ max s.maxHead n := by omega
    by_cases hz : s.mem = 0
    · cases oc with
      | done => simp [body, cursorFor, hz, observeAll, observe, Agree, hle]
      | queryFail => simp [body, cursorFor, hz, observeAll, observe, Agree, hle]
      | crash c => cases c <;> simp [body, cursorFor, hz, restart, observeAll, observe, Agree, hle]
    · cases oc with
      | done => simp [body, cursorFor, hz, observeAll, observe, Agree, hle]
      | queryFail => simp [body, cursorFor, hz, observeAll, observe, Agree, hle]
      | crash c => cases c <;> simp [body, cursorFor, hz, restart, observeAll, observe, Agree, hle]

theorem step_observe (t : Nat) (s : St) (o : Obs) (i : In) (h : Agree s o) :
    ∃ o', observeAll t o (step t s i).2 = some o' ∧ Agree (step t s i).1 o' := by
  cases i with
  | head n oc => exact iter_observe t s o n oc h
  | crashIdle => exact restart_observe t s o h.2.1 h.2.2.1

theorem run_observe (t : Nat) (ins : List In) (s : St) (o : Obs) (h : Agree s o) :
    ∃ o', observeAll t o (run t s ins).2 = some o' ∧ Agree (run t s ins).1 o' := by
  induction ins generalizing s o with
  | nil => exact ⟨o, rfl, h⟩
  | cons i is ih =>
    obtain ⟨o1, h1, a1⟩ := step_observe t s o i h
    obtain ⟨o2, h2, a2⟩ := ih (step t s i).1 o1 a1
    refine ⟨o2, ?_, ?_⟩
    · rw [run_cons]; simp only []; rw [observeAll_append, h1]; exact h2
    · rw [run_cons]; exact a2

/-! ### confirmation depth -/

/-- every submission so far is `t` blocks behind the newest header seen -/
def Confirmed (t : Nat) (s : St) (tr : List Ev) : Prop :=
  ∀ lo hi, Ev.submit lo hi ∈ tr → hi + t ≤ s.maxHead

theorem step_maxHead_mono (t : Nat) (s : St) (i : In) : s.maxHead ≤ (step t s i).1.maxHead := by
  cases i with
  | crashIdle => simp [step, restart]
  | head n oc =>
    simp only [step, iter]
    by_cases hn : n < t
    · simp only [hn, if_true]; cases oc <;> simp [skip, restart] <;> omega
    · simp only [hn, if_false]
      cases oc with
      | done => simp [body]; omega
      | queryFail => simp [body]; omega
      | crash c => cases c <;> simp [body, restart] <;> omega

theorem step_submit_confirmed (t : Nat) (s : St) (i : In) (lo hi : Nat)
    (h : Ev.submit lo hi ∈ (step t s i).2) : hi + t ≤ (step t s i).1.maxHead := by
  cases i with
  | crashIdle => simp [step, restart] at h
  | head n oc =>
    simp only [step, iter] at h ⊢
    by_cases hn : n < t
    · simp only [hn, if_true] at h ⊢
      cases oc <;> simp [skip, restart] at h
    · simp only [hn, if_false] at h ⊢
      cases oc with
      | done => simp [body] at h ⊢; omega
      | queryFail => simp [body] at h
      | crash c => cases c <;> simp [body, restart] at h ⊢ <;> omega

theorem run_maxHead_mono (t : Nat) (ins : List In) (s : St) : s.maxHead ≤ (run t s ins).1.maxHead := by
  induction ins generalizing s with
  | nil => exact Nat.le_refl _
  | cons i is ih =>
    rw [run_cons]
    exact Nat.le_trans (step_maxHead_mono t s i) (ih _)

theorem run_confirmed (t : Nat) (ins : List In) (s : St) :
    Confirmed t (run t s ins).1 (run t s ins).2 := by
  induction ins generalizing s with
  | nil => intro lo hi h; simp [run_nil] at h
  | cons i is ih =>
    intro lo hi h
    rw [run_cons] at h ⊢
    simp only [List.mem_append] at h
    cases h with
    | inl h1 =>
      exact Nat.le_trans (step_submit_confirmed t s i lo hi h1) (run_maxHead_mono t is _)
    | inr h2 => exact ih _ lo hi h2

/-! ### no gap -/

theorem covered_append (a b : List Ev) (x : Nat) : covered (a ++ b) x = (covered a x || covered b x) := by
  simp [covered, List.any_append]

theorem covered_mono (a b : List Ev) (x : Nat) (h : covered a x = true) : covered (a ++ b) x = true := by
  rw [covered_append, h]; rfl

/-- invariant behind `no_gap_across_crashes`: `k` is the cursor bookkeeping read off the trace `tr` -/
structure GapInv (s : St) (k : Cur) (tr : List Ev) : Prop where
  db : k.db = s.persisted
  c : k.c = s.mem
  fresh : s.persisted = 0 → (s.mem = 0 ∨ s.mem = k.first)
  agree : s.persisted ≠ 0 → s.mem = s.persisted
  cov : s.persisted ≠ 0 → ∀ b, k.first ≤ b → b < s.persisted → covered tr b = true

theorem restart_gap (s : St) (k : Cur) (tr : List Ev) (h : GapInv s k tr) :
    GapInv (restart s).1 ((restart s).2.foldl curStep k) (tr ++ (restart s).2) := by
  obtain ⟨hdb, hc, hf, ha, hcov⟩ := h
  refine ⟨?_, ?_, ?_, ?_, ?_⟩
  · simp [restart, curStep, hdb]
  · simp [restart, curStep]
  · intro hp; simp [restart] at hp ⊢; left; exact hp
  · intro _; simp [restart]
  · intro hp b hb1 hb2
    simp [restart, curStep] at hp hb1 hb2
    exact covered_mono _ _ _ (hcov hp b hb1 hb2)

theorem covered_submit (lo hi b : Nat) (pre post : List Ev) (h1 : lo ≤ b) (h2 : b ≤ hi) :
    covered (pre ++ (Ev.submit lo hi :: post)) b = true := by
  simp [covered, List.any_append, h1, h2]

/-- skipping iteration -/
theorem skip_gap (s1 : St) (k : Cur) (tr : List Ev) (n : Nat) (oc : Outcome) (h : GapInv s1 k tr) :
    GapInv (skip s1 n oc).1 ((skip s1 n oc).2.foldl curStep k) (tr ++ (skip s1 n oc).2) := by
  cases oc with
  | done => exact ⟨h.db, h.c, h.fresh, h.agree, fun hp b h1 h2 => covered_mono _ _ _ (h.cov hp b h1 h2)⟩
  | queryFail => exact ⟨h.db, h.c, h.fresh, h.agree, fun hp b h1 h2 => covered_mono _ _ _ (h.cov hp b h1 h2)⟩
  | crash c =>
    have := restart_gap s1 k tr h
    refine ⟨by simpa [skip, restart, curStep] using this.db, by simp [skip, restart, curStep], ?_, ?_, ?_⟩
    · intro hp; left; simpa [skip, restart] using hp
    · intro _; simp [skip, restart]
    · intro hp b h1 h2
      simp [skip, restart, curStep] at hp h1 h2
      exact covered_mono _ _ _ (h.cov hp b h1 h2)

theorem maxHead_gap (s : St) (k : Cur) (tr : List Ev) (mh : Nat) (h : GapInv s k tr) :
    GapInv { s with maxHead := mh } k tr := ⟨h.db, h.c, h.fresh, h.agree, h.cov⟩
theorem body_gap_B (s2 : St) (k : Cur) (tr : List Ev) (n e : Nat) (oc : Outcome)
    (h : GapInv s2 k tr) (hz : s2.mem ≠ 0) :
    GapInv (body s2 n s2.mem e oc).1 ((body s2 n s2.mem e oc).2.foldl curStep k) (tr ++ (body s2 n s2.mem e oc).2) := by
  have hkc : k.c ≠ 0 := by rw [h.c]; exact hz
  -- coverage of a block below the new cursor e+1, once [mem, e] has been submitted
  have newcov : ∀ (post : List Ev) (b : Nat), k.first ≤ b → b < e + 1 →
      covered (tr ++ ([Ev.head n, Ev.query s2.mem e true] ++ (Ev.submit s2.mem e :: post))) b = true := by
    intro post b h1 h2
    by_cases hp : s2.persisted = 0
    · have hm : s2.mem = k.first := by
        cases h.fresh hp with
        | inl h0 => exact absurd h0 hz
        | inr h1' => exact h1'
      rw [← List.append_assoc]
      exact covered_submit _ _ _ _ _ (by omega) (by omega)
    · have hm : s2.mem = s2.persisted := h.agree hp
      by_cases hb : b < s2.persisted
      · exact covered_mono _ _ _ (h.cov hp b h1 hb)
      · rw [← List.append_assoc]
        exact covered_submit _ _ _ _ _ (by omega) (by omega)
  have oldcov : ∀ (x : List Ev), s2.persisted ≠ 0 → ∀ b, k.first ≤ b → b < s2.persisted → covered (tr ++ x) b = true :=
    fun x hp b h1 h2 => covered_mono _ _ _ (h.cov hp b h1 h2)
  cases oc with
  | done =>
    refine ⟨by simp [body, curStep, hkc], by simp [body, curStep, hkc], ?_, ?_, ?_⟩
    · intro hp; simp [body] at hp
    · intro _; simp [body]
    · intro _ b h1 h2
      simp [body, curStep, hkc] at h1 h2
      simpa [body] using newcov [Ev.put (e + 1)] b h1 h2
  | queryFail =>
    refine ⟨by simpa [body, curStep, hkc] using h.db, by simpa [body, curStep, hkc] using h.c, ?_, ?_, ?_⟩
    · intro hp; simp [body, curStep, hkc] at hp ⊢; exact h.fresh hp
    · intro hp; simp [body] at hp ⊢; exact h.agree hp
    · intro hp b h1 h2
      simp [body, curStep, hkc] at hp h1 h2
      exact oldcov _ hp b h1 h2
  | crash c =>
    cases c with
    | afterPut =>
      refine ⟨by simp [body, restart, curStep, hkc], by simp [body, restart, curStep, hkc], ?_, ?_, ?_⟩
      · intro hp; simp [body, restart] at hp
      · intro _; simp [body, restart]
      · intro _ b h1 h2
        simp [body, restart, curStep, hkc] at h1 h2
        simpa [body, restart] using newcov [Ev.put (e + 1), Ev.restart (e + 1)] b h1 h2
    | beforeQuery =>
      refine ⟨by simpa [body, restart, curStep, hkc] using h.db, by simp [body, restart, curStep, hkc], ?_, ?_, ?_⟩
      · intro hp; left; simpa [body, restart] using hp
      · intro _; simp [body, restart]
      · intro hp b h1 h2
        simp [body, restart, curStep, hkc] at hp h1 h2
        exact oldcov _ hp b h1 h2
    | afterQuery =>
      refine ⟨by simpa [body, restart, curStep, hkc] using h.db, by simp [body, restart, curStep, hkc], ?_, ?_, ?_⟩
      · intro hp; left; simpa [body, restart] using hp
      · intro _; simp [body, restart]
      · intro hp b h1 h2
        simp [body, restart, curStep, hkc] at hp h1 h2
        exact oldcov _ hp b h1 h2
    | beforeSubmit =>
      refine ⟨by simpa [body, restart, curStep, hkc] using h.db, by simp [body, restart, curStep, hkc], ?_, ?_, ?_⟩
      · intro hp; left; simpa [body, restart] using hp
      · intro _; simp [body, restart]
      · intro hp b h1 h2
        simp [body, restart, curStep, hkc] at hp h1 h2
        exact oldcov _ hp b h1 h2
    | afterSubmit =>
      refine ⟨by simpa [body, restart, curStep, hkc] using h.db, by simp [body, restart, curStep, hkc], ?_, ?_, ?_⟩
      · intro hp; left; simpa [body, restart] using hp
      · intro _; simp [body, restart]
      · intro hp b h1 h2
        simp [body, restart, curStep, hkc] at hp h1 h2
        exact oldcov _ hp b h1 h2
    | beforePut =>
      refine ⟨by simpa [body, restart, curStep, hkc] using h.db, by simp [body, restart, curStep, hkc], ?_, ?_, ?_⟩
      · intro hp; left; simpa [body, restart] using hp
      · intro _; simp [body, restart]
      · intro hp b h1 h2
        simp [body, restart, curStep, hkc] at hp h1 h2
        exact oldcov _ hp b h1 h2
/-- fresh cursor: nothing persisted, the in-memory cursor has just been set to `e` -/
theorem body_gap_A (s2 : St) (k : Cur) (tr : List Ev) (n e : Nat) (oc : Outcome)
    (hp0 : s2.persisted = 0) (hm : s2.mem = e) (hkc : k.c = 0) (hkdb : k.db = 0) :
    GapInv (body s2 n e e oc).1 ((body s2 n e e oc).2.foldl curStep k) (tr ++ (body s2 n e e oc).2) := by
  have newcov : ∀ (post : List Ev) (b : Nat), e ≤ b → b < e + 1 →
      covered (tr ++ ([Ev.head n, Ev.query e e true] ++ (Ev.submit e e :: post))) b = true := by
    intro post b h1 h2
    rw [← List.append_assoc]
    exact covered_submit _ _ _ _ _ h1 (by omega)
  cases oc with
  | done =>
    refine ⟨by simp [body, curStep, hkc], by simp [body, curStep, hkc], ?_, ?_, ?_⟩
    · intro hp; simp [body] at hp
    · intro _; simp [body]
    · intro _ b h1 h2
      simp [body, curStep, hkc] at h1 h2
      simpa [body] using newcov [Ev.put (e + 1)] b h1 h2
  | queryFail =>
    refine ⟨by simp [body, curStep, hkc, hkdb, hp0], by simp [body, curStep, hkc, hm], ?_, ?_, ?_⟩
    · intro _; right; simp [body, curStep, hkc, hm]
    · intro hp; simp [body, hp0] at hp
    · intro hp; simp [body, hp0] at hp
  | crash c =>
    cases c with
    | afterPut =>
      refine ⟨by simp [body, restart, curStep, hkc], by simp [body, restart, curStep, hkc], ?_, ?_, ?_⟩
      · intro hp; simp [body, restart] at hp
      · intro _; simp [body, restart]
      · intro _ b h1 h2
        simp [body, restart, curStep, hkc] at h1 h2
        simpa [body, restart] using newcov [Ev.put (e + 1), Ev.restart (e + 1)] b h1 h2
    | beforeQuery =>
      refine ⟨by simp [body, restart, curStep, hkdb, hp0], by simp [body, restart, curStep, hp0], ?_, ?_, ?_⟩
      · intro _; left; simp [body, restart, hp0]
      · intro hp; simp [body, restart, hp0] at hp
      · intro hp; simp [body, restart, hp0] at hp
    | afterQuery =>
      refine ⟨by simp [body, restart, curStep, hkc, hkdb, hp0], by simp [body, restart, curStep, hkc, hp0], ?_, ?_, ?_⟩
      · intro _; left; simp [body, restart, hp0]
      · intro hp; simp [body, restart, hp0] at hp
      · intro hp; simp [body, restart, hp0] at hp
    | beforeSubmit =>
      refine ⟨by simp [body, restart, curStep, hkc, hkdb, hp0], by simp [body, restart, curStep, hkc, hp0], ?_, ?_, ?_⟩
      · intro _; left; simp [body, restart, hp0]
      · intro hp; simp [body, restart, hp0] at hp
      · intro hp; simp [body, restart, hp0] at hp
    | afterSubmit =>
      refine ⟨by simp [body, restart, curStep, hkc, hkdb, hp0], by simp [body, restart, curStep, hkc, hp0], ?_, ?_, ?_⟩
      · intro _; left; simp [body, restart, hp0]
      · intro hp; simp [body, restart, hp0] at hp
      · intro hp; simp [body, restart, hp0] at hp
    | beforePut =>
      refine ⟨by simp [body, restart, curStep, hkc, hkdb, hp0], by simp [body, restart, curStep, hkc, hp0], ?_, ?_, ?_⟩
      · intro _; left; simp [body, restart, hp0]
      · intro hp; simp [body, restart, hp0] at hp
      · intro hp; simp [body, restart, hp0] at hp

theorem iter_gap (t : Nat) (s : St) (k : Cur) (tr : List Ev) (n : Nat) (oc : Outcome) (h : GapInv s k tr) :
    GapInv (iter t s n oc).1 ((iter t s n oc).2.foldl curStep k) (tr ++ (iter t s n oc).2) := by
  unfold iter
  by_cases hn : n < t
  · simp only [hn, if_true]
    exact skip_gap _ k tr n oc (maxHead_gap s k tr _ h)
  · simp only [hn, if_false]
    by_cases hz : s.mem = 0
    · have hp0 : s.persisted = 0 := by
        by_cases hp : s.persisted = 0
        · exact hp
        · have := h.agree hp; omega
      have hc : cursorFor s (n - t) = n - t := by simp [cursorFor, hz]
      rw [hc]
      exact body_gap_A _ k tr n (n - t) oc hp0 rfl (by rw [h.c]; exact hz) (by rw [h.db]; exact hp0)
    · have hc : cursorFor s (n - t) = s.mem := by simp [cursorFor, hz]
      rw [hc]
      exact body_gap_B { s with maxHead := max s.maxHead n, mem := s.mem } k tr n (n - t) oc
        ⟨h.db, h.c, h.fresh, h.agree, h.cov⟩ hz

theorem step_gap (t : Nat) (s : St) (k : Cur) (tr : List Ev) (i : In) (h : GapInv s k tr) :
    GapInv (step t s i).1 ((step t s i).2.foldl curStep k) (tr ++ (step t s i).2) := by
  cases i with
  | head n oc => exact iter_gap t s k tr n oc h
  | crashIdle => exact restart_gap s k tr h

theorem run_gap (t : Nat) (ins : List In) (s : St) (k : Cur) (tr : List Ev) (h : GapInv s k tr) :
    GapInv (run t s ins).1 ((run t s ins).2.foldl curStep k) (tr ++ (run t s ins).2) := by
  induction ins generalizing s k tr with
  | nil => simpa [run_nil] using h
  | cons i is ih =>
    have h1 := step_gap t s k tr i h
    have h2 := ih _ _ _ h1
    rw [run_cons]
    simpa [List.foldl_append, List.append_assoc] using h2

theorem init_gap (p : Nat) : GapInv (init p) { db := p, c := p, first := p } [] := by
  refine ⟨rfl, rfl, ?_, ?_, ?_⟩
  · intro hp; left; simpa [init] using hp
  · intro _; rfl
  · intro _ b h1 h2; simp [init] at h1 h2; omega

/-! ### from range-level traces to event-level observations -/

theorem mem_noncesIn (place : List (Nat × Nat)) (lo hi n : Nat) :
    n ∈ noncesIn place lo hi ↔ ∃ nb, nb ∈ place ∧ nb.1 = n ∧ lo ≤ nb.2 ∧ nb.2 ≤ hi := by
  unfold noncesIn
  rw [List.mem_mergeSort]
  simp only [List.mem_map, List.mem_filter, Bool.and_eq_true, decide_eq_true_eq]
  constructor
  · rintro ⟨nb, ⟨hm, h1, h2⟩, rfl⟩; exact ⟨nb, hm, rfl, h1, h2⟩
  · rintro ⟨nb, hm, rfl, h1, h2⟩; exact ⟨nb, ⟨hm, h1, h2⟩, rfl⟩

theorem noncesIn_placed (place : List (Nat × Nat)) (lo hi : Nat) :
    (noncesIn place lo hi).all (placedIn place lo hi) = true := by
  rw [List.all_eq_true]
  intro n hn
  obtain ⟨nb, hm, rfl, h1, h2⟩ := (mem_noncesIn place lo hi n).1 hn
  unfold placedIn
  rw [List.any_eq_true]
  exact ⟨nb, hm, by simp [h1, h2]⟩

/-- simulation relation between the range-level observer and the event-level observer -/
def Rel (place : List (Nat × Nat)) (o : Obs) (r : RObs) : Prop :=
  o.c = r.c ∧ o.mh = r.mh ∧ o.db = r.db ∧
  (o.pending = none ∨
    (o.pending = r.pending ∧
      (o.handled = true → ∀ lo hi, r.pending = some (lo, hi) →
        ∀ nb, nb ∈ place → lo ≤ nb.2 → nb.2 ≤ hi → nb.1 ∈ r.sent)))

theorem observeRawAll_append (t : Nat) (place : List (Nat × Nat)) (r : RObs) (a b : List Raw) :
    observeRawAll t place r (a ++ b) = (observeRawAll t place r a).bind (fun r' => observeRawAll t place r' b) := by
  induction a generalizing r with
  | nil => rfl
  | cons e es ih =>
    simp only [List.cons_append, observeRawAll]
    cases observeRaw t place r e with
    | none => rfl
    | some r' => exact ih r'

theorem observe_sim (t : Nat) (place : List (Nat × Nat)) (o o' : Obs) (r : RObs) (e : Ev)
    (h : observe t o e = some o') (hr : Rel place o r) :
    ∃ r', observeRawAll t place r (lowerEv place e) = some r' ∧ Rel place o' r' := by
  obtain ⟨hc, hm, hd, hp⟩ := hr
  cases e with
  | head n =>
    simp only [observe] at h; cases h
    exact ⟨{ r with mh := max r.mh n, pending := none, sent := [] },
      by simp [lowerEv, observeRawAll, observeRaw], by simp [Rel, hc, hm, hd]⟩
  | restart p =>
    simp only [observe] at h
    by_cases hpd : p = o.db
    · simp only [hpd, if_true] at h; cases h
      refine ⟨{ r with c := r.db, pending := none, sent := [] }, ?_, ?_⟩
      · simp [lowerEv, observeRawAll, observeRaw, hpd, hd]
      · simp [Rel, hm, hd]
    · simp [hpd] at h
  | query lo hi ok =>
    simp only [observe] at h
    have key : ∀ (cnd : Bool), (if cnd = true then some ({ o with c := lo, pending := if ok then some (lo, hi) else none, handled := false } : Obs) else none) = some o' →
        cnd = true ∧ o' = { o with c := lo, pending := if ok then some (lo, hi) else none, handled := false } := by
      intro cnd hh; cases cnd <;> simp at hh ⊢; exact hh.symm
    by_cases hz : o.c = 0
    · simp only [hz, if_true] at h
      obtain ⟨hcond, rfl⟩ := key _ h
      simp only [Bool.and_eq_true, decide_eq_true_eq] at hcond
      refine ⟨{ r with c := lo, pending := if ok then some (lo, hi) else none, sent := [] }, ?_, ?_⟩
      · have hz' : r.c = 0 := by rw [← hc]; exact hz
        have h1 : hi + t ≤ r.mh := by rw [← hm]; exact hcond.1
        simp [lowerEv, observeRawAll, observeRaw, hz', h1, hcond.2]
      · exact ⟨rfl, hm, hd, Or.inr ⟨rfl, by intro hh; simp at hh⟩⟩
    · simp only [hz, if_false] at h
      obtain ⟨hcond, rfl⟩ := key _ h
      simp only [Bool.and_eq_true, decide_eq_true_eq] at hcond
      refine ⟨{ r with c := lo, pending := if ok then some (lo, hi) else none, sent := [] }, ?_, ?_⟩
      · have hz' : ¬ r.c = 0 := by rw [← hc]; exact hz
        have h1 : hi + t ≤ r.mh := by rw [← hm]; exact hcond.1
        have h2 : lo = r.c := by rw [← hc]; exact hcond.2
        simp [lowerEv, observeRawAll, observeRaw, hz', h1, h2]
      · exact ⟨rfl, hm, hd, Or.inr ⟨rfl, by intro hh; simp at hh⟩⟩
  | submit lo hi =>
    simp only [observe] at h
    split at h
    · rename_i hcond
      cases h
      simp only [Bool.and_eq_true, decide_eq_true_eq] at hcond
      obtain ⟨hpend, _⟩ := hcond
      have hrp : r.pending = some (lo, hi) := by
        cases hp with
        | inl hn => rw [hn] at hpend; cases hpend
        | inr hq => rw [← hq.1]; exact hpend
      by_cases hempty : noncesIn place lo hi = []
      · refine ⟨r, by simp [lowerEv, hempty, observeRawAll], hc, hm, hd, ?_⟩
        right
        refine ⟨by simpa using hpend.trans hrp.symm, ?_⟩
        intro _ lo' hi' hq nb hnb h1 h2
        rw [hrp] at hq; cases hq
        have : nb.1 ∈ noncesIn place lo hi := (mem_noncesIn place lo hi nb.1).2 ⟨nb, hnb, rfl, h1, h2⟩
        rw [hempty] at this; cases this
      · refine ⟨{ r with sent := noncesIn place lo hi ++ r.sent }, ?_, hc, hm, hd, ?_⟩
        · simp [lowerEv, hempty, observeRawAll, observeRaw, hrp, noncesIn_placed]
        · right
          refine ⟨by simpa using hpend.trans hrp.symm, ?_⟩
          intro _ lo' hi' hq nb hnb h1 h2
          simp only at hq
          rw [hrp] at hq; cases hq
          exact List.mem_append_left _ ((mem_noncesIn place lo hi nb.1).2 ⟨nb, hnb, rfl, h1, h2⟩)
    · cases h
  | put v =>
    simp only [observe] at h
    cases hpe : o.pending with
    | none => simp [hpe] at h
    | some lh =>
      obtain ⟨lo, hi⟩ := lh
      simp only [hpe] at h
      split at h
      · rename_i hcond
        cases h
        simp only [Bool.and_eq_true, decide_eq_true_eq] at hcond
        obtain ⟨hh, hv⟩ := hcond
        have hq : o.pending = r.pending ∧ (o.handled = true → ∀ lo hi, r.pending = some (lo, hi) →
            ∀ nb, nb ∈ place → lo ≤ nb.2 → nb.2 ≤ hi → nb.1 ∈ r.sent) := by
          cases hp with
          | inl hn => rw [hn] at hpe; cases hpe
          | inr hq => exact hq
        have hrp : r.pending = some (lo, hi) := by rw [← hq.1]; exact hpe
        refine ⟨{ r with db := v, c := v }, ?_, by simp [Rel, hm]⟩
        have hall : allSentBelow place r.sent lo v = true := by
          unfold allSentBelow
          rw [List.all_eq_true]
          intro nb hnb
          by_cases hin : lo ≤ nb.2 ∧ nb.2 < v
          · have := hq.2 hh lo hi hrp nb hnb hin.1 (by omega)
            simp [hin.1, hin.2, this]
          · have : (decide (lo ≤ nb.2) && decide (nb.2 < v)) = false := by
              simp only [Bool.and_eq_false_iff, decide_eq_false_iff_not]
              by_cases h1 : lo ≤ nb.2
              · right; intro h2; exact hin ⟨h1, h2⟩
              · left; exact h1
            simp [this]
        have hle : v ≤ hi + 1 := by omega
        simp [lowerEv, observeRawAll, observeRaw, hrp, hall, hle]
      · cases h

theorem observeAll_sim (t : Nat) (place : List (Nat × Nat)) (tr : List Ev) (o o' : Obs) (r : RObs)
    (h : observeAll t o tr = some o') (hr : Rel place o r) :
    ∃ r', observeRawAll t place r (lower place tr) = some r' ∧ Rel place o' r' := by
  induction tr generalizing o r with
  | nil => simp only [observeAll] at h; cases h; exact ⟨r, rfl, hr⟩
  | cons e es ih =>
    simp only [observeAll] at h
    cases he : observe t o e with
    | none => simp [he] at h
    | some o1 =>
      simp only [he] at h
      obtain ⟨r1, h1, hr1⟩ := observe_sim t place o o1 r e he hr
      obtain ⟨r2, h2, hr2⟩ := ih o1 r1 h hr1
      refine ⟨r2, ?_, hr2⟩
      simp only [lower, List.flatMap_cons]
      rw [observeRawAll_append, h1]
      exact h2

/-! ### cursor bookkeeping and coverage carry over to the event level -/

theorem rawCurStep_lower (place : List (Nat × Nat)) (k : Cur) (e : Ev) :
    (lowerEv place e).foldl rawCurStep k = curStep k e := by
  cases e with
  | submit lo hi => by_cases h : noncesIn place lo hi = [] <;> simp [lowerEv, h, rawCurStep, curStep]
  | head n => simp [lowerEv, rawCurStep, curStep]
  | query lo hi ok => simp [lowerEv, rawCurStep, curStep]
  | put v => simp [lowerEv, rawCurStep, curStep]
  | restart p => simp [lowerEv, rawCurStep, curStep]

theorem rawCurOf_lower (place : List (Nat × Nat)) (tr : List Ev) (k : Cur) :
    (lower place tr).foldl rawCurStep k = tr.foldl curStep k := by
  induction tr generalizing k with
  | nil => rfl
  | cons e es ih =>
    simp only [lower, List.flatMap_cons, List.foldl_append, List.foldl_cons]
    rw [rawCurStep_lower]
    exact ih _

theorem covered_claims (place : List (Nat × Nat)) (tr : List Ev) (nb : Nat × Nat) (hnb : nb ∈ place)
    (h : covered tr nb.2 = true) : nb.1 ∈ allClaims (lower place tr) := by
  unfold covered at h
  rw [List.any_eq_true] at h
  obtain ⟨e, he, hc⟩ := h
  cases e with
  | submit lo hi =>
    simp only [Bool.and_eq_true, decide_eq_true_eq] at hc
    have hmem : nb.1 ∈ noncesIn place lo hi := (mem_noncesIn place lo hi nb.1).2 ⟨nb, hnb, rfl, hc.1, hc.2⟩
    have hne : noncesIn place lo hi ≠ [] := by intro h0; rw [h0] at hmem; cases hmem
    unfold allClaims lower
    rw [List.mem_flatMap]
    refine ⟨Raw.claims (noncesIn place lo hi), ?_, hmem⟩
    rw [List.mem_flatMap]
    exact ⟨Ev.submit lo hi, he, by simp [lowerEv, hne]⟩
  | head n => simp at hc
  | query lo hi ok => simp at hc
  | put v => simp at hc
  | restart p => simp at hc


end Sif.Proofs.C17
