import Sif.Num.Basic
import Sif.Proofs.Except
import Mathlib.Tactic.Linarith
import Mathlib.Tactic.Positivity
import Mathlib.Tactic.Ring
import Mathlib.Tactic.FieldSimp
import Mathlib.Algebra.Order.Field.Basic
/-
  Rounding-error bounds of `sdk.Dec` arithmetic on non-negative values (banker's rounding at 18
  decimals), in the rationals.
-/
namespace Sif.Dec

theorem P_pos : 0 < P := by unfold P; decide
theorem P_val : P = 1000000000000000000 := by unfold P; rfl
theorem half_val : half = 500000000000000000 := by unfold half; rfl

/-- banker's rounding of n / 10^18 is within half a unit -/
theorem chopRoundNat_bounds (n : Nat) :
    2 * n ≤ 2 * (chopRoundNat n * P) + P ∧ 2 * (chopRoundNat n * P) ≤ 2 * n + P := by
  unfold chopRoundNat
  simp only [P_val, half_val]
  split
  · omega
  · split
    · omega
    · split <;> omega

theorem chopRound_nonneg_eq {i : Int} (h : 0 ≤ i) : chopRound i = (chopRoundNat i.toNat : Int) := by
  unfold chopRound
  have : ¬ i < 0 := by omega
  simp only [this, if_false]
  have : i.natAbs = i.toNat := by omega
  rw [this]

/-- in ℚ: |chopRoundNat n − n / P| ≤ 1/2 -/
theorem chopRoundNat_err (n : Nat) :
    ((chopRoundNat n : Nat) : ℚ) ≤ (n : ℚ) / P + 1 / 2 ∧ (n : ℚ) / P - 1 / 2 ≤ ((chopRoundNat n : Nat) : ℚ) := by
  obtain ⟨h1, h2⟩ := chopRoundNat_bounds n
  have hp : (0 : ℚ) < (P : ℚ) := by exact_mod_cast P_pos
  have h1' : (2 : ℚ) * n ≤ 2 * (chopRoundNat n * P) + P := by exact_mod_cast h1
  have h2' : (2 : ℚ) * (chopRoundNat n * P) ≤ 2 * n + P := by exact_mod_cast h2
  have e : (n : ℚ) / P * P = n := div_mul_cancel₀ _ (ne_of_gt hp)
  constructor
  · by_contra hc
    push_neg at hc
    have := mul_lt_mul_of_pos_right hc hp
    nlinarith
  · by_contra hc
    push_neg at hc
    have := mul_lt_mul_of_pos_right hc hp
    nlinarith

end Sif.Dec

namespace Sif.Dec

theorem chk_ok {i : Int} {d : Dec} (h : chk i = .ok d) : d.i = i := by
  unfold chk at h
  split at h
  · cases h; rfl
  · cases h

/-- `Mul` on non-negative decimals: the raw result is within 1/2 of a.i·b.i/10^18 -/
theorem mul_err {a b c : Dec} (ha : 0 ≤ a.i) (hb : 0 ≤ b.i) (h : a.mul b = .ok c) :
    0 ≤ c.i ∧ (c.i : ℚ) ≤ (a.i : ℚ) * b.i / P + 1 / 2 ∧ (a.i : ℚ) * b.i / P - 1 / 2 ≤ (c.i : ℚ) := by
  unfold mul at h
  have hc := chk_ok h
  have hab : 0 ≤ a.i * b.i := Int.mul_nonneg ha hb
  rw [chopRound_nonneg_eq hab] at hc
  obtain ⟨e1, e2⟩ := chopRoundNat_err (a.i * b.i).toNat
  have hcast : (((a.i * b.i).toNat : Nat) : ℚ) = (a.i : ℚ) * b.i := by
    have : (((a.i * b.i).toNat : Nat) : Int) = a.i * b.i := Int.toNat_of_nonneg hab
    exact_mod_cast congrArg (fun z : Int => (z : ℚ)) this
  rw [hcast] at e1 e2
  have hci : (c.i : ℚ) = ((chopRoundNat (a.i * b.i).toNat : Nat) : ℚ) := by rw [hc]; simp
  refine ⟨by rw [hc]; exact Int.natCast_nonneg _, by rw [hci]; exact e1, by rw [hci]; exact e2⟩

/-- `Quo` on a non-negative numerator and positive denominator: within 1/2 + 10^-18 of a.i·10^18/b.i -/
theorem quo_err {a b c : Dec} (ha : 0 ≤ a.i) (hb : 0 < b.i) (h : a.quo b = .ok c) :
    0 ≤ c.i ∧ (c.i : ℚ) ≤ (a.i : ℚ) * P / b.i + 1 / 2 ∧ (a.i : ℚ) * P / b.i - 1 / 2 - 1 / P ≤ (c.i : ℚ) := by
  unfold quo at h
  have hb0 : b.i ≠ 0 := by omega
  simp only [hb0, if_false] at h
  have hc := chk_ok h
  have hn : 0 ≤ a.i * P * P := by
    have : (0 : Int) ≤ (P : Int) := Int.natCast_nonneg _
    exact Int.mul_nonneg (Int.mul_nonneg ha this) this
  have hq : 0 ≤ Int.tdiv (a.i * P * P) b.i := Int.tdiv_nonneg hn (by omega)
  rw [chopRound_nonneg_eq hq] at hc
  obtain ⟨e1, e2⟩ := chopRoundNat_err (Int.tdiv (a.i * P * P) b.i).toNat
  have hcast : (((Int.tdiv (a.i * P * P) b.i).toNat : Nat) : ℚ) = ((Int.tdiv (a.i * P * P) b.i : Int) : ℚ) := by
    have : (((Int.tdiv (a.i * P * P) b.i).toNat : Nat) : Int) = Int.tdiv (a.i * P * P) b.i := Int.toNat_of_nonneg hq
    exact_mod_cast congrArg (fun z : Int => (z : ℚ)) this
  rw [hcast] at e1 e2
  -- floor bounds of the truncated division
  have hdiv : Int.tdiv (a.i * P * P) b.i = (a.i * P * P) / b.i := Int.tdiv_eq_ediv_of_nonneg hn
  have hbq : (0 : ℚ) < (b.i : ℚ) := by exact_mod_cast hb
  have hp : (0 : ℚ) < (P : ℚ) := by exact_mod_cast P_pos
  have f1 : (((a.i * P * P) / b.i : Int) : ℚ) ≤ ((a.i : ℚ) * P * P) / b.i := by
    rw [le_div_iff₀ hbq]
    have := Int.ediv_mul_le (a.i * P * P) hb0
    exact_mod_cast this
  have f2 : ((a.i : ℚ) * P * P) / b.i < (((a.i * P * P) / b.i : Int) : ℚ) + 1 := by
    rw [div_lt_iff₀ hbq]
    have := Int.lt_ediv_add_one_mul_self (a.i * P * P) hb
    have h2 : ((a.i * P * P : Int) : ℚ) < (((a.i * P * P) / b.i + 1 : Int) : ℚ) * (b.i : ℚ) := by exact_mod_cast this
    push_cast at h2 ⊢
    linarith
  rw [hdiv] at e1 e2 hc
  have hci : (c.i : ℚ) = ((chopRoundNat ((a.i * P * P) / b.i).toNat : Nat) : ℚ) := by rw [hc]; simp
  have ex : ((a.i : ℚ) * P * P) / b.i / P = (a.i : ℚ) * P / b.i := by field_simp
  refine ⟨by rw [hc]; exact Int.natCast_nonneg _, ?_, ?_⟩
  · rw [hci]
    have : (((a.i * P * P) / b.i : Int) : ℚ) / P ≤ ((a.i : ℚ) * P * P) / b.i / P := by
      apply div_le_div_of_nonneg_right f1 hp.le
    rw [ex] at this
    linarith
  · rw [hci]
    have : ((a.i : ℚ) * P * P) / b.i / P < ((((a.i * P * P) / b.i : Int) : ℚ) + 1) / P := by
      apply div_lt_div_of_pos_right f2 hp
    rw [ex, add_div] at this
    linarith

/-- banker's `RoundInt` of a non-negative decimal is within 1/2 of its value -/
theorem roundInt_err {c : Dec} (hc : 0 ≤ c.i) :
    0 ≤ c.roundInt ∧ (c.roundInt : ℚ) ≤ (c.i : ℚ) / P + 1 / 2 ∧ (c.i : ℚ) / P - 1 / 2 ≤ (c.roundInt : ℚ) := by
  unfold roundInt
  rw [chopRound_nonneg_eq hc]
  obtain ⟨e1, e2⟩ := chopRoundNat_err c.i.toNat
  have hcast : ((c.i.toNat : Nat) : ℚ) = (c.i : ℚ) := by
    have : ((c.i.toNat : Nat) : Int) = c.i := Int.toNat_of_nonneg hc
    exact_mod_cast congrArg (fun z : Int => (z : ℚ)) this
  rw [hcast] at e1 e2
  refine ⟨Int.natCast_nonneg _, by simpa using e1, by simpa using e2⟩

/-- `TruncateInt` of a non-negative decimal is its floor -/
theorem truncateInt_err {c : Dec} (hc : 0 ≤ c.i) :
    0 ≤ c.truncateInt ∧ (c.truncateInt : ℚ) ≤ (c.i : ℚ) / P ∧ (c.i : ℚ) / P < (c.truncateInt : ℚ) + 1 := by
  unfold truncateInt
  have hp0 : (P : Int) ≠ 0 := by have := P_pos; omega
  have hpp : (0 : Int) < (P : Int) := by have := P_pos; omega
  have hp : (0 : ℚ) < (P : ℚ) := by exact_mod_cast P_pos
  rw [Int.tdiv_eq_ediv_of_nonneg hc]
  refine ⟨Int.ediv_nonneg hc (by omega), ?_, ?_⟩
  · rw [le_div_iff₀ hp]
    have := Int.ediv_mul_le c.i hp0
    exact_mod_cast this
  · rw [div_lt_iff₀ hp]
    have := Int.lt_ediv_add_one_mul_self c.i hpp
    have h2 : ((c.i : Int) : ℚ) < ((c.i / P + 1 : Int) : ℚ) * ((P : Int) : ℚ) := by exact_mod_cast this
    push_cast at h2 ⊢
    linarith

end Sif.Dec
