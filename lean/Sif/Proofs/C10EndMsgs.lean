import Sif.Proofs.C10End
import Sif.Proofs.C10Msgs
set_option exponentiation.threshold 400
/-
  C10 helper lemmas: what the required clauses of `AddRewardPeriod` and
  `AddProviderDistributionPeriod` give for every period of an accepted message.
-/
namespace Sif.Proofs.C10
open Sif Sif.Hooks Sif.Validate Sif.Spec.C10

local notation "P" => Dec.P

theorem anyIdx_false {f : Nat → Bool} : ∀ {n : Nat}, anyIdx f n = false ↔ ∀ i < n, f i = false := by
  intro n
  induction n with
  | zero => simp [anyIdx]
  | succ k ih =>
    unfold anyIdx
    rw [Bool.or_eq_false_iff, ih]
    constructor
    · rintro ⟨h1, h2⟩ i hi
      rcases Nat.lt_succ_iff_lt_or_eq.1 hi with h | rfl
      · exact h2 i h
      · exact h1
    · intro h
      exact ⟨h k (Nat.lt_succ_self k), fun i hi => h i (Nat.lt_succ_of_lt hi)⟩

theorem rejAt_plain (e : Env) (ix : List Nat) (c : Cond) :
    rejAt e ix ⟨[], [], c, false⟩ = false ↔ evalCond e ix c = some false := by
  simp [rejAt, guardsHold]

theorem rejAt_binders_irrel (e : Env) (ix : List Nat) (bs : List String) (c : Cond) :
    rejAt e ix ⟨bs, [], c, false⟩ = rejAt e ix ⟨[], [], c, false⟩ := rfl

/-- one range: every element passes -/
theorem clIn1_rejects (e : Env) (l : String) (c : Cond) :
    (clIn [l] c).rejects e = false ↔ ∀ i < e.len l [], evalCond e [i] c = some false := by
  unfold clIn Clause.rejects
  simp only [rejBinders, List.nil_append]
  rw [anyIdx_false]
  constructor
  · intro h i hi
    have := h i hi
    rw [rejAt_binders_irrel, rejAt_plain] at this
    exact this
  · intro h i hi
    rw [rejAt_binders_irrel, rejAt_plain]
    exact h i hi

/-- two nested ranges -/
theorem clIn2_rejects (e : Env) (l1 l2 : String) (c : Cond) :
    (clIn [l1, l2] c).rejects e = false ↔ ∀ i < e.len l1 [], ∀ j < e.len l2 [i], evalCond e [i, j] c = some false := by
  unfold clIn Clause.rejects
  simp only [rejBinders, List.nil_append, List.cons_append]
  rw [anyIdx_false]
  constructor
  · intro h i hi j hj
    have := anyIdx_false.1 (h i hi) j hj
    rw [rejAt_binders_irrel, rejAt_plain] at this
    exact this
  · intro h i hi
    rw [anyIdx_false]
    intro j hj
    rw [rejAt_binders_irrel, rejAt_plain]
    exact h i hi j hj

theorem decOpt_some (d : Dec) : decOpt (some d) = some d.i := rfl
theorem decOpt_none : decOpt none = none := rfl
theorem natOpt_some (a : Nat) : natOpt (some a) = some (a : Int) := rfl
theorem natOpt_none : natOpt none = none := rfl

/-- the fields of a message are uint64 values -/
def RewWT (p : RewardPeriod) : Prop := p.start < 2 ^ 64 ∧ p.end_ < 2 ^ 64 ∧ p.mod < 2 ^ 64

theorem AddRewardPeriod_periods_ok (m : MsgAddRewardPeriod) (c : Ctx) (s : StVals)
    (hacc : acceptsAddRewardPeriod m c s = true) (hwt : ∀ q ∈ m.periods, RewWT q.p) :
    ∀ q ∈ m.periods, RewOKP q.p := by
  unfold acceptsAddRewardPeriod Req.addRewardPeriod at hacc
  rw [acceptsAll_cons] at hacc; obtain ⟨h1, hacc⟩ := hacc
  rw [acceptsAll_cons] at hacc; obtain ⟨h2, hacc⟩ := hacc
  rw [acceptsAll_cons] at hacc; obtain ⟨h3, hacc⟩ := hacc
  rw [acceptsAll_cons] at hacc; obtain ⟨h4, hacc⟩ := hacc
  rw [acceptsAll_cons] at hacc; obtain ⟨h5, hacc⟩ := hacc
  rw [acceptsAll_cons] at hacc; obtain ⟨h6, hacc⟩ := hacc
  rw [acceptsAll_cons] at hacc; obtain ⟨h7, hacc⟩ := hacc
  rw [acceptsAll_cons] at hacc; obtain ⟨h8, _⟩ := hacc
  unfold Req.rp at h1 h2 h3 h6 h7 h8
  unfold Req.rpm at h4 h5
  rw [clIn1_rejects] at h1 h2 h3 h6 h7 h8
  rw [clIn2_rejects] at h4 h5
  intro q hq
  obtain ⟨i, hi, hget⟩ := List.getElem_of_mem hq
  have hget? : m.periods[i]? = some q := by rw [List.getElem?_eq_getElem hi, hget]
  have hlen : (envAddRewardPeriod m c s).len "RewardPeriods" [] = m.periods.length := rfl
  have hi' : i < (envAddRewardPeriod m c s).len "RewardPeriods" [] := by rw [hlen]; exact hi
  obtain ⟨hw1, hw2, hw3⟩ := hwt q hq
  have h64 : (2 : Nat) ^ 64 = 18446744073709551616 := by norm_num
  -- field lookups at index i
  have fS : evalTerm (envAddRewardPeriod m c s) [i] (Term.fld "RewardPeriods[].RewardPeriodStartBlock") = some (q.p.start : Int) := by
    simp [evalTerm, envAddRewardPeriod, hget?]
  have fE : evalTerm (envAddRewardPeriod m c s) [i] (Term.fld "RewardPeriods[].RewardPeriodEndBlock") = some (q.p.end_ : Int) := by
    simp [evalTerm, envAddRewardPeriod, hget?]
  have fA : evalTerm (envAddRewardPeriod m c s) [i] (Term.fld "RewardPeriods[].RewardPeriodAllocation") = natOpt q.p.alloc := by
    simp [evalTerm, envAddRewardPeriod, hget?]
  have fD : evalTerm (envAddRewardPeriod m c s) [i] (Term.fld "RewardPeriods[].RewardPeriodDefaultMultiplier") = decOpt q.p.defMult := by
    simp [evalTerm, envAddRewardPeriod, hget?]
  have hlit : ∀ (ix : List Nat) (n : Int), evalTerm (envAddRewardPeriod m c s) ix (Term.lit n) = some n := fun _ _ => rfl
  -- clause 1: start ≤ end
  have c1 : q.p.start ≤ q.p.end_ := by
    obtain ⟨x, y, hx, hy, hxy⟩ := evalCond_lt_false (h1 i hi')
    rw [fE] at hx; rw [fS] at hy; cases hx; cases hy; omega
  -- clause 2: the uint64 length is not zero
  have c2 : ¬ (q.p.start = 0 ∧ q.p.end_ = 2 ^ 64 - 1) := by
    obtain ⟨x, y, hx, hy, hxy⟩ := evalCond_eq_false (h2 i hi')
    rw [hlit] at hy; cases hy
    have iS : (envAddRewardPeriod m c s).int "RewardPeriods[].RewardPeriodStartBlock" [i] = some (q.p.start : Int) := fS
    have iE : (envAddRewardPeriod m c s).int "RewardPeriods[].RewardPeriodEndBlock" [i] = some (q.p.end_ : Int) := fE
    have : evalTerm (envAddRewardPeriod m c s) [i]
        (Term.addU64 (Term.subU64 (Term.fld "RewardPeriods[].RewardPeriodEndBlock") (Term.fld "RewardPeriods[].RewardPeriodStartBlock")) (Term.lit 1)) =
        some ((wrapU64 ((wrapU64 ((q.p.end_ : Int) - q.p.start) : Int) + 1) : Nat) : Int) := by
      simp only [evalTerm, iS, iE, bind, Option.bind]
    rw [this] at hx; cases hx
    rintro ⟨hs0, he⟩
    apply hxy
    rw [hs0, he]
    unfold wrapU64; rw [two64_val, h64]
    norm_num
  -- clause 3 + 8: allocation present and ≤ 2^128 − 1
  have c3 : optLe q.p.alloc (2 ^ 128 - 1) := by
    obtain ⟨x, y, hx, hy, hxy⟩ := evalCond_lt_false (h8 i hi')
    rw [hlit] at hx; rw [fA] at hy; cases hx
    cases ha : q.p.alloc with
    | none => rw [ha, natOpt_none] at hy; cases hy
    | some a =>
      rw [ha, natOpt_some] at hy; cases hy
      unfold optLe Req.maxAlloc at *
      simp only at hxy ⊢
      have : ¬ ((2 : Int) ^ 128 - 1 < (a : Int)) := hxy
      have h128 : ((2 : Int) ^ 128 - 1) = (((2 : Nat) ^ 128 - 1 : Nat) : Int) := by norm_num
      rw [h128] at this
      exact_mod_cast not_lt.1 this
  -- clauses 6, 7: default multiplier present and in [0, 10]
  have c6 : optDecIn q.p.defMult 0 (10 * P) := by
    obtain ⟨x, y, hx, hy, hxy⟩ := evalCond_lt_false (h6 i hi')
    obtain ⟨x', y', hx', hy', hxy'⟩ := evalCond_lt_false (h7 i hi')
    rw [fD] at hx hy'; rw [hlit] at hy hx'; cases hy; cases hx'
    cases hd : q.p.defMult with
    | none => rw [hd, decOpt_none] at hx; cases hx
    | some d =>
      rw [hd, decOpt_some] at hx hy'; cases hx; cases hy'
      unfold optDecIn
      rw [P18_eq] at hxy'
      exact ⟨by omega, by omega⟩
  -- clauses 4, 5: every pool multiplier present and in [0, 10]
  have c4 : ∀ x ∈ q.p.mults, optDecInOrNone x.m 0 (10 * P) := by
    intro x hx
    obtain ⟨j, hj, hgj⟩ := List.getElem_of_mem hx
    have hgj? : q.p.mults[j]? = some x := by rw [List.getElem?_eq_getElem hj, hgj]
    have hlen2 : (envAddRewardPeriod m c s).len "RewardPeriods[].RewardPeriodPoolMultipliers" [i] = q.p.mults.length := by
      simp [envAddRewardPeriod, hget?]
    have hj' : j < (envAddRewardPeriod m c s).len "RewardPeriods[].RewardPeriodPoolMultipliers" [i] := by rw [hlen2]; exact hj
    have fM : evalTerm (envAddRewardPeriod m c s) [i, j] (Term.fld "RewardPeriods[].RewardPeriodPoolMultipliers[].Multiplier") = decOpt x.m := by
      simp [evalTerm, envAddRewardPeriod, hget?, hgj?]
    obtain ⟨a, b, ha, hb, hab⟩ := evalCond_lt_false (h4 i hi' j hj')
    obtain ⟨a', b', ha', hb', hab'⟩ := evalCond_lt_false (h5 i hi' j hj')
    rw [fM] at ha hb'; rw [hlit] at hb ha'; cases hb; cases ha'
    cases hm : x.m with
    | none => rw [hm, decOpt_none] at ha; cases ha
    | some d =>
      rw [hm, decOpt_some] at ha hb'; cases ha; cases hb'
      unfold optDecInOrNone
      rw [P18_eq] at hab'
      exact ⟨by omega, by omega⟩
  exact ⟨c1, hw2, c2, hw3, c3, c6, c4⟩

def LppdWT (q : MsgLppdPeriod) : Prop := q.mod < 2 ^ 64

theorem AddLppd_periods_ok (m : MsgAddLppd) (c : Ctx) (s : StVals)
    (hacc : acceptsAddLppd m c s = true) (hwt : ∀ q ∈ m.periods, LppdWT q) :
    ∀ p ∈ m.periods.map lppdOf, LppdOKP p := by
  unfold acceptsAddLppd Req.addLppd at hacc
  rw [acceptsAll_cons] at hacc; obtain ⟨_, hacc⟩ := hacc
  rw [acceptsAll_cons] at hacc; obtain ⟨h2, hacc⟩ := hacc
  rw [acceptsAll_cons] at hacc; obtain ⟨h3, _⟩ := hacc
  unfold Req.dp at h2 h3
  rw [clIn1_rejects] at h2 h3
  intro p hp
  obtain ⟨q, hq, rfl⟩ := List.mem_map.1 hp
  obtain ⟨i, hi, hget⟩ := List.getElem_of_mem hq
  have hget? : m.periods[i]? = some q := by rw [List.getElem?_eq_getElem hi, hget]
  have hi' : i < (envAddLppd m c s).len "DistributionPeriods" [] := hi
  have hlit : ∀ (ix : List Nat) (n : Int), evalTerm (envAddLppd m c s) ix (Term.lit n) = some n := fun _ _ => rfl
  have fR : evalTerm (envAddLppd m c s) [i] (Term.fld "DistributionPeriods[].DistributionPeriodBlockRate") = decOpt q.rate := by
    simp [evalTerm, envAddLppd, hget?]
  have fM : evalTerm (envAddLppd m c s) [i] (Term.fld "DistributionPeriods[].DistributionPeriodMod") = some (q.mod : Int) := by
    simp [evalTerm, envAddLppd, hget?]
  obtain ⟨ha, hb⟩ := evalCond_or_false (h2 i hi')
  obtain ⟨x, y, hx, hy, hxy⟩ := evalCond_lt_false ha
  obtain ⟨x', y', hx', hy', hxy'⟩ := evalCond_lt_false hb
  obtain ⟨u, v, hu, hv, huv⟩ := evalCond_eq_false (h3 i hi')
  rw [fR] at hx hy'; rw [hlit] at hy hx' hv; rw [fM] at hu
  cases hy; cases hx'; cases hv; cases hu
  cases hr : q.rate with
  | none => rw [hr, decOpt_none] at hx; cases hx
  | some d =>
    rw [hr, decOpt_some] at hx hy'; cases hx; cases hy'
    rw [P18_eq] at hxy'
    refine ⟨?_, hwt q hq, ?_, ?_⟩
    · show q.mod ≠ 0
      intro h0; apply huv; rw [h0]; rfl
    · show 0 ≤ (lppdOf q).rate.i
      unfold lppdOf; rw [hr]; show 0 ≤ d.i; omega
    · show (lppdOf q).rate.i ≤ P
      unfold lppdOf; rw [hr]; show d.i ≤ P; omega

end Sif.Proofs.C10
