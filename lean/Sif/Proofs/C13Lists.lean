import Sif.Spec.C13
import Sif.Proofs.Except
/-
  C13 helper lemmas, part 1: the position list and the pool list (sums, replacement, insertion,
  deletion) and the one-step lemma `OKc_trans` from which every preservation theorem follows.
-/
namespace Sif.Margin
open Sif Sif.Spec.C13

/-! ### sums over the position list -/

theorem sumBy_nil (f : Mtp → Nat) : sumBy f [] = 0 := rfl
theorem sumBy_cons (f : Mtp → Nat) (x : Mtp) (l : List Mtp) : sumBy f (x :: l) = f x + sumBy f l := by
  simp [sumBy]

theorem sumBy_const_one (l : List Mtp) : sumBy (fun _ => 1) l = l.length := by
  induction l with
  | nil => rfl
  | cons x xs ih => rw [sumBy_cons, ih]; simp; omega

theorem sumBy_insert (f : Mtp → Nat) (l : List Mtp) (m : Mtp) : sumBy f (insertMtpL l m) = sumBy f l + f m := by
  induction l with
  | nil => simp [insertMtpL, sumBy]
  | cons x xs ih =>
    unfold insertMtpL
    split
    · simp only [sumBy_cons]; omega
    · simp only [sumBy_cons, ih]; omega

theorem mem_insert {l : List Mtp} {m x : Mtp} : x ∈ insertMtpL l m ↔ x = m ∨ x ∈ l := by
  induction l with
  | nil => simp [insertMtpL]
  | cons y ys ih =>
    unfold insertMtpL
    split
    · simp
    · simp only [List.mem_cons, ih]
      constructor
      · rintro (h | h | h)
        · exact Or.inr (Or.inl h)
        · exact Or.inl h
        · exact Or.inr (Or.inr h)
      · rintro (h | h | h)
        · exact Or.inr (Or.inl h)
        · exact Or.inl h
        · exact Or.inr (Or.inr h)

theorem keys_insert_perm (l : List Mtp) (m : Mtp) : (insertMtpL l m).map Mtp.key |>.Perm (m.key :: l.map Mtp.key) := by
  induction l with
  | nil => simp [insertMtpL]
  | cons x xs ih =>
    unfold insertMtpL
    split
    · simp
    · simp only [List.map_cons]
      exact (List.Perm.cons _ ih).trans (List.Perm.swap _ _ _)

/-- absent key: `find?` gives none iff no element has the key -/
theorem getMtpL_none {l : List Mtp} {k : Key} : getMtpL l k = none ↔ ∀ x ∈ l, x.key ≠ k := by
  unfold getMtpL
  simp [List.find?_eq_none]

theorem getMtpL_some_mem {l : List Mtp} {k : Key} {m : Mtp} (h : getMtpL l k = some m) : m ∈ l ∧ m.key = k := by
  unfold getMtpL at h
  have h1 := List.mem_of_find?_eq_some h
  have h2 := List.find?_some h
  simp at h2
  exact ⟨h1, h2⟩

theorem any_key_false {l : List Mtp} {k : Key} (h : getMtpL l k = none) : l.any (fun x => x.key = k) = false := by
  rw [getMtpL_none] at h
  simp [List.any_eq_false]
  exact h

theorem any_key_true {l : List Mtp} {k : Key} {m : Mtp} (h : getMtpL l k = some m) : l.any (fun x => x.key = k) = true := by
  have := getMtpL_some_mem h
  simp [List.any_eq_true]
  exact ⟨m, this.1, this.2⟩

/-- replacing the unique element with key `k` -/
theorem sumBy_replace (f : Mtp → Nat) {l : List Mtp} {k : Key} {old m : Mtp}
    (hnd : (l.map Mtp.key).Nodup) (hget : getMtpL l k = some old) :
    sumBy f (l.map (fun x => if x.key = k then m else x)) + f old = sumBy f l + f m := by
  induction l with
  | nil => simp [getMtpL] at hget
  | cons x xs ih =>
    simp only [List.map_cons, List.nodup_cons] at hnd
    by_cases hx : x.key = k
    · have hold : old = x := by
        unfold getMtpL at hget; simp [List.find?_cons, hx] at hget; exact hget.symm
      subst hold
      have htail : xs.map (fun y => if y.key = k then m else y) = xs := by
        have h1 : xs.map (fun y => if y.key = k then m else y) = xs.map id := by
          apply List.map_congr_left
          intro y hy
          have : y.key ≠ k := by
            intro hyk; apply hnd.1; rw [hx, ← hyk]; exact List.mem_map_of_mem hy
          simp [this]
        rw [h1]; simp
      simp only [List.map_cons, hx, if_true, sumBy_cons, htail]; omega
    · have hget' : getMtpL xs k = some old := by
        unfold getMtpL at hget ⊢; simpa [List.find?_cons, hx] using hget
      have := ih hnd.2 hget'
      simp only [List.map_cons, hx, if_false, sumBy_cons]; omega

theorem sumBy_del (f : Mtp → Nat) {l : List Mtp} {k : Key} {old : Mtp}
    (hnd : (l.map Mtp.key).Nodup) (hget : getMtpL l k = some old) :
    sumBy f (delMtpL l k) + f old = sumBy f l := by
  induction l with
  | nil => simp [getMtpL] at hget
  | cons x xs ih =>
    simp only [List.map_cons, List.nodup_cons] at hnd
    by_cases hx : x.key = k
    · have hold : old = x := by
        unfold getMtpL at hget; simp [List.find?_cons, hx] at hget; exact hget.symm
      subst hold
      have htail : delMtpL xs k = xs := by
        unfold delMtpL
        apply List.filter_eq_self.mpr
        intro y hy
        have : y.key ≠ k := by
          intro hyk; apply hnd.1; rw [hx, ← hyk]; exact List.mem_map_of_mem hy
        simp [this]
      have : delMtpL (old :: xs) k = delMtpL xs k := by
        unfold delMtpL; simp [List.filter_cons, hx]
      rw [this, htail, sumBy_cons]; omega
    · have hget' : getMtpL xs k = some old := by
        unfold getMtpL at hget ⊢; simpa [List.find?_cons, hx] using hget
      have := ih hnd.2 hget'
      have hd : delMtpL (x :: xs) k = x :: delMtpL xs k := by
        unfold delMtpL; simp [List.filter_cons, hx]
      rw [hd]; simp only [sumBy_cons]; omega

theorem mem_replace {l : List Mtp} {k : Key} {m x : Mtp} (h : x ∈ l.map (fun y => if y.key = k then m else y)) :
    x = m ∨ x ∈ l := by
  simp only [List.mem_map] at h
  obtain ⟨y, hy, rfl⟩ := h
  by_cases hk : y.key = k
  · simp [hk]
  · simp [hk, hy]

theorem mem_del {l : List Mtp} {k : Key} {x : Mtp} (h : x ∈ delMtpL l k) : x ∈ l ∧ x.key ≠ k := by
  unfold delMtpL at h
  simp at h
  exact h

theorem keys_replace {l : List Mtp} {k : Key} {m : Mtp} (hk : m.key = k) :
    (l.map (fun y => if y.key = k then m else y)).map Mtp.key = l.map Mtp.key := by
  simp only [List.map_map]
  apply List.map_congr_left
  intro y _
  by_cases h : y.key = k
  · simp [h, hk]
  · simp [h]

theorem keys_del_nodup {l : List Mtp} {k : Key} (hnd : (l.map Mtp.key).Nodup) : ((delMtpL l k).map Mtp.key).Nodup := by
  unfold delMtpL
  exact (List.Nodup.sublist (List.Sublist.map _ List.filter_sublist) hnd)

theorem getMtpL_del (l : List Mtp) (k : Key) : getMtpL (delMtpL l k) k = none := by
  rw [getMtpL_none]
  intro x hx
  exact (mem_del hx).2


/-! ### lookups after writes -/

theorem setMtpL_present {l : List Mtp} {m old : Mtp} (h : getMtpL l m.key = some old) :
    setMtpL l m = l.map (fun x => if x.key = m.key then m else x) := by
  unfold setMtpL; rw [any_key_true h]; simp

theorem setMtpL_absent {l : List Mtp} {m : Mtp} (h : getMtpL l m.key = none) : setMtpL l m = insertMtpL l m := by
  unfold setMtpL; rw [any_key_false h]; simp

theorem getMtpL_replace_self {l : List Mtp} {m old : Mtp} (h : getMtpL l m.key = some old) :
    getMtpL (l.map (fun x => if x.key = m.key then m else x)) m.key = some m := by
  induction l with
  | nil => simp [getMtpL] at h
  | cons x xs ih =>
    by_cases hx : x.key = m.key
    · simp [getMtpL, hx]
    · have h' : getMtpL xs m.key = some old := by
        unfold getMtpL at h ⊢; simpa [List.find?_cons, hx] using h
      have := ih h'
      unfold getMtpL at this ⊢
      simp [List.find?_cons, hx, this]

theorem getMtpL_cons (x : Mtp) (xs : List Mtp) (k : Key) :
    getMtpL (x :: xs) k = if x.key = k then some x else getMtpL xs k := by
  unfold getMtpL
  by_cases h : x.key = k
  · simp [List.find?_cons, h]
  · simp [List.find?_cons, h]

theorem getMtpL_replace_other {l : List Mtp} {m : Mtp} {k : Key} (hk : k ≠ m.key) :
    getMtpL (l.map (fun x => if x.key = m.key then m else x)) k = getMtpL l k := by
  induction l with
  | nil => rfl
  | cons x xs ih =>
    rw [List.map_cons, getMtpL_cons, getMtpL_cons, ih]
    by_cases hx : x.key = m.key
    · have h1 : ¬ m.key = k := fun h => hk h.symm
      have h2 : ¬ x.key = k := by rw [hx]; exact h1
      rw [if_pos hx, if_neg h1, if_neg h2]
    · rw [if_neg hx]

theorem getMtpL_insert_self {l : List Mtp} {m : Mtp} (h : getMtpL l m.key = none) : getMtpL (insertMtpL l m) m.key = some m := by
  induction l with
  | nil => simp [insertMtpL, getMtpL]
  | cons x xs ih =>
    have hx : x.key ≠ m.key := (getMtpL_none.mp h) x List.mem_cons_self
    have h' : getMtpL xs m.key = none := by
      rw [getMtpL_none] at h ⊢; intro y hy; exact h y (List.mem_cons_of_mem _ hy)
    unfold insertMtpL
    split
    · simp [getMtpL]
    · have := ih h'
      unfold getMtpL at this ⊢
      simp [List.find?_cons, hx, this]

theorem getMtpL_insert_other {l : List Mtp} {m : Mtp} {k : Key} (hk : k ≠ m.key) : getMtpL (insertMtpL l m) k = getMtpL l k := by
  have h1 : ¬ m.key = k := fun h => hk h.symm
  induction l with
  | nil => simp [insertMtpL, getMtpL, h1]
  | cons x xs ih =>
    unfold insertMtpL
    split
    · unfold getMtpL; simp [List.find?_cons, h1]
    · unfold getMtpL at ih ⊢
      by_cases hxk : x.key = k
      · simp [List.find?_cons, hxk]
      · simp [List.find?_cons, hxk, ih]

theorem getMtpL_setMtpL_other (l : List Mtp) {m : Mtp} {k : Key} (hk : k ≠ m.key) : getMtpL (setMtpL l m) k = getMtpL l k := by
  unfold setMtpL
  split
  · exact getMtpL_replace_other hk
  · exact getMtpL_insert_other hk

theorem getMtpL_del_other (l : List Mtp) {k k' : Key} (hk : k ≠ k') : getMtpL (delMtpL l k') k = getMtpL l k := by
  induction l with
  | nil => rfl
  | cons x xs ih =>
    by_cases hx : x.key = k'
    · have h1 : delMtpL (x :: xs) k' = delMtpL xs k' := by unfold delMtpL; simp [List.filter_cons, hx]
      have h2 : ¬ x.key = k := by rw [hx]; exact fun h => hk h.symm
      rw [h1, ih, getMtpL_cons, if_neg h2]
    · have h1 : delMtpL (x :: xs) k' = x :: delMtpL xs k' := by unfold delMtpL; simp [List.filter_cons, hx]
      rw [h1, getMtpL_cons, getMtpL_cons, ih]

theorem length_insert (l : List Mtp) (m : Mtp) : (insertMtpL l m).length = l.length + 1 := by
  have := sumBy_insert (fun _ => 1) l m
  rw [sumBy_const_one, sumBy_const_one] at this
  exact this

/-! ### "the list changed by replacing `old` with `new`" -/

/-- `ms'` is `ms` with position `old` replaced by `new` (either may be absent) -/
structure Trans (ms ms' : List Mtp) (old new : Option Mtp) : Prop where
  sums : ∀ f : Mtp → Nat, sumBy f ms' + (old.map f).getD 0 = sumBy f ms + (new.map f).getD 0
  mem : ∀ x ∈ ms', x ∈ ms ∨ new = some x

theorem Trans.add {ms : List Mtp} {m : Mtp} (h : getMtpL ms m.key = none) : Trans ms (setMtpL ms m) none (some m) := by
  have : setMtpL ms m = insertMtpL ms m := by unfold setMtpL; rw [any_key_false h]; simp
  rw [this]
  constructor
  · intro f; simp [sumBy_insert]
  · intro x hx; rcases mem_insert.mp hx with h | h
    · right; rw [h]
    · left; exact h

theorem Trans.modify {ms : List Mtp} {old m : Mtp} (hnd : (ms.map Mtp.key).Nodup) (h : getMtpL ms m.key = some old) :
    Trans ms (setMtpL ms m) (some old) (some m) := by
  have : setMtpL ms m = ms.map (fun x => if x.key = m.key then m else x) := by
    unfold setMtpL; rw [any_key_true h]; simp
  rw [this]
  constructor
  · intro f; simpa using sumBy_replace f hnd h
  · intro x hx; rcases mem_replace hx with h | h
    · right; rw [h]
    · left; exact h

theorem Trans.remove {ms : List Mtp} {old : Mtp} {k : Key} (hnd : (ms.map Mtp.key).Nodup) (h : getMtpL ms k = some old) :
    Trans ms (delMtpL ms k) (some old) none := by
  constructor
  · intro f; simpa using sumBy_del f hnd h
  · intro x hx; left; exact (mem_del hx).1

theorem Trans.refl (ms : List Mtp) : Trans ms ms none none := ⟨fun _ => rfl, fun _ hx => Or.inl hx⟩

/-! ### the pool list -/

theorem getPoolL_some {l : List Pool} {sym : Asset} {p : Pool} (h : getPoolL l sym = some p) : p ∈ l ∧ p.sym = sym := by
  unfold getPoolL at h
  have h1 := List.mem_of_find?_eq_some h
  have h2 := List.find?_some h
  simp at h2
  exact ⟨h1, h2⟩

theorem setPoolL_collapse (l : List Pool) (p p' : Pool) (h : p'.sym = p.sym) : setPoolL (setPoolL l p) p' = setPoolL l p' := by
  induction l with
  | nil => simp [setPoolL, h]
  | cons q qs ih =>
    unfold setPoolL
    by_cases hq : q.sym = p.sym
    · simp [hq, h, setPoolL]
    · have : ¬ q.sym = p'.sym := by rw [h]; exact hq
      simp [hq, this, setPoolL, ih]

theorem getPoolL_set (l : List Pool) (p : Pool) : getPoolL (setPoolL l p) p.sym = some p := by
  induction l with
  | nil => simp [setPoolL, getPoolL]
  | cons q qs ih =>
    unfold setPoolL
    by_cases hq : q.sym = p.sym
    · simp [hq, getPoolL]
    · unfold getPoolL at ih ⊢
      simp [hq, List.find?_cons, ih]

theorem getPoolL_cons (x : Pool) (xs : List Pool) (sym : Asset) :
    getPoolL (x :: xs) sym = if x.sym = sym then some x else getPoolL xs sym := by
  unfold getPoolL
  by_cases h : x.sym = sym
  · simp [List.find?_cons, h]
  · simp [List.find?_cons, h]

theorem getPoolL_setPoolL_other (l : List Pool) {p : Pool} {sym : Asset} (h : sym ≠ p.sym) :
    getPoolL (setPoolL l p) sym = getPoolL l sym := by
  have h1 : ¬ p.sym = sym := fun h' => h h'.symm
  induction l with
  | nil => simp [setPoolL, getPoolL, h1]
  | cons x xs ih =>
    unfold setPoolL
    by_cases hx : x.sym = p.sym
    · have h2 : ¬ x.sym = sym := by rw [hx]; exact h1
      rw [if_pos hx, getPoolL_cons, getPoolL_cons, if_neg h1, if_neg h2]
    · rw [if_neg hx, getPoolL_cons, getPoolL_cons, ih]

theorem syms_setPoolL {l : List Pool} {p p0 : Pool} (h : getPoolL l p.sym = some p0) :
    (setPoolL l p).map (fun q => q.sym) = l.map (fun q => q.sym) := by
  induction l with
  | nil => simp [getPoolL] at h
  | cons q qs ih =>
    unfold setPoolL
    by_cases hq : q.sym = p.sym
    · simp [hq]
    · have h' : getPoolL qs p.sym = some p0 := by
        unfold getPoolL at h ⊢; simpa [List.find?_cons, hq] using h
      simp [hq, ih h']

theorem mem_setPoolL {l : List Pool} {p q : Pool} (hnd : (l.map (fun q => q.sym)).Nodup) (h : q ∈ setPoolL l p) :
    q = p ∨ (q ∈ l ∧ q.sym ≠ p.sym) := by
  induction l with
  | nil => simp [setPoolL] at h; exact Or.inl h
  | cons x xs ih =>
    simp only [List.map_cons, List.nodup_cons] at hnd
    unfold setPoolL at h
    by_cases hx : x.sym = p.sym
    · simp only [hx, if_true, List.mem_cons] at h
      rcases h with h | h
      · exact Or.inl h
      · right
        refine ⟨List.mem_cons_of_mem _ h, ?_⟩
        intro hq
        apply hnd.1
        rw [hx, ← hq]
        exact List.mem_map_of_mem (f := fun q => q.sym) h
    · simp only [hx, if_false, List.mem_cons] at h
      rcases h with h | h
      · right; rw [h]; exact ⟨List.mem_cons_self, hx⟩
      · rcases ih hnd.2 h with h | ⟨h1, h2⟩
        · exact Or.inl h
        · exact Or.inr ⟨List.mem_cons_of_mem _ h1, h2⟩

/-! ### the invariant as propositions -/

/-- MarginOK on components -/
structure OKc (pools : List Pool) (ms : List Mtp) (oc : Nat) : Prop where
  cust : ∀ p ∈ pools, ∀ b, p.cust b = sumBy (custOf p.sym b) ms
  liab : ∀ p ∈ pools, ∀ b, p.liab b = sumBy (liabOf p.sym b) ms
  count : oc = ms.length
  pool : ∀ m ∈ ms, ∃ p ∈ pools, p.sym = m.poolSym

theorem marginOK_iff (pools : List Pool) (ms : List Mtp) (oc : Nat) : marginOK pools ms oc = true ↔ OKc pools ms oc := by
  unfold marginOK poolOK
  simp only [Bool.and_eq_true, List.all_eq_true, beq_iff_eq, List.any_eq_true, decide_eq_true_eq]
  constructor
  · rintro ⟨⟨h1, h2⟩, h3⟩
    refine ⟨?_, ?_, h2, h3⟩
    · intro p hp b; have := h1 p hp; cases b
      · simp [Pool.cust]; exact this.1.1.2
      · simp [Pool.cust]; exact this.1.1.1
    · intro p hp b; have := h1 p hp; cases b
      · simp [Pool.liab]; exact this.2
      · simp [Pool.liab]; exact this.1.2
  · rintro ⟨h1, h2, h3, h4⟩
    refine ⟨⟨?_, h3⟩, h4⟩
    intro p hp
    have a := h1 p hp true; have b := h1 p hp false; have c := h2 p hp true; have d := h2 p hp false
    simp [Pool.cust, Pool.liab] at a b c d
    exact ⟨⟨⟨a, b⟩, c⟩, d⟩

/-- **the one-step lemma**: replace position `old` by `new` (both of pool `sym`) and the pool record
    `p0` by `p'` whose custody and liabilities moved by exactly the difference. -/
theorem OKc_trans {pools : List Pool} {ms ms' : List Mtp} {oc oc' : Nat} {sym : Asset} {p0 p' : Pool}
    {old new : Option Mtp}
    (hOK : OKc pools ms oc) (hsyms : (pools.map (fun q => q.sym)).Nodup)
    (hp : getPoolL pools sym = some p0) (hp' : p'.sym = sym)
    (ht : Trans ms ms' old new)
    (hold : ∀ o, old = some o → o.poolSym = sym) (hnew : ∀ n, new = some n → n.poolSym = sym)
    (hc : ∀ b, p'.cust b + (old.map (custOf sym b)).getD 0 = p0.cust b + (new.map (custOf sym b)).getD 0)
    (hl : ∀ b, p'.liab b + (old.map (liabOf sym b)).getD 0 = p0.liab b + (new.map (liabOf sym b)).getD 0)
    (hoc : oc' + (old.map (fun _ => 1)).getD 0 = oc + (new.map (fun _ => 1)).getD 0) :
    OKc (setPoolL pools p') ms' oc' := by
  obtain ⟨hp0mem, hp0sym⟩ := getPoolL_some hp
  have zero_c : ∀ (s2 : Asset) (b : Bool) (o : Option Mtp), (∀ x, o = some x → x.poolSym = sym) → s2 ≠ sym →
      (o.map (custOf s2 b)).getD 0 = 0 := by
    intro s2 b o ho hne
    cases o with
    | none => rfl
    | some x =>
      have := ho x rfl
      simp [custOf, this]; intro h; exact absurd h.symm hne
  have zero_l : ∀ (s2 : Asset) (b : Bool) (o : Option Mtp), (∀ x, o = some x → x.poolSym = sym) → s2 ≠ sym →
      (o.map (liabOf s2 b)).getD 0 = 0 := by
    intro s2 b o ho hne
    cases o with
    | none => rfl
    | some x =>
      have := ho x rfl
      simp [liabOf, this]; intro h; exact absurd h.symm hne
  refine ⟨?_, ?_, ?_, ?_⟩
  · intro q hq b
    rcases mem_setPoolL hsyms hq with rfl | ⟨hql, hqs⟩
    · have h0 := hOK.cust p0 hp0mem b
      have h1 := ht.sums (custOf sym b)
      have h2 := hc b
      rw [hp0sym] at h0; rw [hp']; omega
    · have h0 := hOK.cust q hql b
      have h1 := ht.sums (custOf q.sym b)
      rw [hp'] at hqs
      rw [zero_c q.sym b old hold hqs, zero_c q.sym b new hnew hqs] at h1
      omega
  · intro q hq b
    rcases mem_setPoolL hsyms hq with rfl | ⟨hql, hqs⟩
    · have h0 := hOK.liab p0 hp0mem b
      have h1 := ht.sums (liabOf sym b)
      have h2 := hl b
      rw [hp0sym] at h0; rw [hp']; omega
    · have h0 := hOK.liab q hql b
      have h1 := ht.sums (liabOf q.sym b)
      rw [hp'] at hqs
      rw [zero_l q.sym b old hold hqs, zero_l q.sym b new hnew hqs] at h1
      omega
  · have h1 := ht.sums (fun _ => 1)
    rw [sumBy_const_one, sumBy_const_one] at h1
    have := hOK.count
    omega
  · intro m hm
    have hsymmem : ∀ s2, (∃ q ∈ pools, q.sym = s2) → ∃ q ∈ setPoolL pools p', q.sym = s2 := by
      intro s2 ⟨q, hq, hqs⟩
      have hmap : s2 ∈ (setPoolL pools p').map (fun q => q.sym) := by
        rw [syms_setPoolL (p := p') (p0 := p0) (by rw [hp']; exact hp)]
        rw [← hqs]; exact List.mem_map_of_mem (f := fun q => q.sym) hq
      simp only [List.mem_map] at hmap
      exact hmap
    rcases ht.mem m hm with h | h
    · exact hsymmem _ (hOK.pool m h)
    · have := hnew m h
      rw [this]
      exact hsymmem sym ⟨p0, hp0mem, hp0sym⟩

end Sif.Margin
