import Sif.Proofs.C02Payout
import Sif.Spec.C04
/-
  C04 — helper lemmas for clause 4 on removals by units: the payout of each side is at most the
  pro-rata share times (1 + 2·10⁻¹⁸) plus one base unit, which the dust of DESIGN 4/C04 absorbs.
-/
namespace Sif.Clp
open Sif Sif.Dec Sif.Spec.C04

/-- tight form of `side_quo_le`: relative error 2·10⁻¹⁸ -/
theorem side_quo_le_tight {side Pu w : Nat} {q ws : Dec} (hw : 0 < w) (hwP : w ≤ Pu)
    (hq : (Dec.ofNat Pu).quo ⟨((w * P : Nat) : Int)⟩ = .ok q)
    (hs : (⟨((side * P : Nat) : Int)⟩ : Dec).quo q = .ok ws) :
    0 ≤ ws.i ∧ (ws.i : ℚ) / P + 1 / 2 ≤ (side : ℚ) * w / Pu * (1 + 2 / P) + 1 := by
  have hp : (0 : ℚ) < (P : ℚ) := by exact_mod_cast P_pos
  have hPu : 0 < Pu := Nat.lt_of_lt_of_le hw hwP
  have hPuq : (0 : ℚ) < (Pu : ℚ) := by exact_mod_cast hPu
  have hwq : (0 : ℚ) < (w : ℚ) := by exact_mod_cast hw
  have hwPq : (w : ℚ) ≤ (Pu : ℚ) := by exact_mod_cast hwP
  have hsq : (0 : ℚ) ≤ (side : ℚ) := Nat.cast_nonneg _
  have ha : 0 ≤ (Dec.ofNat Pu).i := Int.natCast_nonneg _
  have hb : (0 : Int) < ((w * P : Nat) : Int) := by have := Nat.mul_pos hw P_pos; exact_mod_cast this
  obtain ⟨q0, q1, q2⟩ := quo_err (b := ⟨((w * P : Nat) : Int)⟩) ha hb hq
  have hx : ((Dec.ofNat Pu).i : ℚ) * P / (((w * P : Nat) : Int) : ℚ) = (Pu : ℚ) * P / w := by
    show (((Pu * P : Nat) : Int) : ℚ) * P / _ = _
    push_cast; field_simp
  rw [hx] at q1 q2
  have hxP : (P : ℚ) ≤ (Pu : ℚ) * P / w := by
    rw [le_div_iff₀ hwq]; nlinarith
  have hP2 : (2 : ℚ) ≤ P := by
    have : 2 ≤ P := by rw [P_val]; decide
    exact_mod_cast this
  have hinvP : (1 : ℚ) / P ≤ 1 / 2 := by rw [div_le_div_iff₀ hp (by norm_num)]; linarith
  have hqlow : (Pu : ℚ) * P / w - 1 ≤ (q.i : ℚ) := by linarith
  have hqpos : (0 : ℚ) < (q.i : ℚ) := by linarith
  have hqposI : 0 < q.i := by exact_mod_cast hqpos
  have has : (0 : Int) ≤ ((side * P : Nat) : Int) := Int.natCast_nonneg _
  obtain ⟨s0, s1, _⟩ := quo_err (a := ⟨((side * P : Nat) : Int)⟩) has hqposI hs
  have hnum : ((((side * P : Nat) : Int) : ℚ)) * P / (q.i : ℚ) = (side : ℚ) * P * P / q.i := by push_cast; ring
  rw [hnum] at s1
  refine ⟨s0, ?_⟩
  set x : ℚ := (Pu : ℚ) * P / w with hxdef
  have hxpos : (0 : ℚ) < x := by linarith
  have hx2 : (2 : ℚ) ≤ x := by linarith
  have hfrac : (side : ℚ) * P * P / q.i ≤ (side : ℚ) * P * P / x * (1 + 2 / x) := by
    have h1 : (side : ℚ) * P * P / q.i ≤ (side : ℚ) * P * P / (x - 1) := by
      apply div_le_div_of_nonneg_left (by positivity) (by linarith) hqlow
    have h2 : (side : ℚ) * P * P / (x - 1) ≤ (side : ℚ) * P * P / x * (1 + 2 / x) := by
      have hx1 : (0 : ℚ) < x - 1 := by linarith
      rw [div_le_iff₀ hx1]
      have e : (side : ℚ) * P * P / x * (1 + 2 / x) * (x - 1) = (side : ℚ) * P * P * ((x + 2) * (x - 1) / (x * x)) := by
        field_simp
      rw [e]
      have : (1 : ℚ) ≤ (x + 2) * (x - 1) / (x * x) := by
        rw [le_div_iff₀ (by positivity)]; nlinarith
      nlinarith [mul_nonneg (mul_nonneg hsq hp.le) hp.le]
    linarith
  have hfair : (side : ℚ) * P * P / x = (side : ℚ) * w / Pu * P := by
    simp only [hxdef]; field_simp
  have h2x : (2 : ℚ) / x ≤ 2 / P := by
    apply div_le_div_of_nonneg_left (by norm_num) hp hxP
  have hfairn : (0 : ℚ) ≤ (side : ℚ) * w / Pu := by positivity
  have hws : (ws.i : ℚ) ≤ (side : ℚ) * w / Pu * P * (1 + 2 / P) + 1 / 2 := by
    have : (side : ℚ) * P * P / x * (1 + 2 / x) ≤ (side : ℚ) * w / Pu * P * (1 + 2 / P) := by
      rw [hfair]
      apply mul_le_mul_of_nonneg_left _ (by positivity)
      linarith
    linarith
  have hdiv : (ws.i : ℚ) / P ≤ (side : ℚ) * w / Pu * (1 + 2 / P) + 1 / (2 * P) := by
    rw [div_le_iff₀ hp]
    have e : ((side : ℚ) * w / Pu * (1 + 2 / P) + 1 / (2 * P)) * P = (side : ℚ) * w / Pu * P * (1 + 2 / P) + 1 / 2 := by
      field_simp
    rw [e]; exact hws
  have hhalfP : (1 : ℚ) / (2 * P) ≤ 1 / 2 := by
    rw [div_le_div_iff₀ (by positivity) (by norm_num)]; linarith
  linarith

/-- tight payout bound of `CalculateWithdrawalFromUnits` -/
theorem withdrawFromUnits_le_tight {Pu nD eD lu w n e left : Nat} (hw : 0 < w) (hwP : w ≤ Pu)
    (h : calculateWithdrawalFromUnits Pu nD eD lu w = .ok (n, e, left)) :
    (n : ℚ) ≤ (nD : ℚ) * w / Pu * (1 + 2 / P) + 1 ∧ (e : ℚ) ≤ (eD : ℚ) * w / Pu * (1 + 2 / P) + 1 := by
  unfold calculateWithdrawalFromUnits at h
  obtain ⟨nF, hn, h⟩ := bind_ok h
  obtain ⟨eF, he, h⟩ := bind_ok h
  obtain ⟨luF, _, h⟩ := bind_ok h
  obtain ⟨wuF, hwu, h⟩ := bind_ok h
  obtain ⟨q, hq, h⟩ := bind_ok h
  obtain ⟨wE, hwE, h⟩ := bind_ok h
  obtain ⟨q', hq', h⟩ := bind_ok h
  obtain ⟨wN, hwN, h⟩ := bind_ok h
  obtain ⟨_, _, h⟩ := bind_ok h
  obtain ⟨n', hn', h⟩ := bind_ok h
  obtain ⟨e', he', h⟩ := bind_ok h
  obtain ⟨l', _, h⟩ := bind_ok h
  have : n' = n ∧ e' = e := by cases h; exact ⟨rfl, rfl⟩
  obtain ⟨rfl, rfl⟩ := this
  have en : nF = ⟨((nD * P : Nat) : Int)⟩ := by
    have := decOfNatStr_i hn; cases nF; simp_all
  have ee : eF = ⟨((eD * P : Nat) : Int)⟩ := by
    have := decOfNatStr_i he; cases eF; simp_all
  have ew : wuF = ⟨((w * P : Nat) : Int)⟩ := by
    have := decOfNatStr_i hwu; cases wuF; simp_all
  subst en ee ew
  obtain ⟨s0, s1⟩ := side_quo_le_tight hw hwP hq' hwN
  obtain ⟨t0, t1⟩ := side_quo_le_tight hw hwP hq hwE
  obtain ⟨rn0, rn1, _⟩ := roundInt_err s0
  obtain ⟨re0, re1, _⟩ := roundInt_err t0
  unfold roundToUint at hn' he'
  obtain ⟨cn, _⟩ := Uint.ofInt_ok hn'
  obtain ⟨ce, _⟩ := Uint.ofInt_ok he'
  have hnq : (n' : ℚ) = (wN.roundInt : ℚ) := by exact_mod_cast congrArg (fun z : Int => (z : ℚ)) cn
  have heq : (e' : ℚ) = (wE.roundInt : ℚ) := by exact_mod_cast congrArg (fun z : Int => (z : ℚ)) ce
  constructor
  · rw [hnq]; linarith
  · rw [heq]; linarith
end Sif.Clp

namespace Sif.Clp
open Sif Sif.Dec Sif.Spec.C04

theorem le_ceilDiv_mul (a b : Nat) (hb : 0 < b) : a ≤ ceilDiv a b * b := by
  unfold ceilDiv
  rw [if_neg (Nat.pos_iff_ne_zero.mp hb)]
  have h := Nat.div_add_mod (a + b - 1) b
  have hm := Nat.mod_lt (a + b - 1) hb
  have hc : b * ((a + b - 1) / b) = (a + b - 1) / b * b := Nat.mul_comm _ _
  omega

theorem dust_ge (Dt Do v : Nat) : (4 : ℚ) + (Dt : ℚ) / 10 ^ 16 ≤ (dust Dt Do v : ℚ) := by
  have h1 : Dt ≤ ceilDiv Dt (10 ^ 16) * 10 ^ 16 := le_ceilDiv_mul Dt (10 ^ 16) (by positivity)
  have h1q : (Dt : ℚ) ≤ (ceilDiv Dt (10 ^ 16) : ℚ) * 10 ^ 16 := by exact_mod_cast h1
  have h2 : (Dt : ℚ) / 10 ^ 16 ≤ (ceilDiv Dt (10 ^ 16) : ℚ) := by
    rw [div_le_iff₀ (by positivity)]; exact h1q
  have h3 : (dust Dt Do v : ℚ) = 4 * (1 + (ceilDiv Dt Do : ℚ)) + (ceilDiv v (10 ^ 9) : ℚ) + (ceilDiv Dt (10 ^ 16) : ℚ) := by
    unfold dust; push_cast; ring
  rw [h3]
  have hx : (0 : ℚ) ≤ (ceilDiv Dt Do : ℚ) := Nat.cast_nonneg _
  have hy : (0 : ℚ) ≤ (ceilDiv v (10 ^ 9) : ℚ) := Nat.cast_nonneg _
  generalize (Dt : ℚ) / 10 ^ 16 = t at h2 ⊢
  generalize (ceilDiv Dt (10 ^ 16) : ℚ) = c at h2 ⊢
  generalize (ceilDiv Dt Do : ℚ) = x at hx ⊢
  generalize (ceilDiv v (10 ^ 9) : ℚ) = y at hy ⊢
  linarith

/-- one side after a removal: depth − payout + dust is at least the pro-rata remainder -/
theorem side_after_ge {D w Pu n : Nat} {Do : Nat} (hw : 0 < w) (hwP : w ≤ Pu) (hn : n ≤ D)
    (hb : (n : ℚ) ≤ (D : ℚ) * w / Pu * (1 + 2 / P) + 1) :
    (D : ℚ) * ((Pu - w : Nat) : ℚ) / Pu ≤ ((D - n : Nat) : ℚ) + (dust D Do (D - n) : ℚ) := by
  have hPu : (0 : ℚ) < (Pu : ℚ) := by exact_mod_cast Nat.lt_of_lt_of_le hw hwP
  have hd := dust_ge D Do (D - n)
  have hPv : (P : ℚ) = 10 ^ 18 := by rw [P_val]; norm_num
  rw [Nat.cast_sub hn, Nat.cast_sub hwP]
  have hfr : (D : ℚ) * w / Pu ≤ D := by
    rw [div_le_iff₀ hPu]
    have : (w : ℚ) ≤ Pu := by exact_mod_cast hwP
    have : (0 : ℚ) ≤ (D : ℚ) := Nat.cast_nonneg _
    nlinarith
  have hfr0 : (0 : ℚ) ≤ (D : ℚ) * w / Pu := by positivity
  have e1 : (D : ℚ) * ((Pu : ℚ) - w) / Pu = D - (D : ℚ) * w / Pu := by field_simp
  rw [e1]
  have h2P : (D : ℚ) * w / Pu * (2 / P) ≤ (D : ℚ) / 10 ^ 16 := by
    rw [hPv]
    have : (D : ℚ) * w / Pu * (2 / 10 ^ 18) ≤ (D : ℚ) * (2 / 10 ^ 18) := by
      apply mul_le_mul_of_nonneg_right hfr (by positivity)
    have : (D : ℚ) * (2 / 10 ^ 18) ≤ (D : ℚ) / 10 ^ 16 := by
      have hD : (0 : ℚ) ≤ (D : ℚ) / 10 ^ 16 := by positivity
      have e : (D : ℚ) * (2 / 10 ^ 18) = (D : ℚ) / 10 ^ 16 * (1 / 50) := by ring
      rw [e]; nlinarith
    linarith
  have : (D : ℚ) * w / Pu * (1 + 2 / P) = (D : ℚ) * w / Pu + (D : ℚ) * w / Pu * (2 / P) := by ring
  linarith

theorem backing_removeUnits {Pu nD eD lu w n e left : Nat} (hw : 0 < w) (hwP : w ≤ Pu)
    (hn : n ≤ nD) (he : e ≤ eD)
    (h : calculateWithdrawalFromUnits Pu nD eD lu w = .ok (n, e, left)) :
    backingOK nD eD Pu (nD - n) (eD - e) (Pu - w) = true := by
  obtain ⟨bn, be⟩ := withdrawFromUnits_le_tight hw hwP h
  have sn := side_after_ge (Do := eD) hw hwP hn bn
  have se := side_after_ge (Do := nD) hw hwP he be
  have hPu : (0 : ℚ) < (Pu : ℚ) := by exact_mod_cast Nat.lt_of_lt_of_le hw hwP
  unfold backingOK
  rw [if_pos (Nat.sub_le _ _)]
  simp only [decide_eq_true_eq]
  have key : ((nD * eD * ((Pu - w) * (Pu - w)) : Nat) : ℚ) ≤
      (((nD - n + dust nD eD (nD - n)) * (eD - e + dust eD nD (eD - e)) * (Pu * Pu) : Nat) : ℚ) := by
    push_cast
    set a : ℚ := ((nD - n : Nat) : ℚ) + (dust nD eD (nD - n) : ℚ)
    set b : ℚ := ((eD - e : Nat) : ℚ) + (dust eD nD (eD - e) : ℚ)
    set r : ℚ := ((Pu - w : Nat) : ℚ)
    have hr0 : (0 : ℚ) ≤ r := Nat.cast_nonneg _
    have hn0 : (0 : ℚ) ≤ (nD : ℚ) := Nat.cast_nonneg _
    have he0 : (0 : ℚ) ≤ (eD : ℚ) := Nat.cast_nonneg _
    have ha : (nD : ℚ) * r ≤ a * Pu := by
      have := sn; rw [div_le_iff₀ hPu] at this; exact this
    have hb : (eD : ℚ) * r ≤ b * Pu := by
      have := se; rw [div_le_iff₀ hPu] at this; exact this
    have hmul : ((nD : ℚ) * r) * ((eD : ℚ) * r) ≤ (a * Pu) * (b * Pu) :=
      mul_le_mul ha hb (by positivity) (le_trans (by positivity) ha)
    calc (nD : ℚ) * eD * (r * r) = ((nD : ℚ) * r) * ((eD : ℚ) * r) := by ring
      _ ≤ (a * Pu) * (b * Pu) := hmul
      _ = a * b * ((Pu : ℚ) * Pu) := by ring
  exact_mod_cast key
end Sif.Clp
