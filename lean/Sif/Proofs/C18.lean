import Sif.Proofs.DecError
import Sif.Proofs.C18Clamp
/-
  C18 — a provider's amount is its pro-rata share of the distributed amount up to one base unit plus
  10^-18 of the distributed amount.
-/
namespace Sif.Clp
open Sif Sif.Dec

theorem ofNat_i (n : Nat) : (Dec.ofNat n).i = ((n * P : Nat) : Int) := rfl

/-- `CalcProviderDistributionAmount`: |amount − (u/U)·D| ≤ 1 + D·10^-18, D = rowanPd as a rational -/
theorem providerAmount_bound {pd : Dec} {pu lu amt : Nat} (hpu : 0 < pu) (hpd : 0 ≤ pd.i)
    (h : providerAmount pd pu lu = .ok amt) :
    let D : ℚ := (pd.i : ℚ) / P
    let share : ℚ := (lu : ℚ) / pu
    (amt : ℚ) ≤ share * D + 1 + D / P ∧ share * D - 1 - D / P ≤ (amt : ℚ) := by
  intro D share
  unfold providerAmount at h
  obtain ⟨pct, hq, h⟩ := bind_ok h
  obtain ⟨pr, hm, h⟩ := bind_ok h
  have hamt : amt = pr.roundInt.toNat := by cases h; rfl
  have hp : (0 : ℚ) < (P : ℚ) := by exact_mod_cast P_pos
  have hpuq : (0 : ℚ) < (pu : ℚ) := by exact_mod_cast hpu
  have ha : 0 ≤ (Dec.ofNat lu).i := by rw [ofNat_i]; exact Int.natCast_nonneg _
  have hb : 0 < (Dec.ofNat pu).i := by
    rw [ofNat_i]; have := Nat.mul_pos hpu P_pos; exact_mod_cast this
  obtain ⟨q0, q1, q2⟩ := quo_err ha hb hq
  obtain ⟨m0, m1, m2⟩ := mul_err q0 hpd hm
  obtain ⟨r0, r1, r2⟩ := roundInt_err m0
  have hamtq : (amt : ℚ) = (pr.roundInt : ℚ) := by
    rw [hamt]
    have : ((pr.roundInt.toNat : Nat) : Int) = pr.roundInt := Int.toNat_of_nonneg r0
    exact_mod_cast congrArg (fun z : Int => (z : ℚ)) this
  -- the exact quotient
  have hx : ((Dec.ofNat lu).i : ℚ) * P / ((Dec.ofNat pu).i : ℚ) = (lu : ℚ) * P / pu := by
    rw [ofNat_i, ofNat_i]; push_cast; field_simp
  rw [hx] at q1 q2
  have hD : (pd.i : ℚ) = D * P := by simp only [D]; field_simp
  have hDn : 0 ≤ D := by simp only [D]; apply div_nonneg; exact_mod_cast hpd; exact hp.le
  have ecancel : (pct.i : ℚ) * pd.i / P = (pct.i : ℚ) * D := by rw [hD]; field_simp
  have hpct_hi : (pct.i : ℚ) * pd.i / P ≤ ((lu : ℚ) * P / pu + 1 / 2) * D := by
    rw [ecancel]; exact mul_le_mul_of_nonneg_right q1 hDn
  have hpct_lo : ((lu : ℚ) * P / pu - 1 / 2 - 1 / P) * D ≤ (pct.i : ℚ) * pd.i / P := by
    rw [ecancel]; exact mul_le_mul_of_nonneg_right q2 hDn
  have hshare : (lu : ℚ) * P / pu * D / P = share * D := by simp only [share]; field_simp
  have hP1 : (1 : ℚ) ≤ P := by exact_mod_cast P_pos
  have hinv : (1 : ℚ) / P ≤ 1 := by rw [div_le_one hp]; exact hP1
  rw [hamtq]
  constructor
  · -- upper
    have : (pr.i : ℚ) / P ≤ (((lu : ℚ) * P / pu + 1 / 2) * D + 1 / 2) / P := by
      apply div_le_div_of_nonneg_right _ hp.le; linarith
    have e : (((lu : ℚ) * P / pu + 1 / 2) * D + 1 / 2) / P = share * D + D / (2 * P) + 1 / (2 * P) := by
      rw [← hshare]; field_simp; try ring
    have h1 : D / (2 * P) ≤ D / P := by
      apply div_le_div_of_nonneg_left hDn hp; linarith
    have h2 : (1 : ℚ) / (2 * P) ≤ 1 / 2 := by
      rw [div_le_div_iff₀ (by positivity) (by norm_num)]; linarith
    linarith
  · -- lower
    have : (((lu : ℚ) * P / pu - 1 / 2 - 1 / P) * D - 1 / 2) / P ≤ (pr.i : ℚ) / P := by
      apply div_le_div_of_nonneg_right _ hp.le; linarith
    have e : (((lu : ℚ) * P / pu - 1 / 2 - 1 / P) * D - 1 / 2) / P
        = share * D - (1 / 2 + 1 / P) * D / P - 1 / (2 * P) := by
      rw [← hshare]; field_simp; try ring
    have hP2 : (2 : ℚ) ≤ P := by
      have : 2 ≤ P := by rw [P_val]; decide
      exact_mod_cast this
    have hhalf : (1 : ℚ) / P ≤ 1 / 2 := by
      rw [div_le_div_iff₀ hp (by norm_num)]; linarith
    have h1 : (1 / 2 + 1 / P) * D / P ≤ D / P := by
      apply div_le_div_of_nonneg_right _ hp.le
      have : (1 / 2 + 1 / (P : ℚ)) ≤ 1 := by linarith
      exact mul_le_of_le_one_left hDn this
    have h2 : (1 : ℚ) / (2 * P) ≤ 1 / 2 := by
      rw [div_le_div_iff₀ (by positivity) (by norm_num)]; linarith
    linarith

end Sif.Clp

namespace Sif.Clp
open Sif Sif.Dec

/-- depth rewards: the pool rewards never sum to more than the block distribution -/
theorem rewardTuples_le (rp : RewardPeriod) (td : Dec) (bd : Nat) :
    ∀ (pools : List (String × Pool)) (remaining mint : Nat) (acc l : List (String × Nat)) (m : Nat),
      mint = amtSum acc →
      rewardTuples rp td bd pools remaining mint acc = .ok (l, m) → m ≤ mint + remaining ∧ m = amtSum l := by
  intro pools
  induction pools with
  | nil =>
    intro remaining mint acc l m hs h
    unfold rewardTuples at h
    cases h
    exact ⟨by omega, by rw [amtSum_reverse]; exact hs⟩
  | cons hd rest ih =>
    intro remaining mint acc l m hs h
    obtain ⟨k, p⟩ := hd
    unfold rewardTuples at h
    split at h
    · cases h; exact ⟨by omega, by rw [amtSum_reverse]; exact hs⟩
    · obtain ⟨pd, _, h⟩ := bind_ok h
      split at h
      · exact ih remaining mint acc l m hs h
      · dsimp only at h
        have hle : (if pd > remaining then remaining else pd) ≤ remaining := by split <;> omega
        obtain ⟨r1, r2⟩ := ih _ _ _ l m (by simp only [amtSum]; omega) h
        exact ⟨by omega, r2⟩

/-- epoch bucket payout: ⌊ rnd18(u/U)·B ⌋ is within one base unit plus B·10^-18 of (u/U)·B -/
theorem bucketAmount_bound {u U B : Nat} {sh a : Dec} (hU : 0 < U)
    (h1 : (Dec.ofNat u).quo (Dec.ofNat U) = .ok sh) (h2 : sh.mulInt B = .ok a) :
    let share : ℚ := (u : ℚ) / U
    ((a.truncateInt.toNat : Nat) : ℚ) ≤ share * B + (B : ℚ) / P ∧ share * B - 1 - (B : ℚ) / P ≤ ((a.truncateInt.toNat : Nat) : ℚ) := by
  intro share
  have hp : (0 : ℚ) < (P : ℚ) := by exact_mod_cast P_pos
  have hUq : (0 : ℚ) < (U : ℚ) := by exact_mod_cast hU
  have ha0 : 0 ≤ (Dec.ofNat u).i := by rw [ofNat_i]; exact Int.natCast_nonneg _
  have hb0 : 0 < (Dec.ofNat U).i := by
    rw [ofNat_i]; have := Nat.mul_pos hU P_pos; exact_mod_cast this
  obtain ⟨q0, q1, q2⟩ := quo_err ha0 hb0 h1
  have hx : ((Dec.ofNat u).i : ℚ) * P / ((Dec.ofNat U).i : ℚ) = (u : ℚ) * P / U := by
    rw [ofNat_i, ofNat_i]; push_cast; field_simp
  rw [hx] at q1 q2
  have hai : a.i = sh.i * (B : Int) := by
    unfold Dec.mulInt at h2; exact chk_ok h2
  have ha : 0 ≤ a.i := by rw [hai]; exact Int.mul_nonneg q0 (Int.natCast_nonneg _)
  obtain ⟨t0, t1, t2⟩ := truncateInt_err ha
  have hcast : ((a.truncateInt.toNat : Nat) : ℚ) = (a.truncateInt : ℚ) := by
    have : ((a.truncateInt.toNat : Nat) : Int) = a.truncateInt := Int.toNat_of_nonneg t0
    exact_mod_cast congrArg (fun z : Int => (z : ℚ)) this
  have haq : (a.i : ℚ) = (sh.i : ℚ) * B := by rw [hai]; push_cast; ring
  have hB : (0 : ℚ) ≤ (B : ℚ) := Nat.cast_nonneg _
  have hsh : (u : ℚ) * P / U * B / P = share * B := by simp only [share]; field_simp
  have hhalf : (1 : ℚ) / P ≤ 1 / 2 := by
    have hP2 : (2 : ℚ) ≤ P := by
      have : 2 ≤ P := by rw [P_val]; decide
      exact_mod_cast this
    rw [div_le_div_iff₀ hp (by norm_num)]; linarith
  rw [hcast]
  constructor
  · have : (a.i : ℚ) / P ≤ ((u : ℚ) * P / U + 1 / 2) * B / P := by
      apply div_le_div_of_nonneg_right _ hp.le
      rw [haq]; exact mul_le_mul_of_nonneg_right q1 hB
    have e : ((u : ℚ) * P / U + 1 / 2) * B / P = share * B + (B : ℚ) / (2 * P) := by
      rw [← hsh]; field_simp; try ring
    have h1 : (B : ℚ) / (2 * P) ≤ B / P := by
      apply div_le_div_of_nonneg_left hB hp; linarith
    linarith
  · have : ((u : ℚ) * P / U - 1 / 2 - 1 / P) * B / P ≤ (a.i : ℚ) / P := by
      apply div_le_div_of_nonneg_right _ hp.le
      rw [haq]; exact mul_le_mul_of_nonneg_right q2 hB
    have e : ((u : ℚ) * P / U - 1 / 2 - 1 / P) * B / P = share * B - (1 / 2 + 1 / P) * B / P := by
      rw [← hsh]; field_simp; try ring
    have h1 : (1 / 2 + 1 / P) * B / P ≤ (B : ℚ) / P := by
      apply div_le_div_of_nonneg_right _ hp.le
      have : (1 / 2 + 1 / (P : ℚ)) ≤ 1 := by linarith
      exact mul_le_of_le_one_left hB this
    linarith

end Sif.Clp
