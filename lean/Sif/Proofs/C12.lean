import Sif.Spec.C12
set_option linter.unusedSimpArgs false
/-
  Helper lemmas for C12 (registry permissions).
-/
namespace Sif.Proofs.C12
open Sif.Registry Sif.Spec.C12

theorem checkPerms_single (e : Entry) (p : Perm) : checkPerms e [p] = e.perms.contains p := by
  simp [checkPerms]

/-- the guard data of the table decides exactly what the decision function says -/
theorem table_sound (reg : Registry) (k : Kind) (m : Msg) :
    evalFacts reg m (table k).guards = allowed reg k m := by
  cases k <;>
    simp only [table, g, allowed, evalFacts, evalFact, evalGuard, List.all_cons, List.all_nil, condHolds,
      Bool.not_true, Bool.false_or, Bool.and_true, checkPerms_single, hasP, lacksP, registered, notAlias,
      swapDirOK, Msg.denom]
  · -- createPool
    cases getEntry reg m.ext <;> simp
  · -- addLiquidity
    cases hn : getEntry reg m.native <;> cases he : getEntry reg m.ext <;> cases m.swapStatus <;> simp [condHolds]
    all_goals (first | rfl | (simp only [Bool.and_comm, Bool.and_assoc, Bool.and_left_comm]))
  · cases getEntry reg m.ext <;> simp
  · cases getEntry reg m.ext <;> simp
  · -- swap
    cases hs : getEntry reg m.sent <;> cases hr : getEntry reg m.received <;> simp
    all_goals (first | rfl | (simp only [Bool.and_comm, Bool.and_assoc, Bool.and_left_comm]))
  · -- transfer
    cases getEntry reg m.token <;> simp
    all_goals (first | rfl | (simp only [Bool.and_comm, Bool.and_assoc, Bool.and_left_comm]))

theorem firstFailing_none {reg : Registry} {m : Msg} {fs : List Fact} :
    firstFailing reg m fs = none ↔ evalFacts reg m fs = true := by
  induction fs with
  | nil => simp [firstFailing, evalFacts]
  | cons f fs ih =>
    simp only [firstFailing, evalFacts, List.all_cons, Bool.and_eq_true]
    cases hf : evalFact reg m f
    · simp
    · simp only [if_true, true_and]
      exact ih

theorem firstFailing_some {reg : Registry} {m : Msg} {fs : List Fact} {f : Fact}
    (h : firstFailing reg m fs = some f) : f ∈ fs ∧ evalFact reg m f = false := by
  induction fs with
  | nil => simp [firstFailing] at h
  | cons x xs ih =>
    simp only [firstFailing] at h
    cases hx : evalFact reg m x
    · rw [hx] at h
      simp only [Bool.false_eq_true, if_false, Option.some.injEq] at h
      subst h
      exact ⟨List.mem_cons_self, hx⟩
    · rw [hx] at h
      simp only [if_true] at h
      exact ⟨List.mem_cons_of_mem _ (ih h).1, (ih h).2⟩

/-! ### the lookup is by exact denom -/
theorem getEntry_denom {reg : Registry} {d : String} {e : Entry} (h : getEntry reg d = some e) : e.denom = d := by
  induction reg with
  | nil => cases h
  | cons x xs ih =>
    simp only [getEntry] at h
    split at h
    · cases h; assumption
    · exact ih h

theorem getEntry_mem {reg : Registry} {d : String} {e : Entry} (h : getEntry reg d = some e) : e ∈ reg := by
  induction reg with
  | nil => cases h
  | cons x xs ih =>
    simp only [getEntry] at h
    split at h
    · cases h; exact List.mem_cons_self
    · exact List.mem_cons_of_mem _ (ih h)

theorem getEntry_none_of_no_denom {reg : Registry} {d : String} (h : ∀ e ∈ reg, e.denom ≠ d) : getEntry reg d = none := by
  cases hg : getEntry reg d with
  | none => rfl
  | some e => exact absurd (getEntry_denom hg) (h e (getEntry_mem hg))

/-! ### registry edits -/
theorem getEntry_setToken_same (reg : Registry) (e : Entry) : getEntry (setToken reg e) e.denom = some e := by
  induction reg with
  | nil => simp [setToken, getEntry]
  | cons x xs ih =>
    simp only [setToken]
    by_cases hx : x.denom = e.denom
    · simp [hx, getEntry]
    · simp [hx, getEntry, ih]

theorem getEntry_cons (x : Entry) (xs : Registry) (d : String) :
    getEntry (x :: xs) d = if x.denom = d then some x else getEntry xs d := rfl

theorem getEntry_setToken_other (reg : Registry) (e : Entry) {d : String} (hd : d ≠ e.denom) :
    getEntry (setToken reg e) d = getEntry reg d := by
  induction reg with
  | nil => simp [setToken, getEntry, Ne.symm hd]
  | cons x xs ih =>
    simp only [setToken]
    by_cases hx : x.denom = e.denom
    · have h1 : ¬ x.denom = d := by rw [hx]; exact Ne.symm hd
      rw [if_pos hx, getEntry_cons, getEntry_cons, if_neg (Ne.symm hd), if_neg h1]
    · rw [if_neg hx, getEntry_cons, getEntry_cons, ih]

theorem removeToken_cons (x : Entry) (xs : Registry) (d : String) :
    removeToken (x :: xs) d = if x.denom = d then removeToken xs d else x :: removeToken xs d := by
  unfold removeToken
  by_cases hx : x.denom = d
  · have hb : (x.denom != d) = false := by simp [hx]
    rw [List.filter_cons, hb, if_pos hx]; simp
  · have hb : (x.denom != d) = true := by simp [hx]
    rw [List.filter_cons, hb, if_neg hx]; simp

theorem getEntry_removeToken_same (reg : Registry) (d : String) : getEntry (removeToken reg d) d = none := by
  induction reg with
  | nil => rfl
  | cons x xs ih =>
    rw [removeToken_cons]
    by_cases hx : x.denom = d
    · rw [if_pos hx]; exact ih
    · rw [if_neg hx, getEntry_cons, if_neg hx]; exact ih

theorem getEntry_removeToken_other (reg : Registry) {d d' : String} (hd : d' ≠ d) :
    getEntry (removeToken reg d) d' = getEntry reg d' := by
  induction reg with
  | nil => rfl
  | cons x xs ih =>
    rw [removeToken_cons]
    by_cases hx : x.denom = d
    · have h1 : ¬ x.denom = d' := by rw [hx]; exact Ne.symm hd
      rw [if_pos hx, getEntry_cons, if_neg h1]; exact ih
    · rw [if_neg hx, getEntry_cons, getEntry_cons, ih]

end Sif.Proofs.C12
