import Sif.Proofs.C02
import Sif.Model.Clp.Hooks
/-
  C02 — the block hooks that do not re-invest (provider distribution, depth rewards) never change
  pool units or provider records.
-/
namespace Sif.Clp
open Sif Sif.AList

/-- `s'` has the same provider records and the same units in every pool as `s` -/
def UPres (s s' : St) : Prop :=
  s'.lps = s.lps ∧ (s.pools.NodupKeys → s'.pools.NodupKeys) ∧
  ∀ sym, (s'.getPool sym).map (·.units) = (s.getPool sym).map (·.units)

theorem UPres.refl (s : St) : UPres s s := ⟨rfl, id, fun _ => rfl⟩

theorem UPres.trans {a b c : St} (h1 : UPres a b) (h2 : UPres b c) : UPres a c :=
  ⟨h2.1.trans h1.1, fun h => h2.2.1 (h1.2.1 h), fun sym => (h2.2.2 sym).trans (h1.2.2 sym)⟩

theorem UPres.of_frame {s s' : St} (hp : s'.pools = s.pools) (hl : s'.lps = s.lps) : UPres s s' :=
  ⟨hl, fun h => by rw [hp]; exact h, fun sym => by simp [St.getPool, hp]⟩

theorem UPres.unitsInv {s s' : St} (h : UPres s s') (hinv : UnitsInv s) : UnitsInv s' := by
  refine ⟨h.2.1 hinv.1, ?_⟩
  intro sym
  have hv := hinv.2 sym
  have hu := h.2.2 sym
  have hl : s'.lpsOf sym = s.lpsOf sym := by simp [St.lpsOf, h.1]
  cases hs : s.getPool sym with
  | none =>
    rw [hs] at hv hu
    cases hs' : s'.getPool sym with
    | none => simpa [hl] using hv
    | some p' => rw [hs'] at hu; simp at hu
  | some p =>
    rw [hs] at hv hu
    cases hs' : s'.getPool sym with
    | none => rw [hs'] at hu; simp at hu
    | some p' =>
      rw [hs'] at hu
      simp at hu
      simp [hl, hu, hv]

/-- rewriting one stored pool without touching its units -/
theorem UPres.setPoolKey {s : St} {sym : String} {p p' : Pool} (hg : s.pools.get (poolKey sym) = some p)
    (hu : p'.units = p.units) : UPres s { s with pools := s.pools.set (poolKey sym) p' } := by
  refine ⟨rfl, fun h => nodupKeys_set _ _ h, ?_⟩
  intro sym'
  show ((s.pools.set (poolKey sym) p').get (poolKey sym')).map (·.units) = _
  rw [get_set]
  by_cases h : sym = sym'
  · subst h; simp [St.getPool, hg, hu]
  · simp [poolKey_ne h, St.getPool]

/-- the same for a raw store key -/
theorem UPres.setKey {s : St} {k : String} {p p' : Pool} (hg : s.pools.get k = some p)
    (hu : p'.units = p.units) : UPres s { s with pools := s.pools.set k p' } := by
  refine ⟨rfl, fun h => nodupKeys_set _ _ h, ?_⟩
  intro sym'
  show ((s.pools.set k p').get (poolKey sym')).map (·.units) = _
  rw [get_set]
  by_cases h : k = poolKey sym'
  · subst h; simp [St.getPool, hg, hu]
  · simp [h, St.getPool]

theorem UPres.setBal (s : St) (a d : String) (v : Nat) : UPres s (s.setBal a d v) :=
  UPres.of_frame rfl rfl

theorem UPres.foldl {β : Type} (f : St → β → St) (hf : ∀ s b, UPres s (f s b)) :
    ∀ (l : List β) (s : St), UPres s (l.foldl f s) := by
  intro l
  induction l with
  | nil => intro s; exact UPres.refl s
  | cons b t ih => intro s; exact (hf s b).trans (ih (f s b))

theorem UPres.foldlM {β : Type} (f : St → β → M St) (hf : ∀ s b s', f s b = .ok s' → UPres s s') :
    ∀ (l : List β) (s s' : St), l.foldlM f s = .ok s' → UPres s s' := by
  intro l
  induction l with
  | nil => intro s s' h; simp [List.foldlM] at h; cases h; exact UPres.refl s
  | cons b t ih =>
    intro s s' h
    simp only [List.foldlM] at h
    obtain ⟨s1, h1, h⟩ := bind_ok h
    exact (hf s b s1 h1).trans (ih s1 s' h)

theorem transferAll_upres (ps : List Payout) :
    ∀ (l : List String) (s : St) (tots : AList Nat) (s' : St) (tots' : AList Nat),
      transferAll ps l s tots = .ok (s', tots') → UPres s s' := by
  intro l
  induction l with
  | nil => intro s tots s' tots' h; unfold transferAll at h; cases h; exact UPres.refl s
  | cons a t ih =>
    intro s tots s' tots' h
    unfold transferAll at h
    split at h
    · rename_i s1 hs
      obtain ⟨p1, l1, _⟩ := sendFromModule_frame hs
      exact (UPres.of_frame p1 l1).trans (ih _ _ _ _ h)
    · obtain ⟨t1, _, h⟩ := bind_ok h
      exact ih _ _ _ _ h

theorem removeRowanFromPools_upres (s : St) (tots : AList Nat) : UPres s (removeRowanFromPools s tots) := by
  unfold removeRowanFromPools
  apply UPres.foldl
  intro s b
  unfold deductRowan
  cases hg : s.pools.get b.1 with
  | none => exact UPres.refl s
  | some p =>
    simp only
    split
    · exact UPres.refl s
    · exact UPres.setKey hg rfl

theorem lppdHook_upres {s s' : St} (h : lppdHook s = .ok s') : UPres s s' := by
  unfold lppdHook at h
  split at h
  · cases h; exact UPres.refl s
  · split at h
    · obtain ⟨d, _, h⟩ := bind_ok h
      split at h
      · unfold lppdRun at h
        obtain ⟨⟨ps, tots⟩, _, h⟩ := bind_ok h
        obtain ⟨⟨s1, tots1⟩, ht, h⟩ := bind_ok h
        cases h
        exact (transferAll_upres ps _ _ _ _ _ ht).trans (removeRowanFromPools_upres s1 tots1)
      · cases h; exact UPres.refl s
    · cases h; exact UPres.refl s

theorem addRewardToPool_upres {s s' : St} {sym : String} {amt : Nat} (h : addRewardToPool s sym amt = .ok s') : UPres s s' := by
  unfold addRewardToPool at h
  split at h
  · cases h; exact UPres.refl s
  · rename_i p hg
    obtain ⟨_, _, h⟩ := bind_ok h
    obtain ⟨_, _, h⟩ := bind_ok h
    cases h
    exact UPres.setPoolKey hg rfl

theorem accumulateRewards_upres {s s' : St} {tuples : List (String × Nat)} (h : accumulateRewards s tuples = .ok s') : UPres s s' := by
  unfold accumulateRewards at h
  refine UPres.foldlM _ ?_ _ _ _ h
  intro s b s' hb
  exact addRewardToPool_upres hb

theorem bumpRpnd_upres {s s' : St} {tots : AList Nat} (h : bumpRpnd s tots = .ok s') : UPres s s' := by
  unfold bumpRpnd at h
  refine UPres.foldlM _ ?_ _ _ _ h
  intro s b s' hb
  obtain ⟨sym, amt⟩ := b
  simp only at hb
  split at hb
  · cases hb; exact UPres.refl s
  · split at hb
    · cases hb; exact UPres.refl s
    · rename_i p hg
      obtain ⟨_, _, hb⟩ := bind_ok hb
      cases hb
      exact UPres.setKey hg rfl

theorem get_map_val {α : Type} (f : α → α) (l : AList α) (k : String) :
    AList.get (l.map (fun e => (e.1, f e.2))) k = (AList.get l k).map f := by
  induction l with
  | nil => rfl
  | cons hd t ih =>
    obtain ⟨k', v⟩ := hd
    simp only [List.map_cons, get_cons]
    split
    · rfl
    · exact ih

theorem resetRpnd_upres (s : St) : UPres s (resetRpnd s) := by
  unfold resetRpnd
  refine ⟨rfl, ?_, ?_⟩
  · intro h
    show NodupKeys (s.pools.map (fun (e : String × Pool) => (e.1, { e.2 with rpnd := 0 })))
    unfold NodupKeys
    have : AList.keys (s.pools.map (fun (e : String × Pool) => (e.1, { e.2 with rpnd := 0 }))) = s.pools.keys := by
      simp [AList.keys, List.map_map, Function.comp_def]
    rw [this]; exact h
  · intro sym
    show (AList.get (s.pools.map (fun (e : String × Pool) => (e.1, { e.2 with rpnd := 0 }))) (poolKey sym)).map (·.units) = _
    rw [get_map_val (fun p : Pool => { p with rpnd := 0 })]
    simp [St.getPool, Option.map_map, Function.comp_def]

theorem distributeRewards_upres {s s' : St} {tuples : List (String × Nat)} {pre : Nat}
    (h : distributeRewards s tuples pre = .ok s') : UPres s s' := by
  unfold distributeRewards at h
  obtain ⟨s0, h0, h⟩ := bind_ok h
  obtain ⟨⟨ps, tots⟩, _, h⟩ := bind_ok h
  obtain ⟨⟨s1, tots1⟩, ht, h⟩ := bind_ok h
  obtain ⟨s2, hb, h⟩ := bind_ok h
  obtain ⟨diff, _, h⟩ := bind_ok h
  cases h
  exact (accumulateRewards_upres h0).trans ((transferAll_upres ps _ _ _ _ _ ht).trans
    ((bumpRpnd_upres hb).trans (UPres.setBal s2 _ _ _)))

theorem distributeTuples_upres {s s' : St} {rp : RewardPeriod} {td : Dec} {bd : Nat}
    (h : distributeTuples s rp td bd = .ok s') : UPres s s' := by
  unfold distributeTuples at h
  obtain ⟨⟨tuples, mint⟩, _, h⟩ := bind_ok h
  dsimp only at h
  refine (UPres.setBal s clpAcct rowan (s.bal clpAcct rowan + mint)).trans ?_
  split at h
  · exact distributeRewards_upres h
  · exact accumulateRewards_upres h

theorem distributeDepthRewards_upres {s s' : St} {rp : RewardPeriod} {bd : Nat}
    (h : distributeDepthRewards s rp bd = .ok s') : UPres s s' := by
  unfold distributeDepthRewards at h
  split at h
  · cases h; exact UPres.refl s
  · obtain ⟨td, _, h⟩ := bind_ok h
    have h0 : UPres s (startReset s rp) := by
      unfold startReset
      split
      · exact resetRpnd_upres s
      · exact UPres.refl s
    unfold afterDepth at h
    split at h
    · cases h; exact h0
    · exact h0.trans (distributeTuples_upres h)

theorem rewardsHook_upres {s s' : St} (h : rewardsHook s = .ok s') : UPres s s' := by
  unfold rewardsHook at h
  split at h
  · cases h; exact UPres.refl s
  · split at h
    · cases h; exact UPres.refl s
    · obtain ⟨d, _, h⟩ := bind_ok h
      obtain ⟨cur, _, h⟩ := bind_ok h
      obtain ⟨bd, _, h⟩ := bind_ok h
      split at h
      · obtain ⟨s1, h1, h⟩ := bind_ok h
        cases h
        exact (distributeDepthRewards_upres h1).trans (UPres.of_frame rfl rfl)
      · cases h; exact UPres.of_frame rfl rfl

theorem endBlocker_upres {s s' : St} (h : endBlocker s = .ok s') : UPres s s' := by
  unfold endBlocker at h
  obtain ⟨s1, h1, h⟩ := bind_ok h
  exact (lppdHook_upres h1).trans (rewardsHook_upres h)

end Sif.Clp

namespace Sif.Clp
open Sif Sif.AList

theorem subBucket_frame {s s' : St} {d : String} {amt : Nat} (h : subBucket s d amt = some s') :
    s'.pools = s.pools ∧ s'.lps = s.lps ∧ s'.bank = s.bank ∧ s'.params = s.params := by
  unfold subBucket at h
  split at h
  · cases h
  · split at h
    · cases h
    · cases h; exact ⟨rfl, rfl, rfl, rfl⟩

theorem payToWallet_upres (s : St) (sym addr : String) (amt : Nat) : UPres s (payToWallet s sym addr amt) := by
  unfold payToWallet
  split
  · exact UPres.refl s
  · rename_i s1 h1
    obtain ⟨p1, l1, _⟩ := subBucket_frame h1
    split
    · rename_i s2 h2
      obtain ⟨p2, l2, _⟩ := sendFromModule_frame h2
      exact UPres.of_frame (p2.trans p1) (l2.trans l1)
    · exact UPres.refl s

/-- re-investing a reward keeps pool units = Σ provider units (the minted units go to the provider) -/
theorem reinvest_units {s s' : St} {sym addr : String} {amt : Nat}
    (hinv : UnitsInv s) (h : reinvest s sym addr amt = .ok s') : UnitsInv s' := by
  unfold reinvest at h
  split at h
  · rename_i pool lp hp hlp
    obtain ⟨⟨nD, eD⟩, hd, h⟩ := bind_ok h
    obtain ⟨uo, hu, h⟩ := bind_ok h
    split at h
    · cases h; exact hinv
    · rename_i u
      obtain ⟨eB, _, h⟩ := bind_ok h
      split at h
      · cases h; exact hinv
      · rename_i s1 hs1
        obtain ⟨lu, hlu, h⟩ := bind_ok h
        cases h
        obtain ⟨p1, l1, _⟩ := subBucket_frame hs1
        have hinv1 : UnitsInv s1 := hinv.congr p1 l1
        obtain ⟨hnD, heD⟩ := depths_spec hd
        -- the empty-side branch returns `none` because the native amount added is 0
        have hne : symmetryState eD amt nD 0 ≠ .emptyPool := by
          intro he
          unfold calculatePoolUnits at hu
          rw [he] at hu
          simp at hu
        have hsum := calculatePoolUnits_sum hu hne
        have hl1 : s1.lpsOf sym = s.lpsOf sym := by simp [St.lpsOf, l1]
        have hpu : pool.units = (s.lpsOf sym).sumBy (·.units) := by
          have := hinv.2 sym; rw [hp] at this; exact this
        apply unitsInv_setPool_setLP hinv1 rfl
        simp only [hl1]
        have := sumBy_set_present (·.units) (s.lpsOf sym) addr
          ({ sym := sym, addr := addr, units := lu, lastUpdated := lp.lastUpdated } : LP) lp hlp
        simp only at this
        have := (Uint.add_ok hlu).1
        omega
  · cases h; exact hinv

theorem bumpRae_upres {s s' : St} {sym : String} {b : Nat} (h : bumpRae s sym b = .ok s') : UPres s s' := by
  unfold bumpRae at h
  split at h
  · cases h; exact UPres.refl s
  · rename_i p hg
    obtain ⟨_, _, h⟩ := bind_ok h
    cases h
    exact UPres.setPoolKey hg rfl

theorem foldlM_inv {β : Type} (P : St → Prop) (f : St → β → M St) (hf : ∀ s b s', P s → f s b = .ok s' → P s') :
    ∀ (l : List β) (s s' : St), P s → l.foldlM f s = .ok s' → P s' := by
  intro l
  induction l with
  | nil => intro s s' hp h; simp [List.foldlM] at h; cases h; exact hp
  | cons b t ih =>
    intro s s' hp h
    simp only [List.foldlM] at h
    obtain ⟨s1, h1, h⟩ := bind_ok h
    exact ih s1 s' (hf s b s1 hp h1) h

theorem epochAsset_units {s s' : St} {sym : String} (hinv : UnitsInv s) (h : epochAsset s sym = .ok s') : UnitsInv s' := by
  unfold epochAsset at h
  split at h
  · cases h; exact hinv
  · dsimp only at h
    split at h
    · cases h; exact hinv
    · obtain ⟨amts, _, h⟩ := bind_ok h
      obtain ⟨s1, hf, h⟩ := bind_ok h
      have h1 : UnitsInv s1 := by
        refine foldlM_inv UnitsInv (payOne sym) ?_ _ _ _ hinv hf
        intro s b s' hp hb
        unfold payOne at hb
        split at hb
        · cases hb; exact (payToWallet_upres s sym b.1 b.2).unitsInv hp
        · exact reinvest_units hp hb
      exact (bumpRae_upres h).unitsInv h1

theorem afterEpochEnd_units {s s' : St} (hinv : UnitsInv s) (h : afterEpochEnd s = .ok s') : UnitsInv s' := by
  unfold afterEpochEnd at h
  exact foldlM_inv UnitsInv epochAsset (fun s b s' hp hb => epochAsset_units hp hb) _ _ _ hinv h

end Sif.Clp
